#!/usr/bin/env python3
"""refactor_prompt.py <PID> <n>: prompt for a sub-agent that writes a HARMLESS (property-preserving) rewrite of the code a
property is anchored in — used to test that the checks raise no alarm on code where the property still holds."""
import json, sys
pid, n = sys.argv[1], sys.argv[2]
p = next(json.loads(l) for l in open('/verif/properties.jsonl') if json.loads(l)['id'] == pid)
ws = f'/tmp/r/{pid}_{n}'
print(f"""You are helping to evaluate a verification effort for the Python project MIT-LAE/AEIC (aviation emissions inventory code).
You get ONE semantic property that the code satisfies, and a scratch git worktree of the repository. Your job: write a realistic,
non-trivial REFACTORING / harmless rewrite of the library code involved in this property that PRESERVES the property (and all
other observable behaviour of the public API), the way a maintainer tidying up or optimising the code would.

Property {p['id']}: {p['title']}
Statement: {p['statement']}
Quantified over: {p['quantifier']['text']}
Code involved (paths relative to the repository root): {', '.join(p['anchors']['files'])}

Workspace: {ws}/repo is your own git worktree of the repository (work ONLY there and in {ws}; never touch /repo, /verif or any
other directory under /tmp; do not read anything under /verif). Python: /venv/bin/python. Run the project's tests with
  cd {ws}/repo && PYTHONPATH={ws}/repo/src /venv/bin/python -m pytest -q -p no:cacheprovider
(about one minute for the whole suite; the sandbox has no network). IMPORTANT: always set PYTHONPATH={ws}/repo/src, otherwise the
installed copy of the library is imported instead of your worktree.

What makes a good rewrite:
 * It touches the code that implements the property (the central functions in the files listed), not comments or unrelated code:
   e.g. extract or inline a helper, rename locals/private helpers, reorder independent statements, replace a loop by a
   comprehension or vectorised expression that computes bit-identical results (or the reverse), restructure conditionals
   (early returns, merged/split conditions), introduce a local variable for a repeated expression, change an internal data
   structure for an equivalent one, rewrite an error message text (same exception type), add logging or assertions that never fire.
 * It must NOT change any value returned, any exception type raised, any file written, or the order of observable effects, for
   ANY input — not even in the last floating-point bit (avoid re-associating floating-point arithmetic). Be careful: the point is
   that the property and the behaviour are exactly preserved.
 * Public names and signatures stay as they are. Several independent small rewrites in the listed files are welcome (aim for
   a diff of roughly 30-120 changed lines in total).
 * The existing test-suite, unedited, still passes completely (run the WHOLE suite at the end and say so).

Deliver, in {ws}:
 * patch.diff   — `git -C {ws}/repo diff` of your change (source files only)
 * notes.md     — what you rewrote and why each rewrite preserves behaviour exactly; the test-suite result
Do NOT use `git stash` (the stash is shared by all worktrees). Leave the worktree with the change APPLIED.
Final message: a short summary.""")
