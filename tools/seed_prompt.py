#!/usr/bin/env python3
"""seed_prompt.py <PID> <n>: prints the prompt for a fresh mutation-seeding sub-agent (contains only the property text)."""
import json, sys
pid, n = sys.argv[1], sys.argv[2]
p = next(json.loads(l) for l in open('/verif/properties.jsonl') if json.loads(l)['id'] == pid)
ws = f'/tmp/s/{pid}_{n}'
ideas = json.load(open('/verif/tools/seed_ideas.json'))
prev = [v[0] for k, v in sorted(ideas.items()) if k.startswith(pid + '_')]
AVOID = ''
if prev:
    AVOID = ('\nEarlier reviewers already proposed the following changes for this property; propose something DIFFERENT in kind (another '
             'function, another mechanism, another clause of the property):\n' + ''.join(f' - {x}\n' for x in prev))
print(f"""You are helping to evaluate how well a verification effort protects the Python project MIT-LAE/AEIC (aviation emissions
inventory code) against regressions. You get ONE semantic property that the code is supposed to satisfy, and a scratch git
worktree of the repository. Your job: write a realistic change to the library source that BREAKS this property while the
code still imports and the project's existing test-suite still passes, plus a small demonstration that exposes the breakage.

Property {p['id']}: {p['title']}
Statement: {p['statement']}
Quantified over: {p['quantifier']['text']}
Code involved (paths relative to the repository root): {', '.join(p['anchors']['files'])}

Workspace: {ws}/repo is your own git worktree of the repository (work ONLY there and in {ws}; never touch /repo, /verif or any
other directory under /tmp/s or /tmp/b; do not read anything under /verif). Python: /venv/bin/python. Run the project's tests with
  cd {ws}/repo && PYTHONPATH={ws}/repo/src /venv/bin/python -m pytest -q -p no:cacheprovider
(about one minute for the whole suite; the sandbox has no network). IMPORTANT: always set PYTHONPATH={ws}/repo/src (also for your
demonstration), otherwise the installed copy of the library is imported instead of your worktree.

{AVOID}
What makes a good change:
 * It is the kind of mistake a maintainer could plausibly make (a refactor gone slightly wrong, an optimisation, a changed
   boundary, a reordered step, a forgotten reset, swapped arguments, a cache that is not invalidated, an error path that
   swallows or mislabels something, two sites that each look fine alone ...), not sabotage, not a comment, not dead code.
 * It needs something SPECIFIC to manifest — a particular interleaving, a fault at a particular point, a multi-step sequence of
   operations, an unusual but legal input, a rare branch, a boundary value — so that ordinary use and the existing tests do not
   expose it at once. Changes that break behaviour on every call are of little value.
 * It really violates the property as stated above (not just some other expectation), and you can show it.
 * The existing test-suite, unedited, still passes completely with the change (run the WHOLE suite at the end and say so).

Deliver, in {ws}:
 * patch.diff   — `git -C {ws}/repo diff` of your change (source files only; do not add tests to the repo)
 * demo.py      — a self-contained script (run as `PYTHONPATH={ws}/repo/src /venv/bin/python {ws}/demo.py`) that exits 0 on the
                  unchanged code and exits non-zero (with a clear message) on the changed code, because the property is violated
 * notes.md     — which clause of the property breaks, what exactly is needed for it to manifest, what you ran (test-suite result
                  with the change, demo result with and without the change)
Verify all of this yourself: apply/unapply the patch (`git -C {ws}/repo apply -R {ws}/patch.diff` then `git -C {ws}/repo apply {ws}/patch.diff`; do NOT use `git stash`: the stash is shared by all worktrees) and run demo.py both
ways. Leave the worktree with the change APPLIED. Final message: a short summary (the change, why it is subtle, results).""")
