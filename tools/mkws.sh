#!/bin/sh
# mkws.sh <tag>: scratch builder workspace = copy of /verif (with .lake) + a git worktree of /repo on branch b-<tag>
set -e
tag=$1
d=/tmp/b/$tag
mkdir -p $d
rsync -a --exclude .git /verif/ $d/verif/
git -C /repo worktree add -q -b b-$tag $d/repo HEAD
echo $d
