#!/usr/bin/env python3
"""Builds /verif/known_findings.json from findings.d/*.json, mapping builder-branch commits to the commits on /repo main
(by commit subject). Run by hand after integrating fixes; never at check time."""
import glob
import json
import subprocess


def git(*a):
    return subprocess.run(['git', '-C', '/repo', *a], capture_output=True, text=True).stdout


main_log = {}
for ln in git('log', '--format=%H\t%s', 'main').splitlines():
    h, s = ln.split('\t', 1)
    main_log.setdefault(s, h)
try:
    previous = {f['id']: f for f in json.load(open('/verif/known_findings.json'))['findings']}
except Exception:
    previous = {}
out = []
for p in sorted(glob.glob('/verif/findings.d/*.json')):
    j = json.load(open(p))
    items = j if isinstance(j, list) else j.get('findings', j.get('entries', []))
    for f in items:
        f = dict(f)
        c = f.get('commit')
        if f.get('status') == 'fixed' and c:
            subj = git('log', '-1', '--format=%s', c).strip()
            mh = main_log.get(subj)
            if not mh and f['id'] in previous and previous[f['id']].get('branch_commit') == c:
                # the builder branch is gone (fresh sandbox): keep the mapping recorded when it was integrated
                f['branch_commit'] = c
                f['commit'] = previous[f['id']]['commit']
            elif not mh:
                print('WARNING: no main commit for', f['id'], c, subj)
            else:
                f['branch_commit'] = c
                f['commit'] = mh[:12]
            f['line'] = f"fixed: property={f['property']} {f['commit']} {f.get('what', '')}"
        out.append(f)
json.dump({'findings': out}, open('/verif/known_findings.json', 'w'), indent=1)
for f in out:
    print(f['property'], f['status'], f.get('commit'), f['id'])
