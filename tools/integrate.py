#!/usr/bin/env python3
"""integrate.py <tag>: copy a builder workspace's new files into /verif and merge the three registry files."""
import filecmp
import os
import re
import shutil
import subprocess
import sys
from pathlib import Path

tag = sys.argv[1]
src = Path(f'/tmp/b/{tag}/verif')
dst = Path('/verif')
SKIP_DIRS = {'.git', '.lake', 'evidence', 'replays', 'tools', '__pycache__'}
SKIP_FILES = {'DESIGN.md', 'properties.jsonl', 'MANIFEST.json', 'known_findings.json', 'check', 'setup.sh', '.gitignore'}
REGISTRY = {'lean/AeicModel.lean', 'lean/Driver.lean', 'lean/AeicProofs.lean'}
copied = []
for root, dirs, files in os.walk(src):
    dirs[:] = [d for d in dirs if d not in SKIP_DIRS]
    for f in files:
        p = Path(root) / f
        rel = p.relative_to(src)
        s = str(rel)
        if s in REGISTRY or f in SKIP_FILES or s.startswith('harness/common/') or s == 'harness/README.md' or s == 'harness/__init__.py':
            continue
        if s == 'lean/AeicModel/Generated/Constants.lean' or s.startswith('lean/lake-manifest') or s in ('lean/lakefile.toml', 'lean/lean-toolchain', 'lean/.gitignore'):
            continue
        q = dst / rel
        if q.exists() and filecmp.cmp(p, q, shallow=False):
            continue
        if q.exists():
            # a file I also have: only take it if it did not exist at fork time (i.e. is not one of my own shared files)
            base = subprocess.run(['git', '-C', str(dst), 'log', '--oneline', '-1', '--', s], capture_output=True, text=True).stdout
            if base.strip():
                print('CONFLICT (kept mine):', s)
                continue
        q.parent.mkdir(parents=True, exist_ok=True)
        shutil.copy2(p, q)
        copied.append(s)
print('copied', len(copied))
for c in copied:
    print('  ', c)

# registry merges
def merge_imports(rel):
    a = (src / rel).read_text().splitlines()
    b = (dst / rel).read_text().splitlines()
    add = [ln for ln in a if ln.startswith('import ') and ln not in b]
    if add:
        (dst / rel).write_text('\n'.join(b + add) + '\n')
        print(rel, '+', add)

merge_imports('lean/AeicModel.lean')
merge_imports('lean/AeicProofs.lean')
# Driver handlers
a = (src / 'lean/Driver.lean').read_text()
b = (dst / 'lean/Driver.lean').read_text()
ha = re.findall(r'\("([a-z0-9_]+)",\s*([A-Za-z0-9_.]+)\)', a[a.index('def handlers'):a.index('def dispatch')])
hb = re.findall(r'\("([a-z0-9_]+)",\s*([A-Za-z0-9_.]+)\)', b[b.index('def handlers'):b.index('def dispatch')])
new = [h for h in ha if h not in hb]
if new:
    allh = hb + new
    body = ',\n'.join(f'  ("{k}", {v})' for k, v in allh)
    b2 = b[:b.index('def handlers')] + 'def handlers : List (String × (String → Json → Except String Json)) := [\n' + body + '\n]\n\n' + b[b.index('def dispatch'):]
    # keep doc comment placement
    (dst / 'lean/Driver.lean').write_text(b2)
    print('Driver handlers +', new)
# other Driver differences?
extra_imports = [ln for ln in a.splitlines() if ln.startswith('import ') and ln not in b]
if extra_imports:
    print('NOTE: Driver.lean extra imports in workspace:', extra_imports)
