#!/usr/bin/env python3
"""eval_seed_ws2.py <PID> <workspace> <verif-copy> [--checks=..] [--tests]: (checks run from a frozen copy of /verif)
 like eval_seed.py but runs everything against the seeder's own worktree
(AEIC_REPO=<ws>/repo), so several can run in parallel. Does not touch /repo. Writes <ws>/eval.json."""
import json, os, subprocess, sys, time
from pathlib import Path
pid, ws, VD = sys.argv[1], Path(sys.argv[2]), sys.argv[3]
checks = [pid]
TESTS = '--tests' in sys.argv
for a in sys.argv[4:]:
    if a.startswith('--checks'):
        checks = a.split('=', 1)[1].split(',')
repo = ws / 'repo'
def sh(cmd, **kw):
    return subprocess.run(cmd, shell=True, capture_output=True, text=True, **kw)
patch = ws / 'patch.diff'
env = dict(os.environ, PYTHONPATH=str(repo / 'src'), AEIC_PATH=str(repo / 'tests/data'))
meta = {'property': pid}
# ensure patch applied
if sh(f'git -C {repo} apply --check -R {patch}').returncode != 0:
    sh(f'git -C {repo} checkout -- .'); sh(f'git -C {repo} apply {patch}')
sh(f'git -C {repo} apply -R {patch}')
r0 = sh(f'/venv/bin/python {ws}/demo.py', env=env, cwd='/tmp'); meta['demo_without'] = r0.returncode
sh(f'git -C {repo} apply {patch}')
r1 = sh(f'/venv/bin/python {ws}/demo.py', env=env, cwd='/tmp'); meta['demo_with'] = r1.returncode
if TESTS:
    t = sh(f'cd {repo} && /venv/bin/python -m pytest -q -p no:cacheprovider --timeout=900 2>&1 | grep -E "passed|failed|error" | tail -2', env=env)
    meta['tests_with_patch'] = t.stdout.strip()
meta['checks'] = {}
for c in checks:
    t0 = time.time()
    r = sh(f'cd {VD} && AEIC_REPO={repo} ./check {c} --tier quick')
    lines = [ln for ln in r.stdout.splitlines() if ln.startswith('VIOLATION') or ln.startswith('[' + c) or ln.startswith('KNOWN')]
    rep = None
    for ln in r.stdout.splitlines():
        if ln.startswith('VIOLATION') and 'replay=' in ln:
            rp = ln.split('replay=')[1].split()[0]
            try:
                j = json.loads(Path(rp).read_text()); f = j.get('first', {})
                rep = {'kind': j.get('kind'), 'count': j.get('count'), 'clause': f.get('clause'), 'detail': (f.get('detail') or '')[:300],
                       'broken': j.get('broken_obligations', [])[:3], 'divergence': (j.get('divergences') or [{}])[0].get('correspondence')}
            except Exception as e:
                rep = {'error': str(e)}
    meta['checks'][c] = {'exit': r.returncode, 'summary': lines[-1][:200] if lines else r.stdout[-300:] + r.stderr[-300:], 'violation_line': next((l for l in lines if l.startswith('VIOLATION')), None), 'replay': rep, 'wall_s': round(time.time() - t0, 1)}
(ws / 'eval.json').write_text(json.dumps(meta, indent=1))
print(pid, 'demo', meta['demo_without'], meta['demo_with'], {c: (v['exit'], (v['replay'] or {}).get('clause') or (v['replay'] or {}).get('divergence')) for c, v in meta['checks'].items()})
