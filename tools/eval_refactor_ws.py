#!/usr/bin/env python3
"""eval_refactor_ws.py <PID> <workspace>: runs the quick check of <PID> against a workspace holding a HARMLESS rewrite
(AEIC_REPO=<ws>/repo); the expected result is exit 0. Writes <ws>/eval.json."""
import json, subprocess, sys, time
from pathlib import Path
pid, ws = sys.argv[1], Path(sys.argv[2])
repo = ws / 'repo'
def sh(cmd, **kw):
    return subprocess.run(cmd, shell=True, capture_output=True, text=True, **kw)
patch = ws / 'patch.diff'
if sh(f'git -C {repo} apply --check -R {patch}').returncode != 0:
    sh(f'git -C {repo} checkout -- .'); sh(f'git -C {repo} apply {patch}')
t0 = time.time()
r = sh(f'cd /verif && AEIC_REPO={repo} ./check {pid} --tier quick')
lines = [ln for ln in r.stdout.splitlines() if ln.startswith('VIOLATION') or ln.startswith('[' + pid) or ln.startswith('KNOWN')]
rep = None
for ln in r.stdout.splitlines():
    if ln.startswith('VIOLATION') and 'replay=' in ln:
        rp = ln.split('replay=')[1].split()[0]
        try:
            j = json.loads(Path(rp).read_text()); f = j.get('first', {})
            rep = {'kind': j.get('kind'), 'count': j.get('count'), 'clause': f.get('clause'), 'detail': (f.get('detail') or '')[:400],
                   'broken': j.get('broken_obligations', [])[:3], 'divergence': (j.get('divergences') or [{}])[0].get('correspondence'),
                   'divergence_detail': str((j.get('divergences') or [{}])[0].get('detail'))[:300]}
        except Exception as e:
            rep = {'error': str(e)}
meta = {'property': pid, 'kind': 'harmless-rewrite', 'exit': r.returncode, 'summary': lines[-1][:220] if lines else (r.stdout[-300:] + r.stderr[-300:]),
        'violation_line': next((l for l in lines if l.startswith('VIOLATION')), None), 'replay': rep, 'wall_s': round(time.time() - t0, 1),
        'diffstat': sh(f'git -C {repo} diff --shortstat').stdout.strip()}
(ws / 'eval.json').write_text(json.dumps(meta, indent=1))
print(pid, 'refactor exit', r.returncode, rep and (rep.get('clause') or rep.get('divergence') or rep.get('broken')))
