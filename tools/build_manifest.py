#!/usr/bin/env python3
"""Writes /verif/MANIFEST.json. Edit the tables below, then run."""
import json
from pathlib import Path

ROOT = Path('/verif')
P = {
 'C01': ('Emissions', 'Lean theorems over ℝ on a generic-scalar model of the inventory assembly (windowing, LTO mode zeroing, APU/GSE parts, totals, NOx/SOx splits, life-cycle term) + correspondence of the Float model with compute_emissions on generated flights/configurations + the 17 balance clauses on the implementation output',
         'EI arrays enter the model as inputs (C12 decides the EI kernels); IEEE rounding not modelled (rtol 1e-9); option combinations that raise belong to C11'),
 'C02': ('Container+Builder', 'Lean models of the growable point container (np.resize semantics, make_point, slicing) and of the legacy builder (altitude schedule with clamps/refusals, starting mass, level-change and cruise folds over a performance oracle, mass iteration, np.interp resampling); theorems: container refines the list of appended points across every expansion, mass−fuel constant, monotone bookkeeping, first point, positions on track, altitude schedule, unflyable missions rejected, resampling identity/linearity; correspondence with LegacyBuilder.fly on generated missions, airports and performance tables (bitwise on returned flights)',
         'performance model and ground track enter the model as lookup tables recorded from the implementation during the compared flight (C06/C15 decide those); weather-on flights covered by clauses only; "all values finite" is a clause on the implementation'),
 'C17': ('Builder', 'Lean state machine of Builder.fly (context construction → run → finally delete; attribute routing) and of mass iteration over an arbitrary residual oracle; theorems: result independent of builder state and of any history of prior successful/failing flights, post-state clean, constructor failures surface the original reason, mass iteration returns within tolerance or reports non-convergence; correspondence on sequences of valid and failing missions on one builder vs fresh builders',
         'one open finding (caller-supplied starting mass never sets total_fuel_mass ⇒ internal TypeError) accepted in as-is or intended form'),
 'C03': ('StoreCodec', 'Lean model of the NetCDF codec (encode/decode per dimension case with the file species list, optional/required handling, convert_in, layouts, create_associated as map, digests); theorems decode∘encode = id for every field-set shape/species subset/unset pattern under the explicit `fits` predicate, layout independence, reopen identity, slot injectivity on the regenerated Species order, digest mismatch detection (MD5 injectivity as hypothesis); correspondence with real stores on generated registered field sets',
         'netCDF4/HDF5 as a typed array store with fill values; MD5 as an injective oracle (hypothesis); four open findings accepted in as-is form (unset optional string reads empty, None species field, species dimension fixed by first trajectory, digest text not injective)'),
 'C12': ('EI', 'generic-scalar Lean transcription of the cited equations (ISA, FFM2 SLS, BFFM2 NOx + speciation, BFFM2 HC/CO, SOx, FOA3 / fuel-flow PMvol, SCOPE11, MEEM); theorems over ℝ (pressure/altitude inverses, continuity at the tropopause, linear scaling, clamping, sulfur conservation, non-negativity, thrust category totality/monotonicity); Float model vs numpy implementation rtol 1e-9 over the whole stated input range',
         '"agree with the published equations" means with our transcription of them (auditable in AeicModel/EI.lean); libm vs numpy 1-ulp differences tolerated; two open findings (BFFM2 humidity reference constant, MEEM pressure coefficient unbounded) accepted in as-is form'),
 'C15': ('Geo', 'Lean model of GroundTrack (cumulative index, bisect lookup, location, overstep, step, azimuth mod 360) and Mission.gc_distance over an abstract geodesic solver; theorems under per-leg geodesic laws (hypotheses, shown satisfiable by a Manhattan-world instance): total = Σ leg distances, location on track at d, step = location, overstep on the same geodesic, azimuth in [0,360], out of range refused, gc distance = track length and symmetric; correspondence with an exact Manhattan stub (exact) and with pyproj as oracle',
         'that pyproj geodesics are WGS-84 geodesics is trusted; the float fact (−ε) % 360.0 == 360.0 is checked bitwise by the harness'),
 'C16': ('Wind', 'Lean model of ISA pressure level, slab/hour selection, trilinear interpolation (outside ⇒ refused), heading decomposition (as-is and intended), hypot; theorems over ℝ for the intended variant (zero wind, tailwind adds, headwind subtracts, rotation invariance, bounds, interpolation within corner values) and for the as-is code (zero wind, bounds) with a proved negation witness; correspondence on synthetic ERA5-style files',
         'xarray/scipy interpolation re-modelled; one open finding (heading components swapped; repair would change a pinned test value) accepted in as-is form'),
 'C04': ('Grid', 'Lean theorems over ℝ (pieces of a segment sum to the segment value times the length ratio; exact conservation for an additive measure; never less for a metric; antimeridian split and zero-length rule) on a line-by-line model of grid.py + correspondence with Gridder.grid_trajectory under an exact stub measure (bit-identical) and under real pyproj',
         'the size of the great-circle excess is measured, not proved; shapely stubbed (polygon gridding untouched); numpy searchsorted/sort re-modelled'),
 'C05': ('Grid', 'Lean theorems over ℝ (each piece lies in one cell, path order, share = length share, altitude/time/state from the start point, untouched cells get nothing, output lengths match) on the same grid model + correspondence + parametric and dense-sampling oracles on the implementation output',
         'completeness direction (every entered cell reported) is checked by the oracles, not stated as a theorem; float ties at grid corners canonicalised'),
 'C06': ('PerfTable', 'Lean model of the table-based performance model (validation, sub-tables, 1-D/2-D linear interpolation with bounds rejection, min/max, the lazy interpolator cache over call histories, PTF unit conversions and build_performance_table); theorems: nodes reproduced exactly (also in metres, using the regenerated unit constants: FL_TO_METERS·METERS_TO_FL = 1 re-proved on every run), bounded by corner values, ContinuousOn in level and mass, depends only on (altitude, mass, phase) for all call histories, outside rejected, min/max = extremes, incomplete grid refused, PTF rows reproduced; correspondence on generated tables, query states and rendered PTF text (bit-identical doubles)',
         'the PTF regex parser is covered by correspondence only; scipy interpn re-modelled; one open finding (per-phase mass count checked lazily) accepted in as-is or intended form'),
 'C07': ('Store', 'refinement proof: for every op history the store state machine (sessions, next index, LRU cache with reload, in-memory no-eviction flag) produces exactly the outputs of an append-only list specification (commuting diagram + inductive invariant over all reachable states) + correspondence of model outputs and cache key sets with a real TrajectoryStore after every op',
         'netCDF4/HDF5 abstracted as a list along the trajectory dimension; cachetools.LRUCache re-modelled; payload contents opaque (C03); negative indices outside the property'),
 'C08': ('Store+Merge', 'the same refinement (get_flight = dictionary lookup for every history incl. lookups before sync, append sessions, in-memory stores) + theorem that stable sort + bisect finds the first trajectory with the id + merged index with per-store offsets = dictionary over the concatenation; correspondence on identified stores and merged stores',
         'identifiers distinct (as the property states); netCDF index group abstracted as (id, index) pairs'),
 'C09': ('Merge', 'theorems: cumulative-count lookup with bisect_left and negative Python local index = indexing the concatenation, for all lists of inputs; merged len; merged flight lookup; associated stores stay aligned; a completed merge opens as the concatenation; mismatching inputs refused with nothing touched; correspondence with real merges (list and pattern, refusals, associated files)',
         'file system abstracted (paths ↦ store files, one output directory); species lists assumed identical across inputs'),
 'C10': ('Store+Merge', 'theorems: a rejected add leaves the abstract state unchanged and every continuation behaves as if it had not happened (all reachable states); merge = step sequence over an abstract FS: refused ⇒ unchanged, exception at ANY step ⇒ restored, kill at ANY step ⇒ every input readable from exactly one place, metadata present ⇒ complete; correspondence with invalid adds at every position, refusals + retry, an injected exception at every FS step and a process kill (fork + os._exit) at every step',
         'POSIX rename atomicity and netCDF durability assumed; faults exhibited at call boundaries (os.mkdir/os.rename/index creation/json.dump), not inside HDF5; single fault per run'),
 'C11': ('Dispatch', 'Lean model of compute_emissions as an abstract interpretation over key sets; theorems by case analysis for ALL configurations (no internal error, refusals name the method, disabled species absent, ok ⇒ balanced shape); option value sets regenerated from the source and the 41 472-point space enumerated; correspondence on the product of documented options',
         'values are C01/C12 business: the model covers key sets, structural zeros and the sum structure'),
 'C13': ('Schedule', 'Lean theorems on day-number calendar arithmetic (all years), one instance per matching date, UTC = local − offset, count field, skip reasons, distance plausibility (as-is and repaired variants) + correspondence with CSVEntry.from_csv_row / OAGDatabase.add into SQLite on generated rows',
         'tz offsets, zone names and geodesic distances are oracles supplied by the harness (zoneinfo, timezonefinder, pyproj); one open finding (swapped GEOD.inv arguments) accepted in as-is form'),
 'C14': ('Query', 'Lean model of Filter/Query SQL builders (condition forms, render, query object state) and of SQLite evaluation of those forms; theorems: conditions ⇔ documented predicate, placeholders = params for any number of rebuilds, rebuild same answer, earlier SQL stays valid, empty filter selects all, sorted/limit/offset, count, frequent routes; correspondence on SQL text (tokenised) and on results over generated databases',
         'SQLite trusted for evaluating the rendered fragments (validated by result comparison); sample size checked statistically'),
 'C18': ('Config', 'theorem that the configuration singleton refines the three-state reference machine for every history (loads failing at every stage, gets, resets, reads, mutations); failed load leaves the state unchanged; overlay one-level characterisation and precedence theorem for deep_update; correspondence with Config.load/get/reset/proxy on generated op sequences and with deep_update on random nested dictionaries',
         'pydantic (field validation, frozen models, validator order) and tomllib modelled as load stages; in-place mutation of list-valued settings is outside the property as checked'),
 'C19': ('Bada', 'generic-scalar Lean model of BADA-3 thrust/fuel-flow/specific-ground-range/mass updates/iteration drivers; theorems over ℝ (mass profile starts/ends at the prescribed mass, never increases, step decrease = trapezoid, thrust ≤ max, negative thrust replaced, cruise factor only in cruise, initial mass ≤ MTOW) + correspondence with Bada3FuelBurnModel (bit-identical updates)',
         'no theorem about rounding; BADA idle fuel flow outside the property'),
 'C20': ('ThreadGuard', 'inductive-invariant proof of mutual exclusion for the line-level guard program under every schedule and any number of threads (plus repeated calls), race witness for the unlocked guard; correspondence: real threads under a sys.settrace line scheduler, all interleavings, outcome and traced-line counts compared with the model',
         'switch points finer than a source line not exhibited; CPython threading.Lock trusted'),
}
PENDING = {
}
# properties whose numerical source is additionally regenerated into Lean by the kernel translator (DESIGN 9.5b/9.5c)
TIE = {
 'C01': ('the GSE and APU parts of the source (emissions/gse.py, emissions/apu.py: every species, all four aircraft classes) are regenerated into Lean by the symbolic translator on every run and proved equal to the model (KernelBridge2), so the NOx/SOx splits and amount = index × fuel are also theorems about the source text (src_gse_splits, src_apu_amount_eq_index_times_fuel, src_apu_splits); the assembly itself is regenerated as vector kernels (third translator generation: per-segment fuel burn, the emission window of _trajectory_slice and the slice stores of get_trajectory_emissions, amounts = index × burn, windowed fuel sum, per-species total of sum_total_emissions, life-cycle term) and proved equal to the model (KernelBridge5), so segment = index × burn, every kilogram counted once and total = sum of parts are theorems about the source text for trajectories of every length (src_segment_eq_index_times_burn, src_segment_burn_telescopes, src_total_eq_sum_of_parts, src_assembly_is_model)',
         'translator harness/common/pykern.py (symbolic evaluation of the source AST), validated by executing the generated definitions next to the real functions'),
 'C02': ('the altitude schedule of LegacyContext.__init__ and calc_starting_mass are regenerated into Lean from the source on every run and proved equal to the model (src_schedule_is_model, src_schedule_clamps, src_starting_mass_le_mtom, src_starting_mass_is_model); ONE generic iteration of the level-change loop and of the cruise loop (legacy.py) is regenerated in loop mode (13 kernels) and proved equal to the step functions lvlNext / crzNext whose folds the flight theorems are about (KernelBridge3); mass − fuel invariance, the non-negative fuel clamp and monotone time / distance per iteration are theorems about the source text for every state (src_level_step_keeps_mass_minus_fuel, src_level_step_never_gains_fuel, src_cruise_step_monotone, src_level_step_is_model, src_cruise_step_is_model)',
         'translator harness/common/pykern.py, validated against real LegacyContext / LegacyBuilder objects'),
 'C12': ('the ISA functions, EI_SOx, FFM2, the BFFM2 humidity correction and regression evaluation, the NOx speciation percentages, the HC/CO ambient factor and the MEEM compressor chain are regenerated into Lean from the source on every run and proved equal to the model (KernelBridge), so the inverses, sulfur conservation, speciation sums etc. are also theorems about the source text (src_*); the two open findings are theorems of the form "the source is the as-is variant or the intended variant"',
         'translator harness/common/pykern.py, validated by executing the generated definitions next to the real functions (inputs and local variables captured from the live frames)'),
 'C16': ('the vector sum at the end of Weather.get_ground_speed and the ISA pressure function are regenerated into Lean from the source on every run; src_ground_speed_variant proves the source is the as-is or the intended decomposition and src_zero_wind_and_bounds holds for both',
         'translator harness/common/pykern.py, validated against a real Weather object'),
 'C17': ('the residual Builder._fly_iteration returns and the correction one pass of the while loop of Builder._iterate_mass applies (builders/base.py) are regenerated into Lean on every run and proved equal to the residual / correction of the model whose iterateMass the tolerance theorems are about (KernelBridge3.iterate_mass); the dry mass is the same for every iterate and the residual is the leftover trip fuel relative to the trip fuel — theorems about the source text (src_mass_correction_keeps_dry_mass, src_residual_is_relative_leftover, src_iteration_is_model)',
         'translator harness/common/pykern.py (loop mode on the while loop), validated on real iterated flights by observing the running frames'),
 'C18': ('the statements of Config.load, of the after-validators (definition order) and of Config.reset that can raise, test the singleton or assign it are regenerated from config/core.py into event programs on every run (cfgLoadProgram, cfgConstructProgram, cfgResetProgram); a general lemma (exec_flat, induction over programs) and kernel-decided shape facts give: the load of the source is the staged model on the singleton state and on whether it raises, a load that raises at any stage leaves the singleton untouched, a second configuration is refused for load AND for direct construction (src_load_is_model, src_failed_load_leaves_state, src_second_configuration_refused, src_programs_shape)',
         'translator harness/common/cfgprog.py (its reading of which statements can raise, and at which stage); the numerical-kernel baseline fallback does not apply here: a program the event language cannot express is a broken obligation'),
 'C19': ('the thrust / fuel-flow / specific-ground-range methods of BADA/model.py (three engine classes, inheritance and engine dispatch resolved) are regenerated into Lean from the source on every run and proved equal to the model (KernelBridge: bada_thrust, bada_sgr, …), so thrust ≤ max, negative thrust replaced and the cruise factor are also theorems about the source text (src_*); the two cumulative-trapezoid mass updates of BADA/fuel_burn_base.py (array and scalar segment lengths) are regenerated as vector kernels and proved equal to massFwd / massBwd (KernelBridge4), so start / end mass, step decrease = trapezoid of its own segment and a never-increasing profile are theorems about the source text for arrays of every length (src_mass_update_forward, src_mass_update_backward, src_mass_update_scalar_dx, src_mass_update_nonincreasing)',
         'translator harness/common/pykern.py, validated by executing the generated definitions next to the real methods'),
 'C20': ('the ownership code of TrajectoryStore.__init__ (helpers inlined, early returns eliminated) is regenerated into a guard program on every run and mutual exclusion is re-proved for it by a kernel-checked invariant set',
         'guard translator harness/common/translator.py'),
}
import sys
done = [p for p in P if (ROOT / 'harness' / f'{p.lower()}.py').exists() and (ROOT / 'lean' / 'AeicProofs' / 'Properties' / f'{p}.lean').exists()]
checks = []
for pid in sorted(done):
    area, text, note = P[pid]
    tech = 'machine-checked proof in Lean 4 (model: AeicModel/' + area + ') + differential correspondence check model vs implementation'
    if pid in TIE:
        text = text + '; ' + TIE[pid][0]
        note = note + '; ' + TIE[pid][1] + ' — a kernel the translator can no longer express keeps its last good translation and is then tied by sampling only (reported in evidence as source_tie_stale)'
        tech = ('machine-checked proof in Lean 4 (model: AeicModel/' + area + '; numerical source regenerated into Lean by a translator on every run and '
                'proved equal to the model) + differential correspondence check model vs implementation')
    checks.append({
        'property_id': pid,
        'quick_cmd': f'./check {pid} --tier quick',
        'thorough_cmd': f'./check {pid} --tier thorough',
        'evidence_file': f'evidence/{pid}.json',
        'replay_cmd_template': f'./check {pid} --replay {{path}}',
        'engine': 'lean4-proof+correspondence',
        'level_claimed': {'category': 'proof', 'text': text, 'design_ref': f'DESIGN.md section 3 ({pid}) and design_notes/{pid}.md'},
        'level_note': 'Trusted base: Lean 4.33 kernel; axioms propext/Classical.choice/Quot.sound only (audited per theorem on every run, leanchecker in the thorough tier); Mathlib v4.33; the hand-written model is tied to /repo by the correspondence harness run on every check (and the constants translator). ' + note,
        'technique': tech,
    })
na = [{'property_id': k, 'reason': v} for k, v in sorted(PENDING.items()) if k not in done]
for k in P:
    if k not in done:
        na.append({'property_id': k, 'reason': 'check not yet integrated'})
m = {
 'version': 1,
 'setup_cmd': './setup.sh',
 'hooks': {'guard': 'AEIC_VERIF', 'enable': 'no hooks in /repo: fault injection, the line scheduler and library stubs are patched in from the harness process',
           'baseline_off_cmd': 'cd /repo && /venv/bin/python -m pytest -ra -q -p no:cacheprovider --timeout=900 --continue-on-collection-errors',
           'source_commits': [], 'add_only': True},
 'engines': [{'name': 'lean4-proof+correspondence', 'path': 'check', 'serves_properties': sorted(done),
              'kind_free_text': 'Lean 4 model + theorems (lean/), compiled model driver, Python correspondence harness (harness/)'}],
 'checks': checks,
 'notes': 'All checks: `./check <ID> --tier quick|thorough` (VERIF_SEED honoured). Fixed defects and open findings: known_findings.json. Design: DESIGN.md + design_notes/.',
 'not_applicable': na,
}
(ROOT / 'MANIFEST.json').write_text(json.dumps(m, indent=1))
print('claimed', sorted(done)); print('not claimed', [x['property_id'] for x in na])
