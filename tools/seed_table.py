#!/usr/bin/env python3
"""Collates /verif/seeded/*/meta.json (and tools/seed_ideas.json for seeds whose workspace was lost) into the markdown table
of DESIGN.md section 9.6; with --write the table between the SEEDED_TABLE markers of DESIGN.md is replaced."""
import json
import re
import sys
from pathlib import Path

V = Path(__file__).resolve().parents[1]
ideas = json.loads((V / 'tools/seed_ideas.json').read_text())
rows = {}
for d in sorted((V / 'seeded').iterdir()):
    m = d / 'meta.json'
    if not m.exists():
        continue
    j = json.loads(m.read_text())
    pid = j['property']
    c = j['checks'].get(pid, {})
    rep = c.get('replay') or {}
    how = rep.get('clause') or ('correspondence: ' + rep['divergence'] if rep.get('divergence') else ('proof: ' + '; '.join(rep.get('broken', []))[:60] if rep.get('broken') else '—'))
    rows[d.name] = (d.name, pid, j.get('idea', ''), j.get('needs', ''), 'yes' if j.get('confirmed') else 'NO', j.get('first_attempt', ''),
                    'exit %s' % c.get('exit'), how)
for name, v in ideas.items():
    if name not in rows and re.fullmatch(r'C\d\d_\d+', name):
        rows[name] = (name, name[:3], v[0], v[1], 'yes (workspace lost, see text)', v[2] if len(v) > 2 else '', '—', '—')
out = ['| seed | property | change | needs to manifest | confirmed | first run of the check | now | caught by |', '|---|---|---|---|---|---|---|---|']
for k in sorted(rows, key=lambda s: (s[:3], int(s.split('_')[1]))):
    out.append('| ' + ' | '.join(str(x).replace('|', '\\|').replace('\n', ' ') for x in rows[k]) + ' |')
text = '\n'.join(out)
if '--write' in sys.argv:
    p = V / 'DESIGN.md'
    s = p.read_text()
    a, b = s.index('<!-- SEEDED_TABLE_BEGIN -->'), s.index('<!-- SEEDED_TABLE_END -->')
    p.write_text(s[:a] + '<!-- SEEDED_TABLE_BEGIN -->\n' + text + '\n' + s[b:])
    print(len(out) - 2, 'rows written')
else:
    print(text)
