#!/usr/bin/env python3
"""Collates /verif/seeded/*/meta.json into a markdown table (for DESIGN.md section 9.6)."""
import json
from pathlib import Path
rows = []
for d in sorted(Path('/verif/seeded').iterdir()):
    m = d / 'meta.json'
    if not m.exists():
        continue
    j = json.loads(m.read_text())
    pid = j['property']
    c = j['checks'].get(pid, {})
    rep = c.get('replay') or {}
    how = rep.get('clause') or ('correspondence: ' + rep['divergence'] if rep.get('divergence') else ('proof: ' + '; '.join(rep.get('broken', []))[:60] if rep.get('broken') else '—'))
    rows.append((d.name, pid, j.get('idea', ''), j.get('needs', ''), 'yes' if j.get('confirmed') else 'NO', j.get('first_attempt', ''),
                 'exit %s' % c.get('exit'), how))
print('| seed | property | change | needs to manifest | confirmed | first run of the check | now | caught by |')
print('|---|---|---|---|---|---|---|---|')
for r in rows:
    print('| ' + ' | '.join(str(x) for x in r) + ' |')
