#!/usr/bin/env python3
"""eval_seed.py <PID> <workspace> [--checks C07,C08] [--no-tests]
Confirms a seeded change (demo passes without / fails with the patch, test-suite passes with it), runs the check(s) against
/repo with the patch applied, reverts, and files everything under /verif/seeded/<name>/."""
import json
import os
import shutil
import subprocess
import sys
import time
from pathlib import Path

pid, ws = sys.argv[1], Path(sys.argv[2])
checks = [pid]
run_tests = True
for a in sys.argv[3:]:
    if a.startswith('--checks'):
        checks = a.split('=', 1)[1].split(',')
    if a == '--no-tests':
        run_tests = False
name = ws.name
REPO = Path('/repo')
env = dict(os.environ, PYTHONPATH='/repo/src', AEIC_PATH='/repo/tests/data')


def sh(cmd, **kw):
    return subprocess.run(cmd, shell=True, capture_output=True, text=True, **kw)


assert sh('git -C /repo status --porcelain').stdout.strip() == '', '/repo not clean'
patch = ws / 'patch.diff'
if not patch.exists() or not patch.read_text().strip():
    patch.write_text(sh(f'git -C {ws}/repo diff').stdout)
demo = ws / 'demo.py'
meta = {'property': pid, 'workspace': str(ws), 'ran': []}
r0 = sh(f'/venv/bin/python {demo}', env=env, cwd='/tmp')
meta['demo_without_patch_exit'] = r0.returncode
ap = sh(f'git -C /repo apply {patch}')
if ap.returncode != 0:
    print('PATCH DOES NOT APPLY', ap.stderr)
    sys.exit(3)
try:
    r1 = sh(f'/venv/bin/python {demo}', env=env, cwd='/tmp')
    meta['demo_with_patch_exit'] = r1.returncode
    meta['demo_with_patch_tail'] = (r1.stdout + r1.stderr)[-600:]
    if run_tests:
        t = sh('cd /repo && /venv/bin/python -m pytest -q -p no:cacheprovider --timeout=900 2>&1 | grep -E "passed|failed|error" | tail -2')
        meta['tests_with_patch'] = t.stdout.strip()
    meta['checks'] = {}
    for c in checks:
        t0 = time.time()
        r = sh(f'cd /verif && ./check {c} --tier quick')
        lines = [ln for ln in r.stdout.splitlines() if ln.startswith('VIOLATION') or ln.startswith('[' + c)]
        rep = None
        for ln in r.stdout.splitlines():
            if ln.startswith('VIOLATION') and 'replay=' in ln:
                rp = ln.split('replay=')[1].split()[0]
                try:
                    j = json.loads(Path(rp).read_text())
                    f = j.get('first', {})
                    rep = {'kind': j.get('kind'), 'clause': f.get('clause'), 'detail': (f.get('detail') or '')[:300],
                           'broken': j.get('broken_obligations', [])[:3],
                           'divergence': (j.get('divergences') or [{}])[0].get('correspondence')}
                except Exception as e:  # noqa: BLE001
                    rep = {'error': str(e)}
        meta['checks'][c] = {'exit': r.returncode, 'lines': lines, 'replay': rep, 'wall_s': round(time.time() - t0, 1)}
finally:
    sh('git -C /repo checkout -- .')
    assert sh('git -C /repo status --porcelain').stdout.strip() == ''
out = Path('/verif/seeded') / name
out.mkdir(parents=True, exist_ok=True)
shutil.copy(patch, out / 'patch.diff')
shutil.copy(demo, out / 'demo.py')
if (ws / 'notes.md').exists():
    shutil.copy(ws / 'notes.md', out / 'notes.md')
ideas = json.loads(Path('/verif/tools/seed_ideas.json').read_text())
if name in ideas:
    meta['idea'], meta['needs'], meta['first_attempt'] = ideas[name]
meta['confirmed'] = meta['demo_without_patch_exit'] == 0 and meta.get('demo_with_patch_exit', 0) != 0
(out / 'meta.json').write_text(json.dumps(meta, indent=1))
print(json.dumps(meta, indent=1))
