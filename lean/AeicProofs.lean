import AeicProofs.RealInst
