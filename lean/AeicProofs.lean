import AeicProofs.RealInst
import AeicProofs.Properties.C07
import AeicProofs.Properties.C08
import AeicProofs.Properties.C09
import AeicProofs.Properties.C10
import AeicProofs.Properties.C20
