/-
  C12 — emission-index building blocks and the ISA atmosphere.

  Every definition is generic in the scalar type (see `Scalar.lean`): executed on `Float`
  by the driver (operation order mirrors the Python source, so + − × ÷ sqrt are bit-identical),
  proved about over `ℝ` in `AeicProofs/Properties/C12.lean`.

  Sources modelled (AEIC, as the code exists):
    utils/standard_atmosphere.py   isaTemperature, isaPressure, isaAltitude, speedOfSound, airDensity
    emissions/types.py             machOf                       (AtmosphericState)
    emissions/utils.py             slsFuelFlow, thrustCat       (FFM2 eq. 40; cruise thrust categories)
    emissions/ei/nox.py            bffm2NOx (+ speciation)      (BFFM2, D&P eqs. 44–45)
    emissions/ei/hcco.py           hccoParams, hccoEI           (bilinear fit, SAGE rules, ACRP, ambient factor)
    emissions/ei/sox.py            soxEI
    emissions/ei/pmvol.py          foa3Delta, foa3, pmvolFuelFlow
    emissions/ei/pmnvol.py         scope11Mode, meem*

  The one place where the code's constant differs from the cited paper (humidity reference in
  BFFM2: 0.0063 in the code, 0.00634 in DuBois & Paynter 2006 eq. 44) is a parameter of
  `bffm2Correction`; `humRefAsIs` / `humRefPublished` are the two variants (DESIGN §2.7).
-/
import AeicModel.Scalar
import AeicModel.Wire
import AeicModel.Generated.Constants
open Lean Aeic.Wire

namespace Aeic.EI

/-- values at the four ICAO certification points (idle, approach, climb-out, take-off) -/
structure Q4 (α : Type) where
  i : α
  a : α
  c : α
  t : α

section
variable {α : Type} [Add α] [Sub α] [Mul α] [Div α] [Neg α] [LT α] [LE α]
  [DecidableLT α] [DecidableLE α] [Lit α] [Transc α]
open Aeic.Gen

/-! ## ISA atmosphere (utils/standard_atmosphere.py) -/

/-- temperature at the tropopause `T0 + beta_tropo * h_p_tropo` -/
def tTrop : α := (T0 : α) + beta_tropo * h_p_tropo

/-- `-g0 / (beta_tropo * R_air)` -/
def isaExp : α := (-(g0 : α)) / (beta_tropo * R_air)

def isaTemperature (h : α) : α :=
  if h ≤ h_p_tropo then (T0 : α) + beta_tropo * h else (T0 : α) + beta_tropo * h_p_tropo

/-- `p_tropo` of `pressure_at_altitude_isa_bada4` -/
def pTrop : α := (p0 : α) * Transc.pow ((tTrop : α) / T0) isaExp

def isaPressure (h : α) : α :=
  if h ≤ h_p_tropo then
    (p0 : α) * Transc.pow (isaTemperature h / T0) isaExp
  else
    pTrop * Transc.exp ((-(g0 : α)) / ((R_air : α) * tTrop) * (h - h_p_tropo))

/-- `altitude_from_pressure_isa_bada4` -/
def isaAltitude (p : α) : α :=
  if (pTrop : α) ≤ p then
    (T0 : α) / beta_tropo * (Transc.pow (p / p0) ((-(beta_tropo : α)) * R_air / g0) - one)
  else
    (h_p_tropo : α) - (R_air : α) * tTrop / g0 * Transc.log (p / pTrop)

/-- `calculate_speed_of_sound`: the code hard-codes `1.4 * 287.05` (not `kappa * R_air`). -/
def speedOfSound (T : α) : α := Transc.sqrt (d% 1.4 * d% 287.05 * T)

def airDensity (p T : α) : α := p / ((R_air : α) * T)

/-- Mach number of `AtmosphericState`: `tas / sqrt(kappa * R_air * T)` -/
def machOf (tas T : α) : α := tas / Transc.sqrt ((kappa : α) * R_air * T)

/-! ## Fuel Flow Method 2, eq. 40 (emissions/utils.py:get_SLS_equivalent_fuel_flow) -/

def slsFuelFlow (ff P T M nEng : α) : α :=
  let delta := P / d% 101325
  let theta := T / d% 288.15
  (ff / nEng) * Transc.pow theta (d% 3.8) / delta * Transc.exp (d% 0.2 * (M * M))

/-! ## Cruise thrust categories (emissions/utils.py:get_thrust_cat_cruise)
    0 = IDLE, 1 = APPROACH, 2 = CLIMB  (np.select: first true condition wins) -/

def thrustCat (ff : α) (cal : Q4 α) : Nat :=
  let lowLimit := (cal.i + cal.a) / d% 2
  let approachLimit := (cal.a + cal.c) / d% 2
  if ff ≤ lowLimit then 0 else if approachLimit < ff then 2 else 1

/-! ## BFFM2 NOx (emissions/ei/nox.py) -/

def clampPos (x : α) : α := if x ≤ zero then d% 1e-2 else x

def log10Q (q : Q4 α) : Q4 α :=
  ⟨Transc.log10 q.i, Transc.log10 q.a, Transc.log10 q.c, Transc.log10 q.t⟩

def mean4 (q : Q4 α) : α := (q.i + q.a + q.c + q.t) / d% 4

/-- centred sum of products Σ (xₖ − x̄)(yₖ − ȳ) -/
def sxy (x y : Q4 α) : α :=
  let xm := mean4 x
  let ym := mean4 y
  (x.i - xm) * (y.i - ym) + (x.a - xm) * (y.a - ym) + (x.c - xm) * (y.c - ym) + (x.t - xm) * (y.t - ym)

/-- degree-1 least squares through four points in closed form (what `np.polyfit(x, y, 1)` solves) -/
def fitSlope (x y : Q4 α) : α := sxy x y / sxy x x
def fitIntercept (x y : Q4 α) : α := mean4 y - fitSlope x y * mean4 x

/-- sea-level NOx EI from the log-log regression; `ff` is the SLS-equivalent fuel flow -/
def noxSL (ff : α) (ei cal : Q4 α) : α :=
  let xc := log10Q (α := α) ⟨clampPos cal.i, clampPos cal.a, clampPos cal.c, clampPos cal.t⟩
  let yc := log10Q ei
  let xe := Transc.log10 (clampPos ff)
  Transc.pow (d% 10) (xe * fitSlope xc yc + fitIntercept xc yc)

/-- β of eq. 44 (Goff–Gratch saturation vapour pressure, log10 of mbar) -/
def satBeta (T : α) : α :=
  d% 7.90298 * (one - d% 373.16 / (T + d% 0.01))
    + d% 3.00571
    + d% 5.02808 * Transc.log10 (d% 373.16 / (T + d% 0.01))
    + d% 1.3816e-7 * (one - Transc.pow (d% 10) (d% 11.344 * (one - (T + d% 0.01) / d% 373.16)))
    + d% 8.1328e-3 * (Transc.pow (d% 10) (d% 3.49149 * (one - d% 373.16 / (T + d% 0.01))) - one)

/-- specific humidity ω at 60 % relative humidity -/
def specificHumidity (T P : α) : α :=
  let delta := P / d% 101325
  let pPsia := delta * d% 14.696
  let pv := d% 0.014504 * Transc.pow (d% 10) (satBeta T)
  let phi : α := d% 0.6
  (d% 0.62198 * phi * pv) / (pPsia - (phi * pv))

/-- humidity reference of the code as it exists -/
def humRefAsIs : α := d% 0.0063
/-- humidity reference of DuBois & Paynter (2006) eq. 44 and of the file's own commented P3T3 code -/
def humRefPublished : α := d% 0.00634

/-- eq. 45: `exp(H) * sqrt(δ^1.02 / θ^3.3)`, `H = −19 (ω − href)` -/
def bffm2Correction (href T P : α) : α :=
  let theta := T / d% 288.15
  let delta := P / d% 101325
  let H := (Lit.dec (-19) 0 : α) * (specificHumidity T P - href)
  Transc.exp H * Transc.sqrt (Transc.pow delta (d% 1.02) / Transc.pow theta (d% 3.3))

def bffm2NOx (href ff : α) (ei cal : Q4 α) (T P : α) : α :=
  noxSL ff ei cal * bffm2Correction href T P

/-! speciation (NOx_speciation): percentages exactly as the source computes them -/
def honoH : α := d% 0.75
def honoL : α := d% 4.5
def honoA : α := d% 4.5
def no2H : α := d% 7.5 * (d% 100 - honoH) / d% 100
def no2L : α := d% 86.5 * (d% 100 - honoL) / d% 100
def no2A : α := d% 16 * (d% 100 - honoA) / d% 100
def noH : α := d% 100 - honoH - no2H
def noL : α := d% 100 - honoL - no2L
def noA : α := d% 100 - honoA - no2A

/-- fractions by thrust category (0 idle → "L", 1 approach → "A", 2/3 climb/take-off → "H") -/
def noFrac (cat : Nat) : α := (if cat = 0 then noL else if cat = 1 then noA else noH) / d% 100
def no2Frac (cat : Nat) : α := (if cat = 0 then no2L else if cat = 1 then no2A else no2H) / d% 100
def honoFrac (cat : Nat) : α := (if cat = 0 then honoL else if cat = 1 then honoA else honoH) / d% 100

/-! ## BFFM2 HC / CO (emissions/ei/hcco.py) — all quantities in log10 space until the last step -/

/-- `np.isclose(x, 0.0)` with the default `atol = 1e-8` -/
def isClose0 (x : α) : Bool := decide (sabs x ≤ d% 1e-8)

structure HCParams (α : Type) where
  slope : α
  baseLogFuel : α
  baseLogEI : α
  horz : α
  xInt : α
  branch : Nat    -- 0 none, 1 (a) clamp to climb flow, 2 (b) approach level, 3 (c) flat

/-- step 1: slope of the slanted segment (0 when the two low calibration flows coincide) -/
def hccoSlope (lf0 lf1 le0 le1 : α) : α :=
  if isClose0 (lf1 - lf0) then zero else (le1 - le0) / (lf1 - lf0)

/-- step 3: log-flow where the slanted line meets the horizontal level -/
def hccoXInt (slope lf0 lf1 le0 le2 le3 : α) : α :=
  if isClose0 slope then lf1
  else (d% 2 * lf0 * slope + le2 + le3 - d% 2 * le0) / (d% 2 * slope)

/-- step 4: the SAGE v1.5 rules, as the `if / elif / elif` chain of the source -/
def hccoBranch (slope xInt horz lf0 lf1 lf2 le0 le1 : α) : HCParams α :=
  if lf2 < xInt then ⟨slope, lf0, le0, horz, lf2, 1⟩
  else if xInt < lf1 ∧ slope < zero then ⟨slope, lf0, le0, le1, lf1, 2⟩
  else if zero ≤ slope then ⟨zero, zero, horz, horz, lf1, 3⟩
  else ⟨slope, lf0, le0, horz, xInt, 0⟩

/-- steps 1–4 of `EI_HCCO` on the logs of the calibration data
    (`lf*` = log10 of the calibration flows, `le*` = log10 of the calibration EIs) -/
def hccoParamsLog (lf0 lf1 lf2 le0 le1 le2 le3 : α) : HCParams α :=
  let slope := hccoSlope lf0 lf1 le0 le1
  hccoBranch slope (hccoXInt slope lf0 lf1 le0 le2 le3) (d% 0.5 * (le2 + le3)) lf0 lf1 lf2 le0 le1

def hccoParams (ei cal : Q4 α) : HCParams α :=
  hccoParamsLog (Transc.log10 cal.i) (Transc.log10 cal.a) (Transc.log10 cal.c)
    (Transc.log10 ei.i) (Transc.log10 ei.a) (Transc.log10 ei.c) (Transc.log10 ei.t)

/-- step 5: log10 of the sea-level EI at log-flow `lf`, `none` where the code leaves the zero
    initialisation (non-positive flow below the intercept) -/
def hccoLogSL (p : HCParams α) (pos : Bool) (lf : α) : Option α :=
  if pos ∧ lf < p.xInt then some (p.slope * (lf - p.baseLogFuel) + p.baseLogEI)
  else if p.xInt ≤ lf then some p.horz
  else none

/-- `10 ** l` where a value was assigned, the zero initialisation otherwise -/
def pow10Opt : Option α → α
  | some l => Transc.pow (d% 10) l
  | none => zero

/-- step 6: ACRP low-thrust correction `xEI * (1 + (−52) (ff − ff_idle))` below the idle flow -/
def acrp (ff0 ff v : α) : α :=
  if ff < ff0 then v * (one + (Lit.dec (-52) 0 : α) * (ff - ff0)) else v

/-- `log_ff`: log10 of positive flows, 0 for the masked non-positive ones -/
def hccoLogFlow (ff : α) : α := if zero < ff then Transc.log10 ff else zero

/-- steps 5–6: sea-level EI including the ACRP low-thrust factor -/
def hccoSL (p : HCParams α) (ff0 ff : α) : α :=
  acrp ff0 ff (pow10Opt (hccoLogSL p (decide (zero < ff)) (hccoLogFlow ff)))

/-- step 7: `θ^3.3 / δ^1.02` -/
def hccoAmbient (T P : α) : α :=
  Transc.pow (T / d% 288.15) (d% 3.3) / Transc.pow (P / d% 101325) (d% 1.02)

def hccoEI (ff : α) (ei cal : Q4 α) (T P : α) : α :=
  hccoSL (hccoParams ei cal) cal.i ff * hccoAmbient T P

/-! ## SOx (emissions/ei/sox.py) -/

def so2EI (sulfurPpm yield : α) : α :=
  sulfurPpm / d% 1e6 * (one - yield) * d% 64 / d% 32 * d% 1e3
def so4EI (sulfurPpm yield : α) : α :=
  sulfurPpm / d% 1e6 * yield * d% 96 / d% 32 * d% 1e3
def soxEI (sulfurPpm yield : α) : α := so2EI sulfurPpm yield + so4EI sulfurPpm yield

/-! ## np.interp (used by FOA3 and MEEM) -/

def interpGo (x : α) (x0 y0 : α) : List α → List α → α
  | x1 :: xs, y1 :: ys =>
    if x < x1 then (if x ≤ x0 then y0 else (y1 - y0) / (x1 - x0) * (x - x0) + y0)
    else interpGo x x1 y1 xs ys
  | _, _ => y0

/-- `np.interp(x, xs, ys)` for ascending `xs` (clamped outside the grid) -/
def interp (x : α) : List α → List α → α
  | x0 :: xs, y0 :: ys =>
    if x < x0 then y0
    else if x0 ≤ x then interpGo x x0 y0 xs ys
    else x   -- unreachable in a total order; on Float this is numpy's NaN pass-through
  | _, _ => zero

/-! ## Volatile PM (emissions/ei/pmvol.py) -/

def foa3Thrust : List α := [d% 7, d% 30, d% 85, d% 100]
def foa3Deltas : List α := [d% 6.17, d% 56.25, d% 76, d% 115]
def foa3Delta (thrust : α) : α := interp thrust foa3Thrust foa3Deltas
def foa3 (thrust hcEI : α) : α := foa3Delta thrust * hcEI / d% 1000

/-- `EI_PMvol_FuelFlow`: (PMvol, OCic) for a thrust category (0 = idle) -/
def pmvolFuelFlow (cat : Nat) : α :=
  d% 20.0e-3 / (one - (if cat = 0 then d% 0.15 else d% 0.50))
def ocicFuelFlow : α := d% 20.0e-3

/-! ## Non-volatile PM (emissions/ei/pmnvol.py) -/

/-- smoke number → exit-plane BC concentration [mg/m³] -/
def cbc (sn : α) : α :=
  d% 0.6484 * Transc.exp (d% 0.0766 * sn) / (one + Transc.exp ((-(d% 1.098 : α)) * (sn - d% 3.064)))

def afr (mode : Nat) : α :=
  if mode = 0 then d% 106 else if mode = 1 then d% 83 else if mode = 2 then d% 51 else d% 45

/-- SCOPE11 for one mode. `etype`: 0 = 'MTF', 1 = 'TF', 2 = anything else -/
def scope11Mode (mode etype : Nat) (sn bpr : α) : α :=
  if (sn ≤ (Lit.dec (-1) 0 : α) ∧ (Lit.dec (-1) 0 : α) ≤ sn) ∨ (sn ≤ zero ∧ zero ≤ sn) then
    zero * zero / d% 1000
  else
    let s := smin sn (d% 40)
    let c := cbc s
    let kslm : α :=
      if etype = 0 then
        Transc.log ((d% 3.219 * c * (one + bpr) * d% 1000 + d% 312.5) / (c * (one + bpr) * d% 1000 + d% 42.6))
      else
        Transc.log ((d% 3.219 * c * d% 1000 + d% 312.5) / (c * d% 1000 + d% 42.6))
    let ci := kslm * c
    let q : α :=
      if etype = 0 then d% 0.776 * afr mode * (one + bpr) + d% 0.767
      else if etype = 1 then d% 0.776 * afr mode + d% 0.767
      else zero
    ci * q / d% 1000

/-- MEEM step 0: mode mass EI reconstructed from the smoke number -/
def meemMassFromSN (mode : Nat) (isMTF : Bool) (sn bpr : α) : α :=
  let ci := cbc sn
  let b : α := if isMTF then bpr else zero
  let q := d% 0.776 * afr mode * (one + b) + d% 0.767
  let kslm := Transc.log ((d% 3.219 * ci * (one + b) * d% 1e3 + d% 312.5) / (ci * (one + b) * d% 1e3 + d% 42.6))
  ci * q * kslm

def min4 (q : Q4 α) : α := smin (smin (smin q.i q.a) q.c) q.t
def max4 (q : Q4 α) : α := smax (smax (smax q.i q.a) q.c) q.t

def meemMassModes (isMTF : Bool) (sn mass : Q4 α) (bpr : α) : Q4 α :=
  if min4 mass < zero then
    ⟨meemMassFromSN 0 isMTF sn.i bpr, meemMassFromSN 1 isMTF sn.a bpr,
     meemMassFromSN 2 isMTF sn.c bpr, meemMassFromSN 3 isMTF sn.t bpr⟩
  else mass

def piLit : α := d% 3.141592653589793

def gmdMode (mode : Nat) : α := if mode < 2 then d% 20 else d% 40

def meemNumFromMass (mode : Nat) (m : α) : α :=
  (d% 6 * m) /
    (piLit * d% 1e9 * Transc.pow (gmdMode mode * d% 1e-9) (d% 3)
      * Transc.exp (d% 4.5 * (Transc.log (d% 1.8) * Transc.log (d% 1.8))))

def meemNumModes (massModes num : Q4 α) : Q4 α :=
  if min4 num < zero then
    ⟨meemNumFromMass 0 massModes.i, meemNumFromMass 1 massModes.a,
     meemNumFromMass 2 massModes.c, meemNumFromMass 3 massModes.t⟩
  else num

/-- thrust grid and values of `build_interp`; `kind`: 0 four-point, 1 extra point at 0.575, 2 at 0.925 -/
def meemGrid (kind : Nat) : List α :=
  if kind = 1 then [Lit.dec (-10) 0, d% 0.07, d% 0.3, d% 0.575, d% 0.85, d% 1.0, d% 100]
  else if kind = 2 then [Lit.dec (-10) 0, d% 0.07, d% 0.3, d% 0.85, d% 0.925, d% 1.0, d% 100]
  else [Lit.dec (-10) 0, d% 0.07, d% 0.3, d% 0.85, d% 1.0, d% 100]

def meemVals (kind : Nat) (m : Q4 α) (vmax : α) : List α :=
  if kind = 1 then [m.i, m.i, m.a, vmax, m.c, m.t, m.t]
  else if kind = 2 then [m.i, m.i, m.a, m.c, vmax, m.t, m.t]
  else [m.i, m.i, m.a, m.c, m.t, m.t]

structure MeemPoint (α : Type) where
  fg : α        -- F/F00 estimate
  p3 : α
  p3ref : α

/-- `lin_vary_alt`.  As the code exists (`clip = false`) the ratio is used unbounded, so below 3 000 m
    (or for flights that never climb much above it) the "0.85 → 1.15" pressure coefficient is extrapolated
    to large negative values.  The intended variant (`clip = true`) is `np.clip(ratio, 0, 1)`
    (open finding C12-meem-pressure-coefficient-unbounded). -/
def meemLin (clip : Bool) (alt maxAlt : α) : α :=
  let l := (alt - d% 3000) / smax one (maxAlt - d% 3000)
  if clip then smin (smax l zero) one else l

/-- MEEM steps 1–2: combustor inlet conditions and the reference thrust setting at one point.
    `alt − altPrev` is `np.diff(altitudes, prepend=altitudes[0])`, `maxAlt = altitudes.max()`. -/
def meemPoint (clip : Bool) (prIdle alt altPrev maxAlt T P M : α) : MeemPoint α :=
  let rate := alt - altPrev
  let eta : α := if zero ≤ rate then d% 0.88 else d% 0.70
  let lin := meemLin clip alt maxAlt
  let pc : α :=
    if zero < rate then d% 0.85 + (d% 1.15 - d% 0.85) * lin
    else if zero ≤ rate then d% 0.95 else d% 0.12
  let k : α := Aeic.Gen.kappa
  let stag := one + (k - one) / d% 2 * (M * M)
  let tt := T * stag
  let pt := P * Transc.pow stag (k / (k - one))
  let p3 := pt * (one + pc * (prIdle - one))
  let t3 := tt * (one + (one / eta) * (Transc.pow (p3 / pt) ((k - one) / k) - one))
  let p3ref := (Aeic.Gen.p0 : α) * Transc.pow (one + eta * (t3 / Aeic.Gen.T0 - one)) (k / (k - one))
  ⟨(p3ref / Aeic.Gen.p0 - one) / (prIdle - one), p3, p3ref⟩

/-- MEEM steps 3–5 for the mass index [g/kg]; `snValid = ¬ (max SN < 0)` -/
def meemMass (snValid : Bool) (kind : Nat) (massModes : Q4 α) (massMax : α) (pt : MeemPoint α) : α :=
  let ref := interp pt.fg (meemGrid kind) (meemVals kind massModes massMax)
  let ei := d% 1e-3 * ref * Transc.pow (pt.p3 / pt.p3ref) (d% 1.35) * Transc.pow (d% 1.1) (d% 2.5)
  let ei := if snValid then ei else zero
  if ei < zero then zero else ei

/-- MEEM number index [#/kg] -/
def meemNum (snValid : Bool) (kindM kindN : Nat) (massModes numModes : Q4 α) (massMax numMax : α)
    (pt : MeemPoint α) : α :=
  let refM := interp pt.fg (meemGrid kindM) (meemVals kindM massModes massMax)
  let refN := interp pt.fg (meemGrid kindN) (meemVals kindN numModes numMax)
  let eiM := d% 1e-3 * refM * Transc.pow (pt.p3 / pt.p3ref) (d% 1.35) * Transc.pow (d% 1.1) (d% 2.5)
  let eiN := refN * eiM / (d% 1e-3 * refM)
  if snValid then eiN else zero

def meemGMD (snValid : Bool) (pt : MeemPoint α) : α :=
  let g := interp pt.fg (meemGrid 0) [d% 20, d% 20, d% 20, d% 40, d% 40, d% 40]
  if snValid then g else zero

end

/-! ## Driver ops (Float) -/

private def getQ4 (j : Json) : Except String (Q4 Float) := do
  match ← getFs j with
  | [a, b, c, d] => pure ⟨a, b, c, d⟩
  | _ => throw "expected 4 values"

private def zip3 (f : Float → Float → Float → Float) : List Float → List Float → List Float → List Float
  | a :: as, b :: bs, c :: cs => f a b c :: zip3 f as bs cs
  | _, _, _ => []

private def zip4 (f : Float → Float → Float → Float → Float) :
    List Float → List Float → List Float → List Float → List Float
  | a :: as, b :: bs, c :: cs, d :: ds => f a b c d :: zip4 f as bs cs ds
  | _, _, _, _ => []

private def meemPoints (clip : Bool) (pr maxAlt : Float) :
    Float → List Float → List Float → List Float → List Float → List (MeemPoint Float)
  | prev, a :: as, t :: ts, p :: ps, m :: ms =>
      meemPoint clip pr a prev maxAlt t p m :: meemPoints clip pr maxAlt a as ts ps ms
  | _, _, _, _, _ => []

def handle (op : String) (j : Json) : Except String Json := do
  match op with
  | "isa" =>
      let hs ← getFs (← field j "h")
      pure (obj [("T", putFs (hs.map isaTemperature)), ("p", putFs (hs.map isaPressure)),
                 ("a", putFs (hs.map fun h => speedOfSound (isaTemperature h))),
                 ("rho", putFs (hs.map fun h => airDensity (isaPressure h) (isaTemperature h)))])
  | "alt" =>
      let ps ← getFs (← field j "p")
      pure (obj [("h", putFs (ps.map isaAltitude)), ("ptrop", putF (pTrop : Float))])
  | "mach" =>
      let tas ← getFs (← field j "tas"); let hs ← getFs (← field j "h")
      pure (putFs (List.zipWith (fun v h => machOf v (isaTemperature h)) tas hs))
  | "sls" =>
      let ff ← getFs (← field j "ff"); let p ← getFs (← field j "P")
      let t ← getFs (← field j "T"); let m ← getFs (← field j "M")
      let n ← getF (← field j "neng")
      pure (putFs (zip4 (fun f p t m => slsFuelFlow f p t m n) ff p t m))
  | "cat" =>
      let ff ← getFs (← field j "ff"); let cal ← getQ4 (← field j "cal")
      pure (putNats (ff.map fun f => thrustCat f cal))
  | "nox" =>
      let ff ← getFs (← field j "ff"); let ei ← getQ4 (← field j "ei"); let cal ← getQ4 (← field j "cal")
      let t ← getFs (← field j "T"); let p ← getFs (← field j "P")
      let variant ← getStr (fieldD j "variant" (Json.str "asis"))
      let href : Float := if variant == "published" then humRefPublished else humRefAsIs
      let nox := zip3 (fun f t p => bffm2NOx href f ei cal t p) ff t p
      let cats := ff.map fun f => thrustCat f cal
      let xc := log10Q (α := Float) ⟨clampPos cal.i, clampPos cal.a, clampPos cal.c, clampPos cal.t⟩
      pure (obj [("nox", putFs nox), ("cat", putNats cats),
                 ("no", putFs (List.zipWith (fun n c => n * noFrac c) nox cats)),
                 ("no2", putFs (List.zipWith (fun n c => n * no2Frac c) nox cats)),
                 ("hono", putFs (List.zipWith (fun n c => n * honoFrac c) nox cats)),
                 ("noProp", putFs (cats.map noFrac)), ("no2Prop", putFs (cats.map no2Frac)),
                 ("honoProp", putFs (cats.map honoFrac)),
                 ("sl", putFs (ff.map fun f => noxSL f ei cal)),
                 ("corr", putFs (List.zipWith (fun t p => bffm2Correction href t p) t p)),
                 ("slope", putF (fitSlope xc (log10Q ei))), ("sxx", putF (sxy xc xc))])
  | "speciation" =>
      pure (obj [("no", putFs [noFrac 0, noFrac 1, noFrac 2, noFrac 3]),
                 ("no2", putFs [no2Frac 0, no2Frac 1, no2Frac 2, no2Frac 3]),
                 ("hono", putFs [honoFrac 0, honoFrac 1, honoFrac 2, honoFrac 3])])
  | "hcco" =>
      let ff ← getFs (← field j "ff"); let ei ← getQ4 (← field j "ei"); let cal ← getQ4 (← field j "cal")
      let t ← getFs (← field j "T"); let p ← getFs (← field j "P")
      let pr := hccoParams ei cal
      pure (obj [("ei", putFs (zip3 (fun f t p => hccoEI f ei cal t p) ff t p)),
                 ("sl", putFs (ff.map fun f => hccoSL pr cal.i f)),
                 ("branch", putNat pr.branch), ("slope", putF pr.slope), ("xint", putF pr.xInt),
                 ("horz", putF pr.horz),
                 ("seg", putNats (ff.map fun f =>
                    let pos : Bool := decide (0 < f)
                    let lf : Float := if pos then Float.log10 f else 0
                    if pos ∧ lf < pr.xInt then 0 else if pr.xInt ≤ lf then 1 else 2))])
  | "sox" =>
      let s ← getFs (← field j "s"); let y ← getFs (← field j "y")
      pure (obj [("so2", putFs (List.zipWith so2EI s y)), ("so4", putFs (List.zipWith so4EI s y)),
                 ("sox", putFs (List.zipWith soxEI s y))])
  | "foa3" =>
      let th ← getFs (← field j "thr"); let hc ← getFs (← field j "hc")
      pure (obj [("pmvol", putFs (List.zipWith foa3 th hc)), ("delta", putFs (th.map foa3Delta))])
  | "pmvolff" =>
      let cats ← getNats (← field j "cat")
      pure (obj [("pmvol", putFs (cats.map pmvolFuelFlow)), ("ocic", putF (ocicFuelFlow : Float))])
  | "scope11" =>
      let sn ← getQ4 (← field j "sn"); let et ← getNat (← field j "etype"); let bpr ← getF (← field j "bpr")
      pure (putFs [scope11Mode 0 et sn.i bpr, scope11Mode 1 et sn.a bpr,
                   scope11Mode 2 et sn.c bpr, scope11Mode 3 et sn.t bpr])
  | "meem" =>
      let sn ← getQ4 (← field j "sn"); let mass ← getQ4 (← field j "mass"); let num ← getQ4 (← field j "num")
      let isMTF ← getBool (← field j "mtf"); let bpr ← getF (← field j "bpr"); let pr ← getF (← field j "pr")
      let massMax ← getF (← field j "massMax"); let numMax ← getF (← field j "numMax")
      let kindM ← getNat (← field j "kindM"); let kindN ← getNat (← field j "kindN")
      let alt ← getFs (← field j "alt"); let t ← getFs (← field j "T")
      let p ← getFs (← field j "P"); let m ← getFs (← field j "M")
      let maxAlt := alt.foldl (fun a b => if a < b then b else a) (alt.headD 0)
      let variant ← getStr (fieldD j "variant" (Json.str "asis"))
      let pts := meemPoints (variant == "intended") pr maxAlt (alt.headD 0) alt t p m
      let mm := meemMassModes isMTF sn mass bpr
      let nm := meemNumModes mm num
      let valid : Bool := !(decide (max4 sn < 0))
      pure (obj [("gmd", putFs (pts.map (meemGMD valid))),
                 ("mass", putFs (pts.map (meemMass valid kindM mm massMax))),
                 ("num", putFs (pts.map (meemNum valid kindM kindN mm nm massMax numMax))),
                 ("fg", putFs (pts.map (·.fg))), ("p3", putFs (pts.map (·.p3))),
                 ("massModes", putFs [mm.i, mm.a, mm.c, mm.t])])
  | _ => throw s!"unknown c12 op {op}"

end Aeic.EI
