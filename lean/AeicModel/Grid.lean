/-
  Model of `AEIC/gridding/grid.py` (trajectory gridding), properties C04 / C05.

  Modelled functions (names of the Python source in brackets):
    cellIdx        [np.searchsorted(grid, x) - 1]
    linesCrossed   [_change_range / _lat_indexes_intersected]
    lineSlope/lineIcpt [calculate_line_parameters]
    intLats/intLons [intersection_point_lats / intersection_point_lons: independent sort of both coordinates]
    latIdxs/lonIdxs [all_subsegment_lat_indices / all_subsegment_lon_indices, NaN-filtered row]
    chainLat/chainLon [all_subsegment_point_lats / _lons, NaN-filtered row]
    fractions      [subsegment_distance_fractions]
    gridPlain      [_cell_idxs_touched_by_trajectory_with_state_and_integrated_vars]
    crossesDateline, splitFirst, splitSecond, gridTraj [grid_trajectory and the _dateline_* helpers]

  Generic in the scalar `α` and in the length measure `d lat1 lon1 lat2 lon2` (pyproj's geodesic inverse in the
  real code).  Two small pieces exist in an as-is and a repaired variant (selected by `Rules`):
    * `fixZero  = false`: a zero-length segment gets fraction 0 (value dropped)       [code before the C04 fix]
      `fixZero  = true` : a zero-length segment's value is shared equally by its pieces [code after the C04 fix]
    * `fixSplit = false`: the antimeridian crossing is placed at the start point's latitude [code before the C05 fix]
      `fixSplit = true` : ... at the latitude where the straight (unwrapped) map line meets ±π [after the C05 fix]
  No Mathlib import: linked into the driver.
-/
import AeicModel.Scalar
import AeicModel.Wire
open Lean

namespace Aeic.Grid

structure Rules where
  fixZero : Bool
  fixSplit : Bool

def Rules.asIs : Rules := ⟨false, false⟩
def Rules.repaired : Rules := ⟨true, true⟩

/-- `l` zipped with its tail: consecutive pairs. -/
def pairs {β : Type} (l : List β) : List (β × β) := l.zip l.tail

/-- `np.repeat(xs, counts)` -/
def repeatBy {β : Type} (counts : List Nat) (xs : List β) : List β :=
  (xs.zip counts).flatMap (fun p => List.replicate p.2 p.1)

/-- grid lines met when the cell index goes from `i0` to `i1`, in path order
    (`start + arange(n) + 1` upwards, `start - arange(n)` downwards). -/
def linesCrossed (i0 i1 : Int) : List Int :=
  if i0 ≤ i1 then (List.range (i1 - i0).toNat).map (fun (k : Nat) => i0 + 1 + (k : Int))
  else (List.range (i0 - i1).toNat).map (fun (k : Nat) => i0 - (k : Int))

section
variable {α : Type} [Add α] [Sub α] [Mul α] [Div α] [Neg α] [LT α] [LE α]
  [DecidableLT α] [DecidableLE α] [Lit α]

/-- `np.searchsorted(g, x)` (side = left) on a sorted array: the number of entries `< x`. -/
def countLt : List α → α → Nat
  | [], _ => 0
  | a :: as, x => (if a < x then 1 else 0) + countLt as x

/-- cell index of a coordinate: `searchsorted − 1`, i.e. `g[i] < x ≤ g[i+1]`. -/
def cellIdx (g : List α) (x : α) : Int := (countLt g x : Int) - 1

/-- grid line value; every index looked up by the algorithm lies in `0 … len−1`. -/
def gridAt (g : List α) (j : Int) : α := g.getD j.toNat zero

def nonzero (x : α) : Bool := decide (x < zero) || decide (zero < x)

def insertAsc (x : α) : List α → List α
  | [] => [x]
  | y :: ys => if x ≤ y then x :: y :: ys else y :: insertAsc x ys

def sortAsc : List α → List α
  | [] => []
  | x :: xs => insertAsc x (sortAsc xs)

/-- sort in the direction of travel: rows whose coordinate decreases are negated, sorted ascending, negated back. -/
def sortDir (decreasing : Bool) (l : List α) : List α :=
  if decreasing then (sortAsc (l.map (fun x => -x))).map (fun x => -x) else sortAsc l

/-- midpoints of neighbouring entries -/
def mids (l : List α) : List α := (pairs l).map (fun p => (p.1 + p.2) / (d% 2))

structure Seg (α : Type) where
  lat0 : α
  lon0 : α
  lat1 : α
  lon1 : α

/-- `calculate_line_parameters(lats, lons)`: `lon = slope · lat + icpt`; slope is `inf` when Δlat = 0. -/
def slopeInf (s : Seg α) : Bool := !(nonzero (s.lat1 - s.lat0))
def lineSlope (s : Seg α) : α := (s.lon1 - s.lon0) / (s.lat1 - s.lat0)
def lineIcpt (s : Seg α) : α := s.lon0 - lineSlope s * s.lat0

/-- grid lines of one coordinate axis met between `x0` and `x1`, in path order -/
def coordLines (g : List α) (x0 x1 : α) : List α :=
  (linesCrossed (cellIdx g x0) (cellIdx g x1)).map (gridAt g)

/-- one coordinate of all crossing points of a segment, in path order: this axis' own lines together with
    the coordinates `extra` at which the lines of the other axis are met, sorted in the direction of travel. -/
def coordInts (g : List α) (x0 x1 : α) (extra : List α) : List α :=
  sortDir (decide (x1 - x0 < zero)) (coordLines g x0 x1 ++ extra)

/-- cell indices of one coordinate for the pieces of a segment: start cell, cells of the midpoints between
    neighbouring crossing points, end cell; a segment that crosses no line at all has a single piece. -/
def coordIdxs (g : List α) (x0 x1 : α) (ints : List α) (single : Bool) : List Int :=
  if single then [cellIdx g x0]
  else cellIdx g x0 :: (mids ints).map (cellIdx g) ++ [cellIdx g x1]

def latLines (glat : List α) (s : Seg α) : List α := coordLines glat s.lat0 s.lat1
def lonLines (glon : List α) (s : Seg α) : List α := coordLines glon s.lon0 s.lon1

/-- latitude at which the segment meets the longitude line `m` -/
def latForLon (s : Seg α) (m : α) : α :=
  if slopeInf s then s.lat0 else (m - lineIcpt s) / lineSlope s
/-- longitude at which the segment meets the latitude line `l` -/
def lonForLat (s : Seg α) (l : α) : α := lineSlope s * l + lineIcpt s

def intLats (glat glon : List α) (s : Seg α) : List α :=
  coordInts glat s.lat0 s.lat1 ((lonLines glon s).map (latForLon s))
def intLons (glat glon : List α) (s : Seg α) : List α :=
  coordInts glon s.lon0 s.lon1 ((latLines glat s).map (lonForLat s))

/-- number of grid lines the segment crosses (`absolute_index_changes`) -/
def nCross (glat glon : List α) (s : Seg α) : Nat :=
  (cellIdx glat s.lat1 - cellIdx glat s.lat0).natAbs + (cellIdx glon s.lon1 - cellIdx glon s.lon0).natAbs

def latIdxs (glat glon : List α) (s : Seg α) : List Int :=
  coordIdxs glat s.lat0 s.lat1 (intLats glat glon s) (decide (nCross glat glon s = 0))
def lonIdxs (glat glon : List α) (s : Seg α) : List Int :=
  coordIdxs glon s.lon0 s.lon1 (intLons glat glon s) (decide (nCross glat glon s = 0))

def chainLat (glat glon : List α) (s : Seg α) : List α := s.lat0 :: intLats glat glon s ++ [s.lat1]
def chainLon (glat glon : List α) (s : Seg α) : List α := s.lon0 :: intLons glat glon s ++ [s.lon1]
def chain (glat glon : List α) (s : Seg α) : List (α × α) := (chainLat glat glon s).zip (chainLon glat glon s)

/-- lengths of the consecutive pieces of a point chain under the measure `d` -/
def chainDists (d : α → α → α → α → α) (c : List (α × α)) : List α :=
  (pairs c).map (fun p => d p.1.1 p.1.2 p.2.1 p.2.2)

def segDist (d : α → α → α → α → α) (s : Seg α) : α := d s.lat0 s.lon0 s.lat1 s.lon1

/-- Nat ↦ scalar (exact) -/
def ofNat (n : Nat) : α := Lit.dec (n : Int) 0

/-- `subsegment_distance_fractions` of one segment: `np.divide(sub, seg, out=…, where=seg != 0)`;
    `count` is the number of pieces the index arrays report (`count_subsegments`). -/
def fractions (r : Rules) (dseg : α) (count : Nat) (subs : List α) : List α :=
  subs.map (fun ds => if nonzero dseg then ds / dseg
                      else if r.fixZero then (one : α) / ofNat count else zero)

def segFractions (r : Rules) (d : α → α → α → α → α) (glat glon : List α) (s : Seg α) : List α :=
  fractions r (segDist d s) (latIdxs glat glon s).length (chainDists d (chain glat glon s))

/-- the pieces of one segment's integrated value `v` -/
def segValues (r : Rules) (d : α → α → α → α → α) (glat glon : List α) (s : Seg α) (v : α) : List α :=
  (segFractions r d glat glon s).map (fun f => v * f)

def mkSegs (lats lons : List α) : List (Seg α) :=
  (pairs (lats.zip lons)).map (fun p => ⟨p.1.1, p.1.2, p.2.1, p.2.2⟩)

structure Grid (α : Type) where
  glat : List α
  glon : List α
  galt : List α
  gtime : List α

structure Traj (α : Type) where
  lats : List α
  lons : List α
  alts : Option (List α)
  times : Option (List α)
  state : List (List α)
  integ : List (List α)

structure Out (α : Type) where
  latI : List Int
  lonI : List Int
  altI : Option (List Int)
  timeI : Option (List Int)
  state : List (List α)
  integ : List (List α)
  counts : List Nat

/-- `_cell_idxs_touched_by_trajectory_with_state_and_integrated_vars` -/
def gridPlain (r : Rules) (d : α → α → α → α → α) (g : Grid α) (t : Traj α) : Out α :=
  let segs := mkSegs t.lats t.lons
  let counts := segs.map (fun s => (latIdxs g.glat g.glon s).length)
  let fracs := segs.flatMap (segFractions r d g.glat g.glon)
  { latI := segs.flatMap (latIdxs g.glat g.glon)
    lonI := segs.flatMap (lonIdxs g.glat g.glon)
    altI := t.alts.map (fun a => repeatBy counts (a.dropLast.map (cellIdx g.galt)))
    timeI := t.times.map (fun a => repeatBy counts (a.dropLast.map (cellIdx g.gtime)))
    state := t.state.map (fun v => repeatBy counts v.dropLast)
    integ := t.integ.map (fun v => List.zipWith (fun x f => x * f) (repeatBy counts v) fracs)
    counts := counts }

/-- `crosses_dateline(lon1, lon2)`: sign(diff) · (|diff| > π) -/
def crossSign (pi : α) (lon1 lon2 : α) : Int :=
  let diff := lon2 - lon1
  if pi < sabs diff then (if zero < diff then 1 else if diff < zero then -1 else 0) else 0

def crossings (pi : α) (lons : List α) : List Int := (pairs lons).map (fun p => crossSign pi p.1 p.2)

/-- longitude of the antimeridian as seen from the first part (`π if sign == -1 else -π`) -/
def edgeLon (pi : α) (sign : Int) : α := if sign = -1 then pi else -pi

/-- latitude given to the two inserted antimeridian points -/
def crossLat (r : Rules) (pi : α) (sign : Int) (lat0 lon0 lat1 lon1 : α) : α :=
  if r.fixSplit then
    let lonNext := if sign = -1 then lon1 + (d% 2) * pi else lon1 - (d% 2) * pi
    let dlon := lonNext - lon0
    let frac := if nonzero dlon then (edgeLon pi sign - lon0) / dlon else zero
    lat0 + frac * (lat1 - lat0)
  else lat0

def getAt (l : List α) (i : Nat) : α := l.getD i zero

/-- share of the crossing segment's value `v` given to the part of length `l`: by length, or half each when the crossing
    segment has no length (a repeated point written as +π / −π) [code after the second C04 fix; before it the share was
    `v * l / ltot` throughout, `NaN` for `ltot = 0`] -/
def splitShare (v l ltot : α) : α := if nonzero ltot then v * l / ltot else v * (d% 0.5)

/-- `_dateline_split_first_segment` (lengths `l1`, `ltot` from `_calculate_segment_lengths`) -/
def splitFirst (pi : α) (sign : Int) (idx : Nat) (latc l1 ltot : α) (t : Traj α) : Traj α :=
  { lats := t.lats.take (idx + 1) ++ [latc]
    lons := t.lons.take (idx + 1) ++ [edgeLon pi sign]
    alts := t.alts.map (fun a => a.take (idx + 1) ++ [getAt a idx])
    times := t.times.map (fun a => a.take (idx + 1) ++ [getAt a idx])
    state := t.state.map (fun v => v.take (idx + 1) ++ [getAt v idx])
    integ := t.integ.map (fun v => v.take idx ++ [splitShare (getAt v idx) l1 ltot]) }

/-- `_dateline_split_second_segment` -/
def splitSecond (pi : α) (sign : Int) (idx : Nat) (latc l2 ltot : α) (t : Traj α) : Traj α :=
  { lats := latc :: t.lats.drop (idx + 1)
    lons := (-(edgeLon pi sign)) :: t.lons.drop (idx + 1)
    alts := t.alts.map (fun a => getAt a idx :: a.drop (idx + 1))
    times := t.times.map (fun a => getAt a idx :: a.drop (idx + 1))
    state := t.state.map (fun v => getAt v idx :: v.drop (idx + 1))
    integ := t.integ.map (fun v => splitShare (getAt v idx) l2 ltot :: v.drop (idx + 1)) }

def Out.append (a b : Out α) : Out α :=
  { latI := a.latI ++ b.latI
    lonI := a.lonI ++ b.lonI
    altI := match a.altI, b.altI with | some x, some y => some (x ++ y) | _, _ => none
    timeI := match a.timeI, b.timeI with | some x, some y => some (x ++ y) | _, _ => none
    state := List.zipWith (· ++ ·) a.state b.state
    integ := List.zipWith (· ++ ·) a.integ b.integ
    counts := a.counts ++ b.counts }

def Out.empty (t : Traj α) : Out α :=
  { latI := [], lonI := [], altI := some [], timeI := some []
    state := t.state.map (fun _ => []), integ := t.integ.map (fun _ => []), counts := [] }

def firstNonzero : List Int → Nat
  | [] => 0
  | c :: cs => if c ≠ 0 then 0 else firstNonzero cs + 1

/-- the two parts of a trajectory with exactly one antimeridian crossing -/
def splitParts (r : Rules) (d : α → α → α → α → α) (pi : α) (t : Traj α) : Traj α × Traj α :=
  let cr := crossings pi t.lons
  let idx := firstNonzero cr
  let sign := cr.getD idx 0
  let lat0 := getAt t.lats idx
  let lon0 := getAt t.lons idx
  let lat1 := getAt t.lats (idx + 1)
  let lon1 := getAt t.lons (idx + 1)
  let latc := crossLat r pi sign lat0 lon0 lat1 lon1
  let l1 := d lat0 lon0 latc (edgeLon pi sign)
  let l2 := d latc (-(edgeLon pi sign)) lat1 lon1
  let ltot := l1 + l2
  (splitFirst pi sign idx latc l1 ltot t, splitSecond pi sign idx latc l2 ltot t)

/-- `Gridder.grid_trajectory` (cell *indices* are returned; the code returns `grid[index]`). -/
def gridTraj (r : Rules) (d : α → α → α → α → α) (pi : α) (g : Grid α) (t : Traj α) : Out α :=
  let cr := crossings pi t.lons
  let n := (cr.filter (· ≠ 0)).length
  if n = 0 then gridPlain r d g t
  else if 1 < n then Out.empty t
  else
    let p := splitParts r d pi t
    (gridPlain r d g p.1).append (gridPlain r d g p.2)

/-- exact additive stub measure used by the harness: |Δlat| + |Δlon| -/
def taxi (lat1 lon1 lat2 lon2 : α) : α := sabs (lat2 - lat1) + sabs (lon2 - lon1)

end

/-! ### driver ops -/
open Aeic.Wire

def piF : Float := Lit.dec 3141592653589793 15

def getOptFs (j : Json) (k : String) : Except String (Option (List Float)) :=
  match optField j k with
  | none => pure none
  | some v => do pure (some (← getFs v))

/-- measure given as a table of `(lat1, lon1, lat2, lon2) ↦ length` (bit patterns); missing entries give NaN -/
def tableDist (tab : List (UInt64 × UInt64 × UInt64 × UInt64 × Float)) (a b c e : Float) : Float :=
  match tab.find? (fun r => r.1 == a.toBits && r.2.1 == b.toBits && r.2.2.1 == c.toBits && r.2.2.2.1 == e.toBits) with
  | some r => r.2.2.2.2
  | none => 0.0 / 0.0

def getTable (j : Json) : Except String (List (UInt64 × UInt64 × UInt64 × UInt64 × Float)) := do
  let rows ← getList getNats j
  rows.mapM fun r =>
    match r with
    | [a, b, c, e, v] => pure (a.toUInt64, b.toUInt64, c.toUInt64, e.toUInt64, Float.ofBits v.toUInt64)
    | _ => throw "table row must have 5 entries"

def putOptInts (o : Option (List Int)) : Json :=
  match o with
  | none => Json.null
  | some l => putInts l

def handle (op : String) (j : Json) : Except String Json := do
  match op with
  | "pi" => pure (putF piF)
  | "traj" =>
    let glat ← getFs (← field j "glat")
    let glon ← getFs (← field j "glon")
    let galt := (← getOptFs j "galt").getD []
    let gtime := (← getOptFs j "gtime").getD []
    let lats ← getFs (← field j "lats")
    let lons ← getFs (← field j "lons")
    let alts ← getOptFs j "alts"
    let times ← getOptFs j "times"
    let state ← getList getFs (← field j "state")
    let integ ← getList getFs (← field j "integ")
    let fixZero ← getBool (← field j "fixZero")
    let fixSplit ← getBool (← field j "fixSplit")
    let r : Rules := ⟨fixZero, fixSplit⟩
    let d : Float → Float → Float → Float → Float ←
      match optField j "table" with
      | none => pure (taxi (α := Float))
      | some tj => do let tab ← getTable tj; pure (tableDist tab)
    let g : Grid Float := ⟨glat, glon, galt, gtime⟩
    let t : Traj Float := ⟨lats, lons, alts, times, state, integ⟩
    let out := gridTraj r d piF g t
    -- the point chains of the (possibly split) trajectory, for the harness' distance table and clause checks
    let cr := crossings piF lons
    let n := (cr.filter (· ≠ 0)).length
    let parts : List (Traj Float) :=
      if n = 0 then [t] else if 1 < n then [] else let p := splitParts r d piF t; [p.1, p.2]
    let segs := parts.flatMap (fun p => mkSegs p.lats p.lons)
    let chains := segs.map (fun s => Json.arr #[putFs (chainLat glat glon s), putFs (chainLon glat glon s)])
    pure (obj [("latI", putInts out.latI), ("lonI", putInts out.lonI),
               ("altI", putOptInts out.altI), ("timeI", putOptInts out.timeI),
               ("state", Json.arr (out.state.map putFs).toArray),
               ("integ", Json.arr (out.integ.map putFs).toArray),
               ("counts", putNats out.counts),
               ("ncross", putNat n),
               ("chains", Json.arr chains.toArray)])
  | "cell" =>
    let g ← getFs (← field j "g")
    let xs ← getFs (← field j "xs")
    pure (putInts (xs.map (cellIdx g)))
  | _ => throw s!"unknown grid op {op}"

end Aeic.Grid
