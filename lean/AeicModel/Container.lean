/-
  Model of `AEIC/storage/container.py` (the growable per-point buffers of a trajectory):
  `Container.__init__` (extensible / fixed), `_expand_capacity` (np.resize semantics),
  `_append_from_dict`, `make_point(idx)`, `__getattr__` (slice to the current size), `fix`.

  Only pointwise float fields are modelled (one buffer per field); per-trajectory scalars never
  interact with the size/capacity bookkeeping.  The element type is arbitrary (`β`): the driver runs
  the model on `Nat` (IEEE bit patterns), so the comparison with the implementation is exact.

  `makePoint` follows the repaired code (`val[: size][idx]`); `makePointAsIs` keeps the code as it was
  found (`val[idx]` on the *capacity* buffer) for the negation witness in `Properties/C02.lean`.
-/
import AeicModel.Wire
import AeicModel.Generated.Constants
open Lean

namespace Aeic.Container

/-- `np.resize(xs, n)`: cyclic repetition of `xs` (zeros when `xs` is empty). -/
def npResize {β : Type} [Inhabited β] (xs : List β) (n : Nat) : List β :=
  (List.range n).map (fun i => xs.getD (i % xs.length) default)

structure Cont (β : Type) where
  size : Nat
  cap : Nat
  ext : Bool
  /-- one buffer per pointwise field, each of length `cap` -/
  cols : List (List β)
deriving Repr

section
variable {β : Type} [Inhabited β]

def startCap : Nat := Aeic.Gen.containerStartingCapacity
def expansion : Nat := Aeic.Gen.containerCapacityExpansion

/-- `Container(npoints=None)` with `ncols` pointwise fields (`metadata.empty(capacity)` = zeros). -/
def empty (ncols : Nat) : Cont β :=
  ⟨0, startCap, true, List.replicate ncols (List.replicate startCap default)⟩

/-- `Container(npoints=n)`. -/
def fixedSize (ncols n : Nat) : Cont β :=
  ⟨n, n, false, List.replicate ncols (List.replicate n default)⟩

/-- `_expand_capacity` -/
def expand (c : Cont β) : Cont β :=
  { c with cap := c.cap + expansion, cols := c.cols.map (fun col => npResize col (c.cap + expansion)) }

inductive Err where
  | fixedSize      -- ValueError: cannot append to fixed-size Container
  | fields         -- ValueError: missing / extra fields
  | index          -- IndexError: point index out of range
deriving Repr, DecidableEq

def Err.name : Err → String
  | .fixedSize => "ValueError" | .fields => "ValueError" | .index => "IndexError"

/-- `append(**kwargs)` / `append(point)`; `pt` has one value per pointwise field. -/
def append (c : Cont β) (pt : List β) : Except Err (Cont β) :=
  if !c.ext then .error .fixedSize
  else if pt.length ≠ c.cols.length then .error .fields
  else
    let c' := if c.size = c.cap then expand c else c
    .ok { c' with cols := List.zipWith (fun col v => col.set c'.size v) c'.cols pt, size := c'.size + 1 }

/-- Python index normalisation `xs[idx]` for a sequence of length `n` (caller has range-checked). -/
def pyIdx (n : Nat) (idx : Int) : Nat := if idx < 0 then (idx + n).toNat else idx.toNat

/-- `make_point(idx)` of the repaired code: the range check is against `size` and the value is
    taken from the buffer sliced to `size`. -/
def makePoint (c : Cont β) (idx : Int) : Except Err (List β) :=
  if idx < -(c.size : Int) ∨ idx ≥ (c.size : Int) then .error .index
  else .ok (c.cols.map (fun col => (col.take c.size).getD (pyIdx c.size idx) default))

/-- `make_point(idx)` as found: range check against `size`, value from the *capacity* buffer. -/
def makePointAsIs (c : Cont β) (idx : Int) : Except Err (List β) :=
  if idx < -(c.size : Int) ∨ idx ≥ (c.size : Int) then .error .index
  else .ok (c.cols.map (fun col => col.getD (pyIdx col.length idx) default))

/-- `__getattr__` of every pointwise field: the buffers sliced to the current size. -/
def get (c : Cont β) : List (List β) := c.cols.map (fun col => col.take c.size)

def fix (c : Cont β) : Cont β := { c with ext := false }

/-- run a sequence of appends (stops at the first refusal, like an uncaught exception) -/
def appendAll (c : Cont β) : List (List β) → Except Err (Cont β)
  | [] => .ok c
  | r :: rs => match append c r with
    | .error e => .error e
    | .ok c' => appendAll c' rs

/-- specification: column `j` of a list of rows -/
def column (rows : List (List β)) (j : Nat) : List β := rows.map (fun r => r.getD j default)

end

/-! ### driver ops (element type `Nat` = IEEE bit patterns, `default = 0` = bits of `0.0`) -/
open Aeic.Wire

private def putCols (cs : List (List Nat)) : Json := Json.arr (cs.map putNats).toArray

/-- ops: `{"a":[…]}` append, `{"mp":i}` make_point (repaired), `{"mpa":i}` make_point as found,
    `{"get":1}`, `{"fix":1}`, `{"len":1}`.  A refused op answers `{"err":"IndexError"}` and leaves the state alone. -/
def runOps (c : Cont Nat) (ops : List Json) : Except String (List Json) := do
  let mut c := c
  let mut out : List Json := []
  for o in ops do
    if let some a := optField o "a" then
      let pt ← getNats a
      match append c pt with
      | .ok c' => c := c'; out := Json.str "ok" :: out
      | .error e => out := obj [("err", Json.str e.name)] :: out
    else if let some i := optField o "mp" then
      match makePoint c (← getInt i) with
      | .ok p => out := putNats p :: out
      | .error e => out := obj [("err", Json.str e.name)] :: out
    else if let some i := optField o "mpa" then
      match makePointAsIs c (← getInt i) with
      | .ok p => out := putNats p :: out
      | .error e => out := obj [("err", Json.str e.name)] :: out
    else if (optField o "get").isSome then
      out := putCols (get c) :: out
    else if (optField o "fix").isSome then
      c := fix c; out := Json.str "ok" :: out
    else if (optField o "len").isSome then
      out := obj [("size", putNat c.size), ("cap", putNat c.cap)] :: out
    else throw "unknown container op"
  pure out.reverse

def handle (op : String) (j : Json) : Except String Json :=
  match op with
  | "cont_run" => do
      let ncols ← getNat (← field j "ncols")
      let ops ← getArr (← field j "ops")
      let c : Cont Nat := match optField j "npoints" with
        | some n => fixedSize ncols (n.getNat?.toOption.getD 0)
        | none => empty ncols
      pure (Json.arr (← runOps c ops.toList).toArray)
  | _ => throw s!"unknown container op {op}"

end Aeic.Container
