/-
  A small event language for the code that reads and writes the configuration singleton `_config` (`config/core.py`, C18),
  and its semantics.  The *programs* (`Aeic.Gen.cfgLoadProgram`, `cfgConstructProgram`, `cfgResetProgram`,
  `AeicModel/Generated/ConfigProg.lean`) are regenerated from the Python source by the translator on every check run: the
  statements of `Config.load`, of the `@model_validator(mode='after')` methods in definition order, and of `Config.reset`
  that can raise, test the singleton, or assign it — in source order, `try/finally` and `try/except` kept as structure.

  Stages (which `LoadSpec` bit makes a `failPoint` raise): 0 = reading / parsing the configuration file, 1 = pydantic field
  validation of the merged data, 2 + i = the calls in the body of the i-th after-validator.
-/
namespace Aeic.ConfigProg

inductive Ev
  | failPoint (stage : Nat)                 -- a call that raises iff its stage fails
  | checkUnset                              -- `if _config is not None: raise RuntimeError(...)`
  | assign                                  -- `_config = self`
  | clear                                   -- `_config = None`
  | raise                                   -- an unconditional `raise`
  | tryFinally (body fin : List Ev)
  | tryExcept (body handler : List Ev) (reraise : Bool)   -- handler runs when the body raises; `reraise`: the handler ends in `raise`
deriving Repr, Inhabited

inductive Why | stage (k : Nat) | already | explicit
deriving DecidableEq, Repr

abbrev St := Option Nat

mutual
/-- run a block from singleton state `st` for the would-be configuration `cfg`; `none` = ran to the end, `some w` = raised -/
def exec (fails : Nat → Bool) (cfg : Nat) : List Ev → St → St × Option Why
  | [], st => (st, none)
  | e :: rest, st =>
    match execEv fails cfg e st with
    | (st', none) => exec fails cfg rest st'
    | r => r
def execEv (fails : Nat → Bool) (cfg : Nat) : Ev → St → St × Option Why
  | .failPoint k, st => if fails k then (st, some (.stage k)) else (st, none)
  | .checkUnset, st => if st.isSome then (st, some .already) else (st, none)
  | .assign, _ => (some cfg, none)
  | .clear, _ => (none, none)
  | .raise, st => (st, some .explicit)
  | .tryFinally body fin, st =>
    match exec fails cfg body st with
    | (st', r) =>
      match exec fails cfg fin st' with
      | (st'', none) => (st'', r)
      | bad => bad
  | .tryExcept body handler reraise, st =>
    match exec fails cfg body st with
    | (st', none) => (st', none)
    | (st', some w) =>
      match exec fails cfg handler st' with
      | (st'', none) => (st'', if reraise then some w else none)
      | bad => bad
end

/-- flat programs (no `try`): the shape of the code as it exists -/
def flat : List Ev → Bool
  | [] => true
  | .tryFinally _ _ :: _ => false
  | .tryExcept _ _ _ :: _ => false
  | _ :: rest => flat rest

def isAssign : Ev → Bool
  | .assign => true
  | _ => false

/-- nothing that can raise follows an assignment, and nothing clears -/
def safeAfter : List Ev → Bool
  | [] => true
  | .assign :: rest => rest.all isAssign
  | .clear :: _ => false
  | _ :: rest => safeAfter rest

/-- the singleton is tested before it is assigned -/
def guarded : List Ev → Bool
  | [] => true
  | .checkUnset :: _ => true
  | .assign :: _ => false
  | .clear :: _ => false
  | .raise :: _ => false
  | _ :: rest => guarded rest

def assigns : List Ev → Bool
  | [] => false
  | .assign :: _ => true
  | _ :: rest => assigns rest

end Aeic.ConfigProg
