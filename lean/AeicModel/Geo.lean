/-
  C15 — model of `AEIC.trajectories.ground_track.GroundTrack` and `Mission.gc_distance`
  on top of an abstract geodesic calculator (`pyproj.Geod` in the code).

  The geodesic solver itself is a *parameter* (`Geod α`): the track logic (cumulative index,
  `bisect_left`, boundary cases, overstep, step range logic, waypoint-crossing refusal,
  azimuth normalisation `% 360.0`, argument order of `GEOD.inv`) is what is modelled.

  Two executable oracles exist for the driver:
    * `manhattan sx sy` — the exact axis-aligned world used by correspondence (a) (the Python
      harness patches `GEOD` with a stub computing the same thing),
    * `tableGeod` — a finite table of pyproj's own answers (correspondence (b)).
  No Mathlib import here.
-/
import AeicModel.Scalar
import AeicModel.Wire
open Lean

namespace Aeic.Geo

/-- `floor`, needed only for Python's float `%` outside (-360, 360). -/
class HasFloor (α : Type) where
  floor : α → α

instance : HasFloor Float := ⟨Float.floor⟩

/-- result of `Geod.inv(lon1, lat1, lon2, lat2)`: forward azimuth, back azimuth, distance. -/
structure InvR (α : Type) where
  az12 : α
  az21 : α
  dist : α

/-- result of `Geod.fwd(lon, lat, az, dist)`: end point and back azimuth. -/
structure FwdR (α : Type) where
  lon : α
  lat : α
  back : α

/-- the geodesic calculator; argument order is pyproj's: longitude first. -/
structure Geod (α : Type) where
  inv : α → α → α → α → InvR α
  fwd : α → α → α → α → FwdR α

/-- `GroundTrack.Point` (location + azimuth). -/
structure Pt (α : Type) where
  lon : α
  lat : α
  az : α

inductive Err where
  | outside      -- 'distance outside ground track range' / 'step outside ground track range'
  | negative     -- 'distances must be non-negative'
  | crossing     -- 'step would cross a waypoint'
  deriving DecidableEq, Repr

/-- state of a `GroundTrack` after `__init__`. -/
structure Track (α : Type) where
  wps : List (α × α)        -- (longitude, latitude)
  azs : List α              -- `self.azimuths`, one per leg (raw `inv` output)
  idx : List α              -- `self.index`, cumulative distance per waypoint
  overstep : Bool

section
variable {α : Type} [Add α] [Sub α] [Mul α] [Div α] [Neg α] [LT α] [LE α]
  [DecidableLT α] [DecidableLE α] [Lit α]

/-- Python `x % 360.0` for floats (result has the sign of the divisor).  For `|x| < 360` the two
    first branches are *exactly* what CPython computes (`fmod` is exact there); beyond that the
    floor formula is the ideal-arithmetic value. -/
def pymod360 [HasFloor α] (x : α) : α :=
  let m : α := d% 360
  if x < zero then
    (if -m < x then x + m else x - m * HasFloor.floor (x / m))
  else if x < m then x
  else x - m * HasFloor.floor (x / m)

def nth (xs : List α) (i : Nat) : α := xs.getD i zero
def nthP (ps : List (α × α)) (i : Nat) : α × α := ps.getD i (zero, zero)
/-- Python `xs[-1]`. -/
def lastOf (xs : List α) : α := nth xs (xs.length - 1)

/-- `GEOD.inv(lons[:-1], lats[:-1], lons[1:], lats[1:])`: one inverse problem per leg. -/
def legsOf (g : Geod α) : List (α × α) → List (InvR α)
  | p :: q :: rest => g.inv p.1 p.2 q.1 q.2 :: legsOf g (q :: rest)
  | _ => []

/-- `itertools.accumulate([acc] + ds)`. -/
def accumulate (acc : α) : List α → List α
  | [] => [acc]
  | d :: ds => acc :: accumulate (acc + d) ds

/-- `GroundTrack.__init__`. -/
def mkTrack (g : Geod α) (wps : List (α × α)) (overstep : Bool) : Track α :=
  let legs := legsOf g wps
  { wps := wps, azs := legs.map (·.az12), idx := accumulate zero (legs.map (·.dist)), overstep := overstep }

def total (t : Track α) : α := lastOf t.idx

/-- `distance in self`. -/
def inRange (t : Track α) (d : α) : Bool :=
  decide (nth t.idx 0 ≤ d) && decide (d ≤ lastOf t.idx)

/-- `bisect_left(index, d)` on a non-decreasing list: the number of leading entries `< d`. -/
def bisectLeft (xs : List α) (d : α) : Nat := (xs.takeWhile (fun x => decide (x < d))).length

/-- `GroundTrack.location`. -/
def location [HasFloor α] (g : Geod α) (t : Track α) (d : α) : Except Err (Pt α) :=
  if inRange t d = false then .error .outside
  else
    let pos := bisectLeft t.idx d
    if pos = 0 then
      let w := nthP t.wps 0
      .ok ⟨w.1, w.2, pymod360 (nth t.azs 0)⟩
    else if lastOf t.idx ≤ d then
      let w := nthP t.wps (t.wps.length - 1)
      .ok ⟨w.1, w.2, pymod360 (lastOf t.azs)⟩
    else
      let wb := nthP t.wps (pos - 1)
      let f := g.fwd wb.1 wb.2 (nth t.azs (pos - 1)) (d - nth t.idx (pos - 1))
      let wa := nthP t.wps pos
      let i := g.inv f.lon f.lat wa.1 wa.2
      .ok ⟨f.lon, f.lat, pymod360 i.az12⟩

/-- `GroundTrack._overstep`. -/
def overstepPt [HasFloor α] (g : Geod α) (t : Track α) (d : α) : Pt α :=
  let n := t.wps.length
  let w2 := nthP t.wps (n - 2)
  let f := g.fwd w2.1 w2.2 (lastOf t.azs) (d - nth t.idx (t.idx.length - 2))
  let w1 := nthP t.wps (n - 1)
  let i := g.inv w1.1 w1.2 f.lon f.lat
  ⟨f.lon, f.lat, pymod360 i.az12⟩

/-- `GroundTrack.step`. -/
def step [HasFloor α] (g : Geod α) (t : Track α) (a b : α) : Except Err (Pt α) :=
  if a < zero ∨ b < zero then .error .negative
  else if inRange t a = true ∧ inRange t (a + b) = true then
    let bp := bisectLeft t.idx a
    let ap := bisectLeft t.idx (a + b)
    if t.overstep = false ∧ bp ≠ ap ∧ a < nth t.idx bp then .error .crossing
    else location g t (a + b)
  else if t.overstep = false then .error .outside
  else .ok (overstepPt g t (a + b))

/-- `Mission.gc_distance` as repaired (fix: longitude first, as `GEOD.inv` expects). -/
def gcDistance (g : Geod α) (o d : α × α) : α := (g.inv o.1 o.2 d.1 d.2).dist

/-- `Mission.gc_distance` as found on the pinned tree: `(lat, lon, lat, lon)` handed to `GEOD.inv`. -/
def gcDistanceAsFound (g : Geod α) (o d : α × α) : α := (g.inv o.2 o.1 d.2 d.1).dist

/-! ### The Manhattan world: an exact, axis-aligned geodesic calculator

  Longitude differences cost `sx` per degree, latitude differences `sy` per degree (different on purpose:
  swapping longitude and latitude changes every answer).  Azimuths use pyproj's (-180, 180] convention:
  north 0, east 90, south 180, west -90.  `fwd` treats any azimuth that is not recognisably E/S/W as north.
-/
def sabs' (a : α) : α := if a < zero then -a else a

/-- equality test written with `<` only (the scalar interface has no `DecidableEq`). -/
abbrev isAz (az v : α) : Prop := ¬ az < v ∧ ¬ v < az

def manhattan (sx sy : α) : Geod α where
  inv lon1 lat1 lon2 lat2 :=
    if lat1 < lat2 ∨ lat2 < lat1 then
      if lon1 < lon2 ∨ lon2 < lon1 then
        -- not axis aligned: L1 length, arbitrary diagonal azimuth
        ⟨d% 45, -(d% 135), sabs' (lon2 - lon1) * sx + sabs' (lat2 - lat1) * sy⟩
      else if lat1 < lat2 then ⟨d% 0, d% 180, (lat2 - lat1) * sy⟩
      else ⟨d% 180, d% 0, (lat1 - lat2) * sy⟩
    else if lon2 < lon1 then ⟨-(d% 90), d% 90, (lon1 - lon2) * sx⟩
    else ⟨d% 90, -(d% 90), (lon2 - lon1) * sx⟩
  fwd lon lat az dist :=
    if isAz az (d% 90) then ⟨lon + dist / sx, lat, -(d% 90)⟩
    else if isAz az (-(d% 90)) ∨ isAz az (d% 270) then ⟨lon - dist / sx, lat, d% 90⟩
    else if isAz az (d% 180) ∨ isAz az (-(d% 180)) then ⟨lon, lat - dist / sy, d% 0⟩
    else ⟨lon, lat + dist / sy, d% 180⟩

end

/-! ### Driver side -/

open Aeic.Wire

/-- finite oracle: exact-bit lookup of recorded pyproj answers; a miss yields NaN. -/
def tableGeod (invT : List (List UInt64 × InvR Float)) (fwdT : List (List UInt64 × FwdR Float)) : Geod Float where
  inv a b c d :=
    match invT.lookup [a.toBits, b.toBits, c.toBits, d.toBits] with
    | some r => r
    | none => ⟨0.0 / 0.0, 0.0 / 0.0, 0.0 / 0.0⟩
  fwd a b c d :=
    match fwdT.lookup [a.toBits, b.toBits, c.toBits, d.toBits] with
    | some r => r
    | none => ⟨0.0 / 0.0, 0.0 / 0.0, 0.0 / 0.0⟩

private def getKey (j : Json) : Except String (List UInt64) := do
  let ns ← getNats j
  pure (ns.map (·.toUInt64))

private def getInvT (j : Json) : Except String (List (List UInt64 × InvR Float)) :=
  getList (fun e => do
    let k ← getKey (← field e "k")
    let v ← getFs (← field e "v")
    match v with
    | [a, b, c] => pure (k, (⟨a, b, c⟩ : InvR Float))
    | _ => throw "inv table entry needs 3 values") j

private def getFwdT (j : Json) : Except String (List (List UInt64 × FwdR Float)) :=
  getList (fun e => do
    let k ← getKey (← field e "k")
    let v ← getFs (← field e "v")
    match v with
    | [a, b, c] => pure (k, (⟨a, b, c⟩ : FwdR Float))
    | _ => throw "fwd table entry needs 3 values") j

private def getGeod (j : Json) : Except String (Geod Float) := do
  let w ← getStr (← field j "world")
  match w with
  | "manhattan" =>
    let sx ← getF (← field j "sx")
    let sy ← getF (← field j "sy")
    pure (manhattan sx sy)
  | "table" =>
    let it ← getInvT (← field j "inv_table")
    let ft ← getFwdT (← field j "fwd_table")
    pure (tableGeod it ft)
  | _ => throw s!"unknown world {w}"

private def getPt (j : Json) : Except String (Float × Float) := do
  match ← getFs j with
  | [a, b] => pure (a, b)
  | _ => throw "point needs [lon, lat]"

private def putRes (r : Except Err (Pt Float)) : Json :=
  match r with
  | .ok p => obj [("ok", putFs [p.lon, p.lat, p.az])]
  | .error .outside => obj [("err", Json.str "outside")]
  | .error .negative => obj [("err", Json.str "negative")]
  | .error .crossing => obj [("err", Json.str "crossing")]

def handle (op : String) (j : Json) : Except String Json :=
  match op with
  | "mod360" => do
      let xs ← getFs (← field j "xs")
      pure (putFs (xs.map (pymod360 (α := Float))))
  | "track" => do
      let g ← getGeod j
      let wps ← getList getPt (← field j "wps")
      if wps.length < 2 then throw "track needs at least two waypoints"
      let ov ← getBool (← field j "overstep")
      let t := mkTrack g wps ov
      let qs ← getArr (← field j "queries")
      let rs ← qs.toList.mapM (fun q => do
        let k ← getStr (← field q "k")
        match k with
        | "loc" => do
            let d ← getF (← field q "d")
            pure (putRes (location g t d))
        | "step" => do
            let a ← getF (← field q "a")
            let b ← getF (← field q "b")
            pure (putRes (step g t a b))
        | "lookup" => do
            let d ← getF (← field q "d")
            pure (if inRange t d then obj [("pos", putNat (bisectLeft t.idx d))] else obj [("err", Json.str "outside")])
        | _ => throw s!"unknown query {k}")
      pure (obj [("index", putFs t.idx), ("azs", putFs t.azs), ("total", putF (total t)),
                 ("results", Json.arr rs.toArray)])
  | "gcdist" => do
      let g ← getGeod j
      let o ← getPt (← field j "o")
      let d ← getPt (← field j "d")
      pure (obj [("fixed", putF (gcDistance g o d)), ("as_found", putF (gcDistanceAsFound g o d))])
  | _ => throw s!"unknown geo op {op}"

end Aeic.Geo
