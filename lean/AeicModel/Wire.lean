/-
  JSON-lines wire helpers for the driver.  Floats travel as IEEE-754 bit patterns
  (u64, decimal) so both sides see bit-identical inputs; NaN / ±inf survive.
-/
import Lean.Data.Json
open Lean

namespace Aeic.Wire

def getNat (j : Json) : Except String Nat := j.getNat?
def getInt (j : Json) : Except String Int := j.getInt?
def getStr (j : Json) : Except String String := j.getStr?
def getBool (j : Json) : Except String Bool := j.getBool?

def getF (j : Json) : Except String Float := do
  let n ← j.getNat?
  pure (Float.ofBits n.toUInt64)

def putF (x : Float) : Json := Json.num (JsonNumber.fromNat x.toBits.toNat)

def getArr (j : Json) : Except String (Array Json) := j.getArr?

def getList {β} (f : Json → Except String β) (j : Json) : Except String (List β) := do
  let a ← j.getArr?
  a.toList.mapM f

def getFs (j : Json) : Except String (List Float) := getList getF j
def getNats (j : Json) : Except String (List Nat) := getList getNat j
def getInts (j : Json) : Except String (List Int) := getList getInt j
def getStrs (j : Json) : Except String (List String) := getList getStr j

def putFs (xs : List Float) : Json := Json.arr (xs.map putF).toArray
def putNats (xs : List Nat) : Json := Json.arr (xs.map (fun n => Json.num (JsonNumber.fromNat n))).toArray
def putInts (xs : List Int) : Json := Json.arr (xs.map (fun n => Json.num (JsonNumber.fromInt n))).toArray
def putStrs (xs : List String) : Json := Json.arr (xs.map Json.str).toArray
def putNat (n : Nat) : Json := Json.num (JsonNumber.fromNat n)
def putInt (n : Int) : Json := Json.num (JsonNumber.fromInt n)

def field (j : Json) (k : String) : Except String Json := j.getObjVal? k
def fieldD (j : Json) (k : String) (d : Json) : Json := (j.getObjVal? k).toOption.getD d
def optField (j : Json) (k : String) : Option Json :=
  match j.getObjVal? k with
  | .ok Json.null => none
  | .ok v => some v
  | .error _ => none

def obj (kvs : List (String × Json)) : Json := Json.mkObj kvs

end Aeic.Wire
