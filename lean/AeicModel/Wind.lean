/-
  C16 — model of `AEIC.weather.Weather.get_ground_speed`:
  ISA pressure level of the altitude, trilinear interpolation of the (u, v) wind on a rectilinear
  (pressure_level, latitude, longitude) grid with "outside ⇒ refused", heading decomposition, hypot.

  The heading decomposition exists in two variants:
    * `airAsIs`     — the code on the pinned tree: `u_air = tas·cos(h)`, `v_air = tas·sin(h)`
    * `airIntended` — heading measured clockwise from north: `u_air = tas·sin(h)`, `v_air = tas·cos(h)`
  (open finding C16-heading-components-swapped).  No Mathlib import here.
-/
import AeicModel.Scalar
import AeicModel.Wire
import AeicModel.Generated.Constants
open Lean

namespace Aeic.Wind

class HasPi (α : Type) where
  pi : α

/-- the double nearest to π (`NPY_PI`). -/
instance : HasPi Float := ⟨Float.ofBits 0x400921FB54442D18⟩

inductive Err where
  | altitudeRange   -- ValueError("Altitude out of range [0-25000m]")
  | outsideDomain   -- ValueError('ground track point is outside weather data domain')
  | badTime         -- no slab for the requested hour (IndexError in `isel`)
  deriving DecidableEq, Repr

section
variable {α : Type} [Add α] [Sub α] [Mul α] [Div α] [Neg α] [LT α] [LE α]
  [DecidableLT α] [DecidableLE α] [Lit α] [Transc α]

open Aeic.Gen in
/-- `temperature_at_altitude_isa_bada4` (the `np.where`; the range check is in `pressureLevel`). -/
def isaTemperature (h : α) : α :=
  if h ≤ (h_p_tropo : α) then (T0 : α) + beta_tropo * h else (T0 : α) + beta_tropo * h_p_tropo

open Aeic.Gen in
/-- `pressure_at_altitude_isa_bada4` [Pa]. -/
def isaPressure (h : α) : α :=
  let temperature := isaTemperature h
  let pTropo : α := p0 * Transc.pow (((T0 : α) + beta_tropo * h_p_tropo) / T0) (-(g0 : α) / (beta_tropo * R_air))
  if h ≤ (h_p_tropo : α) then
    (p0 : α) * Transc.pow (temperature / T0) (-(g0 : α) / (beta_tropo * R_air))
  else
    pTropo * Transc.exp (-(g0 : α) / ((R_air : α) * ((T0 : α) + beta_tropo * h_p_tropo)) * (h - h_p_tropo))

/-- pressure level [hPa] handed to `.interp`; altitudes above 25 km are refused by the ISA function. -/
def pressureLevel (h : α) : Except Err α :=
  if (d% 25000 : α) < h then .error .altitudeRange else .ok (isaPressure h / d% 100)

/-- bracket of `x` on an ascending axis: index of the lower node and the weight of the upper one. -/
def locate : List α → α → Option (Nat × α)
  | x0 :: x1 :: rest, x =>
    if x0 ≤ x ∧ x ≤ x1 then some (0, (x - x0) / (x1 - x0))
    else (locate (x1 :: rest) x).map (fun it => (it.1 + 1, it.2))
  | _, _ => none

def lerp (t a b : α) : α := a + t * (b - a)

def corner (g : List (List (List α))) (i j k : Nat) : Option α :=
  (g[i]? >>= (·[j]?)) >>= (·[k]?)

/-- linear interpolation in three coordinates (what `DataArray.interp` does for scalar targets);
    `none` when the target is outside the axes (xarray: NaN). -/
def trilinear (ps lats lons : List α) (g : List (List (List α))) (p la lo : α) : Option α := do
  let (i, tp) ← locate ps p
  let (j, tl) ← locate lats la
  let (k, to) ← locate lons lo
  let c000 ← corner g i j k
  let c001 ← corner g i j (k + 1)
  let c010 ← corner g i (j + 1) k
  let c011 ← corner g i (j + 1) (k + 1)
  let c100 ← corner g (i + 1) j k
  let c101 ← corner g (i + 1) j (k + 1)
  let c110 ← corner g (i + 1) (j + 1) k
  let c111 ← corner g (i + 1) (j + 1) (k + 1)
  pure (lerp tp (lerp tl (lerp to c000 c001) (lerp to c010 c011))
                (lerp tl (lerp to c100 c101) (lerp to c110 c111)))

/-- `np.deg2rad`. -/
def deg2rad [HasPi α] (x : α) : α := x * (HasPi.pi / d% 180)

/-- `np.hypot` (ideal-arithmetic reading). -/
def hypot (x y : α) : α := Transc.sqrt (x * x + y * y)

/-- the aircraft's air-velocity vector (eastward, northward) as the code computes it. -/
def airAsIs (tas h : α) : α × α := (tas * Transc.cos h, tas * Transc.sin h)

/-- the same for a heading measured clockwise from north. -/
def airIntended (tas h : α) : α × α := (tas * Transc.sin h, tas * Transc.cos h)

/-- last three lines of `get_ground_speed`, parameterised by the decomposition. -/
def groundSpeedWith [HasPi α] (air : α → α → α × α) (tas hdgDeg u v : α) : α :=
  let a := air tas (deg2rad hdgDeg)
  hypot (a.1 + u) (a.2 + v)

def groundSpeedAsIs [HasPi α] (tas hdgDeg u v : α) : α := groundSpeedWith airAsIs tas hdgDeg u v
def groundSpeed [HasPi α] (tas hdgDeg u v : α) : α := groundSpeedWith airIntended tas hdgDeg u v

/-- one weather file: axes (ascending) and the u, v fields, either one slab or one slab per hour. -/
structure Field (α : Type) where
  ps : List α
  lats : List α
  lons : List α
  hasTime : Bool
  u : List (List (List (List α)))     -- [hour][p][lat][lon]; a single slab when `hasTime = false`
  v : List (List (List (List α)))

def slab (f : Field α) (x : List (List (List (List α)))) (hour : Nat) : Option (List (List (List α))) :=
  if f.hasTime then x[hour]? else x[0]?

/-- `Weather.get_ground_speed` (stateless reading: the caches only memoise). -/
def getGroundSpeedWith [HasPi α] (air : α → α → α × α) (f : Field α) (hour : Nat)
    (alt lat lon tas hdgDeg : α) : Except Err α := do
  let pl ← pressureLevel alt
  let su ← match slab f f.u hour with | some s => pure s | none => .error .badTime
  let sv ← match slab f f.v hour with | some s => pure s | none => .error .badTime
  match trilinear f.ps f.lats f.lons su pl lat lon, trilinear f.ps f.lats f.lons sv pl lat lon with
  | some wu, some wv => pure (groundSpeedWith air tas hdgDeg wu wv)
  | _, _ => .error .outsideDomain

end

/-! ### Driver side -/
open Aeic.Wire

private def get3 (j : Json) : Except String (List (List (List Float))) := getList (getList getFs) j
private def get4 (j : Json) : Except String (List (List (List (List Float)))) := getList get3 j

private def putR (r : Except Err Float) : Json :=
  match r with
  | .ok x => obj [("ok", putF x)]
  | .error .altitudeRange => obj [("err", Json.str "altitude")]
  | .error .outsideDomain => obj [("err", Json.str "outside")]
  | .error .badTime => obj [("err", Json.str "time")]

def handle (op : String) (j : Json) : Except String Json :=
  match op with
  | "plevel" => do
      let hs ← getFs (← field j "alts")
      pure (Json.arr (hs.map (fun h => putR (pressureLevel h))).toArray)
  | "gsvec" => do
      -- pure vector part: [tas, hdg, u, v] quadruples
      let qs ← getList getFs (← field j "qs")
      let rs ← qs.mapM (fun q => match q with
        | [tas, hdg, u, v] => pure (obj [("as_is", putF (groundSpeedAsIs tas hdg u v)),
                                         ("intended", putF (groundSpeed tas hdg u v))])
        | _ => throw "gsvec needs [tas, hdg, u, v]")
      pure (Json.arr rs.toArray)
  | "gs" => do
      let f : Field Float := {
        ps := ← getFs (← field j "ps"), lats := ← getFs (← field j "lats"), lons := ← getFs (← field j "lons"),
        hasTime := ← getBool (← field j "has_time"),
        u := ← get4 (← field j "u"), v := ← get4 (← field j "v") }
      let qs ← getArr (← field j "queries")
      let rs ← qs.toList.mapM (fun q => do
        let hour ← getNat (← field q "hour")
        match ← getFs (← field q "x") with
        | [alt, lat, lon, tas, hdg] =>
          let wu := (do
            let pl ← (pressureLevel alt).toOption
            let s ← slab f f.u hour
            trilinear f.ps f.lats f.lons s pl lat lon : Option Float)
          let wv := (do
            let pl ← (pressureLevel alt).toOption
            let s ← slab f f.v hour
            trilinear f.ps f.lats f.lons s pl lat lon : Option Float)
          pure (obj [("as_is", putR (getGroundSpeedWith airAsIs f hour alt lat lon tas hdg)),
                     ("intended", putR (getGroundSpeedWith airIntended f hour alt lat lon tas hdg)),
                     ("wind", match wu, wv with
                              | some a, some b => putFs [a, b]
                              | _, _ => Json.null)])
        | _ => throw "query needs x = [alt, lat, lon, tas, hdg]")
      pure (Json.arr rs.toArray)
  | _ => throw s!"unknown wind op {op}"

end Aeic.Wind
