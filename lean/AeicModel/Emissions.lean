/-
  C01 — assembly of the per-flight emissions inventory, modelled from the code as it exists:

    emissions/emission.py    compute_emissions, sum_total_emissions, get_lifecycle_emissions
    emissions/trajectory.py  get_trajectory_emissions (index·burn, window zeroing, fuel), _trajectory_slice
    emissions/lto.py         get_LTO_emissions (_LTO_TIMS, mode zeroing, _lto_nox)
    emissions/apu.py         get_APU_emissions
    emissions/gse.py         get_GSE_emissions, _gse_nominal_profile
    emissions/utils.py       constant_species_values, get_thrust_cat_cruise
    emissions/ei/nox.py      NOx_speciation (+ the speciation step of BFFM2_EINOx)
    emissions/ei/sox.py      EI_SOx

  Generic in the scalar `α` (executed on `Float` by the driver, proved about over `ℝ`).
  The emission-index arrays that come out of the EI kernels (HC, CO, NOx total, PMvol, OCic, PMnvol*) are
  *inputs* of this model (property C12 owns those kernels); everything that happens to them afterwards is modelled.
  No Mathlib import here.
-/
import AeicModel.Scalar
import AeicModel.Wire
import AeicModel.Generated.Constants
open Lean

namespace Aeic.Emissions

/-! ## species, thrust modes, small containers -/

/-- `AEIC.types.Species` (member order as in the source; checked against the regenerated order in the proofs). -/
inductive Sp
  | CO2 | H2O | HC | CO | NOx | NO | NO2 | HONO | PMnvol | PMnvolGMD | PMvol | OCic | SOx | SO2 | SO4 | PMnvolN
  deriving DecidableEq, Repr, Inhabited

def Sp.all : List Sp :=
  [.CO2, .H2O, .HC, .CO, .NOx, .NO, .NO2, .HONO, .PMnvol, .PMnvolGMD, .PMvol, .OCic, .SOx, .SO2, .SO4, .PMnvolN]

def Sp.name : Sp → String
  | .CO2 => "CO2" | .H2O => "H2O" | .HC => "HC" | .CO => "CO" | .NOx => "NOx" | .NO => "NO" | .NO2 => "NO2"
  | .HONO => "HONO" | .PMnvol => "PMnvol" | .PMnvolGMD => "PMnvolGMD" | .PMvol => "PMvol" | .OCic => "OCic"
  | .SOx => "SOx" | .SO2 => "SO2" | .SO4 => "SO4" | .PMnvolN => "PMnvolN"

/-- `AEIC.performance.types.ThrustMode` -/
inductive Mode | idle | approach | climb | takeoff
  deriving DecidableEq, Repr, Inhabited

def Mode.all : List Mode := [.idle, .approach, .climb, .takeoff]
def Mode.name : Mode → String
  | .idle => "IDLE" | .approach => "APPROACH" | .climb => "CLIMB" | .takeoff => "TAKEOFF"

/-- `ThrustModeValues` with all four modes present. -/
structure TM (α : Type) where
  idle : α
  approach : α
  climb : α
  takeoff : α
  deriving Repr

/-- `SpeciesValues[β]`: a partial map from species (absent key = `none`). -/
abbrev SV (β : Type) := Sp → Option β

def SV.empty {β : Type} : SV β := fun _ => none
def SV.keys {β : Type} (m : SV β) : List Sp := Sp.all.filter fun s => (m s).isSome

/-- `apu.fuel_kg_per_s != 0.0` needs an equality test that the ordered-scalar interface does not have. -/
class ZeroTest (α : Type) where
  isZero : α → Bool

instance : ZeroTest Float := ⟨fun x => x == 0.0⟩

namespace TM
variable {α β γ : Type}
def const (v : α) : TM α := ⟨v, v, v, v⟩
def map (f : α → β) (t : TM α) : TM β := ⟨f t.idle, f t.approach, f t.climb, f t.takeoff⟩
def zipWith (f : α → β → γ) (a : TM α) (b : TM β) : TM γ :=
  ⟨f a.idle b.idle, f a.approach b.approach, f a.climb b.climb, f a.takeoff b.takeoff⟩
def get (t : TM α) : Mode → α
  | .idle => t.idle | .approach => t.approach | .climb => t.climb | .takeoff => t.takeoff
def toList (t : TM α) : List α := [t.idle, t.approach, t.climb, t.takeoff]
end TM

/-! ## configuration, inputs -/

inductive NoxM | bffm2 | p3t3 | none deriving DecidableEq, Repr
/-- `pmnvol_method`; `foa3` is not listed: `_calculate_EI_PMnvol` refuses it by name before any inventory exists. -/
inductive PmnvolM | meem | scope11 | none deriving DecidableEq, Repr
inductive AcClass | wide | narrow | small | freight deriving DecidableEq, Repr

/-- the `[emissions]` options that reach the assembly code. `hc`/`co`/`pmvol` are the `*_enabled` properties. -/
structure Cfg where
  ltoMode : Bool      -- climb_descent_mode == 'lto'
  co2 : Bool
  h2o : Bool
  sox : Bool
  nox : NoxM
  hc : Bool
  co : Bool
  pmvol : Bool
  pmnvol : PmnvolM
  apu : Bool
  gse : Bool
  lifecycle : Bool
  deriving Repr

/-- `EmissionsConfig.enabled_species` -/
def Cfg.enabled (c : Cfg) : Sp → Bool
  | .CO2 => c.co2
  | .H2O => c.h2o
  | .HC => c.hc
  | .CO => c.co
  | .NOx | .NO | .NO2 | .HONO => c.nox != .none
  | .PMvol | .OCic => c.pmvol
  | .PMnvol | .PMnvolGMD | .PMnvolN => c.pmnvol != .none
  | .SOx | .SO2 | .SO4 => c.sox

structure Fuel (α : Type) where
  energy : α
  eiH2O : α
  eiCO2 : α
  lifecycle : Option α
  sulfur : α
  sulfateYield : α

/-- what `get_trajectory_emissions` sees: the trajectory bookkeeping plus the EI arrays produced by the EI kernels
    (before windowing).  `sls` is the sea-level-equivalent fuel flow the NOx thrust category is read from. -/
structure TrajIn (α : Type) where
  fm : List α
  nClimb : Nat
  nDescent : Nat
  nox : List α
  sls : List α
  hc : List α
  co : List α
  pmvol : List α
  ocic : List α
  pmnvol : List α
  gmd : List α
  pmnvolN : List α

/-- `pm.lto` plus the LTO PM indices produced by the EI kernels. -/
structure LtoIn (α : Type) where
  ff : TM α
  nox : TM α
  hc : TM α
  co : TM α
  pmvol : TM α
  ocic : TM α
  pmnvol : TM α

structure ApuIn (α : Type) where
  fuel : α
  pm10 : α
  nox : α
  hc : α
  co : α

/-- the returned `Emissions` dataclass, plus the four component fuel amounts that `compute_emissions` adds up
    (`EmissionsSubset.fuel_burn`; not stored in the dataclass but what `total_fuel_burn` is made of). -/
structure Inv (α : Type) where
  trajEm : SV (List α)
  trajIdx : SV (List α)
  ltoEm : SV (TM α)
  ltoIdx : SV (TM α)
  apuEm : SV α
  apuIdx : SV α
  gseEm : SV α
  total : SV α
  burn : List α
  totalFuel : α
  lifecycle : α
  trajFuel : α
  ltoFuel : TM α
  apuFuel : Option α
  gseFuel : Option α

inductive Err | keyErrorSO2 | lifecycleMissing | emptyTrajectory
  deriving DecidableEq, Repr

section generic
variable {α : Type} [Add α] [Sub α] [Mul α] [Div α] [Neg α] [LT α] [LE α]
  [DecidableLT α] [DecidableLE α] [Lit α] [ZeroTest α]

/-! ## sums -/

/-- left-to-right sum from 0: Python's `sum(values)`; exact-arithmetic reading of `np.sum`. -/
def suml (xs : List α) : α := xs.foldl (· + ·) zero

/-- `ThrustModeValues.sum()` = `sum(self._data.values())` -/
def TM.sum (t : TM α) : α := (((zero + t.idle) + t.approach) + t.climb) + t.takeoff

/-- `ThrustModeValues.copy(mutable=True)` then `[APPROACH] = 0.0; [CLIMB] = 0.0` -/
def TM.zeroAC (t : TM α) : TM α := { t with approach := zero, climb := zero }

/-! ## NOx speciation (ei/nox.py: NOx_speciation) and SOx (ei/sox.py: EI_SOx) -/

def honoH : α := d% 0.75
def honoL : α := d% 4.5
def honoA : α := d% 4.5
def no2H : α := d% 7.5 * (d% 100 - honoH) / d% 100
def no2L : α := d% 86.5 * (d% 100 - honoL) / d% 100
def no2A : α := d% 16 * (d% 100 - honoA) / d% 100
def noH : α := d% 100 - honoH - no2H
def noL : α := d% 100 - honoL - no2L
def noA : α := d% 100 - honoA - no2A

def specNO : TM α := ⟨noL / d% 100, noA / d% 100, noH / d% 100, noH / d% 100⟩
def specNO2 : TM α := ⟨no2L / d% 100, no2A / d% 100, no2H / d% 100, no2H / d% 100⟩
def specHONO : TM α := ⟨honoL / d% 100, honoA / d% 100, honoH / d% 100, honoH / d% 100⟩

/-- utils.py: get_thrust_cat_cruise (np.select: first true condition wins, default APPROACH) -/
def thrustCat (ffCal : TM α) (ff : α) : Mode :=
  let low : α := (ffCal.idle + ffCal.approach) / d% 2
  let appr : α := (ffCal.approach + ffCal.climb) / d% 2
  if ff ≤ low then .idle else if appr < ff then .climb else .approach

/-- the speciation step of BFFM2_EINOx: `NOxEI * prop[cat]` pointwise -/
def speciate (frac : TM α) (nox : List α) (cats : List Mode) : List α :=
  List.zipWith (fun e c => e * frac.get c) nox cats

def eiSO2 (f : Fuel α) : α :=
  f.sulfur / d% 1000000 * (d% 1 - f.sulfateYield) * d% 64 / d% 32 * d% 1000
def eiSO4 (f : Fuel α) : α :=
  f.sulfur / d% 1000000 * f.sulfateYield * d% 96 / d% 32 * d% 1000
def eiSOx (f : Fuel α) : α := eiSO2 f + eiSO4 f

/-- utils.py: constant_species_values (followed by the `in enabled_species` filter of the callers) -/
def constEI (c : Cfg) (f : Fuel α) : SV α
  | .CO2 => if c.co2 then some f.eiCO2 else none
  | .H2O => if c.h2o then some f.eiH2O else none
  | .SOx => if c.sox then some (eiSOx f) else none
  | .SO2 => if c.sox then some (eiSO2 f) else none
  | .SO4 => if c.sox then some (eiSO4 f) else none
  | _ => none

/-! ## trajectory part -/

def diffs : List α → List α
  | a :: b :: rest => (a - b) :: diffs (b :: rest)
  | _ => []

/-- `zeros_like(fm); [1:] = fm[:-1] - fm[1:]` -/
def fuelBurn (fm : List α) : List α :=
  match fm with
  | [] => []
  | _ :: _ => zero :: diffs fm

/-- `arr[:k] = 0.0` -/
def zeroBefore : Nat → List α → List α
  | 0, xs => xs
  | _ + 1, [] => []
  | k + 1, _ :: xs => zero :: zeroBefore k xs

/-- `arr[k:] = 0.0` -/
def zeroFrom : Nat → List α → List α
  | _, [] => []
  | 0, _ :: xs => zero :: zeroFrom 0 xs
  | k + 1, x :: xs => x :: zeroFrom k xs

/-- the two slice assignments of get_trajectory_emissions -/
def window (lo hi : Nat) (xs : List α) : List α := zeroFrom hi (zeroBefore lo xs)

/-- Python `arr[lo:hi]` for already normalised bounds -/
def pySlice {β : Type} (lo hi : Nat) (xs : List β) : List β := (xs.take hi).drop lo

/-- `_trajectory_slice(...).start`, normalised as Python does when the slice is applied to a length-`n` array -/
def sliceLo (c : Cfg) (n nClimb : Nat) : Nat := if c.ltoMode then min nClimb n else 0

/-- `_trajectory_slice(...).stop = len − n_descent`, normalised: a negative stop wraps once (`+ n`) and is clamped at 0 -/
def sliceHi (c : Cfg) (n nDescent : Nat) : Nat :=
  if c.ltoMode then (if nDescent ≤ n then n - nDescent else 2 * n - nDescent) else n

/-- the EI arrays per species as `get_trajectory_emissions` collects them (before windowing).
    `ffCal` is `pm.lto.fuel_flow` (calibration points of the NOx thrust category). -/
def trajEI (c : Cfg) (f : Fuel α) (ffCal : TM α) (t : TrajIn α) : SV (List α) := fun s =>
  let n := t.fm.length
  let cats := t.sls.map (thrustCat ffCal)
  match s with
  | .CO2 | .H2O | .SOx | .SO2 | .SO4 => (constEI c f s).map (List.replicate n)
  | .NOx => if c.nox = .bffm2 then some t.nox else none
  | .NO => if c.nox = .bffm2 then some (speciate specNO t.nox cats) else none
  | .NO2 => if c.nox = .bffm2 then some (speciate specNO2 t.nox cats) else none
  | .HONO => if c.nox = .bffm2 then some (speciate specHONO t.nox cats) else none
  | .HC => if c.hc then some t.hc else none
  | .CO => if c.co then some t.co else none
  | .PMvol => if c.pmvol then some t.pmvol else none
  | .OCic => if c.pmvol then some t.ocic else none
  | .PMnvol => if c.pmnvol != .none then some t.pmnvol else none
  | .PMnvolGMD => if c.pmnvol != .none then some t.gmd else none
  | .PMnvolN => if c.pmnvol = .meem then some t.pmnvolN else none

def mulList (a b : List α) : List α := List.zipWith (· * ·) a b

/-- `indices[s][:lo] = 0; indices[s][hi:] = 0` -/
def trajIdx (c : Cfg) (f : Fuel α) (ffCal : TM α) (t : TrajIn α) : SV (List α) := fun s =>
  (trajEI c f ffCal t s).map (window (sliceLo c t.fm.length t.nClimb) (sliceHi c t.fm.length t.nDescent))

/-- `emissions[s] = indices[s] * fuel_burn_per_segment` (before the zeroing), then the same two slice assignments -/
def trajEm (c : Cfg) (f : Fuel α) (ffCal : TM α) (t : TrajIn α) : SV (List α) := fun s =>
  (trajEI c f ffCal t s).map fun e =>
    window (sliceLo c t.fm.length t.nClimb) (sliceHi c t.fm.length t.nDescent) (mulList e (fuelBurn t.fm))

/-- `np.sum(fuel_burn_per_segment[idx_slice])` -/
def trajFuel (c : Cfg) (t : TrajIn α) : α :=
  suml (pySlice (sliceLo c t.fm.length t.nClimb) (sliceHi c t.fm.length t.nDescent) (fuelBurn t.fm))

/-! ## LTO part -/

/-- lto.py: `_LTO_TIMS` (ICAO times in mode, seconds) -/
def ltoTIM : TM α :=
  ⟨d% 26 * Gen.MINUTES_TO_SECONDS, d% 4 * Gen.MINUTES_TO_SECONDS,
   d% 2.2 * Gen.MINUTES_TO_SECONDS, d% 0.7 * Gen.MINUTES_TO_SECONDS⟩

def TM.mul (a b : TM α) : TM α := TM.zipWith (· * ·) a b

/-- the LTO indices before the climb/descent-mode zeroing -/
def ltoEI (c : Cfg) (f : Fuel α) (l : LtoIn α) : SV (TM α) := fun s =>
  match s with
  | .CO2 | .H2O | .SOx | .SO2 | .SO4 => (constEI c f s).map TM.const
  | .NOx => if c.nox != .none then some l.nox else none
  | .NO => if c.nox != .none then some (TM.mul l.nox specNO) else none
  | .NO2 => if c.nox != .none then some (TM.mul l.nox specNO2) else none
  | .HONO => if c.nox != .none then some (TM.mul l.nox specHONO) else none
  | .HC => if c.hc then some l.hc else none
  | .CO => if c.co then some l.co else none
  | .PMvol => if c.pmvol then some l.pmvol else none
  | .OCic => if c.pmvol then some l.ocic else none
  | .PMnvol => if c.pmnvol != .none then some l.pmnvol else none
  | .PMnvolGMD => some (TM.const zero)       -- unconditional in the code
  | .PMnvolN => none                          -- scope11 number profile is `None` in the code

def modeZero (c : Cfg) (v : TM α) : TM α := if c.ltoMode then v else v.zeroAC

def ltoIdx (c : Cfg) (f : Fuel α) (l : LtoIn α) : SV (TM α) := fun s => (ltoEI c f l s).map (modeZero c)

/-- `_LTO_TIMS * lto_data.fuel_flow`, approach/climb zeroed unless climb_descent_mode is 'lto' -/
def ltoFuel (c : Cfg) (l : LtoIn α) : TM α := modeZero c (TM.mul ltoTIM l.ff)

def ltoEm (c : Cfg) (f : Fuel α) (l : LtoIn α) : SV (TM α) := fun s =>
  (ltoIdx c f l s).map fun i => TM.mul i (ltoFuel c l)

/-! ## APU part (apu.py) -/

def apuTime : α := d% 900

def apuRunning (a : ApuIn α) : Bool := !ZeroTest.isZero a.fuel

/-- `lto_indices[Species.X][ThrustMode.IDLE] if apu_running else 0.0` (the missing-key case is `failure` below) -/
def apuSulfur (ltoI : SV (TM α)) (a : ApuIn α) (s : Sp) : α :=
  if apuRunning a then ((ltoI s).map (·.idle)).getD zero else zero

def apuPM10 (ltoI : SV (TM α)) (a : ApuIn α) : α := smax (a.pm10 - apuSulfur ltoI a .SO4) zero
def apuPMnvol (ltoI : SV (TM α)) (a : ApuIn α) : α := apuPM10 ltoI a * d% 0.95
def apuPMvol (ltoI : SV (TM α)) (a : ApuIn α) : α := apuPM10 ltoI a - apuPMnvol ltoI a

/-- CO₂ by carbon mass balance -/
def apuCO2 (ltoI : SV (TM α)) (a : ApuIn α) : α :=
  if apuRunning a then
    d% 3160 - (d% 44 / d% 28) * a.co - (d% 44 / (d% 82 / d% 5)) * a.hc
      - (d% 44 / (d% 55 / d% 4)) * apuPMvol ltoI a - (d% 44 / d% 12) * d% 0.95 * apuPMnvol ltoI a
  else zero

def apuIdx (c : Cfg) (f : Fuel α) (ltoI : SV (TM α)) (a : ApuIn α) : SV α
  | .SO2 => some (apuSulfur ltoI a .SO2)
  | .SO4 => some (apuSulfur ltoI a .SO4)
  | .SOx => some (apuSulfur ltoI a .SO2 + apuSulfur ltoI a .SO4)
  | .PMnvol => some (apuPMnvol ltoI a)
  | .PMvol => some (apuPMvol ltoI a)
  | .PMnvolN => if c.pmnvol != .none then some zero else none
  | .PMnvolGMD => some zero
  | .OCic => some zero
  | .NO => some (a.nox * (specNO (α := α)).takeoff)
  | .NO2 => some (a.nox * (specNO2 (α := α)).takeoff)
  | .HONO => some (a.nox * (specHONO (α := α)).takeoff)
  | .NOx => some a.nox
  | .HC => some a.hc
  | .CO => some a.co
  | .H2O => some f.eiH2O
  | .CO2 => some (apuCO2 ltoI a)

def apuFuelBurn (a : ApuIn α) : α := a.fuel * apuTime

def apuEm (c : Cfg) (f : Fuel α) (ltoI : SV (TM α)) (a : ApuIn α) : SV α := fun s =>
  (apuIdx c f ltoI a s).map (· * apuFuelBurn a)

/-! ## GSE part (gse.py) -/

structure GseNominal (α : Type) where
  co2 : α
  nox : α
  hc : α
  co : α
  pm : α

def gseNominal : AcClass → GseNominal α
  | .wide | .freight => ⟨d% 58000, d% 900, d% 70, d% 300, d% 55⟩
  | .narrow => ⟨d% 18000, d% 400, d% 40, d% 150, d% 25⟩
  | .small => ⟨d% 10000, d% 300, d% 30, d% 100, d% 20⟩

def gseFSC : α := d% 5 * Gen.PPM
def gseSO4 : α := gseFSC * Gen.KG_TO_GRAMS * d% 0.02 * ((d% 32 + d% 16 * d% 4) / (d% 16 * d% 2))
def gseSO2 : α := gseFSC * Gen.KG_TO_GRAMS * (d% 1 - d% 0.02) * ((d% 32 + d% 16 * d% 2) / (d% 16 * d% 2))

def gseFuelBurn (f : Fuel α) (k : AcClass) : α := (gseNominal k).co2 / f.eiCO2

def gseEm (f : Fuel α) (k : AcClass) : SV α
  | .CO2 => some (gseNominal k).co2
  | .NOx => some (gseNominal k).nox
  | .HC => some (gseNominal k).hc
  | .CO => some (gseNominal k).co
  | .H2O => some (f.eiH2O * gseFuelBurn f k)
  | .NO => some ((gseNominal k).nox * d% 0.90)
  | .NO2 => some ((gseNominal k).nox * d% 0.09)
  | .HONO => some ((gseNominal k).nox * d% 0.01)
  | .SO4 => some gseSO4
  | .SO2 => some gseSO2
  | .SOx => some (gseSO4 + gseSO2)
  | .PMvol => some (((gseNominal k).pm - gseSO4) * d% 0.5)
  | .PMnvol => some (((gseNominal k).pm - gseSO4) * d% 0.5)
  | .PMnvolN => some zero
  | .PMnvolGMD => some zero
  | .OCic => some zero

/-! ## totals (emission.py) -/

def addOpt (acc : α) : Option α → α
  | some x => acc + x
  | none => acc

/-- sum_total_emissions: the APU / GSE switches are tested again here, as in the code -/
def sumTotal (c : Cfg) (traj : SV (List α)) (lto : SV (TM α)) (apu gse : SV α) : SV α := fun s =>
  let t0 : α := zero
  let t1 := addOpt t0 ((traj s).map suml)
  let t2 := addOpt t1 ((lto s).map TM.sum)
  let t3 := addOpt t2 (if c.apu then apu s else none)
  let t4 := addOpt t3 (if c.gse then gse s else none)
  some t4

def lastD : List α → α → α
  | [], d => d
  | [x], _ => x
  | _ :: y :: r, d => lastD (y :: r) d

/-- get_lifecycle_emissions: `lifecycle_CO2 * ((fm[0] − fm[−1]) * energy)` -/
def lifecycleAdj (f : Fuel α) (fm : List α) (lc : α) : α :=
  lc * ((fm.headD zero - lastD fm zero) * f.energy)

def lifecycleOn (c : Cfg) : Bool := c.co2 && c.lifecycle

/-- the exceptions `compute_emissions` raises inside the assembly code, in the order the code reaches them -/
def failure (c : Cfg) (f : Fuel α) (t : TrajIn α) (apu : Option (ApuIn α)) : Option Err :=
  if c.apu && (match apu with | some a => apuRunning a | none => false) && !c.sox then some .keyErrorSO2
  else if lifecycleOn c && f.lifecycle.isNone then some .lifecycleMissing
  else if lifecycleOn c && t.fm.isEmpty then some .emptyTrajectory
  else none

/-- `if config.emissions.apu_enabled and pm.apu is not None` -/
def apuOn (c : Cfg) (apu : Option (ApuIn α)) : Option (ApuIn α) := if c.apu then apu else none

/-- an optional component as a species map (`EmissionsSubset()` = empty maps when the component is off) -/
def svOfOpt {β γ : Type} (o : Option β) (g : β → SV γ) : SV γ := fun s => o.bind fun a => g a s

def invApuIdx (c : Cfg) (f : Fuel α) (l : LtoIn α) (apu : Option (ApuIn α)) : SV α :=
  svOfOpt (apuOn c apu) (apuIdx c f (ltoIdx c f l))
def invApuEm (c : Cfg) (f : Fuel α) (l : LtoIn α) (apu : Option (ApuIn α)) : SV α :=
  svOfOpt (apuOn c apu) (apuEm c f (ltoIdx c f l))
def invApuFuel (c : Cfg) (apu : Option (ApuIn α)) : Option α := (apuOn c apu).map apuFuelBurn
def invGseEm (c : Cfg) (f : Fuel α) (k : AcClass) : SV α := if c.gse then gseEm f k else SV.empty
def invGseFuel (c : Cfg) (f : Fuel α) (k : AcClass) : Option α := if c.gse then some (gseFuelBurn f k) else none

/-- `total_fuel_burn`: trajectory, `+= lto`, `+= apu` (if on), `+= gse` (if on) -/
def invTotalFuel (c : Cfg) (f : Fuel α) (t : TrajIn α) (l : LtoIn α) (apu : Option (ApuIn α)) (k : AcClass) : α :=
  addOpt (addOpt (trajFuel c t + (ltoFuel c l).sum) (invApuFuel c apu)) (invGseFuel c f k)

def invLifecycle (c : Cfg) (f : Fuel α) (t : TrajIn α) : Option α :=
  if lifecycleOn c then f.lifecycle.map (lifecycleAdj f t.fm) else none

/-- sum_total_emissions, then `total_emissions[CO2] += lifecycle_adjustment` -/
def invTotal (c : Cfg) (f : Fuel α) (t : TrajIn α) (l : LtoIn α) (apu : Option (ApuIn α)) (k : AcClass) : SV α :=
  fun s =>
    let tot := sumTotal c (trajEm c f l.ff t) (ltoEm c f l) (invApuEm c f l apu) (invGseEm c f k) s
    if s = Sp.CO2 then tot.map (fun x => addOpt x (invLifecycle c f t)) else tot

/-- the value `compute_emissions` returns when it returns -/
def assembleCore (c : Cfg) (f : Fuel α) (t : TrajIn α) (l : LtoIn α) (apu : Option (ApuIn α)) (k : AcClass) : Inv α :=
  { trajEm := trajEm c f l.ff t, trajIdx := trajIdx c f l.ff t, ltoEm := ltoEm c f l, ltoIdx := ltoIdx c f l,
    apuEm := invApuEm c f l apu, apuIdx := invApuIdx c f l apu, gseEm := invGseEm c f k,
    total := invTotal c f t l apu k, burn := fuelBurn t.fm, totalFuel := invTotalFuel c f t l apu k,
    lifecycle := (invLifecycle c f t).getD zero,
    trajFuel := trajFuel c t, ltoFuel := ltoFuel c l, apuFuel := invApuFuel c apu, gseFuel := invGseFuel c f k }

def assemble (c : Cfg) (f : Fuel α) (t : TrajIn α) (l : LtoIn α) (apu : Option (ApuIn α)) (k : AcClass) :
    Except Err (Inv α) :=
  match failure c f t apu with
  | some e => .error e
  | none => .ok (assembleCore c f t l apu k)

end generic

/-! ## driver ops -/
section wire
open Aeic.Wire

def getTM (j : Json) : Except String (TM Float) := do
  match (← getFs j) with
  | [a, b, c, d] => pure ⟨a, b, c, d⟩
  | _ => throw "expected 4 values (IDLE, APPROACH, CLIMB, TAKEOFF)"

def putTM (t : TM Float) : Json := putFs t.toList

def getFsD (j : Json) (k : String) : Except String (List Float) :=
  match optField j k with
  | some v => getFs v
  | none => pure []

def getCfg (j : Json) : Except String Cfg := do
  let b (k : String) : Except String Bool := do getBool (← field j k)
  let nox ← match (← getStr (← field j "nox")) with
    | "bffm2" => pure NoxM.bffm2 | "p3t3" => pure NoxM.p3t3 | "none" => pure NoxM.none
    | s => throw s!"nox_method {s}"
  let pmnvol ← match (← getStr (← field j "pmnvol")) with
    | "meem" => pure PmnvolM.meem | "scope11" => pure PmnvolM.scope11 | "none" => pure PmnvolM.none
    | s => throw s!"pmnvol_method {s} not modelled"
  pure { ltoMode := ← b "lto", co2 := ← b "co2", h2o := ← b "h2o", sox := ← b "sox", nox := nox, hc := ← b "hc",
         co := ← b "co", pmvol := ← b "pmvol", pmnvol := pmnvol, apu := ← b "apu", gse := ← b "gse",
         lifecycle := ← b "lifecycle" }

def getFuel (j : Json) : Except String (Fuel Float) := do
  let g (k : String) : Except String Float := do getF (← field j k)
  let lc ← match optField j "lifecycle" with
    | some v => (do pure (some (← getF v)) : Except String (Option Float))
    | none => pure none
  pure { energy := ← g "energy", eiH2O := ← g "h2o", eiCO2 := ← g "co2", lifecycle := lc, sulfur := ← g "sulfur",
         sulfateYield := ← g "yield" }

def getTraj (j : Json) : Except String (TrajIn Float) := do
  pure { fm := ← getFs (← field j "fm"), nClimb := ← getNat (← field j "nclimb"),
         nDescent := ← getNat (← field j "ndescent"), nox := ← getFsD j "nox", sls := ← getFsD j "sls",
         hc := ← getFsD j "hc", co := ← getFsD j "co", pmvol := ← getFsD j "pmvol", ocic := ← getFsD j "ocic",
         pmnvol := ← getFsD j "pmnvol", gmd := ← getFsD j "gmd", pmnvolN := ← getFsD j "pmnvoln" }

def getTMD (j : Json) (k : String) : Except String (TM Float) :=
  match optField j k with
  | some v => getTM v
  | none => pure (TM.const 0.0)

def getLto (j : Json) : Except String (LtoIn Float) := do
  pure { ff := ← getTM (← field j "ff"), nox := ← getTMD j "nox", hc := ← getTMD j "hc", co := ← getTMD j "co",
         pmvol := ← getTMD j "pmvol", ocic := ← getTMD j "ocic", pmnvol := ← getTMD j "pmnvol" }

def getApu (j : Json) : Except String (ApuIn Float) := do
  let g (k : String) : Except String Float := do getF (← field j k)
  pure { fuel := ← g "fuel", pm10 := ← g "pm10", nox := ← g "nox", hc := ← g "hc", co := ← g "co" }

def getClass (s : String) : Except String AcClass :=
  match s with
  | "wide" => pure .wide | "narrow" => pure .narrow | "small" => pure .small | "freight" => pure .freight
  | _ => throw s!"aircraft class {s}"

def putSV {β : Type} (put : β → Json) (m : SV β) : Json :=
  obj (Sp.all.filterMap fun s => (m s).map fun v => (s.name, put v))

def putOptF : Option Float → Json
  | some x => putF x
  | none => Json.null

def putInv (i : Inv Float) : Json :=
  obj [("ok", Json.bool true),
       ("traj_em", putSV putFs i.trajEm), ("traj_idx", putSV putFs i.trajIdx),
       ("lto_em", putSV putTM i.ltoEm), ("lto_idx", putSV putTM i.ltoIdx),
       ("apu_em", putSV putF i.apuEm), ("apu_idx", putSV putF i.apuIdx),
       ("gse_em", putSV putF i.gseEm), ("total", putSV putF i.total),
       ("burn", putFs i.burn), ("total_fuel", putF i.totalFuel), ("lifecycle", putF i.lifecycle),
       ("traj_fuel", putF i.trajFuel), ("lto_fuel", putTM i.ltoFuel),
       ("apu_fuel", putOptF i.apuFuel), ("gse_fuel", putOptF i.gseFuel)]

def Err.name : Err → String
  | .keyErrorSO2 => "KeyError" | .lifecycleMissing => "RuntimeError" | .emptyTrajectory => "IndexError"

def handle (op : String) (j : Json) : Except String Json :=
  match op with
  | "assemble" => do
      let c ← getCfg (← field j "cfg")
      let f ← getFuel (← field j "fuel")
      let t ← getTraj (← field j "traj")
      let l ← getLto (← field j "lto")
      let a ← match optField j "apu" with
        | some v => (do pure (some (← getApu v)) : Except String (Option (ApuIn Float)))
        | none => pure none
      let k ← getClass (← getStr (← field j "cls"))
      match assemble c f t l a k with
      | .ok inv => pure (putInv inv)
      | .error e => pure (obj [("ok", Json.bool false), ("err", Json.str e.name)])
  | "speciation" =>
      pure (obj [("no", putTM specNO), ("no2", putTM specNO2), ("hono", putTM specHONO)])
  | "thrustcat" => do
      let cal ← getTM (← field j "ff_cal")
      let ff ← getFs (← field j "ff")
      pure (putStrs (ff.map fun x => (thrustCat cal x).name))
  | "sox" => do
      let f ← getFuel (← field j "fuel")
      pure (obj [("sox", putF (eiSOx f)), ("so2", putF (eiSO2 f)), ("so4", putF (eiSO4 f))])
  | "tims" => pure (putTM ltoTIM)
  | "window" => do
      -- the slice bookkeeping alone: which points are kept, for any (n, n_climb, n_descent, mode)
      let n ← getNat (← field j "n")
      let c : Cfg := { ltoMode := ← getBool (← field j "lto"), co2 := true, h2o := true, sox := true, nox := .bffm2,
                       hc := true, co := true, pmvol := true, pmnvol := .meem, apu := true, gse := true,
                       lifecycle := true }
      pure (putNats [sliceLo c n (← getNat (← field j "nclimb")), sliceHi c n (← getNat (← field j "ndescent"))])
  | _ => throw s!"unknown c01 op {op}"

end wire
end Aeic.Emissions
