/-
  `GroundTrack.location` / `_overstep` with the index arithmetic the translator reads from the source
  (`harness/common/gtprog.py` → `Generated/GroundTrackParams.lean`).  `locationSrc` / `overstepSrc` are the functions *as the
  working tree has them*; `Properties/C15.lean` proves them equal to the model's `location` / `overstepPt`.  No Mathlib import.
-/
import AeicModel.Geo
import AeicModel.Generated.GroundTrackParams

namespace Aeic.Geo

section
variable {α : Type} [Add α] [Sub α] [Mul α] [Div α] [Neg α] [LT α] [LE α]
  [DecidableLT α] [DecidableLE α] [Lit α]

/-- `bisect_right(index, d)`: the number of leading entries `≤ d` -/
def bisectRight (xs : List α) (d : α) : Nat := (xs.takeWhile (fun x => decide (x ≤ d))).length

/-- Python index `pos + off` for `pos + off ≥ 0` (a negative result would index from the end: outside the reading) -/
def at' (pos : Nat) (off : Int) : Nat := ((pos : Int) + off).toNat

def locationWith [HasFloor α] (left first last : Bool) (oWp oAz oIdx oAfter : Int) (fwdDir : Bool)
    (g : Geod α) (t : Track α) (d : α) : Except Err (Pt α) :=
  if inRange t d = false then .error .outside
  else
    let pos := if left then bisectLeft t.idx d else bisectRight t.idx d
    if first && decide (pos = 0) then
      let w := nthP t.wps 0
      .ok ⟨w.1, w.2, pymod360 (nth t.azs 0)⟩
    else if last && decide (lastOf t.idx ≤ d) then
      let w := nthP t.wps (t.wps.length - 1)
      .ok ⟨w.1, w.2, pymod360 (lastOf t.azs)⟩
    else
      let wb := nthP t.wps (at' pos oWp)
      let f := g.fwd wb.1 wb.2 (nth t.azs (at' pos oAz)) (d - nth t.idx (at' pos oIdx))
      let wa := nthP t.wps (at' pos oAfter)
      let i := if fwdDir then g.inv f.lon f.lat wa.1 wa.2 else g.inv wa.1 wa.2 f.lon f.lat
      .ok ⟨f.lon, f.lat, pymod360 i.az12⟩

def overstepWith [HasFloor α] (kWp kAz kIdx kFrom : Nat) (fromWp : Bool) (g : Geod α) (t : Track α) (d : α) : Pt α :=
  let w2 := nthP t.wps (t.wps.length - kWp)
  let f := g.fwd w2.1 w2.2 (nth t.azs (t.azs.length - kAz)) (d - nth t.idx (t.idx.length - kIdx))
  let w1 := nthP t.wps (t.wps.length - kFrom)
  let i := if fromWp then g.inv w1.1 w1.2 f.lon f.lat else g.inv f.lon f.lat w1.1 w1.2
  ⟨f.lon, f.lat, pymod360 i.az12⟩

/-- `GroundTrack.location` as the working tree has it -/
def locationSrc [HasFloor α] (g : Geod α) (t : Track α) (d : α) : Except Err (Pt α) :=
  locationWith Aeic.Gen.gtBisectLeft Aeic.Gen.gtFirstShortcut Aeic.Gen.gtLastShortcut Aeic.Gen.gtLocWp Aeic.Gen.gtLocAz
    Aeic.Gen.gtLocIdx Aeic.Gen.gtLocAfter Aeic.Gen.gtLocInvForward g t d

/-- `GroundTrack._overstep` as the working tree has it -/
def overstepSrc [HasFloor α] (g : Geod α) (t : Track α) (d : α) : Pt α :=
  overstepWith Aeic.Gen.gtOvWp Aeic.Gen.gtOvAz Aeic.Gen.gtOvIdx Aeic.Gen.gtOvFrom Aeic.Gen.gtOvInvFromWaypoint g t d

end
end Aeic.Geo
