/-
  Model of the legacy trajectory builder
    `AEIC/trajectories/builders/legacy.py` (LegacyContext.__init__, calc_starting_mass,
       _fly_level_change, fly_cruise, fly_climb, fly_descent),
    `AEIC/trajectories/builders/base.py` (Builder.fly, _iterate_mass, _fly_iteration, _start_point,
       __getattr__/__setattr__ routing),
    `AEIC/trajectories/trajectory.py` (interpolate_time = np.interp per pointwise field).

  Generic in the scalar type (executed on `Float`, proved about over `ℝ`).  The performance model and
  the ground track enter as *parameters* (`PerfFn`, `Track`): the theorems quantify over all of them
  (with explicit hypotheses), the driver instantiates them with lookup tables recorded from the real
  `LegacyPerformanceModel.evaluate` / `GroundTrack.step` calls of the very flight being compared, so a
  model query that the implementation did not make (or made with another bit pattern) is a divergence.

  The trajectory under construction is a plain `List (Pt α)`; the hand-over between phases
  (`traj.make_point(-1)`) is `List.getLast?`.  That this is what the growable container does is
  `C02.container_refines_list` (model `AeicModel/Container.lean`).
-/
import AeicModel.Scalar
import AeicModel.Wire
import AeicModel.Generated.Constants
import AeicModel.Container
import Std.Data.HashMap
open Lean

namespace Aeic.Builder

/-- every way a flight can be refused; `name` is the Python exception type that must surface -/
inductive Err where
  | unknownAirport     -- ValueError  (Mission._airport_position), raised inside the context constructor
  | originAboveCruise  -- ValueError  (LegacyContext.__init__)
  | destAboveCruise    -- ValueError  (LegacyContext.__init__)
  | descentNegative    -- ValueError  (LegacyContext.__init__, unreachable after the previous check)
  | weather            -- whatever the weather layer raises (constructor or ground-speed lookup)
  | envelope           -- ValueError  (interpolator: state outside the performance table)
  | track              -- GroundTrack.Exception (negative distance: cruise shorter than climb + descent)
  | nonConvergence     -- RuntimeError (_iterate_mass)
  | notImplemented     -- NotImplementedError (optimize_traj)
  | noFuelLoad         -- TypeError: caller gave a starting mass, total_fuel_mass stays None  (open finding)
  | attributeError     -- AttributeError: `del self.ctx` without a context (the code as found)
  | degenerate         -- fewer than two points in a phase (ZeroDivisionError / empty phase; not generated)
  | oracleMiss         -- driver only: the model asked the recorded oracle something the code never asked
deriving Repr, DecidableEq, Inhabited

def Err.name : Err → String
  | .unknownAirport => "unknownAirport" | .originAboveCruise => "originAboveCruise"
  | .destAboveCruise => "destAboveCruise" | .descentNegative => "descentNegative"
  | .weather => "weather" | .envelope => "envelope" | .track => "track"
  | .nonConvergence => "nonConvergence" | .notImplemented => "notImplemented"
  | .noFuelLoad => "noFuelLoad" | .attributeError => "attributeError"
  | .degenerate => "degenerate" | .oracleMiss => "oracleMiss"

def Err.ofName : String → Err
  | "unknownAirport" => .unknownAirport | "originAboveCruise" => .originAboveCruise
  | "destAboveCruise" => .destAboveCruise | "descentNegative" => .descentNegative
  | "weather" => .weather | "envelope" => .envelope | "track" => .track
  | "nonConvergence" => .nonConvergence | "notImplemented" => .notImplemented
  | "noFuelLoad" => .noFuelLoad | "attributeError" => .attributeError
  | "degenerate" => .degenerate | _ => .oracleMiss

inductive Rule where | climb | cruise | descend
deriving Repr, DecidableEq, Inhabited

structure Perf (α : Type) where
  tas : α
  roc : α
  ff : α

/-- `ac_performance.evaluate(AircraftState(altitude, aircraft_mass), rule)` -/
abbrev PerfFn (α : Type) := Rule → α → α → Except Err (Perf α)

structure Pos (α : Type) where
  lon : α
  lat : α
  az : α

/-- the ground track seen by the builder: total length, first waypoint, and the point at a distance
    (`location` inside the track, `_overstep` beyond it — both functions of `from + step` only). -/
structure Track (α : Type) where
  total : α
  start : Pos α
  loc : α → Except Err (Pos α)

/-- one trajectory point; field order = column order of `BASE_FIELDS` -/
structure Pt (α : Type) where
  ff : α
  mass : α
  fuel : α
  gd : α
  alt : α
  fl : α
  roc : α
  time : α
  lat : α
  lon : α
  az : α
  hdg : α
  tas : α
  gs : α

def Pt.toList {α : Type} (p : Pt α) : List α :=
  [p.ff, p.mass, p.fuel, p.gd, p.alt, p.fl, p.roc, p.time, p.lat, p.lon, p.az, p.hdg, p.tas, p.gs]

structure Sched (α : Type) where
  clmStart : α
  crzStart : α
  desStart : α
  desEnd : α
  descentDist : α

section
variable {α : Type} [Add α] [Sub α] [Mul α] [Div α] [Neg α] [LT α] [LE α]
  [DecidableLT α] [DecidableLE α] [Lit α] [Transc α]

/-- `x**2` (CPython `float.__pow__` = libm `pow`) -/
def sq (x : α) : α := Transc.pow x (d% 2)

/-- `GroundTrack.step(from_distance, distance_step)` with `allow_overstep=True` -/
def Track.step (t : Track α) (frm d : α) : Except Err (Pos α) :=
  if frm < (zero : α) ∨ d < (zero : α) then .error .track else t.loc (frm + d)

/-- altitude schedule of `LegacyContext.__init__` (all clamps, the three refusals) -/
def schedule (origAlt destAlt maxAlt : α) : Except Err (Sched α) :=
  let clm0 : α := origAlt + d% 3000.0 * Aeic.Gen.FEET_TO_METERS
  let clm : α := if maxAlt ≤ clm0 then origAlt else clm0
  let crz0 : α := maxAlt - d% 7000.0 * Aeic.Gen.FEET_TO_METERS
  let crz1 : α := if crz0 < clm then clm else crz0
  let crz : α := if maxAlt < crz1 then maxAlt else crz1
  let des0 : α := destAlt + d% 3000.0 * Aeic.Gen.FEET_TO_METERS
  let desEnd : α := if maxAlt ≤ des0 then maxAlt else des0
  if crz < clm then .error .originAboveCruise
  else if crz < desEnd then .error .destAboveCruise
  else
    let dd : α := d% 18.23 * (crz - desEnd)
    if dd < (zero : α) then .error .descentNegative
    else .ok ⟨clm, crz, crz, desEnd, dd⟩

/-- aircraft constants used by `calc_starting_mass` -/
structure Aircraft (α : Type) where
  maxPayload : α
  emptyMass : α
  maxMass : α

/-- `LegacyBuilder.calc_starting_mass`: (starting mass, trip fuel) -/
def calcStartingMass (perf : PerfFn α) (ac : Aircraft α) (total loadFactor crz : α) :
    Except Err (α × α) := do
  let p ← perf .cruise crz ac.maxMass
  let payload : α := ac.maxPayload * loadFactor
  let approxTime : α := total / p.tas
  let fuel : α := approxTime * p.ff
  let reserve : α := fuel * d% 0.05
  let long : Bool := decide ((d% 180 : α) * Aeic.Gen.MINUTES_TO_SECONDS < approxTime)
  let divertDist : α :=
    if long then d% 200.0 * Aeic.Gen.NAUTICAL_MILES_TO_METERS else d% 100.0 * Aeic.Gen.NAUTICAL_MILES_TO_METERS
  let holdTime : α :=
    if long then d% 30 * Aeic.Gen.MINUTES_TO_SECONDS else d% 45 * Aeic.Gen.MINUTES_TO_SECONDS
  let divert : α := divertDist / p.tas * p.ff
  let hold : α := holdTime * p.ff
  let sm : α := ac.emptyMass + payload + fuel + reserve + divert + hold
  let sm : α := if ac.maxMass < sm then ac.maxMass else sm
  pure (sm, fuel)

/-- the point appended by a level-change step: `pt` with altitude and the start-of-segment performance -/
def lvlSnap (pt : Pt α) (alt : α) (p : Perf α) : Pt α :=
  { pt with alt := alt, fl := alt * Aeic.Gen.METERS_TO_FL, ff := p.ff, tas := p.tas, roc := p.roc }

/-- forward (horizontal) true airspeed -/
def lvlFwd (p : Perf α) : α := Transc.sqrt (sq p.tas - sq p.roc)

/-- the point a non-final level-change step appends (ground speed = forward TAS, weather off) -/
def lvlAppended (pt : Pt α) (alt : α) (p : Perf α) : Pt α :=
  { lvlSnap pt alt p with gs := lvlFwd p, hdg := pt.az }

/-- segment fuel: flow × time + kinetic-energy term, clamped at zero -/
def lvlSegFuel (pt : Pt α) (p pe : Perf α) (delta lhv : α) : α :=
  let segFuel1 : α := p.ff * (delta / p.roc) + d% 0.5 * pt.mass * (sq pe.tas - sq p.tas) / lhv / d% 0.15
  if segFuel1 < (zero : α) then zero else segFuel1

/-- distance flown over the segment -/
def lvlDist (p : Perf α) (delta : α) : α := lvlFwd p * (delta / p.roc)

/-- the running point after a non-final level-change step -/
def lvlNext (pt : Pt α) (alt : α) (p pe : Perf α) (g : Pos α) (delta lhv : α) : Pt α :=
  { lvlAppended pt alt p with
      lon := g.lon, lat := g.lat, az := g.az, fuel := pt.fuel - lvlSegFuel pt p pe delta lhv,
      mass := pt.mass - lvlSegFuel pt p pe delta lhv, gd := pt.gd + lvlDist p delta,
      time := pt.time + delta / p.roc }

/-- `_fly_level_change` loop body from index `i`, with `k` more segments to fly after this point.
    Returns the appended points. -/
def levelSteps (perf : PerfFn α) (track : Track α) (rule : Rule) (startAlt delta lhv : α) :
    Nat → Nat → Pt α → Except Err (List (Pt α))
  | 0, i, pt => do
    let alt : α := startAlt + Lit.dec (i : Int) 0 * delta
    let p ← perf rule alt pt.mass
    pure [lvlSnap pt alt p]
  | k + 1, i, pt => do
    let alt : α := startAlt + Lit.dec (i : Int) 0 * delta
    let p ← perf rule alt pt.mass
    let g ← track.step pt.gd (lvlDist p delta)
    let pe ← perf rule (alt + delta) pt.mass
    let rest ← levelSteps perf track rule startAlt delta lhv k (i + 1) (lvlNext pt alt p pe g delta lhv)
    pure (lvlAppended pt alt p :: rest)

/-- `_fly_level_change` for `n` points between two altitudes, starting from point `pt` -/
def flyLevel (perf : PerfFn α) (track : Track α) (rule : Rule) (n : Nat) (startAlt endAlt lhv : α)
    (pt : Pt α) : Except Err (List (Pt α)) :=
  if n < 2 then .error .degenerate
  else
    let delta : α := (endAlt - startAlt) / Lit.dec ((n - 1 : Nat) : Int) 0
    levelSteps perf track rule startAlt delta lhv (n - 1) 0 pt

/-- the point a cruise step appends (ground speed = TAS, weather off) -/
def crzAppended (pt : Pt α) : Pt α := { pt with gs := pt.tas, hdg := pt.az }

/-- the running point after a cruise step -/
def crzNext (pt : Pt α) (step : α) (p : Perf α) (g : Pos α) : Pt α :=
  { crzAppended pt with
      gd := pt.gd + step, lon := g.lon, lat := g.lat, az := g.az, tas := p.tas, roc := p.roc, ff := p.ff,
      fuel := pt.fuel - p.ff * (step / pt.tas), mass := pt.mass - p.ff * (step / pt.tas),
      time := pt.time + step / pt.tas }

/-- `fly_cruise` loop: `k` more points to append -/
def cruiseSteps (perf : PerfFn α) (track : Track α) (alt step : α) : Nat → Pt α → Except Err (List (Pt α))
  | 0, _ => pure []
  | k + 1, pt => do
    let g ← track.step pt.gd step
    let p ← perf .cruise alt pt.mass
    let rest ← cruiseSteps perf track alt step k (crzNext pt step p g)
    pure (crzAppended pt :: rest)

/-- `fly_cruise`, starting from the last climb point `last` -/
def flyCruise (perf : PerfFn α) (track : Track α) (s : Sched α) (n : Nat) (last : Pt α) :
    Except Err (List (Pt α)) :=
  if n < 2 then .error .degenerate
  else
    let pt : Pt α := { last with alt := s.crzStart, fl := s.crzStart * Aeic.Gen.METERS_TO_FL, roc := zero }
    let endDist : α := track.total - s.descentDist
    let step : α := (endDist - last.gd) / Lit.dec ((n - 1 : Nat) : Int) 0
    cruiseSteps perf track s.crzStart step n pt

/-- `_start_point` (fields not yet assigned there are placeholders: every one of them is assigned
    before the first append when a phase has at least two points) -/
def startPoint (track : Track α) (s : Sched α) (sm tfm : α) : Pt α :=
  { ff := zero, mass := sm, fuel := tfm, gd := zero, alt := s.clmStart, fl := zero, roc := zero,
    time := zero, lat := track.start.lat, lon := track.start.lon, az := track.start.az, hdg := zero,
    tas := zero, gs := zero }

structure Steps where
  nClm : Nat
  nCrz : Nat
  nDes : Nat

def lastOr (d : Pt α) (l : List (Pt α)) : Pt α := l.getLastD d

/-- `_fly_iteration`: climb, cruise, descent; returns the points and the mass residual -/
def flyIteration (perf : PerfFn α) (track : Track α) (s : Sched α) (st : Steps) (lhv : α) (sm tfm : α) :
    Except Err (List (Pt α) × α) := do
  let p0 := startPoint track s sm tfm
  let clm ← flyLevel perf track .climb st.nClm s.clmStart s.crzStart lhv p0
  let crz ← flyCruise perf track s st.nCrz (lastOr p0 clm)
  let des ← flyLevel perf track .descend st.nDes s.desStart s.desEnd lhv (lastOr p0 crz)
  let traj := clm ++ (crz ++ des)
  let fuelBurned : α := sm - (lastOr p0 traj).mass
  let res : α := (tfm - fuelBurned) / tfm
  pure (traj, res)

/-! ### `_iterate_mass` over an arbitrary iteration function -/

/-- loop of `_iterate_mass` with `k = max_mass_iters - iter` passes left; `r` is the last iteration's result -/
def iterLoop {τ : Type} (flyIt : α → α → Except Err (τ × α)) (tol : α) :
    Nat → α → α → τ × α → Except Err (τ × α × α)
  | 0, _, _, _ => .error .nonConvergence
  | k + 1, sm, tfm, (t, res) =>
    if sabs res < tol then .ok (t, sm, tfm)
    else
      let sm' : α := sm - res * tfm
      let tfm' : α := tfm - res * tfm
      match flyIt sm' tfm' with
      | .error e => .error e
      | .ok r => iterLoop flyIt tol k sm' tfm' r

def iterateMass {τ : Type} (flyIt : α → α → Except Err (τ × α)) (tol : α) (maxIters : Nat) (sm tfm : α) :
    Except Err (τ × α × α) :=
  match flyIt sm tfm with
  | .error e => .error e
  | .ok r => iterLoop flyIt tol (maxIters - 1) sm tfm r

/-! ### `Builder.fly` as a state machine over the builder object -/

structure Opts (α : Type) where
  iterate : Bool
  optimize : Bool
  maxIters : Nat
  tol : α

/-- what a mission does at each stage of `fly` (arbitrary: the theorems quantify over it).
    `κ` = what the context constructor computes, `τ` = trajectory. -/
structure MissionSem (α κ τ : Type) where
  ctor : Except Err κ                          -- CONTEXT_CLASS(...)
  givenMass : Option α                         -- the `starting_mass` argument
  calcMass : κ → Except Err (α × α)                -- calc_starting_mass: (starting mass, trip fuel)
  flyIt : κ → α → α → Except Err (τ × α)       -- _fly_iteration at (starting_mass, total_fuel_mass)

/-- the builder object between calls: is there a `ctx` attribute, and has `_fly_iteration` ever
    written the (never read) `current_mass` attribute onto the builder itself -/
structure BState where
  hasCtx : Bool
  dirty : Bool
deriving Repr, DecidableEq

def BState.init : BState := ⟨false, false⟩

structure Res (α τ : Type) where
  traj : τ
  startingMass : α
  totalFuel : α

/-- the body of `fly` after the context exists; second component: was `_fly_iteration` entered -/
def flyBody {κ τ : Type} (o : Opts α) (m : MissionSem α κ τ) (c : κ) : Except Err (Res α τ) × Bool :=
  match m.givenMass with
  | some _ =>
    -- `total_fuel_mass` stays `None`; `_start_point` then fails on `pt.fuel_mass = None`
    if o.optimize then (.error .notImplemented, false) else (.error .noFuelLoad, true)
  | none =>
    match m.calcMass c with
    | .error e => (.error e, false)
    | .ok (sm, tfm) =>
      if o.optimize then (.error .notImplemented, false)
      else if o.iterate then
        match iterateMass (m.flyIt c) o.tol o.maxIters sm tfm with
        | .error e => (.error e, true)
        | .ok (t, sm', tfm') => (.ok ⟨t, sm', tfm'⟩, true)
      else
        match m.flyIt c sm tfm with
        | .error e => (.error e, true)
        | .ok (t, _) => (.ok ⟨t, sm, tfm⟩, true)

/-- *intended* behaviour for a caller-supplied starting mass (open finding C17-given-starting-mass):
    the supplied mass is flown with the trip fuel that `calc_starting_mass` computes. -/
def flyBodyIntended {κ τ : Type} (o : Opts α) (m : MissionSem α κ τ) (c : κ) : Except Err (Res α τ) × Bool :=
  match m.givenMass with
  | none => flyBody o m c
  | some g =>
    match m.calcMass c with
    | .error e => (.error e, false)
    | .ok (_, tfm) =>
      if o.optimize then (.error .notImplemented, false)
      else if o.iterate then
        match iterateMass (m.flyIt c) o.tol o.maxIters g tfm with
        | .error e => (.error e, true)
        | .ok (t, sm', tfm') => (.ok ⟨t, sm', tfm'⟩, true)
      else
        match m.flyIt c g tfm with
        | .error e => (.error e, true)
        | .ok (t, _) => (.ok ⟨t, g, tfm⟩, true)

/-- `Builder.fly` of the repaired code: the context is built *before* the `try`, so a constructor
    failure propagates unchanged; otherwise `finally: del self.ctx`. -/
def fly {κ τ : Type} (o : Opts α) (b : BState) (m : MissionSem α κ τ) : BState × Except Err (Res α τ) :=
  match m.ctor with
  | .error e => (b, .error e)
  | .ok c =>
    let r := flyBody o m c
    (⟨false, b.dirty || r.2⟩, r.1)

/-- `fly` with the intended treatment of a caller-supplied starting mass (open finding) -/
def flyIntended {κ τ : Type} (o : Opts α) (b : BState) (m : MissionSem α κ τ) : BState × Except Err (Res α τ) :=
  match m.ctor with
  | .error e => (b, .error e)
  | .ok c =>
    let r := flyBodyIntended o m c
    (⟨false, b.dirty || r.2⟩, r.1)

/-- `Builder.fly` as found: the constructor runs inside the `try`; `finally: del self.ctx` raises
    AttributeError when no context was ever assigned, replacing the original exception. -/
def flyAsIs {κ τ : Type} (o : Opts α) (b : BState) (m : MissionSem α κ τ) : BState × Except Err (Res α τ) :=
  match m.ctor with
  | .error e => if b.hasCtx then (⟨false, b.dirty⟩, .error e) else (b, .error .attributeError)
  | .ok c =>
    let r := flyBody o m c
    (⟨false, b.dirty || r.2⟩, r.1)

/-- a whole history of flights on one builder -/
def runAll {κ τ : Type} (o : Opts α) (b : BState) : List (MissionSem α κ τ) → BState
  | [] => b
  | m :: ms => runAll o (fly o b m).1 ms

/-! ### the concrete mission of the legacy builder -/

structure MissionIn (α : Type) where
  originKnown : Bool
  destKnown : Bool
  origAlt : α
  destAlt : α
  maxAlt : α
  loadFactor : α
  givenMass : Option α
  ac : Aircraft α
  lhv : α
  steps : Steps

def legacyMission (perf : PerfFn α) (track : Track α) (mi : MissionIn α) :
    MissionSem α (Sched α) (List (Pt α)) where
  ctor :=
    if !mi.originKnown || !mi.destKnown then .error .unknownAirport
    else schedule mi.origAlt mi.destAlt mi.maxAlt
  givenMass := mi.givenMass
  calcMass := fun s => calcStartingMass perf mi.ac track.total mi.loadFactor s.crzStart
  flyIt := fun s sm tfm => flyIteration perf track s mi.steps mi.lhv sm tfm

/-- `LegacyBuilder.fly` on a fresh builder -/
def flyLegacy (o : Opts α) (perf : PerfFn α) (track : Track α) (mi : MissionIn α) :
    Except Err (Res α (List (Pt α))) :=
  (fly o BState.init (legacyMission perf track mi)).2

/-! ### attribute routing of `Builder.__getattr__/__setattr__` -/

/-- builder object: own `__dict__` and (during a flight) the context's `__dict__` -/
structure Obj (ν : Type) where
  dict : List (String × ν)
  ctx : Option (List (String × ν))

def setKey {ν : Type} (l : List (String × ν)) (k : String) (v : ν) : List (String × ν) :=
  match l with
  | [] => [(k, v)]
  | (k', v') :: t => if k' = k then (k, v) :: t else (k', v') :: setKey t k v

/-- normal lookup first, `__getattr__` (context) only when that fails -/
def Obj.getattr {ν : Type} (o : Obj ν) (name : String) : Option ν :=
  match o.dict.lookup name with
  | some v => some v
  | none => match o.ctx with
    | some c => c.lookup name
    | none => none

/-- `__setattr__`: existing context attributes are set on the context, everything else on the builder -/
def Obj.setattr {ν : Type} (o : Obj ν) (name : String) (v : ν) : Obj ν :=
  match o.ctx with
  | some c => if (c.lookup name).isSome then { o with ctx := some (setKey c name v) }
              else { o with dict := setKey o.dict name v }
  | none => { o with dict := setKey o.dict name v }

/-! ### `Trajectory.interpolate_time` = `np.interp(new_time, time, field, left=nan, right=nan)` -/

/-- on the zipped `(xp, fp)` pairs, precondition `xp[0] ≤ x`: finds the last `j` with `xp[j] ≤ x` by
    scanning (equals numpy's binary search whenever `xp` is non-decreasing) and interpolates with
    numpy's formula `slope * (x - xp[j]) + fp[j]` (exactly `fp[j]` when `x == xp[j]` or `j` is last) -/
def interpAux : List (α × α) → α → α → α
  | (x0, f0) :: (x1, f1) :: rest, x, nan =>
    if x1 ≤ x then interpAux ((x1, f1) :: rest) x nan
    else if x ≤ x0 then f0
    else (f1 - f0) / (x1 - x0) * (x - x0) + f0
  | [(_, f0)], _, _ => f0
  | [], _, nan => nan

def interp1 (nan : α) (xp fp : List α) (x : α) : α :=
  match xp.zip fp, (xp.zip fp).getLast? with
  | (x0, _) :: _, some (xl, _) =>
    if ¬ (x ≤ x) then nan              -- NaN in, NaN out
    else if x < x0 then nan            -- left
    else if xl < x then nan            -- right
    else interpAux (xp.zip fp) x nan
  | _, _ => nan

/-- all pointwise columns resampled at `newT` (`tcol` = the flight_time column) -/
def interpolateTime (nan : α) (tcol : List α) (cols : List (List α)) (newT : List α) : List (List α) :=
  cols.map (fun fp => newT.map (interp1 nan tcol fp))

end

/-! ### driver (Float) -/
open Aeic.Wire

abbrev PerfKey := Nat × UInt64 × UInt64

def ruleIdx : Rule → Nat
  | .climb => 0 | .cruise => 1 | .descend => 2

def ruleOf (n : Nat) : Rule := if n == 0 then .climb else if n == 1 then .cruise else .descend

/-- recorded `evaluate` calls: `[rule, alt, mass, tas, roc, ff]` or `[rule, alt, mass, "errName"]` -/
def perfTable (recs : List Json) : Except String (Std.HashMap PerfKey (Except Err (Perf Float))) := do
  let mut m : Std.HashMap PerfKey (Except Err (Perf Float)) := {}
  for r in recs do
    let a ← getArr r
    let rule ← getNat a[0]!
    let alt ← getF a[1]!
    let mass ← getF a[2]!
    let key : PerfKey := (rule, alt.toBits, mass.toBits)
    if a.size == 4 then
      m := m.insert key (.error (Err.ofName (← getStr a[3]!)))
    else
      m := m.insert key (.ok ⟨← getF a[3]!, ← getF a[4]!, ← getF a[5]!⟩)
  pure m

def perfOf (m : Std.HashMap PerfKey (Except Err (Perf Float))) : PerfFn Float :=
  fun rule alt mass => (m.get? (ruleIdx rule, alt.toBits, mass.toBits)).getD (.error .oracleMiss)

/-- recorded `GroundTrack.step` results keyed by `from + step`: `[to, lon, lat, az]` -/
def locTable (recs : List Json) : Except String (Std.HashMap UInt64 (Pos Float)) := do
  let mut m : Std.HashMap UInt64 (Pos Float) := {}
  for r in recs do
    let a ← getArr r
    m := m.insert (← getF a[0]!).toBits ⟨← getF a[1]!, ← getF a[2]!, ← getF a[3]!⟩
  pure m

def nPoints (frac : Float) (extra : Float) : Nat := (1.0 / frac + extra).toUInt64.toNat

def nanF : Float := 0.0 / 0.0

def putPts (ps : List (Pt Float)) : Json := Json.arr (ps.map (fun p => putFs p.toList)).toArray

def getOpts (j : Json) : Except String (Opts Float) := do
  pure { iterate := ← getBool (← field j "iterate"), optimize := (← getBool (fieldD j "optimize" (Json.bool false))),
         maxIters := ← getNat (← field j "max_iters"), tol := ← getF (← field j "tol") }

def handleC02 (op : String) (j : Json) : Except String Json :=
  match op with
  | "fly" => do
    let perf := perfOf (← perfTable (← getArr (← field j "perf")).toList)
    let locs ← locTable (← getArr (← field j "loc")).toList
    let start ← getFs (← field j "start")
    let track : Track Float :=
      { total := ← getF (← field j "total"), start := ⟨start[0]!, start[1]!, start[2]!⟩,
        loc := fun d => match locs.get? d.toBits with | some p => .ok p | none => .error .oracleMiss }
    let fr ← getFs (← field j "frac")
    let mi : MissionIn Float :=
      { originKnown := true, destKnown := true
        origAlt := ← getF (← field j "orig_alt"), destAlt := ← getF (← field j "dest_alt")
        maxAlt := ← getF (← field j "max_alt"), loadFactor := ← getF (← field j "load_factor")
        givenMass := (← (optField j "given_mass").mapM getF)
        ac := ⟨← getF (← field j "max_payload"), ← getF (← field j "empty_mass"), ← getF (← field j "max_mass")⟩
        lhv := ← getF (← field j "lhv")
        steps := ⟨nPoints fr[0]! 0.0, nPoints fr[1]! 0.0, nPoints fr[2]! 1.0⟩ }
    let o ← getOpts j
    match flyLegacy o perf track mi with
    | .error e => pure (obj [("err", Json.str e.name)])
    | .ok r => pure (obj [("pts", putPts r.traj), ("sm", putF r.startingMass), ("tfm", putF r.totalFuel),
                          ("n", putNats [mi.steps.nClm, mi.steps.nCrz, mi.steps.nDes - 1])])
  | "schedule" => do
    match schedule (← getF (← field j "orig_alt")) (← getF (← field j "dest_alt")) (← getF (← field j "max_alt")) with
    | .error e => pure (obj [("err", Json.str e.name)])
    | .ok s => pure (obj [("ok", putFs [s.clmStart, s.crzStart, s.desStart, s.desEnd, s.descentDist])])
  | "interp" => do
    -- {"t":[…], "cols":[[…]…], "new":[…]}
    let t ← getFs (← field j "t")
    let cols ← getList getFs (← field j "cols")
    let nw ← getFs (← field j "new")
    pure (Json.arr ((interpolateTime nanF t cols nw).map putFs).toArray)
  | "sq" => do pure (putFs ((← getFs (← field j "xs")).map (fun x => sq x)))
  | _ => Aeic.Container.handle op j

/-- C17: one builder, a history of abstract missions.
    mission = {"ctor": "ok"|errName, "given": bool, "calc": [sm, tfm] | errName,
               "its": [[sm, tfm, res] | [sm, tfm, errName] …]}  (recorded `_fly_iteration` calls) -/
def missionOf (j : Json) : Except String (MissionSem Float Unit Nat) := do
  let ctor ← getStr (← field j "ctor")
  let given ← getBool (← field j "given")
  let givenMass ← (optField j "given_mass").mapM getF
  let calcJ ← field j "calc"
  let calcR : Except Err (Float × Float) ←
    match calcJ with
    | Json.str s => pure (.error (Err.ofName s))
    | _ => do let a ← getFs calcJ; pure (.ok (a[0]!, a[1]!))
  let mut tbl : Std.HashMap (UInt64 × UInt64) (Except Err (Nat × Float)) := {}
  let mut idx := 0
  for it in (← getArr (← field j "its")) do
    let a ← getArr it
    let sm ← getF a[0]!
    let tfm ← getF a[1]!
    let v : Except Err (Nat × Float) ←
      match a[2]! with
      | Json.str s => pure (.error (Err.ofName s))
      | x => do pure (.ok (idx, ← getF x))
    if !(tbl.contains (sm.toBits, tfm.toBits)) then
      tbl := tbl.insert (sm.toBits, tfm.toBits) v
    idx := idx + 1
  pure { ctor := if ctor == "ok" then .ok () else .error (Err.ofName ctor)
         givenMass := if given then some (givenMass.getD 0.0) else none
         calcMass := fun _ => calcR
         flyIt := fun _ sm tfm => (tbl.get? (sm.toBits, tfm.toBits)).getD (.error .oracleMiss) }

def handleC17 (op : String) (j : Json) : Except String Json :=
  match op with
  | "history" => do
    let o ← getOpts j
    let asIs ← getBool (fieldD j "as_is" (Json.bool false))
    let intended ← getBool (fieldD j "intended" (Json.bool false))
    let mut b := BState.init
    let mut out : List Json := []
    for mj in (← getArr (← field j "missions")) do
      let m ← missionOf mj
      let (b', r) := if asIs then flyAsIs o b m else if intended then flyIntended o b m else fly o b m
      b := b'
      let st := [("has_ctx", Json.bool b.hasCtx), ("dirty", Json.bool b.dirty)]
      match r with
      | .error e => out := obj (("err", Json.str e.name) :: st) :: out
      | .ok res => out := obj ([("it", putNat res.traj), ("sm", putF res.startingMass), ("tfm", putF res.totalFuel)] ++ st) :: out
    pure (Json.arr out.reverse.toArray)
  | "attrs" => do
    -- {"dict":[names], "ctx":[names]|null, "ops":[["set",name,v]|["get",name]]}; values are Nat
    let mk (ns : List String) : List (String × Nat) := ns.map (fun n => (n, 0))
    let dict ← getStrs (← field j "dict")
    let ctx ← (optField j "ctx").mapM getStrs
    let mut o : Obj Nat := ⟨mk dict, ctx.map mk⟩
    let mut out : List Json := []
    for opj in (← getArr (← field j "ops")) do
      let a ← getArr opj
      let kind ← getStr a[0]!
      let name ← getStr a[1]!
      if kind == "set" then
        o := o.setattr name (← getNat a[2]!)
        out := Json.str "ok" :: out
      else
        out := (match o.getattr name with | some v => putNat v | none => Json.str "AttributeError") :: out
    pure (obj [("out", Json.arr out.reverse.toArray), ("dict", putStrs (o.dict.map (·.1))),
               ("ctx", match o.ctx with | some c => putStrs (c.map (·.1)) | none => Json.null)])
  | _ => throw s!"unknown c17 op {op}"

end Aeic.Builder
