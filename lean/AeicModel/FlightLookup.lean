/-
  The table lookup of `TrajectoryStore.get_flight` with the parameters the translator reads from the source
  (`harness/common/fidprog.py` → `Generated/FlightLookup.lean`): which bisect, the two guards, the offset at which the trajectory index
  is read.  `lookupSrc` is the lookup *as the working tree has it*; `Properties/C08.lean` proves it equal to the model's
  `lookupIndex`.  No Mathlib import.
-/
import AeicModel.Store
import AeicModel.Generated.FlightLookup

namespace Aeic.Store

/-- `bisect.bisect_right(flight_ids, id)` on the table -/
def bisectRightIds (id : Int) : List (Int × Nat) → Nat
  | [] => 0
  | p :: ps => if p.1 ≤ id then 1 + bisectRightIds id ps else 0

/-- the lookup with the parameters of the source. Without the length guard Python raises `IndexError` past the end, and without
    the equality guard it returns whatever stands at the position: the reading gives `none` / that entry. -/
def lookupWith (left guardLen guardEq : Bool) (shift : Int) (tbl : List (Int × Nat)) (id : Int) : Option Nat :=
  let k := if left then bisectLeftIds id tbl else bisectRightIds id tbl
  if guardLen && decide (tbl.length ≤ k) then none else
  match tbl[k]? with
  | none => none
  | some p =>
    if guardEq && decide (p.1 ≠ id) then none else
    let j : Int := (k : Int) + shift
    if j < 0 then none else (tbl[j.toNat]?).map (·.2)

/-- the flight-identifier lookup as the working tree has it -/
def lookupSrc (tbl : List (Int × Nat)) (id : Int) : Option Nat :=
  lookupWith Aeic.Gen.flBisectLeft Aeic.Gen.flGuardLen Aeic.Gen.flGuardEq Aeic.Gen.flShift tbl id

end Aeic.Store
