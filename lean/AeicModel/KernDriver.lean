/-
  Driver handler for the kernels regenerated from the source (`Generated/Kernels.lean`):
  `kern.eval {name, attrs: {key: u64}, pts: [{x: [u64], b: [bool]}]}` → `[u64 | null]`,
  `kern.evalv` (vector kernels: array / length arguments, array-valued attributes) → `[[u64]]`,
  `kern.names` → the kernels present / missing in this translation.
-/
import AeicModel.Generated.Kernels
import AeicModel.Wire
open Lean Aeic.Wire

namespace Aeic.Kern

def attrEnv (kvs : List (String × Float)) (k : String) : Float :=
  match kvs.lookup k with
  | some v => v
  | none => 0.0 / 0.0

def handle (op : String) (j : Json) : Except String Json :=
  match op with
  | "names" => pure (obj [("present", putStrs kernelNames), ("missing", putStrs missingKernels)])
  | "eval" => do
      let name ← getStr (← field j "name")
      let attrsJ := fieldD j "attrs" (Json.mkObj [])
      let kvs ← match attrsJ with
        | Json.obj m => (m.toList.mapM fun (k, v) => do pure (k, ← getF v))
        | _ => throw "attrs: object expected"
      let A := attrEnv kvs
      let pts ← getArr (← field j "pts")
      let outs ← pts.toList.mapM fun p => do
        let xs ← getFs (fieldD p "x" (Json.arr #[]))
        let bs ← getList getBool (fieldD p "b" (Json.arr #[]))
        match evalFloat name A xs.toArray bs.toArray with
        | some v => pure (putF v)
        | none => throw s!"unknown kernel {name}"
      pure (Json.arr outs.toArray)
  | "evalv" => do
      -- vector kernels: {name, attrs: {key: u64}, vattrs: {key: [u64]}, pts: [{x: [u64], b: [bool], v: [[u64]], n: [nat]}]} → [[u64]]
      let name ← getStr (← field j "name")
      let kvs ← match fieldD j "attrs" (Json.mkObj []) with
        | Json.obj m => (m.toList.mapM fun (k, v) => do pure (k, ← getF v))
        | _ => throw "attrs: object expected"
      let vkvs ← match fieldD j "vattrs" (Json.mkObj []) with
        | Json.obj m => (m.toList.mapM fun (k, v) => do pure (k, ← getFs v))
        | _ => throw "vattrs: object expected"
      let A := attrEnv kvs
      let AV : String → List Float := fun k => (vkvs.lookup k).getD []
      let pts ← getArr (← field j "pts")
      let outs ← pts.toList.mapM fun p => do
        let xs ← getFs (fieldD p "x" (Json.arr #[]))
        let bs ← getList getBool (fieldD p "b" (Json.arr #[]))
        let vs ← getList getFs (fieldD p "v" (Json.arr #[]))
        let ns ← getNats (fieldD p "n" (Json.arr #[]))
        match evalFloatV name A AV xs.toArray bs.toArray vs.toArray ns.toArray with
        | some v => pure (putFs v)
        | none => throw s!"unknown vector kernel {name}"
      pure (Json.arr outs.toArray)
  | _ => throw s!"kern: unknown op {op}"

end Aeic.Kern
