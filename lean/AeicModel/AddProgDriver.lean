/-
  Driver handler for the event program of `TrajectoryStore.add` (`Generated/AddProg.lean`):
  `add.run {fails: [k…], insert_refused: bool}` → `{raised, done: [event index…]}` (the indices of the events of the program that
  were performed as state changes), `add.program` → the events as text with their source lines.
-/
import AeicModel.AddProg
import AeicModel.Generated.AddProg
import AeicModel.Wire
open Lean Aeic.Wire

namespace Aeic.AddProg

def evText : Ev → String
  | .check k => s!"check {k}"
  | .insert => "insert"
  | .set f c => s!"set {f} {c}"
  | .effect m c => s!"effect {m} {c}"
  | .ret => "ret"

def handle (op : String) (j : Json) : Except String Json :=
  match op with
  | "program" =>
      pure (obj [("events", putStrs (Aeic.Gen.addProgram.map evText)),
                 ("lines", Json.arr (Aeic.Gen.addProgramLines.map (fun (n : Nat) => Json.num (Int.ofNat n))).toArray)])
  | "run" => do
      let fails ← getNats (fieldD j "fails" (Json.arr #[]))
      let ir ← getBool (fieldD j "insert_refused" (Json.bool false))
      let r := run (fun k => fails.contains k) ir Aeic.Gen.addProgram
      pure (obj [("raised", Json.bool r.raised), ("done", putStrs (r.done.map evText))])
  | _ => throw s!"add: unknown op {op}"

end Aeic.AddProg
