/-
  C19 — model of `AEIC/BADA/model.py` + `AEIC/BADA/fuel_burn_base.py` (BADA-3 fuel-burn integration).

  Generic in the scalar type (executed on `Float` by the driver, proved about over `ℝ` in
  `AeicProofs/Properties/C19.lean`).  Operation order mirrors the Python source so that the `Float`
  evaluation differs from the implementation only through `pow`/`exp` (ISA pressure).

  The model follows the code *after* the three `fix:` commits of branch `b-c19`
  (attribute access to the parameter dataclass; piston fuel flow in kg/s; backward trapezoid with the
  segment lengths reversed; fuel-dependent drivers re-anchor the profile after resetting `mass[0]`).
  The small defective pieces of the unrepaired code are kept as `…AsIs` definitions: they are what the
  negation theorems (`C19.*_asIs_*`) talk about and what the corpus witnesses are replayed against.
-/
import AeicModel.Scalar
import AeicModel.Wire
import AeicModel.Generated.Constants
open Lean

namespace Aeic.Bada

inductive Engine | jet | turboprop | piston
  deriving DecidableEq, Repr

/-- `Bada3FuelBurnModel.create_engine_model`: the three implemented engine types, `Electric` refused by
    `NotImplementedError`, anything else by `ValueError`. -/
def engineOfString : String → Except String Engine
  | "Jet" => .ok .jet
  | "Turboprop" => .ok .turboprop
  | "Piston" => .ok .piston
  | "Electric" => .error "refused:NotImplementedError"
  | _ => .error "refused:ValueError"

/-- the fields of `Bada3AircraftParameters` the fuel-burn model reads. -/
structure Params (α : Type) where
  cFcr : α
  cF1 : α
  cF2 : α
  cD0 : α
  cD2 : α
  sRef : α
  cTc1 : α
  cTc2 : α
  cTc3 : α
  cTc4 : α
  cTc5 : α
  cTcr : α
  cTdesLow : α
  cTdesHigh : α
  hPDes : α

/-- one point of the flight profile (all vectors of the Python API have one entry per point). -/
structure Pt (α : Type) where
  temp : α
  alt : α
  vtas : α
  rocd : α
  acc : α
  gs : α
  cruise : Bool

section
variable {α : Type} [Add α] [Sub α] [Mul α] [Div α] [Neg α] [LT α] [LE α]
  [DecidableLT α] [DecidableLE α] [Lit α] [Transc α]

/-! ### ISA (utils/standard_atmosphere.py, `_bada4` variants) -/

def isaTemp (h : α) : α :=
  if h ≤ Gen.h_p_tropo (α := α) then Gen.T0 (α := α) + Gen.beta_tropo (α := α) * h
  else Gen.T0 (α := α) + Gen.beta_tropo (α := α) * Gen.h_p_tropo (α := α)

def isaPressure (h : α) : α :=
  let e : α := (-(Gen.g0 (α := α))) / (Gen.beta_tropo (α := α) * Gen.R_air (α := α))
  let tTrop : α := Gen.T0 (α := α) + Gen.beta_tropo (α := α) * Gen.h_p_tropo (α := α)
  if h ≤ Gen.h_p_tropo (α := α) then
    Gen.p0 (α := α) * Transc.pow (isaTemp h / Gen.T0 (α := α)) e
  else
    (Gen.p0 (α := α) * Transc.pow (tTrop / Gen.T0 (α := α)) e)
      * Transc.exp (((-(Gen.g0 (α := α))) / (Gen.R_air (α := α) * tTrop)) * (h - Gen.h_p_tropo (α := α)))

def airDensity (p t : α) : α := p / (Gen.R_air (α := α) * t)

/-- the implementation raises `ValueError` for any altitude above 25 km. -/
def altitudeInRange (h : α) : Bool := !(decide ((d% 25000 : α) < h))

/-! ### engine models -/

/-- `calculate_max_climb_thrust_isa` (eqs 3.7-1 … 3.7-3). -/
def maxClimbIsa (e : Engine) (P : Params α) (h v : α) : α :=
  let hft : α := h * Gen.METERS_TO_FEET (α := α)
  match e with
  | .jet => P.cTc1 * (((d% 1 : α) - hft / P.cTc2) + P.cTc3 * (hft * hft))
  | .turboprop =>
    let vk : α := v * Gen.MPS_TO_KNOTS (α := α)
    (P.cTc1 / vk) * ((d% 1 : α) - hft / P.cTc2) + P.cTc3
  | .piston =>
    let vk : α := v * Gen.MPS_TO_KNOTS (α := α)
    P.cTc1 * ((d% 1 : α) - hft / P.cTc2) + P.cTc3 / vk

/-- the temperature correction factor of eq. (3.7-4): `1 − clip(ΔT_eff · max(0, C_Tc5), 0, 0.4)`. -/
def tempFactor (P : Params α) (h t : α) : α :=
  let dT : α := t - isaTemp h
  let dTeff : α := dT - P.cTc4
  (d% 1 : α) - smin (smax (dTeff * smax (d% 0 : α) P.cTc5) (d% 0 : α)) (d% 0.4 : α)

def maxClimb (e : Engine) (P : Params α) (h v t : α) : α := maxClimbIsa e P h v * tempFactor P h t
def maxCruise (e : Engine) (P : Params α) (h v t : α) : α := maxClimb e P h v t * P.cTcr
def descentHigh (e : Engine) (P : Params α) (h v t : α) : α := P.cTdesHigh * maxClimb e P h v t
def descentLow (e : Engine) (P : Params α) (h v t : α) : α := P.cTdesLow * maxClimb e P h v t

/-- thrust specific fuel consumption [kg/(N·s)] (eqs 3.9-1, 3.9-2); not defined for piston engines (0 here,
    never used for them). -/
def sfc (e : Engine) (P : Params α) (v : α) : α :=
  match e with
  | .jet => (P.cF1 * ((d% 1 : α) + (v * Gen.MPS_TO_KNOTS (α := α)) / P.cF2)) / (d% 60000 : α)
  | .turboprop =>
    ((P.cF1 * ((d% 1 : α) - (v * Gen.MPS_TO_KNOTS (α := α)) / P.cF2))
      * ((v * Gen.MPS_TO_KNOTS (α := α)) / (d% 1000 : α))) / (d% 60000 : α)
  | .piston => (d% 0 : α)

def nominalFuelFlow (e : Engine) (P : Params α) (thr v : α) : α :=
  match e with
  | .piston => P.cF1 / (d% 60 : α)
  | _ => sfc e P v * thr

def cruiseFuelFlow (e : Engine) (P : Params α) (thr v : α) : α :=
  match e with
  | .piston => (P.cF1 / (d% 60 : α)) * P.cFcr
  | _ => (sfc e P v * thr) * P.cFcr

/-- unrepaired piston model: `C_f1` (kg/min in the OPF file) returned as if it were kg/s. -/
def pistonNominalAsIs (P : Params α) : α := P.cF1
def pistonCruiseAsIs (P : Params α) : α := P.cF1 * P.cFcr

/-! ### thrust -/

def liftCoeff (P : Params α) (m rho v : α) : α :=
  (((d% 2 : α) * m) * Gen.g0 (α := α)) / ((rho * P.sRef) * (v * v))

def dragCoeff (P : Params α) (cl : α) : α := P.cD0 + P.cD2 * (cl * cl)

def dragForce (P : Params α) (cd rho v : α) : α := ((((d% 0.5 : α) * rho) * P.sRef) * (v * v)) * cd

def totalEnergyThrust (drag m v rocd acc : α) : α :=
  drag + m * ((Gen.g0 (α := α) * ((d% 1 : α) / v)) * rocd + acc)

/-- the selection layer of `calculate_thrust`: limit from above, then replace negative by descent thrust. -/
def selectThrust (te mx ds : α) : α :=
  let lim : α := if mx < te then mx else te
  if lim < (d% 0 : α) then ds else lim

def maxThrust (e : Engine) (P : Params α) (p : Pt α) : α :=
  if p.cruise then maxCruise e P p.alt p.vtas p.temp else maxClimb e P p.alt p.vtas p.temp

def descentThrust (e : Engine) (P : Params α) (p : Pt α) : α :=
  if P.hPDes < p.alt * Gen.METERS_TO_FEET (α := α) then descentHigh e P p.alt p.vtas p.temp
  else descentLow e P p.alt p.vtas p.temp

def teThrust (P : Params α) (m : α) (p : Pt α) : α :=
  let rho : α := airDensity (isaPressure p.alt) p.temp
  let cl : α := liftCoeff P m rho p.vtas
  let cd : α := dragCoeff P cl
  let drag : α := dragForce P cd rho p.vtas
  totalEnergyThrust drag m p.vtas p.rocd p.acc

def thrust (e : Engine) (P : Params α) (m : α) (p : Pt α) : α :=
  selectThrust (teThrust P m p) (maxThrust e P p) (descentThrust e P p)

/-! ### fuel flow and specific ground range -/

def selectFuelFlow (cruise : Bool) (nominal cruiseFF : α) : α := if cruise then cruiseFF else nominal

def fuelFlow (e : Engine) (P : Params α) (thr : α) (p : Pt α) : α :=
  selectFuelFlow p.cruise (nominalFuelFlow e P thr p.vtas) (cruiseFuelFlow e P thr p.vtas)

/-- `np.divide(gs, ff, out=zeros, where=ff != 0)`. -/
def sgrOf (gs ff : α) : α := if ff < (d% 0 : α) ∨ (d% 0 : α) < ff then gs / ff else (d% 0 : α)

def sgr (e : Engine) (P : Params α) (m : α) (p : Pt α) : α :=
  sgrOf p.gs (fuelFlow e P (thrust e P m p) p)

/-- fuel burnt per metre of ground track as the mass update sees it:
    `1 / np.where(sgr < 1, inf, sgr)` (so `0` whenever the specific ground range is below 1 m/kg). -/
def burnPerMetre (s : α) : α := if s < (d% 1 : α) then (d% 0 : α) else (d% 1 : α) / s

def sgrVec (e : Engine) (P : Params α) (pts : List (Pt α)) (mass : List α) : List α :=
  List.zipWith (fun m p => sgr e P m p) mass pts

def burnVec (e : Engine) (P : Params α) (pts : List (Pt α)) (mass : List α) : List α :=
  (sgrVec e P pts mass).map burnPerMetre

/-! ### cumulative trapezoid and the two mass updates (fuel_burn_base.py) -/

/-- the terms `d * (y[k+1] + y[k]) / 2` of `scipy.integrate.cumulative_trapezoid(y, dx=d)`. -/
def trapTerms : List α → List α → List α
  | y0 :: y1 :: ys, d :: ds => ((d * (y1 + y0)) / (d% 2 : α)) :: trapTerms (y1 :: ys) ds
  | _, _ => []

/-- `np.cumsum` started from the accumulator. -/
def cumsumFrom (acc : α) : List α → List α
  | [] => []
  | t :: ts => (acc + t) :: cumsumFrom (acc + t) ts

/-- `update_mass_vector`: `mass[1:] = mass[0] − cumtrapz(1/sgr_corrected, dx)`. -/
def massFwd (m0 : α) (b dx : List α) : List α :=
  m0 :: (cumsumFrom (d% 0 : α) (trapTerms b dx)).map (fun c => m0 - c)

/-- `update_mass_vector_backward` (repaired): the reversed integrand is paired with the reversed segment lengths. -/
def massBwd (mLast : α) (b dx : List α) : List α :=
  ((cumsumFrom (d% 0 : α) (trapTerms b.reverse dx.reverse)).reverse.map (fun c => mLast + c)) ++ [mLast]

/-- `update_mass_vector_backward` as found: the reversed integrand is paired with the *unreversed* `dx`. -/
def massBwdAsIs (mLast : α) (b dx : List α) : List α :=
  ((cumsumFrom (d% 0 : α) (trapTerms b.reverse dx)).reverse.map (fun c => mLast + c)) ++ [mLast]

def headD (xs : List α) : α := xs.headD (d% 0 : α)
def lastD (xs : List α) : α := xs.getLastD (d% 0 : α)

/-- consecutive decreases `m[i] − m[i+1]`. -/
def diffs : List α → List α
  | a :: b :: r => (a - b) :: diffs (b :: r)
  | _ => []

/-! ### iteration drivers.  `burnOf` is the map mass-vector ↦ burn-per-metre vector
    (`burnVec e P pts` in the concrete model); the theorems hold for every such map. -/

def pctChange (new old : α) : α := (sabs (new - old) / old) * (d% 100 : α)

def fwdStep (burnOf : List α → List α) (dx : List α) (mass : List α) : List α :=
  massFwd (headD mass) (burnOf mass) dx

def bwdStep (burnOf : List α → List α) (dx : List α) (mass : List α) : List α :=
  massBwd (lastD mass) (burnOf mass) dx

def constInitLoop (burnOf : List α → List α) (dx : List α) : Nat → List α → α → List α
  | 0, mass, _ => mass
  | k + 1, mass, old =>
    let mass' := fwdStep burnOf dx mass
    if pctChange (lastD mass') old < (d% 0.01 : α) then mass'
    else constInitLoop burnOf dx k mass' (lastD mass')

/-- `iterate_flight_simulation_constant_initial_mass`. -/
def constInitial (burnOf : List α → List α) (dx : List α) (n : Nat) (m0 : α) (nIter : Nat) : List α :=
  let mass := fwdStep burnOf dx (List.replicate n m0)
  constInitLoop burnOf dx (nIter - 1) mass (lastD mass)

def constFinalLoop (burnOf : List α → List α) (dx : List α) : Nat → List α → α → List α
  | 0, mass, _ => mass
  | k + 1, mass, old =>
    let mass' := bwdStep burnOf dx mass
    if pctChange (headD mass') old < (d% 0.01 : α) then mass'
    else constFinalLoop burnOf dx k mass' (headD mass')

/-- `iterate_flight_simulation_constant_final_mass`. -/
def constFinal (burnOf : List α → List α) (dx : List α) (n : Nat) (mEnd : α) (nIter : Nat) : List α :=
  let mass := bwdStep burnOf dx (List.replicate n mEnd)
  constFinalLoop burnOf dx (nIter - 1) mass (headD mass)

/-- take-off mass rule of the two fuel-dependent drivers.
    `rfFrac = true`: reserve fuel is a fraction of the fuel burn; otherwise an absolute value. -/
def takeoffMass (rfFrac : Bool) (mtow oew mpl lf rf fuelBurn : α) : α :=
  let want : α :=
    if rfFrac then (oew + mpl * lf) + fuelBurn * ((d% 1 : α) + rf)
    else ((oew + mpl * lf) + fuelBurn) + rf
  if mtow < want then mtow else want

/-- one pass of the loop body of the fuel-dependent drivers (repaired): update, derive the take-off mass from
    the burnt fuel, and re-anchor the whole profile at it. -/
def fuelDepStep (burnOf : List α → List α) (dx : List α) (rfFrac : Bool) (mtow oew mpl lf rf : α)
    (mass : List α) : List α :=
  let b := burnOf mass
  let m1 := massFwd (headD mass) b dx
  massFwd (takeoffMass rfFrac mtow oew mpl lf rf (headD m1 - lastD m1)) b dx

/-- the loop body as found: only `mass[0]` is overwritten, the rest of the profile still hangs below the old
    first element. -/
def fuelDepStepAsIs (burnOf : List α → List α) (dx : List α) (rfFrac : Bool) (mtow oew mpl lf rf : α)
    (mass : List α) : List α :=
  let b := burnOf mass
  let m1 := massFwd (headD mass) b dx
  takeoffMass rfFrac mtow oew mpl lf rf (headD m1 - lastD m1) :: m1.tail

def fuelDepLoop (step : List α → List α) : Nat → List α → α → List α
  | 0, mass, _ => mass
  | k + 1, mass, old =>
    let mass' := step mass
    if pctChange (lastD mass') old < (d% 0.01 : α) then mass'
    else fuelDepLoop step k mass' (lastD mass')

/-- `iterate_flight_simulation_fuel_burn_dependent_initial_mass_rf_fraction / _rf_value`. -/
def fuelDependent (asIs : Bool) (burnOf : List α → List α) (dx : List α) (n : Nat) (rfFrac : Bool)
    (est mtow oew mpl lf rf : α) (nIter : Nat) : List α :=
  let mass := fwdStep burnOf dx (List.replicate n est)
  let step := if asIs then fuelDepStepAsIs burnOf dx rfFrac mtow oew mpl lf rf
              else fuelDepStep burnOf dx rfFrac mtow oew mpl lf rf
  fuelDepLoop step nIter mass (lastD mass)

/-! ### reference ("what the BADA-3 manual says", SI in / SI out) used by the refinement theorems -/

/-- thrust of the property statement: total-energy thrust, limited above by the maximum (climb or cruise)
    thrust, replaced by the descent thrust when negative. -/
def thrustSpec (te mx ds : α) : α :=
  if smin te mx < (d% 0 : α) then ds else smin te mx

/-- BADA-3 fuel flow [kg/s]: `η·Thr` with `η` in kg/(min·kN) for jets/turboprops, `C_f1` kg/min for pistons,
    times `C_fcr` in cruise only. -/
def fuelFlowSpec (e : Engine) (P : Params α) (thr v : α) (cruise : Bool) : α :=
  let vk : α := v * Gen.MPS_TO_KNOTS (α := α)
  let perMin : α :=
    match e with
    | .jet => (P.cF1 * ((d% 1 : α) + vk / P.cF2)) * (thr / (d% 1000 : α))
    | .turboprop => ((P.cF1 * ((d% 1 : α) - vk / P.cF2)) * (vk / (d% 1000 : α))) * (thr / (d% 1000 : α))
    | .piston => P.cF1
  let nominal : α := perMin / (d% 60 : α)
  if cruise then nominal * P.cFcr else nominal

end

/-! ### driver ops (Float) -/

open Aeic.Wire

def getEngine (j : Json) : Except String Engine := do
  engineOfString (← getStr (← field j "engine"))

def getParams (j : Json) : Except String (Params Float) := do
  let g := fun k => do getF (← field j k)
  pure {
    cFcr := ← g "c_fcr", cF1 := ← g "c_f1", cF2 := ← g "c_f2", cD0 := ← g "c_d0cr", cD2 := ← g "c_d2cr",
    sRef := ← g "S_ref", cTc1 := ← g "c_tc1", cTc2 := ← g "c_tc2", cTc3 := ← g "c_tc3", cTc4 := ← g "c_tc4",
    cTc5 := ← g "c_tc5", cTcr := ← g "c_tcr", cTdesLow := ← g "c_tdes_low", cTdesHigh := ← g "c_tdes_high",
    hPDes := ← g "h_p_des" }

def zipPts : List Float → List Float → List Float → List Float → List Float → List Float → List Bool →
    List (Pt Float)
  | t :: ts, h :: hs, v :: vs, r :: rs, a :: as, g :: gs, c :: cs =>
    { temp := t, alt := h, vtas := v, rocd := r, acc := a, gs := g, cruise := c } :: zipPts ts hs vs rs as gs cs
  | _, _, _, _, _, _, _ => []

def getPts (j : Json) : Except String (List (Pt Float)) := do
  let t ← getFs (← field j "temperature")
  let h ← getFs (← field j "altitude")
  let v ← getFs (← field j "v_tas")
  let r ← getFs (← field j "rocd")
  let a ← getFs (← field j "acceleration")
  let g ← getFs (← field j "groundspeed")
  let c ← getList getBool (← field j "in_cruise")
  let n := t.length
  if h.length != n || v.length != n || r.length != n || a.length != n || g.length != n || c.length != n then
    throw "profile vectors differ in length"
  let pts := zipPts t h v r a g c
  if pts.all (fun p => altitudeInRange p.alt) then pure pts else throw "refused:ValueError"

def handle (op : String) (j : Json) : Except String Json := do
  match op with
  | "engine" =>
    match getEngine j with
    | .ok _ => pure (Json.str "ok")
    | .error e => pure (Json.str e)
  | "points" => do
    -- every intermediate quantity of `calculate_specific_ground_range`, per point
    let e ← getEngine j
    let P ← getParams j
    let pts ← getPts j
    let mass ← getFs (← field j "mass")
    let mp := List.zip mass pts
    let col := fun (f : Float → Pt Float → Float) => putFs (mp.map (fun (m, p) => f m p))
    pure (obj [
      ("te", col (fun m p => teThrust P m p)),
      ("max_climb", col (fun _ p => maxClimb e P p.alt p.vtas p.temp)),
      ("max_cruise", col (fun _ p => maxCruise e P p.alt p.vtas p.temp)),
      ("descent_high", col (fun _ p => descentHigh e P p.alt p.vtas p.temp)),
      ("descent_low", col (fun _ p => descentLow e P p.alt p.vtas p.temp)),
      ("thrust", col (fun m p => thrust e P m p)),
      ("ff_nominal", col (fun m p => nominalFuelFlow e P (thrust e P m p) p.vtas)),
      ("ff_cruise", col (fun m p => cruiseFuelFlow e P (thrust e P m p) p.vtas)),
      ("sgr", col (fun m p => sgr e P m p)),
      ("thrust_spec", col (fun m p => thrustSpec (teThrust P m p) (maxThrust e P p) (descentThrust e P p))),
      ("ff_spec", col (fun m p => fuelFlowSpec e P (thrust e P m p) p.vtas p.cruise)),
      ("ff_piston_asis", putFs [pistonNominalAsIs P, pistonCruiseAsIs P])])
  | "select" => do
    -- the selection layer alone, on arbitrary (te, max, descent) triples
    let te ← getFs (← field j "te"); let mx ← getFs (← field j "mx"); let ds ← getFs (← field j "ds")
    pure (putFs ((List.zip te (List.zip mx ds)).map (fun (a, b, c) => selectThrust a b c)))
  | "update" => do
    -- forward / backward mass update on an explicit specific-ground-range vector
    let s ← getFs (← field j "sgr")
    let dx ← getFs (← field j "dx")
    let m ← getF (← field j "anchor")
    let b := s.map burnPerMetre
    let kind ← getStr (← field j "kind")
    match kind with
    | "fwd" => pure (putFs (massFwd m b dx))
    | "bwd" => pure (putFs (massBwd m b dx))
    | "bwd_asis" => pure (putFs (massBwdAsIs m b dx))
    | _ => throw s!"unknown update kind {kind}"
  | "iterate" => do
    let e ← getEngine j
    let P ← getParams j
    let pts ← getPts j
    let dx ← getFs (← field j "dx")
    let nIter ← getNat (← field j "n_iter")
    let kind ← getStr (← field j "kind")
    let n := pts.length
    if n == 0 then throw "internal:IndexError"
    let burnOf := burnVec e P pts
    let res ← match kind with
      | "const_initial" => do
        pure (constInitial burnOf dx n (← getF (← field j "mass")) nIter)
      | "const_final" => do
        pure (constFinal burnOf dx n (← getF (← field j "mass")) nIter)
      | "fd_fraction" | "fd_value" | "fd_fraction_asis" | "fd_value_asis" => do
        let g := fun k => do getF (← field j k)
        pure (fuelDependent (kind.endsWith "_asis") burnOf dx n (kind.startsWith "fd_fraction")
          (← g "mass") (← g "mtow") (← g "oew") (← g "mpl") (← g "load_factor") (← g "reserve") nIter)
      | _ => throw s!"unknown driver {kind}"
    -- the burn vector the returned profile is consistent with is recomputed by the harness from the
    -- implementation's own recorded calls; here we also return the specific ground range at the result
    pure (obj [("mass", putFs res), ("sgr_at_result", putFs (sgrVec e P pts res))])
  | _ => throw s!"unknown op c19.{op}"

end Aeic.Bada
