/-
  Event language for `TrajectoryStore.add` (`trajectories/store.py`, C10: a rejected `add` changes nothing; C07: indices follow
  insertion order) and its semantics.  The *program* (`Aeic.Gen.addProgram`, `AeicModel/Generated/AddProg.lean`) is regenerated
  from the Python source by `harness/common/addprog.py` on every check run: the statements of `add` — helpers of the class read as
  well — in source order, classified as

    check k     the k-th statement that can refuse and changes nothing (`if …: raise`, a loop of such, a helper without effects)
    insert      `self._trajectories[i] = trajectory`: the cache takes the trajectory or refuses it (too large / an in-memory store
                would have to evict) — atomically
    set f       an assignment to the attribute `f` of the store (`cond`: under an `if`)
    effect m    a call of a method of the store that writes files or changes the store (`_create`, `_write_trajectory`)
    ret         `return`

  Semantics: `run fails insertRefused prog` performs the events in order and gives the list of state changes made (the mutation
  events in order) and whether the call raised.  What a file-writing helper does when the file system fails is outside this
  language (C10 speaks about rejected and interrupted *operations*; the interruption of `add` itself is not part of it).
  No Mathlib import.
-/
namespace Aeic.AddProg

inductive Ev
  | check (k : Nat)
  | insert
  | set (field : String) (cond : Bool)
  | effect (method : String) (cond : Bool)
  | ret
deriving Repr, DecidableEq, Inhabited

def isCheck : Ev → Bool
  | .check _ => true
  | _ => false

def isMutation : Ev → Bool
  | .insert => true
  | .set _ _ => true
  | .effect _ _ => true
  | _ => false

structure Res where
  done : List Ev          -- the state changes made, in order
  raised : Bool
deriving Repr, DecidableEq

/-- run the events from the front; `acc` = the changes made so far (reversed) -/
def runFrom (fails : Nat → Bool) (insertRefused : Bool) : List Ev → List Ev → Res
  | [], acc => ⟨acc.reverse, false⟩
  | .check k :: rest, acc => if fails k then ⟨acc.reverse, true⟩ else runFrom fails insertRefused rest acc
  | .insert :: rest, acc => if insertRefused then ⟨acc.reverse, true⟩ else runFrom fails insertRefused rest (.insert :: acc)
  | .ret :: _, acc => ⟨acc.reverse, false⟩
  | e :: rest, acc => runFrom fails insertRefused rest (e :: acc)

def run (fails : Nat → Bool) (insertRefused : Bool) (p : List Ev) : Res := runFrom fails insertRefused p []

/-- an event that cannot raise -/
def quiet : Ev → Bool
  | .check _ => false
  | .insert => false
  | _ => true

/-- every refusal comes before the first state change (after which nothing can raise any more) -/
def checksFirst : List Ev → Bool
  | [] => true
  | .check _ :: rest => checksFirst rest
  | _ :: rest => rest.all quiet

/-- the first state change is the insertion into the cache (which may still refuse, atomically) -/
def insertFirst : List Ev → Bool
  | [] => true
  | .check _ :: rest => insertFirst rest
  | .insert :: _ => true
  | _ => false

/-- the mutation events up to the first `ret` -/
def mutations : List Ev → List Ev
  | [] => []
  | .ret :: _ => []
  | e :: rest => if isMutation e then e :: mutations rest else mutations rest

def checkIds : List Ev → List Nat
  | [] => []
  | .check k :: rest => k :: checkIds rest
  | _ :: rest => checkIds rest

def setsField (f : String) (p : List Ev) : Bool := p.any (fun e => match e with | .set g _ => g == f | _ => false)
def hasEffect (m : String) (p : List Ev) : Bool := p.any (fun e => match e with | .effect g _ => g == m | _ => false)

/-- position of the first event satisfying `q` (`p.length` if none) -/
def firstIdx (q : Ev → Bool) : List Ev → Nat
  | [] => 0
  | e :: rest => if q e then 0 else firstIdx q rest + 1

/-- `a` happens before `b` (both present) -/
def before (qa qb : Ev → Bool) (p : List Ev) : Bool := firstIdx qa p < firstIdx qb p && firstIdx qb p < p.length

/-- what an accepted `add` must do according to the store model (`Store.commitAdd`): take the trajectory into the cache, advance
    the next index, fix the indexable decision, create the files when pending (before the data is written), write the
    trajectory, mark the flight-id index stale; and return -/
def commitComplete (p : List Ev) : Bool :=
  p.contains .insert && setsField "_next_index" p && setsField "indexable" p && setsField "index_stale" p &&
  hasEffect "_write_trajectory" p && hasEffect "_create" p && setsField "_file_creation_pending" p &&
  before (fun e => e == .effect "_create" true) (fun e => match e with | .effect "_write_trajectory" _ => true | _ => false) p &&
  p.getLast? == some .ret

end Aeic.AddProg
