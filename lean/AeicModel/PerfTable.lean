/-
  C06 — legacy table-based performance model.

  Model of (as the code exists on branch b-c06, i.e. with the three `fix:` commits):
    * `AEIC/performance/models/legacy.py`
        PerformanceTable.__post_init__   ↦ `validate`
        PerformanceTable.subset          ↦ `sub` (+ `validate` again: `subset` constructs a PerformanceTable)
        Interpolator.__init__/__call__   ↦ `prep` / `evalPrepared`   (scipy `interpn(method='linear')`, bounds_error=True)
        PerformanceTable.interpolate     ↦ `evaluate` (`altitude * METERS_TO_FL`, 'min'/'max')
        PerformanceTable._interpolators  ↦ `Cache`, `evalCached`
    * `AEIC/parsers/ptf_reader.py` (unit conversion of parsed numbers) and
      `AEIC/commands/make_performance_model.py:build_performance_table` ↦ `buildRows`

  The numpy value arrays `tas[i, j]` filled by `fls.index(row.fl)`, `masses.index(row.mass)` are modelled as the
  function `(f, m) ↦ cell s f m field` (value of the last row with that flight level and mass, `0` when there is none —
  `np.zeros`), and scipy's interval search as `bracket` (the two neighbouring grid coordinates).  Floating-point
  operation order of scipy's `evaluate_linear_2d` / `_evaluate_linear` is mirrored.

  Open finding C06-phase-mass-count-checked-lazily: `validate` (as-is) vs `validateIntended`.

  No Mathlib import (linked into the driver).
-/
import AeicModel.Scalar
import AeicModel.Wire
import AeicModel.Generated.Constants
open Lean

namespace Aeic.PerfTable

structure Row (α : Type) where
  fl : α
  mass : α
  tas : α
  rocd : α
  ff : α

structure Perf (α : Type) where
  tas : α
  rocd : α
  ff : α

/-- `SimpleFlightRules.CLIMB/CRUISE/DESCEND` = `ROCDFilter.POSITIVE/ZERO/NEGATIVE` -/
inductive Phase where
  | climb | cruise | descend
  deriving DecidableEq, Repr

inductive MassSpec (α : Type) where
  | val (m : α)
  | min
  | max

inductive Err where
  | massCount | coverage | flOnly | oobFl | oobMass
  deriving DecidableEq, Repr

def Err.name : Err → String
  | .massCount => "massCount" | .coverage => "coverage" | .flOnly => "flOnly"
  | .oobFl => "oobFl" | .oobMass => "oobMass"

section
variable {α : Type} [Add α] [Sub α] [Mul α] [Div α] [Neg α] [LT α] [LE α]
  [DecidableLT α] [DecidableLE α] [Lit α]

/-- `==` on scalars, derived from the order (NaN never enters: the harness generates finite tables). -/
def seq (a b : α) : Bool := !(decide (a < b)) && !(decide (b < a))

/-- row selection of `subset` / the `check_*` splits of `__post_init__` -/
def inPhase (tol : α) : Phase → Row α → Bool
  | .climb, r => decide (tol < r.rocd)
  | .cruise, r => decide (-tol ≤ r.rocd) && decide (r.rocd ≤ tol)
  | .descend, r => decide (r.rocd < -tol)

def sub (tol : α) (p : Phase) (t : List (Row α)) : List (Row α) := t.filter (inPhase tol p)

/-- insertion into a strictly ascending list -/
def insertU (x : α) : List α → List α
  | [] => [x]
  | y :: ys => if x < y then x :: y :: ys else if y < x then y :: insertU x ys else y :: ys

/-- `sorted(df.col.unique())` -/
def sortU (xs : List α) : List α := xs.foldr insertU []

def fls (s : List (Row α)) : List α := sortU (s.map (·.fl))
def masses (s : List (Row α)) : List α := sortU (s.map (·.mass))

def memP (p : α × α) (l : List (α × α)) : Bool := l.any (fun q => seq p.1 q.1 && seq p.2 q.2)

/-- `df.duplicated(subset=[a, b]).any()` -/
def hasDupP : List (α × α) → Bool
  | [] => false
  | p :: ps => memP p ps || hasDupP ps

/-- `df.drop_duplicates(subset=[a, b])` (only its length is used) -/
def dedupP : List (α × α) → List (α × α)
  | [] => []
  | p :: ps => if memP p ps then dedupP ps else p :: dedupP ps

/-- `check_coverage` (after fix: duplicate (FL, mass) pairs are refused as well as a wrong row count) -/
def coverageOk (s : List (Row α)) : Bool :=
  !(hasDupP (s.map fun r => (r.fl, r.mass))) && ((fls s).length * (masses s).length == s.length)

/-- `check_coverage` before the fix (count only) — kept for the negation witness. -/
def coverageOkCountOnly (s : List (Row α)) : Bool :=
  (fls s).length * (masses s).length == s.length

/-- `check_fl_only` -/
def flOnlyOk (s : List (Row α)) (field : Row α → α) : Bool :=
  (dedupP (s.map fun r => (r.fl, field r))).length == (fls s).length

/-- number of mass values `__post_init__` demands, from the ROCD class all rows fall in -/
def nMassExpected (tol : α) (t : List (Row α)) : Nat :=
  if t.all (fun r => decide (tol < r.rocd)) then 3
  else if t.all (fun r => decide (sabs r.rocd ≤ tol)) then 3
  else if t.all (fun r => decide (r.rocd < -tol)) then 1
  else 3

/-- `PerformanceTable.__post_init__` -/
def validate (tol : α) (t : List (Row α)) : Except Err Unit :=
  if (masses t).length != nMassExpected tol t then .error .massCount
  else
    let z := sub tol .cruise t
    let p := sub tol .climb t
    let n := sub tol .descend t
    if !(coverageOk z && coverageOk p && coverageOk n) then .error .coverage
    else if !(flOnlyOk z (·.tas) && flOnlyOk p (·.tas) && flOnlyOk p (·.ff)
              && flOnlyOk n (·.tas) && flOnlyOk n (·.ff) && flOnlyOk n (·.rocd)) then .error .flOnly
    else .ok ()

/-- number of masses `subset(p)` will demand when the phase is first evaluated -/
def phaseMasses : Phase → Nat
  | .descend => 1
  | _ => 3

/-- intended load-time validation (open finding): every phase that is present has the mass count its
    extraction will require. -/
def validateIntended (tol : α) (t : List (Row α)) : Except Err Unit :=
  match validate tol t with
  | .error e => .error e
  | .ok () =>
    if [Phase.cruise, Phase.climb, Phase.descend].all
        (fun p => (sub tol p t).isEmpty || (masses (sub tol p t)).length == phaseMasses p)
    then .ok () else .error .massCount

/-- value array entry for flight level `f`, mass `m` (2-D case): last matching row wins, `np.zeros` otherwise -/
def cell (s : List (Row α)) (field : Row α → α) (f m : α) : α :=
  match s.reverse.find? (fun r => seq r.fl f && seq r.mass m) with
  | some r => field r
  | none => zero

/-- value array entry for flight level `f` (1-D case, rows sorted by flight level) -/
def cell1 (s : List (Row α)) (field : Row α → α) (f : α) : α :=
  match s.find? (fun r => seq r.fl f) with
  | some r => field r
  | none => zero

/-- scipy `find_interval_ascending` for an in-bounds `x`: neighbouring grid coordinates
    (first interval whose upper end exceeds `x`, else the last interval). -/
def bracket : List α → α → α × α
  | g0 :: g1 :: gs, x => if x < g1 || gs.isEmpty then (g0, g1) else bracket (g1 :: gs) x
  | [g0], _ => (g0, g0)
  | [], _ => (zero, zero)

/-- `grid[0] <= x <= grid[-1]` (`bounds_error=True`) -/
def inBounds (g : List α) (x : α) : Bool :=
  match g.head?, g.getLast? with
  | some a, some b => decide (a ≤ x) && decide (x ≤ b)
  | _, _ => false

/-- normalised distance inside the bracket -/
def ndist (b : α × α) (x : α) : α := (x - b.1) / (b.2 - b.1)

/-- 1-D `interpn` (`_evaluate_linear`): `values[i]*(1-y) + values[i+1]*y` -/
def interp1 (g : List α) (v : α → α) (x : α) : Except Err α :=
  if !inBounds g x then .error .oobFl
  else if g.length == 1 then
    let g0 := (bracket g x).1
    .ok (v g0 * (one - zero) + v g0 * zero)
  else
    let b := bracket g x
    let y := ndist b x
    .ok (v b.1 * (one - y) + v b.2 * y)

/-- the bilinear piece on the cell `bx × by` (scipy `evaluate_linear_2d`, operation order kept) -/
def bilin (v : α → α → α) (bx bm : α × α) (x m : α) : α :=
  let t0 := ndist bx x
  let t1 := ndist bm m
  zero + v bx.1 bm.1 * (one - t0) * (one - t1) + v bx.1 bm.2 * (one - t0) * t1
       + v bx.2 bm.1 * t0 * (one - t1) + v bx.2 bm.2 * t0 * t1

/-- 2-D `interpn` (mass grid has ≥ 2 points; a single flight level is scipy's length-one-axis special case) -/
def interp2 (gx gm : List α) (v : α → α → α) (x m : α) : Except Err α :=
  if !inBounds gx x then .error .oobFl
  else if !inBounds gm m then .error .oobMass
  else
    let bm := bracket gm m
    if gx.length == 1 then
      let f0 := (bracket gx x).1
      let t1 := ndist bm m
      .ok (v f0 bm.1 * (one - t1) + v f0 bm.2 * t1)
    else
      .ok (bilin v (bracket gx x) bm x m)

/-- `Interpolator(df)` for one phase: coordinates + the validated sub-table it reads its values from -/
structure Prepared (α : Type) where
  s : List (Row α)
  F : List α
  M : List α

/-- `self.subset(rocd)` (constructs a `PerformanceTable`, so `__post_init__` runs) then `Interpolator(...)` -/
def prep (tol : α) (t : List (Row α)) (p : Phase) : Except Err (Prepared α) :=
  let s := sub tol p t
  match validate tol s with
  | .error e => .error e
  | .ok () => .ok ⟨s, fls s, masses s⟩

/-- one field through `Interpolator.__call__` -/
def interpField (pr : Prepared α) (field : Row α → α) (fl mass : α) : Except Err α :=
  if pr.M.length > 1 then interp2 pr.F pr.M (cell pr.s field) fl mass
  else interp1 pr.F (cell1 pr.s field) fl

def evalPrepared (pr : Prepared α) (fl mass : α) : Except Err (Perf α) :=
  match interpField pr (·.tas) fl mass with
  | .error e => .error e
  | .ok a =>
    match interpField pr (·.rocd) fl mass with
    | .error e => .error e
    | .ok b =>
      match interpField pr (·.ff) fl mass with
      | .error e => .error e
      | .ok c => .ok ⟨a, b, c⟩

/-- `'min'` / `'max'` ↦ `min(self.mass)` / `max(self.mass)` of the WHOLE table -/
def resolveMass (t : List (Row α)) : MassSpec α → α
  | .val m => m
  | .min => (masses t).head?.getD zero
  | .max => (masses t).getLast?.getD zero

/-- `PerformanceTable.interpolate` with the flight level already computed -/
def evalFL (tol : α) (t : List (Row α)) (fl : α) (ms : MassSpec α) (p : Phase) : Except Err (Perf α) :=
  match prep tol t p with
  | .error e => .error e
  | .ok pr => evalPrepared pr fl (resolveMass t ms)

/-- `LegacyPerformanceModel.evaluate(AircraftState(altitude, aircraft_mass), rules)` -/
def evaluate (tol : α) (t : List (Row α)) (alt : α) (ms : MassSpec α) (p : Phase) : Except Err (Perf α) :=
  evalFL tol t (alt * Gen.METERS_TO_FL) ms p

/-! ### the lazily filled interpolator cache `PerformanceTable._interpolators` -/

abbrev Cache (α : Type) := Phase → Option (Prepared α)

def Cache.empty : Cache α := fun _ => none

/-- one `evaluate` call against a table object whose cache is `c` -/
def evalCached (tol : α) (t : List (Row α)) (c : Cache α) (alt : α) (ms : MassSpec α) (p : Phase) :
    Except Err (Perf α) × Cache α :=
  match c p with
  | some pr => (evalPrepared pr (alt * Gen.METERS_TO_FL) (resolveMass t ms), c)
  | none =>
    match prep tol t p with
    | .error e => (.error e, c)      -- the exception leaves the dict untouched
    | .ok pr => (evalPrepared pr (alt * Gen.METERS_TO_FL) (resolveMass t ms),
                 fun q => if q = p then some pr else c q)

/-- a whole history of calls; returns every result -/
def runCached (tol : α) (t : List (Row α)) :
    Cache α → List (α × MassSpec α × Phase) → List (Except Err (Perf α))
  | _, [] => []
  | c, (alt, ms, p) :: rest =>
    let r := evalCached tol t c alt ms p
    r.1 :: runCached tol t r.2 rest

/-! ### PTF → table (`ptf_reader` conversions of the parsed numbers + `build_performance_table`) -/

/-- parsed numbers of one PTF line, in PTF units (kts, fpm, kg/min) -/
structure PtfClimb (α : Type) where
  fl : α
  tas : α
  rocdLo : α
  rocdNom : α
  rocdHi : α
  ff : α

structure PtfCruise (α : Type) where
  fl : α
  tas : α
  ffLo : α
  ffNom : α
  ffHi : α

structure PtfDescent (α : Type) where
  fl : α
  tas : α
  rocd : α
  ff : α

structure Ptf (α : Type) where
  lo : α
  nom : α
  hi : α
  climb : List (PtfClimb α)
  cruise : List (PtfCruise α)
  descent : List (PtfDescent α)

def kts (x : α) : α := x * Gen.KNOTS_TO_MPS
def fpm (x : α) : α := x * Gen.FPM_TO_MPS
def perMin (x : α) : α := x / Gen.MINUTES_TO_SECONDS

def climbRows (p : Ptf α) (r : PtfClimb α) : List (Row α) :=
  [⟨r.fl, p.lo, kts r.tas, fpm r.rocdLo, perMin r.ff⟩,
   ⟨r.fl, p.nom, kts r.tas, fpm r.rocdNom, perMin r.ff⟩,
   ⟨r.fl, p.hi, kts r.tas, fpm r.rocdHi, perMin r.ff⟩]

def cruiseRows (p : Ptf α) (r : PtfCruise α) : List (Row α) :=
  [⟨r.fl, p.lo, kts r.tas, zero, perMin r.ffLo⟩,
   ⟨r.fl, p.nom, kts r.tas, zero, perMin r.ffNom⟩,
   ⟨r.fl, p.hi, kts r.tas, zero, perMin r.ffHi⟩]

def descentRow (p : Ptf α) (r : PtfDescent α) : Row α :=
  ⟨r.fl, p.nom, kts r.tas, fpm (-r.rocd), perMin r.ff⟩

/-- rows before sorting -/
def buildRowsUnsorted (p : Ptf α) : List (Row α) :=
  p.climb.flatMap (climbRows p) ++ p.cruise.flatMap (cruiseRows p) ++ p.descent.map (descentRow p)

/-- `key=lambda x: (x[1], x[0], -x[3])` compared lexicographically -/
def rowKeyLe (a b : Row α) : Bool :=
  if a.mass < b.mass then true else if b.mass < a.mass then false
  else if a.fl < b.fl then true else if b.fl < a.fl then false
  else decide (-a.rocd ≤ -b.rocd)

/-- `build_performance_table(ptf)['data']` -/
def buildRows (p : Ptf α) : List (Row α) := (buildRowsUnsorted p).mergeSort rowKeyLe

end

/-! ### driver ops -/
open Aeic.Wire

def getRow (j : Json) : Except String (Row Float) := do
  match ← getFs j with
  | [a, b, c, d, e] => pure ⟨a, b, c, d, e⟩
  | _ => throw "row needs 5 numbers (fl, mass, tas, rocd, ff)"

def putRow (r : Row Float) : Json := putFs [r.fl, r.mass, r.tas, r.rocd, r.ff]

def getPhase (j : Json) : Except String Phase := do
  match ← getStr j with
  | "climb" => pure .climb
  | "cruise" => pure .cruise
  | "descend" => pure .descend
  | s => throw s!"bad phase {s}"

def putRes (r : Except Err (Perf Float)) : Json :=
  match r with
  | .ok p => obj [("ok", putFs [p.tas, p.rocd, p.ff])]
  | .error e => obj [("refused", Json.str e.name)]

def putUnit (r : Except Err Unit) : Json :=
  match r with
  | .ok _ => Json.str "ok"
  | .error e => Json.str ("refused:" ++ e.name)

/-- query = `[alt_bits, massKind ("val"|"min"|"max"), mass_bits, phase]` -/
def getQuery (j : Json) : Except String (Float × MassSpec Float × Phase) := do
  let a ← getArr j
  if h : a.size = 4 then
    let alt ← getF a[0]
    let kind ← getStr a[1]
    let m ← getF a[2]
    let p ← getPhase a[3]
    let ms ← match kind with
      | "val" => pure (MassSpec.val m)
      | "min" => pure MassSpec.min
      | "max" => pure MassSpec.max
      | s => throw s!"bad mass kind {s}"
    pure (alt, ms, p)
  else throw "query needs 4 entries"

def handle (op : String) (j : Json) : Except String Json := do
  match op with
  | "consts" =>
    pure (obj [("METERS_TO_FL", putF (Gen.METERS_TO_FL : Float)), ("FL_TO_METERS", putF (Gen.FL_TO_METERS : Float)),
               ("KNOTS_TO_MPS", putF (Gen.KNOTS_TO_MPS : Float)), ("FPM_TO_MPS", putF (Gen.FPM_TO_MPS : Float)),
               ("MINUTES_TO_SECONDS", putF (Gen.MINUTES_TO_SECONDS : Float))])
  | "load" =>
    let tol ← getF (← field j "tol")
    let rows ← getList getRow (← field j "rows")
    pure (obj [("asis", putUnit (validate tol rows)), ("intended", putUnit (validateIntended tol rows))])
  | "eval" =>
    -- fresh evaluation of every query (the pure function)
    let tol ← getF (← field j "tol")
    let rows ← getList getRow (← field j "rows")
    let qs ← getList getQuery (← field j "queries")
    let preps := fun (p : Phase) => prep tol rows p
    let pc := preps .climb; let pz := preps .cruise; let pd := preps .descend
    let res := qs.map fun (alt, ms, p) =>
      let pr := match p with | .climb => pc | .cruise => pz | .descend => pd
      match pr with
      | .error e => (Except.error e : Except Err (Perf Float))
      | .ok pr => evalPrepared pr (alt * Gen.METERS_TO_FL) (resolveMass rows ms)
    pure (Json.arr (res.map putRes).toArray)
  | "history" =>
    -- the stateful model: one table object, a sequence of calls
    let tol ← getF (← field j "tol")
    let rows ← getList getRow (← field j "rows")
    let qs ← getList getQuery (← field j "queries")
    pure (Json.arr ((runCached tol rows Cache.empty qs).map putRes).toArray)
  | "build" =>
    let lo ← getF (← field j "lo"); let nom ← getF (← field j "nom"); let hi ← getF (← field j "hi")
    let cl ← getList getFs (← field j "climb")
    let cr ← getList getFs (← field j "cruise")
    let de ← getList getFs (← field j "descent")
    let climb ← cl.mapM fun
      | [a, b, c, d, e, f] => pure (⟨a, b, c, d, e, f⟩ : PtfClimb Float)
      | _ => throw "climb row needs 6 numbers"
    let cruise ← cr.mapM fun
      | [a, b, c, d, e] => pure (⟨a, b, c, d, e⟩ : PtfCruise Float)
      | _ => throw "cruise row needs 5 numbers"
    let descent ← de.mapM fun
      | [a, b, c, d] => pure (⟨a, b, c, d⟩ : PtfDescent Float)
      | _ => throw "descent row needs 4 numbers"
    pure (Json.arr ((buildRows ⟨lo, nom, hi, climb, cruise, descent⟩).map putRow).toArray)
  | _ => throw s!"unknown c06 op {op}"

end Aeic.PerfTable
