/-
  List readings of the numpy / scipy array operations that the *vector* kernels of the translator use
  (`harness/common/pykern.py`, third generation): slices `x[1:]`, `x[:-1]`, `x[::-1]`, `x[a:b]`, element reads `x[0]`,
  `x[-1]`, slice stores `x[1:] = y`, `x[:-1] = y`, `x[:a] = 0`, `x[b:] = 0`, `np.zeros_like`, `np.sum`, `np.broadcast_to`,
  `scipy.integrate.cumulative_trapezoid(y, dx=…)`, element reads `x[k]`, `np.concatenate` (`++`), `np.array([a, …])` (a list).  Pointwise arithmetic on arrays is translated to `List.map` /
  `List.zipWith` directly.  Shape agreement (which numpy checks at run time and refuses otherwise) is a precondition of the
  reading: on lists of unequal length `zipWith` truncates where numpy raises.
  No Mathlib import: linked into the driver.
-/
import AeicModel.Scalar

namespace Aeic.Vec
open Aeic

section
variable {α : Type} [Add α] [Sub α] [Mul α] [Div α] [Neg α] [LT α] [LE α]
  [DecidableLT α] [DecidableLE α] [Lit α]

/-- `x[0]` -/
def head0 (x : List α) : α := x.headD (Lit.dec 0 0)
/-- `x[-1]` -/
def last0 (x : List α) : α := x.getLastD (Lit.dec 0 0)
/-- `x[1:] = y` (numpy requires `len y = len x − 1`; on an empty `x` the slice is empty and nothing is stored) -/
def setTail (x y : List α) : List α :=
  match x with
  | [] => []
  | h :: _ => h :: y
/-- `x[:-1] = y` (numpy requires `len y = len x − 1`; on an empty `x` nothing is stored) -/
def setInit (x y : List α) : List α :=
  match x with
  | [] => []
  | _ :: _ => y ++ [last0 x]
/-- `x[0] = v` (on an empty `x` numpy raises `IndexError`; the reading leaves it empty) -/
def setHead (x : List α) (v : α) : List α :=
  match x with
  | [] => []
  | _ :: t => v :: t
/-- `np.zeros_like(x)` -/
def zerosLike (x : List α) : List α := x.map (fun _ => (Lit.dec 0 0 : α))
/-- `x[a:b]` for `0 ≤ a`, `0 ≤ b` -/
def slice (a b : Nat) (x : List α) : List α := (x.take b).drop a
/-- `x[:a] = 0` -/
def zeroPrefix (a : Nat) (x : List α) : List α := (x.take a).map (fun _ => (Lit.dec 0 0 : α)) ++ x.drop a
/-- `x[b:] = 0` -/
def zeroFrom (b : Nat) (x : List α) : List α := x.take b ++ (x.drop b).map (fun _ => (Lit.dec 0 0 : α))
/-- `np.sum(x)` (exact-arithmetic reading: left to right) -/
def sum (x : List α) : α := lsum x
/-- `np.broadcast_to(s, (n,))` of a scalar -/
def bcast (s : α) (n : Nat) : List α := List.replicate n s

def interpGo (x : α) (x0 y0 : α) : List α → List α → α
  | x1 :: xs, y1 :: ys =>
    if x < x1 then (if x ≤ x0 then y0 else (y1 - y0) / (x1 - x0) * (x - x0) + y0)
    else interpGo x x1 y1 xs ys
  | _, _ => y0

/-- `np.interp(x, xs, ys)` for an ascending table `xs` (clamped outside the table) -/
def interp (x : α) : List α → List α → α
  | x0 :: xs, y0 :: ys =>
    if x < x0 then y0
    else if x0 ≤ x then interpGo x x0 y0 xs ys
    else x   -- unreachable in a total order; on Float this is numpy's NaN pass-through
  | _, _ => Lit.dec 0 0

/-- the terms `d * (y[k+1] + y[k]) / 2` of `scipy.integrate.cumulative_trapezoid(y, dx=d)`, `d` an array -/
def trapTerms : List α → List α → List α
  | y0 :: y1 :: ys, d :: ds => ((d * (y1 + y0)) / (Lit.dec 2 0 : α)) :: trapTerms (y1 :: ys) ds
  | _, _ => []

/-- `np.cumsum` started from the accumulator -/
def cumsumFrom (acc : α) : List α → List α
  | [] => []
  | t :: ts => (acc + t) :: cumsumFrom (acc + t) ts

/-- `cumulative_trapezoid(y, dx=d)` with an array of segment lengths -/
def cumtrapz (y d : List α) : List α := cumsumFrom (Lit.dec 0 0 : α) (trapTerms y d)

/-- `cumulative_trapezoid(y, dx=d)` with one scalar segment length -/
def cumtrapzS (y : List α) (d : α) : List α := cumtrapz y (bcast d (y.length - 1))

/-- pointwise function of three arrays (numpy refuses unequal shapes; the reading truncates) -/
def zipWith3 {β γ δ ε : Type} (f : β → γ → δ → ε) : List β → List γ → List δ → List ε
  | a :: as, b :: bs, c :: cs => f a b c :: zipWith3 f as bs cs
  | _, _, _ => []

/-- `x[k]` for a length-typed index (numpy raises `IndexError` past the end; the reading gives 0 there) -/
def getAt (x : List α) (k : Nat) : α := x.getD k (Lit.dec 0 0)

end

/-- an uninterpreted four-argument function of the source (a library call), given to the driver as the table of the calls the
    implementation made: `[a, b, c, d, result, a, b, c, d, result, …]`; bit-exact lookup, `NaN` for a call that was not made -/
def tableFn4 : List Float → Float → Float → Float → Float → Float
  | a' :: b' :: c' :: d' :: r :: rest, a, b, c, d =>
    if a'.toBits == a.toBits && b'.toBits == b.toBits && c'.toBits == c.toBits && d'.toBits == d.toBits then r
    else tableFn4 rest a b c d
  | _, _, _, _, _ => 0.0 / 0.0
end Aeic.Vec
