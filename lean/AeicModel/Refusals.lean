/-
  Dispatch sites of the emissions code (C11): the functions that select behaviour by a method option and end in a refusal, as
  read from the source by `harness/common/dispprog.py` (`Generated/Refusals.lean`).  No Mathlib import.
-/
namespace Aeic.Refusals

structure Site where
  file : String
  func : String
  option : String            -- the option the function dispatches on
  handled : List String      -- the option VALUES the function mentions (cases and comparisons)
  named : List String        -- the options the refusing statement mentions: what the error names
  exc : String
deriving Repr, DecidableEq

/-- the refusal of a site names the option it dispatches on, and nothing else -/
def namesOwnOption (s : Site) : Bool := s.named == [s.option]

/-- documented values of the option that the site does not handle: for these the refusal is reachable -/
def unhandled (values : List String) (s : Site) : List String := values.filter (fun v => !s.handled.contains v)

end Aeic.Refusals
