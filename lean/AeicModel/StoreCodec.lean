/-
  C03 — model of the trajectory-store codec (AEIC/trajectories/store.py:
  `_write_to_nc_var`, `_read_from_nc_var`, `_create_dimensions`, the species list of `_create` /
  `create_associated`, the point-count inference of `_load_trajectory`, `_retrieve_nc_species_values`,
  and AEIC/storage/field_sets.py: `FieldMetadata.digest_info`, `FieldSet.digest`, the digest checks of
  `_open_nc_file`).

  NetCDF is abstracted as a typed array store with fill values: a variable row for one trajectory is
  a block of cells (`Cells`); a cell that was never written reads as the field's `blank`
  (numeric types: the NetCDF default fill value; `str`: the empty string; variable-length cells: the
  empty array).  Values are opaque (`ν`, decidable equality) — no arithmetic happens in the codec.
  Species are positions in the regenerated `Aeic.Gen.speciesOrder`, thrust modes positions in
  `Aeic.Gen.thrustModeOrder`.

  The model follows the code *after* the `fix:` commits of branch b-c03 (species slot = position in
  the file's species list on both sides; the reader keeps only species whose cells were written;
  an unset optional thrust-mode field reads back as `None`; point count taken from the first
  point field that holds data).  The pre-fix behaviour of the two small defective pieces is kept in
  `namespace AsIs` for the negation witnesses that the corpus replays.
  Open findings keep both variants through `Policy`.
-/
import AeicModel.Wire
import AeicModel.Generated.Constants
open Lean

namespace Aeic.StoreCodec

/-- the six dimension combinations of `FieldMetadata.dimensions` (trajectory always present) -/
inductive Shape | T | TP | TM | TS | TSP | TSM
  deriving DecidableEq, Repr, Inhabited

/-- what the codec needs to know about one field -/
structure FieldMeta (ν : Type) where
  shape : Shape
  required : Bool
  /-- what a never-written scalar cell of this variable reads as -/
  blank : ν
  /-- the value the reader compares with to recognise "unset" (`var.get_fill_value()`); `none` for
      `str` variables, for which netCDF4 reports no fill value -/
  unsetMark : Option ν
  deriving Repr

/-- in-memory value of one field of a trajectory (`Container._data[name]`) -/
inductive FVal (ν : Type)
  | scalar (v : Option ν)                       -- T   : scalar or None
  | points (v : Option (List ν))                -- TP  : array or None
  | tm (v : Option (List ν))                    -- TM  : ThrustModeValues (total: 4 entries) or None
  | sp (m : Option (List (Nat × ν)))            -- TS  : SpeciesValues[scalar] or None
  | spPts (m : Option (List (Nat × List ν)))    -- TSP : SpeciesValues[array] or None
  | spTm (m : Option (List (Nat × List ν)))     -- TSM : SpeciesValues[ThrustModeValues] or None
  deriving DecidableEq, Repr

/-- stored cells of one field for one trajectory index -/
inductive Cells (ν : Type)
  | one (c : ν)                    -- var[index]
  | vl (c : List ν)                -- var[index] (variable-length)
  | row (cs : List ν)              -- var[index, :]   (species or thrust mode)
  | vlRow (cs : List (List ν))     -- var[index, :]   (variable-length per species)
  | grid (cs : List (List ν))      -- var[index, :, :] (species × thrust mode)
  deriving DecidableEq, Repr

inductive Err
  | requiredNone        -- ValueError  `Data field "x" is None at index i`
  | speciesNotInFile    -- ValueError  species of the value missing from the file's species dimension
  | noneSpeciesField    -- internal    `Container.species` / `.keys()` on a None species field
  | badShape            -- value does not have the field's shape (rejected at assignment, never reaches the store)
  | noPoints            -- no point field holds data
  | loadRequiredNone    -- internal    `convert_in` on load: a required field whose cells read as "unset" (TypeError)
  | indexOutOfRange     -- IndexError
  deriving DecidableEq, Repr

def Err.kind : Err → String
  | .requiredNone => "refused:required-none"
  | .speciesNotInFile => "refused:species-not-in-file"
  | .noneSpeciesField => "internal:none-species-field"
  | .badShape => "refused:shape"
  | .noPoints => "internal:no-points"
  | .loadRequiredNone => "internal:required-none-on-load"
  | .indexOutOfRange => "refused:index"

def nThrustModes : Nat := Aeic.Gen.thrustModeOrder.length
def nSpecies : Nat := Aeic.Gen.speciesOrder.length

section codec
variable {ν : Type} [DecidableEq ν]

/-- `x == var.get_fill_value()` -/
def isUnset (m : FieldMeta ν) (c : ν) : Bool := decide (m.unsetMark = some c)
/-- `all(x == var.get_fill_value())` (true for the empty array) -/
def allUnset (m : FieldMeta ν) (cs : List ν) : Bool := cs.all (isUnset m)

/-- keys of a species mapping -/
def keys {β : Type} (mp : List (Nat × β)) : List Nat := mp.map Prod.fst

/-- one row of species-indexed cells: slot `si` holds the value of species `L[si]` (blank if absent) -/
def spRow {β : Type} (L : List Nat) (blank : β) (mp : List (Nat × β)) : List β :=
  L.map (fun s => (mp.lookup s).getD blank)

/-- `_write_to_nc_var` (repaired): the cells written for one field at one trajectory index, starting
    from never-written cells. `L` = the file's species list. -/
def encodeField (L : List Nat) (m : FieldMeta ν) (v : FVal ν) : Except Err (Cells ν) :=
  let none_ (c : Cells ν) : Except Err (Cells ν) := if m.required then .error .requiredNone else .ok c
  let inFile {β : Type} (mp : List (Nat × β)) : Bool := (keys mp).all (fun s => L.contains s)
  match m.shape, v with
  | .T, .scalar none => none_ (.one m.blank)
  | .T, .scalar (some x) => .ok (.one x)
  | .TP, .points none => none_ (.vl [])
  | .TP, .points (some xs) => .ok (.vl xs)
  | .TM, .tm none => none_ (.row (List.replicate nThrustModes m.blank))
  | .TM, .tm (some xs) => .ok (.row xs)
  | .TS, .sp none => none_ (.row (L.map fun _ => m.blank))
  | .TS, .sp (some mp) =>
      if inFile mp then .ok (.row (spRow L m.blank mp)) else .error .speciesNotInFile
  | .TSP, .spPts none => none_ (.vlRow (L.map fun _ => []))
  | .TSP, .spPts (some mp) =>
      if inFile mp then .ok (.vlRow (spRow L [] mp)) else .error .speciesNotInFile
  | .TSM, .spTm none => none_ (.grid (L.map fun _ => List.replicate nThrustModes m.blank))
  | .TSM, .spTm (some mp) =>
      if inFile mp then .ok (.grid (spRow L (List.replicate nThrustModes m.blank) mp))
      else .error .speciesNotInFile
  | _, _ => .error .badShape

/-- `_read_from_nc_var` (repaired) followed by the `None` handling of `FieldMetadata.convert_in` -/
def decodeField (L : List Nat) (m : FieldMeta ν) (c : Cells ν) : FVal ν :=
  match m.shape, c with
  | .T, .one x => .scalar (if isUnset m x then none else some x)
  | .TP, .vl xs =>
      -- an empty array in a required field is the data of a trajectory without points (repaired); in an optional field it
      -- cannot be told apart from "never set"
      .points (if xs.isEmpty then (if m.required then some xs else none) else if allUnset m xs then none else some xs)
  | .TM, .row xs => .tm (if allUnset m xs then none else some xs)
  | .TS, .row xs => .sp (some ((L.zip xs).filter fun p => !isUnset m p.2))
  | .TSP, .vlRow xss => .spPts (some ((L.zip xss).filter fun p => !allUnset m p.2))
  | .TSM, .grid xss => .spTm (some ((L.zip xss).filter fun p => !allUnset m p.2))
  | _, _ => .scalar none

/-- the reader of per-point arrays before the zero-point repair: `all(x == fill)` is true of the empty array, so the data of
    a trajectory without points read as "unset" in every field and no field gave the point count -/
def decodePointsPreZeroFix (m : FieldMeta ν) (xs : List ν) : FVal ν :=
  .points (if allUnset m xs then none else some xs)

/-- the hypothesis `fits` of the property for one field: the value has the field's shape, arrays have
    the trajectory's point count, thrust-mode values are total, species are those of the file (in file
    order, no duplicates), and **nothing stored is indistinguishable from "never written"**. -/
def fitsField (npoints : Nat) (L : List Nat) (m : FieldMeta ν) (v : FVal ν) : Bool :=
  let blankIsUnset : Bool := decide (m.unsetMark = some m.blank)
  match m.shape, v with
  | .T, .scalar none => !m.required && blankIsUnset
  | .T, .scalar (some x) => !isUnset m x
  | .TP, .points none => !m.required
  | .TP, .points (some xs) => xs.length == npoints && (if xs.isEmpty then m.required else !allUnset m xs)
  | .TM, .tm none => !m.required && blankIsUnset
  | .TM, .tm (some xs) => xs.length == nThrustModes && !allUnset m xs
  | .TS, .sp (some mp) =>
      (keys mp).isSublist L && blankIsUnset && mp.all fun p => !isUnset m p.2
  | .TSP, .spPts (some mp) =>
      (keys mp).isSublist L && mp.all fun p => p.2.length == npoints && !allUnset m p.2
  | .TSM, .spTm (some mp) =>
      (keys mp).isSublist L && blankIsUnset
        && mp.all fun p => p.2.length == nThrustModes && !allUnset m p.2
  | _, _ => false

/-! ### rows (all fields of the field sets of one file, one trajectory) -/

def encodeRow (L : List Nat) : List (FieldMeta ν) → List (FVal ν) → Except Err (List (Cells ν))
  | [], [] => .ok []
  | m :: ms, v :: vs =>
      match encodeField L m v with
      | .error e => .error e
      | .ok c => match encodeRow L ms vs with
        | .error e => .error e
        | .ok cs => .ok (c :: cs)
  | _, _ => .error .badShape

def decodeRow (L : List Nat) : List (FieldMeta ν) → List (Cells ν) → List (FVal ν)
  | m :: ms, c :: cs => decodeField L m c :: decodeRow L ms cs
  | _, _ => []

def isNoneVal : FVal ν → Bool
  | .scalar none | .points none | .tm none | .sp none | .spPts none | .spTm none => true
  | _ => false

/-- `FieldMetadata.convert_in` as applied by `_load_trajectory` (`setattr(traj, k, v)`): `None` is only
    acceptable for an optional field; values already have the field's type (casts are the identity). -/
def convertIn (m : FieldMeta ν) (v : FVal ν) : Except Err (FVal ν) :=
  if m.required && isNoneVal v then .error .loadRequiredNone else .ok v

/-- read every field of a row, then assign it to the new trajectory -/
def loadRow (L : List Nat) : List (FieldMeta ν) → List (Cells ν) → Except Err (List (FVal ν))
  | m :: ms, c :: cs =>
      match convertIn m (decodeField L m c) with
      | .error e => .error e
      | .ok v => match loadRow L ms cs with
        | .error e => .error e
        | .ok vs => .ok (v :: vs)
  | _, _ => .ok []

def fitsRow (npoints : Nat) (L : List Nat) : List (FieldMeta ν) → List (FVal ν) → Bool
  | [], [] => true
  | m :: ms, v :: vs => fitsField npoints L m v && fitsRow npoints L ms vs
  | _, _ => false

/-! ### species list of a file -/

/-- keys of a species-indexed value; `none` for `None` and for non-species values -/
def speciesKeys : FVal ν → Option (List Nat)
  | .sp (some mp) => some (keys mp)
  | .spPts (some mp) => some (keys mp)
  | .spTm (some mp) => some (keys mp)
  | _ => none

def isSpeciesShape : Shape → Bool
  | .TS | .TSP | .TSM => true
  | _ => false

/-- `Container.species` / the loop of `create_associated`: sorted set of the species of all
    species-indexed fields. A `None` species field is an internal error in the code as it exists
    (`noneOk = false`); the intended variant skips it. -/
def speciesOf (noneOk : Bool) (metas : List (FieldMeta ν)) (vals : List (FVal ν)) : Except Err (List Nat) :=
  let sv := (metas.zip vals).filter (fun p => isSpeciesShape p.1.shape)
  if !noneOk && sv.any (fun p => (speciesKeys p.2).isNone) then .error .noneSpeciesField
  else .ok ((List.range nSpecies).filter fun s => sv.any fun p => ((speciesKeys p.2).getD []).contains s)

/-! ### point count of a loaded trajectory (`_load_trajectory`, repaired) -/

def pointsOfField : FVal ν → Option Nat
  | .points (some xs) => some xs.length
  | .spPts (some ((_, xs) :: _)) => some xs.length
  | _ => none

/-- first point field (in iteration order) that holds data -/
def inferNpoints : List (FVal ν) → Option Nat
  | [] => none
  | v :: vs => match pointsOfField v with
    | some n => some n
    | none => inferNpoints vs

/-! ### one NetCDF file: species list + rows; add = append a row; get = decode row i -/

structure File (ν : Type) where
  species : List Nat
  metas : List (FieldMeta ν)
  rows : List (List (Cells ν))

def File.add (f : File ν) (vals : List (FVal ν)) : Except Err (File ν) :=
  match encodeRow f.species f.metas vals with
  | .error e => .error e
  | .ok r => .ok { f with rows := f.rows ++ [r] }

def File.addAll (f : File ν) : List (List (FVal ν)) → Except Err (File ν)
  | [] => .ok f
  | t :: ts => match f.add t with
    | .error e => .error e
    | .ok f' => f'.addAll ts

def File.get (f : File ν) (i : Nat) : Except Err (List (FVal ν)) :=
  match f.rows[i]? with
  | none => .error .indexOutOfRange
  | some r => loadRow f.species f.metas r

/-- what survives `close()`: the species coordinate variable holds *names* -/
structure Disk (ν : Type) where
  speciesNames : List String
  metas : List (FieldMeta ν)
  rows : List (List (Cells ν))

def speciesName (s : Nat) : String := Aeic.Gen.speciesOrder.getD s "?"
/-- `Species[name]` as a position in the enum -/
def parseSpecies (n : String) : Nat := Aeic.Gen.speciesOrder.idxOf n

/-- `_create_dimensions.create_enum_dimension` writes `m.name` per slot -/
def File.persist (f : File ν) : Disk ν :=
  { speciesNames := f.species.map speciesName, metas := f.metas, rows := f.rows }
/-- `_retrieve_nc_species_values` -/
def Disk.reopen (d : Disk ν) : File ν :=
  { species := d.speciesNames.map parseSpecies, metas := d.metas, rows := d.rows }

/-! ### layouts: a store is a list of files (base :: associated), a trajectory is split likewise -/

abbrev Store (ν : Type) := List (File ν)

def Store.add : Store ν → List (List (FVal ν)) → Except Err (Store ν)
  | [], [] => .ok []
  | f :: fs, t :: ts =>
      match f.add t with
      | .error e => .error e
      | .ok f' => match Store.add fs ts with
        | .error e => .error e
        | .ok fs' => .ok (f' :: fs')
  | _, _ => .error .badShape

def Store.get : Store ν → Nat → Except Err (List (List (FVal ν)))
  | [], _ => .ok []
  | f :: fs, i => match f.get i with
    | .error e => .error e
    | .ok t => match Store.get fs i with
      | .error e => .error e
      | .ok ts => .ok (t :: ts)

/-- `create_associated`: a new file whose row `i` is `g (trajectory i)` -/
def File.mapped (species : List Nat) (metas : List (FieldMeta ν)) (results : List (List (FVal ν))) :
    Except Err (File ν) :=
  File.addAll { species := species, metas := metas, rows := [] } results

end codec

/-! ## the two small defective pieces as they were before the `fix:` commits (negation witnesses) -/
namespace AsIs
variable {ν : Type} [DecidableEq ν]

/-- pre-fix `_write_to_nc_var`, species case: `for si, sp in enumerate(Species): if sp in val:
    var[index, si] = val[sp]` — slot = position in the full enum, against a dimension of size `|L|`. -/
def writeSp (L : List Nat) (blank : ν) (mp : List (Nat × ν)) : Except String (List ν) :=
  mp.foldlM (fun row p => if p.1 < row.length then .ok (row.set p.1 p.2)
                           else .error "NetCDF: Index exceeds dimension bound")
    (L.map fun _ => blank)

/-- pre-fix `_read_from_nc_var`, species case: every file species, whatever the cell holds -/
def readSp (L : List Nat) (row : List ν) : List (Nat × ν) := L.zip row

/-- pre-fix thrust-mode read: no fill check -/
def readTm (row : List ν) : Option (List ν) := some row

end AsIs

/-! ## field-set digest (`FieldMetadata.digest_info`, `FieldSet.digest`) and the open-time checks -/

structure FieldDef where
  name : String
  dims : String        -- Dimensions.abbrev
  ftype : String       -- field_type.__name__
  desc : String
  units : String
  required : Bool
  default : Option String
  deriving DecidableEq, Repr

def digestInfo (f : FieldDef) : String :=
  ",".intercalate [f.dims, f.ftype, f.desc, f.units, if f.required then "req" else "opt",
                   f.default.getD "nodefault"]

/-- the text that is MD5-hashed: `name:` ++ `;`-joined `field=digest_info` in sorted field-name order -/
def digestString (fsName : String) (fields : List FieldDef) : String :=
  let sorted := fields.mergeSort (fun a b => !(b.name < a.name))
  fsName ++ ":" ++ ";".intercalate (sorted.map fun f => f.name ++ "=" ++ digestInfo f)

/-- `_open_nc_file`: every (field-set name, stored hash) must equal the hash of the registry's
    definition; `hash` is the MD5 oracle, `registry` gives the digest text of the registered set. -/
def openAccepts (hash : String → String) (registry : String → Option String)
    (stored : List (String × String)) : Bool :=
  stored.all fun p => match registry p.1 with
    | none => false
    | some txt => decide (hash txt = p.2)

/-- id hash of a file = hash of the concatenated field-set hashes; an associated file records the
    base file's id hash and is refused when it differs. -/
def idHash (hash : String → String) (fsHashes : List String) : String := hash (String.join fsHashes)

def associatedAccepts (hash : String → String) (baseHashes : List String) (recorded : String) : Bool :=
  decide (idHash hash baseHashes = recorded)

/-! ## wire -/
open Aeic.Wire

def shapeOfStr : String → Except String Shape
  | "T" => pure .T | "TP" => pure .TP | "TM" => pure .TM
  | "TS" => pure .TS | "TSP" => pure .TSP | "TSM" => pure .TSM
  | s => throw s!"bad shape {s}"

def getSpecies (j : Json) : Except String Nat := do
  let n ← getStr j
  let i := Aeic.Gen.speciesOrder.idxOf n
  if i < nSpecies then pure i else throw s!"unknown species {n}"

def getMeta (j : Json) : Except String (FieldMeta String) := do
  let shape ← shapeOfStr (← getStr (← field j "shape"))
  let req ← getBool (← field j "req")
  let blank ← getStr (← field j "blank")
  let unset ← match optField j "unset" with
    | none => pure none
    | some u => do pure (some (← getStr u))
  pure { shape := shape, required := req, blank := blank, unsetMark := unset }

def getPair {β} (f : Json → Except String β) (j : Json) : Except String (Nat × β) := do
  let a ← getArr j
  match a.toList with
  | [s, v] => do pure (← getSpecies s, ← f v)
  | _ => throw "pair expected"

def getFVal (j : Json) : Except String (FVal String) := do
  let k ← getStr (← field j "k")
  let v := optField j "v"
  match k, v with
  | "scalar", none => pure (.scalar none)
  | "scalar", some x => do pure (.scalar (some (← getStr x)))
  | "points", none => pure (.points none)
  | "points", some x => do pure (.points (some (← getStrs x)))
  | "tm", none => pure (.tm none)
  | "tm", some x => do pure (.tm (some (← getStrs x)))
  | "sp", none => pure (.sp none)
  | "sp", some x => do pure (.sp (some (← getList (getPair getStr) x)))
  | "spPts", none => pure (.spPts none)
  | "spPts", some x => do pure (.spPts (some (← getList (getPair getStrs) x)))
  | "spTm", none => pure (.spTm none)
  | "spTm", some x => do pure (.spTm (some (← getList (getPair getStrs) x)))
  | k, _ => throw s!"bad value kind {k}"

def putSpecies (s : Nat) : Json := Json.str (speciesName s)
def putOpt {β} (f : β → Json) : Option β → Json
  | none => Json.null
  | some x => f x
def putPairs {β} (f : β → Json) (mp : List (Nat × β)) : Json :=
  Json.arr (mp.map fun p => Json.arr #[putSpecies p.1, f p.2]).toArray

def putFVal : FVal String → Json
  | .scalar v => obj [("k", "scalar"), ("v", putOpt Json.str v)]
  | .points v => obj [("k", "points"), ("v", putOpt putStrs v)]
  | .tm v => obj [("k", "tm"), ("v", putOpt putStrs v)]
  | .sp v => obj [("k", "sp"), ("v", putOpt (putPairs Json.str) v)]
  | .spPts v => obj [("k", "spPts"), ("v", putOpt (putPairs putStrs) v)]
  | .spTm v => obj [("k", "spTm"), ("v", putOpt (putPairs putStrs) v)]

def putCells : Cells String → Json
  | .one c => obj [("k", "one"), ("c", Json.str c)]
  | .vl c => obj [("k", "vl"), ("c", putStrs c)]
  | .row cs => obj [("k", "row"), ("c", putStrs cs)]
  | .vlRow cs => obj [("k", "vlRow"), ("c", Json.arr (cs.map putStrs).toArray)]
  | .grid cs => obj [("k", "grid"), ("c", Json.arr (cs.map putStrs).toArray)]

structure FileSpec where
  metas : List (FieldMeta String)
  /-- true: file made by `create_associated` (species from its own fields of the first result);
      false: file made by `_create` (species of the whole first trajectory) -/
  own : Bool

/-- whole-store run: species lists from the first trajectory, then per trajectory and file
    encode → cells → decode; `fits` evaluated against the file's species list. -/
def runStore (noneOk allSpecies : Bool) (files : List FileSpec)
    (trajs : List (Nat × List (List (FVal String)))) : Except String Json := do
  -- (metas, values) per file from which the species list is taken: the first trajectory (code as it
  -- exists) or all trajectories (intended variant of the open finding "species dimension fixed by the
  -- first trajectory")
  let srcTrajs := if allSpecies then trajs else trajs.take 1
  let first : List (List (FieldMeta String) × List (FVal String)) :=
    files.mapIdx fun i f =>
      (srcTrajs.flatMap (fun _ => f.metas), srcTrajs.flatMap (fun t => (t.2)[i]?.getD []))
  let shared := (files.zip first).filter (fun p => !p.1.own)
  let sharedL := speciesOf noneOk (shared.flatMap (·.2.1)) (shared.flatMap (·.2.2))
  let Ls : List (Except Err (List Nat)) := (files.zip first).map fun p =>
    if p.1.own then speciesOf noneOk p.2.1 p.2.2 else sharedL
  let putL (l : Except Err (List Nat)) : Json := match l with
    | .ok L => obj [("ok", Json.arr (L.map putSpecies).toArray)]
    | .error e => obj [("err", Json.str e.kind)]
  let outT := trajs.map fun (np, t) =>
    let perFile := ((files.zip Ls).zip t).map fun ((f, l), vals) =>
      match l with
      | .error e => obj [("err", Json.str e.kind)]
      | .ok L =>
        let fit := fitsRow np L f.metas vals
        match encodeRow L f.metas vals with
        | .error e => obj [("err", Json.str e.kind), ("fits", Json.bool fit)]
        | .ok cells =>
          let back := decodeRow L f.metas cells
          let load : Json := match loadRow L f.metas cells with
            | .ok _ => Json.null
            | .error e => Json.str e.kind
          obj [("cells", Json.arr (cells.map putCells).toArray),
               ("back", Json.arr (back.map putFVal).toArray),
               ("load", load),
               ("fits", Json.bool fit),
               ("same", Json.bool (decide (back = vals)))]
    let allVals := t.flatten
    obj [("files", Json.arr perFile.toArray),
         ("npoints", putOpt putNat (inferNpoints allVals))]
  pure (obj [("species", Json.arr (Ls.map putL).toArray), ("trajs", Json.arr outT.toArray)])

def getFieldDef (j : Json) : Except String FieldDef := do
  let d ← match optField j "default" with
    | none => pure none
    | some u => do pure (some (← getStr u))
  pure { name := ← getStr (← field j "name"), dims := ← getStr (← field j "dims"),
         ftype := ← getStr (← field j "ftype"), desc := ← getStr (← field j "desc"),
         units := ← getStr (← field j "units"), required := ← getBool (← field j "req"), default := d }

def handle (op : String) (j : Json) : Except String Json :=
  match op with
  | "store" => do
      let noneOk := (fieldD j "none_ok" (Json.bool false)).getBool?.toOption.getD false
      let files ← getList (fun fj => do
        let metas ← getList getMeta (← field fj "metas")
        let own ← getBool (← field fj "own")
        pure ({ metas := metas, own := own } : FileSpec)) (← field j "files")
      let trajs ← getList (fun tj => do
        let np ← getNat (← field tj "npoints")
        let vs ← getList (getList getFVal) (← field tj "files")
        pure (np, vs)) (← field j "trajs")
      let allSp := (fieldD j "all_species" (Json.bool false)).getBool?.toOption.getD false
      runStore noneOk allSp files trajs
  | "asis_sp" => do
      -- pre-fix species write + read of one TS field (negation-witness replay)
      let L ← getList getSpecies (← field j "species")
      let blank ← getStr (← field j "blank")
      let mp ← getList (getPair getStr) (← field j "v")
      match AsIs.writeSp L blank mp with
      | .error e => pure (obj [("err", Json.str e)])
      | .ok row => pure (obj [("back", putPairs Json.str (AsIs.readSp L row))])
  | "digest" => do
      let name ← getStr (← field j "name")
      let fields ← getList getFieldDef (← field j "fields")
      pure (Json.str (digestString name fields))
  | "species_names" => do
      let L ← getList getSpecies (← field j "species")
      let f : File String := { species := L, metas := [], rows := [] }
      pure (obj [("names", putStrs f.persist.speciesNames),
                 ("back", Json.arr (f.persist.reopen.species.map putSpecies).toArray)])
  | _ => throw s!"unknown c03 op {op}"

end Aeic.StoreCodec
