/-
  Model of the AEIC configuration singleton (C18): `Config.load / get / reset`, the proxy, frozen models, and the
  recursive overlay `deep_update`.

  `load` is modelled as the sequence of stages it really goes through — read/parse the file, pydantic field validation
  of the merged data, then the model's after-validators in definition order — with the point at which the module-level
  singleton is assigned as a parameter: `Variant.fixed` (the code as it exists after the `fix:` commit: assigned after
  the last validator succeeded) and `Variant.asIs` (originally: assigned in a `finally` of the first validator).
-/
import AeicModel.Wire
open Lean

namespace Aeic.Config

/-! ### overlay of nested dictionaries -/

inductive Tree
  | leaf (v : String)
  | node (kids : List (String × Tree))
deriving Repr, Inhabited

def getKey (l : List (String × Tree)) (k : String) : Option Tree :=
  match l with
  | [] => none
  | (k', t) :: rest => if k' = k then some t else getKey rest k

/-- `d[k] = t`: replace the binding if the key exists, else append it -/
def setKey (l : List (String × Tree)) (k : String) (t : Tree) : List (String × Tree) :=
  match l with
  | [] => [(k, t)]
  | (k', t') :: rest => if k' = k then (k, t) :: rest else (k', t') :: setKey rest k t

mutual
/-- `deep_update(base, overlay)` on the children lists: for each (key, value) of the overlay in order -/
def deepUpdate (base : List (String × Tree)) : List (String × Tree) → List (String × Tree)
  | [] => base
  | (k, v) :: rest =>
    let base' := match getKey base k, v with
      | some (.node bk), .node ok => setKey base k (.node (deepUpdate bk ok))
      | _, _ => setKey base k v
    deepUpdate base' rest
end

/-- follow a path of keys -/
def lookup : Tree → List String → Option Tree
  | t, [] => some t
  | .leaf _, _ :: _ => none
  | .node kids, k :: ks => match getKey kids k with
    | some t => lookup t ks
    | none => none

def leafAt (t : Tree) (p : List String) : Option String :=
  match lookup t p with
  | some (.leaf v) => some v
  | _ => none

/-- effective configuration data: packaged defaults, overlaid by the file, overlaid by keyword arguments -/
def effective (defaults file kwargs : List (String × Tree)) : List (String × Tree) :=
  deepUpdate defaults (deepUpdate file kwargs)

/-! ### the singleton state machine -/

inductive Variant | asIs | fixed
deriving DecidableEq, Repr

/-- what can go wrong in one `Config.load` call, stage by stage -/
structure LoadSpec where
  fileOk : Bool            -- the config file (if any) exists and parses as TOML
  fieldsOk : Bool          -- pydantic field validation of the merged data succeeds (types, enum values, required keys)
  normalizeOk : Bool       -- first after-validator: search-path normalisation
  resolveOk : Bool         -- second after-validator: performance model / engine file / weather directory are found
  cfg : Nat                -- identity of the configuration that would result
deriving Repr

inductive Err | notSet | alreadyInitialized | validation | fileNotFound | readError | frozen
deriving DecidableEq, Repr

inductive Out | cfg (id : Nat) | ok | err (e : Err)
deriving DecidableEq, Repr

abbrev State := Option Nat      -- the module-level `_config`: at most one active configuration, by construction

def load (v : Variant) (st : State) (l : LoadSpec) : State × Out :=
  if !l.fileOk then (st, .err .readError) else
  if !l.fieldsOk then (st, .err .validation) else
  -- after-validator 1: singleton check, then normalisation
  if st.isSome then (st, .err .alreadyInitialized) else
  match v with
  | .asIs =>
    -- `try: normalize finally: _config = self`  — the singleton is set whatever happens next
    if !l.normalizeOk then (some l.cfg, .err .fileNotFound) else
    if !l.resolveOk then (some l.cfg, .err .fileNotFound) else
    (some l.cfg, .cfg l.cfg)
  | .fixed =>
    if !l.normalizeOk then (none, .err .fileNotFound) else
    if !l.resolveOk then (none, .err .fileNotFound) else
    (some l.cfg, .cfg l.cfg)

inductive Op
  | load (l : LoadSpec)
  | get
  | reset
  | read          -- attribute read through the proxy
  | mutate        -- attribute assignment (any nesting level) through the proxy or on the object
deriving Repr

def step (v : Variant) (st : State) : Op → State × Out
  | .load l => load v st l
  | .get => match st with | some c => (st, .cfg c) | none => (st, .err .notSet)
  | .reset => (none, .ok)
  | .read => match st with | some c => (st, .cfg c) | none => (st, .err .notSet)
  | .mutate => match st with | some _ => (st, .err .frozen) | none => (st, .err .notSet)

def run (v : Variant) (st : State) : List Op → List Out
  | [] => []
  | op :: ops => let r := step v st op; r.2 :: run v r.1 ops

def final (v : Variant) (st : State) : List Op → State
  | [] => st
  | op :: ops => final v (step v st op).1 ops

/-! ### wire -/
open Aeic.Wire

partial def getOrderedTree (j : Json) : Except String Tree := do
  -- a node is an ordered list of [key, tree] pairs (JSON objects lose insertion order in the Lean parser)
  match j with
  | .arr a =>
    let kids ← a.toList.mapM (fun e => do
      match e with
      | .arr pr => match pr.toList with
        | [k, v] => do pure (← getStr k, ← getOrderedTree v)
        | _ => throw "bad pair"
      | _ => throw "bad pair")
    pure (.node kids)
  | .str s => pure (.leaf s)
  | other => pure (.leaf other.compress)

def getKidsJ (j : Json) : Except String (List (String × Tree)) := do
  match ← getOrderedTree j with
  | .node kids => pure kids
  | .leaf _ => throw "expected a node"

partial def treeJ : Tree → Json
  | .leaf v => Json.str v
  | .node kids => Json.arr (kids.map (fun (k, t) => Json.arr #[Json.str k, treeJ t])).toArray

def errStr : Err → String
  | .notSet => "err:not_set" | .alreadyInitialized => "err:already" | .validation => "err:validation"
  | .fileNotFound => "err:file_not_found" | .readError => "err:read" | .frozen => "err:frozen"

def outStr : Out → String
  | .cfg c => s!"cfg:{c}" | .ok => "ok" | .err e => errStr e

def getOpJ (j : Json) : Except String Op := do
  match ← getStr (← field j "op") with
  | "load" => pure (.load ⟨← getBool (← field j "file_ok"), ← getBool (← field j "fields_ok"),
                          ← getBool (fieldD j "normalize_ok" (Json.bool true)), ← getBool (← field j "resolve_ok"),
                          ← getNat (← field j "cfg")⟩)
  | "get" => pure .get
  | "reset" => pure .reset
  | "read" => pure .read
  | "mutate" => pure .mutate
  | o => throw s!"bad config op {o}"

def handle (op : String) (j : Json) : Except String Json := do
  match op with
  | "run" =>
    let ops ← getList getOpJ (← field j "ops")
    let asIs ← getBool (fieldD j "as_is" (Json.bool false))
    pure (putStrs ((run (if asIs then .asIs else .fixed) none ops).map outStr))
  | "overlay" =>
    let d ← getKidsJ (← field j "defaults")
    let f ← getKidsJ (← field j "file")
    let k ← getKidsJ (← field j "kwargs")
    pure (treeJ (.node (effective d f k)))
  | _ => throw s!"unknown config op {op}"

end Aeic.Config
