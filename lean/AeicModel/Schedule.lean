/-
  C13 — schedule import (`AEIC/missions/oag.py`, `AEIC/missions/writable_database.py`).

  Model of the code as it exists.  The two small pieces found defective on the pinned tree are selected by a
  `Variant` (`asIs` = pinned tree, `current` = branch b-c13 after the open-ended-range `fix:` commit, still with the
  swapped `GEOD.inv` arguments = open finding, `fixed` = intended):

  * calendar: CPython's proleptic-Gregorian ordinal (`datetime.date.toordinal`), ISO weekday;
  * `CSVEntry.is_row_valid` / `from_csv_row`  →  `rowFilter`, `parseRaw`;
  * `OAGDatabase.add`                         →  `add` (airports, distance rule, flight row, schedule expansion, count);
  * `WritableDatabase._add_schedule`          →  `expand` / `mkSched` (integer seconds since the Unix epoch);
  * `WritableDatabase._distance_check`        →  `distanceCheck` (generic scalar).

  Trusted, entering as parameters of `Env`: the static airport table (`AEIC.utils.airports`), the time-zone name of an
  airport (timezonefinder), the UTC offset of a naive local time in a zone (`zoneinfo`, fold = 0), the geodesic inverse
  (`pyproj.Geod.inv`, distance in metres, argument order lon, lat, lon, lat), SQLite (as append-only tables with
  `id = rowcount + 1`).  No Mathlib import: linked into `aeic_driver`.
-/
import AeicModel.Scalar
import AeicModel.Wire
import AeicModel.Generated.Constants
import Std.Data.HashMap
open Lean

namespace Aeic.Schedule

/-! ## Calendar (CPython `datetime.date`) -/

structure Date where
  y : Int
  m : Int
  d : Int
deriving DecidableEq, Repr

def isLeap (y : Int) : Bool := y % 4 == 0 && (y % 100 != 0 || y % 400 == 0)

def daysInMonth (y m : Int) : Int :=
  if m == 2 then (if isLeap y then 29 else 28)
  else if m == 4 || m == 6 || m == 9 || m == 11 then 30 else 31

/-- `_DAYS_BEFORE_MONTH[m] + (m > 2 and _is_leap(y))` -/
def daysBeforeMonth (y m : Int) : Int :=
  (if m ≤ 1 then 0 else if m == 2 then 31 else if m == 3 then 59 else if m == 4 then 90
   else if m == 5 then 120 else if m == 6 then 151 else if m == 7 then 181 else if m == 8 then 212
   else if m == 9 then 243 else if m == 10 then 273 else if m == 11 then 304 else 334)
  + (if m > 2 && isLeap y then 1 else 0)

/-- `_days_before_year` -/
def daysBeforeYear (y : Int) : Int := (y - 1) * 365 + (y - 1) / 4 - (y - 1) / 100 + (y - 1) / 400

/-- `date(y, m, d).toordinal()` (0001-01-01 ↦ 1) -/
def ordinal (t : Date) : Int := daysBeforeYear t.y + daysBeforeMonth t.y t.m + t.d

/-- days since 1970-01-01 (`date(1970,1,1).toordinal() = 719163`) -/
def epochDay (t : Date) : Int := ordinal t - 719163

/-- `date(y, m, d)` does not raise -/
def Date.valid (t : Date) : Bool :=
  1 ≤ t.y && t.y ≤ 9999 && 1 ≤ t.m && t.m ≤ 12 && 1 ≤ t.d && t.d ≤ daysInMonth t.y t.m

/-- the calendar successor (`+ timedelta(days=1)`) -/
def nextDate (t : Date) : Date :=
  if t.d < daysInMonth t.y t.m then { t with d := t.d + 1 }
  else if t.m < 12 then ⟨t.y, t.m + 1, 1⟩ else ⟨t.y + 1, 1, 1⟩

/-- lexicographic (calendar) order -/
def Date.lt (a b : Date) : Prop := a.y < b.y ∨ (a.y = b.y ∧ (a.m < b.m ∨ (a.m = b.m ∧ a.d < b.d)))

/-- `isoweekday()` of the day with epoch-day number `n` (1970-01-01 was a Thursday = 4); Monday = 1 … Sunday = 7 -/
def isoWeekday (n : Int) : Int := (n + 3) % 7 + 1

/-- number of days of a year -/
def yearLen (y : Int) : Int := if isLeap y then 366 else 365

/-- the date of year `y` with day-of-year index `k` (0-based) -/
def dateOfYearDay (y k : Int) : Date :=
  let l : Int := if isLeap y then 1 else 0
  if k < 31 then ⟨y, 1, k + 1⟩
  else if k < 59 + l then ⟨y, 2, k - 30⟩
  else if k < 90 + l then ⟨y, 3, k - (58 + l)⟩
  else if k < 120 + l then ⟨y, 4, k - (89 + l)⟩
  else if k < 151 + l then ⟨y, 5, k - (119 + l)⟩
  else if k < 181 + l then ⟨y, 6, k - (150 + l)⟩
  else if k < 212 + l then ⟨y, 7, k - (180 + l)⟩
  else if k < 243 + l then ⟨y, 8, k - (211 + l)⟩
  else if k < 273 + l then ⟨y, 9, k - (242 + l)⟩
  else if k < 304 + l then ⟨y, 10, k - (272 + l)⟩
  else if k < 334 + l then ⟨y, 11, k - (303 + l)⟩
  else ⟨y, 12, k - (333 + l)⟩

/-! ## Row filter and parsing (`CSVEntry`) -/

/-- the CSV fields the importer reads, as the strings `csv.DictReader` delivers -/
structure Raw where
  carrier : String
  fltno : String
  depapt : String
  arrapt : String
  deptim : String
  arrtim : String
  arrday : String
  days : String
  stops : String
  genacft : String
  inpacft : String
  service : String
  seats : String
  efffrom : String
  effto : String
  distance : String
  operating : String
  longest : String
deriving Repr

/-- what happened to one input row -/
inductive Outcome
  | imported
  | eof | service | stops | operating | equipment        -- `is_row_valid`
  | malformed                                             -- a field does not parse (`from_csv_row` logs and skips)
  | unknownAirport | zeroDistance | suspiciousDistance    -- `OAGDatabase.add` returned False (with a warning)
deriving DecidableEq, Repr

def Outcome.name : Outcome → String
  | .imported => "imported" | .eof => "eof" | .service => "service" | .stops => "stops"
  | .operating => "operating" | .equipment => "equipment" | .malformed => "malformed"
  | .unknownAirport => "unknown_airport" | .zeroDistance => "zero_distance"
  | .suspiciousDistance => "suspicious_distance"

def isWs (c : Char) : Bool := c == ' ' || c == '\t' || c == '\n' || c == '\r'

def parseDigits (cs : List Char) : Option Nat :=
  if cs.isEmpty then none
  else cs.foldlM (fun acc c => if c.isDigit then some (acc * 10 + (c.toNat - 48)) else none) 0

/-- Python `int(s)` on the decimal forms that occur (optional surrounding blanks, optional sign, ASCII digits) -/
def pyInt (s : String) : Option Int :=
  let cs := ((s.toList.dropWhile isWs).reverse.dropWhile isWs).reverse
  match cs with
  | '-' :: r => (parseDigits r).map (fun n => -(n : Int))
  | '+' :: r => (parseDigits r).map (fun n => (n : Int))
  | r => (parseDigits r).map (fun n => (n : Int))

def EXCLUDE_EQUIPMENT : List String := ["BUS", "HOV", "LCH", "LMO", "RFS", "TRN"]

/-- `CSVEntry.is_row_valid`: `none` = keep, `some r` = filtered for reason `r` (`malformed`: `int(stops)` raises) -/
def rowFilter (r : Raw) : Option Outcome :=
  if r.carrier == "\x1a" then some .eof
  else if r.service == "V" || r.service == "U" then some .service
  else match pyInt r.stops with
    | none => some .malformed
    | some s =>
      if s != 0 then some .stops
      else if r.operating == "N" then some .operating
      else if EXCLUDE_EQUIPMENT.contains r.genacft then some .equipment
      else none

/-- a parsed row (`CSVEntry`), times already as minutes after local midnight -/
structure Row where
  line : Nat
  carrier : String
  fltno : Int
  depapt : String
  arrapt : String
  depMin : Int
  arrMin : Int
  arrDay : Int
  days : List Int
  distance : Int
  inpacft : String
  service : String
  seats : Int
  efffrom : Option Date
  effto : Option Date
deriving Repr

/-- `make_date`: outer `none` = raises, inner `none` = open-ended -/
def makeDate (t : String) : Option (Option Date) :=
  if t == "00000000" || t == "99999999" then some none
  else match pyInt t with
    | none => none
    | some n =>
      let dt : Date := ⟨n / 10000, n % 10000 / 100, n % 100⟩
      if dt.valid then some (some dt) else none

/-- `make_time` followed by `hour * 60 + minute` (no range validation in the source) -/
def makeTime (t : String) : Option Int := (pyInt t).map (fun n => n / 100 * 60 + n % 100)

def convertArrday (t : String) : Option Int :=
  if t == "P" then some (-1) else if t == " " || t == "" then some 0 else pyInt t

/-- `str(day) in row['days']` for day 1..7 -/
def parseDays (s : String) : List Int :=
  ([1, 2, 3, 4, 5, 6, 7] : List Nat).filterMap
    (fun k => if s.toList.contains (Char.ofNat (48 + k)) then some (k : Int) else none)

/-- `CSVEntry.from_csv_row` after the filter: `none` = an exception was logged and the row skipped -/
def parseRaw (line : Nat) (r : Raw) : Option Row := do
  let fltno ← if r.fltno == "" then some 0 else pyInt r.fltno
  let depMin ← makeTime r.deptim
  let arrMin ← makeTime r.arrtim
  let arrDay ← convertArrday r.arrday
  let distance ← pyInt r.distance
  let seats ← pyInt r.seats
  let efffrom ← makeDate r.efffrom
  let effto ← makeDate r.effto
  let _ ← pyInt r.stops
  pure { line, carrier := r.carrier, fltno, depapt := r.depapt, arrapt := r.arrapt, depMin, arrMin, arrDay,
         days := parseDays r.days, distance, inpacft := r.inpacft, service := r.service, seats, efffrom, effto }

/-! ## Distance rule (`_distance_check`), generic scalar -/

inductive DistResult
  | ok | zero | suspicious
deriving DecidableEq, Repr

section Dist
variable {α : Type} [Add α] [Sub α] [Mul α] [Div α] [Neg α] [LT α] [LE α]
  [DecidableLT α] [DecidableLE α] [Lit α]

/-- `gcKm`: computed great-circle distance, `given`: stated distance, both km -/
def distanceCheck (gcKm given : α) : DistResult :=
  if gcKm < d% 1.0 then .zero
  else if (d% 0 : α) < given then
    let absDiff : α := sabs (given - gcKm)
    let pct : α := d% 100 * absDiff / gcKm
    if (d% 50.0 : α) < absDiff ∧ (d% 10.0 : α) < pct then .suspicious else .ok
  else .ok

end Dist

/-! ## Database state and `OAGDatabase.add` -/

inductive WarnKind
  | unknownAirport | timeMisordering | suspiciousDistance | zeroDistance
deriving DecidableEq, Repr

def WarnKind.name : WarnKind → String
  | .unknownAirport => "UNKNOWN_AIRPORT" | .timeMisordering => "TIME_MISORDERING"
  | .suspiciousDistance => "SUSPICIOUS_DISTANCE" | .zeroDistance => "ZERO_DISTANCE"

structure AirportRow (α : Type) where
  id : Nat
  code : String
  lat : α
  lon : α
  tz : String

structure Flight (α : Type) where
  id : Nat
  carrier : String
  fltno : Int
  origin : Nat
  dest : Nat
  dowMask : Nat
  depTime : Int
  arrTime : Int
  arrDay : Int
  service : String
  aircraft : String
  distance : α
  seats : Int
  effFrom : Date
  effTo : Date
  count : Nat
  odPair : String

structure Sched where
  dep : Int
  arr : Int
  day : Int
  flightId : Nat
deriving DecidableEq, Repr

structure State (α : Type) where
  airports : List (AirportRow α) := []
  flights : List (Flight α) := []
  scheds : List Sched := []
  warnings : List (Nat × WarnKind × String) := []
  unknown : List String := []

/-- everything the importer takes from outside -/
structure Env (α : Type) where
  year : Int
  /-- `AEIC.utils.airports.airport(code)` ↦ (lat, lon) and the zone name timezonefinder returns for it -/
  lookup : String → Option (α × α × String)
  /-- `pyproj.Geod.inv(lon1, lat1, lon2, lat2)[2]` (metres) -/
  geod : α → α → α → α → α
  /-- UTC offset (s) that `zoneinfo` assigns to the naive local time `t` (s since 1970-01-01T00:00 local), fold = 0 -/
  off : String → Int → Int

/-- the two small pieces that were defective on the pinned tree, selectable as they were -/
structure Variant where
  /-- `add` hands the raw (possibly `None`) effective dates to `_add_schedule` -/
  rawRange : Bool
  /-- `_distance_check` calls `GEOD.inv(lat, lon, lat, lon)` -/
  swapGeod : Bool
deriving DecidableEq, Repr

/-- the intended behaviour (both pieces repaired) -/
def Variant.fixed : Variant := ⟨false, false⟩
/-- the pinned tree -/
def Variant.asIs : Variant := ⟨true, true⟩
/-- the tree as it exists on branch b-c13: open-ended ranges repaired (`fix:` commit), the swapped `GEOD.inv`
arguments still there (open finding `C13-distance-check-geod-args-swapped`: the repair changes the flight count pinned
by `tests/test_mission_db_creation.py::test_oag_conversion`) -/
def Variant.current : Variant := ⟨false, true⟩

/-- `self.warnings[line] = …` (dict: one entry per line, the last one wins) -/
def setWarn (ws : List (Nat × WarnKind × String)) (line : Nat) (k : WarnKind) (detail : String) :
    List (Nat × WarnKind × String) :=
  ws.filter (fun w => w.1 != line) ++ [(line, k, detail)]

/-- inclusive range of day numbers (`pd.date_range(a, b)`) -/
def dayRange (a b : Int) : List Int := (List.range (b - a + 1).toNat).map (fun (i : Nat) => a + (i : Int))

structure Times where
  depMin : Int
  arrMin : Int
  arrDay : Int

/-- naive local departure / arrival time (s since 1970-01-01T00:00 on the local clock) of the instance of day `n` -/
def localDep (t : Times) (n : Int) : Int := n * 86400 + t.depMin * 60
def localArr (t : Times) (n : Int) : Int := (n + t.arrDay) * 86400 + t.arrMin * 60

/-- the schedule row for operating day `n`: UTC = local − offset(local); `day` = UTC day of departure -/
def mkSched (offO offD : Int → Int) (t : Times) (fid : Nat) (n : Int) : Sched :=
  let dep := localDep t n - offO (localDep t n)
  let arr := localArr t n - offD (localArr t n)
  ⟨dep, arr, dep / 86400, fid⟩

def Sched.misordered (s : Sched) : Bool := s.arr < s.dep

/-- operating days of the row: the days of the inclusive range that fall on one of the weekdays -/
def operatingDays (a b : Int) (days : List Int) : List Int :=
  (dayRange a b).filter (fun n => days.contains (isoWeekday n))

/-- all candidate instances, before the mis-ordering drop -/
def candidates (offO offD : Int → Int) (a b : Int) (days : List Int) (t : Times) (fid : Nat) : List Sched :=
  (operatingDays a b days).map (mkSched offO offD t fid)

/-- `_add_schedule`: the rows inserted into `schedules` -/
def expand (offO offD : Int → Int) (a b : Int) (days : List Int) (t : Times) (fid : Nat) : List Sched :=
  (candidates offO offD a b days t fid).filter (fun s => !s.misordered)

/-- the operating days that survive the mis-ordering drop (specification-side view of `expand`) -/
def scheduledDays (offO offD : Int → Int) (a b : Int) (days : List Int) (t : Times) : List Int :=
  (operatingDays a b days).filter (fun n => !(mkSched offO offD t 0 n).misordered)

/-- `_make_dow_mask` -/
def dowMask (days : List Int) : Nat := (days.map (fun d => 2 ^ (d - 1).toNat)).sum

section Add
variable {α : Type} [Add α] [Sub α] [Mul α] [Div α] [Neg α] [LT α] [LE α]
  [DecidableLT α] [DecidableLE α] [Lit α]

/-- `_get_or_add_airport` (cache and table are one thing here) -/
def getOrAddAirport (env : Env α) (st : State α) (line : Nat) (code : String) :
    State α × Option (AirportRow α) :=
  match st.airports.find? (fun a => a.code == code) with
  | some a => (st, some a)
  | none =>
    match env.lookup code with
    | none =>
      ({ st with warnings := setWarn st.warnings line .unknownAirport code,
                 unknown := if st.unknown.contains code then st.unknown else st.unknown ++ [code] }, none)
    | some (lat, lon, tz) =>
      let a : AirportRow α := ⟨st.airports.length + 1, code, lat, lon, tz⟩
      ({ st with airports := st.airports ++ [a] }, some a)

/-- computed great-circle distance in km as `_distance_check` obtains it, from the airports' coordinates -/
def gcKmC (v : Variant) (env : Env α) (olat olon dlat dlon : α) : α :=
  (if v.swapGeod then env.geod olat olon dlat dlon else env.geod olon olat dlon dlat) / d% 1000.0

def gcKm (v : Variant) (env : Env α) (o d : AirportRow α) : α := gcKmC v env o.lat o.lon d.lat d.lon

/-- stated distance in km: `e.distance * STATUTE_MILES_TO_KM` -/
def givenKm (r : Row) : α := (Lit.dec r.distance 0 : α) * Gen.STATUTE_MILES_TO_KM

def odPair (a b : String) : String := (if b < a then b else a) ++ (if b < a then a else b)

def yearStart (y : Int) : Date := ⟨y, 1, 1⟩
def yearEnd (y : Int) : Date := ⟨y, 12, 31⟩

/-- `effective_from = e.efffrom or date(self._year, 1, 1)` -/
def effFrom (year : Int) (r : Row) : Date := r.efffrom.getD (yearStart year)
/-- `effective_to = e.effto or date(self._year, 12, 31)` -/
def effTo (year : Int) (r : Row) : Date := r.effto.getD (yearEnd year)

def rowTimes (r : Row) : Times := ⟨r.depMin, r.arrMin, r.arrDay⟩

/-- candidate instances of a row between two airports' zones, before the mis-ordering drop -/
def rowCandidates (env : Env α) (r : Row) (otz dtz : String) (fid : Nat) : List Sched :=
  candidates (env.off otz) (env.off dtz) (epochDay (effFrom env.year r)) (epochDay (effTo env.year r)) r.days
    (rowTimes r) fid

/-- the schedule rows a row produces -/
def rowInstances (env : Env α) (r : Row) (otz dtz : String) (fid : Nat) : List Sched :=
  (rowCandidates env r otz dtz fid).filter (fun s => !s.misordered)

/-- the flight record of a row -/
def rowFlight (env : Env α) (r : Row) (o d : AirportRow α) (fid count : Nat) : Flight α :=
  { id := fid, carrier := r.carrier, fltno := r.fltno, origin := o.id, dest := d.id,
    dowMask := dowMask r.days, depTime := r.depMin, arrTime := r.arrMin, arrDay := r.arrDay,
    service := r.service, aircraft := r.inpacft, distance := givenKm r, seats := r.seats,
    effFrom := effFrom env.year r, effTo := effTo env.year r, count := count, odPair := odPair o.code d.code }

/-- `OAGDatabase.add`.  `.error` = the call raises. -/
def add (v : Variant) (env : Env α) (st : State α) (r : Row) : Except String (State α × Outcome) :=
  let p1 := getOrAddAirport env st r.line r.depapt
  let p2 := getOrAddAirport env p1.1 r.line r.arrapt
  let st2 := p2.1
  match p1.2, p2.2 with
  | some o, some d =>
    match distanceCheck (gcKm v env o d) (givenKm r : α) with
    | .zero => .ok ({ st2 with warnings := setWarn st2.warnings r.line .zeroDistance "" }, .zeroDistance)
    | .suspicious =>
      .ok ({ st2 with warnings := setWarn st2.warnings r.line .suspiciousDistance "" }, .suspiciousDistance)
    | .ok =>
      if v.rawRange && (r.efffrom.isNone || r.effto.isNone) then
        .error "ValueError"   -- pd.date_range(None, …): flight row inserted, no schedule, exception propagates
      else
        let fid := st2.flights.length + 1
        let cands := rowCandidates env r o.tz d.tz fid
        let kept := rowInstances env r o.tz d.tz fid
        .ok ({ st2 with flights := st2.flights ++ [rowFlight env r o d fid kept.length], scheds := st2.scheds ++ kept,
                        warnings := if cands.any (fun s => s.misordered)
                                    then setWarn st2.warnings r.line .timeMisordering "" else st2.warnings },
             .imported)
  | _, _ => .ok (st2, .unknownAirport)

/-- one CSV row through `from_csv_row` and `add` -/
def importRow (v : Variant) (env : Env α) (st : State α) (line : Nat) (raw : Raw) :
    Except String (State α × Outcome) :=
  match rowFilter raw with
  | some reason => .ok (st, reason)
  | none =>
    match parseRaw line raw with
    | none => .ok (st, .malformed)
    | some r => add v env st r

/-- a whole file; stops at the first raising row (as `convert_oag_data` does) -/
def importAll (v : Variant) (env : Env α) : State α → List (Nat × Raw) → Except String (State α × List Outcome)
  | st, [] => .ok (st, [])
  | st, (line, raw) :: rest =>
    match importRow v env st line raw with
    | .error e => .error e
    | .ok (st', out) =>
      match importAll v env st' rest with
      | .error e => .error e
      | .ok (st'', outs) => .ok (st'', out :: outs)

end Add

/-! ## Driver ops -/

open Aeic.Wire

private def getRaw (j : Json) : Except String Raw := do
  let s (k : String) : Except String String := do getStr (← field j k)
  pure { carrier := ← s "carrier", fltno := ← s "fltno", depapt := ← s "depapt", arrapt := ← s "arrapt",
         deptim := ← s "deptim", arrtim := ← s "arrtim", arrday := ← s "arrday", days := ← s "days",
         stops := ← s "stops", genacft := ← s "genacft", inpacft := ← s "inpacft", service := ← s "service",
         seats := ← s "seats", efffrom := ← s "efffrom", effto := ← s "effto", distance := ← s "distance",
         operating := ← s "operating", longest := ← s "longest" }

private def putDate (t : Date) : Json := putInts [t.y, t.m, t.d]

private def putFlight (f : Flight Float) : Json :=
  obj [("id", putNat f.id), ("carrier", Json.str f.carrier), ("fltno", putInt f.fltno), ("origin", putNat f.origin),
       ("dest", putNat f.dest), ("dow_mask", putNat f.dowMask), ("dep_time", putInt f.depTime),
       ("arr_time", putInt f.arrTime), ("arr_day", putInt f.arrDay), ("service", Json.str f.service),
       ("aircraft", Json.str f.aircraft), ("distance", putF f.distance), ("seats", putInt f.seats),
       ("eff_from", putDate f.effFrom), ("eff_to", putDate f.effTo), ("count", putNat f.count),
       ("od_pair", Json.str f.odPair)]

private def putState (st : State Float) : List (String × Json) :=
  [("airports", Json.arr (st.airports.map (fun a =>
      Json.arr #[putNat a.id, Json.str a.code, putF a.lat, putF a.lon, Json.str a.tz])).toArray),
   ("flights", Json.arr (st.flights.map putFlight).toArray),
   ("scheds", Json.arr (st.scheds.map (fun s => Json.arr #[putInt s.dep, putInt s.arr, putInt s.day,
      putNat s.flightId])).toArray),
   ("warnings", Json.arr (st.warnings.map (fun w => Json.arr #[putNat w.1, Json.str w.2.1.name,
      Json.str w.2.2])).toArray),
   ("unknown", putStrs st.unknown)]

/-- offset returned when the harness supplied no oracle value: makes the timestamp visibly absurd -/
def missingOffset : Int := 1000000000000

private def getEnv (j : Json) : Except String (Env Float) := do
  let year ← getInt (← field j "year")
  let aps ← getList (fun a => do
      let code ← getStr (← field a "code")
      let lat ← getF (← field a "lat")
      let lon ← getF (← field a "lon")
      let tz ← getStr (← field a "tz")
      pure (code, (lat, lon, tz))) (← field j "airports")
  let apMap : Std.HashMap String (Float × Float × String) := Std.HashMap.ofList aps
  let geodRows ← getList getNats (← field j "geod")
  let geodMap : Std.HashMap (List Nat) Float := Std.HashMap.ofList (geodRows.filterMap (fun r =>
      match r with
      | [a, b, c, d, v] => some ([a, b, c, d], Float.ofBits v.toUInt64)
      | _ => none))
  let offRows ← getList (fun e => do
      let tz ← getStr (← field e "tz")
      let tab ← getList getInts (← field e "table")
      pure (tz, tab)) (← field j "off")
  let offMap : Std.HashMap (String × Int) Int := Std.HashMap.ofList (offRows.flatMap (fun (tz, tab) =>
      tab.filterMap (fun r => match r with
        | [t, o] => some ((tz, t), o)
        | _ => none)))
  pure { year
         lookup := fun c => apMap.get? c
         geod := fun a b c d =>
           (geodMap.get? [a.toBits.toNat, b.toBits.toNat, c.toBits.toNat, d.toBits.toNat]).getD (0.0 / 0.0)
         off := fun tz t => (offMap.get? (tz, t)).getD missingOffset }

private def getVariant (j : Json) : Except String Variant := do
  match optField j "variant" with
  | none => pure Variant.fixed
  | some v => pure ⟨← getBool (← field v "raw_range"), ← getBool (← field v "swap_geod")⟩

/-- rows one by one, so that outcomes before a raising row are still reported -/
private def runRows (v : Variant) (env : Env Float) :
    State Float → List (Nat × Raw) → List String → State Float × List String × Option String
  | st, [], acc => (st, acc.reverse, none)
  | st, (line, raw) :: rest, acc =>
    match importRow v env st line raw with
    | .error e => (st, acc.reverse, some e)
    | .ok (st', out) => runRows v env st' rest (out.name :: acc)

def handle (op : String) (j : Json) : Except String Json :=
  match op with
  | "import" => do
      let v ← getVariant j
      let env ← getEnv j
      let rows ← getList (fun r => do
          let line ← getNat (← field r "line")
          let raw ← getRaw r
          pure (line, raw)) (← field j "rows")
      let (st, outs, err) := runRows v env {} rows []
      pure (obj ([("outcomes", putStrs outs),
                  ("raised", match err with | some e => Json.str e | none => Json.null)] ++ putState st))
  | "calendar" => do
      -- [[y,m,d], …] ↦ [[valid, ordinal, epochDay, isoWeekday, nextDate…], …]
      let ds ← getList getInts (← field j "dates")
      pure (Json.arr (ds.map (fun r =>
        match r with
        | [y, m, d] =>
          let t : Date := ⟨y, m, d⟩
          let nx := nextDate t
          Json.arr #[Json.bool t.valid, putInt (ordinal t), putInt (epochDay t), putInt (isoWeekday (epochDay t)),
                     putInts [nx.y, nx.m, nx.d]]
        | _ => Json.null)).toArray)
  | "yearday" => do
      -- [[y,k], …] ↦ dateOfYearDay
      let ds ← getList getInts (← field j "items")
      pure (Json.arr (ds.map (fun r =>
        match r with
        | [y, k] => let t := dateOfYearDay y k; putInts [t.y, t.m, t.d]
        | _ => Json.null)).toArray)
  | "distcheck" => do
      -- [[gcMetres, givenKm], …] (bits) ↦ "ok" | "zero" | "suspicious"   (gc = metres / 1000 as in the source)
      let ps ← getList getFs (← field j "items")
      pure (putStrs (ps.map (fun p =>
        match p with
        | [gm, given] =>
          match distanceCheck (gm / (d% 1000.0 : Float)) given with
          | .ok => "ok" | .zero => "zero" | .suspicious => "suspicious"
        | _ => "bad")))
  | "parse" => do
      -- raw rows ↦ filter reason / parsed fields
      let rows ← getList getRaw (← field j "rows")
      pure (Json.arr (rows.map (fun raw =>
        match rowFilter raw with
        | some r => obj [("filter", Json.str r.name)]
        | none =>
          match parseRaw 0 raw with
          | none => obj [("filter", Json.str "malformed")]
          | some r =>
            obj [("filter", Json.null), ("fltno", putInt r.fltno), ("dep", putInt r.depMin), ("arr", putInt r.arrMin),
                 ("arrday", putInt r.arrDay), ("days", putInts r.days), ("distance", putInt r.distance),
                 ("seats", putInt r.seats),
                 ("efffrom", match r.efffrom with | some t => putDate t | none => Json.null),
                 ("effto", match r.effto with | some t => putDate t | none => Json.null)])).toArray)
  | _ => throw s!"unknown c13 op {op}"

end Aeic.Schedule
