/-
  Model of `AEIC.trajectories.store.TrajectoryStore` bookkeeping (C07, C08, C10; single-file and in-memory stores):
  sessions (CREATE / APPEND / READ), next-index counter, LRU trajectory cache (cachetools 7 semantics, with the
  in-memory "no eviction" flag), reload from the file, lazy flight-id re-indexing, the checks `add` performs.

  Payloads are opaque `Item`s (contents are C03's business): a tag, the size `nbytes` reports, the optional flight id,
  a field-set signature and whether all required values are present.  NetCDF is abstracted as `Disk`: the list of
  trajectories along the unlimited `trajectory` dimension, the field-set signature and the `_index` group.

  The model follows the code as it exists (after the `fix:` commits recorded in known_findings.json).  The
  pre-fix index arithmetic of `_load_trajectory` is kept as `loadAsIs` for the negation witness of C07.
-/
import AeicModel.Wire
open Lean

namespace Aeic.Store

structure Item where
  tag : Nat
  bytes : Nat
  fid : Option Int
  fs : Nat
  complete : Bool
deriving DecidableEq, Repr, Inhabited

inductive Mode | create | append | read
deriving DecidableEq, Repr

inductive Err | indexError | valueError | runtimeError | evictionRefused | noSession | internal
deriving DecidableEq, Repr

inductive Out
  | ok
  | idx (n : Nat)
  | item (it : Item)
  | none
  | len (n : Nat)
  | items (l : List Item)
  | err (e : Err)
deriving DecidableEq, Repr

/-! ### cachetools.LRUCache (subclass `TrajectoryCache`) -/

structure Cache where
  maxBytes : Nat
  noEvict : Bool                 -- `exception_on_eviction`
  entries : List (Nat × Item)    -- `__data`, dict (insertion) order
  order : List Nat               -- `__order`, least recently used first
deriving Repr

def Cache.empty (maxBytes : Nat) (noEvict : Bool) : Cache := ⟨maxBytes, noEvict, [], []⟩

def sizeOfEntries (es : List (Nat × Item)) : Nat := (es.map (·.2.bytes)).sum

def Cache.find? (c : Cache) (k : Nat) : Option Item := (c.entries.find? (·.1 == k)).map (·.2)

/-- `__touch`: move to the most-recently-used end -/
def Cache.touch (c : Cache) (k : Nat) : Cache := { c with order := c.order.filter (· != k) ++ [k] }

/-- `cache[k]` for a present key: value, and the key becomes most recently used -/
def Cache.get (c : Cache) (k : Nat) : Option (Cache × Item) :=
  match c.find? k with
  | some it => some (c.touch k, it)
  | none => none

/-- the `while currsize + size > maxsize: popitem()` loop of `Cache.__setitem__` over the LRU order -/
def evictLoop (maxBytes need : Nat) : List (Nat × Item) → List Nat → List (Nat × Item) × List Nat
  | es, [] => (es, [])
  | es, k :: ks =>
    if sizeOfEntries es + need ≤ maxBytes then (es, k :: ks)
    else evictLoop maxBytes need (es.filter (·.1 != k)) ks

/-- `cache[k] = v` for a key that is not present (the only way the store inserts) -/
def Cache.insert (c : Cache) (k : Nat) (v : Item) : Except Err Cache :=
  if v.bytes > c.maxBytes then .error .valueError                       -- "value too large"
  else if sizeOfEntries c.entries + v.bytes ≤ c.maxBytes then
    .ok { c with entries := c.entries ++ [(k, v)], order := c.order.filter (· != k) ++ [k] }
  else if c.noEvict then .error .evictionRefused                        -- `popitem` raises EvictionOccurred
  else
    let (es, ord) := evictLoop c.maxBytes v.bytes c.entries c.order
    .ok { c with entries := es ++ [(k, v)], order := ord.filter (· != k) ++ [k] }

/-! ### disk and session state -/

structure Disk where
  present : Bool
  items : List Item               -- the trajectory dimension of the base file
  fs : Nat                        -- field-set signature of the file(s)
  hasIndex : Bool                 -- `_index` group present
  index : List (Int × Nat)        -- (flight_id, trajectory_index) as last written by `_reindex`
deriving Repr

def Disk.absent : Disk := ⟨false, [], 0, false, []⟩

structure Sess where
  mode : Mode
  mem : Bool                      -- `base_file is None`
  linked : Bool                   -- `nc_linked`
  pending : Bool                  -- `_file_creation_pending`
  nextIndex : Nat
  cache : Cache
  indexable : Option Bool
  stale : Bool
deriving Repr

structure World where
  disk : Disk
  sess : Option Sess
deriving Repr

def World.init : World := ⟨Disk.absent, none⟩

def mb (n : Nat) : Nat := n * 1024 * 1024

/-- insertion sort of (id, idx) pairs by id: `sorted(enumerate(flight_ids), key=id)` (stable) -/
def insertById (p : Int × Nat) : List (Int × Nat) → List (Int × Nat)
  | [] => [p]
  | q :: qs => if p.1 ≤ q.1 then p :: q :: qs else q :: insertById p qs

def sortById : List (Int × Nat) → List (Int × Nat)
  | [] => []
  | p :: ps => insertById p (sortById ps)

/-- `_reindex` table for a list of stored trajectories whose first has store index `off` -/
def indexPairs (off : Nat) : List Item → List (Int × Nat)
  | [] => []
  | it :: rest => (it.fid.getD 0, off) :: indexPairs (off + 1) rest

def buildIndex (items : List Item) : List (Int × Nat) := sortById (indexPairs 0 items)

/-- `bisect.bisect_left(flight_ids, id)` -/
def bisectLeftIds (id : Int) : List (Int × Nat) → Nat
  | [] => 0
  | p :: ps => if p.1 < id then 1 + bisectLeftIds id ps else 0

/-- `get_flight`'s table lookup: bisect, bounds check, equality check -/
def lookupIndex (tbl : List (Int × Nat)) (id : Int) : Option Nat :=
  match tbl[bisectLeftIds id tbl]? with
  | some p => if p.1 = id then some p.2 else none
  | none => none

/-! ### operations -/

def closeSess (w : World) : World :=
  match w.sess with
  | none => w
  | some s =>
    let disk := if s.indexable = some true && s.stale && s.linked
                then { w.disk with index := buildIndex w.disk.items } else w.disk
    ⟨disk, none⟩

def opCreate (w : World) (file : Bool) (cacheMb : Nat) : World × Out :=
  let w := closeSess w
  if file then
    -- the harness removes an existing file first: CREATE refuses to overwrite
    (⟨Disk.absent, some ⟨.create, false, false, true, 0, Cache.empty (mb cacheMb) false, none, false⟩⟩, .ok)
  else
    (⟨w.disk, some ⟨.create, true, false, false, 0, Cache.empty (mb cacheMb) true, none, false⟩⟩, .ok)

def opOpen (w : World) (m : Mode) (cacheMb : Nat) : World × Out :=
  let w := closeSess w
  if !w.disk.present then (w, .err .valueError)
  else
    let next := if m = .append then w.disk.items.length else 0
    (⟨w.disk, some ⟨m, false, true, false, next, Cache.empty (mb cacheMb) false,
        some w.disk.hasIndex, false⟩⟩, .ok)

/-- `_load_trajectory` for a single-file store (after the fix: the file is indexed directly) -/
def load (d : Disk) (i : Nat) : Option Item := d.items[i]?

/-- Python indexing with a possibly negative index -/
def pyGet {α} (xs : List α) (k : Int) : Option α :=
  if k < 0 then (if (xs.length : Int) + k < 0 then none else xs[((xs.length : Int) + k).toNat]?)
  else xs[k.toNat]?

/-- the pre-fix `_load_trajectory` of a single-file READ/APPEND session: `snap` is `size_index[0]`, the
    length of the file when it was opened; bisect on `[snap]`, then `index - snap` as a Python index. -/
def loadAsIs (d : Disk) (snap : Nat) (i : Nat) : Option Item :=
  if i + 1 ≤ snap then pyGet d.items ((i : Int) - (snap : Int)) else none

def Sess.getItem (s : Sess) (d : Disk) (i : Nat) : Sess × Out :=
  match s.cache.get i with
  | some (c, it) => ({ s with cache := c }, .item it)
  | none =>
    if s.linked then
      match load d i with
      | none => (s, .err .indexError)
      | some it =>
        match s.cache.insert i it with
        | .error e => (s, .err e)
        | .ok c => ({ s with cache := c.touch i }, .item it)
    else (s, .err .indexError)

def Sess.length (s : Sess) (d : Disk) : Nat := if s.linked then d.items.length else s.cache.entries.length

/-- `_TrajectoryStoreIterator`: `store[0], store[1], …` while `index < len(store)` -/
def iterFrom (s : Sess) (d : Disk) : Nat → Nat → List Item → Sess × Out
  | _, 0, acc => (s, .items acc.reverse)
  | i, fuel + 1, acc =>
    match s.getItem d i with
    | (s', .item it) => iterFrom s' d (i + 1) fuel (it :: acc)
    | (s', o) => (s', o)

def reindex (s : Sess) (d : Disk) : Sess × Disk :=
  if s.indexable = some true && s.stale && s.linked then
    ({ s with stale := false }, { d with index := buildIndex d.items })
  else (s, d)

/-- schema check against the prototype (first value in dict order; reading it touches the LRU order) -/
def protoCheck (s : Sess) (it : Item) : Sess × Bool :=
  match s.cache.entries with
  | [] => (s, true)
  | (k, p) :: _ => ({ s with cache := s.cache.touch k }, p.fs = it.fs)

/-- the remaining checks `add` makes before it changes any state -/
def addChecks (s : Sess) (d : Disk) (it : Item) : Bool :=
  (match s.indexable with | some b => b == it.fid.isSome | none => true) &&
  !(s.linked && it.fs != d.fs) && it.complete

/-- state changes of an accepted `add`, after the trajectory went into the cache as `c` -/
def commitAdd (d : Disk) (s : Sess) (it : Item) (c : Cache) : World × Out :=
  let idx := s.nextIndex
  let indexable := match s.indexable with | some b => b | none => it.fid.isSome
  -- `_create` on the first add of a file-backed CREATE session
  let linked := s.linked || s.pending
  let d : Disk := if s.pending then { present := true, items := [], fs := it.fs, hasIndex := indexable, index := [] } else d
  -- `_write_trajectory`
  let d := if linked then { d with items := d.items ++ [it] } else d
  (⟨d, some { s with cache := c, nextIndex := idx + 1, indexable := some indexable, pending := false,
                     linked := linked, stale := s.stale || indexable }⟩, .idx idx)

def opAdd (w : World) (s : Sess) (it : Item) : World × Out :=
  if s.mode = .read then (w, .err .runtimeError) else
  let (s, protoOk) := protoCheck s it
  let w1 : World := ⟨w.disk, some s⟩
  if !protoOk || !addChecks s w.disk it then (w1, .err .valueError) else
  match s.cache.insert s.nextIndex it with
  | .error e => (w1, .err e)
  | .ok c => commitAdd w.disk s it c

def opGetFlight (w : World) (s : Sess) (id : Int) : World × Out :=
  if s.indexable != some true then (w, .err .runtimeError) else
  if !s.linked then
    -- in-memory store: scan the cached trajectories (reading each touches the LRU order)
    let rec scan (c : Cache) : List (Nat × Item) → Cache × Out
      | [] => (c, .none)
      | (k, it) :: rest =>
        let c := c.touch k
        if it.fid = some id then (c, .item it) else scan c rest
    let (c, o) := scan s.cache s.cache.entries
    (⟨w.disk, some { s with cache := c }⟩, o)
  else
    let (s, d) := reindex s w.disk
    match lookupIndex d.index id with
    | none => (⟨d, some s⟩, .none)
    | some i =>
      let (s, o) := s.getItem d i
      (⟨d, some s⟩, o)

/-- `save(base_file)`: an in-memory store is written to a new NetCDF file and becomes an ordinary file-backed CREATE
    session (evictions allowed from then on). `index_stale` is not touched: the `_index` group is created empty and filled by
    the next lazy re-index. Refused when the store is already linked to files, or when the target file exists. -/
def opSave (w : World) (s : Sess) : World × Out :=
  if s.linked then (w, .err .runtimeError) else
  if w.disk.present then (w, .err .valueError) else
  match s.cache.entries with
  | [] => (w, .err .internal)          -- `_create` asserts that there is a trajectory to take the schema from
  | e :: _ =>
    let d : Disk := { present := true, items := s.cache.entries.map (·.2), fs := e.2.fs,
                      hasIndex := s.indexable == some true, index := [] }
    (⟨d, some { s with mem := false, linked := true, pending := false,
                        cache := { s.cache with noEvict := false,
                                                -- every trajectory is read back in index order while it is written
                                                order := List.range s.cache.entries.length } }⟩, .ok)

inductive Op
  | create (file : Bool) (cacheMb : Nat)
  | openRead (cacheMb : Nat)
  | openAppend (cacheMb : Nat)
  | close
  | add (it : Item)
  | get (i : Nat)
  | len
  | iter
  | sync
  | getFlight (id : Int)
  | save
deriving Repr

def step (w : World) (op : Op) : World × Out :=
  match op with
  | .create f mbs => opCreate w f mbs
  | .openRead mbs => opOpen w .read mbs
  | .openAppend mbs => opOpen w .append mbs
  | .close => (closeSess w, .ok)
  | op =>
    match w.sess with
    | none => (w, .err .noSession)
    | some s =>
      match op with
      | .add it => opAdd w s it
      | .get i => let (s', o) := s.getItem w.disk i; (⟨w.disk, some s'⟩, o)
      | .len => (w, .len (s.length w.disk))
      | .iter =>
        let n := s.length w.disk
        let (s', o) := iterFrom s w.disk 0 n []
        (⟨w.disk, some s'⟩, o)
      | .sync =>
        if s.mode = .read then (w, .err .runtimeError)
        else let (s', d) := reindex s w.disk; (⟨d, some s'⟩, .ok)
      | .getFlight id => opGetFlight w s id
      | .save => opSave w s
      | _ => (w, .ok)

def run (w : World) : List Op → List Out
  | [] => []
  | op :: ops => let r := step w op; r.2 :: run r.1 ops

def finalWorld (w : World) : List Op → World
  | [] => w
  | op :: ops => finalWorld (step w op).1 ops

/-! ### abstract specification: a plain append-only list (C07) and a dictionary (C08) -/

structure SpecSess where
  mode : Mode
  mem : Bool
  maxBytes : Nat
  schema : Option (Nat × Bool)       -- (field sets, indexable) once known in this session
deriving Repr

structure Spec where
  present : Bool                      -- a file exists
  fileItems : List Item               -- every trajectory successfully added to the file so far
  fileSchema : Option (Nat × Bool)    -- schema fixed by the file
  memItems : List Item                -- trajectories of the current in-memory store
  sess : Option SpecSess
deriving Repr

def Spec.init : Spec := ⟨false, [], none, [], none⟩

def Spec.items (sp : Spec) (s : SpecSess) : List Item := if s.mem then sp.memItems else sp.fileItems

def specClose (sp : Spec) : Spec := { sp with memItems := [], sess := none }

def tooLarge (s : SpecSess) (it : Item) : Bool := !s.mem && it.bytes > s.maxBytes

def specGet (sp : Spec) (s : SpecSess) (i : Nat) : Out :=
  match (sp.items s)[i]? with
  | none => .err .indexError
  | some it => if tooLarge s it then .err .valueError else .item it

def specIter (s : SpecSess) : List Item → List Item → Out
  | [], acc => .items acc.reverse
  | it :: rest, acc => if tooLarge s it then .err .valueError else specIter s rest (it :: acc)

/-- the specification's verdict on an `add`: wrong schema / missing value / larger than the cache ⇒ refused;
    an in-memory store that would have to evict ⇒ refused; otherwise accepted -/
def specAddRefusal (ss : SpecSess) (items : List Item) (it : Item) : Option Err :=
  let schemaOk := match ss.schema with
    | some (fs, ix) => fs = it.fs && ix = it.fid.isSome
    | none => true
  if !schemaOk || !it.complete || it.bytes > ss.maxBytes then some .valueError
  else if ss.mem && (items.map (·.bytes)).sum + it.bytes > ss.maxBytes then some .evictionRefused
  else none

/-- an accepted `add`: the item is appended, it gets the next index, the first one fixes the schema -/
def specAddSuccess (sp : Spec) (s : SpecSess) (it : Item) : Spec × Out :=
  let sch := match s.schema with | some x => x | none => (it.fs, it.fid.isSome)
  let s' := { s with schema := some sch }
  if s.mem then ({ sp with memItems := sp.memItems ++ [it], sess := some s' }, .idx sp.memItems.length)
  else (⟨true, sp.fileItems ++ [it], some sch, sp.memItems, some s'⟩, .idx sp.fileItems.length)

def specStep (sp : Spec) (op : Op) : Spec × Out :=
  match op with
  | .create file mbs =>
    let sp := specClose sp
    if file then (⟨false, [], none, [], some ⟨.create, false, mb mbs, none⟩⟩, .ok)
    else ({ sp with sess := some ⟨.create, true, mb mbs, none⟩ }, .ok)
  | .openRead mbs =>
    let sp := specClose sp
    if !sp.present then (sp, .err .valueError)
    else ({ sp with sess := some ⟨.read, false, mb mbs, sp.fileSchema⟩ }, .ok)
  | .openAppend mbs =>
    let sp := specClose sp
    if !sp.present then (sp, .err .valueError)
    else ({ sp with sess := some ⟨.append, false, mb mbs, sp.fileSchema⟩ }, .ok)
  | .close => (specClose sp, .ok)
  | op =>
    match sp.sess with
    | none => (sp, .err .noSession)
    | some s =>
      match op with
      | .add it =>
        if s.mode = .read then (sp, .err .runtimeError) else
        match specAddRefusal s (sp.items s) it with
        | some e => (sp, .err e)
        | none => specAddSuccess sp s it
      | .get i => (sp, specGet sp s i)
      | .len => (sp, .len (sp.items s).length)
      | .iter => (sp, specIter s (sp.items s) [])
      | .sync => if s.mode = .read then (sp, .err .runtimeError) else (sp, .ok)
      | .save =>
        if !s.mem then (sp, .err (if sp.present then .runtimeError else .internal))
        else if sp.present then (sp, .err .valueError)
        else match sp.memItems with
          | [] => (sp, .err .internal)
          | _ :: _ => (⟨true, sp.memItems, s.schema, [], some { s with mem := false }⟩, .ok)
      | .getFlight id =>
        match s.schema with
        | some (_, true) =>
          (sp, match (sp.items s).find? (fun it => it.fid = some id) with
               | none => .none
               | some it => if tooLarge s it then .err .valueError else .item it)
        | _ => (sp, .err .runtimeError)
      | _ => (sp, .ok)

def specRun (sp : Spec) : List Op → List Out
  | [] => []
  | op :: ops => let r := specStep sp op; r.2 :: specRun r.1 ops

/-! ### wire -/
open Aeic.Wire

def getItemJ (j : Json) : Except String Item := do
  let tag ← getNat (← field j "tag")
  let bytes ← getNat (← field j "bytes")
  let fid ← match optField j "fid" with
    | some v => do pure (some (← getInt v))
    | none => pure none
  let fs ← getNat (fieldD j "fs" (putNat 0))
  let complete ← getBool (fieldD j "complete" (Json.bool true))
  pure ⟨tag, bytes, fid, fs, complete⟩

def getOpJ (j : Json) : Except String Op := do
  let k ← getStr (← field j "op")
  match k with
  | "create" => pure (.create (← getBool (fieldD j "file" (Json.bool true))) (← getNat (← field j "cache_mb")))
  | "open_read" => pure (.openRead (← getNat (← field j "cache_mb")))
  | "open_append" => pure (.openAppend (← getNat (← field j "cache_mb")))
  | "close" => pure .close
  | "add" => pure (.add (← getItemJ (← field j "item")))
  | "get" => pure (.get (← getNat (← field j "i")))
  | "len" => pure .len
  | "iter" => pure .iter
  | "sync" => pure .sync
  | "get_flight" => pure (.getFlight (← getInt (← field j "fid")))
  | "save" => pure .save
  | _ => throw s!"bad store op {k}"

def errStr : Err → String
  | .indexError => "err:index_error"
  | .valueError => "err:value_error"
  | .runtimeError => "err:runtime_error"
  | .evictionRefused => "err:eviction_refused"
  | .noSession => "no_session"
  | .internal => "err:internal"

def itemStr (it : Item) : String := s!"t{it.tag}"

def outStr : Out → String
  | .ok => "ok"
  | .idx n => s!"idx:{n}"
  | .item it => itemStr it
  | .none => "none"
  | .len n => s!"len:{n}"
  | .items l => "iter:" ++ ",".intercalate (l.map itemStr)
  | .err e => errStr e

/-- outputs plus the cache key set after every op (for the tight tie to `ts._trajectories`) -/
def runTrace (w : World) : List Op → List (String × List Nat)
  | [] => []
  | op :: ops =>
    let r := step w op
    let keys := match r.1.sess with | some s => s.cache.entries.map (·.1) | none => []
    (outStr r.2, keys) :: runTrace r.1 ops

def handle (op : String) (j : Json) : Except String Json := do
  match op with
  | "run" =>
    let ops ← getList getOpJ (← field j "ops")
    let tr := runTrace World.init ops
    let sp := specRun Spec.init ops
    pure (obj [("outs", putStrs (tr.map (·.1))), ("keys", Json.arr (tr.map (fun p => putNats p.2)).toArray),
               ("spec", putStrs (sp.map outStr))])
  | _ => throw s!"unknown store op {op}"

end Aeic.Store
