/-
  Model of merged trajectory stores (C09, merged part of C08, merge part of C10).

  * opening a merged store: cumulative counts (`itertools.accumulate`), `bisect_left`, the (negative) local index
    `index - size_index[file]` used as a Python index into that file;
  * the merged flight-id index built by `_create_merged_store_index` (per-store tables with offsets, one stable sort);
  * `TrajectoryStore.merge` as the sequence of file-system steps the code performs (after the `fix:` commits: validate,
    mkdir, move each input, build index, write metadata last; roll back on failure), over an abstract file system,
    with a crash (process dies) or a fault (exception) at any step.
-/
import AeicModel.Store
open Lean

namespace Aeic.Merge
open Aeic.Store

/-! ### reading from a merged store -/

/-- `itertools.accumulate` on lengths, starting offset `acc` -/
def prefixSums : Nat → List Nat → List Nat
  | _, [] => []
  | acc, n :: ns => (acc + n) :: prefixSums (acc + n) ns

/-- `bisect.bisect_left(size_index, v)` -/
def bisectLeft (v : Nat) : List Nat → Nat
  | [] => 0
  | x :: xs => if x < v then 1 + bisectLeft v xs else 0

/-- `_load_trajectory` for a merged store: file by bisect on cumulative counts, local index
    `index - size_index[file]` (negative!), Python indexing into that file. -/
def locate {α} (files : List (List α)) (i : Nat) : Option α :=
  let sz := prefixSums 0 (files.map List.length)
  let f := bisectLeft (i + 1) sz
  match sz[f]?, files[f]? with
  | some s, some file => pyGet file ((i : Int) - (s : Int))
  | _, _ => none

def mergedLen {α} (files : List (List α)) : Nat := (files.map List.length).sum

/-- `_create_merged_store_index`: each input's own (sorted) table, trajectory indexes shifted by the number of
    trajectories in the preceding inputs, concatenated in input order … -/
def mergedPairs (off : Nat) : List (List Item) → List (Int × Nat)
  | [] => []
  | f :: fs => (buildIndex f).map (fun p => (p.1, p.2 + off)) ++ mergedPairs (off + f.length) fs

/-- … then sorted by flight id -/
def mergedIndex (files : List (List Item)) : List (Int × Nat) := sortById (mergedPairs 0 files)

/-- `get_flight` on a merged store -/
def mergedGetFlight (files : List (List Item)) (id : Int) : Option Item :=
  match lookupIndex (mergedIndex files) id with
  | none => none
  | some k => locate files k

/-! ### species-indexed values in a merged store -/

/-- a species-indexed value as stored in a file: one slot per species of that file's species dimension (`none` = fill) -/
def decodeSlots (species : List String) (slots : List (Option Int)) : List (String × Int) :=
  (species.zip slots).filterMap (fun p => p.2.map (fun v => (p.1, v)))

/-- reading trajectory `i` of a merged store whose constituent files each have their own species dimension: the row is
    decoded with the species list of the file that holds it (the code after the `fix:` commit) -/
def locateDecoded (files : List (List String × List (List (Option Int)))) (i : Nat) : Option (List (String × Int)) :=
  (locate (files.map (fun f => f.2.map (fun r => (f.1, r)))) i).map (fun p => decodeSlots p.1 p.2)

/-- the code as it was: every row decoded with the species list of the *first* file -/
def locateDecodedAsIs (files : List (List String × List (List (Option Int)))) (i : Nat) : Option (List (String × Int)) :=
  match files with
  | [] => none
  | f0 :: _ => (locate (files.map (·.2)) i).map (fun r => decodeSlots f0.1 r)

/-! ### the merge protocol over an abstract file system -/

structure StoreFile where
  items : List Item
  fs : Nat                 -- field-set signature
  indexed : Bool           -- has an `_index` group
deriving DecidableEq, Repr

structure MergedDir where
  files : List (String × StoreFile)          -- the moved NetCDF files
  indexFile : Bool                           -- `_index.nc`
  metadata : Option (List (String × Nat))    -- `metadata.json`: names and counts, in order
deriving DecidableEq, Repr

structure FS where
  top : String → Option StoreFile            -- NetCDF files at their original paths
  out : Option MergedDir                     -- the output directory, if it exists

def lookupFile (l : List (String × StoreFile)) (n : String) : Option StoreFile := (l.find? (·.1 == n)).map (·.2)

inductive Refusal | missingInput | outputExists | fieldSets | indexability | noInputs | duplicateNames
deriving DecidableEq, Repr

/-- `_check_merge_arguments` + the validation loop of `merge` (nothing is created or moved here) -/
def validate (fsys : FS) (inputs : List String) : Except Refusal (List (String × StoreFile)) :=
  match inputs.mapM (fun n => (fsys.top n).map (fun f => (n, f))) with
  | none => .error .missingInput
  | some fs =>
    -- the inputs are moved into one directory under their own names: equal names are refused [code after the C09 fix; before
    -- it the second input silently replaced the first]
    if !decide inputs.Nodup then .error .duplicateNames else
    if fsys.out.isSome then .error .outputExists else
    match fs with
    | [] => .error .noInputs
    | (_, f0) :: _ =>
      if fs.any (fun p => p.2.fs != f0.fs) then .error .fieldSets
      else if fs.any (fun p => p.2.indexed != f0.indexed) then .error .indexability
      else .ok fs

inductive FsStep
  | mkdir
  | rename (n : String)
  | writeIndex
  | writeMetadata (md : List (String × Nat))
deriving DecidableEq, Repr

/-- the merged index file is written iff the inputs are indexable -/
def indexSteps (fs : List (String × StoreFile)) : List FsStep :=
  match fs with
  | (_, f0) :: _ => if f0.indexed then [.writeIndex] else []
  | [] => []

/-- content of `metadata.json`: constituent file names and trajectory counts, in order -/
def mdOf (fs : List (String × StoreFile)) : List (String × Nat) := fs.map (fun p => (p.1, p.2.items.length))

/-- the file-system steps of a validated merge, in the order the code performs them -/
def mergeSteps (fs : List (String × StoreFile)) : List FsStep :=
  [.mkdir] ++ (fs.map (fun p => .rename p.1) ++ (indexSteps fs ++ [.writeMetadata (mdOf fs)]))

/-- one file-system step; `none` = the operating system refuses it (e.g. the file to move is not there) -/
def applyStep (fsys : FS) : FsStep → Option FS
  | .mkdir => match fsys.out with
    | none => some { fsys with out := some ⟨[], false, none⟩ }
    | some _ => none
  | .rename n =>
    match fsys.top n, fsys.out with
    | some f, some d => some ⟨fun m => if m = n then none else fsys.top m, some { d with files := d.files ++ [(n, f)] }⟩
    | _, _ => none
  | .writeIndex => match fsys.out with | some d => some { fsys with out := some { d with indexFile := true } } | none => none
  | .writeMetadata md => match fsys.out with | some d => some { fsys with out := some { d with metadata := some md } } | none => none

/-- the `except BaseException:` clean-up: remove metadata and index file, move the files back, remove the directory -/
def rollback (fsys : FS) : FS :=
  match fsys.out with
  | none => fsys
  | some d => ⟨fun m => match lookupFile d.files m with | some f => some f | none => fsys.top m, none⟩

/-- run steps `i, i+1, …`; an exception is raised instead of step number `fault`, or when the OS refuses a step.
    Returns the file system at that moment and whether all steps completed. -/
def runSteps (fsys : FS) (fault : Option Nat) : Nat → List FsStep → FS × Bool
  | _, [] => (fsys, true)
  | i, st :: rest =>
    if fault = some i then (fsys, false) else
    match applyStep fsys st with
    | none => (fsys, false)
    | some fsys' => runSteps fsys' fault (i + 1) rest

/-- `merge` with an optional fault (an exception raised *instead of* performing step number `k`). -/
def merge (fsys : FS) (inputs : List String) (fault : Option Nat) : FS × Except Refusal Bool :=
  match validate fsys inputs with
  | .error r => (fsys, .error r)
  | .ok fs =>
    match runSteps fsys fault 0 (mergeSteps fs) with
    | (r, true) => (r, .ok true)
    | (r, false) => (rollback r, .ok false)   -- (a failed mkdir leaves nothing to roll back: `rollback` is then the identity)

/-- the process dies after `k` completed steps (no clean-up code runs) -/
def crashAfter (fsys : FS) (inputs : List String) (k : Nat) : FS :=
  match validate fsys inputs with
  | .error _ => fsys
  | .ok fs => (runSteps fsys (some k) 0 (mergeSteps fs)).1

/-- what opening the output directory as a merged store yields: refused unless the metadata file is there; then the
    listed files in the listed order -/
def openMerged (fsys : FS) : Option (List (List Item)) :=
  match fsys.out with
  | none => none
  | some d =>
    match d.metadata with
    | none => none
    | some md => md.mapM (fun p => (lookupFile d.files p.1).map (·.items))

/-! ### wire -/
open Aeic.Wire

def getFileJ (j : Json) : Except String (String × StoreFile) := do
  let n ← getStr (← field j "name")
  let items ← getList getItemJ (← field j "items")
  let fs ← getNat (fieldD j "fs" (putNat 0))
  let ix ← getBool (fieldD j "indexed" (Json.bool false))
  pure (n, ⟨items, fs, ix⟩)

def refusalStr : Refusal → String
  | .missingInput => "missing_input" | .outputExists => "output_exists" | .fieldSets => "field_sets"
  | .indexability => "indexability" | .noInputs => "no_inputs" | .duplicateNames => "duplicate_names"

def fsJ (names : List String) (fsys : FS) : Json :=
  obj [("top", putStrs (names.filter (fun n => (fsys.top n).isSome))),
       ("out", match fsys.out with
          | none => Json.null
          | some d => obj [("files", putStrs (d.files.map (·.1))), ("index", Json.bool d.indexFile),
                           ("metadata", match d.metadata with
                              | none => Json.null
                              | some md => Json.arr (md.map (fun p => Json.arr #[Json.str p.1, putNat p.2])).toArray)])]

def handle (op : String) (j : Json) : Except String Json := do
  match op with
  | "read" =>
    -- files: list of lists of items; gets: indices; flights: ids
    let files ← getList (getList getItemJ) (← field j "files")
    let gets ← getNats (← field j "gets")
    let ids ← getInts (fieldD j "flights" (Json.arr #[]))
    let g := gets.map (fun i => match locate files i with | some it => itemStr it | none => "err:index_error")
    let f := ids.map (fun id => match mergedGetFlight files id with | some it => itemStr it | none => "none")
    pure (obj [("len", putNat (mergedLen files)), ("gets", putStrs g), ("flights", putStrs f)])
  | "decoded" =>
    -- files: [[species names], [[slot or null, …] per trajectory]]; gets: indices
    let files ← getList (fun f => do
      let pr ← getArr f
      match pr.toList with
      | [sp, rows] => do
        let species ← getStrs sp
        let rs ← getList (getList (fun c => match c with | Json.null => pure none | v => do pure (some (← getInt v)))) rows
        pure (species, rs)
      | _ => throw "bad file") (← field j "files")
    let gets ← getNats (← field j "gets")
    let enc (r : Option (List (String × Int))) : Json := match r with
      | none => Json.null
      | some l => Json.arr (l.map (fun p => Json.arr #[Json.str p.1, putInt p.2])).toArray
    pure (Json.arr (gets.map (fun i => enc (locateDecoded files i))).toArray)
  | "merge" =>
    let top ← getList getFileJ (← field j "top")
    let outExists ← getBool (fieldD j "out_exists" (Json.bool false))
    let inputs ← getStrs (← field j "inputs")
    let fault ← match optField j "fault" with | some v => do pure (some (← getNat v)) | none => pure none
    let crash ← match optField j "crash" with | some v => do pure (some (← getNat v)) | none => pure none
    let names := top.map (·.1)
    let fsys : FS := ⟨fun n => lookupFile top n, if outExists then some ⟨[], false, none⟩ else none⟩
    match crash with
    | some k =>
      let r := crashAfter fsys inputs k
      pure (obj [("fs", fsJ names r), ("result", Json.str "crashed"),
                 ("opens", match openMerged r with | some _ => Json.bool true | none => Json.bool false)])
    | none =>
      let (r, res) := merge fsys inputs fault
      let steps := match validate fsys inputs with | .ok fs => (mergeSteps fs).length | .error _ => 0
      pure (obj [("fs", fsJ names r), ("steps", putNat steps),
                 ("result", Json.str (match res with | .ok true => "ok" | .ok false => "fault" | .error e => "refused:" ++ refusalStr e)),
                 ("opens", match openMerged r with | some _ => Json.bool true | none => Json.bool false)])
  | _ => throw s!"unknown merge op {op}"

end Aeic.Merge
