/-
  Scalar abstraction shared by all numerical models.

  Models are written once, generic in the scalar type `α`, with *unbundled*
  arithmetic instances plus the two small classes below.  They are executed on
  `Float` (IEEE doubles; + − × ÷ sqrt bit-identical to CPython) by the driver and
  proved about over `ℝ` in `AeicProofs` (where `Lit ℝ`/`Transc ℝ` are instantiated).
  No Mathlib import here: this file is linked into the `aeic_driver` executable.
-/
namespace Aeic

/-- decimal literals of the Python source: `dec m e = m · 10⁻ᵉ`. -/
class Lit (α : Type) where
  dec : Int → Nat → α

/-- transcendental functions used by the modelled code. -/
class Transc (α : Type) where
  exp : α → α
  log : α → α
  log10 : α → α
  pow : α → α → α
  sqrt : α → α
  sin : α → α
  cos : α → α

instance : Lit Float where
  dec m e := Float.ofInt m / Float.ofNat (10 ^ e)

instance : Transc Float where
  exp := Float.exp
  log := Float.log
  log10 := Float.log10
  pow := Float.pow
  sqrt := Float.sqrt
  sin := Float.sin
  cos := Float.cos

/-- `d% 0.0065` ↦ `Lit.dec 65 4`; `d% 3` ↦ `Lit.dec 3 0`; `d% 1e3` ↦ `Lit.dec 1000 0`. -/
syntax "d% " num : term
syntax "d% " scientific : term
macro_rules
  | `(d% $n:num) => `(Lit.dec ($n : Int) 0)
  | `(d% $x:scientific) => do
    let (m, sign, e) := x.getScientific
    if sign then
      `(Lit.dec ($(Lean.quote m) : Int) $(Lean.quote e))
    else
      `(Lit.dec ($(Lean.quote (m * 10 ^ e)) : Int) 0)

section
variable {α : Type} [Add α] [Sub α] [Mul α] [Div α] [Neg α] [LT α] [LE α]
  [DecidableLT α] [DecidableLE α] [Lit α]

def zero : α := Lit.dec 0 0
def one : α := Lit.dec 1 0

/-- left-to-right sum starting from 0 (Python `sum`, or an exact-arithmetic reading of `np.sum`). -/
def lsum : List α → α
  | [] => zero
  | x :: xs => x + lsum xs

def smax (a b : α) : α := if a < b then b else a
def smin (a b : α) : α := if b < a then b else a
def sabs (a : α) : α := if a < zero then -a else a
/-- `np.sign` -/
def ssign (a : α) : α := if a < zero then -one else if zero < a then one else zero
end

end Aeic
