/-
  C11 — option dispatch of `AEIC.emissions.compute_emissions`.

  An abstract interpretation of the emissions code over *key sets*: for every
  configuration of the documented `[emissions]` options and every data
  "environment" (APU present / running, fuel has life-cycle data, SCOPE11 number
  profile present) it computes the outcome class of `compute_emissions`

      ok <key sets of every inventory part>  |  refused <option> <value>  |  internal <PyExceptionType>

  following the control flow of

    config/emissions.py   EmissionsConfig.enabled_species, *_enabled properties
    emissions/utils.py    constant_species_values
    emissions/trajectory.py  get_trajectory_emissions, compute_EI_NOx, _calculate_EI_PMvol, _calculate_EI_PMnvol
    emissions/lto.py      get_LTO_emissions, _lto_nox, _lto_pmvol, _lto_pmnvol
    emissions/apu.py      get_APU_emissions
    emissions/gse.py      get_GSE_emissions
    emissions/emission.py compute_emissions, sum_total_emissions, get_lifecycle_emissions

  Every map lookup into a dictionary that was filled *elsewhere* (`lto_indices[SO2]`,
  `lto_indices[SO4]` in apu.py, `total_emissions[CO2]` in emission.py) is an `Option`
  lookup that yields `internal "KeyError"` when the key is absent; every explicit
  `raise` of the code is a branch of the model.

  The model is parameterised by a code revision `Rev`: `Rev.current` is the code on the
  work-tree branch (after the two `fix:` commits), `Rev.pinned` is the code as it was
  found (kept so that the negation witnesses stay machine-checked and so that the
  harness can recognise an un-repaired tree).

  Numerical part: `total` is `sum_total_emissions` (+ the life-cycle CO₂ term), generic
  in the scalar type.

  No Mathlib import: linked into `aeic_driver`.
-/
import AeicModel.Scalar
import AeicModel.Wire
import AeicModel.Generated.Constants
import AeicModel.Generated.Options
open Lean

namespace Aeic.Dispatch

/-! ## Species (member order of `AEIC.types.Species`) -/

inductive Species
  | CO2 | H2O | HC | CO | NOx | NO | NO2 | HONO | PMnvol | PMnvolGMD | PMvol | OCic | SOx | SO2 | SO4 | PMnvolN
  deriving DecidableEq, Repr, Inhabited

namespace Species
def all : List Species :=
  [CO2, H2O, HC, CO, NOx, NO, NO2, HONO, PMnvol, PMnvolGMD, PMvol, OCic, SOx, SO2, SO4, PMnvolN]

def name : Species → String
  | CO2 => "CO2" | H2O => "H2O" | HC => "HC" | CO => "CO" | NOx => "NOx" | NO => "NO" | NO2 => "NO2"
  | HONO => "HONO" | PMnvol => "PMnvol" | PMnvolGMD => "PMnvolGMD" | PMvol => "PMvol" | OCic => "OCic"
  | SOx => "SOx" | SO2 => "SO2" | SO4 => "SO4" | PMnvolN => "PMnvolN"
end Species

/-! ## Option types (value sets of `config/emissions.py`) -/

/-- `ClimbDescentMode` -/
inductive CDMode | trajectory | lto
  deriving DecidableEq, Repr, Inhabited
/-- `EINOxMethod` (used for `nox_method`, `hc_method`, `co_method`) -/
inductive GasMethod | bffm2 | p3t3 | none
  deriving DecidableEq, Repr, Inhabited
/-- `PMvolMethod` -/
inductive PMvolMethod | fuelFlow | foa3 | none
  deriving DecidableEq, Repr, Inhabited
/-- `PMnvolMethod` -/
inductive PMnvolMethod | meem | scope11 | foa3 | none
  deriving DecidableEq, Repr, Inhabited

def CDMode.all : List CDMode := [.trajectory, .lto]
def GasMethod.all : List GasMethod := [.bffm2, .p3t3, .none]
def PMvolMethod.all : List PMvolMethod := [.fuelFlow, .foa3, .none]
def PMnvolMethod.all : List PMnvolMethod := [.meem, .scope11, .foa3, .none]

def CDMode.value : CDMode → String
  | .trajectory => "trajectory" | .lto => "lto"
def GasMethod.value : GasMethod → String
  | .bffm2 => "bffm2" | .p3t3 => "p3t3" | .none => "none"
def PMvolMethod.value : PMvolMethod → String
  | .fuelFlow => "fuel_flow" | .foa3 => "foa3" | .none => "none"
def PMnvolMethod.value : PMnvolMethod → String
  | .meem => "meem" | .scope11 => "scope11" | .foa3 => "foa3" | .none => "none"

/-- The documented emissions options (`EmissionsConfig` without the `fuel` file name). -/
structure Config where
  cd : CDMode
  co2 : Bool
  h2o : Bool
  sox : Bool
  nox : GasMethod
  hc : GasMethod
  co : GasMethod
  pmvol : PMvolMethod
  pmnvol : PMnvolMethod
  apu : Bool
  gse : Bool
  lifecycle : Bool
  deriving DecidableEq, Repr, Inhabited

/-- Field names of `EmissionsConfig` in the order of `Config` (compared with the regenerated list). -/
def Config.fieldNames : List String :=
  ["climb_descent_mode", "co2_enabled", "h2o_enabled", "sox_enabled", "nox_method", "hc_method", "co_method",
   "pmvol_method", "pmnvol_method", "apu_enabled", "gse_enabled", "lifecycle_enabled"]

def boolStr (b : Bool) : String := if b then "true" else "false"

/-- value (as written in a configuration file, lower case) of the option called `o`. -/
def Config.optionValue (c : Config) (o : String) : Option String :=
  if o = "climb_descent_mode" then some c.cd.value
  else if o = "co2_enabled" then some (boolStr c.co2)
  else if o = "h2o_enabled" then some (boolStr c.h2o)
  else if o = "sox_enabled" then some (boolStr c.sox)
  else if o = "nox_method" then some c.nox.value
  else if o = "hc_method" then some c.hc.value
  else if o = "co_method" then some c.co.value
  else if o = "pmvol_method" then some c.pmvol.value
  else if o = "pmnvol_method" then some c.pmnvol.value
  else if o = "apu_enabled" then some (boolStr c.apu)
  else if o = "gse_enabled" then some (boolStr c.gse)
  else if o = "lifecycle_enabled" then some (boolStr c.lifecycle)
  else none

def bools : List Bool := [true, false]

/-- the full Cartesian product of documented option values. -/
def Config.all : List Config :=
  CDMode.all.flatMap fun cd => bools.flatMap fun co2 => bools.flatMap fun h2o => bools.flatMap fun sox =>
  GasMethod.all.flatMap fun nox => GasMethod.all.flatMap fun hc => GasMethod.all.flatMap fun co =>
  PMvolMethod.all.flatMap fun pmvol => PMnvolMethod.all.flatMap fun pmnvol =>
  bools.flatMap fun apu => bools.flatMap fun gse => bools.map fun lifecycle =>
    { cd, co2, h2o, sox, nox, hc, co, pmvol, pmnvol, apu, gse, lifecycle }

/-- size of the option space computed from the *regenerated* value lists. -/
def optionSpaceCard : Nat :=
  Gen.Options.climbDescentModeValues.length * 2 * 2 * 2
    * Gen.Options.einoxMethodValues.length * Gen.Options.einoxMethodValues.length * Gen.Options.einoxMethodValues.length
    * Gen.Options.pmvolMethodValues.length * Gen.Options.pmnvolMethodValues.length * 2 * 2 * 2

/-- Data-dependent facts that steer control flow (not options). -/
structure Env where
  /-- `pm.apu is not None` -/
  hasApu : Bool
  /-- `apu.fuel_kg_per_s != 0.0` -/
  apuRunning : Bool
  /-- `fuel.lifecycle_CO2 is not None` -/
  fuelLifecycle : Bool
  /-- `scope11_profile(edb).number is not None` (the code currently hard-wires `None`) -/
  scopeNumber : Bool
  deriving DecidableEq, Repr, Inhabited

/-- Code revision: which of the two repaired defects are present. -/
structure Rev where
  /-- `_thrust_percentages_from_categories` converts the stored strings to `ThrustMode` first -/
  thrustPctFix : Bool
  /-- `get_APU_emissions` guards the `lto_indices[SO2/SO4]` look-ups -/
  apuSoxFix : Bool
  deriving DecidableEq, Repr, Inhabited

def Rev.current : Rev := ⟨true, true⟩
def Rev.pinned : Rev := ⟨false, false⟩

/-! ## Abstract values and maps -/

/-- what the model knows about a stored value: structurally zero, or data-dependent. -/
inductive Abs | zero | data
  deriving DecidableEq, Repr, Inhabited

/-- a `SpeciesValues` dictionary, abstractly. -/
abbrev KMap := Species → Option Abs

namespace KMap
def empty : KMap := fun _ => none
def set (m : KMap) (k : Species) (v : Abs) : KMap := fun s => if s = k then some v else m s
/-- `dict.update` -/
def update (m m' : KMap) : KMap := fun s => match m' s with | some v => some v | none => m s
def has (m : KMap) (k : Species) : Bool := (m k).isSome
def keys (m : KMap) : List Species := Species.all.filter fun s => m.has s
def zeros (m : KMap) : List Species := Species.all.filter fun s => m s == some Abs.zero
/-- conditional assignment `if b: m[k] = v` -/
def setIf (m : KMap) (b : Bool) (k : Species) (v : Abs) : KMap := if b then m.set k v else m
/-- `{k: v for k in ks}` assigned in order -/
def setAll (m : KMap) (ks : List Species) (v : Abs) : KMap := ks.foldl (fun a k => a.set k v) m
end KMap

inductive Err
  | refused (option value : String)
  | internal (kind : String)
  deriving DecidableEq, Repr, Inhabited

/-! ## config/emissions.py -/

def Config.noxEnabled (c : Config) : Bool := c.nox != .none
def Config.hcEnabled (c : Config) : Bool := c.hc != .none
def Config.coEnabled (c : Config) : Bool := c.co != .none
def Config.pmvolEnabled (c : Config) : Bool := c.pmvol != .none
def Config.pmnvolEnabled (c : Config) : Bool := c.pmnvol != .none

/-- attributes read through `getattr(self, f'{label}_enabled')` in `enabled_species` (label = lower-cased name of the
    first species of each `add`, or the explicit `label=`); a missing one would be an `AttributeError`. -/
def enabledLabels : List String :=
  ["co2_enabled", "h2o_enabled", "hc_enabled", "co_enabled", "nox_enabled", "pmvol_enabled", "pmnvol_enabled", "sox_enabled"]

/-- `*_enabled` attributes read directly by the emissions code. -/
def switchAttributes : List String := ["apu_enabled", "gse_enabled", "lifecycle_enabled", "nox_enabled", "pmvol_enabled", "pmnvol_enabled"]

/-- `add(*species, label)` of `enabled_species`: the species are added when the `<label>_enabled` flag is set. -/
def addIf (flag : Bool) (sp : List Species) : List Species := if flag then sp else []

/-- `EmissionsConfig.enabled_species`, in insertion order. -/
def enabledSpecies (c : Config) : List Species :=
  addIf c.co2 [.CO2] ++ addIf c.h2o [.H2O] ++ addIf c.hcEnabled [.HC] ++ addIf c.coEnabled [.CO]
    ++ addIf c.noxEnabled [.NOx, .NO, .NO2, .HONO]
    ++ addIf c.pmvolEnabled [.PMvol, .OCic]
    ++ addIf c.pmnvolEnabled [.PMnvol, .PMnvolGMD]
    ++ (if c.pmnvol = .scope11 ∨ c.pmnvol = .meem then addIf c.pmnvolEnabled [.PMnvolN] else [])
    ++ addIf c.sox [.SOx, .SO2, .SO4]

/-- `species in config.emissions.enabled_species` -/
def en (c : Config) (s : Species) : Bool := (enabledSpecies c).contains s

/-! ## emissions/utils.py: constant_species_values -/

def constantSpecies (c : Config) : KMap :=
  let m := KMap.empty
  let m := m.setIf (en c .CO2) .CO2 .data
  let m := m.setIf (en c .H2O) .H2O .data
  if en c .SO2 || en c .SO4 then
    let m := m.setIf (en c .SOx) .SOx .data
    let m := m.setIf (en c .SO2) .SO2 .data
    m.setIf (en c .SO4) .SO4 .data
  else m

/-- `for species, value in constant_species_values(fuel).items(): if species in enabled: idx[species] = …` -/
def constantPart (c : Config) : KMap := fun s => if en c s then constantSpecies c s else none

/-! ## emissions/trajectory.py -/

/-- `compute_EI_NOx` (the `case _` arm has no counterpart: the method type is closed, see `C11.gas_values`). -/
def trajNOx : GasMethod → KMap
  | .none => KMap.empty
  | .bffm2 => KMap.empty.setAll [.NOx, .NO, .NO2, .HONO] .data
  | .p3t3 => KMap.empty   -- prints "P3T3 method not implemented yet.." and returns nothing

/-- `needs_hc` -/
def needsHc (c : Config) : Bool := en c .HC || (en c .PMvol && c.pmvol == .foa3)

/-- `_calculate_EI_PMvol(thrust_modes, fuel_flow, hc_ei)`; `hcEi` = "hc_ei is not None". -/
def trajPMvol (r : Rev) (pmvolEnabled : Bool) (m : PMvolMethod) (hcEi : Bool) : Except Err KMap :=
  if !pmvolEnabled || m == .none then pure KMap.empty
  else match m with
    | .fuelFlow => pure (KMap.empty.setAll [.PMvol, .OCic] .data)
    | .foa3 =>
      if !hcEi then throw (.internal "RuntimeError")
      -- `_thrust_percentages_from_categories`: iterating a ThrustModeArray yields numpy.str_
      else if !r.thrustPctFix then throw (.internal "AttributeError")
      else pure (KMap.empty.setAll [.PMvol, .OCic] .data)
    | .none => pure KMap.empty

/-- `_calculate_EI_PMnvol`; `nEnabled` = `Species.PMnvolN in enabled_species`. -/
def trajPMnvol (m : PMnvolMethod) (nEnabled scopeNumber : Bool) : Except Err KMap :=
  match m with
  | .none => pure KMap.empty
  | .meem => pure (((KMap.empty.set .PMnvolGMD .data).set .PMnvol .data).setIf nEnabled .PMnvolN .data)
  | .scope11 =>
    pure (((KMap.empty.set .PMnvol .data).set .PMnvolGMD .zero).setIf (scopeNumber && nEnabled) .PMnvolN .data)
  | .foa3 => throw (.refused "pmnvol_method" "foa3")

/-- `get_trajectory_emissions`: keys of `indices` (the `emissions` map gets the same keys). -/
def trajIndices (r : Rev) (c : Config) (e : Env) : Except Err KMap := do
  let idx := constantPart c
  let idx := if en c .NOx then idx.update (trajNOx c.nox) else idx
  let hcEi := needsHc c
  let idx := if hcEi then idx.setIf (en c .HC) .HC .data else idx
  let idx := idx.setIf (en c .CO) .CO .data
  let pv ← trajPMvol r c.pmvolEnabled c.pmvol hcEi
  let idx := idx.update pv
  if c.pmnvolEnabled then
    let pn ← trajPMnvol c.pmnvol (en c .PMnvolN) e.scopeNumber
    pure (idx.update pn)
  else pure idx

/-! ## emissions/lto.py -/

/-- `_lto_nox` -/
def ltoNOx (c : Config) : KMap :=
  if !c.noxEnabled || c.nox == .none then KMap.empty
  else KMap.empty.setAll [.NOx, .NO, .NO2, .HONO] .data

/-- `_lto_pmvol` -/
def ltoPMvol : PMvolMethod → KMap
  | .none => KMap.empty.setAll [.PMvol, .OCic] .zero     -- empty ThrustModeValues read as 0.0
  | .fuelFlow => KMap.empty.setAll [.PMvol, .OCic] .data
  | .foa3 => KMap.empty.setAll [.PMvol, .OCic] .data

/-- `_lto_pmnvol`; `nEnabled` = `Species.PMnvolN in enabled_species`. -/
def ltoPMnvol (m : PMnvolMethod) (nEnabled scopeNumber : Bool) : KMap :=
  match m with
  | .foa3 | .meem => KMap.empty.set .PMnvol .zero          -- placeholder ThrustModeValues(0.0)
  | .scope11 => (KMap.empty.set .PMnvol .data).setIf (scopeNumber && nEnabled) .PMnvolN .data
  | .none => KMap.empty.set .PMnvol .zero

/-- `get_LTO_emissions`: keys of `lto_indices` (`lto_emissions` gets the same keys). -/
def ltoIndices (c : Config) (e : Env) : KMap :=
  let idx := constantPart c
  let idx := idx.update (ltoNOx c)
  let idx := idx.setIf (en c .HC) .HC .data
  let idx := idx.setIf (en c .CO) .CO .data
  let idx := if en c .PMvol then idx.update (ltoPMvol c.pmvol) else idx
  let idx := if en c .PMnvol then idx.update (ltoPMnvol c.pmnvol (en c .PMnvolN) e.scopeNumber) else idx
  idx.set .PMnvolGMD .zero

/-! ## emissions/apu.py -/

/-- `lto_indices[s][IDLE] if apu_running else 0.0`, with (`fix`) or without the membership guard. -/
def apuSulfur (r : Rev) (lto : KMap) (running : Bool) (s : Species) : Except Err Abs :=
  if running then
    match lto s with
    | some _ => pure .data
    | none => if r.apuSoxFix then pure .zero else throw (.internal "KeyError")
  else pure .zero

/-- `get_APU_emissions`: keys of `indices` (`emissions` gets the same keys). -/
def apuIndices (r : Rev) (c : Config) (e : Env) (lto : KMap) : Except Err KMap := do
  let so2 ← apuSulfur r lto e.apuRunning .SO2
  let so4 ← apuSulfur r lto e.apuRunning .SO4
  let idx := ((KMap.empty.set .SO2 so2).set .SO4 so4).set .SOx (if so2 = .zero ∧ so4 = .zero then .zero else .data)
  let idx := (idx.set .PMnvol .data).set .PMvol .data
  let idx := idx.setIf (c.pmnvol == .scope11 || c.pmnvol == .meem) .PMnvolN .zero
  let idx := (idx.set .PMnvolGMD .zero).set .OCic .zero
  let idx := idx.setAll [.NO, .NO2, .HONO, .NOx, .HC, .CO, .H2O] .data
  pure (idx.set .CO2 (if e.apuRunning then .data else .zero))

/-! ## emissions/gse.py -/

def gseEmissions : KMap :=
  let m := KMap.empty.setAll [.CO2, .NOx, .HC, .CO, .H2O, .NO, .NO2, .HONO, .SO4, .SO2, .SOx, .PMvol, .PMnvol] .data
  m.setAll [.PMnvolN, .PMnvolGMD, .OCic] .zero

/-! ## emissions/emission.py -/

/-- `sum_total_emissions`: one entry per member of `Species`. -/
def totalKeys : KMap := KMap.empty.setAll Species.all .data

structure Inventory where
  trajIdx : KMap
  trajEm : KMap
  ltoIdx : KMap
  ltoEm : KMap
  apuIdx : KMap
  apuEm : KMap
  gse : KMap
  total : KMap
  /-- the life-cycle CO₂ adjustment was added to the CO₂ total -/
  lifecycle : Bool

/-- `compute_emissions` for code revision `r`. -/
def outcomeWith (r : Rev) (c : Config) (e : Env) : Except Err Inventory := do
  let traj ← trajIndices r c e
  let lto := ltoIndices c e
  let apu ← if c.apu && e.hasApu then apuIndices r c e lto else pure KMap.empty
  let gse := if c.gse then gseEmissions else KMap.empty
  let total := totalKeys
  let inv : Inventory := { trajIdx := traj, trajEm := traj, ltoIdx := lto, ltoEm := lto, apuIdx := apu, apuEm := apu,
                           gse := gse, total := total, lifecycle := false }
  if en c .CO2 && c.lifecycle then
    -- get_lifecycle_emissions
    if !e.fuelLifecycle then throw (.refused "lifecycle_enabled" "true")
    else match total .CO2 with      -- `emissions.total_emissions[Species.CO2] += …`
      | some _ => pure { inv with lifecycle := true }
      | none => throw (.internal "KeyError")
  else pure inv

/-- the code under test (work-tree branch). -/
def outcome (c : Config) (e : Env) : Except Err Inventory := outcomeWith Rev.current c e

/-! ## sum_total_emissions, numerically -/

section
variable {α : Type} [Add α] [Lit α]

/-- left-to-right sum from a start value (`total += …`, Python `sum`). -/
def addAll (start : α) : List α → α
  | [] => start
  | x :: xs => addAll (start + x) xs

/-- per-species values of the four parts as they enter `sum_total_emissions`. -/
structure Parts (α : Type) where
  traj : Option (List α)
  lto : Option (List α)
  apu : Option α
  gse : Option α

/-- total for one species: `0.0 (+ np.sum(traj)) (+ lto.sum()) (+ apu if apu_enabled) (+ gse if gse_enabled)`,
    then `+ lifecycle` when the adjustment applies (CO₂ only). -/
def total (apuOn gseOn : Bool) (p : Parts α) (lifecycle : Option α) : α :=
  let t : α := zero
  let t := match p.traj with | some xs => t + addAll zero xs | none => t
  let t := match p.lto with | some xs => t + addAll zero xs | none => t
  let t := match apuOn, p.apu with | true, some a => t + a | _, _ => t
  let t := match gseOn, p.gse with | true, some g => t + g | _, _ => t
  match lifecycle with | some l => t + l | none => t
end

/-! ## Driver ops -/

open Aeic.Wire

def parseCD (s : String) : Except String CDMode :=
  match CDMode.all.find? (·.value == s) with | some v => pure v | none => throw s!"unknown climb_descent_mode {s}"
def parseGas (s : String) : Except String GasMethod :=
  match GasMethod.all.find? (·.value == s) with | some v => pure v | none => throw s!"unknown EINOxMethod {s}"
def parsePMvol (s : String) : Except String PMvolMethod :=
  match PMvolMethod.all.find? (·.value == s) with | some v => pure v | none => throw s!"unknown PMvolMethod {s}"
def parsePMnvol (s : String) : Except String PMnvolMethod :=
  match PMnvolMethod.all.find? (·.value == s) with | some v => pure v | none => throw s!"unknown PMnvolMethod {s}"

def getConfig (j : Json) : Except String Config := do
  let s (k : String) : Except String String := do getStr (← field j k)
  let b (k : String) : Except String Bool := do getBool (← field j k)
  pure { cd := ← parseCD (← s "climb_descent_mode"), co2 := ← b "co2_enabled", h2o := ← b "h2o_enabled",
         sox := ← b "sox_enabled", nox := ← parseGas (← s "nox_method"), hc := ← parseGas (← s "hc_method"),
         co := ← parseGas (← s "co_method"), pmvol := ← parsePMvol (← s "pmvol_method"),
         pmnvol := ← parsePMnvol (← s "pmnvol_method"), apu := ← b "apu_enabled", gse := ← b "gse_enabled",
         lifecycle := ← b "lifecycle_enabled" }

def getEnv (j : Json) : Except String Env := do
  let b (k : String) : Except String Bool := do getBool (← field j k)
  pure { hasApu := ← b "has_apu", apuRunning := ← b "apu_running", fuelLifecycle := ← b "fuel_lifecycle",
         scopeNumber := ← b "scope_number" }

def getRev (j : Json) : Except String Rev :=
  match optField j "rev" with
  | none => pure Rev.current
  | some v => do
    match (← getStr v) with
    | "current" => pure Rev.current
    | "pinned" => pure Rev.pinned
    | "thrust_only" => pure ⟨true, false⟩
    | "apu_only" => pure ⟨false, true⟩
    | s => throw s!"unknown rev {s}"

def putKeys (m : KMap) : Json := putStrs (m.keys.map Species.name)
def putZeros (m : KMap) : Json := putStrs (m.zeros.map Species.name)

def putOutcome (c : Config) (o : Except Err Inventory) : Json :=
  let enabled := putStrs ((Species.all.filter (en c)).map Species.name)
  match o with
  | .error (.refused opt v) => obj [("class", "refused"), ("option", opt), ("value", v), ("enabled", enabled)]
  | .error (.internal k) => obj [("class", "internal"), ("kind", k), ("enabled", enabled)]
  | .ok inv =>
    obj [("class", "ok"), ("enabled", enabled), ("lifecycle", Json.bool inv.lifecycle),
         ("keys", obj [("trajectory_indices", putKeys inv.trajIdx), ("trajectory_emissions", putKeys inv.trajEm),
                       ("lto_indices", putKeys inv.ltoIdx), ("lto_emissions", putKeys inv.ltoEm),
                       ("apu_indices", putKeys inv.apuIdx), ("apu_emissions", putKeys inv.apuEm),
                       ("gse_emissions", putKeys inv.gse), ("total_emissions", putKeys inv.total)]),
         ("zeros", obj [("trajectory_indices", putZeros inv.trajIdx), ("trajectory_emissions", putZeros inv.trajEm),
                        ("lto_indices", putZeros inv.ltoIdx), ("lto_emissions", putZeros inv.ltoEm),
                        ("apu_indices", putZeros inv.apuIdx), ("apu_emissions", putZeros inv.apuEm),
                        ("gse_emissions", putZeros inv.gse)])]

def optFs (j : Json) (k : String) : Except String (Option (List Float)) :=
  match optField j k with | none => pure none | some v => do pure (some (← getFs v))
def optF (j : Json) (k : String) : Except String (Option Float) :=
  match optField j k with | none => pure none | some v => do pure (some (← getF v))

def handle (op : String) (j : Json) : Except String Json :=
  match op with
  | "outcome" => do
      let c ← getConfig (← field j "cfg")
      let e ← getEnv (← field j "env")
      let r ← getRev j
      pure (putOutcome c (outcomeWith r c e))
  | "enabled" => do
      let c ← getConfig (← field j "cfg")
      pure (putStrs ((enabledSpecies c).map Species.name))
  | "total" => do
      let p : Parts Float := { traj := ← optFs j "traj", lto := ← optFs j "lto", apu := ← optF j "apu", gse := ← optF j "gse" }
      let apuOn ← getBool (← field j "apu_on")
      let gseOn ← getBool (← field j "gse_on")
      pure (putF (total apuOn gseOn p (← optF j "lifecycle")))
  | "space" =>
      pure (obj [("card", putNat optionSpaceCard), ("all_length", putNat Config.all.length),
                 ("fields", putStrs Config.fieldNames), ("species", putStrs (Species.all.map Species.name))])
  | _ => throw s!"unknown c11 op {op}"

end Aeic.Dispatch
