/-
  A small imperative language for the thread-ownership code of `TrajectoryStore.__init__` (and the helpers it calls), its
  compilation to a flat instruction list, a two-thread small-step semantics, and executable invariant-set checks.

  The *program* (`Aeic.Gen.guardProgram`, `AeicModel/Generated/Guard.lean`) is regenerated from the Python source by the
  translator on every check run; a candidate invariant set for it (`Aeic.Gen.guardReach`,
  `AeicModel/Generated/GuardReach.lean`) is computed by `Scripts/GuardReachGen.lean` (untrusted: a search), and the
  kernel then *checks* that the set contains the initial state, is closed under every step of either thread and contains
  no state in which both threads own a store (`AeicProofs/Properties/C20.lean`, `generated_guard_mutual_exclusion`).

  Semantics. Values are `None` or the identifier of one of the two threads. Every access to shared state (reading or
  writing the class attribute, acquiring or releasing the lock) is one atomic instruction, and so is every thread-local
  instruction, so the interleavings of this model are finer than source lines. A thread whose constructor call returned
  (normally or by raising) may call the constructor again, any number of times; `has0`/`has1` record that a call of the
  thread has succeeded, i.e. that the thread has constructed a store. `choice` is a branch the model does not decide
  (a condition on constructor arguments; code that may or may not raise): the schedule carries the choice bit.
-/
namespace Aeic.GuardLang

/-- a value of the class attribute or of a local: `None` or the identifier of one of the two racing threads -/
inductive Val | none | tid (t : Bool)
deriving DecidableEq, Repr, Inhabited

/-- thread-local (pure) expressions -/
inductive PExpr | none | me | loc (i : Nat)
deriving DecidableEq, Repr, Inhabited

inductive Cond
  | tt
  | isNone (e : PExpr)
  | truthy (e : PExpr)
  | eq (a b : PExpr)
  | not (c : Cond)
  | and (a b : Cond)
  | or (a b : Cond)
deriving DecidableEq, Repr, Inhabited

inductive GStmt
  | withLock (body : List GStmt)
  | ite (c : Cond) (t e : List GStmt)
  | raise
  | readOwner (i : Nat)
  | setOwner (e : PExpr)
  | setLoc (i : Nat) (e : PExpr)
  | acquire
  | release
  | choice (a b : List GStmt)     -- nondeterministic: e.g. `try: <unrelated code that may raise> except: <handler>`
deriving Repr

inductive Instr
  | acquire
  | release
  | br (c : Cond) (elseTarget : Nat)
  | brAny (elseTarget : Nat)      -- the scheduler's choice bit decides
  | readOwner (i : Nat)
  | setOwner (e : PExpr)
  | setLoc (i : Nat) (e : PExpr)
  | jump (target : Nat)
  | halt (ok : Bool)
deriving Repr, DecidableEq, Inhabited

mutual
def compileStmt (at_ depth : Nat) : GStmt → List Instr
  | .withLock body =>
    let b := compileBlock (at_ + 1) (depth + 1) body
    [.acquire] ++ b ++ [.release]
  | .ite c t e =>
    let tb := compileBlock (at_ + 1) depth t
    let eAt := at_ + 1 + tb.length + 1
    let eb := compileBlock eAt depth e
    [.br c eAt] ++ tb ++ [.jump (eAt + eb.length)] ++ eb
  | .raise => List.replicate depth .release ++ [.halt false]
  | .readOwner i => [.readOwner i]
  | .setOwner e => [.setOwner e]
  | .setLoc i e => [.setLoc i e]
  | .acquire => [.acquire]
  | .release => [.release]
  | .choice a b =>
    let tb := compileBlock (at_ + 1) depth a
    let eAt := at_ + 1 + tb.length + 1
    let eb := compileBlock eAt depth b
    [.brAny eAt] ++ tb ++ [.jump (eAt + eb.length)] ++ eb

def compileBlock (at_ depth : Nat) : List GStmt → List Instr
  | [] => []
  | s :: rest =>
    let c := compileStmt at_ depth s
    c ++ compileBlock (at_ + c.length) depth rest
end

def compile (p : List GStmt) : List Instr := compileBlock 0 0 p ++ [.halt true]

structure S where
  pc0 : Nat
  pc1 : Nat
  owner : Val
  lock : Option Bool
  loc0 : List Val
  loc1 : List Val
  has0 : Bool           -- thread 0 has had a constructor call succeed
  has1 : Bool
deriving DecidableEq, Repr

def S.init : S := ⟨0, 0, .none, none, [], [], false, false⟩

def pcOf (s : S) (t : Bool) : Nat := if t then s.pc1 else s.pc0
def setPc (s : S) (t : Bool) (n : Nat) : S := if t then { s with pc1 := n } else { s with pc0 := n }
def locOf (s : S) (t : Bool) : List Val := if t then s.loc1 else s.loc0

/-- write local `i` (the list grows with `none` as needed; trailing structure is canonical because it only grows) -/
def setAt : List Val → Nat → Val → List Val
  | [], 0, v => [v]
  | [], i + 1, v => .none :: setAt [] i v
  | _ :: r, 0, v => v :: r
  | x :: r, i + 1, v => x :: setAt r i v

def setLocal (s : S) (t : Bool) (i : Nat) (v : Val) : S :=
  if t then { s with loc1 := setAt s.loc1 i v } else { s with loc0 := setAt s.loc0 i v }

def evalP (s : S) (t : Bool) : PExpr → Val
  | .none => .none
  | .me => .tid t
  | .loc i => (locOf s t).getD i .none

def evalC (s : S) (t : Bool) : Cond → Bool
  | .tt => true
  | .isNone e => evalP s t e == .none
  | .truthy e => evalP s t e != .none
  | .eq a b => evalP s t a == evalP s t b
  | .not c => !evalC s t c
  | .and a b => evalC s t a && evalC s t b
  | .or a b => evalC s t a || evalC s t b

/-- a constructor call of thread `t` returned (`ok` = without raising): remember a success, and be ready to call again -/
def finish (s : S) (t : Bool) (ok : Bool) : S :=
  if t then { s with pc1 := 0, loc1 := [], has1 := s.has1 || ok } else { s with pc0 := 0, loc0 := [], has0 := s.has0 || ok }

def step (prog : List Instr) (s : S) (t : Bool) (alt : Bool := false) : S :=
  let pc := pcOf s t
  match prog[pc]? with
  | none => s
  | some i =>
    match i with
    | .acquire => if s.lock = none then setPc { s with lock := some t } t (pc + 1) else s
    | .release => setPc { s with lock := if s.lock = some t then none else s.lock } t (pc + 1)
    | .br c e => setPc s t (if evalC s t c then pc + 1 else e)
    | .brAny e => setPc s t (if alt then e else pc + 1)
    | .readOwner i => setPc (setLocal s t i s.owner) t (pc + 1)
    | .setOwner e => setPc { s with owner := evalP s t e } t (pc + 1)
    | .setLoc i e => setPc (setLocal s t i (evalP s t e)) t (pc + 1)
    | .jump n => setPc s t n
    | .halt ok => finish s t ok

/-- a schedule entry: which thread moves, and the choice bit it uses at a nondeterministic branch -/
abbrev Act := Bool × Bool

def run (prog : List Instr) (s : S) : List Act → S
  | [] => s
  | a :: as => run prog (step prog s a.1 a.2) as

/-- both threads have constructed a store -/
def bothOk (s : S) : Bool := s.has0 && s.has1

def acts : List Act := [(false, false), (false, true), (true, false), (true, true)]

def expand (prog : List Instr) (seen : List S) : List S :=
  seen.foldl (fun acc s =>
    acts.foldl (fun acc a =>
      let n := step prog s a.1 a.2
      if acc.contains n then acc else acc ++ [n]) acc) seen

def reach (prog : List Instr) : Nat → List S → List S
  | 0, seen => seen
  | n + 1, seen =>
    let nxt := expand prog seen
    if nxt.length = seen.length then seen else reach prog n nxt

def closed (prog : List Instr) (l : List S) : Bool :=
  l.all (fun s => acts.all (fun a => l.contains (step prog s a.1 a.2)))


/-! bucketed invariant sets: a cheap `Nat` key first, structural comparison only inside the bucket -/
def valCode : Val → Nat | .none => 0 | .tid false => 1 | .tid true => 2
def lockCode : Option Bool → Nat | none => 0 | some false => 1 | some true => 2
def key (s : S) : Nat :=
  ((((s.pc0 * 256 + s.pc1) * 4 + valCode s.owner) * 4 + lockCode s.lock) * 2 + s.has0.toNat) * 2 + s.has1.toNat

inductive Tree
  | leaf
  | node (l : Tree) (k : Nat) (b : List S) (r : Tree)

def Tree.mem : Tree → Nat → S → Bool
  | .leaf, _, _ => false
  | .node l k b r, key, s => if Nat.blt key k then l.mem key s else if Nat.blt k key then r.mem key s else b.contains s

def Tree.all (p : S → Bool) : Tree → Bool
  | .leaf => true
  | .node l _ b r => l.all p && b.all p && r.all p

def closedT (prog : List Instr) (t : Tree) : Bool :=
  t.all (fun s => acts.all (fun a => t.mem (key (step prog s a.1 a.2)) (step prog s a.1 a.2)))

def Tree.build : (fuel : Nat) → List (Nat × List S) → Tree
  | 0, _ => .leaf
  | _, [] => .leaf
  | f + 1, l =>
    let m := l.length / 2
    match l.drop m with
    | [] => .leaf
    | (k, b) :: rest => .node (Tree.build f (l.take m)) k b (Tree.build f rest)

end Aeic.GuardLang

