/-
  A tiny language for the thread guard at the top of `TrajectoryStore.__init__`, its compilation to a flat
  instruction list, a two-thread small-step semantics, and an executable reachability computation.

  The *program* (`Aeic.Gen.guardProgram`) is regenerated from the Python source by the translator on every check run
  (`AeicModel/Generated/Guard.lean`); the mutual-exclusion theorem for it is re-proved by the kernel on every build
  (`AeicProofs/Properties/C20.lean`, `generated_guard_mutual_exclusion`).
-/
namespace Aeic.GuardLang

/-- statement forms the translator recognises in the guard region -/
inductive GStmt
  | withLock (body : List GStmt)          -- `with <class-level lock>:`
  | ifOwnerSet (t e : List GStmt)         -- `if TrajectoryStore.active_in_thread is not None:`
  | ifOwnerNotMe (t e : List GStmt)       -- `if TrajectoryStore.active_in_thread != threading.get_ident():`
  | raise                                 -- `raise RuntimeError(...)`
  | setOwnerMe                            -- `TrajectoryStore.active_in_thread = threading.get_ident()`
deriving Repr

inductive Instr
  | acquire
  | release
  | brOwnerSet (elseTarget : Nat)         -- fall through if owner is set, else jump
  | brOwnerNotMe (elseTarget : Nat)       -- fall through if owner ≠ me, else jump
  | setOwner
  | jump (target : Nat)
  | halt (ok : Bool)
deriving Repr, DecidableEq, Inhabited

mutual
/-- compile a statement placed at address `at_`, inside `depth` enclosing `with` blocks -/
def compileStmt (at_ depth : Nat) : GStmt → List Instr
  | .withLock body =>
    let b := compileBlock (at_ + 1) (depth + 1) body
    [.acquire] ++ b ++ [.release]
  | .ifOwnerSet t e =>
    let tb := compileBlock (at_ + 1) depth t
    let eAt := at_ + 1 + tb.length + 1
    let eb := compileBlock eAt depth e
    [.brOwnerSet eAt] ++ tb ++ [.jump (eAt + eb.length)] ++ eb
  | .ifOwnerNotMe t e =>
    let tb := compileBlock (at_ + 1) depth t
    let eAt := at_ + 1 + tb.length + 1
    let eb := compileBlock eAt depth e
    [.brOwnerNotMe eAt] ++ tb ++ [.jump (eAt + eb.length)] ++ eb
  | .raise => List.replicate depth .release ++ [.halt false]   -- leaving the `with` blocks releases the lock
  | .setOwnerMe => [.setOwner]

def compileBlock (at_ depth : Nat) : List GStmt → List Instr
  | [] => []
  | s :: rest =>
    let c := compileStmt at_ depth s
    c ++ compileBlock (at_ + c.length) depth rest
end

def compile (p : List GStmt) : List Instr := compileBlock 0 0 p ++ [.halt true]

/-- two racing threads -/
structure S where
  pc0 : Nat
  pc1 : Nat
  owner : Option Bool      -- which thread (false = thread 0, true = thread 1) is recorded
  lock : Option Bool
deriving DecidableEq, Repr

def S.init : S := ⟨0, 0, none, none⟩

def pcOf (s : S) (t : Bool) : Nat := if t then s.pc1 else s.pc0
def setPc (s : S) (t : Bool) (n : Nat) : S := if t then { s with pc1 := n } else { s with pc0 := n }

/-- thread `t` executes one instruction (a blocked acquire and a halted thread do nothing) -/
def step (prog : List Instr) (s : S) (t : Bool) : S :=
  let pc := pcOf s t
  match prog[pc]? with
  | none => s
  | some i =>
    match i with
    | .acquire => if s.lock = none then setPc { s with lock := some t } t (pc + 1) else s
    | .release => setPc { s with lock := if s.lock = some t then none else s.lock } t (pc + 1)
    | .brOwnerSet e => setPc s t (if s.owner.isSome then pc + 1 else e)
    | .brOwnerNotMe e => setPc s t (if s.owner ≠ some t then pc + 1 else e)
    | .setOwner => setPc { s with owner := some t } t (pc + 1)
    | .jump n => setPc s t n
    | .halt _ => s

def run (prog : List Instr) (s : S) : List Bool → S
  | [] => s
  | t :: ts => run prog (step prog s t) ts

/-- has thread `t` finished successfully? -/
def okAt (prog : List Instr) (s : S) (t : Bool) : Bool :=
  match prog[pcOf s t]? with
  | some (.halt true) => true
  | _ => false

def bothOk (prog : List Instr) (s : S) : Bool := okAt prog s false && okAt prog s true

/-- breadth-first closure of a state list under `step` (fuel-bounded; the closedness is *checked*, not assumed) -/
def expand (prog : List Instr) (seen : List S) : List S :=
  seen.foldl (fun acc s =>
    let a := step prog s false
    let b := step prog s true
    let acc := if acc.contains a then acc else acc ++ [a]
    if acc.contains b then acc else acc ++ [b]) seen

def reach (prog : List Instr) : Nat → List S → List S
  | 0, seen => seen
  | n + 1, seen =>
    let nxt := expand prog seen
    if nxt.length = seen.length then seen else reach prog n nxt

def closed (prog : List Instr) (l : List S) : Bool :=
  l.all (fun s => l.contains (step prog s false) && l.contains (step prog s true))

end Aeic.GuardLang
