/-
  Model of the thread-confinement guard at the top of `TrajectoryStore.__init__` (C20), at source-line granularity:
  one instruction per traced line of the guard region.  `locked = true` is the code as it exists (after the `fix:`
  commit: check-and-set under a class-level lock); `locked = false` is the original check-then-set, kept for the race witness.

      with TrajectoryStore._active_in_thread_lock:                      -- acquire          … release (line revisited on exit)
          if TrajectoryStore.active_in_thread is not None:              -- read
              if TrajectoryStore.active_in_thread != threading.get_ident():   -- compare
                  raise RuntimeError(                                   -- raise (3 line events)
                      '…')
          else:
              TrajectoryStore.active_in_thread = threading.get_ident()  -- write
-/
import AeicModel.Wire
open Lean

namespace Aeic.ThreadGuard

inductive PC
  | acquire
  | read
  | write
  | compare
  | raise (k : Nat)          -- k line events of the `raise` statement still to come
  | release (ok : Bool)
  | done (ok : Bool)
deriving DecidableEq, Repr

structure G where
  locked : Bool                -- variant: with or without the lock
  owner : Option Nat           -- TrajectoryStore.active_in_thread
  lock : Option Nat            -- holder of _active_in_thread_lock
  pc : Nat → PC

/-- a thread about to call the constructor -/
def entry (locked : Bool) : PC := if locked then .acquire else .read

def G.init (locked : Bool) : G := ⟨locked, none, none, fun _ => entry locked⟩

def setPc (g : G) (t : Nat) (p : PC) : G := { g with pc := fun u => if u = t then p else g.pc u }

/-- thread `t` executes its next traced line (a blocked `acquire` and a finished thread do nothing) -/
def step (g : G) (t : Nat) : G :=
  match g.pc t with
  | .acquire => if g.lock = none then setPc { g with lock := some t } t .read else g
  | .read => match g.owner with
    | none => setPc g t .write
    | some _ => setPc g t .compare
  | .write => setPc { g with owner := some t } t (if g.locked then .release true else .done true)
  | .compare => if g.owner = some t then setPc g t (if g.locked then .release true else .done true)
                else setPc g t (.raise 3)
  | .raise (k + 2) => setPc g t (.raise (k + 1))
  | .raise _ => setPc g t (if g.locked then .release false else .done false)
  | .release ok => setPc { g with lock := none } t (.done ok)
  | .done _ => g

def run (g : G) : List Nat → G
  | [] => g
  | t :: ts => run (step g t) ts

/-- a thread that has finished one constructor call calls the constructor again -/
def again (g : G) (t : Nat) : G :=
  match g.pc t with
  | .done _ => setPc g t (entry g.locked)
  | _ => g

/-! ### wire -/
open Aeic.Wire

def pcStr : PC → String
  | .acquire => "acquire" | .read => "read" | .write => "write" | .compare => "compare"
  | .raise k => s!"raise{k}" | .release ok => s!"release:{ok}" | .done ok => if ok then "ok" else "refused"

/-- number of traced lines a thread executes from entry to completion, given the path taken -/
def handle (op : String) (j : Json) : Except String Json := do
  match op with
  | "run" =>
    let locked ← getBool (← field j "locked")
    let sched ← getNats (← field j "schedule")
    let n ← getNat (fieldD j "threads" (putNat 2))
    let g := run (G.init locked) sched
    -- executed (non-blocked, non-finished) steps per thread
    let rec count (g : G) (s : List Nat) (acc : List Nat) : List Nat :=
      match s with
      | [] => acc
      | t :: ts =>
        let g' := step g t
        let moved := g'.pc t != g.pc t
        count g' ts (if moved then acc.mapIdx (fun i c => if i = t then c + 1 else c) else acc)
    let cnt := count (G.init locked) sched (List.replicate n 0)
    pure (obj [("pcs", putStrs ((List.range n).map (fun t => pcStr (g.pc t)))), ("steps", putNats cnt),
               ("owner", match g.owner with | some o => putNat o | none => Json.null)])
  | _ => throw s!"unknown threadguard op {op}"

end Aeic.ThreadGuard
