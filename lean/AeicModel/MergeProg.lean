/-
  The effect program of `TrajectoryStore.merge` (C09 / C10): which file-system effects the source performs, in which order,
  which of them are inside the `try`, and what the `except` handler undoes.  The *program* (`Aeic.Gen.mergeProg`,
  `AeicModel/Generated/MergeProg.lean`) is regenerated from `trajectories/store.py` by `harness/common/mergeprog.py` on every
  check run (static helpers of the class that `merge` calls are read too, so that an effect hidden in a helper is seen).
  `progSteps` interprets a program as the step list of the hand-written protocol model (`Merge.mergeSteps`); that the two are
  equal for every list of inputs is a theorem of `Properties/C10.lean`.
-/
import AeicModel.Merge

namespace Aeic.MergeProg
open Aeic.Merge

inductive Eff
  | validate                               -- code that can refuse (raise) and has no file-system effect
  | mkdir                                  -- `os.mkdir(output_store)`
  | moveInputs (recorded : Bool)           -- loop `os.rename(p, dest)`; `recorded`: each move is appended to the undo list AFTER it
  | buildIndex (file : String) (cond : Bool)   -- `_create_merged_store_index` (creates `file`); `cond`: only if indexable
  | writeFile (name : String)              -- `open(output / name, 'w')` + dump
  | rename (src dst : String)              -- `os.rename(output / src, output / dst)`
deriving DecidableEq, Repr

structure Handler where
  catchesAll : Bool          -- `except BaseException:` or a bare `except:`
  removes : List String      -- files unlinked in the output directory
  restoresMoved : Bool       -- every recorded move is renamed back
  reversed : Bool            -- … in reverse order
  rmdir : Bool               -- the output directory is removed
  reraises : Bool            -- the handler ends in a bare `raise`
deriving DecidableEq, Repr

structure Prog where
  pre : List Eff             -- before the `try`
  body : List Eff            -- inside the `try`
  handler : Option Handler
deriving DecidableEq, Repr

def Eff.isEffect : Eff → Bool
  | .validate => false
  | _ => true

/-- every refusal comes before the first effect -/
def validatesFirst (p : Prog) : Bool :=
  let all := p.pre ++ p.body
  (all.dropWhile (fun e => !e.isEffect)).all Eff.isEffect

/-- only the creation of the (empty) output directory happens outside the `try` -/
def effectsProtected (p : Prog) : Bool :=
  (p.pre.filter Eff.isEffect) == [.mkdir] || ((p.pre.filter Eff.isEffect) == [] && p.body.head? == some .mkdir)

/-- files the `try` body creates in the output directory -/
def created : List Eff → List String
  | [] => []
  | .buildIndex f _ :: r => f :: created r
  | .writeFile n :: r => n :: created r
  | .rename s d :: r => d :: (created r)      -- (the source name was created by an earlier writeFile and is listed there)
  | _ :: r => created r

/-- the file that announces a complete merged store is written by the LAST effect -/
def isMetadataWrite : Eff → Bool
  | .writeFile n => n == "metadata.json"
  | .rename _ d => d == "metadata.json"
  | _ => false

def metadataLast (p : Prog) : Bool :=
  match p.body.getLast? with
  | some e => isMetadataWrite e
  | none => false

def movesRecorded (p : Prog) : Bool := p.body.all (fun e => match e with | .moveInputs r => r | _ => true)

/-- the handler undoes everything the `try` body may have done, for every kind of interruption, and re-raises -/
def handlerComplete (p : Prog) : Bool :=
  match p.handler with
  | none => false
  | some h => h.catchesAll && h.restoresMoved && h.rmdir && h.reraises && (created p.body).all (fun f => h.removes.contains f)

def wellFormed (p : Prog) : Bool :=
  validatesFirst p && effectsProtected p && metadataLast p && movesRecorded p && handlerComplete p

/-- the program read as steps of the protocol model, for validated inputs `fs` -/
def effSteps (fs : List (String × StoreFile)) : Eff → List FsStep
  | .validate => []
  | .mkdir => [.mkdir]
  | .moveInputs _ => fs.map (fun p => .rename p.1)
  | .buildIndex _ cond => if cond then indexSteps fs else [.writeIndex]
  | .writeFile n => if n = "metadata.json" then [.writeMetadata (mdOf fs)] else []
  | .rename _ d => if d = "metadata.json" then [.writeMetadata (mdOf fs)] else []

def progSteps (p : Prog) (fs : List (String × StoreFile)) : List FsStep :=
  (p.pre ++ p.body).flatMap (effSteps fs)

end Aeic.MergeProg
