/-
  C14 — model of the mission-database query builder (`AEIC/missions/filter.py`,
  `query.py`, `database.py`) and of what SQLite does with the SQL it emits.

  Three layers:

  A. *Builder* (text level).  `Filter`, the spatial compatibility rule `normalizeOk`
     (`Filter._normalize`), `filterConds` (`Filter.to_sql` and its four `_x_condition`
     helpers), the closed set `Cond` of condition forms the code can emit, `render`
     (SQL text as a token list, `?` placeholders are the token `Tok.qm`) and
     `Cond.params`; `QSpec` (the dataclass fields of `Query`, `FrequentFlightQuery`,
     `CountQuery`), `conditionsOf` (validation + `_common_conditions` + sample +
     every-nth), `sqlOf`.  The query *object* is a state machine `QState` over its
     accumulated condition list and a little heap of parameter-list objects, so that
     aliasing of the returned `params` list is visible; `build fixed` is one
     `to_sql()` call (`fixed = true`: the code after the `fix:` commits — conditions
     and the parameter list are started afresh on every build; `fixed = false`: the
     code as shipped — they accumulate and the returned list is `self._params` itself).

  B. *Semantics* of a condition on a (schedule, flight) pair w.r.t. the dumped tables
     (`sem`), i.e. SQLite as a relational evaluator of the condition forms above
     (trusted, validated by the correspondence check).

  C. *Evaluators* `run`, `count`, `frequent`: join, filter, `ORDER BY`, `LIMIT/OFFSET`,
     `GROUP BY`.

  Generic in the scalar type `α` of distances / coordinates / sample fraction (executed on
  `Float`, theorems for every `α`).  No Mathlib import.
-/
import AeicModel.Scalar
import AeicModel.Wire
open Lean

namespace Aeic.Query

/-! ## A. Builder -/

/-- a value bound to a `?` placeholder -/
inductive Param (α : Type) where
  | int (n : Int)
  | num (x : α)
  | str (s : String)

/-- SQL text as tokens; `qm` is a `?` placeholder. Literal text pieces never contain `?`. -/
inductive Tok where
  | txt (s : String)
  | qm
deriving DecidableEq

def Tok.text : Tok → String
  | .txt s => s
  | .qm => "?"

def sqlText (ts : List Tok) : String := String.join (ts.map Tok.text)

/-- number of placeholders of an SQL text -/
def qmCount (ts : List Tok) : Nat := ts.count Tok.qm

structure BBox (α : Type) where
  minLat : α
  maxLat : α
  minLon : α
  maxLon : α

/-- the three flavours of one spatial filter kind: combined / origin / destination -/
structure Tri (β : Type) where
  both : Option β := none
  origin : Option β := none
  destination : Option β := none

/-- `AEIC.missions.Filter` after the str → [str] normalisation -/
structure Filter (α : Type) where
  minDistance : Option α := none
  maxDistance : Option α := none
  minSeats : Option Int := none
  maxSeats : Option Int := none
  airport : Tri (List String) := {}
  country : Tri (List String) := {}
  continent : Tri (List String) := {}
  bbox : Tri (BBox α) := {}
  serviceType : Option (List String) := none
  aircraftType : Option (List String) := none

inductive End where
  | origin | destination | either
deriving DecidableEq

inductive Region (α : Type) where
  | airport (codes : List String)
  | country (codes : List String)
  | continent (codes : List String)
  | bbox (b : BBox α)

/-- the closed set of condition forms `filter.py` / `query.py` can emit -/
inductive Cond (α : Type) where
  | minDistance (x : α)
  | maxDistance (x : α)
  | minSeats (n : Int)
  | maxSeats (n : Int)
  | serviceIn (xs : List String)
  | aircraftIn (xs : List String)
  | region (e : End) (r : Region α)
  | depFrom (t : Int)          -- s.departure_timestamp >= ?
  | depBefore (t : Int)        -- s.departure_timestamp < ?
  | sample (p : α)
  | nthFromMin (n : Int)       -- (s.day - (SELECT MIN(day) FROM schedules)) % ? = 0
  | nthFrom (day n : Int)      -- (s.day - ?) % ? = 0

/-- `', '.join('?' * n)` -/
def placeholders (n : Nat) : List Tok := (List.replicate n Tok.qm).intersperse (.txt ", ")

def subSelect {α} : Region α → List Tok
  | .airport cs =>
    [.txt "(SELECT id FROM airports WHERE iata_code IN ("] ++ placeholders cs.length ++ [.txt "))"]
  | .country cs =>
    [.txt "(SELECT id FROM airports WHERE country IN ("] ++ placeholders cs.length ++ [.txt "))"]
  | .continent cs =>
    [.txt "(SELECT id FROM airports WHERE country IN (SELECT code FROM countries WHERE continent IN ("]
      ++ placeholders cs.length ++ [.txt ")))"]
  | .bbox _ =>
    [.txt "(SELECT id FROM airport_location_idx WHERE min_latitude >= ", .qm,
     .txt " AND max_latitude <= ", .qm, .txt " AND min_longitude >= ", .qm,
     .txt " AND max_longitude <= ", .qm, .txt ")"]

def Region.params {α} : Region α → List (Param α)
  | .airport cs => cs.map .str
  | .country cs => cs.map .str
  | .continent cs => cs.map .str
  | .bbox b => [.num b.minLat, .num b.maxLat, .num b.minLon, .num b.maxLon]

/-- SQL text of one condition; `t` is the column prefix of the flights table (`"f."` or `""`). -/
def render {α} (t : String) : Cond α → List Tok
  | .minDistance _ => [.txt (t ++ "distance >= "), .qm]
  | .maxDistance _ => [.txt (t ++ "distance <= "), .qm]
  | .minSeats _ => [.txt (t ++ "seat_capacity >= "), .qm]
  | .maxSeats _ => [.txt (t ++ "seat_capacity <= "), .qm]
  | .serviceIn xs => [.txt (t ++ "service_type IN (")] ++ placeholders xs.length ++ [.txt ")"]
  | .aircraftIn xs => [.txt (t ++ "aircraft_type IN (")] ++ placeholders xs.length ++ [.txt ")"]
  | .region .origin r => [.txt (t ++ "origin IN ")] ++ subSelect r
  | .region .destination r => [.txt (t ++ "destination IN ")] ++ subSelect r
  | .region .either r =>
    [.txt ("(" ++ t ++ "origin IN ")] ++ subSelect r ++ [.txt (" OR " ++ t ++ "destination IN ")]
      ++ subSelect r ++ [.txt ")"]
  | .depFrom _ => [.txt "s.departure_timestamp >= ", .qm]
  | .depBefore _ => [.txt "s.departure_timestamp < ", .qm]
  | .sample _ => [.txt "(random() + 9223372036854775808) / 18446744073709551615.0 < ", .qm, .txt " + 0 * s.id"]
  | .nthFromMin _ => [.txt "(s.day - (SELECT MIN(day) FROM schedules)) % ", .qm, .txt " = 0"]
  | .nthFrom _ _ => [.txt "(s.day - ", .qm, .txt ") % ", .qm, .txt " = 0"]

def Cond.params {α} : Cond α → List (Param α)
  | .minDistance x => [.num x]
  | .maxDistance x => [.num x]
  | .minSeats n => [.int n]
  | .maxSeats n => [.int n]
  | .serviceIn xs => xs.map .str
  | .aircraftIn xs => xs.map .str
  | .region .origin r => r.params
  | .region .destination r => r.params
  | .region .either r => r.params ++ r.params
  | .depFrom t => [.int t]
  | .depBefore t => [.int t]
  | .sample p => [.num p]
  | .nthFromMin n => [.int n]
  | .nthFrom d n => [.int d, .int n]

/-- `' AND '.join(...)` of rendered conditions -/
def andJoin {α} (t : String) : List (Cond α) → List Tok
  | [] => []
  | [c] => render t c
  | c :: cs => render t c ++ [.txt " AND "] ++ andJoin t cs

def paramsOf {α} (cs : List (Cond α)) : List (Param α) := cs.flatMap Cond.params

/-- `Filter._spatial`: is the (combined, origin, destination) flavour set? Lists count only when non-empty. -/
def Tri.counts {β} (isSet : β → Bool) (t : Tri β) : Nat × Nat × Nat :=
  let c (o : Option β) : Nat := match o with
    | some b => if isSet b then 1 else 0
    | none => 0
  (c t.both, c t.origin, c t.destination)

def listSet (l : List String) : Bool := decide (l.length > 0)

/-- the sums `combined, origin, destination` of `Filter._normalize` -/
def spatialCounts {α} (f : Filter α) : Nat × Nat × Nat :=
  let a := f.airport.counts listSet
  let c := f.country.counts listSet
  let k := f.continent.counts listSet
  let b := f.bbox.counts (fun _ => true)
  (a.1 + c.1 + k.1 + b.1, a.2.1 + c.2.1 + k.2.1 + b.2.1, a.2.2 + c.2.2 + k.2.2 + b.2.2)

/-- the `ok` flag of `Filter._normalize` -/
def normalizeOk {α} (f : Filter α) : Bool :=
  let (combined, origin, destination) := spatialCounts f
  (combined == 1 && origin == 0 && destination == 0)
    || (combined == 0 && decide (origin ≤ 1) && decide (destination ≤ 1))

/-- one of `_airport_condition`, `_country_condition`, `_continent_condition`,
    `_bounding_box_condition` (all four have the same shape) -/
def spatialConds {α β} (mk : β → Region α) (t : Tri β) : List (Cond α) :=
  match t.both with
  | some b => [.region .either (mk b)]
  | none =>
    (match t.origin with | some o => [Cond.region .origin (mk o)] | none => [])
      ++ (match t.destination with | some d => [Cond.region .destination (mk d)] | none => [])

def optCond {α β} (mk : β → Cond α) : Option β → List (Cond α)
  | some x => [mk x]
  | none => []

def inListCond {α} (mk : List String → Cond α) : Option (List String) → List (Cond α)
  | some xs => if xs.length > 0 then [mk xs] else []
  | none => []

/-- the `conditions` list of `Filter.to_sql`, in source order -/
def filterConds {α} (f : Filter α) : List (Cond α) :=
  optCond .minDistance f.minDistance ++ optCond .maxDistance f.maxDistance
    ++ optCond .minSeats f.minSeats ++ optCond .maxSeats f.maxSeats
    ++ inListCond .serviceIn f.serviceType ++ inListCond .aircraftIn f.aircraftType
    ++ spatialConds .airport f.airport ++ spatialConds .country f.country
    ++ spatialConds .continent f.continent ++ spatialConds .bbox f.bbox

inductive Err where
  | badSample | badNth | badLimit | badOffset | offsetNoLimit
  | invalidSpatial
  | emptyUnpack      -- as shipped: `conds, params = list(zip(*[]))` raises ValueError
deriving DecidableEq, Repr

def Err.name : Err → String
  | .badSample => "badSample" | .badNth => "badNth" | .badLimit => "badLimit"
  | .badOffset => "badOffset" | .offsetNoLimit => "offsetNoLimit"
  | .invalidSpatial => "invalidSpatial" | .emptyUnpack => "emptyUnpack"

/-- `Filter.to_sql`: the conditions it returns (joined by AND) or the error it raises. -/
def Filter.toConds {α} (fixed : Bool) (f : Filter α) : Except Err (List (Cond α)) :=
  if !normalizeOk f then .error .invalidSpatial
  else
    let cs := filterConds f
    if cs.isEmpty && !fixed then .error .emptyUnpack else .ok cs

inductive Kind where
  | query | frequent | count
deriving DecidableEq

/-- the dataclass fields of a query object. Dates are days since 1970-01-01. `limit` of a
    frequent-route query is always given (default 20). -/
structure QSpec (α : Type) where
  kind : Kind := .query
  filter : Option (Filter α) := none
  startDay : Option Int := none
  endDay : Option Int := none
  everyNth : Option Int := none
  sample : Option α := none
  limit : Option Int := none
  offset : Option Int := none

section
variable {α : Type} [LT α] [LE α] [DecidableLT α] [DecidableLE α] [Lit α]

/-- parameter validation at the top of the three `to_sql` methods -/
def validate (q : QSpec α) : Except Err Unit :=
  match q.kind with
  | .query => do
    (match q.sample with
      | some s => if !(decide ((Lit.dec 0 0 : α) < s) && decide (s ≤ (Lit.dec 1 0 : α))) then .error .badSample else .ok ()
      | none => .ok ())
    (match q.everyNth with
      | some n => if n < 1 then .error .badNth else .ok ()
      | none => .ok ())
    (match q.limit with
      | some l => if l < 1 then .error .badLimit else .ok ()
      | none => .ok ())
    (match q.offset with
      | some o => if o < 0 then .error .badOffset else .ok ()
      | none => .ok ())
    (match q.offset, q.limit with
      | some _, none => .error .offsetNoLimit
      | _, _ => .ok ())
  | .frequent =>
    match q.limit with
    | some l => if l < 1 then .error .badLimit else .ok ()
    | none => .ok ()
  | .count => .ok ()

/-- `_common_conditions`: what it appends -/
def commonConds (fixed : Bool) (q : QSpec α) : Except Err (List (Cond α)) := do
  let fc ← match q.filter with
    | some f => f.toConds fixed
    | none => .ok []
  .ok (fc ++ optCond (fun d => .depFrom (d * 86400)) q.startDay
          ++ optCond (fun d => .depBefore ((d + 1) * 86400)) q.endDay)

/-- sample and every-nth conditions of `Query.to_sql` -/
def extraConds (q : QSpec α) : List (Cond α) :=
  match q.kind with
  | .query =>
    optCond .sample q.sample ++
      (match q.everyNth with
       | some n =>
         if n > 1 then
           (match q.startDay with
            | none => [.nthFromMin n]
            | some d => [.nthFrom d n])
         else []
       | none => [])
  | _ => []

/-- all conditions one `to_sql()` call appends, or the error it raises -/
def conditionsOf (fixed : Bool) (q : QSpec α) : Except Err (List (Cond α)) := do
  validate q
  let cc ← commonConds fixed q
  .ok (cc ++ extraConds q)

end

def whereClause {α} (cs : List (Cond α)) : List Tok :=
  if cs.isEmpty then [] else [.txt " WHERE "] ++ andJoin "f." cs

def limitToks (limit offset : Option Int) : List Tok :=
  match limit with
  | some l =>
    [.txt (" LIMIT " ++ toString l)] ++
      (match offset with
       | some o => [.txt (" OFFSET " ++ toString o)]
       | none => [])
  | none => []

/-- the SQL text of a query of the given kind over the accumulated conditions `cs` -/
def sqlOf {α} (q : QSpec α) (cs : List (Cond α)) : List Tok :=
  match q.kind with
  | .query =>
    [.txt ("SELECT s.departure_timestamp, s.arrival_timestamp, "
      ++ "s.id as id, f.id as flight_id, f.carrier, f.flight_number, "
      ++ "ao.iata_code AS origin, ao.country AS origin_country, "
      ++ "ad.iata_code AS destination, ad.country AS destination_country, "
      ++ "f.service_type, f.aircraft_type, f.engine_type, "
      ++ "f.distance, f.seat_capacity "
      ++ "FROM schedules s "
      ++ "JOIN flights f ON f.id = s.flight_id "
      ++ "JOIN airports ao ON f.origin = ao.id "
      ++ "JOIN airports ad ON f.destination = ad.id")]
      ++ whereClause cs ++ [.txt " ORDER BY s.departure_timestamp"] ++ limitToks q.limit q.offset
  | .frequent =>
    [.txt ("WITH counts AS (SELECT COUNT(s.id) AS nflights, f.od_pair AS od_pair "
      ++ "FROM schedules s JOIN flights f ON s.flight_id = f.id")]
      ++ whereClause cs
      ++ [.txt (" GROUP BY od_pair) SELECT substring(od_pair, 1, 3) AS airport1, "
      ++ "substring(od_pair, 4) AS airport2, nflights FROM counts ORDER BY nflights DESC LIMIT "
      ++ toString (q.limit.getD 20))]
  | .count =>
    [.txt "SELECT COUNT(s.id) FROM schedules s"] ++
      (if cs.isEmpty then [] else
        [.txt (" JOIN flights f ON f.id = s.flight_id JOIN airports ao ON f.origin = ao.id "
          ++ "JOIN airports ad ON f.destination = ad.id")] ++ whereClause cs)

/-! ### The query object as a state machine -/

/-- `self._conditions` (flattened) and the parameter-list *objects* this query has created so
    far; the last heap cell is `self._params`. A `(sql, params)` pair handed out by `to_sql()`
    refers to its list by heap index, so later mutation of that list is visible. -/
structure QState (α : Type) where
  conds : List (Cond α) := []
  heap : List (List (Param α)) := [[]]

/-- what one `to_sql()` call returns: the text and a *reference* to a parameter list -/
structure Built where
  sql : List Tok
  ref : Nat

/-- append to the last cell (`self._params.extend(...)`) -/
def extendLast {β} (ps : List β) : List (List β) → List (List β)
  | [] => [ps]
  | [c] => [c ++ ps]
  | c :: cs => c :: extendLast ps cs

/-- the list a `Built` refers to, as seen in state `st` -/
def QState.deref {α} (st : QState α) (b : Built) : List (Param α) := st.heap.getD b.ref []

section
variable {α : Type} [LT α] [LE α] [DecidableLT α] [DecidableLE α] [Lit α]

/-- one `to_sql()` call on a query object whose fields currently are `q`. -/
def build (fixed : Bool) (q : QSpec α) (st : QState α) : Except Err (QState α × Built) := do
  let new ← conditionsOf fixed q
  if fixed then
    -- repaired code: `_conditions`, `_params` are fresh lists on every build
    let heap := st.heap ++ [paramsOf new]
    .ok ({ conds := new, heap := heap }, { sql := sqlOf q new, ref := heap.length - 1 })
  else
    -- as shipped: both lists accumulate, `self._params` itself is returned
    let conds := st.conds ++ new
    let heap := extendLast (paramsOf new) st.heap
    .ok ({ conds := conds, heap := heap }, { sql := sqlOf q conds, ref := heap.length - 1 })

/-- a history of `to_sql()` calls (the fields may be changed between calls); failed calls leave
    the state alone. Returns the final state and what each call returned. -/
def buildAll (fixed : Bool) : List (QSpec α) → QState α → QState α × List (Except Err Built)
  | [], st => (st, [])
  | q :: qs, st =>
    match build fixed q st with
    | .ok (st', b) => let (s, r) := buildAll fixed qs st'; (s, .ok b :: r)
    | .error e => let (s, r) := buildAll fixed qs st; (s, .error e :: r)

end

/-! ## B. Semantics of conditions on the dumped tables -/

structure Airport where
  id : Nat
  iata : String
  country : String

structure Country where
  code : String
  continent : String

/-- a row of the R*-tree `airport_location_idx` (float32-rounded interval around the airport) -/
structure RBox (α : Type) where
  id : Nat
  minLat : α
  maxLat : α
  minLon : α
  maxLon : α

structure Flight (α : Type) where
  id : Nat
  origin : Nat
  destination : Nat
  serviceType : String
  aircraftType : String
  distance : α
  seats : Int
  odPair : String

structure Sched where
  id : Nat
  dep : Int
  day : Int
  flightId : Nat

structure DB (α : Type) where
  airports : List Airport
  countries : List Country
  rtree : List (RBox α)
  flights : List (Flight α)
  schedules : List Sched

section
variable {α : Type} [LT α] [LE α] [DecidableLT α] [DecidableLE α]

def BBox.containsBox (b : BBox α) (e : RBox α) : Bool :=
  decide (b.minLat ≤ e.minLat) && decide (e.maxLat ≤ b.maxLat)
    && decide (b.minLon ≤ e.minLon) && decide (e.maxLon ≤ b.maxLon)

/-- the id set a sub-select evaluates to -/
def regionIds (db : DB α) : Region α → List Nat
  | .airport cs => (db.airports.filter (fun a => cs.contains a.iata)).map (·.id)
  | .country cs => (db.airports.filter (fun a => cs.contains a.country)).map (·.id)
  | .continent cs =>
    let codes := (db.countries.filter (fun c => cs.contains c.continent)).map (·.code)
    (db.airports.filter (fun a => codes.contains a.country)).map (·.id)
  | .bbox b => (db.rtree.filter (fun e => b.containsBox e)).map (·.id)

/-- `SELECT MIN(day) FROM schedules` (NULL on an empty table) -/
def minDay (db : DB α) : Option Int := (db.schedules.map (·.day)).min?

/-- truth value SQLite assigns to a condition for a (schedule, flight) pair; `draw` is the
    value of the sampling expression for that instance. -/
def sem (db : DB α) (draw : Nat → α) (c : Cond α) (s : Sched) (f : Flight α) : Bool :=
  match c with
  | .minDistance x => decide (x ≤ f.distance)
  | .maxDistance x => decide (f.distance ≤ x)
  | .minSeats n => decide (n ≤ f.seats)
  | .maxSeats n => decide (f.seats ≤ n)
  | .serviceIn xs => xs.contains f.serviceType
  | .aircraftIn xs => xs.contains f.aircraftType
  | .region .origin r => (regionIds db r).contains f.origin
  | .region .destination r => (regionIds db r).contains f.destination
  | .region .either r => (regionIds db r).contains f.origin || (regionIds db r).contains f.destination
  | .depFrom t => decide (t ≤ s.dep)
  | .depBefore t => decide (s.dep < t)
  | .sample p => decide (draw s.id < p)
  | .nthFromMin n =>
    match minDay db with
    | some m => (s.day - m).tmod n == 0
    | none => false
  | .nthFrom d n => (s.day - d).tmod n == 0

/-- the sampling condition as shipped (before the `fix:` commit): the SQL term mentioned no table, so
    SQLite evaluated it once per row of the outermost loop of its plan — the flights table whenever a
    filter drives the query — i.e. the draw was per *flight*, not per instance. -/
def semSampleAsIs (draw : Nat → α) (p : α) (f : Flight α) : Bool := decide (draw f.id < p)

def semAll (db : DB α) (draw : Nat → α) (cs : List (Cond α)) (s : Sched) (f : Flight α) : Bool :=
  cs.all (fun c => sem db draw c s f)

/-! ## C. Evaluators -/

structure JRow (α : Type) where
  s : Sched
  f : Flight α
  ao : Airport
  ad : Airport

def findFlight (db : DB α) (id : Nat) : Option (Flight α) := db.flights.find? (fun f => f.id == id)
def findAirport (db : DB α) (id : Nat) : Option Airport := db.airports.find? (fun a => a.id == id)

/-- the four-way inner join of `Query.to_sql` / `CountQuery.to_sql` for one schedule row -/
def joinRow (db : DB α) (s : Sched) : Option (JRow α) :=
  match findFlight db s.flightId with
  | none => none
  | some f =>
    match findAirport db f.origin, findAirport db f.destination with
    | some ao, some ad => some ⟨s, f, ao, ad⟩
    | _, _ => none

def joined (db : DB α) : List (JRow α) := db.schedules.filterMap (joinRow db)

/-- the two-way join of `FrequentFlightQuery.to_sql` -/
def joinedSF (db : DB α) : List (Sched × Flight α) :=
  db.schedules.filterMap (fun s => (findFlight db s.flightId).map (fun f => (s, f)))

def matching (db : DB α) (draw : Nat → α) (cs : List (Cond α)) : List (JRow α) :=
  (joined db).filter (fun r => semAll db draw cs r.s r.f)

def leDep (a b : JRow α) : Bool := decide (a.s.dep ≤ b.s.dep)

/-- `LIMIT l OFFSET o` -/
def window {β} (limit offset : Option Int) (l : List β) : List β :=
  match limit with
  | none => l
  | some n => (l.drop (offset.getD 0).toNat).take n.toNat

/-- rows a `Query` returns, in order, given its accumulated conditions -/
def runConds (db : DB α) (draw : Nat → α) (cs : List (Cond α)) (limit offset : Option Int) : List (JRow α) :=
  window limit offset ((matching db draw cs).mergeSort leDep)

/-- what a `CountQuery` returns given its accumulated conditions (note the shortcut) -/
def countConds (db : DB α) (draw : Nat → α) (cs : List (Cond α)) : Nat :=
  if cs.isEmpty then db.schedules.length else (matching db draw cs).length

/-- add one occurrence of key `k` to a (key, count) table kept in first-occurrence order -/
def bump {κ} [DecidableEq κ] (k : κ) : List (κ × Nat) → List (κ × Nat)
  | [] => [(k, 1)]
  | (k', n) :: t => if k' = k then (k', n + 1) :: t else (k', n) :: bump k t

/-- `GROUP BY key` with `COUNT(*)` -/
def groupCounts {κ} [DecidableEq κ] (l : List κ) : List (κ × Nat) := l.foldr bump []

def geCount {κ} (a b : κ × Nat) : Bool := decide (b.2 ≤ a.2)

/-- (od_pair, nflights) rows a `FrequentFlightQuery` returns given its accumulated conditions -/
def frequentConds (db : DB α) (draw : Nat → α) (cs : List (Cond α)) (limit : Int) : List (String × Nat) :=
  let rows := (joinedSF db).filter (fun r => semAll db draw cs r.1 r.2)
  ((groupCounts (rows.map (fun r => r.2.odPair))).mergeSort geCount).take limit.toNat

variable [Lit α]

def run (db : DB α) (draw : Nat → α) (q : QSpec α) : Except Err (List (JRow α)) := do
  let cs ← conditionsOf true q
  .ok (runConds db draw cs q.limit q.offset)

def count (db : DB α) (draw : Nat → α) (q : QSpec α) : Except Err Nat := do
  let cs ← conditionsOf true q
  .ok (countConds db draw cs)

def frequent (db : DB α) (draw : Nat → α) (q : QSpec α) : Except Err (List (String × Nat)) := do
  let cs ← conditionsOf true q
  .ok (frequentConds db draw cs (q.limit.getD 20))

end

/-! ## Driver ops -/

open Aeic.Wire

def optM {β} (j : Json) (k : String) (f : Json → Except String β) : Except String (Option β) :=
  match optField j k with
  | some v => do let x ← f v; pure (some x)
  | none => pure none

def getBBox (j : Json) : Except String (BBox Float) := do
  let xs ← getFs j
  match xs with
  | [a, b, c, d] => pure ⟨a, b, c, d⟩
  | _ => throw "bbox needs 4 numbers"

def getTri {β} (j : Json) (k : String) (f : Json → Except String β) : Except String (Tri β) := do
  pure { both := ← optM j k f, origin := ← optM j ("origin_" ++ k) f,
         destination := ← optM j ("destination_" ++ k) f }

def getFilter (j : Json) : Except String (Filter Float) := do
  pure {
    minDistance := ← optM j "min_distance" getF
    maxDistance := ← optM j "max_distance" getF
    minSeats := ← optM j "min_seat_capacity" getInt
    maxSeats := ← optM j "max_seat_capacity" getInt
    airport := ← getTri j "airport" getStrs
    country := ← getTri j "country" getStrs
    continent := ← getTri j "continent" getStrs
    bbox := ← getTri j "bounding_box" getBBox
    serviceType := ← optM j "service_type" getStrs
    aircraftType := ← optM j "aircraft_type" getStrs }

def getKind (j : Json) : Except String Kind := do
  match ← getStr j with
  | "query" => pure .query
  | "frequent" => pure .frequent
  | "count" => pure .count
  | s => throw s!"unknown kind {s}"

def getQSpec (j : Json) : Except String (QSpec Float) := do
  pure {
    kind := ← getKind (← field j "kind")
    filter := ← optM j "filter" getFilter
    startDay := ← optM j "start_day" getInt
    endDay := ← optM j "end_day" getInt
    everyNth := ← optM j "every_nth" getInt
    sample := ← optM j "sample" getF
    limit := ← optM j "limit" getInt
    offset := ← optM j "offset" getInt }

def putParam : Param Float → Json
  | .int n => obj [("i", putInt n)]
  | .num x => obj [("f", putF x)]
  | .str s => obj [("s", Json.str s)]

def putParams (ps : List (Param Float)) : Json := Json.arr (ps.map putParam).toArray

def getAirport (j : Json) : Except String Airport := do
  pure ⟨← getNat (← field j "id"), ← getStr (← field j "iata"), ← getStr (← field j "country")⟩

def getCountry (j : Json) : Except String Country := do
  pure ⟨← getStr (← field j "code"), ← getStr (← field j "continent")⟩

def getRBox (j : Json) : Except String (RBox Float) := do
  let xs ← getFs (← field j "box")
  match xs with
  | [a, b, c, d] => pure ⟨← getNat (← field j "id"), a, b, c, d⟩
  | _ => throw "rtree box needs 4 numbers"

def getFlight (j : Json) : Except String (Flight Float) := do
  pure {
    id := ← getNat (← field j "id")
    origin := ← getNat (← field j "origin")
    destination := ← getNat (← field j "destination")
    serviceType := ← getStr (← field j "service_type")
    aircraftType := ← getStr (← field j "aircraft_type")
    distance := ← getF (← field j "distance")
    seats := ← getInt (← field j "seats")
    odPair := ← getStr (← field j "od_pair") }

def getSched (j : Json) : Except String Sched := do
  pure ⟨← getNat (← field j "id"), ← getInt (← field j "dep"), ← getInt (← field j "day"),
        ← getNat (← field j "flight_id")⟩

def getDB (j : Json) : Except String (DB Float) := do
  pure {
    airports := ← getList getAirport (← field j "airports")
    countries := ← getList getCountry (← field j "countries")
    rtree := ← getList getRBox (← field j "rtree")
    flights := ← getList getFlight (← field j "flights")
    schedules := ← getList getSched (← field j "schedules") }

def errJson (e : Err) : Json := obj [("err", Json.str e.name)]

/-- sampling expression that always passes (the model cannot reproduce SQLite's `random()`):
    the harness compares sampled results as subsets of this. -/
def drawZero : Nat → Float := fun _ => 0.0

def evalOne (db : DB Float) (q : QSpec Float) : Json :=
  match q.kind with
  | .query =>
    match run db drawZero q with
    | .ok rows => obj [("ok", putNats (rows.map (·.s.id)))]
    | .error e => errJson e
  | .count =>
    match count db drawZero q with
    | .ok n => obj [("ok", putNat n)]
    | .error e => errJson e
  | .frequent =>
    match frequent db drawZero q with
    | .ok rows => obj [("ok", Json.arr (rows.map (fun r => Json.arr #[Json.str r.1, putNat r.2])).toArray)]
    | .error e => errJson e

def handle (op : String) (j : Json) : Except String Json := do
  match op with
  | "filter_sql" =>
    -- Filter.to_sql(table): {"filter":…, "table": "f." | "", "fixed": bool}
    let f ← getFilter (← field j "filter")
    let t ← getStr (fieldD j "table" (Json.str ""))
    let fixed ← getBool (fieldD j "fixed" (Json.bool true))
    match f.toConds fixed with
    | .ok cs => pure (obj [("ok", obj [("sql", Json.str (sqlText (andJoin t cs))),
                                        ("qm", putNat (qmCount (andJoin t cs))),
                                        ("params", putParams (paramsOf cs))])])
    | .error e => pure (errJson e)
  | "builds" =>
    -- a history of to_sql() calls on one query object: {"qs":[spec…], "fixed": bool}
    let qs ← getList getQSpec (← field j "qs")
    let fixed ← getBool (fieldD j "fixed" (Json.bool true))
    -- replay step by step so that the parameters can be reported both as seen when the call
    -- returned and as seen at the end of the history
    let rec go (qs : List (QSpec Float)) (st : QState Float)
        (acc : List (Except Err (Built × List (Param Float)))) :
        QState Float × List (Except Err (Built × List (Param Float))) :=
      match qs with
      | [] => (st, acc.reverse)
      | q :: rest =>
        match build fixed q st with
        | .ok (st', b) => go rest st' (.ok (b, st'.deref b) :: acc)
        | .error e => go rest st (.error e :: acc)
    let (fin, rs) := go qs {} []
    pure (Json.arr (rs.map (fun r =>
      match r with
      | .ok (b, atReturn) =>
        obj [("ok", obj [("sql", Json.str (sqlText b.sql)), ("qm", putNat (qmCount b.sql)),
                          ("params", putParams atReturn), ("late", putParams (fin.deref b))])]
      | .error e => errJson e)).toArray)
  | "eval" =>
    -- {"db":…, "qs":[spec…]} → results of fresh query objects on that database
    let db ← getDB (← field j "db")
    let qs ← getList getQSpec (← field j "qs")
    pure (Json.arr (qs.map (evalOne db)).toArray)
  | _ => throw s!"unknown c14 op {op}"

end Aeic.Query
