/-
  The merged-store lookup of `TrajectoryStore._load_trajectory` with the parameters the translator reads from the source
  (`harness/common/locprog.py` → `Generated/Locate.lean`): which bisect, the needle offset, the out-of-range guard, the offsets of the
  local index.  `locateSrc` is the lookup *as the working tree has it*; `Properties/C09.lean` proves it equal to the model's
  `locate` and hence to indexing the concatenation.  No Mathlib import.
-/
import AeicModel.Merge
import AeicModel.Generated.Locate

namespace Aeic.Merge
open Aeic.Store

/-- `bisect.bisect_left(size_index, v)` for an integer needle (on the non-decreasing cumulative counts) -/
def bisectLeftI (v : Int) : List Nat → Nat
  | [] => 0
  | x :: xs => if (x : Int) < v then 1 + bisectLeftI v xs else 0

/-- `bisect.bisect_right(size_index, v)` -/
def bisectRightI (v : Int) : List Nat → Nat
  | [] => 0
  | x :: xs => if (x : Int) ≤ v then 1 + bisectRightI v xs else 0

/-- the lookup with the parameters of the source: `file = bisect(size_index, index + needle)`; give up when `file ≥ len(size_index)`
    (`guardGe`; without the guard Python raises `IndexError` there — the reading gives `none`); local index
    `index + localAdd − size_index[file + shift]`, used as a Python index into that file -/
def locateWith {α} (left : Bool) (needle localAdd shift : Int) (guardGe : Bool) (files : List (List α)) (i : Nat) : Option α :=
  let sz := prefixSums 0 (files.map List.length)
  let v : Int := (i : Int) + needle
  let f := if left then bisectLeftI v sz else bisectRightI v sz
  if guardGe && decide (sz.length ≤ f) then none else
  let k : Int := (f : Int) + shift
  match (if 0 ≤ k then sz[k.toNat]? else none), files[f]? with
  | some s, some file => pyGet file ((i : Int) + localAdd - (s : Int))
  | _, _ => none

/-- the merged lookup as the working tree has it -/
def locateSrc {α} (files : List (List α)) (i : Nat) : Option α :=
  locateWith Aeic.Gen.locBisectLeft Aeic.Gen.locNeedle Aeic.Gen.locLocal Aeic.Gen.locShift Aeic.Gen.locGuardGe files i

end Aeic.Merge
