import AeicModel.Scalar
import AeicModel.Wire
import AeicModel.Generated.Constants
import AeicModel.Store
import AeicModel.Merge
import AeicModel.ThreadGuard
