import AeicModel.Scalar
import AeicModel.Wire
import AeicModel.Generated.Constants
import AeicModel.Store
