import AeicModel
open Lean Aeic Aeic.Wire

/-- area prefix ↦ handler; ops are named `<area>.<name>` -/
def handlers : List (String × (String → Json → Except String Json)) := [
  ("store", Aeic.Store.handle),
  ("merge", Aeic.Merge.handle),
  ("c20", Aeic.ThreadGuard.handle),
  ("c18", Aeic.Config.handle),
  ("c19", Aeic.Bada.handle),
  ("c13", Aeic.Schedule.handle),
  ("c11", Aeic.Dispatch.handle),
  ("grid", Aeic.Grid.handle),
  ("c01", Aeic.Emissions.handle),
  ("c14", Aeic.Query.handle),
  ("c12", Aeic.EI.handle),
  ("c03", Aeic.StoreCodec.handle),
  ("geo", Aeic.Geo.handle),
  ("wind", Aeic.Wind.handle),
  ("c02", Aeic.Builder.handleC02),
  ("c17", Aeic.Builder.handleC17),
  ("c06", Aeic.PerfTable.handle),
  ("kern", Aeic.Kern.handle),
  ("add", Aeic.AddProg.handle)
]

def dispatch (op : String) (j : Json) : Except String Json :=
  match op with
  | "ping" => pure (obj [("pong", fieldD j "x" Json.null)])
  | "lit" => do
      let m ← getInt (← field j "m"); let e ← getNat (← field j "e")
      pure (putF (Lit.dec m e : Float))
  | _ =>
    match op.splitOn "." with
    | area :: rest@(_ :: _) =>
      match handlers.lookup area with
      | some h => h (".".intercalate rest) j
      | none => throw s!"unknown area {area}"
    | _ => throw s!"unknown op {op}"

def handleLine (line : String) : String :=
  match Json.parse line with
  | .error e => (obj [("err", Json.str s!"parse: {e}")]).compress
  | .ok j =>
    match (do let op ← getStr (← field j "op"); dispatch op j) with
    | .ok out => (obj [("out", out)]).compress
    | .error e => (obj [("err", Json.str e)]).compress

partial def loop (hin hout : IO.FS.Stream) : IO Unit := do
  let line ← hin.getLine
  if line.isEmpty then return ()
  let t := line.trimAscii.toString
  if !t.isEmpty then
    hout.putStrLn (handleLine t)
    hout.flush
  loop hin hout

def main : IO Unit := do
  loop (← IO.getStdin) (← IO.getStdout)
