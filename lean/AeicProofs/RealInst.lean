/-
  ℝ instances of the scalar classes: the ideal-arithmetic reading of the models.
-/
import Mathlib.Data.Real.Basic
import Mathlib.Analysis.SpecialFunctions.Pow.Real
import Mathlib.Analysis.SpecialFunctions.Trigonometric.Basic
import Mathlib.Analysis.SpecialFunctions.Sqrt
import Mathlib.Tactic.Ring
import Mathlib.Tactic.Linarith
import Mathlib.Tactic.Positivity
import Mathlib.Tactic.NormNum
import Mathlib.Tactic.FieldSimp
import AeicModel.Scalar

namespace Aeic

noncomputable instance : Lit ℝ := ⟨fun m e => (m : ℝ) / (10 : ℝ) ^ e⟩

noncomputable instance : Transc ℝ where
  exp := Real.exp
  log := Real.log
  log10 := fun x => Real.log x / Real.log 10
  pow := fun x y => x ^ y
  sqrt := Real.sqrt
  sin := Real.sin
  cos := Real.cos

@[simp] theorem lit_real (m : Int) (e : Nat) : (Lit.dec m e : ℝ) = (m : ℝ) / (10 : ℝ) ^ e := rfl
@[simp] theorem zero_real : (zero : ℝ) = 0 := by simp [zero]
@[simp] theorem one_real : (one : ℝ) = 1 := by simp [one]

theorem lsum_eq_sum (xs : List ℝ) : lsum xs = xs.sum := by
  induction xs with
  | nil => simp [lsum]
  | cons x xs ih => simp [lsum, ih]

theorem smax_real (a b : ℝ) : smax a b = max a b := by
  unfold smax; split_ifs with h
  · exact (max_eq_right h.le).symm
  · exact (max_eq_left (not_lt.mp h)).symm

theorem smin_real (a b : ℝ) : smin a b = min a b := by
  unfold smin; split_ifs with h
  · exact (min_eq_right h.le).symm
  · exact (min_eq_left (not_lt.mp h)).symm

end Aeic
