/-
  C06 helper lemmas, part 7: the table built from a well-formed PTF passes the (intended, hence also the as-is)
  load check.  Route: every check is rewritten as a statement about duplicate-freeness, lengths and cardinalities of
  finite sets, all invariant under permutation (the builder sorts its rows), then computed on the unsorted rows.
-/
import AeicProofs.Lemmas.C06Load
import Mathlib.Data.List.Dedup
import Mathlib.Data.Finset.Card
import Mathlib.Data.List.Perm.Basic
import Mathlib.Data.Finset.Insert

namespace Aeic.PerfTable
open List

/-! ### checks as set statements -/

theorem mem_dedupP (a : ℝ × ℝ) (l : List (ℝ × ℝ)) : a ∈ dedupP l ↔ a ∈ l := by
  induction l with
  | nil => simp [dedupP]
  | cons p ps ih =>
    unfold dedupP
    split_ifs with h
    · rw [ih, mem_cons]
      constructor
      · intro h'; exact Or.inr h'
      · rintro (rfl | h')
        · exact (memP_real _ _).mp h
        · exact h'
    · rw [mem_cons, mem_cons, ih]

theorem nodup_dedupP (l : List (ℝ × ℝ)) : (dedupP l).Nodup := by
  induction l with
  | nil => simp [dedupP]
  | cons p ps ih =>
    unfold dedupP
    split_ifs with h
    · exact ih
    · rw [nodup_cons]
      refine ⟨?_, ih⟩
      rw [mem_dedupP]
      intro hp
      exact h ((memP_real _ _).mpr hp)

theorem dedupP_length (l : List (ℝ × ℝ)) : (dedupP l).length = l.toFinset.card := by
  rw [← toFinset_card_of_nodup (nodup_dedupP l)]
  congr 1
  ext a
  simp [mem_dedupP]

theorem sortU_length (l : List ℝ) : (sortU l).length = l.toFinset.card := by
  rw [← toFinset_card_of_nodup (sortU_nodup l)]
  congr 1
  ext a
  simp [mem_sortU]

theorem sortU_congr (l l' : List ℝ) (h : ∀ a, a ∈ l ↔ a ∈ l') : sortU l = sortU l' := by
  apply sorted_eq_of_subset_of_length _ _ (sortU_sorted l) (sortU_sorted l')
  · intro a ha; rw [mem_sortU] at ha ⊢; exact (h a).mp ha
  · rw [sortU_length, sortU_length]
    apply le_of_eq
    congr 1
    ext a
    simp [h a]

theorem coverageOk_iff (s : List (Row ℝ)) : coverageOk s = true ↔
    (s.map fun r => (r.fl, r.mass)).Nodup ∧
    (s.map (·.fl)).toFinset.card * (s.map (·.mass)).toFinset.card = s.length := by
  unfold coverageOk fls masses
  simp only [Bool.and_eq_true, Bool.not_eq_true', beq_iff_eq, hasDupP_false, sortU_length]

theorem flOnlyOk_iff (s : List (Row ℝ)) (fld : Row ℝ → ℝ) : flOnlyOk s fld = true ↔
    (s.map fun r => (r.fl, fld r)).toFinset.card = (s.map (·.fl)).toFinset.card := by
  unfold flOnlyOk fls
  simp only [beq_iff_eq, dedupP_length, sortU_length]

theorem coverageOk_perm {s s' : List (Row ℝ)} (h : s ~ s') : coverageOk s = true ↔ coverageOk s' = true := by
  rw [coverageOk_iff, coverageOk_iff, (h.map _).nodup_iff, toFinset_eq_of_perm _ _ (h.map (·.fl)),
    toFinset_eq_of_perm _ _ (h.map (·.mass)), h.length_eq]

theorem flOnlyOk_perm {s s' : List (Row ℝ)} (fld : Row ℝ → ℝ) (h : s ~ s') :
    flOnlyOk s fld = true ↔ flOnlyOk s' fld = true := by
  rw [flOnlyOk_iff, flOnlyOk_iff, toFinset_eq_of_perm _ _ (h.map (·.fl)),
    toFinset_eq_of_perm _ _ (h.map fun r => (r.fl, fld r))]

theorem masses_perm {s s' : List (Row ℝ)} (h : s ~ s') : masses s = masses s' := by
  unfold masses
  apply sortU_congr
  intro a
  exact (h.map (·.mass)).mem_iff

theorem masses_length (s : List (Row ℝ)) : (masses s).length = (s.map (·.mass)).toFinset.card := sortU_length _

/-! ### a three-mass grid written record by record -/

section grid3
variable {β : Type} (k : β → ℝ) (m1 m2 m3 : ℝ) (r1 r2 r3 : β → Row ℝ)

/-- rows produced from the records `recs`: three rows (masses `m1 m2 m3`) per record -/
def G3 (recs : List β) : List (Row ℝ) := recs.flatMap (fun b => [r1 b, r2 b, r3 b])

theorem G3_cons (b : β) (bs : List β) : G3 r1 r2 r3 (b :: bs) = r1 b :: r2 b :: r3 b :: G3 r1 r2 r3 bs := by
  simp [G3]

theorem G3_length (recs : List β) : (G3 r1 r2 r3 recs).length = 3 * recs.length := by
  induction recs with
  | nil => simp [G3]
  | cons b bs ih => rw [G3_cons]; simp only [length_cons, ih]; omega

theorem mem_G3 (recs : List β) (r : Row ℝ) :
    r ∈ G3 r1 r2 r3 recs ↔ ∃ b ∈ recs, r = r1 b ∨ r = r2 b ∨ r = r3 b := by
  simp [G3, mem_flatMap]

variable (hfl : ∀ b, (r1 b).fl = k b ∧ (r2 b).fl = k b ∧ (r3 b).fl = k b)
variable (hm : ∀ b, (r1 b).mass = m1 ∧ (r2 b).mass = m2 ∧ (r3 b).mass = m3)

include hfl in
theorem G3_fl_toFinset (recs : List β) :
    ((G3 r1 r2 r3 recs).map (·.fl)).toFinset = (recs.map k).toFinset := by
  ext a
  simp only [mem_toFinset, mem_map, mem_G3]
  constructor
  · rintro ⟨r, ⟨b, hb, rfl | rfl | rfl⟩, rfl⟩
    · exact ⟨b, hb, (hfl b).1.symm⟩
    · exact ⟨b, hb, (hfl b).2.1.symm⟩
    · exact ⟨b, hb, (hfl b).2.2.symm⟩
  · rintro ⟨b, hb, rfl⟩
    exact ⟨r1 b, ⟨b, hb, Or.inl rfl⟩, (hfl b).1⟩

include hm in
theorem G3_mass_toFinset (recs : List β) (hne : recs ≠ []) :
    ((G3 r1 r2 r3 recs).map (·.mass)).toFinset = [m1, m2, m3].toFinset := by
  obtain ⟨b0, hb0⟩ := exists_mem_of_ne_nil _ hne
  ext a
  simp only [mem_toFinset, mem_map, mem_G3, mem_cons, not_mem_nil, or_false]
  constructor
  · rintro ⟨r, ⟨b, _, rfl | rfl | rfl⟩, rfl⟩
    · exact Or.inl (hm b).1
    · exact Or.inr (Or.inl (hm b).2.1)
    · exact Or.inr (Or.inr (hm b).2.2)
  · rintro (rfl | rfl | rfl)
    · exact ⟨r1 b0, ⟨b0, hb0, Or.inl rfl⟩, (hm b0).1⟩
    · exact ⟨r2 b0, ⟨b0, hb0, Or.inr (Or.inl rfl)⟩, (hm b0).2.1⟩
    · exact ⟨r3 b0, ⟨b0, hb0, Or.inr (Or.inr rfl)⟩, (hm b0).2.2⟩

include hfl hm in
theorem G3_pairs_nodup (recs : List β) (hk : (recs.map k).Nodup) (h12 : m1 ≠ m2) (h13 : m1 ≠ m3) (h23 : m2 ≠ m3) :
    ((G3 r1 r2 r3 recs).map fun r => (r.fl, r.mass)).Nodup := by
  induction recs with
  | nil => simp [G3]
  | cons b bs ih =>
    rw [map_cons, nodup_cons] at hk
    rw [G3_cons]
    simp only [map_cons, (hfl b).1, (hfl b).2.1, (hfl b).2.2, (hm b).1, (hm b).2.1, (hm b).2.2]
    have hnot : ∀ m, (k b, m) ∉ (G3 r1 r2 r3 bs).map fun r => (r.fl, r.mass) := by
      intro m hmem
      obtain ⟨r, hr, he⟩ := mem_map.mp hmem
      obtain ⟨b', hb', hr'⟩ := (mem_G3 r1 r2 r3 bs r).mp hr
      have : r.fl = k b' := by rcases hr' with rfl | rfl | rfl
                               · exact (hfl b').1
                               · exact (hfl b').2.1
                               · exact (hfl b').2.2
      simp only [Prod.mk.injEq] at he
      exact hk.1 (mem_map.mpr ⟨b', hb', by rw [← this, he.1]⟩)
    refine nodup_cons.mpr ⟨?_, nodup_cons.mpr ⟨?_, nodup_cons.mpr ⟨hnot m3, ih hk.2⟩⟩⟩
    · simp only [mem_cons, Prod.mk.injEq, true_and]
      rintro (h | h | h)
      · exact h12 h
      · exact h13 h
      · exact hnot m1 h
    · simp only [mem_cons, Prod.mk.injEq, true_and]
      rintro (h | h)
      · exact h23 h
      · exact hnot m2 h

include hfl hm in
theorem G3_coverageOk (recs : List β) (hk : (recs.map k).Nodup) (h12 : m1 ≠ m2) (h13 : m1 ≠ m3) (h23 : m2 ≠ m3) :
    coverageOk (G3 r1 r2 r3 recs) = true := by
  rw [coverageOk_iff]
  refine ⟨G3_pairs_nodup k m1 m2 m3 r1 r2 r3 hfl hm recs hk h12 h13 h23, ?_⟩
  by_cases hne : recs = []
  · subst hne; simp [G3]
  · rw [G3_fl_toFinset k r1 r2 r3 hfl, G3_mass_toFinset m1 m2 m3 r1 r2 r3 hm recs hne, G3_length,
      toFinset_card_of_nodup hk, toFinset_card_of_nodup (by simp [h12, h13, h23]), length_map]
    simp [mul_comm]

include hfl in
theorem G3_flOnlyOk (recs : List β) (hk : (recs.map k).Nodup) (fld : Row ℝ → ℝ)
    (hf : ∀ b, fld (r2 b) = fld (r1 b) ∧ fld (r3 b) = fld (r1 b)) :
    flOnlyOk (G3 r1 r2 r3 recs) fld = true := by
  rw [flOnlyOk_iff, G3_fl_toFinset k r1 r2 r3 hfl]
  have e : ((G3 r1 r2 r3 recs).map fun r => (r.fl, fld r)).toFinset
      = (recs.map fun b => (k b, fld (r1 b))).toFinset := by
    ext a
    simp only [mem_toFinset, mem_map, mem_G3]
    constructor
    · rintro ⟨r, ⟨b, hb, rfl | rfl | rfl⟩, rfl⟩
      · exact ⟨b, hb, by rw [(hfl b).1]⟩
      · exact ⟨b, hb, by rw [(hfl b).2.1, (hf b).1]⟩
      · exact ⟨b, hb, by rw [(hfl b).2.2, (hf b).2]⟩
    · rintro ⟨b, hb, rfl⟩
      exact ⟨r1 b, ⟨b, hb, Or.inl rfl⟩, by rw [(hfl b).1]⟩
  have nd : (recs.map fun b => (k b, fld (r1 b))).Nodup := by
    apply Nodup.of_map Prod.fst
    rw [map_map]
    exact hk
  rw [e, toFinset_card_of_nodup nd, toFinset_card_of_nodup hk, length_map, length_map]

end grid3

/-! ### a single-mass grid -/

section grid1
variable {β : Type} (k : β → ℝ) (m : ℝ) (r : β → Row ℝ)
variable (hfl : ∀ b, (r b).fl = k b) (hm : ∀ b, (r b).mass = m)

include hfl hm in
theorem G1_coverageOk (recs : List β) (hk : (recs.map k).Nodup) : coverageOk (recs.map r) = true := by
  rw [coverageOk_iff]
  have e1 : ((recs.map r).map fun x => (x.fl, x.mass)) = recs.map fun b => (k b, m) := by
    rw [map_map]; apply map_congr_left; intro b _; simp [hfl b, hm b]
  have e2 : (recs.map r).map (·.fl) = recs.map k := by
    rw [map_map]; apply map_congr_left; intro b _; simp [hfl b]
  have e3 : (recs.map r).map (·.mass) = recs.map fun _ => m := by
    rw [map_map]; apply map_congr_left; intro b _; simp [hm b]
  rw [e1, e2, e3]
  constructor
  · apply Nodup.of_map Prod.fst
    rw [map_map]; exact hk
  · rw [toFinset_card_of_nodup hk]
    cases recs with
    | nil => simp
    | cons b bs =>
      have : ((b :: bs).map fun _ => m).toFinset = {m} := by
        ext a; simp only [mem_toFinset, mem_map, Finset.mem_singleton]
        constructor
        · rintro ⟨_, _, rfl⟩; rfl
        · rintro rfl; exact ⟨b, by simp, rfl⟩
      rw [this]; simp

include hfl in
theorem G1_flOnlyOk (recs : List β) (hk : (recs.map k).Nodup) (fld : Row ℝ → ℝ) :
    flOnlyOk (recs.map r) fld = true := by
  rw [flOnlyOk_iff]
  have e1 : ((recs.map r).map fun x => (x.fl, fld x)) = recs.map fun b => (k b, fld (r b)) := by
    rw [map_map]; apply map_congr_left; intro b _; simp [hfl b]
  have e2 : (recs.map r).map (·.fl) = recs.map k := by
    rw [map_map]; apply map_congr_left; intro b _; simp [hfl b]
  rw [e1, e2]
  have nd : (recs.map fun b => (k b, fld (r b))).Nodup := by
    apply Nodup.of_map Prod.fst
    rw [map_map]; exact hk
  rw [toFinset_card_of_nodup nd, toFinset_card_of_nodup hk, length_map, length_map]

end grid1

/-! ### phases of a list whose rows all belong to one phase -/

theorem sub_of_all_phase (tol : ℝ) (h0 : 0 ≤ tol) (L : List (Row ℝ)) (q : Phase)
    (h : ∀ r ∈ L, inPhase tol q r = true) (p : Phase) : sub tol p L = if p = q then L else [] := by
  unfold sub
  split_ifs with hpq
  · subst hpq; exact filter_eq_self.mpr h
  · rw [filter_eq_nil_iff]
    intro r hr
    rw [inPhase_disjoint tol h0 q p hpq r (h r hr)]; simp

theorem nMassExpected_of_climb_row (tol : ℝ) (h0 : 0 ≤ tol) (t : List (Row ℝ)) (r : Row ℝ) (hr : r ∈ t)
    (hc : tol < r.rocd) : nMassExpected tol t = 3 := by
  unfold nMassExpected
  have h2 : ¬ t.all (fun r => decide (sabs r.rocd ≤ tol)) = true := by
    rw [all_eq_true]; intro h
    have := h r hr
    simp only [decide_eq_true_eq, sabs_real] at this
    have := (abs_le.mp this).2
    linarith
  have h3 : ¬ t.all (fun r => decide (r.rocd < -tol)) = true := by
    rw [all_eq_true]; intro h
    have := h r hr
    simp only [decide_eq_true_eq] at this
    linarith
  simp [h2, h3]

/-! ### the PTF-built table -/

noncomputable def cr1 (P : Ptf ℝ) (c : PtfClimb ℝ) : Row ℝ := ⟨c.fl, P.lo, kts c.tas, fpm c.rocdLo, perMin c.ff⟩
noncomputable def cr2 (P : Ptf ℝ) (c : PtfClimb ℝ) : Row ℝ := ⟨c.fl, P.nom, kts c.tas, fpm c.rocdNom, perMin c.ff⟩
noncomputable def cr3 (P : Ptf ℝ) (c : PtfClimb ℝ) : Row ℝ := ⟨c.fl, P.hi, kts c.tas, fpm c.rocdHi, perMin c.ff⟩
noncomputable def zr1 (P : Ptf ℝ) (c : PtfCruise ℝ) : Row ℝ := ⟨c.fl, P.lo, kts c.tas, zero, perMin c.ffLo⟩
noncomputable def zr2 (P : Ptf ℝ) (c : PtfCruise ℝ) : Row ℝ := ⟨c.fl, P.nom, kts c.tas, zero, perMin c.ffNom⟩
noncomputable def zr3 (P : Ptf ℝ) (c : PtfCruise ℝ) : Row ℝ := ⟨c.fl, P.hi, kts c.tas, zero, perMin c.ffHi⟩

/-- the rows of one phase, before sorting -/
noncomputable def piece (P : Ptf ℝ) : Phase → List (Row ℝ)
  | .climb => G3 (cr1 P) (cr2 P) (cr3 P) P.climb
  | .cruise => G3 (zr1 P) (zr2 P) (zr3 P) P.cruise
  | .descend => P.descent.map (descentRow P)

theorem buildRowsUnsorted_eq (P : Ptf ℝ) :
    buildRowsUnsorted P = piece P .climb ++ piece P .cruise ++ piece P .descend := rfl

theorem piece_phase (tol : ℝ) (P : Ptf ℝ) (wf : PtfWellFormed tol P) (p : Phase) :
    ∀ r ∈ piece P p, inPhase tol p r = true := by
  obtain ⟨h0, _, _, _, _, _, hc, hd, _⟩ := wf
  intro r hr
  cases p
  · obtain ⟨c, hcm, h⟩ := (mem_G3 _ _ _ _ r).mp hr
    have := hc c hcm
    rcases h with rfl | rfl | rfl <;> simp [inPhase, cr1, cr2, cr3, this.1, this.2.1, this.2.2]
  · obtain ⟨c, _, h⟩ := (mem_G3 _ _ _ _ r).mp hr
    rcases h with rfl | rfl | rfl <;> simp [inPhase, zr1, zr2, zr3, h0]
  · obtain ⟨d, hdm, rfl⟩ := mem_map.mp hr
    simp [inPhase, descentRow, hd d hdm]

theorem sub_buildRows_perm (tol : ℝ) (P : Ptf ℝ) (wf : PtfWellFormed tol P) (p : Phase) :
    (sub tol p (buildRows P)).Perm (piece P p) := by
  have h0 : 0 ≤ tol := wf.1
  have h1 : (sub tol p (buildRows P)).Perm (sub tol p (buildRowsUnsorted P)) := by
    unfold sub buildRows
    exact (mergeSort_perm _ _).filter _
  have h2 : sub tol p (buildRowsUnsorted P) = piece P p := by
    have e : sub tol p (buildRowsUnsorted P)
        = sub tol p (piece P .climb) ++ sub tol p (piece P .cruise) ++ sub tol p (piece P .descend) := by
      rw [buildRowsUnsorted_eq]; unfold sub; rw [filter_append, filter_append]
    rw [e, sub_of_all_phase tol h0 _ .climb (piece_phase tol P wf .climb),
      sub_of_all_phase tol h0 _ .cruise (piece_phase tol P wf .cruise),
      sub_of_all_phase tol h0 _ .descend (piece_phase tol P wf .descend)]
    cases p <;> simp
  rw [← h2]; exact h1

theorem piece_coverageOk (tol : ℝ) (P : Ptf ℝ) (wf : PtfWellFormed tol P) (p : Phase) :
    coverageOk (piece P p) = true := by
  obtain ⟨_, hln, hnh, kc, kz, kd, _, _, _⟩ := wf
  cases p
  · exact G3_coverageOk (fun c => c.fl) P.lo P.nom P.hi _ _ _ (fun _ => ⟨rfl, rfl, rfl⟩) (fun _ => ⟨rfl, rfl, rfl⟩)
      P.climb kc (ne_of_lt hln) (ne_of_lt (lt_trans hln hnh)) (ne_of_lt hnh)
  · exact G3_coverageOk (fun c => c.fl) P.lo P.nom P.hi _ _ _ (fun _ => ⟨rfl, rfl, rfl⟩) (fun _ => ⟨rfl, rfl, rfl⟩)
      P.cruise kz (ne_of_lt hln) (ne_of_lt (lt_trans hln hnh)) (ne_of_lt hnh)
  · exact G1_coverageOk (fun d => d.fl) P.nom _ (fun _ => rfl) (fun _ => rfl) P.descent kd

theorem piece_masses_length (tol : ℝ) (P : Ptf ℝ) (wf : PtfWellFormed tol P) (p : Phase) (hne : piece P p ≠ []) :
    (masses (piece P p)).length = phaseMasses p := by
  obtain ⟨_, hln, hnh, _, _, _, _, _, _⟩ := wf
  have nd : [P.lo, P.nom, P.hi].Nodup := by
    simp [ne_of_lt hln, ne_of_lt (lt_trans hln hnh), ne_of_lt hnh]
  rw [masses_length]
  cases p
  · have : P.climb ≠ [] := by rintro h; apply hne; simp [piece, G3, h]
    rw [piece, G3_mass_toFinset P.lo P.nom P.hi _ _ _ (fun _ => ⟨rfl, rfl, rfl⟩) P.climb this,
      toFinset_card_of_nodup nd]; rfl
  · have : P.cruise ≠ [] := by rintro h; apply hne; simp [piece, G3, h]
    rw [piece, G3_mass_toFinset P.lo P.nom P.hi _ _ _ (fun _ => ⟨rfl, rfl, rfl⟩) P.cruise this,
      toFinset_card_of_nodup nd]; rfl
  · have : P.descent ≠ [] := by rintro h; apply hne; simp [piece, h]
    obtain ⟨d0, hd0⟩ := exists_mem_of_ne_nil _ this
    have e : ((piece P .descend).map (·.mass)).toFinset = {P.nom} := by
      ext a
      simp only [piece, mem_toFinset, mem_map, Finset.mem_singleton]
      constructor
      · rintro ⟨_, ⟨d, _, rfl⟩, rfl⟩; rfl
      · rintro rfl; exact ⟨descentRow P d0, ⟨d0, hd0, rfl⟩, rfl⟩
    rw [e]; rfl

/-- the table built from a well-formed PTF passes the intended (and therefore the as-is) load check -/
theorem buildRows_validateIntended (tol : ℝ) (P : Ptf ℝ) (wf : PtfWellFormed tol P) :
    validateIntended tol (buildRows P) = .ok () := by
  have h0 : 0 ≤ tol := wf.1
  have hcne : P.climb ≠ [] := wf.2.2.2.2.2.2.2.2
  have perm := sub_buildRows_perm tol P wf
  have cov : ∀ p, coverageOk (sub tol p (buildRows P)) = true := fun p =>
    (coverageOk_perm (perm p)).mpr (piece_coverageOk tol P wf p)
  obtain ⟨_, _, _, kc, kz, kd, _, _, _⟩ := wf
  -- a climb row exists
  obtain ⟨c0, hc0⟩ := exists_mem_of_ne_nil _ hcne
  have hrow : cr1 P c0 ∈ buildRows P := climb_mem P c0 hc0 _ (by simp [climbRows, cr1])
  have hrow' : cr1 P c0 ∈ sub tol .climb (buildRows P) :=
    (perm .climb).mem_iff.mpr ((mem_G3 _ _ _ _ _).mpr ⟨c0, hc0, Or.inl rfl⟩)
  have hclimb : tol < (cr1 P c0).rocd := by
    have := ((mem_sub tol .climb _ _).mp hrow').2
    simpa [inPhase] using this
  have hv : validate tol (buildRows P) = .ok () := by
    rw [validate_iff]
    refine ⟨?_, ⟨cov .cruise, cov .climb, cov .descend⟩, ?_, ?_, ?_, ?_, ?_, ?_⟩
    · rw [nMassExpected_of_climb_row tol h0 _ _ hrow hclimb]
      -- the table's masses are the climb section's masses
      have hsub : masses (buildRows P) = masses (piece P .climb) := by
        unfold masses
        apply sortU_congr
        intro a
        simp only [mem_map]
        constructor
        · rintro ⟨r, hr, rfl⟩
          rw [mem_buildRows, buildRowsUnsorted_eq, mem_append, mem_append] at hr
          rcases hr with (hr | hr) | hr
          · exact ⟨r, hr, rfl⟩
          · obtain ⟨c, _, h⟩ := (mem_G3 _ _ _ _ r).mp hr
            rcases h with rfl | rfl | rfl
            · exact ⟨cr1 P c0, (mem_G3 _ _ _ _ _).mpr ⟨c0, hc0, Or.inl rfl⟩, rfl⟩
            · exact ⟨cr2 P c0, (mem_G3 _ _ _ _ _).mpr ⟨c0, hc0, Or.inr (Or.inl rfl)⟩, rfl⟩
            · exact ⟨cr3 P c0, (mem_G3 _ _ _ _ _).mpr ⟨c0, hc0, Or.inr (Or.inr rfl)⟩, rfl⟩
          · obtain ⟨d, _, rfl⟩ := mem_map.mp hr
            exact ⟨cr2 P c0, (mem_G3 _ _ _ _ _).mpr ⟨c0, hc0, Or.inr (Or.inl rfl)⟩, rfl⟩
        · rintro ⟨r, hr, rfl⟩
          refine ⟨r, ?_, rfl⟩
          rw [mem_buildRows, buildRowsUnsorted_eq]
          exact mem_append_left _ (mem_append_left _ hr)
      rw [hsub]
      exact piece_masses_length tol P ⟨h0, ‹_›, ‹_›, kc, kz, kd, ‹_›, ‹_›, hcne⟩ .climb
        (by intro h; have := (perm .climb).mem_iff.mp hrow'; rw [h] at this; simp at this)
    · exact (flOnlyOk_perm _ (perm .cruise)).mpr
        (G3_flOnlyOk (fun c => c.fl) _ _ _ (fun _ => ⟨rfl, rfl, rfl⟩) P.cruise kz _ (fun _ => ⟨rfl, rfl⟩))
    · exact (flOnlyOk_perm _ (perm .climb)).mpr
        (G3_flOnlyOk (fun c => c.fl) _ _ _ (fun _ => ⟨rfl, rfl, rfl⟩) P.climb kc _ (fun _ => ⟨rfl, rfl⟩))
    · exact (flOnlyOk_perm _ (perm .climb)).mpr
        (G3_flOnlyOk (fun c => c.fl) _ _ _ (fun _ => ⟨rfl, rfl, rfl⟩) P.climb kc _ (fun _ => ⟨rfl, rfl⟩))
    · exact (flOnlyOk_perm _ (perm .descend)).mpr (G1_flOnlyOk (fun d => d.fl) _ (fun _ => rfl) P.descent kd _)
    · exact (flOnlyOk_perm _ (perm .descend)).mpr (G1_flOnlyOk (fun d => d.fl) _ (fun _ => rfl) P.descent kd _)
    · exact (flOnlyOk_perm _ (perm .descend)).mpr (G1_flOnlyOk (fun d => d.fl) _ (fun _ => rfl) P.descent kd _)
  unfold validateIntended
  rw [hv]
  have hall : ([Phase.cruise, Phase.climb, Phase.descend].all fun p =>
      (sub tol p (buildRows P)).isEmpty || (masses (sub tol p (buildRows P))).length == phaseMasses p) = true := by
    simp only [all_cons, all_nil, Bool.and_true, Bool.and_eq_true, Bool.or_eq_true, List.isEmpty_iff, beq_iff_eq]
    have key : ∀ p, sub tol p (buildRows P) = [] ∨ (masses (sub tol p (buildRows P))).length = phaseMasses p := by
      intro p
      by_cases hp : piece P p = []
      · left; have := perm p; rw [hp] at this; exact this.eq_nil
      · right; rw [masses_perm (perm p)]
        exact piece_masses_length tol P ⟨h0, ‹_›, ‹_›, kc, kz, kd, ‹_›, ‹_›, hcne⟩ p hp
    exact ⟨key .cruise, key .climb, key .descend⟩
  simp only [hall, ↓reduceIte]

end Aeic.PerfTable
