/-
  Kernel bridge, part 2: the definitions produced by the *symbolic* translator (`pykern.Sym`: straight-line code with `if`
  statements, mappings with constant keys, per-class `match`, inlined calls) equal the hand-written models over ℝ:
  `emissions/gse.py`, `emissions/apu.py` (model `AeicModel/Emissions.lean`, C01), the altitude schedule and the starting
  mass of the legacy builder (`AeicModel/Builder.lean`, C02), and the last lines of `Weather.get_ground_speed`
  (`AeicModel/Wind.lean`, C16).  Helper lemmas only.
-/
import AeicProofs.RealInst
import AeicProofs.Lemmas.C01Lemmas
import AeicModel.Generated.Kernels
import AeicModel.Emissions
import AeicModel.Builder
import AeicModel.Wind

set_option linter.unusedTactic false
set_option linter.unreachableTactic false
set_option linter.unusedSimpArgs false
set_option linter.unnecessarySeqFocus false

namespace KernelBridge2
open Aeic Aeic.Emissions

/-! ## GSE (`emissions/gse.py`) -/

/-- attribute environment of a fuel, as `get_GSE_emissions` / `get_APU_emissions` read it -/
def fuelEnv (f : Fuel ℝ) : String → ℝ := fun k =>
  if k = "fuel.EI_CO2" then f.eiCO2 else if k = "fuel.EI_H2O" then f.eiH2O else 0

macro "gse_close" : tactic =>
  `(tactic| (simp only [gseEm, gseFuelBurn, gseNominal, gseSO4, gseSO2, gseFSC, fuelEnv, String.reduceEq, if_true, if_false,
      lit_real, one_real, zero_real, Option.some.injEq] <;> norm_num))

/-- every species `get_GSE_emissions` reports for a wide-body aircraft, and its fuel burn, as the source text computes them -/
theorem gse_wide (f : Fuel ℝ) :
    some (Kern.gse_wide_CO2 (fuelEnv f)) = gseEm f .wide .CO2 ∧
    some (Kern.gse_wide_NOx (fuelEnv f)) = gseEm f .wide .NOx ∧
    some (Kern.gse_wide_HC (fuelEnv f)) = gseEm f .wide .HC ∧
    some (Kern.gse_wide_CO (fuelEnv f)) = gseEm f .wide .CO ∧
    some (Kern.gse_wide_H2O (fuelEnv f)) = gseEm f .wide .H2O ∧
    some (Kern.gse_wide_NO (fuelEnv f)) = gseEm f .wide .NO ∧
    some (Kern.gse_wide_NO2 (fuelEnv f)) = gseEm f .wide .NO2 ∧
    some (Kern.gse_wide_HONO (fuelEnv f)) = gseEm f .wide .HONO ∧
    some (Kern.gse_wide_SO4 (fuelEnv f)) = gseEm f .wide .SO4 ∧
    some (Kern.gse_wide_SO2 (fuelEnv f)) = gseEm f .wide .SO2 ∧
    some (Kern.gse_wide_SOx (fuelEnv f)) = gseEm f .wide .SOx ∧
    some (Kern.gse_wide_PMvol (fuelEnv f)) = gseEm f .wide .PMvol ∧
    some (Kern.gse_wide_PMnvol (fuelEnv f)) = gseEm f .wide .PMnvol ∧
    Kern.gse_wide_fuel (fuelEnv f) = gseFuelBurn f .wide := by
  refine ⟨?_, ?_, ?_, ?_, ?_, ?_, ?_, ?_, ?_, ?_, ?_, ?_, ?_, ?_⟩ <;>
    (simp only [Kern.gse_wide_CO2, Kern.gse_wide_NOx, Kern.gse_wide_HC, Kern.gse_wide_CO, Kern.gse_wide_H2O, Kern.gse_wide_NO, Kern.gse_wide_NO2, Kern.gse_wide_HONO, Kern.gse_wide_SO4, Kern.gse_wide_SO2, Kern.gse_wide_SOx, Kern.gse_wide_PMvol, Kern.gse_wide_PMnvol, Kern.gse_wide_fuel] <;> gse_close)

/-- every species `get_GSE_emissions` reports for a narrow-body aircraft, and its fuel burn, as the source text computes them -/
theorem gse_narrow (f : Fuel ℝ) :
    some (Kern.gse_narrow_CO2 (fuelEnv f)) = gseEm f .narrow .CO2 ∧
    some (Kern.gse_narrow_NOx (fuelEnv f)) = gseEm f .narrow .NOx ∧
    some (Kern.gse_narrow_HC (fuelEnv f)) = gseEm f .narrow .HC ∧
    some (Kern.gse_narrow_CO (fuelEnv f)) = gseEm f .narrow .CO ∧
    some (Kern.gse_narrow_H2O (fuelEnv f)) = gseEm f .narrow .H2O ∧
    some (Kern.gse_narrow_NO (fuelEnv f)) = gseEm f .narrow .NO ∧
    some (Kern.gse_narrow_NO2 (fuelEnv f)) = gseEm f .narrow .NO2 ∧
    some (Kern.gse_narrow_HONO (fuelEnv f)) = gseEm f .narrow .HONO ∧
    some (Kern.gse_narrow_SO4 (fuelEnv f)) = gseEm f .narrow .SO4 ∧
    some (Kern.gse_narrow_SO2 (fuelEnv f)) = gseEm f .narrow .SO2 ∧
    some (Kern.gse_narrow_SOx (fuelEnv f)) = gseEm f .narrow .SOx ∧
    some (Kern.gse_narrow_PMvol (fuelEnv f)) = gseEm f .narrow .PMvol ∧
    some (Kern.gse_narrow_PMnvol (fuelEnv f)) = gseEm f .narrow .PMnvol ∧
    Kern.gse_narrow_fuel (fuelEnv f) = gseFuelBurn f .narrow := by
  refine ⟨?_, ?_, ?_, ?_, ?_, ?_, ?_, ?_, ?_, ?_, ?_, ?_, ?_, ?_⟩ <;>
    (simp only [Kern.gse_narrow_CO2, Kern.gse_narrow_NOx, Kern.gse_narrow_HC, Kern.gse_narrow_CO, Kern.gse_narrow_H2O, Kern.gse_narrow_NO, Kern.gse_narrow_NO2, Kern.gse_narrow_HONO, Kern.gse_narrow_SO4, Kern.gse_narrow_SO2, Kern.gse_narrow_SOx, Kern.gse_narrow_PMvol, Kern.gse_narrow_PMnvol, Kern.gse_narrow_fuel] <;> gse_close)

/-- every species `get_GSE_emissions` reports for a small-body aircraft, and its fuel burn, as the source text computes them -/
theorem gse_small (f : Fuel ℝ) :
    some (Kern.gse_small_CO2 (fuelEnv f)) = gseEm f .small .CO2 ∧
    some (Kern.gse_small_NOx (fuelEnv f)) = gseEm f .small .NOx ∧
    some (Kern.gse_small_HC (fuelEnv f)) = gseEm f .small .HC ∧
    some (Kern.gse_small_CO (fuelEnv f)) = gseEm f .small .CO ∧
    some (Kern.gse_small_H2O (fuelEnv f)) = gseEm f .small .H2O ∧
    some (Kern.gse_small_NO (fuelEnv f)) = gseEm f .small .NO ∧
    some (Kern.gse_small_NO2 (fuelEnv f)) = gseEm f .small .NO2 ∧
    some (Kern.gse_small_HONO (fuelEnv f)) = gseEm f .small .HONO ∧
    some (Kern.gse_small_SO4 (fuelEnv f)) = gseEm f .small .SO4 ∧
    some (Kern.gse_small_SO2 (fuelEnv f)) = gseEm f .small .SO2 ∧
    some (Kern.gse_small_SOx (fuelEnv f)) = gseEm f .small .SOx ∧
    some (Kern.gse_small_PMvol (fuelEnv f)) = gseEm f .small .PMvol ∧
    some (Kern.gse_small_PMnvol (fuelEnv f)) = gseEm f .small .PMnvol ∧
    Kern.gse_small_fuel (fuelEnv f) = gseFuelBurn f .small := by
  refine ⟨?_, ?_, ?_, ?_, ?_, ?_, ?_, ?_, ?_, ?_, ?_, ?_, ?_, ?_⟩ <;>
    (simp only [Kern.gse_small_CO2, Kern.gse_small_NOx, Kern.gse_small_HC, Kern.gse_small_CO, Kern.gse_small_H2O, Kern.gse_small_NO, Kern.gse_small_NO2, Kern.gse_small_HONO, Kern.gse_small_SO4, Kern.gse_small_SO2, Kern.gse_small_SOx, Kern.gse_small_PMvol, Kern.gse_small_PMnvol, Kern.gse_small_fuel] <;> gse_close)

/-- every species `get_GSE_emissions` reports for a freight-body aircraft, and its fuel burn, as the source text computes them -/
theorem gse_freight (f : Fuel ℝ) :
    some (Kern.gse_freight_CO2 (fuelEnv f)) = gseEm f .freight .CO2 ∧
    some (Kern.gse_freight_NOx (fuelEnv f)) = gseEm f .freight .NOx ∧
    some (Kern.gse_freight_HC (fuelEnv f)) = gseEm f .freight .HC ∧
    some (Kern.gse_freight_CO (fuelEnv f)) = gseEm f .freight .CO ∧
    some (Kern.gse_freight_H2O (fuelEnv f)) = gseEm f .freight .H2O ∧
    some (Kern.gse_freight_NO (fuelEnv f)) = gseEm f .freight .NO ∧
    some (Kern.gse_freight_NO2 (fuelEnv f)) = gseEm f .freight .NO2 ∧
    some (Kern.gse_freight_HONO (fuelEnv f)) = gseEm f .freight .HONO ∧
    some (Kern.gse_freight_SO4 (fuelEnv f)) = gseEm f .freight .SO4 ∧
    some (Kern.gse_freight_SO2 (fuelEnv f)) = gseEm f .freight .SO2 ∧
    some (Kern.gse_freight_SOx (fuelEnv f)) = gseEm f .freight .SOx ∧
    some (Kern.gse_freight_PMvol (fuelEnv f)) = gseEm f .freight .PMvol ∧
    some (Kern.gse_freight_PMnvol (fuelEnv f)) = gseEm f .freight .PMnvol ∧
    Kern.gse_freight_fuel (fuelEnv f) = gseFuelBurn f .freight := by
  refine ⟨?_, ?_, ?_, ?_, ?_, ?_, ?_, ?_, ?_, ?_, ?_, ?_, ?_, ?_⟩ <;>
    (simp only [Kern.gse_freight_CO2, Kern.gse_freight_NOx, Kern.gse_freight_HC, Kern.gse_freight_CO, Kern.gse_freight_H2O, Kern.gse_freight_NO, Kern.gse_freight_NO2, Kern.gse_freight_HONO, Kern.gse_freight_SO4, Kern.gse_freight_SO2, Kern.gse_freight_SOx, Kern.gse_freight_PMvol, Kern.gse_freight_PMnvol, Kern.gse_freight_fuel] <;> gse_close)

/-! ## APU (`emissions/apu.py`) -/

/-- attribute environment of the arguments of `get_APU_emissions`: the APU record, the fuel, and the idle SO₂ / SO₄ LTO indices -/
def apuEnv (f : Fuel ℝ) (so2 so4 : ℝ) (a : ApuIn ℝ) : String → ℝ := fun k =>
  if k = "apu.fuel_kg_per_s" then a.fuel else if k = "apu.PM10_g_per_kg" then a.pm10
  else if k = "apu.NOx_g_per_kg" then a.nox else if k = "apu.CO_g_per_kg" then a.co else if k = "apu.HC_g_per_kg" then a.hc
  else if k = "lto_indices[Species.SO2][ThrustMode.IDLE]" then so2
  else if k = "lto_indices[Species.SO4][ThrustMode.IDLE]" then so4 else if k = "fuel.EI_H2O" then f.eiH2O else 0

/-- LTO indices that hold SO₂ (resp. SO₄) with idle value `so2` (`so4`) exactly when `h2` (`h4`) -/
def ltoSulfur (h2 h4 : Bool) (so2 so4 : ℝ) : SV (TM ℝ)
  | .SO2 => if h2 then some (TM.const so2) else none
  | .SO4 => if h4 then some (TM.const so4) else none
  | _ => none

/-- the environment evaluated at the keys the translated source reads -/
theorem apuEnv_eval (f : Fuel ℝ) (so2 so4 : ℝ) (a : ApuIn ℝ) :
    apuEnv f so2 so4 a "apu.fuel_kg_per_s" = a.fuel ∧
    apuEnv f so2 so4 a "apu.PM10_g_per_kg" = a.pm10 ∧
    apuEnv f so2 so4 a "apu.NOx_g_per_kg" = a.nox ∧
    apuEnv f so2 so4 a "apu.CO_g_per_kg" = a.co ∧
    apuEnv f so2 so4 a "apu.HC_g_per_kg" = a.hc ∧
    apuEnv f so2 so4 a "lto_indices[Species.SO2][ThrustMode.IDLE]" = so2 ∧
    apuEnv f so2 so4 a "lto_indices[Species.SO4][ThrustMode.IDLE]" = so4 ∧
    apuEnv f so2 so4 a "fuel.EI_H2O" = f.eiH2O := by
  refine ⟨?_, ?_, ?_, ?_, ?_, ?_, ?_, ?_⟩ <;> simp only [apuEnv, String.reduceEq, if_true, if_false]

theorem running_real (x : ℝ) : ((!decide (x = 0)) = true) ↔ (x < 0 ∨ 0 < x) := by
  simp only [Bool.not_eq_true', decide_eq_false_iff_not]; exact ne_iff_lt_or_gt

theorem opt_idle (h : Bool) (v : ℝ) :
    (Option.map (fun t : TM ℝ => t.idle) (if h = true then some (⟨v, v, v, v⟩ : TM ℝ) else none)).getD 0 = if h = true then v else 0 := by
  cases h <;> simp

macro "apu_close" f:term "," so2:term "," so4:term "," a:term : tactic =>
  `(tactic| (
    try simp only [(apuEnv_eval $f $so2 $so4 $a).1, (apuEnv_eval $f $so2 $so4 $a).2.1, (apuEnv_eval $f $so2 $so4 $a).2.2.1,
      (apuEnv_eval $f $so2 $so4 $a).2.2.2.1, (apuEnv_eval $f $so2 $so4 $a).2.2.2.2.1, (apuEnv_eval $f $so2 $so4 $a).2.2.2.2.2.1,
      (apuEnv_eval $f $so2 $so4 $a).2.2.2.2.2.2.1, (apuEnv_eval $f $so2 $so4 $a).2.2.2.2.2.2.2]
    all_goals try simp only [apuIdx, apuEm, apuFuelBurn, apuTime, apuCO2, apuPMvol, apuPMnvol, apuPM10, apuSulfur, apuRunning, isZero_real,
      ltoSulfur, TM.const, specNO, specNO2, specHONO, noH, no2H, honoH, Option.map_some]
    all_goals try simp only [running_real, opt_idle, ite_and, lit_real, zero_real, one_real, smax_real, Option.some.injEq]
    all_goals first | norm_num | (norm_num; ring_nf) | (split_ifs <;> norm_num <;> ring_nf)))

/-- every emission index `get_APU_emissions` computes (independent of the APU time), as the source text says it -/
theorem apu_indices (c : Cfg) (f : Fuel ℝ) (so2 so4 t : ℝ) (a : ApuIn ℝ) (h2 h4 : Bool) :
    some (Kern.apu_index_SO2 (apuEnv f so2 so4 a) t h2 h4) = apuIdx c f (ltoSulfur h2 h4 so2 so4) a .SO2 ∧
    some (Kern.apu_index_SO4 (apuEnv f so2 so4 a) t h2 h4) = apuIdx c f (ltoSulfur h2 h4 so2 so4) a .SO4 ∧
    some (Kern.apu_index_SOx (apuEnv f so2 so4 a) t h2 h4) = apuIdx c f (ltoSulfur h2 h4 so2 so4) a .SOx ∧
    some (Kern.apu_index_PMnvol (apuEnv f so2 so4 a) t h2 h4) = apuIdx c f (ltoSulfur h2 h4 so2 so4) a .PMnvol ∧
    some (Kern.apu_index_PMvol (apuEnv f so2 so4 a) t h2 h4) = apuIdx c f (ltoSulfur h2 h4 so2 so4) a .PMvol ∧
    some (Kern.apu_index_NO (apuEnv f so2 so4 a) t h2 h4) = apuIdx c f (ltoSulfur h2 h4 so2 so4) a .NO ∧
    some (Kern.apu_index_NO2 (apuEnv f so2 so4 a) t h2 h4) = apuIdx c f (ltoSulfur h2 h4 so2 so4) a .NO2 ∧
    some (Kern.apu_index_HONO (apuEnv f so2 so4 a) t h2 h4) = apuIdx c f (ltoSulfur h2 h4 so2 so4) a .HONO ∧
    some (Kern.apu_index_NOx (apuEnv f so2 so4 a) t h2 h4) = apuIdx c f (ltoSulfur h2 h4 so2 so4) a .NOx ∧
    some (Kern.apu_index_HC (apuEnv f so2 so4 a) t h2 h4) = apuIdx c f (ltoSulfur h2 h4 so2 so4) a .HC ∧
    some (Kern.apu_index_CO (apuEnv f so2 so4 a) t h2 h4) = apuIdx c f (ltoSulfur h2 h4 so2 so4) a .CO ∧
    some (Kern.apu_index_H2O (apuEnv f so2 so4 a) t h2 h4) = apuIdx c f (ltoSulfur h2 h4 so2 so4) a .H2O ∧
    some (Kern.apu_index_CO2 (apuEnv f so2 so4 a) t h2 h4) = apuIdx c f (ltoSulfur h2 h4 so2 so4) a .CO2 := by
  refine ⟨?_, ?_, ?_, ?_, ?_, ?_, ?_, ?_, ?_, ?_, ?_, ?_, ?_⟩
  · unfold Kern.apu_index_SO2; apu_close f, so2, so4, a
  · unfold Kern.apu_index_SO4; apu_close f, so2, so4, a
  · unfold Kern.apu_index_SOx; apu_close f, so2, so4, a
  · unfold Kern.apu_index_PMnvol; apu_close f, so2, so4, a
  · unfold Kern.apu_index_PMvol; apu_close f, so2, so4, a
  · unfold Kern.apu_index_NO; apu_close f, so2, so4, a
  · unfold Kern.apu_index_NO2; apu_close f, so2, so4, a
  · unfold Kern.apu_index_HONO; apu_close f, so2, so4, a
  · unfold Kern.apu_index_NOx; apu_close f, so2, so4, a
  · unfold Kern.apu_index_HC; apu_close f, so2, so4, a
  · unfold Kern.apu_index_CO; apu_close f, so2, so4, a
  · unfold Kern.apu_index_H2O; apu_close f, so2, so4, a
  · unfold Kern.apu_index_CO2; apu_close f, so2, so4, a

/-- the APU amounts for the default APU time of 900 s, and the APU fuel burn -/
theorem apu_emissions (c : Cfg) (f : Fuel ℝ) (so2 so4 : ℝ) (a : ApuIn ℝ) (h2 h4 : Bool) :
    some (Kern.apu_emission_SO2 (apuEnv f so2 so4 a) 900 h2 h4) = apuEm c f (ltoSulfur h2 h4 so2 so4) a .SO2 ∧
    some (Kern.apu_emission_SO4 (apuEnv f so2 so4 a) 900 h2 h4) = apuEm c f (ltoSulfur h2 h4 so2 so4) a .SO4 ∧
    some (Kern.apu_emission_SOx (apuEnv f so2 so4 a) 900 h2 h4) = apuEm c f (ltoSulfur h2 h4 so2 so4) a .SOx ∧
    some (Kern.apu_emission_PMnvol (apuEnv f so2 so4 a) 900 h2 h4) = apuEm c f (ltoSulfur h2 h4 so2 so4) a .PMnvol ∧
    some (Kern.apu_emission_PMvol (apuEnv f so2 so4 a) 900 h2 h4) = apuEm c f (ltoSulfur h2 h4 so2 so4) a .PMvol ∧
    some (Kern.apu_emission_NO (apuEnv f so2 so4 a) 900 h2 h4) = apuEm c f (ltoSulfur h2 h4 so2 so4) a .NO ∧
    some (Kern.apu_emission_NO2 (apuEnv f so2 so4 a) 900 h2 h4) = apuEm c f (ltoSulfur h2 h4 so2 so4) a .NO2 ∧
    some (Kern.apu_emission_HONO (apuEnv f so2 so4 a) 900 h2 h4) = apuEm c f (ltoSulfur h2 h4 so2 so4) a .HONO ∧
    some (Kern.apu_emission_NOx (apuEnv f so2 so4 a) 900 h2 h4) = apuEm c f (ltoSulfur h2 h4 so2 so4) a .NOx ∧
    some (Kern.apu_emission_HC (apuEnv f so2 so4 a) 900 h2 h4) = apuEm c f (ltoSulfur h2 h4 so2 so4) a .HC ∧
    some (Kern.apu_emission_CO (apuEnv f so2 so4 a) 900 h2 h4) = apuEm c f (ltoSulfur h2 h4 so2 so4) a .CO ∧
    some (Kern.apu_emission_H2O (apuEnv f so2 so4 a) 900 h2 h4) = apuEm c f (ltoSulfur h2 h4 so2 so4) a .H2O ∧
    some (Kern.apu_emission_CO2 (apuEnv f so2 so4 a) 900 h2 h4) = apuEm c f (ltoSulfur h2 h4 so2 so4) a .CO2 ∧
    Kern.apu_fuel_burn (apuEnv f so2 so4 a) 900 h2 h4 = apuFuelBurn a := by
  refine ⟨?_, ?_, ?_, ?_, ?_, ?_, ?_, ?_, ?_, ?_, ?_, ?_, ?_, ?_⟩
  · unfold Kern.apu_emission_SO2; apu_close f, so2, so4, a
  · unfold Kern.apu_emission_SO4; apu_close f, so2, so4, a
  · unfold Kern.apu_emission_SOx; apu_close f, so2, so4, a
  · unfold Kern.apu_emission_PMnvol; apu_close f, so2, so4, a
  · unfold Kern.apu_emission_PMvol; apu_close f, so2, so4, a
  · unfold Kern.apu_emission_NO; apu_close f, so2, so4, a
  · unfold Kern.apu_emission_NO2; apu_close f, so2, so4, a
  · unfold Kern.apu_emission_HONO; apu_close f, so2, so4, a
  · unfold Kern.apu_emission_NOx; apu_close f, so2, so4, a
  · unfold Kern.apu_emission_HC; apu_close f, so2, so4, a
  · unfold Kern.apu_emission_CO; apu_close f, so2, so4, a
  · unfold Kern.apu_emission_H2O; apu_close f, so2, so4, a
  · unfold Kern.apu_emission_CO2; apu_close f, so2, so4, a
  · unfold Kern.apu_fuel_burn; apu_close f, so2, so4, a


/-! ## Legacy builder (`trajectories/builders/legacy.py`): altitude schedule and starting mass -/

open Aeic.Builder in
/-- attribute environment of the arguments of `LegacyContext.__init__` -/
def schedEnv (origAlt destAlt maxAlt : ℝ) : String → ℝ := fun k =>
  if k = "mission.origin_position.altitude" then origAlt else if k = "mission.destination_position.altitude" then destAlt
  else if k = "ac_performance.maximum_altitude" then maxAlt else 0

theorem schedEnv_eval (o d m : ℝ) :
    schedEnv o d m "mission.origin_position.altitude" = o ∧ schedEnv o d m "mission.destination_position.altitude" = d ∧
    schedEnv o d m "ac_performance.maximum_altitude" = m := by
  refine ⟨?_, ?_, ?_⟩ <;> simp only [schedEnv, String.reduceEq, if_true, if_false]

theorem ok_of_guards {ε β : Type} (c1 c2 c3 : Prop) [Decidable c1] [Decidable c2] [Decidable c3] (e1 e2 e3 : ε) (v s : β)
    (h : (if c1 then Except.error e1 else if c2 then Except.error e2 else if c3 then Except.error e3 else Except.ok v)
      = Except.ok s) : v = s := by
  split_ifs at h; simpa using h

/-- whenever the model's `schedule` accepts a mission, the five altitudes / distances the source text assigns to the context are
    the model's (all clamps included); the three refusals of the source are `if …: raise` guards, which the translator lists
    separately -/
theorem legacy_schedule (o d m : ℝ) (s : Builder.Sched ℝ) (h : Builder.schedule o d m = .ok s) :
    Kern.legacy_clm_start_altitude (schedEnv o d m) = s.clmStart ∧
    Kern.legacy_crz_start_altitude (schedEnv o d m) = s.crzStart ∧
    Kern.legacy_des_start_altitude (schedEnv o d m) = s.desStart ∧
    Kern.legacy_des_end_altitude (schedEnv o d m) = s.desEnd ∧
    Kern.legacy_descent_dist_approx (schedEnv o d m) = s.descentDist := by
  unfold Builder.schedule at h
  simp only at h
  have hv := ok_of_guards _ _ _ _ _ _ _ _ h
  subst hv
  obtain ⟨e1, e2, e3⟩ := schedEnv_eval o d m
  refine ⟨?_, ?_, ?_, ?_, ?_⟩ <;>
    (simp only [Kern.legacy_clm_start_altitude, Kern.legacy_crz_start_altitude, Kern.legacy_des_start_altitude,
      Kern.legacy_des_end_altitude, Kern.legacy_descent_dist_approx, e1, e2, e3])

/-- attribute environment of `LegacyBuilder.calc_starting_mass`: the aircraft, the mission, the track length and the cruise
    performance `perf` the method evaluates first -/
def massEnv (ac : Builder.Aircraft ℝ) (total loadFactor : ℝ) (p : Builder.Perf ℝ) : String → ℝ := fun k =>
  if k = "self.ac_performance.maximum_payload" then ac.maxPayload else if k = "self.mission.load_factor" then loadFactor
  else if k = "self.ground_track.total_distance" then total else if k = "perf.true_airspeed" then p.tas
  else if k = "perf.fuel_flow" then p.ff else if k = "self.ac_performance.empty_mass" then ac.emptyMass
  else if k = "self.ac_performance.maximum_mass" then ac.maxMass else 0

theorem massEnv_eval (ac : Builder.Aircraft ℝ) (total lf : ℝ) (p : Builder.Perf ℝ) :
    massEnv ac total lf p "self.ac_performance.maximum_payload" = ac.maxPayload ∧
    massEnv ac total lf p "self.mission.load_factor" = lf ∧ massEnv ac total lf p "self.ground_track.total_distance" = total ∧
    massEnv ac total lf p "perf.true_airspeed" = p.tas ∧ massEnv ac total lf p "perf.fuel_flow" = p.ff ∧
    massEnv ac total lf p "self.ac_performance.empty_mass" = ac.emptyMass ∧
    massEnv ac total lf p "self.ac_performance.maximum_mass" = ac.maxMass := by
  refine ⟨?_, ?_, ?_, ?_, ?_, ?_, ?_⟩ <;> simp only [massEnv, String.reduceEq, if_true, if_false]

/-- the starting mass and the trip fuel of the source text are the model's `calcStartingMass` -/
theorem legacy_starting_mass (perf : Builder.PerfFn ℝ) (ac : Builder.Aircraft ℝ) (total lf crz : ℝ) (p : Builder.Perf ℝ)
    (hp : perf .cruise crz ac.maxMass = .ok p) :
    Builder.calcStartingMass perf ac total lf crz =
      .ok (Kern.legacy_starting_mass (massEnv ac total lf p), Kern.legacy_total_fuel_mass (massEnv ac total lf p)) := by
  obtain ⟨e1, e2, e3, e4, e5, e6, e7⟩ := massEnv_eval ac total lf p
  unfold Builder.calcStartingMass
  simp only [hp, bind, Except.bind, pure, Except.pure, Kern.legacy_starting_mass, Kern.legacy_total_fuel_mass,
    e1, e2, e3, e4, e5, e6, e7]
  by_cases hl : (Lit.dec 180 0 : ℝ) * Gen.MINUTES_TO_SECONDS < total / p.tas <;> simp [hl]

/-! ## `Weather.get_ground_speed` (`weather.py`): the vector sum after the wind interpolation -/

/-- the last lines of `get_ground_speed`, as the source text says them, are one of the two decompositions of the model: the
    *as-is* one (`u_air = tas·cos h`, `v_air = tas·sin h`; open finding C16-heading-components-swapped — this is the branch that
    proves today) or, once the defect is repaired, the intended one. Which branch proves is reported by `#print`-free means:
    `weather_ground_speed_as_is` below compiles only for the as-is source. -/
theorem weather_ground_speed (A : String → ℝ) :
    (∀ tas hr u v : ℝ, Kern.weather_ground_speed A tas hr u v =
      Wind.hypot ((Wind.airAsIs tas hr).1 + u) ((Wind.airAsIs tas hr).2 + v)) ∨
    (∀ tas hr u v : ℝ, Kern.weather_ground_speed A tas hr u v =
      Wind.hypot ((Wind.airIntended tas hr).1 + u) ((Wind.airIntended tas hr).2 + v)) := by
  first
    | (left; intro tas hr u v; simp only [Kern.weather_ground_speed, Wind.hypot, Wind.airAsIs]; done)
    | (right; intro tas hr u v; simp only [Kern.weather_ground_speed, Wind.hypot, Wind.airIntended]; done)
    | (left; intro tas hr u v; simp only [Kern.weather_ground_speed, Wind.hypot, Wind.airAsIs]; ring_nf)
    | (right; intro tas hr u v; simp only [Kern.weather_ground_speed, Wind.hypot, Wind.airIntended]; ring_nf)

end KernelBridge2
