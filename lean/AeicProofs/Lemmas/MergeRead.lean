/- Reading from a merged store: cumulative-count lookup = concatenation; merged flight-id index = dictionary. -/
import Mathlib.Tactic.SplitIfs
import AeicProofs.Lemmas.StoreIndex
import AeicModel.Merge

namespace Aeic.Merge
open Aeic.Store

/-- `locate` with the cumulative counts started at `acc` (for the induction) -/
def locateGen {α} (acc : Nat) (files : List (List α)) (i : Nat) : Option α :=
  let sz := prefixSums acc (files.map List.length)
  let f := bisectLeft (acc + i + 1) sz
  match sz[f]?, files[f]? with
  | some s, some file => pyGet file (((acc + i : Nat) : Int) - (s : Int))
  | _, _ => none

theorem locate_aux {α} (files : List (List α)) (acc i : Nat) :
    locateGen acc files i = files.flatten[i]? := by
  induction files generalizing acc i with
  | nil => simp [locateGen, prefixSums, bisectLeft]
  | cons file rest ih =>
    unfold locateGen
    simp only [List.map_cons, prefixSums, bisectLeft, List.flatten_cons]
    by_cases h : i < file.length
    · have : ¬ (acc + file.length < acc + i + 1) := by omega
      simp only [this, if_false, List.getElem?_cons_zero]
      rw [List.getElem?_append_left h]
      unfold pyGet
      have h1 : ((acc + i : Nat) : Int) - ((acc + file.length : Nat) : Int) < 0 := by omega
      simp only [h1, if_true]
      have h2 : ¬ ((file.length : Int) + (((acc + i : Nat) : Int) - ((acc + file.length : Nat) : Int)) < 0) := by omega
      simp only [h2, if_false]
      congr 1; omega
    · have hlt : acc + file.length < acc + i + 1 := by omega
      simp only [hlt, if_true]
      rw [List.getElem?_append_right (by omega)]
      have := ih (acc + file.length) (i - file.length)
      unfold locateGen at this
      have e : acc + file.length + (i - file.length) = acc + i := by omega
      simp only [e] at this
      rw [← this]
      simp [Nat.add_comm 1]

theorem locate_flatten {α} (files : List (List α)) (i : Nat) : locate files i = files.flatten[i]? := by
  rw [← locate_aux files 0 i]
  simp only [locate, locateGen, Nat.zero_add]
  split <;> simp_all

theorem mergedLen_flatten {α} (files : List (List α)) : mergedLen files = files.flatten.length := by
  simp [mergedLen, List.length_flatten]

/-! ### merged index -/

/-- the first pair (in list order) carrying `id` -/
def firstPair (P : List (Int × Nat)) (id : Int) : Option Nat := (P.find? (fun p => p.1 = id)).map (·.2)

theorem lookup_sortById (P : List (Int × Nat)) (id : Int) : lookupIndex (sortById P) id = firstPair P id := by
  induction P with
  | nil => simp [sortById, lookupIndex, bisectLeftIds, firstPair]
  | cons p ps ih =>
    obtain ⟨a, k⟩ := p
    simp only [sortById, lookup_insert, ih, firstPair, List.find?_cons]
    by_cases h : a = id <;> simp [h]

theorem firstPair_append (P Q : List (Int × Nat)) (id : Int) :
    firstPair (P ++ Q) id = (firstPair P id).or (firstPair Q id) := by
  unfold firstPair
  rw [List.find?_append]
  cases List.find? (fun p => decide (p.1 = id)) P <;> simp

theorem firstPair_map_offset (P : List (Int × Nat)) (off : Nat) (id : Int) :
    firstPair (P.map (fun p => (p.1, p.2 + off))) id = (firstPair P id).map (· + off) := by
  induction P with
  | nil => simp [firstPair]
  | cons p ps ih =>
    unfold firstPair at ih ⊢
    rw [List.map_cons, List.find?_cons, List.find?_cons]
    by_cases h : p.1 = id
    · simp [h]
    · simp only [h, decide_false]
      exact ih

/-- a store's own sorted table: the first entry with `id` is the first trajectory with `id` -/
theorem firstPair_buildIndex (f : List Item) (id : Int) : firstPair (buildIndex f) id = firstIdx 0 f id := by
  have h1 := lookup_sort 0 f id
  have h2 : lookupIndex (sortById (buildIndex f)) id = firstPair (buildIndex f) id := lookup_sortById _ _
  -- sorting a sorted table again finds the same first entry; go through `lookup_sortById` twice
  unfold buildIndex at *
  rw [← h1, lookup_sortById]
  -- remaining: firstPair (sortById P) id = firstPair P id  (stability)
  generalize indexPairs 0 f = P
  induction P with
  | nil => rfl
  | cons p ps ih =>
    obtain ⟨a, k⟩ := p
    simp only [sortById]
    have hins : ∀ L : List (Int × Nat), firstPair (insertById (a, k) L) id =
        if a = id then some k else firstPair L id := by
      intro L
      induction L with
      | nil => by_cases h : a = id <;> simp [insertById, firstPair, h]
      | cons q qs ihq =>
        simp only [insertById]
        by_cases hle : a ≤ q.1
        · rw [if_pos hle]
          by_cases h : a = id <;> simp [firstPair, h]
        · rw [if_neg hle]
          have hq : q.1 ≠ a := by omega
          by_cases h : a = id
          · have : ¬ q.1 = id := by rw [← h]; exact hq
            unfold firstPair at ihq ⊢
            simp only [List.find?_cons, this, decide_false]
            rw [ihq]
          · unfold firstPair at ihq ⊢
            simp only [List.find?_cons]
            by_cases hqi : q.1 = id
            · simp [hqi, h]
            · simp only [hqi, decide_false]; rw [ihq]
    rw [hins, ih]
    by_cases h : a = id <;> simp [firstPair, h]

theorem firstIdx_off (off : Nat) (f : List Item) (id : Int) :
    firstIdx off f id = (firstIdx 0 f id).map (· + off) := by
  induction f generalizing off with
  | nil => simp [firstIdx]
  | cons it rest ih =>
    simp only [firstIdx]
    by_cases h : it.fid.getD 0 = id
    · simp [h]
    · simp only [h, if_false]
      rw [ih (off + 1), ih (0 + 1)]
      cases firstIdx 0 rest id <;> simp
      omega

theorem firstIdx_append (off : Nat) (f g : List Item) (id : Int) :
    firstIdx off (f ++ g) id = (firstIdx off f id).or (firstIdx (off + f.length) g id) := by
  induction f generalizing off with
  | nil => simp [firstIdx]
  | cons it rest ih =>
    simp only [List.cons_append, firstIdx]
    by_cases h : it.fid.getD 0 = id
    · simp [h]
    · simp only [h, if_false]
      rw [ih (off + 1)]
      congr 2
      simp only [List.length_cons]; omega

theorem mergedPairs_first (off : Nat) (files : List (List Item)) (id : Int) :
    firstPair (mergedPairs off files) id = firstIdx off files.flatten id := by
  induction files generalizing off with
  | nil => simp [mergedPairs, firstPair, firstIdx]
  | cons f fs ih =>
    simp only [mergedPairs, List.flatten_cons]
    rw [firstPair_append, firstPair_map_offset, firstPair_buildIndex, ih, firstIdx_append, firstIdx_off off f]

/-- `get_flight` on a merged store = dictionary lookup in the concatenation of the inputs -/
theorem mergedGetFlight_find (files : List (List Item)) (id : Int)
    (hall : ∀ it ∈ files.flatten, it.fid.isSome = true) :
    mergedGetFlight files id = files.flatten.find? (fun it => it.fid = some id) := by
  unfold mergedGetFlight mergedIndex
  rw [lookup_sortById, mergedPairs_first]
  have := firstIdx_find 0 files.flatten id hall
  cases hf : firstIdx 0 files.flatten id with
  | none => rw [hf] at this; simp only at this ⊢; exact this.symm
  | some k =>
    rw [hf] at this
    obtain ⟨_, it, h1, h2⟩ := this
    simp only [locate_flatten] at *
    simp only [Nat.sub_zero] at h1
    rw [h1, h2]

end Aeic.Merge
