/-
  Kernel bridge, part 7: volatile PM (`emissions/ei/pmvol.py`: the fuel-flow method and FOA3 with `np.interp` over the literal
  ICAO thrust table), the cruise thrust category (`emissions/utils.py:get_thrust_cat_cruise`, `np.select` over the midpoint
  thresholds) and SCOPE11 (`emissions/ei/pmnvol.py:calculate_PMnvolEI_scope11`, the loop over the thrust modes unrolled, the
  `continue` on invalid smoke numbers read as a conditional, per engine type), regenerated from the source, equal the hand-written
  models of `AeicModel/EI.lean` over ℝ.  Helper lemmas only.
-/
import AeicProofs.RealInst
import AeicModel.Generated.Kernels
import AeicModel.Vec
import AeicModel.EI
set_option linter.unusedTactic false
set_option linter.unreachableTactic false
set_option linter.unusedSimpArgs false
set_option linter.unusedVariables false
namespace KernelBridge7
open Aeic Aeic.EI

theorem interpGo_eq (x x0 y0 : ℝ) (xs ys : List ℝ) : Vec.interpGo x x0 y0 xs ys = EI.interpGo x x0 y0 xs ys := by
  induction xs generalizing x0 y0 ys with
  | nil => cases ys <;> simp [Vec.interpGo, EI.interpGo]
  | cons x1 xs ih =>
    cases ys with
    | nil => simp [Vec.interpGo, EI.interpGo]
    | cons y1 ys => simp only [Vec.interpGo, EI.interpGo, ih]

theorem interp_eq (x : ℝ) (xs ys : List ℝ) : Vec.interp x xs ys = EI.interp x xs ys := by
  cases xs with
  | nil => simp [Vec.interp, EI.interp, zero_real, lit_real]
  | cons x0 xs =>
    cases ys with
    | nil => simp [Vec.interp, EI.interp, zero_real, lit_real]
    | cons y0 ys => simp only [Vec.interp, EI.interp, interpGo_eq]

/-- FOA3 and the fuel-flow method of the source are the model's -/
theorem pmvol (A : String → ℝ) (thrust hc : ℝ) (idle : Bool) :
    Kern.pmvol_foa3 A thrust hc = foa3 thrust hc ∧ Kern.pmvol_foa3_ocic A thrust hc = foa3 thrust hc ∧
    Kern.pmvol_ff_pmvol A idle = pmvolFuelFlow (if idle then 0 else 1) ∧ Kern.pmvol_ff_ocic A idle = ocicFuelFlow := by
  refine ⟨?_, ?_, ?_, ?_⟩
  · simp only [Kern.pmvol_foa3, foa3, foa3Delta, foa3Thrust, foa3Deltas, interp_eq, lit_real]; norm_num
  · simp only [Kern.pmvol_foa3_ocic, foa3, foa3Delta, foa3Thrust, foa3Deltas, interp_eq, lit_real]; norm_num
  · cases idle <;> simp [Kern.pmvol_ff_pmvol, pmvolFuelFlow, lit_real, one_real] <;> norm_num
  · simp [Kern.pmvol_ff_ocic, ocicFuelFlow, lit_real]

/-- attribute environment of a calibration-flow `ThrustModeValues` argument named `ff_cal` -/
def calEnv (cal : Q4 ℝ) : String → ℝ := fun k =>
  if k = "ff_cal[ThrustMode.IDLE]" then cal.i else if k = "ff_cal[ThrustMode.APPROACH]" then cal.a
  else if k = "ff_cal[ThrustMode.CLIMB]" then cal.c else if k = "ff_cal[ThrustMode.TAKEOFF]" then cal.t else 0

/-- the thrust category of the source (index of the ThrustMode member) is the model's `thrustCat` -/
theorem thrust_cat (cal : Q4 ℝ) (ff : ℝ) : Kern.thrust_cat (calEnv cal) ff = thrustCat ff cal := by
  simp only [Kern.thrust_cat, thrustCat, calEnv, String.reduceEq, if_true, if_false, lit_real]
  norm_num

/-- attribute environment of the smoke-number argument of `calculate_PMnvolEI_scope11` -/
def snEnv (sn : Q4 ℝ) : String → ℝ := fun k =>
  if k = "SN_matrix[ThrustMode.IDLE]" then sn.i else if k = "SN_matrix[ThrustMode.APPROACH]" then sn.a
  else if k = "SN_matrix[ThrustMode.CLIMB]" then sn.c else if k = "SN_matrix[ThrustMode.TAKEOFF]" then sn.t else 0

macro "scope_close" : tactic =>
  `(tactic| (simp only [scope11Mode, cbc, afr, snEnv, String.reduceEq, if_true, if_false, lit_real, zero_real, one_real,
      Nat.reduceEqDiff, OfNat.ofNat_ne_zero, OfNat.zero_ne_ofNat, Nat.succ_ne_zero, reduceCtorEq] <;>
    (split_ifs <;> (first
      | rfl
      | (norm_num; done)
      | (norm_num; ring_nf; done)
      | (simp_all; done)
      | (exfalso; simp_all; done)
      | (exfalso; rename_i h1 h2; norm_num at h1 h2;
         rcases h2 with ⟨a, b⟩ | ⟨a, b⟩ <;> (first | linarith [h1.1 a] | linarith [h1.2 a]))
      | (exfalso; rename_i h1 h2; norm_num at h1 h2;
         rcases h1 with ⟨a, b⟩ | ⟨a, b⟩ <;> (first | linarith [h2.1 a] | linarith [h2.2 a]))))))

/-- SCOPE11 of the source for engine type 'MTF', per mode, is the model's `scope11Mode` -/
theorem scope11_mtf (sn : Q4 ℝ) (bpr : ℝ) :
    Kern.scope11_mtf_IDLE (snEnv sn) bpr = scope11Mode 0 0 sn.i bpr ∧ Kern.scope11_mtf_APPROACH (snEnv sn) bpr = scope11Mode 1 0 sn.a bpr ∧
    Kern.scope11_mtf_CLIMB (snEnv sn) bpr = scope11Mode 2 0 sn.c bpr ∧ Kern.scope11_mtf_TAKEOFF (snEnv sn) bpr = scope11Mode 3 0 sn.t bpr := by
  refine ⟨?_, ?_, ?_, ?_⟩
  · simp only [Kern.scope11_mtf_IDLE]; scope_close
  · simp only [Kern.scope11_mtf_APPROACH]; scope_close
  · simp only [Kern.scope11_mtf_CLIMB]; scope_close
  · simp only [Kern.scope11_mtf_TAKEOFF]; scope_close

/-- SCOPE11 of the source for engine type 'TF', per mode, is the model's `scope11Mode` -/
theorem scope11_tf (sn : Q4 ℝ) (bpr : ℝ) :
    Kern.scope11_tf_IDLE (snEnv sn) bpr = scope11Mode 0 1 sn.i bpr ∧ Kern.scope11_tf_APPROACH (snEnv sn) bpr = scope11Mode 1 1 sn.a bpr ∧
    Kern.scope11_tf_CLIMB (snEnv sn) bpr = scope11Mode 2 1 sn.c bpr ∧ Kern.scope11_tf_TAKEOFF (snEnv sn) bpr = scope11Mode 3 1 sn.t bpr := by
  refine ⟨?_, ?_, ?_, ?_⟩
  · simp only [Kern.scope11_tf_IDLE]; scope_close
  · simp only [Kern.scope11_tf_APPROACH]; scope_close
  · simp only [Kern.scope11_tf_CLIMB]; scope_close
  · simp only [Kern.scope11_tf_TAKEOFF]; scope_close

/-- SCOPE11 of the source for engine type other than 'MTF' / 'TF', per mode, is the model's `scope11Mode` -/
theorem scope11_other (sn : Q4 ℝ) (bpr : ℝ) :
    Kern.scope11_other_IDLE (snEnv sn) bpr = scope11Mode 0 2 sn.i bpr ∧ Kern.scope11_other_APPROACH (snEnv sn) bpr = scope11Mode 1 2 sn.a bpr ∧
    Kern.scope11_other_CLIMB (snEnv sn) bpr = scope11Mode 2 2 sn.c bpr ∧ Kern.scope11_other_TAKEOFF (snEnv sn) bpr = scope11Mode 3 2 sn.t bpr := by
  refine ⟨?_, ?_, ?_, ?_⟩
  · simp only [Kern.scope11_other_IDLE]; scope_close
  · simp only [Kern.scope11_other_APPROACH]; scope_close
  · simp only [Kern.scope11_other_CLIMB]; scope_close
  · simp only [Kern.scope11_other_TAKEOFF]; scope_close

end KernelBridge7
