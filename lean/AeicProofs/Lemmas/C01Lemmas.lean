/-
  Helper lemmas for property C01 (real-number reading of AeicModel/Emissions.lean).
-/
import AeicProofs.RealInst
import AeicModel.Emissions
import Mathlib.Algebra.BigOperators.Group.List.Basic
import Mathlib.Algebra.Order.BigOperators.Group.List

namespace Aeic.Emissions

noncomputable instance : ZeroTest ℝ := ⟨fun x => decide (x = 0)⟩

@[simp] theorem isZero_real (x : ℝ) : ZeroTest.isZero x = decide (x = 0) := rfl

/-! ### sums -/

theorem suml_eq_sum (xs : List ℝ) : suml xs = xs.sum := by
  unfold suml
  rw [zero_real, List.sum_eq_foldl]

/-- ideal-arithmetic sum of a `ThrustModeValues` -/
def tmSum (t : TM ℝ) : ℝ := t.idle + t.approach + t.climb + t.takeoff

theorem TM_sum_real (t : TM ℝ) : t.sum = tmSum t := by
  simp [TM.sum, tmSum]

/-! ### zeroBefore / zeroFrom / window -/

theorem zeroBefore_length (k : Nat) (xs : List ℝ) : (zeroBefore k xs).length = xs.length := by
  induction k generalizing xs with
  | zero => simp [zeroBefore]
  | succ k ih => cases xs <;> simp [zeroBefore, ih]

theorem zeroFrom_length (k : Nat) (xs : List ℝ) : (zeroFrom k xs).length = xs.length := by
  induction xs generalizing k with
  | nil => simp [zeroFrom]
  | cons x xs ih => cases k <;> simp [zeroFrom, ih]

theorem window_length (lo hi : Nat) (xs : List ℝ) : (window lo hi xs).length = xs.length := by
  simp [window, zeroFrom_length, zeroBefore_length]

theorem zeroBefore_getElem? (k : Nat) (xs : List ℝ) (i : Nat) :
    (zeroBefore k xs)[i]? = xs[i]?.map (fun x => if k ≤ i then x else 0) := by
  induction k generalizing xs i with
  | zero => simp [zeroBefore]
  | succ k ih =>
    cases xs with
    | nil => simp [zeroBefore]
    | cons x xs =>
      cases i with
      | zero => simp [zeroBefore]
      | succ i => simp [zeroBefore, ih]

theorem zeroFrom_getElem? (k : Nat) (xs : List ℝ) (i : Nat) :
    (zeroFrom k xs)[i]? = xs[i]?.map (fun x => if i < k then x else 0) := by
  induction xs generalizing k i with
  | nil => simp [zeroFrom]
  | cons x xs ih =>
    cases k with
    | zero =>
      cases i with
      | zero => simp [zeroFrom]
      | succ i => simp [zeroFrom, ih]
    | succ k =>
      cases i with
      | zero => simp [zeroFrom]
      | succ i => simp [zeroFrom, ih]

/-- pointwise meaning of the two slice assignments: kept inside `[lo, hi)`, zero outside -/
theorem window_getElem? (lo hi : Nat) (xs : List ℝ) (i : Nat) :
    (window lo hi xs)[i]? = xs[i]?.map (fun x => if lo ≤ i ∧ i < hi then x else 0) := by
  unfold window
  rw [zeroFrom_getElem?, zeroBefore_getElem?]
  cases xs[i]? with
  | none => rfl
  | some x =>
    simp only [Option.map_some]
    by_cases h1 : lo ≤ i <;> by_cases h2 : i < hi <;> simp [h1, h2]

theorem sum_zeroBefore (k : Nat) (xs : List ℝ) : (zeroBefore k xs).sum = (xs.drop k).sum := by
  induction k generalizing xs with
  | zero => simp [zeroBefore]
  | succ k ih => cases xs <;> simp [zeroBefore, ih]

theorem sum_zeroFrom (k : Nat) (xs : List ℝ) : (zeroFrom k xs).sum = (xs.take k).sum := by
  induction xs generalizing k with
  | nil => simp [zeroFrom]
  | cons x xs ih => cases k <;> simp [zeroFrom, ih]

theorem take_zeroBefore (lo hi : Nat) (xs : List ℝ) :
    (zeroBefore lo xs).take hi = zeroBefore lo (xs.take hi) := by
  induction lo generalizing xs hi with
  | zero => simp [zeroBefore]
  | succ lo ih =>
    cases xs with
    | nil => simp [zeroBefore]
    | cons x xs =>
      cases hi with
      | zero => cases lo <;> simp [zeroBefore]
      | succ hi => simp [zeroBefore, ih]

/-- zeroing outside the window and slicing the window out account for the same fuel -/
theorem sum_window (lo hi : Nat) (xs : List ℝ) : (window lo hi xs).sum = (pySlice lo hi xs).sum := by
  unfold window pySlice
  rw [sum_zeroFrom, take_zeroBefore, sum_zeroBefore]

theorem window_all (xs : List ℝ) : window 0 xs.length xs = xs := by
  unfold window
  simp only [zeroBefore]
  induction xs with
  | nil => simp [zeroFrom]
  | cons x xs ih => simp [zeroFrom, ih]

theorem pySlice_all {β : Type} (xs : List β) : pySlice 0 xs.length xs = xs := by
  simp [pySlice]

/-! ### list arithmetic -/

def addList (a b : List ℝ) : List ℝ := List.zipWith (· + ·) a b

theorem zeroBefore_mulList (k : Nat) (a b : List ℝ) :
    zeroBefore k (mulList a b) = mulList (zeroBefore k a) b := by
  induction k generalizing a b with
  | zero => simp [zeroBefore]
  | succ k ih =>
    cases a with
    | nil => simp [zeroBefore, mulList]
    | cons x a =>
      cases b with
      | nil => simp [zeroBefore, mulList]
      | cons y b =>
        have := ih a b
        simp only [mulList] at this ⊢
        simp [zeroBefore, this]

theorem zeroFrom_mulList (k : Nat) (a b : List ℝ) :
    zeroFrom k (mulList a b) = mulList (zeroFrom k a) b := by
  induction a generalizing k b with
  | nil => simp [zeroFrom, mulList]
  | cons x a ih =>
    cases b with
    | nil => cases k <;> simp [zeroFrom, mulList]
    | cons y b =>
      cases k with
      | zero =>
        have := ih 0 b
        simp only [mulList] at this ⊢
        simp [zeroFrom, this]
      | succ k =>
        have := ih k b
        simp only [mulList] at this ⊢
        simp [zeroFrom, this]

/-- amount = index × burn survives the zeroing: zeroed amount = zeroed index × burn -/
theorem window_mulList (lo hi : Nat) (a b : List ℝ) :
    window lo hi (mulList a b) = mulList (window lo hi a) b := by
  unfold window
  rw [zeroBefore_mulList, zeroFrom_mulList]

theorem zeroBefore_addList (k : Nat) (a b : List ℝ) :
    addList (zeroBefore k a) (zeroBefore k b) = zeroBefore k (addList a b) := by
  induction k generalizing a b with
  | zero => simp [zeroBefore]
  | succ k ih =>
    cases a with
    | nil => cases b <;> simp [zeroBefore, addList]
    | cons x a =>
      cases b with
      | nil => simp [zeroBefore, addList]
      | cons y b =>
        have := ih a b
        simp only [addList] at this ⊢
        simp [zeroBefore, this]

theorem zeroFrom_addList (k : Nat) (a b : List ℝ) :
    addList (zeroFrom k a) (zeroFrom k b) = zeroFrom k (addList a b) := by
  induction a generalizing k b with
  | nil => cases b <;> cases k <;> simp [zeroFrom, addList]
  | cons x a ih =>
    cases b with
    | nil => cases k <;> simp [zeroFrom, addList]
    | cons y b =>
      cases k with
      | zero =>
        have := ih 0 b
        simp only [addList] at this ⊢
        simp [zeroFrom, this]
      | succ k =>
        have := ih k b
        simp only [addList] at this ⊢
        simp [zeroFrom, this]

theorem window_addList (lo hi : Nat) (a b : List ℝ) :
    addList (window lo hi a) (window lo hi b) = window lo hi (addList a b) := by
  unfold window
  rw [zeroFrom_addList, zeroBefore_addList]

theorem mulList_addList (a b c : List ℝ) :
    addList (mulList a c) (mulList b c) = mulList (addList a b) c := by
  induction a generalizing b c with
  | nil => simp [addList, mulList]
  | cons x a ih =>
    cases b with
    | nil => simp [addList, mulList]
    | cons y b =>
      cases c with
      | nil => simp [addList, mulList]
      | cons z c =>
        have := ih b c
        simp only [addList, mulList] at this ⊢
        simp [this, add_mul]

theorem addList_replicate (n : Nat) (a b : ℝ) :
    addList (List.replicate n a) (List.replicate n b) = List.replicate n (a + b) := by
  simp [addList]

theorem mulList_replicate (c : ℝ) (b : List ℝ) : mulList (List.replicate b.length c) b = b.map (c * ·) := by
  induction b with
  | nil => simp [mulList]
  | cons y b ih =>
    simp only [mulList] at ih ⊢
    simp [List.replicate_succ, ih]

theorem sum_map_mul_left (c : ℝ) (b : List ℝ) : (b.map (c * ·)).sum = c * b.sum := by
  induction b with
  | nil => simp
  | cons y b ih => simp [ih, mul_add]

/-! ### fuel burn -/

theorem diffs_length (fm : List ℝ) : (diffs fm).length = fm.length - 1 := by
  induction fm with
  | nil => simp [diffs]
  | cons a t ih =>
    cases t with
    | nil => simp [diffs]
    | cons b r => simp [diffs, ih]

theorem fuelBurn_length (fm : List ℝ) : (fuelBurn fm).length = fm.length := by
  cases fm with
  | nil => simp [fuelBurn]
  | cons a t => simp [fuelBurn, diffs_length]

theorem lastD_cons_cons (a b : ℝ) (r : List ℝ) (d : ℝ) : lastD (a :: b :: r) d = lastD (b :: r) d := rfl

theorem diffs_sum (a : ℝ) (rest : List ℝ) : (diffs (a :: rest)).sum = a - lastD (a :: rest) 0 := by
  induction rest generalizing a with
  | nil => simp [diffs, lastD]
  | cons b rest ih =>
    simp only [diffs, List.sum_cons, lastD_cons_cons]
    rw [ih b]; ring

/-- telescoping: all segment burns add up to first minus last fuel mass -/
theorem fuelBurn_sum (fm : List ℝ) : (fuelBurn fm).sum = fm.headD 0 - lastD fm 0 := by
  cases fm with
  | nil => simp [fuelBurn, lastD]
  | cons a t => simp [fuelBurn, diffs_sum]

theorem diffs_nonneg (fm : List ℝ) (h : fm.Pairwise (· ≥ ·)) : ∀ x ∈ diffs fm, 0 ≤ x := by
  induction fm with
  | nil => simp [diffs]
  | cons a t ih =>
    cases t with
    | nil => simp [diffs]
    | cons b rest =>
      intro x hx
      simp only [diffs, List.mem_cons] at hx
      rcases hx with rfl | hx
      · have := (List.pairwise_cons.mp h).1 b (by simp); linarith
      · exact ih (List.pairwise_cons.mp h).2 x hx

theorem fuelBurn_nonneg (fm : List ℝ) (h : fm.Pairwise (· ≥ ·)) : ∀ x ∈ fuelBurn fm, 0 ≤ x := by
  cases fm with
  | nil => simp [fuelBurn]
  | cons a t =>
    intro x hx
    simp only [fuelBurn, List.mem_cons] at hx
    rcases hx with rfl | hx
    · simp
    · exact diffs_nonneg _ h x hx

theorem lastD_le_head (fm : List ℝ) (h : fm.Pairwise (· ≥ ·)) : lastD fm 0 ≤ fm.headD 0 := by
  have h1 := fuelBurn_sum fm
  have h2 : 0 ≤ (fuelBurn fm).sum := List.sum_nonneg (fuelBurn_nonneg fm h)
  linarith

/-! ### non-negativity through the list operations -/

theorem zeroBefore_nonneg (k : Nat) (xs : List ℝ) (h : ∀ x ∈ xs, 0 ≤ x) : ∀ x ∈ zeroBefore k xs, 0 ≤ x := by
  induction k generalizing xs with
  | zero => simpa [zeroBefore] using h
  | succ k ih =>
    cases xs with
    | nil => simp [zeroBefore]
    | cons y ys =>
      intro x hx
      simp only [zeroBefore, List.mem_cons] at hx
      rcases hx with rfl | hx
      · simp
      · exact ih ys (fun z hz => h z (by simp [hz])) x hx

theorem zeroFrom_nonneg (k : Nat) (xs : List ℝ) (h : ∀ x ∈ xs, 0 ≤ x) : ∀ x ∈ zeroFrom k xs, 0 ≤ x := by
  induction xs generalizing k with
  | nil => simp [zeroFrom]
  | cons y ys ih =>
    have hy : ∀ z ∈ ys, 0 ≤ z := fun z hz => h z (by simp [hz])
    cases k with
    | zero =>
      intro x hx
      simp only [zeroFrom, List.mem_cons] at hx
      rcases hx with rfl | hx
      · simp
      · exact ih 0 hy x hx
    | succ k =>
      intro x hx
      simp only [zeroFrom, List.mem_cons] at hx
      rcases hx with rfl | hx
      · exact h _ (by simp)
      · exact ih k hy x hx

theorem window_nonneg (lo hi : Nat) (xs : List ℝ) (h : ∀ x ∈ xs, 0 ≤ x) : ∀ x ∈ window lo hi xs, 0 ≤ x :=
  zeroFrom_nonneg hi _ (zeroBefore_nonneg lo xs h)

theorem mulList_nonneg (a b : List ℝ) (ha : ∀ x ∈ a, 0 ≤ x) (hb : ∀ x ∈ b, 0 ≤ x) : ∀ x ∈ mulList a b, 0 ≤ x := by
  intro x hx
  simp only [mulList, List.mem_iff_getElem, List.getElem_zipWith, List.length_zipWith] at hx
  obtain ⟨i, hi, rfl⟩ := hx
  exact mul_nonneg (ha _ (List.getElem_mem _)) (hb _ (List.getElem_mem _))

theorem pySlice_nonneg (lo hi : Nat) (xs : List ℝ) (h : ∀ x ∈ xs, 0 ≤ x) : ∀ x ∈ pySlice lo hi xs, 0 ≤ x := by
  intro x hx
  exact h x (List.mem_of_mem_take (List.mem_of_mem_drop hx))

/-! ### speciation -/

theorem spec_sum_one (m : Mode) :
    (specNO (α := ℝ)).get m + (specNO2 (α := ℝ)).get m + (specHONO (α := ℝ)).get m = 1 := by
  cases m <;>
    simp only [specNO, specNO2, specHONO, TM.get, noL, noA, noH, no2L, no2A, no2H, honoL, honoA, honoH, lit_real] <;>
    norm_num

theorem spec_nonneg (m : Mode) :
    0 ≤ (specNO (α := ℝ)).get m ∧ 0 ≤ (specNO2 (α := ℝ)).get m ∧ 0 ≤ (specHONO (α := ℝ)).get m := by
  cases m <;>
    simp only [specNO, specNO2, specHONO, TM.get, noL, noA, noH, no2L, no2A, no2H, honoL, honoA, honoH, lit_real] <;>
    norm_num

/-- the three speciated arrays add up to the NOx array, whatever the thrust categories are -/
theorem speciate_sum (nox : List ℝ) (cats : List Mode) (h : cats.length = nox.length) :
    addList (addList (speciate specNO nox cats) (speciate specNO2 nox cats)) (speciate specHONO nox cats) = nox := by
  induction nox generalizing cats with
  | nil => simp [speciate, addList]
  | cons x nox ih =>
    cases cats with
    | nil => simp at h
    | cons c cats =>
      have h' : cats.length = nox.length := by simpa using h
      have := ih cats h'
      simp only [speciate, addList] at this ⊢
      simp only [List.zipWith_cons_cons, this, List.cons.injEq, and_true]
      have := spec_sum_one c
      calc x * (specNO (α := ℝ)).get c + x * (specNO2 (α := ℝ)).get c + x * (specHONO (α := ℝ)).get c
          = x * ((specNO (α := ℝ)).get c + (specNO2 (α := ℝ)).get c + (specHONO (α := ℝ)).get c) := by ring
        _ = x := by rw [this]; ring

theorem speciate_nonneg (frac : TM ℝ) (hf : ∀ m, 0 ≤ frac.get m) (nox : List ℝ) (cats : List Mode)
    (h : ∀ x ∈ nox, 0 ≤ x) : ∀ x ∈ speciate frac nox cats, 0 ≤ x := by
  intro x hx
  simp only [speciate, List.mem_iff_getElem, List.getElem_zipWith, List.length_zipWith] at hx
  obtain ⟨i, hi, rfl⟩ := hx
  exact mul_nonneg (h _ (List.getElem_mem _)) (hf _)

/-! ### SOx -/

theorem eiSOx_split (f : Fuel ℝ) : eiSO2 f + eiSO4 f = eiSOx f := rfl

theorem eiSO_nonneg (f : Fuel ℝ) (hs : 0 ≤ f.sulfur) (hy0 : 0 ≤ f.sulfateYield) (hy1 : f.sulfateYield ≤ 1) :
    0 ≤ eiSO2 f ∧ 0 ≤ eiSO4 f := by
  constructor
  · simp only [eiSO2, lit_real]; norm_num
    have : 0 ≤ 1 - f.sulfateYield := by linarith
    positivity
  · simp only [eiSO4, lit_real]; norm_num
    positivity

/-! ### GSE constants -/

theorem gseSO4_val : (gseSO4 : ℝ) = 3 / 10000 := by
  simp only [gseSO4, gseFSC, Gen.PPM, Gen.KG_TO_GRAMS, lit_real]; norm_num

theorem gseSO2_val : (gseSO2 : ℝ) = 98 / 10000 := by
  simp only [gseSO2, gseFSC, Gen.PPM, Gen.KG_TO_GRAMS, lit_real]; norm_num

theorem ltoTIM_val : (ltoTIM : TM ℝ) = ⟨1560, 240, 132, 42⟩ := by
  simp only [ltoTIM, Gen.MINUTES_TO_SECONDS, lit_real]; norm_num

end Aeic.Emissions
