/-
  Kernel bridge, part 6: the whole BFFM2 HC / CO fit (`emissions/ei/hcco.py`, `EI_HCCO`) for one evaluation point, regenerated
  by the symbolic translator in pointwise mode, equals the hand-written model `EI.hccoEI` over ℝ.  The proof is staged like the
  source: the kernel is (definitionally) the evaluation kernel `hcco_point` applied to the five parameter kernels
  `hcco_param_*` (steps 1–4: slanted / horizontal segments in log space and the SAGE clamping rules); the parameters are the
  model's `hccoParams` (case analysis over the `np.isclose` tests and the `if / elif / elif` chain); one point is the model's
  `hccoSL · hccoAmbient` for ANY parameters (masked evaluation, ACRP low-thrust factor, ambient factor).  Helper lemmas only.
-/
import AeicProofs.RealInst
import AeicModel.Generated.Kernels
import AeicModel.EI
set_option linter.unusedTactic false
set_option linter.unreachableTactic false
set_option linter.unusedSimpArgs false
set_option linter.unusedVariables false
namespace KernelBridge6
open Aeic Aeic.EI

def hcEnv (ei cal : Q4 ℝ) : String → ℝ := fun k =>
  if k = "x_EI[ThrustMode.IDLE]" then ei.i else if k = "x_EI[ThrustMode.APPROACH]" then ei.a
  else if k = "x_EI[ThrustMode.CLIMB]" then ei.c else if k = "x_EI[ThrustMode.TAKEOFF]" then ei.t
  else if k = "ff_cal[ThrustMode.IDLE]" then cal.i else if k = "ff_cal[ThrustMode.APPROACH]" then cal.a
  else if k = "ff_cal[ThrustMode.CLIMB]" then cal.c else if k = "ff_cal[ThrustMode.TAKEOFF]" then cal.t else 0

/-- the staged kernels compose to the whole function (both are the same source text) -/
theorem hcco_staged (A : String → ℝ) (ff T P : ℝ) :
    Kern.hcco_ei A ff T P = Kern.hcco_point A ff T P (Kern.hcco_param_slope A) (Kern.hcco_param_base_log_fuel A)
      (Kern.hcco_param_base_log_EI A) (Kern.hcco_param_x_horzline A) (Kern.hcco_param_x_intercept A) := by
  rfl

/-- steps 1–4: the five parameters of the source are the model's `hccoParams` -/
theorem hcco_params (ei cal : Q4 ℝ) :
    Kern.hcco_param_slope (hcEnv ei cal) = (hccoParams ei cal).slope ∧
    Kern.hcco_param_base_log_fuel (hcEnv ei cal) = (hccoParams ei cal).baseLogFuel ∧
    Kern.hcco_param_base_log_EI (hcEnv ei cal) = (hccoParams ei cal).baseLogEI ∧
    Kern.hcco_param_x_horzline (hcEnv ei cal) = (hccoParams ei cal).horz ∧
    Kern.hcco_param_x_intercept (hcEnv ei cal) = (hccoParams ei cal).xInt := by
  simp only [Kern.hcco_param_slope, Kern.hcco_param_base_log_fuel, Kern.hcco_param_base_log_EI, Kern.hcco_param_x_horzline,
    Kern.hcco_param_x_intercept, hcEnv, String.reduceEq, if_true, if_false, hccoParams, hccoParamsLog, hccoSlope, hccoXInt,
    isClose0, decide_eq_true_eq, lit_real, zero_real]
  generalize Transc.log10 cal.i = lf0
  generalize Transc.log10 cal.a = lf1
  generalize Transc.log10 cal.c = lf2
  generalize Transc.log10 ei.i = le0
  generalize Transc.log10 ei.a = le1
  generalize Transc.log10 ei.c = le2
  generalize Transc.log10 ei.t = le3
  norm_num
  refine ⟨?_, ?_, ?_, ?_, ?_⟩ <;>
    (simp only [hccoBranch, zero_real]; split_ifs <;> first | rfl | (simp_all; done) | (exfalso; simp_all; done) | (norm_num at *; done) | (exfalso; linarith))

/-- steps 5–7: one evaluation point, for ANY fit parameters -/
theorem hcco_point (ei cal : Q4 ℝ) (p : HCParams ℝ) (ff T P : ℝ) :
    Kern.hcco_point (hcEnv ei cal) ff T P p.slope p.baseLogFuel p.baseLogEI p.horz p.xInt
      = hccoSL p cal.i ff * hccoAmbient T P := by
  simp only [Kern.hcco_point, hcEnv, String.reduceEq, if_true, if_false, hccoSL, hccoLogSL, pow10Opt, acrp, hccoLogFlow,
    hccoAmbient, lit_real, zero_real, one_real, decide_eq_true_eq, Bool.decide_and, Bool.and_eq_true]
  split_ifs <;>
    (first
      | rfl
      | (exfalso; linarith)
      | (exfalso; rename_i h; obtain ⟨_, _⟩ := h; linarith)
      | (exfalso; simp_all; done)
      | (norm_num [pow10Opt]; done)
      | (norm_num [pow10Opt]; ring)
      | (simp_all [pow10Opt]; done))

/-- **`EI_HCCO` of the source, for one evaluation point, is the model's `hccoEI`** -/
theorem hcco_ei (ff T P : ℝ) (ei cal : Q4 ℝ) : Kern.hcco_ei (hcEnv ei cal) ff T P = hccoEI ff ei cal T P := by
  obtain ⟨h1, h2, h3, h4, h5⟩ := hcco_params ei cal
  rw [hcco_staged, h1, h2, h3, h4, h5, hcco_point]
  rfl
end KernelBridge6
