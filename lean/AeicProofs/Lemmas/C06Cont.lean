/-
  C06 helper lemmas, part 5: on every CLOSED grid cell the interpolant equals that cell's (bi)linear polynomial,
  whichever neighbouring cell the interval search picks on a shared face (over ℝ).
-/
import AeicProofs.Lemmas.C06Load

namespace Aeic.PerfTable
open List

/-- `a < b` are neighbouring points of the grid `g` -/
def Adjacent (g : List ℝ) (a b : ℝ) : Prop := a ∈ g ∧ b ∈ g ∧ a < b ∧ ∀ c ∈ g, c ≤ a ∨ b ≤ c

theorem IsBracket.adjacent {g : List ℝ} {x : ℝ} {b : ℝ × ℝ} (h : IsBracket g x b) : Adjacent g b.1 b.2 :=
  ⟨h.mem1, h.mem2, h.lt, h.adj⟩

/-- two neighbouring pairs that both contain `x`: the same pair, or `x` is the grid point they share -/
theorem adjacent_cases {g : List ℝ} {x a b a' b' : ℝ} (h : Adjacent g a b) (h' : Adjacent g a' b')
    (hx : a ≤ x ∧ x ≤ b) (hx' : a' ≤ x ∧ x ≤ b') :
    (a' = a ∧ b' = b) ∨ (x = a ∧ x = b') ∨ (x = b ∧ x = a') := by
  obtain ⟨ha, hb, hab, hadj⟩ := h
  obtain ⟨ha', hb', hab', hadj'⟩ := h'
  rcases hadj a' ha' with h1 | h1
  · rcases lt_or_eq_of_le h1 with h2 | h2
    · -- a' < a : then b' ≤ a
      rcases hadj' a ha with h3 | h3
      · exact absurd h3 (not_le.mpr h2)
      · right; left
        exact ⟨le_antisymm (by linarith [hx'.2]) hx.1, le_antisymm hx'.2 (by linarith [hx.1])⟩
    · -- a' = a
      left
      refine ⟨h2, ?_⟩
      rcases hadj b' hb' with h3 | h3
      · exact absurd h3 (not_le.mpr (by rw [← h2]; exact hab'))
      · rcases hadj' b hb with h4 | h4
        · exact absurd h4 (not_le.mpr (by rw [h2]; exact hab))
        · exact le_antisymm h4 h3
  · -- b ≤ a'
    right; right
    exact ⟨le_antisymm hx.2 (by linarith [hx'.1]), le_antisymm (by linarith [hx.2]) hx'.1⟩

theorem lin_piece_eq {g : List ℝ} {x a b a' b' : ℝ} (v : ℝ → ℝ) (h : Adjacent g a b) (h' : Adjacent g a' b')
    (hx : a ≤ x ∧ x ≤ b) (hx' : a' ≤ x ∧ x ≤ b') :
    v a' * (1 - ndist (a', b') x) + v b' * ndist (a', b') x = v a * (1 - ndist (a, b) x) + v b * ndist (a, b) x := by
  rcases adjacent_cases h h' hx hx' with ⟨e1, e2⟩ | ⟨e1, e2⟩ | ⟨e1, e2⟩
  · rw [e1, e2]
  · have l : ndist ((a, b) : ℝ × ℝ) x = 0 := ndist_of_eq_left (a, b) x e1
    have r : ndist ((a', b') : ℝ × ℝ) x = 1 := ndist_of_eq_right (a', b') x h'.2.2.1 e2
    rw [l, r, ← e1, ← e2]; ring
  · have l : ndist ((a', b') : ℝ × ℝ) x = 0 := ndist_of_eq_left (a', b') x e2
    have r : ndist ((a, b) : ℝ × ℝ) x = 1 := ndist_of_eq_right (a, b) x h.2.2.1 e1
    rw [l, r, ← e1, ← e2]; ring

/-- 1-D: on the closed interval between two neighbouring levels the interpolant is that interval's linear polynomial -/
theorem interp1_on_closed_cell (g : List ℝ) (v : ℝ → ℝ) (x a b : ℝ) (hs : g.Pairwise (· < ·))
    (h : Adjacent g a b) (hx : a ≤ x ∧ x ≤ b) :
    interp1 g v x = .ok (v a * (1 - ndist (a, b) x) + v b * ndist (a, b) x) := by
  have hb : inBounds g x = true := by
    rw [inBounds_real]
    cases hh : g.head? with
    | none => simp at hh; subst hh; exact absurd h.1 (by simp)
    | some a0 =>
      cases hl : g.getLast? with
      | none => simp at hl; subst hl; exact absurd h.1 (by simp)
      | some b0 =>
        exact ⟨a0, b0, rfl, rfl, le_trans (sorted_head_le g hs a0 hh a h.1) hx.1,
          le_trans hx.2 (sorted_le_last g hs b0 hl b h.2.1)⟩
  have hlen : 2 ≤ g.length := by
    match g, h with
    | [], h => exact absurd h.1 (by simp)
    | [c], h =>
      have h1 := h.1; have h2 := h.2.1; have h3 := h.2.2.1
      simp at h1 h2; subst h1 h2; exact absurd h3 (lt_irrefl _)
    | _ :: _ :: _, _ => simp
  have br := bracket_of_inBounds g x hs hlen hb
  unfold interp1
  simp only [hb, Bool.not_true, Bool.false_eq_true, ↓reduceIte, beq_iff_eq]
  have h1 : ¬ g.length = 1 := by omega
  simp only [h1, ↓reduceIte, one_real]
  congr 1
  exact lin_piece_eq v h br.adjacent hx ⟨br.le1, br.le2⟩

theorem bilin_piece_eq_x {g : List ℝ} {x a b a' b' : ℝ} (v : ℝ → ℝ → ℝ) (bm : ℝ × ℝ) (m : ℝ)
    (h : Adjacent g a b) (h' : Adjacent g a' b') (hx : a ≤ x ∧ x ≤ b) (hx' : a' ≤ x ∧ x ≤ b') :
    bilin v (a', b') bm x m = bilin v (a, b) bm x m := by
  rw [bilin_real, bilin_real]
  rcases adjacent_cases h h' hx hx' with ⟨e1, e2⟩ | ⟨e1, e2⟩ | ⟨e1, e2⟩
  · rw [e1, e2]
  · have l : ndist ((a, b) : ℝ × ℝ) x = 0 := ndist_of_eq_left (a, b) x e1
    have r : ndist ((a', b') : ℝ × ℝ) x = 1 := ndist_of_eq_right (a', b') x h'.2.2.1 e2
    rw [l, r]; simp only; rw [← e1, ← e2]; ring
  · have l : ndist ((a', b') : ℝ × ℝ) x = 0 := ndist_of_eq_left (a', b') x e2
    have r : ndist ((a, b) : ℝ × ℝ) x = 1 := ndist_of_eq_right (a, b) x h.2.2.1 e1
    rw [l, r]; simp only; rw [← e1, ← e2]; ring

theorem bilin_piece_eq_m {g : List ℝ} {m a b a' b' : ℝ} (v : ℝ → ℝ → ℝ) (bx : ℝ × ℝ) (x : ℝ)
    (h : Adjacent g a b) (h' : Adjacent g a' b') (hm : a ≤ m ∧ m ≤ b) (hm' : a' ≤ m ∧ m ≤ b') :
    bilin v bx (a', b') x m = bilin v bx (a, b) x m := by
  rw [bilin_real, bilin_real]
  rcases adjacent_cases h h' hm hm' with ⟨e1, e2⟩ | ⟨e1, e2⟩ | ⟨e1, e2⟩
  · rw [e1, e2]
  · have l : ndist ((a, b) : ℝ × ℝ) m = 0 := ndist_of_eq_left (a, b) m e1
    have r : ndist ((a', b') : ℝ × ℝ) m = 1 := ndist_of_eq_right (a', b') m h'.2.2.1 e2
    rw [l, r]; simp only; rw [← e1, ← e2]; ring
  · have l : ndist ((a', b') : ℝ × ℝ) m = 0 := ndist_of_eq_left (a', b') m e2
    have r : ndist ((a, b) : ℝ × ℝ) m = 1 := ndist_of_eq_right (a, b) m h.2.2.1 e1
    rw [l, r]; simp only; rw [← e1, ← e2]; ring

theorem adjacent_inBounds (g : List ℝ) (x a b : ℝ) (hs : g.Pairwise (· < ·)) (h : Adjacent g a b)
    (hx : a ≤ x ∧ x ≤ b) : inBounds g x = true ∧ 2 ≤ g.length := by
  constructor
  · rw [inBounds_real]
    cases hh : g.head? with
    | none => simp at hh; subst hh; exact absurd h.1 (by simp)
    | some a0 =>
      cases hl : g.getLast? with
      | none => simp at hl; subst hl; exact absurd h.1 (by simp)
      | some b0 =>
        exact ⟨a0, b0, rfl, rfl, le_trans (sorted_head_le g hs a0 hh a h.1) hx.1,
          le_trans hx.2 (sorted_le_last g hs b0 hl b h.2.1)⟩
  · match g, h with
    | [], h => exact absurd h.1 (by simp)
    | [c], h =>
      have h1 := h.1; have h2 := h.2.1; have h3 := h.2.2.1
      simp at h1 h2; subst h1 h2; exact absurd h3 (lt_irrefl _)
    | _ :: _ :: _, _ => simp

/-- 2-D: on the closed cell spanned by two neighbouring levels and two neighbouring masses the interpolant is
    that cell's bilinear polynomial -/
theorem interp2_on_closed_cell (gx gm : List ℝ) (v : ℝ → ℝ → ℝ) (x m f0 f1 m0 m1 : ℝ)
    (hsx : gx.Pairwise (· < ·)) (hsm : gm.Pairwise (· < ·))
    (hf : Adjacent gx f0 f1) (hm : Adjacent gm m0 m1) (hx : f0 ≤ x ∧ x ≤ f1) (hmm : m0 ≤ m ∧ m ≤ m1) :
    interp2 gx gm v x m = .ok (bilin v (f0, f1) (m0, m1) x m) := by
  obtain ⟨hbx, hlx⟩ := adjacent_inBounds gx x f0 f1 hsx hf hx
  obtain ⟨hbm, hlm⟩ := adjacent_inBounds gm m m0 m1 hsm hm hmm
  have bx := bracket_of_inBounds gx x hsx hlx hbx
  have bm := bracket_of_inBounds gm m hsm hlm hbm
  unfold interp2
  simp only [hbx, hbm, Bool.not_true, Bool.false_eq_true, ↓reduceIte, beq_iff_eq]
  have h1 : ¬ gx.length = 1 := by omega
  simp only [h1, ↓reduceIte]
  congr 1
  have e1 : bilin v (bracket gx x) (bracket gm m) x m = bilin v (f0, f1) (bracket gm m) x m :=
    bilin_piece_eq_x v (bracket gm m) m hf bx.adjacent hx ⟨bx.le1, bx.le2⟩
  have e2 : bilin v (f0, f1) (bracket gm m) x m = bilin v (f0, f1) (m0, m1) x m :=
    bilin_piece_eq_m v (f0, f1) x hm bm.adjacent hmm ⟨bm.le1, bm.le2⟩
  rw [e1, e2]

end Aeic.PerfTable
