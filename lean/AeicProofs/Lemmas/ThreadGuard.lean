/- Inductive invariant of the locked thread guard (helper lemmas). -/
import Mathlib.Tactic.SplitIfs
import AeicModel.ThreadGuard

namespace Aeic.ThreadGuard

/-- program counters inside the critical section -/
def inCrit : PC → Bool
  | .read | .write | .compare | .raise _ | .release _ => true
  | _ => false

structure Safe (g : G) : Prop where
  locked : g.locked = true
  crit : ∀ t, inCrit (g.pc t) = true → g.lock = some t
  own : ∀ t, (g.pc t = .done true ∨ g.pc t = .release true) → g.owner = some t
  fresh : ∀ t, g.pc t = .write → g.owner = none

theorem init_safe : Safe (G.init true) := by
  refine ⟨rfl, ?_, ?_, ?_⟩ <;> intro t h <;> simp [G.init, entry, inCrit] at h

@[simp] theorem setPc_pc_self (g : G) (t : Nat) (p : PC) : (setPc g t p).pc t = p := by simp [setPc]
theorem setPc_pc_other (g : G) (t u : Nat) (p : PC) (h : u ≠ t) : (setPc g t p).pc u = g.pc u := by simp [setPc, h]
@[simp] theorem setPc_owner (g : G) (t : Nat) (p : PC) : (setPc g t p).owner = g.owner := rfl
@[simp] theorem setPc_lock (g : G) (t : Nat) (p : PC) : (setPc g t p).lock = g.lock := rfl
@[simp] theorem setPc_locked (g : G) (t : Nat) (p : PC) : (setPc g t p).locked = g.locked := rfl

/-- moving the only thread inside the critical section to another critical pc keeps everything else -/
theorem Safe.move {g : G} (h : Safe g) (t : Nat) (p : PC) (hin : inCrit (g.pc t) = true)
    (hp : inCrit p = true) (hown : p = .release true → g.owner = some t) (hfresh : p = .write → g.owner = none) :
    Safe (setPc g t p) := by
  refine ⟨h.locked, ?_, ?_, ?_⟩
  · intro u hu
    by_cases hut : u = t
    · subst hut; exact h.crit u hin
    · rw [setPc_pc_other _ _ _ _ hut] at hu; exact h.crit u hu
  · intro u hu
    by_cases hut : u = t
    · subst hut
      simp only [setPc_pc_self] at hu
      rcases hu with hu | hu
      · rw [hu] at hp; simp [inCrit] at hp
      · exact hown hu
    · rw [setPc_pc_other _ _ _ _ hut] at hu; exact h.own u hu
  · intro u hu
    by_cases hut : u = t
    · subst hut; simp only [setPc_pc_self] at hu; exact hfresh hu
    · rw [setPc_pc_other _ _ _ _ hut] at hu; exact h.fresh u hu

theorem step_safe (g : G) (t : Nat) (h : Safe g) : Safe (step g t) := by
  unfold step
  have hl := h.locked
  cases hpc : g.pc t with
  | acquire =>
    simp only
    split_ifs with hfree
    · -- nobody is inside: take the lock
      refine ⟨hl, ?_, ?_, ?_⟩
      · intro u hu
        by_cases hut : u = t
        · subst hut; rfl
        · rw [setPc_pc_other _ _ _ _ hut] at hu
          have := h.crit u hu; rw [hfree] at this; cases this
      · intro u hu
        by_cases hut : u = t
        · subst hut; simp at hu
        · rw [setPc_pc_other _ _ _ _ hut] at hu; exact h.own u hu
      · intro u hu
        by_cases hut : u = t
        · subst hut; simp at hu
        · rw [setPc_pc_other _ _ _ _ hut] at hu; exact h.fresh u hu
    · exact h
  | read =>
    simp only
    have hin : inCrit (g.pc t) = true := by rw [hpc]; rfl
    cases ho : g.owner with
    | none => exact h.move t .write hin rfl (by intro hc; cases hc) (fun _ => ho)
    | some o => exact h.move t .compare hin rfl (by intro hc; cases hc) (by intro hc; cases hc)
  | write =>
    simp only [hl, if_true]
    have hin : inCrit (g.pc t) = true := by rw [hpc]; rfl
    have hnone := h.fresh t hpc
    refine ⟨rfl, ?_, ?_, ?_⟩
    · intro u hu
      by_cases hut : u = t
      · subst hut; exact h.crit u hin
      · rw [setPc_pc_other _ _ _ _ hut] at hu; exact h.crit u hu
    · intro u hu
      by_cases hut : u = t
      · subst hut; rfl
      · rw [setPc_pc_other _ _ _ _ hut] at hu
        have := h.own u hu; rw [hnone] at this; cases this
    · intro u hu
      by_cases hut : u = t
      · subst hut; simp at hu
      · rw [setPc_pc_other _ _ _ _ hut] at hu
        -- two threads inside the critical section: impossible
        have h1 := h.crit u (by rw [hu]; rfl)
        have h2 := h.crit t hin
        rw [h1] at h2; cases h2; exact absurd rfl hut
  | compare =>
    simp only [hl, if_true]
    have hin : inCrit (g.pc t) = true := by rw [hpc]; rfl
    split_ifs with hme
    · exact h.move t (.release true) hin rfl (fun _ => hme) (by intro hc; cases hc)
    · exact h.move t (.raise 3) hin rfl (by intro hc; cases hc) (by intro hc; cases hc)
  | raise k =>
    have hin : inCrit (g.pc t) = true := by rw [hpc]; rfl
    match k with
    | k + 2 => exact h.move t (.raise (k + 1)) hin rfl (by intro hc; cases hc) (by intro hc; cases hc)
    | 0 => simp only [hl, if_true]; exact h.move t (.release false) hin rfl (by intro hc; cases hc) (by intro hc; cases hc)
    | 1 => simp only [hl, if_true]; exact h.move t (.release false) hin rfl (by intro hc; cases hc) (by intro hc; cases hc)
  | release ok =>
    simp only
    have hin : inCrit (g.pc t) = true := by rw [hpc]; rfl
    have hlock := h.crit t hin
    refine ⟨hl, ?_, ?_, ?_⟩
    · intro u hu
      by_cases hut : u = t
      · subst hut; simp [inCrit] at hu
      · rw [setPc_pc_other _ _ _ _ hut] at hu
        have := h.crit u hu; rw [hlock] at this; cases this; exact absurd rfl hut
    · intro u hu
      by_cases hut : u = t
      · subst hut
        simp only [setPc_pc_self] at hu
        rcases hu with hu | hu
        · cases hu; exact h.own u (Or.inr hpc)
        · cases hu
      · rw [setPc_pc_other _ _ _ _ hut] at hu; exact h.own u hu
    · intro u hu
      by_cases hut : u = t
      · subst hut; simp at hu
      · rw [setPc_pc_other _ _ _ _ hut] at hu; exact h.fresh u hu
  | done ok => exact h

theorem run_safe (sched : List Nat) : ∀ g, Safe g → Safe (run g sched) := by
  induction sched with
  | nil => intro g h; exact h
  | cons t ts ih => intro g h; exact ih _ (step_safe g t h)

theorem again_safe (g : G) (t : Nat) (h : Safe g) : Safe (again g t) := by
  unfold again
  cases hpc : g.pc t with
  | done ok =>
    simp only [entry, h.locked, if_true]
    refine ⟨h.locked, ?_, ?_, ?_⟩
    · intro u hu
      by_cases hut : u = t
      · subst hut; simp [inCrit] at hu
      · rw [setPc_pc_other _ _ _ _ hut] at hu; exact h.crit u hu
    · intro u hu
      by_cases hut : u = t
      · subst hut; simp at hu
      · rw [setPc_pc_other _ _ _ _ hut] at hu; exact h.own u hu
    · intro u hu
      by_cases hut : u = t
      · subst hut; simp at hu
      · rw [setPc_pc_other _ _ _ _ hut] at hu; exact h.fresh u hu
  | _ => exact h

end Aeic.ThreadGuard
