/-
  C14 helper lemmas, part 1: the SQL builder (placeholders vs parameters, the query object
  as a state machine).  Core Lean only.
-/
import AeicModel.Query

set_option linter.unusedSimpArgs false
set_option linter.unnecessarySimpa false
set_option linter.unusedSectionVars false

namespace Aeic.Query

/-- scalar instance used only for non-vacuity examples and concrete witnesses -/
instance : Lit Int := ⟨fun m _ => m⟩

/-! ### placeholders = parameters, per condition -/

theorem qmCount_append (a b : List Tok) : qmCount (a ++ b) = qmCount a + qmCount b := by
  simp [qmCount, List.count_append]

@[simp] theorem qmCount_nil : qmCount [] = 0 := rfl
@[simp] theorem qmCount_txt (s : String) (l : List Tok) : qmCount (.txt s :: l) = qmCount l := by
  simp [qmCount, List.count_cons]
@[simp] theorem qmCount_qm (l : List Tok) : qmCount (.qm :: l) = qmCount l + 1 := by
  simp [qmCount, List.count_cons]

theorem qmCount_intersperse (s : String) (l : List Tok) :
    qmCount (l.intersperse (.txt s)) = qmCount l := by
  induction l with
  | nil => rfl
  | cons x xs ih =>
    cases xs with
    | nil => rfl
    | cons y ys =>
      rw [List.intersperse_cons_cons]
      cases x <;> simp_all

theorem qmCount_replicate (n : Nat) : qmCount (List.replicate n Tok.qm) = n := by
  simp [qmCount]

@[simp] theorem qmCount_placeholders (n : Nat) : qmCount (placeholders n) = n := by
  simp [placeholders, qmCount_intersperse, qmCount_replicate]

theorem subSelect_qm {α} (r : Region α) : qmCount (subSelect r) = r.params.length := by
  cases r <;> simp [subSelect, Region.params, qmCount_append]

theorem render_qm {α} (t : String) (c : Cond α) : qmCount (render t c) = c.params.length := by
  cases c with
  | region e r => cases e <;> simp [render, Cond.params, qmCount_append, subSelect_qm] <;> omega
  | _ => simp [render, Cond.params, qmCount_append]

theorem andJoin_qm {α} (t : String) (cs : List (Cond α)) :
    qmCount (andJoin t cs) = (paramsOf cs).length := by
  induction cs with
  | nil => simp [andJoin, paramsOf]
  | cons c cs ih =>
    cases cs with
    | nil => simp [andJoin, paramsOf, render_qm]
    | cons d ds =>
      simp only [andJoin, qmCount_append, render_qm, ih]
      simp [paramsOf]

theorem whereClause_qm {α} (cs : List (Cond α)) :
    qmCount (whereClause cs) = (paramsOf cs).length := by
  unfold whereClause
  split
  · next h => simp_all [paramsOf]
  · simp [qmCount_append, andJoin_qm]

theorem limitToks_qm (l o : Option Int) : qmCount (limitToks l o) = 0 := by
  unfold limitToks; cases l <;> cases o <;> simp

theorem sqlOf_qm {α} (q : QSpec α) (cs : List (Cond α)) :
    qmCount (sqlOf q cs) = (paramsOf cs).length := by
  unfold sqlOf
  cases q.kind
  · simp [qmCount_append, whereClause_qm, limitToks_qm]
  · simp [qmCount_append, whereClause_qm]
  · simp only [qmCount_append, qmCount_txt, qmCount_nil]
    split
    · next h => simp_all [paramsOf]
    · simp [qmCount_append, whereClause_qm]

/-! ### the query object -/

theorem getD_append_last {β} (l : List β) (x d : β) : (l ++ [x]).getD ((l ++ [x]).length - 1) d = x := by
  simp [List.getD_eq_getElem?_getD]

theorem getD_append_lt {β} (l : List β) (x d : β) (i : Nat) (h : i < l.length) :
    (l ++ [x]).getD i d = l.getD i d := by
  simp [List.getD_eq_getElem?_getD, List.getElem?_append_left h]

section
variable {α : Type} [LT α] [LE α] [DecidableLT α] [DecidableLE α] [Lit α]

/-- what a build of the repaired code returns, in terms of the current fields only -/
theorem build_fixed_eq (q : QSpec α) (st : QState α) :
    build true q st =
      (conditionsOf true q).map (fun new =>
        ({ conds := new, heap := st.heap ++ [paramsOf new] },
         { sql := sqlOf q new, ref := (st.heap ++ [paramsOf new]).length - 1 })) := by
  unfold build
  cases conditionsOf true q <;> rfl

theorem build_fixed_ok {q : QSpec α} {st st' : QState α} {b : Built}
    (h : build true q st = .ok (st', b)) :
    ∃ new, conditionsOf true q = .ok new ∧ st'.conds = new ∧ st'.heap = st.heap ++ [paramsOf new]
      ∧ b.sql = sqlOf q new ∧ b.ref = st.heap.length := by
  rw [build_fixed_eq] at h
  cases hc : conditionsOf true q with
  | error e => simp [hc, Except.map] at h
  | ok new =>
    simp only [hc, Except.map, Except.ok.injEq, Prod.mk.injEq] at h
    obtain ⟨h1, h2⟩ := h
    subst h1 h2
    exact ⟨new, rfl, rfl, rfl, rfl, by simp⟩

theorem build_fixed_deref {q : QSpec α} {st st' : QState α} {b : Built}
    (h : build true q st = .ok (st', b)) :
    ∃ new, conditionsOf true q = .ok new ∧ b.sql = sqlOf q new ∧ st'.deref b = paramsOf new := by
  obtain ⟨new, h1, _, h3, h4, h5⟩ := build_fixed_ok h
  refine ⟨new, h1, h4, ?_⟩
  unfold QState.deref
  rw [h3, h5]
  have := getD_append_last st.heap (paramsOf new) []
  simpa using this

/-- a build of the repaired code never touches the parameter lists handed out before -/
theorem build_fixed_preserves {q : QSpec α} {st st' : QState α} {b : Built}
    (h : build true q st = .ok (st', b)) :
    st.heap.length ≤ st'.heap.length ∧ ∀ i, i < st.heap.length → st'.heap.getD i [] = st.heap.getD i [] := by
  obtain ⟨new, _, _, h3, _, _⟩ := build_fixed_ok h
  rw [h3]
  exact ⟨by simp, fun i hi => getD_append_lt _ _ _ _ hi⟩

theorem buildAll_fixed_preserves (qs : List (QSpec α)) (st : QState α) :
    st.heap.length ≤ (buildAll true qs st).1.heap.length ∧
      ∀ i, i < st.heap.length → (buildAll true qs st).1.heap.getD i [] = st.heap.getD i [] := by
  induction qs generalizing st with
  | nil => simp [buildAll]
  | cons q qs ih =>
    unfold buildAll
    cases hb : build true q st with
    | error e => simpa using ih st
    | ok r =>
      obtain ⟨st', b⟩ := r
      obtain ⟨hlen, hkeep⟩ := build_fixed_preserves hb
      obtain ⟨ihl, ihk⟩ := ih st'
      refine ⟨by simpa using Nat.le_trans hlen ihl, fun i hi => ?_⟩
      have := ihk i (Nat.lt_of_lt_of_le hi hlen)
      simp only
      rw [this, hkeep i hi]

end

end Aeic.Query
