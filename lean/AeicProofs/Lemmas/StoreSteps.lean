/- Per-operation commuting lemmas: concrete store step vs abstract specification step. -/
import Mathlib.Tactic.ByContra
import AeicProofs.Lemmas.StoreInv

namespace Aeic.Store

/-! ### create -/

theorem create_inv (w : World) (f : Bool) (n : Nat) (h : WInv w) : WInv (opCreate w f n).1 := by
  have hc := closeSess_inv w h
  unfold opCreate
  by_cases hf : f = true
  · simp only [hf, if_true]
    refine ⟨⟨by simp [Disk.absent], by simp [Disk.absent]⟩, ?_, by simp [IndexOk, Disk.absent], MemStale.of_not_mem rfl⟩
    intro s hs; cases hs
    refine ⟨rfl, by simp [Cache.empty], by simp, by simp, by simp [Disk.absent], by simp [Cache.empty], by simp⟩
  · simp only [hf]
    refine ⟨hc.disk, ?_, ?_, ?_⟩
    rotate_left 2
    · intro s hs _ _ he; cases hs; simp [Cache.empty] at he
    · intro s hs; cases hs
      refine ⟨rfl, by simp [Cache.empty], by simp [Cache.empty], by simp [Cache.empty], by simp, by simp, by simp⟩
    · intro hx hst
      exact hc.index hx (by intro s hs; rw [(closeSess_disk_items w).2.2.2.2] at hs; cases hs)

theorem create_abs (w : World) (f : Bool) (n : Nat) :
    specStep (absW w) (.create f n) = (absW (opCreate w f n).1, (opCreate w f n).2) := by
  obtain ⟨hi, hp, hf, hx, hs⟩ := closeSess_disk_items w
  unfold opCreate specStep
  by_cases hfile : f = true
  · simp [hfile, absW, Disk.absent, absSess, absSchema, Cache.empty]
  · simp [hfile, absW, specClose, absSess, absSchema, Cache.empty, hi, hp, hf, hx]

/-! ### open -/

theorem open_inv (w : World) (m : Mode) (n : Nat) (hm : m ≠ .create) (h : WInv w) : WInv (opOpen w m n).1 := by
  have hc := closeSess_inv w h
  obtain ⟨hi, hp, hf, hx, hs⟩ := closeSess_disk_items w
  unfold opOpen
  by_cases hpres : (closeSess w).disk.present = true
  · simp only [hpres, Bool.not_true, Bool.false_eq_true, if_false]
    refine ⟨hc.disk, ?_, ?_, MemStale.of_not_mem rfl⟩
    · intro s hs'; cases hs'
      refine ⟨rfl, by simp [Cache.empty], by simp, by simp, by simp [hpres], by simp, ?_⟩
      intro _ _
      refine ⟨by simp [Cache.empty], ?_, rfl⟩
      intro hr
      cases m <;> simp_all
    · intro hxx _
      exact hc.index hxx (by intro s hs'; rw [hs] at hs'; cases hs')
  · simp only [hpres, Bool.not_false, if_true]
    exact hc

theorem open_abs (w : World) (m : Mode) (n : Nat) :
    specStep (absW w) (match m with | .read => .openRead n | _ => .openAppend n) =
      (absW (opOpen w (match m with | .read => .read | _ => .append) n).1,
       (opOpen w (match m with | .read => .read | _ => .append) n).2) := by
  obtain ⟨hi, hp, hf, hx, hs⟩ := closeSess_disk_items w
  have ha := abs_closeSess w
  cases m <;>
  · unfold opOpen specStep
    simp only [← ha]
    by_cases hpres : (closeSess w).disk.present = true
    · simp [hpres, absW, absSess, absSchema, Cache.empty, hs]
    · simp [hpres, absW, hs]

end Aeic.Store

namespace Aeic.Store

/-! ### reading one item -/

/-- what `getItem` and friends may change: only the cache of a linked store -/
structure Frame (s s' : Sess) : Prop where
  mode : s'.mode = s.mode
  mem : s'.mem = s.mem
  linked : s'.linked = s.linked
  pending : s'.pending = s.pending
  nextIndex : s'.nextIndex = s.nextIndex
  indexable : s'.indexable = s.indexable
  stale : s'.stale = s.stale
  maxBytes : s'.cache.maxBytes = s.cache.maxBytes
  entries : s.linked = false → s'.cache.entries = s.cache.entries

theorem Frame.refl (s : Sess) : Frame s s := ⟨rfl, rfl, rfl, rfl, rfl, rfl, rfl, rfl, fun _ => rfl⟩

theorem Frame.trans {a b c : Sess} (h1 : Frame a b) (h2 : Frame b c) : Frame a c :=
  ⟨h2.mode.trans h1.mode, h2.mem.trans h1.mem, h2.linked.trans h1.linked, h2.pending.trans h1.pending,
   h2.nextIndex.trans h1.nextIndex, h2.indexable.trans h1.indexable, h2.stale.trans h1.stale,
   h2.maxBytes.trans h1.maxBytes,
   fun hl => (h2.entries (by rw [h1.linked]; exact hl)).trans (h1.entries hl)⟩

theorem MemStale.frame {d d' : Disk} {s s' : Sess} (h : MemStale ⟨d, some s⟩) (hl : s.mem = true → s.linked = false)
    (hfr : Frame s s') : MemStale ⟨d', some s'⟩ := by
  intro t ht hm hi he; cases ht
  rw [hfr.mem] at hm; rw [hfr.indexable] at hi; rw [hfr.entries (hl hm)] at he; rw [hfr.stale]
  exact h s rfl hm hi he

theorem Frame.absSess {s s' : Sess} (d : Disk) (h : Frame s s') : absSess d s' = absSess d s := by
  unfold Aeic.Store.absSess absSchema
  rw [h.mode, h.mem, h.maxBytes, h.indexable, h.linked]
  by_cases hl : s.linked = true
  · simp [hl]
  · have hl' : s.linked = false := by simpa using hl
    rw [h.entries hl']

theorem find_range (es : List (Nat × Item)) (a i : Nat) (h : es.map (·.1) = List.range' a es.length) :
    (es.find? (·.1 == a + i)).map (·.2) = (es.map (·.2))[i]? := by
  induction es generalizing a i with
  | nil => simp
  | cons e rest ih =>
    simp only [List.map_cons, List.length_cons, List.range'_succ, List.cons.injEq] at h
    obtain ⟨h1, h2⟩ := h
    cases i with
    | zero => simp [h1]
    | succ j =>
      have hne : (e.1 == a + (j + 1)) = false := by simp [h1]
      simp only [List.find?_cons, hne, List.map_cons, List.getElem?_cons_succ]
      have := ih (a + 1) j h2
      rw [← this]; congr 2; funext x; congr 1; omega

/-- visible items of a session -/
def visible (d : Disk) (s : Sess) : List Item := if s.mem then s.cache.entries.map (·.2) else d.items

def specGetOut (d : Disk) (s : Sess) (i : Nat) : Out :=
  match (visible d s)[i]? with
  | none => .err .indexError
  | some it => if !s.mem && it.bytes > s.cache.maxBytes then .err .valueError else .item it

theorem getItem_spec (d : Disk) (s : Sess) (i : Nat) (hd : DiskInv d) (hs : SessInv d s) :
    SessInv d (s.getItem d i).1 ∧ Frame s (s.getItem d i).1 ∧ (s.getItem d i).2 = specGetOut d s i := by
  unfold Sess.getItem
  cases hg : s.cache.get i with
  | some p =>
    obtain ⟨c, it⟩ := p
    obtain ⟨hc, hmem⟩ := get_some hg
    subst hc
    simp only
    refine ⟨⟨hs.noEvict, hs.small, hs.memShape, hs.memSchema, hs.fileShape, hs.pendingShape, hs.linkedShape⟩,
      ⟨rfl, rfl, rfl, rfl, rfl, rfl, rfl, rfl, fun _ => rfl⟩, ?_⟩
    unfold specGetOut visible
    by_cases hm : s.mem = true
    · have hsh := (hs.memShape hm).2.2.2
      have hlen : s.cache.entries.length = s.nextIndex := by
        have := congrArg List.length hsh; simpa using this
      have hfr := find_range s.cache.entries 0 i (by rw [hlen, hsh, List.range_eq_range'])
      simp only [Nat.zero_add] at hfr
      have hfind : s.cache.find? i = some it := by
        unfold Cache.get at hg
        cases hf : s.cache.find? i with
        | none => simp [hf] at hg
        | some x => simp [hf] at hg; rw [hg]
      unfold Cache.find? at hfind
      rw [hfind] at hfr
      simp [hm, ← hfr]
    · have hm' : s.mem = false := by simpa using hm
      have hl : s.linked = true := by
        by_contra hl
        have hl' : s.linked = false := by simpa using hl
        have := (hs.pendingShape hm' hl').2.1
        rw [this] at hmem; cases hmem
      have h1 := (hs.linkedShape hm' hl).1 i it hmem
      have h2 := hs.small i it hmem
      have : ¬ (it.bytes > s.cache.maxBytes) := by omega
      simp [hm', h1, this]
  | none =>
    have hnone := get_none hg
    simp only
    by_cases hl : s.linked = true
    · have hm' : s.mem = false := by
        by_contra hm
        have hm : s.mem = true := by simpa using hm
        have := (hs.memShape hm).1; rw [this] at hl; cases hl
      rw [if_pos hl]
      unfold load
      cases hit : d.items[i]? with
      | none =>
        simp only
        exact ⟨hs, Frame.refl s, by simp [specGetOut, visible, hm', hit]⟩
      | some it =>
        simp only
        cases hins : s.cache.insert i it with
        | error e =>
          simp only
          refine ⟨hs, Frame.refl s, ?_⟩
          have hne : s.cache.noEvict = false := by rw [hs.noEvict, hm']
          by_cases hbig : it.bytes > s.cache.maxBytes
          · rw [insert_too_large hbig] at hins; cases hins
            simp [specGetOut, visible, hm', hit, hbig]
          · obtain ⟨c', hc'⟩ := insert_evict_ok (k := i) hne (by omega : it.bytes ≤ s.cache.maxBytes)
            rw [hc'] at hins; cases hins
        | ok c =>
          simp only
          obtain ⟨hmax, hnev, hle⟩ := insert_max hins
          refine ⟨⟨by simp [hnev, hs.noEvict], ?_, by simp [hm'], by simp [hm'], hs.fileShape, by simp [hl], ?_⟩,
            ⟨rfl, rfl, rfl, rfl, rfl, rfl, rfl, by simp [hmax], by simp [hl]⟩, ?_⟩
          · intro k x hx
            simp only [touch_entries, touch_maxBytes] at hx ⊢
            rcases insert_mem hins _ hx with h | h
            · rw [hmax]; exact hs.small k x h
            · cases h; rw [hmax]; exact hle
          · intro _ _
            refine ⟨?_, (hs.linkedShape hm' hl).2.1, (hs.linkedShape hm' hl).2.2⟩
            intro k x hx
            simp only [touch_entries] at hx
            rcases insert_mem hins _ hx with h | h
            · exact (hs.linkedShape hm' hl).1 k x h
            · cases h; exact hit
          · have : ¬ (it.bytes > s.cache.maxBytes) := by omega
            simp [specGetOut, visible, hm', hit, this]
    · have hl' : s.linked = false := by simpa using hl
      rw [if_neg (by simp [hl'])]
      refine ⟨hs, Frame.refl s, ?_⟩
      unfold specGetOut visible
      by_cases hm : s.mem = true
      · have hsh := (hs.memShape hm).2.2.2
        have hlen : s.cache.entries.length = s.nextIndex := by
          have := congrArg List.length hsh; simpa using this
        have hfr := find_range s.cache.entries 0 i (by rw [hlen, hsh, List.range_eq_range'])
        simp only [Nat.zero_add] at hfr
        have hfn : s.cache.entries.find? (·.1 == i) = none := by
          apply List.find?_eq_none.mpr
          intro x hx hxi
          have : x.1 = i := by simpa using hxi
          exact hnone x.2 (by rw [← this]; exact hx)
        rw [hfn] at hfr
        simp only [Option.map_none] at hfr
        simp [hm, ← hfr]
      · have hm' : s.mem = false := by simpa using hm
        have hpres : d.present = false := by rw [← (hs.fileShape hm').1]; exact hl'
        simp [hm', hd.absent hpres]

end Aeic.Store

namespace Aeic.Store

/-! ### iteration -/

theorem Frame.visible {s s' : Sess} (d : Disk) (h : Frame s s') (hm : s.mem = true → s.linked = false) :
    visible d s' = visible d s := by
  unfold Aeic.Store.visible
  rw [h.mem]
  by_cases hmm : s.mem = true
  · simp only [hmm, if_true]; rw [h.entries (hm hmm)]
  · simp [hmm]

theorem iterFrom_spec (d : Disk) (hd : DiskInv d) (fuel : Nat) :
    ∀ (s : Sess) (i : Nat) (acc : List Item), SessInv d s → i + fuel = (visible d s).length →
      SessInv d (iterFrom s d i fuel acc).1 ∧ Frame s (iterFrom s d i fuel acc).1 ∧
      (iterFrom s d i fuel acc).2 = specIter (absSess d s) ((visible d s).drop i) acc := by
  induction fuel with
  | zero =>
    intro s i acc hs hlen
    have : (visible d s).drop i = [] := by
      apply List.drop_eq_nil_of_le; omega
    simp [iterFrom, this, specIter, hs, Frame.refl]
  | succ n ih =>
    intro s i acc hs hlen
    have hi : i < (visible d s).length := by omega
    obtain ⟨hinv, hfr, hout⟩ := getItem_spec d s i hd hs
    have hdrop : (visible d s).drop i = (visible d s)[i] :: (visible d s).drop (i + 1) := by
      rw [List.drop_eq_getElem_cons hi]
    have hget : (visible d s)[i]? = some (visible d s)[i] := List.getElem?_eq_getElem hi
    unfold specGetOut at hout
    rw [hget] at hout
    simp only at hout
    unfold iterFrom
    rw [hdrop]
    unfold specIter
    have htl : tooLarge (absSess d s) (visible d s)[i] =
        (!s.mem && decide ((visible d s)[i].bytes > s.cache.maxBytes)) := by
      simp [tooLarge, absSess]
    rw [htl]
    by_cases hbig : (!s.mem && decide ((visible d s)[i].bytes > s.cache.maxBytes)) = true
    · rw [if_pos hbig] at hout ⊢
      -- the implementation's read fails: iteration stops with that error
      generalize hr : s.getItem d i = r at hinv hfr hout
      obtain ⟨s', o⟩ := r
      simp only at hout hinv hfr
      subst hout
      exact ⟨hinv, hfr, rfl⟩
    · rw [if_neg hbig] at hout ⊢
      generalize hr : s.getItem d i = r at hinv hfr hout
      obtain ⟨s', o⟩ := r
      simp only at hout hinv hfr
      subst hout
      simp only
      have hmm : s.mem = true → s.linked = false := fun hm => (hs.memShape hm).1
      have hv := hfr.visible d hmm
      obtain ⟨h1, h2, h3⟩ := ih s' (i + 1) ((visible d s)[i] :: acc) hinv (by rw [hv]; omega)
      refine ⟨h1, hfr.trans h2, ?_⟩
      rw [h3, hv, hfr.absSess d]

end Aeic.Store
