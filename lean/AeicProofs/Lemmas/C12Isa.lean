/-
  Helper lemmas for C12 (ISA part): real-number readings of the regenerated constants and of the
  transcendental class, positivity facts, and the two inverse directions layer by layer.
-/
import AeicProofs.RealInst
import AeicModel.EI

namespace Aeic.EI
open Aeic Aeic.Gen

@[simp] theorem tr_pow (x y : ℝ) : Transc.pow x y = x ^ y := rfl
@[simp] theorem tr_exp (x : ℝ) : Transc.exp x = Real.exp x := rfl
@[simp] theorem tr_log (x : ℝ) : Transc.log x = Real.log x := rfl
@[simp] theorem tr_log10 (x : ℝ) : Transc.log10 x = Real.log x / Real.log 10 := rfl
@[simp] theorem tr_sqrt (x : ℝ) : Transc.sqrt x = Real.sqrt x := rfl

theorem T0_real : (T0 : ℝ) = 288.15 := by simp only [T0, lit_real]; norm_num
theorem p0_real : (p0 : ℝ) = 101325 := by simp only [p0, lit_real]; norm_num
theorem g0_real : (g0 : ℝ) = 9.80665 := by simp only [g0, lit_real]; norm_num
theorem R_air_real : (R_air : ℝ) = 287.05287 := by simp only [R_air, lit_real]; norm_num
theorem kappa_real : (kappa : ℝ) = 1.4 := by simp only [kappa, lit_real]; norm_num
theorem beta_real : (beta_tropo : ℝ) = -0.0065 := by simp only [beta_tropo, lit_real]; norm_num
theorem hTrop_real : (h_p_tropo : ℝ) = 11000 := by simp only [h_p_tropo, lit_real]; norm_num

theorem tTrop_real : (tTrop : ℝ) = 216.65 := by
  simp only [tTrop, T0_real, beta_real, hTrop_real]; norm_num

theorem isaExp_pos : (0 : ℝ) < isaExp := by
  simp only [isaExp, g0_real, beta_real, R_air_real]; norm_num

/-- the two exponents of the tropospheric formulas are reciprocal -/
theorem isaExp_mul_inv : (isaExp : ℝ) * ((-(beta_tropo : ℝ)) * R_air / g0) = 1 := by
  simp only [isaExp, g0_real, beta_real, R_air_real]; norm_num

theorem pTrop_pos : (0 : ℝ) < pTrop := by
  simp only [pTrop, tr_pow, p0_real, tTrop_real, T0_real]
  have : (0 : ℝ) < (216.65 / 288.15 : ℝ) ^ (isaExp : ℝ) := Real.rpow_pos_of_pos (by norm_num) _
  positivity

/-- troposphere (and below sea level): `isaAltitude (isaPressure h) = h` while the ISA temperature is positive -/
theorem alt_press_tropo (h : ℝ) (h1 : h ≤ 11000) (h2 : 0 < (T0 : ℝ) + beta_tropo * h) :
    isaAltitude (isaPressure h) = h := by
  have hx : 0 < ((T0 : ℝ) + beta_tropo * h) / T0 := by
    rw [T0_real] at *; positivity
  have hle : (tTrop : ℝ) / T0 ≤ ((T0 : ℝ) + beta_tropo * h) / T0 := by
    rw [tTrop_real]; rw [T0_real, beta_real] at *
    apply div_le_div_of_nonneg_right _ (by norm_num); linarith
  have hT : isaTemperature h = (T0 : ℝ) + beta_tropo * h := by
    unfold isaTemperature; rw [hTrop_real, if_pos h1]
  have hp : isaPressure h = (p0 : ℝ) * (((T0 : ℝ) + beta_tropo * h) / T0) ^ (isaExp : ℝ) := by
    unfold isaPressure; rw [hTrop_real, if_pos h1, hT]; rfl
  have hge : (pTrop : ℝ) ≤ isaPressure h := by
    rw [hp]; simp only [pTrop, tr_pow]
    have h0 : (0 : ℝ) ≤ (tTrop : ℝ) / T0 := by rw [tTrop_real, T0_real]; norm_num
    have := Real.rpow_le_rpow h0 hle isaExp_pos.le
    have hp0 : (0 : ℝ) ≤ p0 := by rw [p0_real]; norm_num
    exact mul_le_mul_of_nonneg_left this hp0
  unfold isaAltitude; rw [if_pos hge, hp]
  have hp0 : (p0 : ℝ) ≠ 0 := by rw [p0_real]; norm_num
  rw [mul_div_cancel_left₀ _ hp0]
  simp only [tr_pow, one_real]
  rw [← Real.rpow_mul hx.le, isaExp_mul_inv, Real.rpow_one]
  have hT0 : (T0 : ℝ) ≠ 0 := by rw [T0_real]; norm_num
  have hb : (beta_tropo : ℝ) ≠ 0 := by rw [beta_real]; norm_num
  field_simp; ring

/-- stratosphere: `isaAltitude (isaPressure h) = h` for every altitude above the tropopause -/
theorem alt_press_strato (h : ℝ) (h1 : 11000 < h) : isaAltitude (isaPressure h) = h := by
  have hc : (-(g0 : ℝ)) / ((R_air : ℝ) * tTrop) < 0 := by
    rw [g0_real, R_air_real, tTrop_real]; norm_num
  have hp : isaPressure h = (pTrop : ℝ) * Real.exp ((-(g0 : ℝ)) / ((R_air : ℝ) * tTrop) * (h - 11000)) := by
    unfold isaPressure; rw [hTrop_real, if_neg (not_le.mpr h1)]; rfl
  have hneg : (-(g0 : ℝ)) / ((R_air : ℝ) * tTrop) * (h - 11000) < 0 :=
    mul_neg_of_neg_of_pos hc (by linarith)
  have hlt : isaPressure h < (pTrop : ℝ) := by
    rw [hp]
    have : Real.exp ((-(g0 : ℝ)) / ((R_air : ℝ) * tTrop) * (h - 11000)) < 1 := by
      have := Real.exp_lt_exp.mpr hneg; rwa [Real.exp_zero] at this
    nlinarith [pTrop_pos]
  unfold isaAltitude; rw [if_neg (not_le.mpr hlt), hp, hTrop_real]
  rw [mul_div_cancel_left₀ _ pTrop_pos.ne']
  simp only [tr_log, Real.log_exp]
  have hg : (g0 : ℝ) ≠ 0 := by rw [g0_real]; norm_num
  have hR : (R_air : ℝ) ≠ 0 := by rw [R_air_real]; norm_num
  have hT : (tTrop : ℝ) ≠ 0 := by rw [tTrop_real]; norm_num
  field_simp; ring

/-- at or above the tropopause pressure: `isaPressure (isaAltitude p) = p` -/
theorem press_alt_tropo (p : ℝ) (h1 : (pTrop : ℝ) ≤ p) : isaPressure (isaAltitude p) = p := by
  have hp0 : (0 : ℝ) < p0 := by rw [p0_real]; norm_num
  have hppos : 0 < p := lt_of_lt_of_le pTrop_pos h1
  have hx : 0 < p / p0 := div_pos hppos hp0
  set e' : ℝ := (-(beta_tropo : ℝ)) * R_air / g0 with he'
  have he'pos : 0 < e' := by rw [he', beta_real, R_air_real, g0_real]; norm_num
  have hA : isaAltitude p = (T0 : ℝ) / beta_tropo * ((p / p0) ^ e' - 1) := by
    unfold isaAltitude; rw [if_pos h1]; simp only [tr_pow, one_real]; rfl
  have hy : 0 < (p / p0) ^ e' := Real.rpow_pos_of_pos hx _
  -- (pTrop/p0)^e' = tTrop/T0
  have hr0 : (0 : ℝ) ≤ (tTrop : ℝ) / T0 := by rw [tTrop_real, T0_real]; norm_num
  have htr : ((pTrop : ℝ) / p0) ^ e' = (tTrop : ℝ) / T0 := by
    simp only [pTrop, tr_pow]
    rw [mul_div_cancel_left₀ _ hp0.ne', ← Real.rpow_mul hr0, he', isaExp_mul_inv, Real.rpow_one]
  have hmono : (tTrop : ℝ) / T0 ≤ (p / p0) ^ e' := by
    rw [← htr]
    apply Real.rpow_le_rpow (div_nonneg pTrop_pos.le hp0.le) _ he'pos.le
    exact div_le_div_of_nonneg_right h1 hp0.le
  have hT0 : (T0 : ℝ) ≠ 0 := by rw [T0_real]; norm_num
  have hb : (beta_tropo : ℝ) ≠ 0 := by rw [beta_real]; norm_num
  have hTemp : (T0 : ℝ) + beta_tropo * isaAltitude p = T0 * (p / p0) ^ e' := by
    rw [hA]; field_simp; ring
  have hle : isaAltitude p ≤ 11000 := by
    have h3 : (T0 : ℝ) * ((tTrop : ℝ) / T0) ≤ T0 * (p / p0) ^ e' :=
      mul_le_mul_of_nonneg_left hmono (by rw [T0_real]; norm_num)
    rw [← hTemp, mul_div_cancel₀ _ hT0, tTrop_real, T0_real, beta_real] at h3
    nlinarith
  unfold isaPressure; rw [hTrop_real, if_pos hle]
  have : isaTemperature (isaAltitude p) = (T0 : ℝ) + beta_tropo * isaAltitude p := by
    unfold isaTemperature; rw [hTrop_real, if_pos hle]
  rw [this, hTemp, mul_div_cancel_left₀ _ hT0]
  simp only [tr_pow]
  rw [← Real.rpow_mul hx.le, mul_comm e', isaExp_mul_inv, Real.rpow_one]
  field_simp

/-- below the tropopause pressure: `isaPressure (isaAltitude p) = p` -/
theorem press_alt_strato (p : ℝ) (h0 : 0 < p) (h1 : p < (pTrop : ℝ)) : isaPressure (isaAltitude p) = p := by
  have hA : isaAltitude p = 11000 - (R_air : ℝ) * tTrop / g0 * Real.log (p / pTrop) := by
    unfold isaAltitude; rw [if_neg (not_le.mpr h1), hTrop_real]; rfl
  have hlog : Real.log (p / pTrop) < 0 :=
    Real.log_neg (div_pos h0 pTrop_pos) ((div_lt_one pTrop_pos).mpr h1)
  have hk : 0 < (R_air : ℝ) * tTrop / g0 := by rw [R_air_real, tTrop_real, g0_real]; norm_num
  have hgt : 11000 < isaAltitude p := by rw [hA]; nlinarith
  unfold isaPressure; rw [hTrop_real, if_neg (not_le.mpr hgt), hA]
  simp only [tr_exp]
  have hg : (g0 : ℝ) ≠ 0 := by rw [g0_real]; norm_num
  have hR : (R_air : ℝ) ≠ 0 := by rw [R_air_real]; norm_num
  have hT : (tTrop : ℝ) ≠ 0 := by rw [tTrop_real]; norm_num
  have : (-(g0 : ℝ)) / ((R_air : ℝ) * tTrop) * (11000 - (R_air : ℝ) * tTrop / g0 * Real.log (p / pTrop) - 11000)
      = Real.log (p / pTrop) := by field_simp; ring
  rw [this, Real.exp_log (div_pos h0 pTrop_pos)]
  have hpt : (pTrop : ℝ) ≠ 0 := pTrop_pos.ne'
  field_simp

end Aeic.EI
