/-
  Helper lemmas for C13: the calendar model (CPython ordinal), weekday, day ranges.
-/
import AeicModel.Schedule

namespace Aeic.Schedule

theorem isLeap_iff (y : Int) : isLeap y = true ↔ (y % 4 = 0 ∧ (y % 100 ≠ 0 ∨ y % 400 = 0)) := by
  simp [isLeap]

theorem isLeap_false_iff (y : Int) : isLeap y = false ↔ ¬ (y % 4 = 0 ∧ (y % 100 ≠ 0 ∨ y % 400 = 0)) := by
  rw [← isLeap_iff]; simp

theorem daysBeforeYear_succ (y : Int) : daysBeforeYear (y + 1) = daysBeforeYear y + yearLen y := by
  unfold daysBeforeYear yearLen
  cases h : isLeap y
  · have := (isLeap_false_iff y).mp h
    simp only [Bool.false_eq_true, if_false]
    omega
  · have := (isLeap_iff y).mp h
    simp only [if_true]
    omega

theorem yearLen_ge (y : Int) : 365 ≤ yearLen y := by
  unfold yearLen; split <;> omega

theorem yearLen_le (y : Int) : yearLen y ≤ 366 := by
  unfold yearLen; split <;> omega

theorem daysBeforeYear_add (y : Int) (n : Nat) :
    daysBeforeYear (y + 1) + 365 * n ≤ daysBeforeYear (y + 1 + n) := by
  induction n with
  | zero => simp
  | succ k ih =>
    have h := daysBeforeYear_succ (y + 1 + k)
    have h2 := yearLen_ge (y + 1 + k)
    have e : y + 1 + ((k + 1 : Nat) : Int) = y + 1 + (k : Int) + 1 := by omega
    rw [e, h]; omega

/-- a later year starts after the earlier year has ended -/
theorem daysBeforeYear_lt {y y' : Int} (h : y < y') : daysBeforeYear y + yearLen y ≤ daysBeforeYear y' := by
  have e : y' = y + 1 + ((y' - y - 1).toNat : Int) := by omega
  have := daysBeforeYear_add y (y' - y - 1).toNat
  rw [← e, daysBeforeYear_succ] at this
  omega


theorem month_cases {m : Int} (h1 : 1 ≤ m) (h2 : m ≤ 12) :
    m = 1 ∨ m = 2 ∨ m = 3 ∨ m = 4 ∨ m = 5 ∨ m = 6 ∨ m = 7 ∨ m = 8 ∨ m = 9 ∨ m = 10 ∨ m = 11 ∨ m = 12 := by
  omega

theorem valid_iff (t : Date) : t.valid = true ↔
    (1 ≤ t.y ∧ t.y ≤ 9999 ∧ 1 ≤ t.m ∧ t.m ≤ 12 ∧ 1 ≤ t.d ∧ t.d ≤ daysInMonth t.y t.m) := by
  simp [Date.valid, and_assoc]

/-- month table: the next month starts when this one ends -/
theorem daysBeforeMonth_succ (y m : Int) (h1 : 1 ≤ m) (h2 : m < 12) :
    daysBeforeMonth y (m + 1) = daysBeforeMonth y m + daysInMonth y m := by
  have hm : m = 1 ∨ m = 2 ∨ m = 3 ∨ m = 4 ∨ m = 5 ∨ m = 6 ∨ m = 7 ∨ m = 8 ∨ m = 9 ∨ m = 10 ∨ m = 11 := by omega
  rcases hm with h | h | h | h | h | h | h | h | h | h | h <;> subst h <;>
    cases hl : isLeap y <;> simp [daysBeforeMonth, daysInMonth, hl]

theorem daysBeforeMonth_december (y : Int) : daysBeforeMonth y 12 + daysInMonth y 12 = yearLen y := by
  cases hl : isLeap y <;> simp [daysBeforeMonth, daysInMonth, yearLen, hl]

theorem daysInMonth_pos (y m : Int) : 28 ≤ daysInMonth y m := by
  unfold daysInMonth; split <;> (try split) <;> omega

theorem daysInMonth_le (y m : Int) : daysInMonth y m ≤ 31 := by
  unfold daysInMonth; split <;> (try split) <;> omega

theorem daysBeforeMonth_nonneg (y m : Int) : 0 ≤ daysBeforeMonth y m := by
  unfold daysBeforeMonth; repeat' split
  all_goals omega

/-- months in order: month `m` ends before month `m'` starts -/
theorem daysBeforeMonth_lt (y : Int) {m m' : Int} (h1 : 1 ≤ m) (h : m < m') (h2 : m' ≤ 12) :
    daysBeforeMonth y m + daysInMonth y m ≤ daysBeforeMonth y m' := by
  have e : m' = m + 1 + ((m' - m - 1).toNat : Int) := by omega
  generalize (m' - m - 1).toNat = k at e
  subst e
  induction k with
  | zero => simp; rw [daysBeforeMonth_succ y m h1 (by omega)]; omega
  | succ k ih =>
    have hk : m + 1 + ((k + 1 : Nat) : Int) = (m + 1 + (k : Int)) + 1 := by omega
    rw [hk, daysBeforeMonth_succ y _ (by omega) (by omega)]
    have := ih (by omega) (by omega)
    have := daysInMonth_pos y (m + 1 + (k : Int))
    omega

/-- last day of a month is inside the year -/
theorem dayOfYear_le (y : Int) {m : Int} (h1 : 1 ≤ m) (h2 : m ≤ 12) :
    daysBeforeMonth y m + daysInMonth y m ≤ yearLen y := by
  by_cases h : m = 12
  · subst h; rw [daysBeforeMonth_december]; omega
  · have := daysBeforeMonth_lt y h1 (by omega : m < 12) (by omega)
    have := daysBeforeMonth_december y
    have := daysInMonth_pos y 12
    omega

/-- **successor compatibility**: the calendar successor of a valid date has the next day number -/
theorem epochDay_nextDate (t : Date) (h : t.valid = true) : epochDay (nextDate t) = epochDay t + 1 := by
  obtain ⟨_, _, hm1, hm2, _, hd2⟩ := (valid_iff t).mp h
  unfold nextDate
  split
  · simp [epochDay, ordinal]; omega
  · split
    · simp only [epochDay, ordinal]
      rw [daysBeforeMonth_succ t.y t.m hm1 (by omega)]
      omega
    · have hm : t.m = 12 := by omega
      simp only [epochDay, ordinal]
      rw [daysBeforeYear_succ]
      have := daysBeforeMonth_december t.y
      have e1 : daysInMonth t.y t.m = daysInMonth t.y 12 := by rw [hm]
      have e2 : daysBeforeMonth t.y t.m = daysBeforeMonth t.y 12 := by rw [hm]
      have : daysBeforeMonth (t.y + 1) 1 = 0 := by simp [daysBeforeMonth]
      omega

theorem nextDate_valid (t : Date) (h : t.valid = true) (hy : t.y < 9999) : (nextDate t).valid = true := by
  obtain ⟨hy1, hy2, hm1, hm2, hd1, hd2⟩ := (valid_iff t).mp h
  rw [valid_iff]
  unfold nextDate
  split
  · simp; omega
  · split
    · have := daysInMonth_pos t.y (t.m + 1)
      simp; omega
    · have := daysInMonth_pos (t.y + 1) 1
      simp; omega

/-- the calendar successor is the next date in calendar order, with nothing in between -/
theorem nextDate_is_successor (t u : Date) (ht : t.valid = true) (hu : u.valid = true) :
    Date.lt t u ↔ (u = nextDate t ∨ Date.lt (nextDate t) u) := by
  obtain ⟨_, _, hm1, hm2, hd1, hd2⟩ := (valid_iff t).mp ht
  obtain ⟨_, _, um1, um2, ud1, ud2⟩ := (valid_iff u).mp hu
  have eqd : ∀ a b : Date, a = b ↔ (a.y = b.y ∧ a.m = b.m ∧ a.d = b.d) := by
    intro a b; cases a; cases b; simp
  unfold nextDate Date.lt
  split
  · rw [eqd]; simp only; omega
  · split
    · rw [eqd]; simp only
      constructor
      · intro h
        by_cases hy : t.y = u.y
        · by_cases hmm : t.m = u.m
          · have e : daysInMonth u.y u.m = daysInMonth t.y t.m := by rw [hy, hmm]
            omega
          · omega
        · omega
      · intro h
        by_cases hy : t.y = u.y
        · by_cases hmm : t.m = u.m
          · have e : daysInMonth u.y u.m = daysInMonth t.y t.m := by rw [hy, hmm]
            omega
          · omega
        · omega
    · rw [eqd]; simp only
      constructor
      · intro h
        by_cases hy : t.y = u.y
        · by_cases hmm : t.m = u.m
          · have e : daysInMonth u.y u.m = daysInMonth t.y t.m := by rw [hy, hmm]
            omega
          · omega
        · omega
      · intro h
        by_cases hy : t.y = u.y
        · by_cases hmm : t.m = u.m
          · have e : daysInMonth u.y u.m = daysInMonth t.y t.m := by rw [hy, hmm]
            omega
          · omega
        · omega

/-- **strict monotonicity**: calendar order is day-number order (on valid dates) -/
theorem epochDay_lt_of_lt {a b : Date} (ha : a.valid = true) (hb : b.valid = true) (h : Date.lt a b) :
    epochDay a < epochDay b := by
  obtain ⟨_, _, am1, am2, ad1, ad2⟩ := (valid_iff a).mp ha
  obtain ⟨_, _, bm1, bm2, bd1, bd2⟩ := (valid_iff b).mp hb
  unfold epochDay ordinal
  rcases h with h | ⟨hy, h | ⟨hm, hd⟩⟩
  · have := daysBeforeYear_lt h
    have := dayOfYear_le a.y am1 am2
    have := daysBeforeMonth_nonneg b.y b.m
    omega
  · have := daysBeforeMonth_lt a.y am1 h (by omega)
    have e1 : daysBeforeMonth b.y b.m = daysBeforeMonth a.y b.m := by rw [hy]
    have e2 : daysBeforeYear b.y = daysBeforeYear a.y := by rw [hy]
    omega
  · rw [hy, hm]; omega

theorem epochDay_injective {a b : Date} (ha : a.valid = true) (hb : b.valid = true)
    (h : epochDay a = epochDay b) : a = b := by
  have tri : Date.lt a b ∨ a = b ∨ Date.lt b a := by
    cases a with | mk ay am ad => cases b with | mk b_y b_m b_d =>
    simp only [Date.lt, Date.mk.injEq]; omega
  rcases tri with h1 | h1 | h1
  · have := epochDay_lt_of_lt ha hb h1; omega
  · exact h1
  · have := epochDay_lt_of_lt hb ha h1; omega

theorem epochDay_le_iff {a b : Date} (ha : a.valid = true) (hb : b.valid = true) :
    epochDay a ≤ epochDay b ↔ (a = b ∨ Date.lt a b) := by
  constructor
  · intro h
    have tri : Date.lt a b ∨ a = b ∨ Date.lt b a := by
      cases a with | mk ay am ad => cases b with | mk b_y b_m b_d =>
      simp only [Date.lt, Date.mk.injEq]; omega
    rcases tri with h1 | h1 | h1
    · exact Or.inr h1
    · exact Or.inl h1
    · have := epochDay_lt_of_lt hb ha h1; omega
  · rintro (h | h)
    · rw [h]; omega
    · have := epochDay_lt_of_lt ha hb h; omega

/-! ### weekday -/

theorem isoWeekday_range (n : Int) : 1 ≤ isoWeekday n ∧ isoWeekday n ≤ 7 := by
  unfold isoWeekday; omega

theorem isoWeekday_succ (n : Int) : isoWeekday (n + 1) = isoWeekday n % 7 + 1 := by
  unfold isoWeekday; omega

theorem isoWeekday_add_seven (n : Int) : isoWeekday (n + 7) = isoWeekday n := by
  unfold isoWeekday; omega

theorem isoWeekday_eq_iff (n k : Int) : isoWeekday n = isoWeekday k ↔ (n - k) % 7 = 0 := by
  unfold isoWeekday; omega

/-! ### the days of one year -/

theorem epochDay_yearEnd (y : Int) : epochDay ⟨y, 12, 31⟩ = epochDay ⟨y, 1, 1⟩ + yearLen y - 1 := by
  have := daysBeforeMonth_december y
  have h31 : daysInMonth y 12 = 31 := by simp [daysInMonth]
  have h0 : daysBeforeMonth y 1 = 0 := by simp [daysBeforeMonth]
  simp only [epochDay, ordinal]
  omega

/-- leap-day indicator used by the month tables -/
def leapInd (y : Int) : Int := if isLeap y then 1 else 0

theorem leapInd_cases (y : Int) : leapInd y = 0 ∨ leapInd y = 1 := by
  unfold leapInd; split <;> simp

theorem yearLen_eq (y : Int) : yearLen y = 365 + leapInd y := by
  unfold yearLen leapInd; split <;> rfl

theorem dbm_1 (y : Int) : daysBeforeMonth y 1 = 0 := by
  cases hl : isLeap y <;> simp [daysBeforeMonth, hl]

theorem dim_1 (y : Int) : daysInMonth y 1 = 31 := by
  simp [daysInMonth]

theorem dbm_2 (y : Int) : daysBeforeMonth y 2 = 31 := by
  cases hl : isLeap y <;> simp [daysBeforeMonth, hl]

theorem dim_2 (y : Int) : daysInMonth y 2 = 28 + leapInd y := by
  unfold leapInd; cases hl : isLeap y <;> simp [daysInMonth, hl]

theorem dbm_3 (y : Int) : daysBeforeMonth y 3 = 59 + leapInd y := by
  unfold leapInd; cases hl : isLeap y <;> simp [daysBeforeMonth, hl]

theorem dim_3 (y : Int) : daysInMonth y 3 = 31 := by
  simp [daysInMonth]

theorem dbm_4 (y : Int) : daysBeforeMonth y 4 = 90 + leapInd y := by
  unfold leapInd; cases hl : isLeap y <;> simp [daysBeforeMonth, hl]

theorem dim_4 (y : Int) : daysInMonth y 4 = 30 := by
  simp [daysInMonth]

theorem dbm_5 (y : Int) : daysBeforeMonth y 5 = 120 + leapInd y := by
  unfold leapInd; cases hl : isLeap y <;> simp [daysBeforeMonth, hl]

theorem dim_5 (y : Int) : daysInMonth y 5 = 31 := by
  simp [daysInMonth]

theorem dbm_6 (y : Int) : daysBeforeMonth y 6 = 151 + leapInd y := by
  unfold leapInd; cases hl : isLeap y <;> simp [daysBeforeMonth, hl]

theorem dim_6 (y : Int) : daysInMonth y 6 = 30 := by
  simp [daysInMonth]

theorem dbm_7 (y : Int) : daysBeforeMonth y 7 = 181 + leapInd y := by
  unfold leapInd; cases hl : isLeap y <;> simp [daysBeforeMonth, hl]

theorem dim_7 (y : Int) : daysInMonth y 7 = 31 := by
  simp [daysInMonth]

theorem dbm_8 (y : Int) : daysBeforeMonth y 8 = 212 + leapInd y := by
  unfold leapInd; cases hl : isLeap y <;> simp [daysBeforeMonth, hl]

theorem dim_8 (y : Int) : daysInMonth y 8 = 31 := by
  simp [daysInMonth]

theorem dbm_9 (y : Int) : daysBeforeMonth y 9 = 243 + leapInd y := by
  unfold leapInd; cases hl : isLeap y <;> simp [daysBeforeMonth, hl]

theorem dim_9 (y : Int) : daysInMonth y 9 = 30 := by
  simp [daysInMonth]

theorem dbm_10 (y : Int) : daysBeforeMonth y 10 = 273 + leapInd y := by
  unfold leapInd; cases hl : isLeap y <;> simp [daysBeforeMonth, hl]

theorem dim_10 (y : Int) : daysInMonth y 10 = 31 := by
  simp [daysInMonth]

theorem dbm_11 (y : Int) : daysBeforeMonth y 11 = 304 + leapInd y := by
  unfold leapInd; cases hl : isLeap y <;> simp [daysBeforeMonth, hl]

theorem dim_11 (y : Int) : daysInMonth y 11 = 30 := by
  simp [daysInMonth]

theorem dbm_12 (y : Int) : daysBeforeMonth y 12 = 334 + leapInd y := by
  unfold leapInd; cases hl : isLeap y <;> simp [daysBeforeMonth, hl]

theorem dim_12 (y : Int) : daysInMonth y 12 = 31 := by
  simp [daysInMonth]

theorem dateOfYearDay_shape (y k : Int) (h0 : 0 ≤ k) (h1 : k < yearLen y) :
    ∃ m d : Int, dateOfYearDay y k = ⟨y, m, d⟩ ∧ 1 ≤ m ∧ m ≤ 12 ∧ 1 ≤ d ∧ d ≤ daysInMonth y m ∧
      daysBeforeMonth y m + d = k + 1 := by
  rw [yearLen_eq] at h1
  have hl := leapInd_cases y
  have hdef : dateOfYearDay y k =
      (let l : Int := leapInd y
       if k < 31 then ⟨y, 1, k + 1⟩
       else if k < 59 + l then ⟨y, 2, k - 30⟩
       else if k < 90 + l then ⟨y, 3, k - (58 + l)⟩
       else if k < 120 + l then ⟨y, 4, k - (89 + l)⟩
       else if k < 151 + l then ⟨y, 5, k - (119 + l)⟩
       else if k < 181 + l then ⟨y, 6, k - (150 + l)⟩
       else if k < 212 + l then ⟨y, 7, k - (180 + l)⟩
       else if k < 243 + l then ⟨y, 8, k - (211 + l)⟩
       else if k < 273 + l then ⟨y, 9, k - (242 + l)⟩
       else if k < 304 + l then ⟨y, 10, k - (272 + l)⟩
       else if k < 334 + l then ⟨y, 11, k - (303 + l)⟩
       else ⟨y, 12, k - (333 + l)⟩) := rfl
  rw [hdef]
  simp only
  by_cases c1 : k < 31
  · rw [if_pos c1]; exact ⟨_, _, rfl, by rw [dim_1, dbm_1]; omega⟩
  rw [if_neg c1]
  by_cases c2 : k < 59 + leapInd y
  · rw [if_pos c2]; exact ⟨_, _, rfl, by rw [dim_2, dbm_2]; omega⟩
  rw [if_neg c2]
  by_cases c3 : k < 90 + leapInd y
  · rw [if_pos c3]; exact ⟨_, _, rfl, by rw [dim_3, dbm_3]; omega⟩
  rw [if_neg c3]
  by_cases c4 : k < 120 + leapInd y
  · rw [if_pos c4]; exact ⟨_, _, rfl, by rw [dim_4, dbm_4]; omega⟩
  rw [if_neg c4]
  by_cases c5 : k < 151 + leapInd y
  · rw [if_pos c5]; exact ⟨_, _, rfl, by rw [dim_5, dbm_5]; omega⟩
  rw [if_neg c5]
  by_cases c6 : k < 181 + leapInd y
  · rw [if_pos c6]; exact ⟨_, _, rfl, by rw [dim_6, dbm_6]; omega⟩
  rw [if_neg c6]
  by_cases c7 : k < 212 + leapInd y
  · rw [if_pos c7]; exact ⟨_, _, rfl, by rw [dim_7, dbm_7]; omega⟩
  rw [if_neg c7]
  by_cases c8 : k < 243 + leapInd y
  · rw [if_pos c8]; exact ⟨_, _, rfl, by rw [dim_8, dbm_8]; omega⟩
  rw [if_neg c8]
  by_cases c9 : k < 273 + leapInd y
  · rw [if_pos c9]; exact ⟨_, _, rfl, by rw [dim_9, dbm_9]; omega⟩
  rw [if_neg c9]
  by_cases c10 : k < 304 + leapInd y
  · rw [if_pos c10]; exact ⟨_, _, rfl, by rw [dim_10, dbm_10]; omega⟩
  rw [if_neg c10]
  by_cases c11 : k < 334 + leapInd y
  · rw [if_pos c11]; exact ⟨_, _, rfl, by rw [dim_11, dbm_11]; omega⟩
  rw [if_neg c11]
  exact ⟨_, _, rfl, by rw [dim_12, dbm_12]; omega⟩

theorem dateOfYearDay_spec (y k : Int) (hy1 : 1 ≤ y) (hy2 : y ≤ 9999) (h0 : 0 ≤ k) (h1 : k < yearLen y) :
    (dateOfYearDay y k).valid = true ∧ (dateOfYearDay y k).y = y ∧
      epochDay (dateOfYearDay y k) = epochDay ⟨y, 1, 1⟩ + k := by
  obtain ⟨m, d, e, hm1, hm2, hd1, hd2, hk⟩ := dateOfYearDay_shape y k h0 h1
  rw [e]
  refine ⟨?_, rfl, ?_⟩
  · rw [valid_iff]; simp only; omega
  · have h0 : daysBeforeMonth y 1 = 0 := by simp [daysBeforeMonth]
    simp only [epochDay, ordinal]; omega

end Aeic.Schedule
