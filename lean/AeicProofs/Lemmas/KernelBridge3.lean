/-
  Kernel bridge, part 3: *loop bodies*.  The symbolic translator evaluates ONE generic iteration of the level-change loop
  (`LegacyBuilder._fly_level_change`) and of the cruise loop (`LegacyBuilder.fly_cruise`) of
  `trajectories/builders/legacy.py`, from an arbitrary loop state: the running point `pt` and the performance records
  `perf` / `perf_end` are read from the attribute environment, the ground speed of the iteration is an input (it is the only
  value the weather may change).  Here the generated definitions are proved equal, over ℝ, to the step functions of the
  hand-written model (`Builder.lvlNext`, `Builder.crzNext`), whose folds (`levelSteps`, `cruiseSteps`) the flight theorems of
  C02 are about.  Helper lemmas only.
-/
import AeicProofs.RealInst
import AeicModel.Generated.Kernels
import AeicModel.Builder

set_option linter.unusedTactic false
set_option linter.unreachableTactic false
set_option linter.unusedSimpArgs false
set_option linter.unusedVariables false

namespace KernelBridge3
open Aeic Aeic.Builder

/-- `x**2` of the model (`pow x 2`) is `x * x`, which is how the translator reads `x**2` -/
theorem sq_real (x : ℝ) : Builder.sq x = x * x := by
  unfold Builder.sq
  show x ^ (((2 : ℤ) : ℝ) / (10 : ℝ) ^ 0) = x * x
  norm_num
  exact sq x

/-- attribute environment of one iteration of the level-change loop: the running point, the performance at the start and at
    the end of the segment, the builder's heating value -/
def lvlEnv (pt : Pt ℝ) (p pe : Perf ℝ) (lhv : ℝ) : String → ℝ := fun k =>
  if k = "perf.rate_of_climb" then p.roc else if k = "perf.fuel_flow" then p.ff
  else if k = "perf.true_airspeed" then p.tas else if k = "perf_end.true_airspeed" then pe.tas
  else if k = "pt.aircraft_mass" then pt.mass else if k = "pt.fuel_mass" then pt.fuel
  else if k = "pt.ground_distance" then pt.gd else if k = "pt.flight_time" then pt.time
  else if k = "self.fuel_LHV" then lhv else 0

macro "lvl_close" : tactic =>
  `(tactic| (simp only [lvlNext, lvlAppended, lvlSnap, lvlSegFuel, lvlDist, lvlFwd, lvlEnv, String.reduceEq, if_true, if_false,
      sq_real, lit_real, zero_real] <;> norm_num))

/-- one iteration of the level-change loop as the source text says it = the model's `lvlNext` (ground speed = the forward
    true airspeed, i.e. weather off), for every running point, performance pair, altitude step and heating value -/
theorem level_step (pt : Pt ℝ) (alt : ℝ) (p pe : Perf ℝ) (g : Pos ℝ) (delta lhv i s : ℝ) :
    Kern.lvl_step_fuel_mass (lvlEnv pt p pe lhv) i s delta (lvlFwd p) = (lvlNext pt alt p pe g delta lhv).fuel ∧
    Kern.lvl_step_aircraft_mass (lvlEnv pt p pe lhv) i s delta (lvlFwd p) = (lvlNext pt alt p pe g delta lhv).mass ∧
    Kern.lvl_step_ground_distance (lvlEnv pt p pe lhv) i s delta (lvlFwd p) = (lvlNext pt alt p pe g delta lhv).gd ∧
    Kern.lvl_step_flight_time (lvlEnv pt p pe lhv) i s delta (lvlFwd p) = (lvlNext pt alt p pe g delta lhv).time ∧
    Kern.lvl_step_seg_fuel (lvlEnv pt p pe lhv) i s delta (lvlFwd p) = lvlSegFuel pt p pe delta lhv ∧
    Kern.lvl_step_ground_speed_still_air (lvlEnv pt p pe lhv) i s delta = (lvlNext pt alt p pe g delta lhv).gs := by
  refine ⟨?_, ?_, ?_, ?_, ?_, ?_⟩ <;>
    (simp only [Kern.lvl_step_fuel_mass, Kern.lvl_step_aircraft_mass, Kern.lvl_step_ground_distance, Kern.lvl_step_flight_time,
      Kern.lvl_step_seg_fuel, Kern.lvl_step_ground_speed_still_air] <;> lvl_close)

/-- the altitude the `i`-th iteration assigns -/
theorem level_altitude (A : String → ℝ) (i s delta gs : ℝ) :
    Kern.lvl_step_altitude A i s delta gs = s + i * delta := by
  simp only [Kern.lvl_step_altitude]

/-- attribute environment of one iteration of the cruise loop -/
def crzEnv (pt : Pt ℝ) (p : Perf ℝ) : String → ℝ := fun k =>
  if k = "perf.fuel_flow" then p.ff else if k = "perf.true_airspeed" then p.tas
  else if k = "pt.aircraft_mass" then pt.mass else if k = "pt.fuel_mass" then pt.fuel
  else if k = "pt.ground_distance" then pt.gd else if k = "pt.flight_time" then pt.time
  else if k = "pt.true_airspeed" then pt.tas else 0

macro "crz_close" : tactic =>
  `(tactic| (simp only [crzNext, crzAppended, crzEnv, String.reduceEq, if_true, if_false, lit_real, zero_real] <;> norm_num))

/-- one iteration of the cruise loop as the source text says it = the model's `crzNext` (ground speed = true airspeed of the
    running point, i.e. weather off) -/
theorem cruise_step (pt : Pt ℝ) (step : ℝ) (p : Perf ℝ) (g : Pos ℝ) :
    Kern.crz_step_fuel_mass (crzEnv pt p) step pt.tas = (crzNext pt step p g).fuel ∧
    Kern.crz_step_aircraft_mass (crzEnv pt p) step pt.tas = (crzNext pt step p g).mass ∧
    Kern.crz_step_ground_distance (crzEnv pt p) step pt.tas = (crzNext pt step p g).gd ∧
    Kern.crz_step_flight_time (crzEnv pt p) step pt.tas = (crzNext pt step p g).time ∧
    Kern.crz_step_true_airspeed (crzEnv pt p) step pt.tas = (crzNext pt step p g).tas ∧
    Kern.crz_step_ground_speed_still_air (crzEnv pt p) step = (crzNext pt step p g).gs := by
  refine ⟨?_, ?_, ?_, ?_, ?_, ?_⟩ <;>
    (simp only [Kern.crz_step_fuel_mass, Kern.crz_step_aircraft_mass, Kern.crz_step_ground_distance, Kern.crz_step_flight_time,
      Kern.crz_step_true_airspeed, Kern.crz_step_ground_speed_still_air] <;> crz_close)

/-! ## mass iteration of the builder base class (`trajectories/builders/base.py`) -/

/-- attribute environment of the builder during a flight: starting mass and trip fuel of the current iterate -/
def iterEnv (sm tfm : ℝ) : String → ℝ := fun k =>
  if k = "self.starting_mass" then sm else if k = "self.total_fuel_mass" then tfm else 0

/-- the residual `_fly_iteration` returns and the correction one pass of the `while` loop of `_iterate_mass` applies, as the source
    text says them: the residual of the model's `flyIteration` and the `sm'`, `tfm'` of its `iterLoop` -/
theorem iterate_mass (sm tfm res finalMass : ℝ) :
    Kern.iter_mass_residual (iterEnv sm tfm) finalMass = (tfm - (sm - finalMass)) / tfm ∧
    Kern.iter_correct_starting_mass (iterEnv sm tfm) res = sm - res * tfm ∧
    Kern.iter_correct_total_fuel_mass (iterEnv sm tfm) res = tfm - res * tfm := by
  refine ⟨?_, ?_, ?_⟩ <;>
    simp only [Kern.iter_mass_residual, Kern.iter_correct_starting_mass, Kern.iter_correct_total_fuel_mass, iterEnv,
      String.reduceEq, if_true, if_false]

end KernelBridge3
