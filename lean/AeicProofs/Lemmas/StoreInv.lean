/- World invariant and abstraction function for the store model (helper definitions and lemmas). -/
import AeicProofs.Lemmas.StoreCache

namespace Aeic.Store

structure SessInv (d : Disk) (s : Sess) : Prop where
  noEvict : s.cache.noEvict = s.mem
  small : ∀ k it, (k, it) ∈ s.cache.entries → it.bytes ≤ s.cache.maxBytes
  memShape : s.mem = true → s.linked = false ∧ s.pending = false ∧ s.mode = .create ∧
      s.cache.entries.map (·.1) = List.range s.nextIndex
  memSchema : s.mem = true → (s.cache.entries = [] → s.indexable = none) ∧
      (∀ e rest, s.cache.entries = e :: rest →
        ∃ b, s.indexable = some b ∧ ∀ x ∈ s.cache.entries, x.2.fs = e.2.fs ∧ x.2.fid.isSome = b)
  fileShape : s.mem = false → s.linked = d.present ∧ s.pending = !s.linked
  pendingShape : s.mem = false → s.linked = false →
      s.mode = .create ∧ s.cache.entries = [] ∧ s.nextIndex = 0 ∧ s.indexable = none
  linkedShape : s.mem = false → s.linked = true →
      (∀ k it, (k, it) ∈ s.cache.entries → d.items[k]? = some it) ∧
      (s.mode ≠ .read → s.nextIndex = d.items.length) ∧ s.indexable = some d.hasIndex

structure DiskInv (d : Disk) : Prop where
  absent : d.present = false → d.items = []
  uniform : ∀ it ∈ d.items, it.fs = d.fs ∧ it.fid.isSome = d.hasIndex

def IndexOk (w : World) : Prop :=
  w.disk.hasIndex = true → (∀ s, w.sess = some s → s.linked = true → s.stale = false) →
    w.disk.index = buildIndex w.disk.items

/-- An indexable in-memory store that holds trajectories has a stale index (nothing has indexed them yet): this is what
    makes `save` followed by a lookup rebuild the index of the new file. -/
def MemStale (w : World) : Prop :=
  ∀ s, w.sess = some s → s.mem = true → s.indexable = some true → s.cache.entries ≠ [] → s.stale = true

structure WInv (w : World) : Prop where
  disk : DiskInv w.disk
  sess : ∀ s, w.sess = some s → SessInv w.disk s
  index : IndexOk w
  memStale : MemStale w

theorem MemStale.of_none {w : World} (h : w.sess = none) : MemStale w := by
  intro s hs; rw [h] at hs; cases hs

theorem MemStale.of_not_mem {d : Disk} {s : Sess} (h : s.mem = false) : MemStale ⟨d, some s⟩ := by
  intro s' hs' hm; cases hs'; rw [h] at hm; cases hm

def absSchema (d : Disk) (s : Sess) : Option (Nat × Bool) :=
  match s.indexable with
  | none => none
  | some b => some (if s.linked then d.fs else (match s.cache.entries with | [] => 0 | e :: _ => e.2.fs), b)

def absSess (d : Disk) (s : Sess) : SpecSess := ⟨s.mode, s.mem, s.cache.maxBytes, absSchema d s⟩

def absW (w : World) : Spec :=
  { present := w.disk.present
    fileItems := w.disk.items
    fileSchema := if w.disk.present then some (w.disk.fs, w.disk.hasIndex) else none
    memItems := match w.sess with
      | some s => if s.mem then s.cache.entries.map (·.2) else []
      | none => []
    sess := w.sess.map (absSess w.disk) }

theorem init_inv : WInv World.init := by
  refine ⟨⟨by simp [World.init, Disk.absent], by simp [World.init, Disk.absent]⟩, by simp [World.init], ?_,
    MemStale.of_none rfl⟩
  simp [IndexOk, World.init, Disk.absent]

theorem abs_init : absW World.init = Spec.init := by
  simp [absW, World.init, Spec.init, Disk.absent]

/-! ### closing a session -/

theorem closeSess_disk_items (w : World) : (closeSess w).disk.items = w.disk.items ∧
    (closeSess w).disk.present = w.disk.present ∧ (closeSess w).disk.fs = w.disk.fs ∧
    (closeSess w).disk.hasIndex = w.disk.hasIndex ∧ (closeSess w).sess = none := by
  unfold closeSess
  split
  · rename_i h; simp [h]
  · simp only; split <;> simp

theorem closeSess_inv (w : World) (h : WInv w) : WInv (closeSess w) := by
  obtain ⟨hi, hp, hf, hx, hs⟩ := closeSess_disk_items w
  refine ⟨⟨?_, ?_⟩, ?_, ?_, MemStale.of_none hs⟩
  · rw [hp, hi]; exact h.disk.absent
  · rw [hi, hf, hx]; exact h.disk.uniform
  · intro s hs'; rw [hs] at hs'; cases hs'
  · intro hidx _
    rw [hx] at hidx
    unfold closeSess
    cases hw : w.sess with
    | none =>
      simp only
      exact h.index hidx (by intro s hs'; rw [hw] at hs'; cases hs')
    | some s =>
      simp only
      split
      · rfl
      · rename_i hc
        apply h.index hidx
        intro s' hs' hl
        rw [hw] at hs'; cases hs'
        have hsi := h.sess s hw
        by_cases hm : s.mem = true
        · have := (hsi.memShape hm).1; rw [this] at hl; cases hl
        · have hm' : s.mem = false := by simpa using hm
          have hix := (hsi.linkedShape hm' hl).2.2
          rw [hidx] at hix
          simp [hix, hl] at hc
          exact hc

theorem abs_closeSess (w : World) : absW (closeSess w) = specClose (absW w) := by
  obtain ⟨hi, hp, hf, hx, hs⟩ := closeSess_disk_items w
  simp [absW, specClose, hi, hp, hf, hx, hs]

end Aeic.Store
