/-
  Helper lemmas for C03 (trajectory-store codec): the species row written by `spRow` and filtered by
  the reader is the original mapping; field / row round trips.
-/
import AeicModel.StoreCodec
import Mathlib.Data.List.Sort
import Mathlib.Data.List.Perm.Subperm

namespace Aeic.StoreCodec
open List

section
variable {β : Type}

theorem lookup_eq_none_of_not_mem_keys (s : Nat) (mp : List (Nat × β)) (h : s ∉ keys mp) :
    mp.lookup s = none := by
  induction mp with
  | nil => rfl
  | cons p mp ih =>
    obtain ⟨k, x⟩ := p
    simp only [keys, map_cons, mem_cons, not_or] at h
    have hk : (s == k) = false := by simpa using h.1
    simp only [List.lookup, hk]
    exact ih (by simpa [keys] using h.2)

/-- slots of the species that the mapping does not hold are blank -/
theorem spRow_of_keys_nil (L : List Nat) (blank : β) :
    spRow L blank ([] : List (Nat × β)) = L.map (fun _ => blank) := by
  simp [spRow, List.lookup]

/-- Writing a mapping whose keys form a sublist of the (duplicate-free) file species list into one slot
    per file species and keeping the slots that pass `P` (= "was written") gives the mapping back,
    provided blank slots fail `P` and every stored value passes it. -/
theorem filter_zip_spRow (P : β → Bool) (blank : β) (hblank : P blank = false) :
    ∀ (L : List Nat) (mp : List (Nat × β)), L.Nodup → (keys mp).Sublist L →
      (∀ p ∈ mp, P p.2 = true) →
      (L.zip (spRow L blank mp)).filter (fun p => P p.2) = mp := by
  intro L
  induction L with
  | nil =>
    intro mp _ hsub _
    have : keys mp = [] := by simpa using hsub
    have : mp = [] := by simpa [keys] using this
    subst this; rfl
  | cons s L ih =>
    intro mp hnd hsub hv
    have hsL : s ∉ L := (List.nodup_cons.mp hnd).1
    have hndL : L.Nodup := (List.nodup_cons.mp hnd).2
    -- the tail of the row only depends on lookups of species ≠ s
    cases mp with
    | nil =>
      have := ih [] hndL (by simp [keys]) (by simp)
      simp only [spRow, List.lookup, Option.getD_none, map_cons, zip_cons_cons, filter_cons, hblank] at this ⊢
      simpa using this
    | cons p mp =>
      obtain ⟨k, x⟩ := p
      simp only [keys, map_cons] at hsub
      cases hsub with
      | cons _ hsub' =>
        -- s is skipped: s is not a key of the mapping
        have hkeys : (keys ((k, x) :: mp)).Sublist L := by simpa [keys] using hsub'
        have hs : s ∉ keys ((k, x) :: mp) := fun hmem => hsL (hkeys.subset hmem)
        have hlook := lookup_eq_none_of_not_mem_keys s ((k, x) :: mp) hs
        have := ih ((k, x) :: mp) hndL hkeys hv
        simp only [spRow, map_cons, zip_cons_cons, filter_cons, hlook, Option.getD_none, hblank]
        simpa [spRow] using this
      | cons_cons _ hsub' =>
        -- s is the first key
        have hx : P x = true := hv (s, x) (by simp)
        have hv' : ∀ p ∈ mp, P p.2 = true := fun p hp => hv p (by simp [hp])
        have hrow : spRow L blank ((s, x) :: mp) = spRow L blank mp := by
          unfold spRow
          apply List.map_congr_left
          intro t ht
          have htk : (t == s) = false := by
            have : t ≠ s := fun h => hsL (h ▸ ht)
            simpa using this
          simp [List.lookup, htk]
        have hcons : spRow (s :: L) blank ((s, x) :: mp) = x :: spRow L blank mp := by
          rw [← hrow]; simp [spRow, List.lookup]
        have := ih mp hndL (by simpa [keys] using hsub') hv'
        rw [hcons]
        simp [hx, this]

end

section
variable {ν : Type} [DecidableEq ν]

theorem allUnset_replicate (m : FieldMeta ν) (h : m.unsetMark = some m.blank) (n : Nat) :
    allUnset m (List.replicate n m.blank) = true := by
  simp [allUnset, isUnset, h]

theorem isUnset_blank (m : FieldMeta ν) (h : m.unsetMark = some m.blank) : isUnset m m.blank = true := by
  simp [isUnset, h]

theorem allUnset_nil (m : FieldMeta ν) : allUnset m [] = true := by simp [allUnset]

/-- all keys of a sublist of `L` are in `L` (the writer's membership test succeeds) -/
theorem inFile_of_sublist {β : Type} (L : List Nat) (mp : List (Nat × β)) (h : (keys mp).Sublist L) :
    (keys mp).all (fun s => L.contains s) = true := by
  simp only [List.all_eq_true, List.contains_iff_mem]
  intro s hs
  exact h.subset hs

end

/-! ### example data for the non-vacuity examples of `Properties/C03.lean` (a trajectory like the tests' `complex_extras`) -/

def exMetaS : FieldMeta String := ⟨.TS, true, "F", some "F"⟩
def exMetaSP : FieldMeta String := ⟨.TSP, true, "F", none⟩
def exMetaTM : FieldMeta String := ⟨.TM, false, "F", some "F"⟩
def exMetaT : FieldMeta String := ⟨.T, false, "F", some "F"⟩
def exMetas : List (FieldMeta String) := [exMetaS, exMetaSP, exMetaTM, exMetaT, ⟨.TP, true, "F", none⟩, ⟨.TSM, true, "F", some "F"⟩]
/-- species {CO2, HC} in one field, {HC} in another, a gap in the enum, an unset optional field -/
def exVals : List (FVal String) :=
  [.sp (some [(0, "1.5"), (2, "2.5")]), .spPts (some [(2, ["a", "b"])]), .tm none, .scalar none,
   .points (some ["p", "q"]), .spTm (some [(0, ["1", "2", "3", "4"])])]


end Aeic.StoreCodec
