/- deep_update lemmas (helper). -/
import Mathlib.Tactic.SplitIfs
import AeicModel.Config

namespace Aeic.Config

theorem getKey_setKey_self (l : List (String × Tree)) (k : String) (t : Tree) : getKey (setKey l k t) k = some t := by
  induction l with
  | nil => simp [setKey, getKey]
  | cons p rest ih =>
    obtain ⟨k', t'⟩ := p
    simp only [setKey]
    split_ifs with h
    · simp [getKey]
    · simp [getKey, h, ih]

theorem getKey_setKey_other (l : List (String × Tree)) (k k2 : String) (t : Tree) (h : k2 ≠ k) :
    getKey (setKey l k t) k2 = getKey l k2 := by
  induction l with
  | nil => simp [setKey, getKey, h.symm]
  | cons p rest ih =>
    obtain ⟨k', t'⟩ := p
    simp only [setKey]
    split_ifs with h1
    · subst h1; simp [getKey, h.symm]
    · simp only [getKey]; split_ifs <;> simp_all

theorem getKey_none_of_not_mem (l : List (String × Tree)) (k : String) (h : k ∉ l.map (·.1)) : getKey l k = none := by
  induction l with
  | nil => rfl
  | cons p rest ih =>
    obtain ⟨k', t'⟩ := p
    simp only [List.map_cons, List.mem_cons, not_or] at h
    simp [getKey, Ne.symm h.1, ih h.2]

/-- what one step of the overlay loop stores under key `k` -/
def merged1 (b : Option Tree) (v : Tree) : Tree :=
  match b, v with
  | some (.node bk), .node ok => .node (deepUpdate bk ok)
  | _, _ => v

/-- single-level characterisation of `deep_update` (overlay keys distinct, as in a Python dict) -/
theorem getKey_deepUpdate (o : List (String × Tree)) :
    ∀ (b : List (String × Tree)) (k : String), (o.map (·.1)).Nodup →
      getKey (deepUpdate b o) k = match getKey o k with
        | none => getKey b k
        | some v => some (merged1 (getKey b k) v) := by
  induction o with
  | nil => intro b k _; simp [deepUpdate, getKey]
  | cons p rest ih =>
    intro b k hnd
    obtain ⟨k0, v0⟩ := p
    simp only [List.map_cons, List.nodup_cons] at hnd
    have hstep : deepUpdate b ((k0, v0) :: rest) = deepUpdate (setKey b k0 (merged1 (getKey b k0) v0)) rest := by
      conv => lhs; rw [deepUpdate.eq_def]
      simp only []
      congr 1
      unfold merged1
      split <;> simp_all
    rw [hstep, ih _ k hnd.2]
    by_cases hk : k0 = k
    · subst hk
      rw [getKey_none_of_not_mem rest k0 hnd.1]
      simp [getKey, getKey_setKey_self]
    · have hk' : k ≠ k0 := fun h => hk h.symm
      simp only [getKey, hk, if_false]
      rw [getKey_setKey_other _ _ _ _ hk']

end Aeic.Config
