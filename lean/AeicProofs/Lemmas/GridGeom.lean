/-
  Two axes together: where the segment meets the lines of one axis, the other coordinate lies between the
  segment's end coordinates; hence both coordinate chains are monotone and the 1-D piece theorem applies.
-/
import AeicProofs.Lemmas.GridCoord

namespace Aeic.Grid

open Aeic

theorem slopeInf_real (s : Seg ℝ) : slopeInf s = true ↔ s.lat1 = s.lat0 := by
  unfold slopeInf
  rw [Bool.not_eq_true', nonzero_real_false, sub_eq_zero]

theorem slopeInf_real_false (s : Seg ℝ) : slopeInf s = false ↔ s.lat1 ≠ s.lat0 := by
  rw [← Bool.not_eq_true, slopeInf_real]

/-- longitude at which a latitude line between the end latitudes is met lies between the end longitudes -/
theorem lonForLat_between (s : Seg ℝ) (l : ℝ)
    (hl : (s.lat0 ≤ l ∧ l < s.lat1) ∨ (s.lat1 ≤ l ∧ l < s.lat0)) :
    Between s.lon0 s.lon1 (lonForLat s l) := by
  have hne : s.lat1 - s.lat0 ≠ 0 := by
    rcases hl with ⟨a, b⟩ | ⟨a, b⟩
    · exact sub_ne_zero.2 (ne_of_gt (lt_of_le_of_lt a b))
    · exact sub_ne_zero.2 (ne_of_lt (lt_of_le_of_lt a b))
  have key : lonForLat s l = s.lon0 + (s.lon1 - s.lon0) * ((l - s.lat0) / (s.lat1 - s.lat0)) := by
    unfold lonForLat lineIcpt lineSlope
    field_simp
    ring
  have ht : 0 ≤ (l - s.lat0) / (s.lat1 - s.lat0) ∧ (l - s.lat0) / (s.lat1 - s.lat0) ≤ 1 := by
    rcases hl with ⟨a, b⟩ | ⟨a, b⟩
    · have hpos : 0 < s.lat1 - s.lat0 := by linarith
      exact ⟨div_nonneg (by linarith) hpos.le, by rw [div_le_one hpos]; linarith⟩
    · have hneg : s.lat1 - s.lat0 < 0 := by linarith
      exact ⟨div_nonneg_of_nonpos (by linarith) hneg.le, by rw [div_le_one_of_neg hneg]; linarith⟩
  rw [key]
  unfold Between
  rcases le_total s.lon0 s.lon1 with h | h
  · left; constructor <;> nlinarith [ht.1, ht.2]
  · right; constructor <;> nlinarith [ht.1, ht.2]

/-- latitude at which a longitude line between the end longitudes is met lies between the end latitudes -/
theorem latForLon_between (s : Seg ℝ) (m : ℝ)
    (hm : (s.lon0 ≤ m ∧ m < s.lon1) ∨ (s.lon1 ≤ m ∧ m < s.lon0)) :
    Between s.lat0 s.lat1 (latForLon s m) := by
  unfold latForLon
  by_cases hinf : slopeInf s = true
  · rw [if_pos hinf]
    have := (slopeInf_real s).1 hinf
    left; rw [this]; exact ⟨le_rfl, le_rfl⟩
  · rw [if_neg hinf]
    have hlat : s.lat1 - s.lat0 ≠ 0 :=
      sub_ne_zero.2 ((slopeInf_real_false s).1 (by simpa using hinf))
    have hne : s.lon1 - s.lon0 ≠ 0 := by
      rcases hm with ⟨a, b⟩ | ⟨a, b⟩
      · exact sub_ne_zero.2 (ne_of_gt (lt_of_le_of_lt a b))
      · exact sub_ne_zero.2 (ne_of_lt (lt_of_le_of_lt a b))
    have key : (m - lineIcpt s) / lineSlope s
        = s.lat0 + (s.lat1 - s.lat0) * ((m - s.lon0) / (s.lon1 - s.lon0)) := by
      unfold lineIcpt lineSlope
      field_simp
      ring
    have ht : 0 ≤ (m - s.lon0) / (s.lon1 - s.lon0) ∧ (m - s.lon0) / (s.lon1 - s.lon0) ≤ 1 := by
      rcases hm with ⟨a, b⟩ | ⟨a, b⟩
      · have hpos : 0 < s.lon1 - s.lon0 := by linarith
        exact ⟨div_nonneg (by linarith) hpos.le, by rw [div_le_one hpos]; linarith⟩
      · have hneg : s.lon1 - s.lon0 < 0 := by linarith
        exact ⟨div_nonneg_of_nonpos (by linarith) hneg.le, by rw [div_le_one_of_neg hneg]; linarith⟩
    rw [key]
    unfold Between
    rcases le_total s.lat0 s.lat1 with h | h
    · left; constructor <;> nlinarith [ht.1, ht.2]
    · right; constructor <;> nlinarith [ht.1, ht.2]

theorem extra_lat_between (glon : List ℝ) (hs : glon.Pairwise (· < ·)) (s : Seg ℝ) :
    ∀ e ∈ (lonLines glon s).map (latForLon s), Between s.lat0 s.lat1 e := by
  intro e he
  obtain ⟨m, hm, rfl⟩ := List.mem_map.1 he
  exact latForLon_between s m ((mem_coordLines glon hs s.lon0 s.lon1 m).1 hm).2

theorem extra_lon_between (glat : List ℝ) (hs : glat.Pairwise (· < ·)) (s : Seg ℝ) :
    ∀ e ∈ (latLines glat s).map (lonForLat s), Between s.lon0 s.lon1 e := by
  intro e he
  obtain ⟨l, hl, rfl⟩ := List.mem_map.1 he
  exact lonForLat_between s l ((mem_coordLines glat hs s.lat0 s.lat1 l).1 hl).2

theorem latIdxs_eq (glat glon : List ℝ) (s : Seg ℝ) :
    latIdxs glat glon s = coordIdxs glat s.lat0 s.lat1 (intLats glat glon s)
      (decide ((intLats glat glon s).length = 0)) := by
  rw [length_intLats]; rfl

theorem lonIdxs_eq (glat glon : List ℝ) (s : Seg ℝ) :
    lonIdxs glat glon s = coordIdxs glon s.lon0 s.lon1 (intLons glat glon s)
      (decide ((intLons glat glon s).length = 0)) := by
  rw [length_intLons]; rfl

/-- latitude axis of the model: inside the `k`-th piece the latitude cell is the `k`-th reported index -/
theorem lat_piece_in_one_cell (glat glon : List ℝ) (hlat : glat.Pairwise (· < ·))
    (hlon : glon.Pairwise (· < ·)) (s : Seg ℝ) (p : (ℝ × ℝ) × Int)
    (hp : p ∈ (pairs (chainLat glat glon s)).zip (latIdxs glat glon s))
    (x : ℝ) (hx : StrictlyBetween p.1.1 p.1.2 x) : cellIdx glat x = p.2 := by
  rw [latIdxs_eq] at hp
  exact coord_piece_in_one_cell glat hlat s.lat0 s.lat1 _ (extra_lat_between glon hlon s) p hp x hx

/-- longitude axis of the model -/
theorem lon_piece_in_one_cell (glat glon : List ℝ) (hlat : glat.Pairwise (· < ·))
    (hlon : glon.Pairwise (· < ·)) (s : Seg ℝ) (p : (ℝ × ℝ) × Int)
    (hp : p ∈ (pairs (chainLon glat glon s)).zip (lonIdxs glat glon s))
    (y : ℝ) (hy : StrictlyBetween p.1.1 p.1.2 y) : cellIdx glon y = p.2 := by
  rw [lonIdxs_eq] at hp
  exact coord_piece_in_one_cell glon hlon s.lon0 s.lon1 _ (extra_lon_between glat hlat s) p hp y hy

end Aeic.Grid

namespace Aeic.Grid

open Aeic

/-! ### segments along a parallel or a meridian: the constant coordinate keeps one cell index -/

theorem linesCrossed_self (i : Int) : linesCrossed i i = [] := by
  simp [linesCrossed]

theorem mids_const (c : ℝ) (l : List ℝ) (h : ∀ e ∈ l, e = c) : ∀ m ∈ mids l, m = c := by
  intro m hm
  unfold mids at hm
  obtain ⟨p, hp, rfl⟩ := List.mem_map.1 hm
  have h1 := h p.1 (mem_pairs_left (b := p.2) hp)
  have h2 := h p.2 (mem_pairs_right (a := p.1) hp)
  rw [h1, h2]; simp only [lit_real]; norm_num

theorem coordIdxs_const (g : List ℝ) (x0 x1 : ℝ) (h : x1 = x0) (extra : List ℝ) (hex : ∀ e ∈ extra, e = x0)
    (single : Bool) : ∀ i ∈ coordIdxs g x0 x1 (coordInts g x0 x1 extra) single, i = cellIdx g x0 := by
  subst h
  have hall : ∀ e ∈ coordInts g x1 x1 extra, e = x1 := by
    intro e he
    unfold coordInts at he
    rw [mem_sortDir, List.mem_append] at he
    rcases he with he | he
    · simp [coordLines, linesCrossed_self] at he
    · exact hex e he
  intro i hi
  unfold coordIdxs at hi
  split_ifs at hi
  · simpa using hi
  · simp only [List.cons_append, List.mem_cons, List.mem_append, List.mem_map, List.not_mem_nil,
      or_false] at hi
    rcases hi with rfl | ⟨m, hm, rfl⟩ | rfl
    · rfl
    · rw [mids_const x1 _ hall m hm]
    · rfl

theorem latIdxs_const (glat glon : List ℝ) (s : Seg ℝ) (h : s.lat1 = s.lat0) :
    ∀ i ∈ latIdxs glat glon s, i = cellIdx glat s.lat0 := by
  apply coordIdxs_const glat s.lat0 s.lat1 h
  intro e he
  obtain ⟨m, _, rfl⟩ := List.mem_map.1 he
  unfold latForLon
  rw [if_pos ((slopeInf_real s).2 h)]

theorem lonIdxs_const (glat glon : List ℝ) (s : Seg ℝ) (h : s.lon1 = s.lon0) :
    ∀ j ∈ lonIdxs glat glon s, j = cellIdx glon s.lon0 := by
  apply coordIdxs_const glon s.lon0 s.lon1 h
  intro e he
  obtain ⟨l, _, rfl⟩ := List.mem_map.1 he
  unfold lonForLat lineIcpt lineSlope
  rw [h]; simp

end Aeic.Grid
