/-
  Sums of the pieces of a segment and of a whole trajectory (C04 helper lemmas).
-/
import AeicProofs.Lemmas.GridLength

namespace Aeic.Grid

open Aeic

/-! ### one segment -/

theorem sum_fractions_of_ne (r : Rules) (dseg : ℝ) (n : Nat) (subs : List ℝ) (h : dseg ≠ 0) :
    (fractions r dseg n subs).sum = subs.sum / dseg := by
  unfold fractions
  have : nonzero dseg = true := (nonzero_real dseg).2 h
  simp only [this, if_true]
  exact sum_map_div subs dseg

theorem sum_fractions_zero_fixed (r : Rules) (hr : r.fixZero = true) (n : Nat) (subs : List ℝ)
    (hn : subs.length = n) (hpos : 0 < n) : (fractions r 0 n subs).sum = 1 := by
  unfold fractions
  have : nonzero (0 : ℝ) = false := (nonzero_real_false 0).2 rfl
  simp only [this, hr, if_true, Bool.false_eq_true, if_false, one_real, ofNat_real]
  rw [sum_map_const, hn]
  have : (n : ℝ) ≠ 0 := by exact_mod_cast hpos.ne'
  field_simp

theorem sum_fractions_zero_asIs (r : Rules) (hr : r.fixZero = false) (n : Nat) (subs : List ℝ) :
    (fractions r 0 n subs).sum = 0 := by
  unfold fractions
  have : nonzero (0 : ℝ) = false := (nonzero_real_false 0).2 rfl
  simp [this, hr]

theorem sum_segValues (r : Rules) (d : ℝ → ℝ → ℝ → ℝ → ℝ) (glat glon : List ℝ) (s : Seg ℝ) (v : ℝ) :
    (segValues r d glat glon s v).sum = v * (segFractions r d glat glon s).sum := by
  unfold segValues
  exact sum_map_const_mul _ v

/-! ### chains: first and last point, triangle inequality -/

theorem chain_eq (glat glon : List ℝ) (s : Seg ℝ) :
    chain glat glon s =
      (s.lat0, s.lon0) :: ((intLats glat glon s).zip (intLons glat glon s) ++ [(s.lat1, s.lon1)]) := by
  unfold chain chainLat chainLon
  rw [List.cons_append, List.cons_append, List.zip_cons_cons, List.zip_append (by simp)]
  rfl

/-- the measure as a function of two points -/
def dP (d : ℝ → ℝ → ℝ → ℝ → ℝ) (p q : ℝ × ℝ) : ℝ := d p.1 p.2 q.1 q.2

theorem chainDists_cons_cons (d : ℝ → ℝ → ℝ → ℝ → ℝ) (p q : ℝ × ℝ) (l : List (ℝ × ℝ)) :
    chainDists d (p :: q :: l) = dP d p q :: chainDists d (q :: l) := rfl

/-- triangle inequality along a chain: the end-to-end length is at most the sum of the pieces -/
theorem chain_triangle (d : ℝ → ℝ → ℝ → ℝ → ℝ)
    (tri : ∀ a b c : ℝ × ℝ, dP d a c ≤ dP d a b + dP d b c)
    (p q : ℝ × ℝ) (l : List (ℝ × ℝ)) :
    dP d p ((q :: l).getLast (by simp)) ≤ (chainDists d (p :: q :: l)).sum := by
  induction l generalizing p q with
  | nil => simp [chainDists, pairs, dP]
  | cons x xs ih =>
    rw [chainDists_cons_cons, List.sum_cons, List.getLast_cons (by simp)]
    calc dP d p ((x :: xs).getLast (by simp))
        ≤ dP d p q + dP d q ((x :: xs).getLast (by simp)) := tri _ _ _
      _ ≤ dP d p q + (chainDists d (q :: x :: xs)).sum := by linarith [ih q x]

theorem segDist_le_sum_chainDists (d : ℝ → ℝ → ℝ → ℝ → ℝ)
    (tri : ∀ a b c : ℝ × ℝ, dP d a c ≤ dP d a b + dP d b c)
    (glat glon : List ℝ) (s : Seg ℝ) :
    segDist d s ≤ (chainDists d (chain glat glon s)).sum := by
  rw [chain_eq]
  generalize (intLats glat glon s).zip (intLons glat glon s) = m
  cases m with
  | nil => simp [chainDists, pairs, segDist]
  | cons q l =>
    have h := chain_triangle d tri (s.lat0, s.lon0) q (l ++ [(s.lat1, s.lon1)])
    have hl : (q :: (l ++ [(s.lat1, s.lon1)])).getLast (by simp) = (s.lat1, s.lon1) := by
      simp
    rw [hl] at h
    simpa [segDist, dP] using h

/-! ### whole trajectory: the flat product of repeated values and fractions -/

theorem zipWith_replicate_mul (x : ℝ) (fs : List ℝ) :
    List.zipWith (fun a f => a * f) (List.replicate fs.length x) fs = fs.map (fun f => x * f) := by
  induction fs with
  | nil => rfl
  | cons f fs ih => simp [List.replicate_succ, ih]

/-- `np.repeat(v, counts) * fractions`, regrouped per segment -/
theorem zipWith_repeatBy_flatMap {σ : Type} (F : σ → List ℝ) (segs : List σ) (v : List ℝ) :
    List.zipWith (fun a f => a * f) (repeatBy (segs.map (fun s => (F s).length)) v) (segs.flatMap F)
      = (segs.zip v).flatMap (fun p => (F p.1).map (fun f => p.2 * f)) := by
  induction segs generalizing v with
  | nil => simp [repeatBy]
  | cons s segs ih =>
    cases v with
    | nil => simp [repeatBy]
    | cons x v =>
      have ih' := ih v
      unfold repeatBy at ih' ⊢
      simp only [List.map_cons, List.zip_cons_cons, List.flatMap_cons]
      rw [List.zipWith_append (by simp), ih', zipWith_replicate_mul]

theorem sum_flatMap {β : Type} (l : List β) (f : β → List ℝ) :
    (l.flatMap f).sum = (l.map (fun b => (f b).sum)).sum := by
  induction l with
  | nil => rfl
  | cons a l ih => simp [ih]

/-! ### antimeridian split of the integrated values -/

theorem getAt_eq_getElem (l : List ℝ) (i : Nat) (h : i < l.length) : getAt l i = l[i] := by
  simp [getAt, List.getD_eq_getElem?_getD, h]

/-- the two shares of the crossing segment's value add up to it — also when the crossing segment has no length -/
theorem splitShare_sum (v l1 l2 : ℝ) : splitShare v l1 (l1 + l2) + splitShare v l2 (l1 + l2) = v := by
  unfold splitShare
  by_cases h : l1 + l2 = 0
  · have : nonzero (l1 + l2) = false := (nonzero_real_false _).2 h
    simp only [this, Bool.false_eq_true, if_false, lit_real]
    norm_num
    ring
  · have : nonzero (l1 + l2) = true := (nonzero_real _).2 h
    simp only [this, if_true]
    field_simp

theorem sum_split (v : List ℝ) (idx : Nat) (h : idx < v.length) (a b : ℝ) (hab : a + b = getAt v idx) :
    (v.take idx ++ [a]).sum + (b :: v.drop (idx + 1)).sum = v.sum := by
  have h1 : v.sum = (v.take idx).sum + (v.drop idx).sum := (List.sum_take_add_sum_drop v idx).symm
  have h2 : v.drop idx = v[idx] :: v.drop (idx + 1) := List.drop_eq_getElem_cons h
  rw [getAt_eq_getElem v idx h] at hab
  have h3 : (v.drop idx).sum = v[idx] + (v.drop (idx + 1)).sum := by rw [h2, List.sum_cons]
  simp only [List.sum_append, List.sum_cons, List.sum_nil]
  linarith

end Aeic.Grid

namespace Aeic.Grid

open Aeic

/-- the pieces of the segment add up to the segment's value, whatever the value:
    the fractions of the segment sum to one -/
def SegConserved (r : Rules) (d : ℝ → ℝ → ℝ → ℝ → ℝ) (glat glon : List ℝ) (s : Seg ℝ) : Prop :=
  (segFractions r d glat glon s).sum = 1

theorem sum_segFractions_of_ne (r : Rules) (d : ℝ → ℝ → ℝ → ℝ → ℝ) (glat glon : List ℝ) (s : Seg ℝ)
    (h : segDist d s ≠ 0) :
    (segFractions r d glat glon s).sum = (chainDists d (chain glat glon s)).sum / segDist d s := by
  unfold segFractions
  exact sum_fractions_of_ne r _ _ _ h

theorem sum_segFractions_zero_fixed (r : Rules) (hr : r.fixZero = true) (d : ℝ → ℝ → ℝ → ℝ → ℝ)
    (glat glon : List ℝ) (s : Seg ℝ) (h : segDist d s = 0) :
    (segFractions r d glat glon s).sum = 1 := by
  unfold segFractions
  rw [h]
  exact sum_fractions_zero_fixed r hr _ _ (by simp) (by simp)

theorem length_mkSegs (lats lons : List ℝ) :
    (mkSegs lats lons).length = min lats.length lons.length - 1 := by
  simp [mkSegs, length_pairs]

/-- structure of the plain gridding result: each integrated variable is the concatenation, over the
    segments, of the segment's pieces -/
theorem gridPlain_integ (r : Rules) (d : ℝ → ℝ → ℝ → ℝ → ℝ) (g : Grid ℝ) (t : Traj ℝ) :
    (gridPlain r d g t).integ = t.integ.map (fun v =>
      ((mkSegs t.lats t.lons).zip v).flatMap (fun p => segValues r d g.glat g.glon p.1 p.2)) := by
  unfold gridPlain
  simp only
  apply List.map_congr_left
  intro v _
  have hc : (mkSegs t.lats t.lons).map (fun s => (latIdxs g.glat g.glon s).length)
      = (mkSegs t.lats t.lons).map (fun s => (segFractions r d g.glat g.glon s).length) := by
    apply List.map_congr_left; intro s _; simp
  rw [hc, zipWith_repeatBy_flatMap]
  rfl

theorem sum_zip_weighted {σ : Type} (segs : List σ) (v : List ℝ) (c : σ → ℝ)
    (hc : ∀ s ∈ segs, c s = 1) (hlen : v.length = segs.length) :
    ((segs.zip v).map (fun p => p.2 * c p.1)).sum = v.sum := by
  induction segs generalizing v with
  | nil => cases v with
    | nil => rfl
    | cons x v => simp at hlen
  | cons s segs ih =>
    cases v with
    | nil => simp at hlen
    | cons x v =>
      simp only [List.zip_cons_cons, List.map_cons, List.sum_cons]
      rw [ih v (fun s hs => hc s (List.mem_cons_of_mem _ hs)) (by simpa using hlen),
        hc s List.mem_cons_self]
      ring

theorem firstNonzero_lt (cs : List Int) (h : 0 < (cs.filter (· ≠ 0)).length) :
    firstNonzero cs < cs.length := by
  induction cs with
  | nil => simp at h
  | cons c cs ih =>
    unfold firstNonzero
    by_cases hc : c ≠ 0
    · simp [hc]
    · have : c = 0 := by simpa using hc
      subst this
      have h' : 0 < (cs.filter (· ≠ 0)).length := by simpa using h
      simpa using ih h'

theorem length_crossings (pi : ℝ) (lons : List ℝ) : (crossings pi lons).length = lons.length - 1 := by
  simp [crossings, length_pairs]

end Aeic.Grid

namespace Aeic.Grid

open Aeic

/-! ### the antimeridian split, named pieces -/

noncomputable def splitIdx (pi : ℝ) (t : Traj ℝ) : Nat := firstNonzero (crossings pi t.lons)
noncomputable def splitSign (pi : ℝ) (t : Traj ℝ) : Int := (crossings pi t.lons).getD (splitIdx pi t) 0
noncomputable def splitLat (r : Rules) (pi : ℝ) (t : Traj ℝ) : ℝ :=
  crossLat r pi (splitSign pi t) (getAt t.lats (splitIdx pi t)) (getAt t.lons (splitIdx pi t))
    (getAt t.lats (splitIdx pi t + 1)) (getAt t.lons (splitIdx pi t + 1))
/-- length of the part of the crossing segment before the antimeridian -/
noncomputable def splitL1 (r : Rules) (d : ℝ → ℝ → ℝ → ℝ → ℝ) (pi : ℝ) (t : Traj ℝ) : ℝ :=
  d (getAt t.lats (splitIdx pi t)) (getAt t.lons (splitIdx pi t)) (splitLat r pi t) (edgeLon pi (splitSign pi t))
/-- length of the part of the crossing segment after the antimeridian -/
noncomputable def splitL2 (r : Rules) (d : ℝ → ℝ → ℝ → ℝ → ℝ) (pi : ℝ) (t : Traj ℝ) : ℝ :=
  d (splitLat r pi t) (-(edgeLon pi (splitSign pi t))) (getAt t.lats (splitIdx pi t + 1))
    (getAt t.lons (splitIdx pi t + 1))

theorem splitParts_eq (r : Rules) (d : ℝ → ℝ → ℝ → ℝ → ℝ) (pi : ℝ) (t : Traj ℝ) :
    splitParts r d pi t =
      (splitFirst pi (splitSign pi t) (splitIdx pi t) (splitLat r pi t) (splitL1 r d pi t)
          (splitL1 r d pi t + splitL2 r d pi t) t,
       splitSecond pi (splitSign pi t) (splitIdx pi t) (splitLat r pi t) (splitL2 r d pi t)
          (splitL1 r d pi t + splitL2 r d pi t) t) := rfl

theorem map_sum_zipWith_append (A B : List (List ℝ)) :
    (List.zipWith (· ++ ·) A B).map List.sum = List.zipWith (· + ·) (A.map List.sum) (B.map List.sum) := by
  induction A generalizing B with
  | nil => simp
  | cons a A ih =>
    cases B with
    | nil => simp
    | cons b B => simp [ih]

theorem zipWith_add_map {β : Type} (l : List β) (f1 f2 : β → ℝ) :
    List.zipWith (· + ·) (l.map f1) (l.map f2) = l.map (fun x => f1 x + f2 x) := by
  induction l with
  | nil => rfl
  | cons a l ih => simp [ih]

end Aeic.Grid
