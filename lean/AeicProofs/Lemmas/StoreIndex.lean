/- The lazily rebuilt flight-id index: sort + bisect finds the first trajectory with the requested id. -/
import Mathlib.Tactic.SplitIfs
import AeicModel.Store

namespace Aeic.Store

theorem lookup_cons_lt (p : Int × Nat) (ps : List (Int × Nat)) (id : Int) (h : p.1 < id) :
    lookupIndex (p :: ps) id = lookupIndex ps id := by
  unfold lookupIndex
  simp [bisectLeftIds, h, Nat.add_comm 1]

theorem lookup_cons_ge (p : Int × Nat) (ps : List (Int × Nat)) (id : Int) (h : ¬ p.1 < id) :
    lookupIndex (p :: ps) id = if p.1 = id then some p.2 else none := by
  unfold lookupIndex
  simp [bisectLeftIds, h]

theorem lookup_insert (a : Int) (k : Nat) (id : Int) (L : List (Int × Nat)) :
    lookupIndex (insertById (a, k) L) id = if a = id then some k else lookupIndex L id := by
  induction L with
  | nil =>
    simp only [insertById]
    by_cases h : a < id
    · rw [lookup_cons_lt _ _ _ h]
      have : a ≠ id := by omega
      simp [this]
    · rw [lookup_cons_ge _ _ _ h]
      split_ifs <;> simp [lookupIndex, bisectLeftIds]
  | cons q qs ih =>
    simp only [insertById]
    by_cases hle : a ≤ q.1
    · rw [if_pos hle]
      by_cases h : a < id
      · rw [lookup_cons_lt _ _ _ h]
        have : a ≠ id := by omega
        simp [this]
      · rw [lookup_cons_ge _ _ _ h]
        simp only
        split_ifs with h1
        · rfl
        · have hq : ¬ q.1 < id := by omega
          rw [lookup_cons_ge _ _ _ hq]
          have : q.1 ≠ id := by omega
          simp [this]
    · rw [if_neg hle]
      by_cases hq : q.1 < id
      · rw [lookup_cons_lt _ _ _ hq, lookup_cons_lt _ _ _ hq, ih]
      · rw [lookup_cons_ge _ _ _ hq, lookup_cons_ge _ _ _ hq]
        have : a ≠ id := by omega
        simp [this]

/-- index of the first trajectory (counting from `off`) whose flight id is `id` -/
def firstIdx (off : Nat) : List Item → Int → Option Nat
  | [], _ => none
  | it :: rest, id => if it.fid.getD 0 = id then some off else firstIdx (off + 1) rest id

theorem lookup_sort (off : Nat) (items : List Item) (id : Int) :
    lookupIndex (sortById (indexPairs off items)) id = firstIdx off items id := by
  induction items generalizing off with
  | nil => simp [indexPairs, sortById, lookupIndex, bisectLeftIds, firstIdx]
  | cons it rest ih =>
    simp only [indexPairs, sortById, firstIdx]
    rw [lookup_insert, ih]

theorem firstIdx_find (off : Nat) (items : List Item) (id : Int)
    (hall : ∀ it ∈ items, it.fid.isSome = true) :
    match firstIdx off items id with
    | none => items.find? (fun it => it.fid = some id) = none
    | some k => off ≤ k ∧ ∃ it, items[k - off]? = some it ∧ items.find? (fun it => it.fid = some id) = some it := by
  induction items generalizing off with
  | nil => simp [firstIdx]
  | cons it rest ih =>
    have hsome := hall it (by simp)
    have hrest : ∀ x ∈ rest, x.fid.isSome = true := fun x hx => hall x (by simp [hx])
    simp only [firstIdx]
    obtain ⟨v, hv⟩ := Option.isSome_iff_exists.mp hsome
    by_cases h : it.fid.getD 0 = id
    · rw [if_pos h]
      have : it.fid = some id := by rw [hv] at h ⊢; simpa using h
      simp [this]
    · rw [if_neg h]
      have hne : ¬ it.fid = some id := by
        intro hc; rw [hc] at h; simp at h
      have := ih (off + 1) hrest
      cases hf : firstIdx (off + 1) rest id with
      | none => rw [hf] at this; simp only at this ⊢; simp [List.find?_cons, hne, this]
      | some k =>
        rw [hf] at this
        simp only at this ⊢
        obtain ⟨hk, x, hx1, hx2⟩ := this
        refine ⟨by omega, x, ?_, by simp [List.find?_cons, hne, hx2]⟩
        have : k - off = (k - (off + 1)) + 1 := by omega
        rw [this, List.getElem?_cons_succ]; exact hx1

/-- `get_flight`'s table lookup on a freshly built index finds the first trajectory with that id -/
theorem lookup_find (items : List Item) (id : Int) (hall : ∀ it ∈ items, it.fid.isSome = true) :
    match lookupIndex (buildIndex items) id with
    | none => items.find? (fun it => it.fid = some id) = none
    | some k => ∃ it, items[k]? = some it ∧ items.find? (fun it => it.fid = some id) = some it := by
  unfold buildIndex
  rw [lookup_sort]
  have := firstIdx_find 0 items id hall
  cases hf : firstIdx 0 items id with
  | none => rw [hf] at this; exact this
  | some k => rw [hf] at this; simpa using this.2

end Aeic.Store
