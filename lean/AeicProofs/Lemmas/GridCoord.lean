/-
  One coordinate axis: between two neighbouring crossing coordinates of a segment no grid line is met, so the
  whole open piece has the cell index that the model reports for it.
-/
import AeicProofs.Lemmas.GridLines

namespace Aeic.Grid

open Aeic

def StrictlyBetween (a b x : ℝ) : Prop := (a < x ∧ x < b) ∨ (b < x ∧ x < a)
def Between (a b x : ℝ) : Prop := (a ≤ x ∧ x ≤ b) ∨ (b ≤ x ∧ x ≤ a)

/-! ### generic facts about pairwise-related lists -/

theorem no_member_between {R : ℝ → ℝ → Prop} (hrefl : ∀ a, R a a) {l : List ℝ} (h : l.Pairwise R) {a b : ℝ}
    (hab : (a, b) ∈ pairs l) {m : ℝ} (hm : m ∈ l) : R m a ∨ R b m := by
  induction l with
  | nil => simp at hab
  | cons x xs ih =>
    cases xs with
    | nil => simp at hab
    | cons y ys =>
      rw [pairs_cons_cons, List.mem_cons] at hab
      rcases hab with hab | hab
      · obtain ⟨rfl, rfl⟩ := Prod.mk.inj hab
        rcases List.mem_cons.1 hm with rfl | hm
        · exact Or.inl (hrefl _)
        · right
          rcases List.mem_cons.1 hm with rfl | hm'
          · exact hrefl _
          · exact List.rel_of_pairwise_cons (List.Pairwise.of_cons h) hm'
      · rcases List.mem_cons.1 hm with rfl | hm
        · left
          have ha : a ∈ y :: ys := (List.of_mem_zip hab).1
          exact List.rel_of_pairwise_cons h ha
        · exact ih (List.Pairwise.of_cons h) hab hm

theorem rel_getLast {R : ℝ → ℝ → Prop} (hrefl : ∀ a, R a a) {l : List ℝ} (h : l.Pairwise R) (hne : l ≠ [])
    {m : ℝ} (hm : m ∈ l) : R m (l.getLast hne) := by
  induction l with
  | nil => exact absurd rfl hne
  | cons x xs ih =>
    cases xs with
    | nil =>
      have : m = x := by simpa using hm
      subst this; simpa using hrefl m
    | cons y ys =>
      rw [List.getLast_cons (by simp)]
      rcases List.mem_cons.1 hm with rfl | hm
      · exact List.rel_of_pairwise_cons h (List.getLast_mem _)
      · exact ih (List.Pairwise.of_cons h) (by simp) hm

theorem mem_pairs_left {β : Type} {l : List β} {a b : β} (h : (a, b) ∈ pairs l) : a ∈ l :=
  (List.of_mem_zip h).1

theorem mem_pairs_right {β : Type} {l : List β} {a b : β} (h : (a, b) ∈ pairs l) : b ∈ l :=
  List.mem_of_mem_tail (List.of_mem_zip h).2

theorem pairs_append_singleton {β : Type} (l : List β) (hne : l ≠ []) (z : β) :
    pairs (l ++ [z]) = pairs l ++ [(l.getLast hne, z)] := by
  induction l with
  | nil => exact absurd rfl hne
  | cons x xs ih =>
    cases xs with
    | nil => rfl
    | cons y ys =>
      have := ih (by simp)
      simp only [List.cons_append, pairs_cons_cons] at this ⊢
      rw [this]
      simp

theorem mem_zip_map_self {β γ : Type} (A : List β) (f : β → γ) {p : β × γ} (h : p ∈ A.zip (A.map f)) :
    ∃ q ∈ A, p = (q, f q) := by
  induction A with
  | nil => simp at h
  | cons a A ih =>
    rw [List.map_cons, List.zip_cons_cons, List.mem_cons] at h
    rcases h with rfl | h
    · exact ⟨a, List.mem_cons_self, rfl⟩
    · obtain ⟨q, hq, rfl⟩ := ih h
      exact ⟨q, List.mem_cons_of_mem _ hq, rfl⟩

/-- the three kinds of (piece, reported index) pairs of a segment that crosses at least one line -/
theorem mem_zip_pieces (x0 x1 c : ℝ) (rest : List ℝ) (i0 i1 : Int) (f : ℝ × ℝ → Int) {p : (ℝ × ℝ) × Int}
    (h : p ∈ (pairs (x0 :: (c :: rest) ++ [x1])).zip (i0 :: (pairs (c :: rest)).map f ++ [i1])) :
    p = ((x0, c), i0) ∨ (∃ q ∈ pairs (c :: rest), p = (q, f q)) ∨
      p = (((c :: rest).getLast (by simp), x1), i1) := by
  have e1 : pairs (x0 :: (c :: rest) ++ [x1]) = (x0, c) :: (pairs (c :: rest) ++ [((c :: rest).getLast (by simp), x1)]) := by
    rw [← pairs_append_singleton (c :: rest) (by simp) x1]; rfl
  rw [e1, List.cons_append, List.zip_cons_cons, List.mem_cons, List.zip_append (by simp), List.mem_append] at h
  rcases h with h | h | h
  · exact Or.inl h
  · exact Or.inr (Or.inl (mem_zip_map_self _ f h))
  · right; right; simpa using h

/-! ### counting grid lines below a coordinate -/

theorem countLt_eq_of_no_line (g : List ℝ) {x y : ℝ} (h : x ≤ y) (hno : ∀ γ ∈ g, ¬ (x ≤ γ ∧ γ < y)) :
    countLt g x = countLt g y := by
  induction g with
  | nil => rfl
  | cons a as ih =>
    unfold countLt
    rw [ih (fun γ hγ => hno γ (List.mem_cons_of_mem _ hγ))]
    have := hno a List.mem_cons_self
    by_cases h1 : a < x
    · have : a < y := lt_of_lt_of_le h1 h
      simp [h1, this]
    · have h2 : ¬ a < y := fun h2 => this ⟨not_lt.mp h1, h2⟩
      simp [h1, h2]

theorem cellIdx_eq_of_no_line (g : List ℝ) {x y : ℝ} (hno : ∀ γ ∈ g, ¬ (min x y ≤ γ ∧ γ < max x y)) :
    cellIdx g x = cellIdx g y := by
  unfold cellIdx
  rcases le_total x y with h | h
  · rw [min_eq_left h, max_eq_right h] at hno
    rw [countLt_eq_of_no_line g h hno]
  · rw [min_eq_right h, max_eq_left h] at hno
    rw [countLt_eq_of_no_line g h hno]

theorem mid_between {a b : ℝ} (h : a < b) : a < (a + b) / (d% 2) ∧ (a + b) / (d% 2) < b := by
  simp only [lit_real]; norm_num; constructor <;> linarith

end Aeic.Grid

namespace Aeic.Grid

open Aeic

theorem coordInts_up (g : List ℝ) (x0 x1 : ℝ) (extra : List ℝ) (h : x0 ≤ x1) :
    coordInts g x0 x1 extra = sortDir false (coordLines g x0 x1 ++ extra) := by
  unfold coordInts
  have : ¬ (x1 < x0) := not_lt.mpr h
  simp [this]

theorem coordInts_down (g : List ℝ) (x0 x1 : ℝ) (extra : List ℝ) (h : x1 < x0) :
    coordInts g x0 x1 extra = sortDir true (coordLines g x0 x1 ++ extra) := by
  unfold coordInts
  simp [h]

theorem coordIdxs_nil (g : List ℝ) (x0 x1 : ℝ) :
    coordIdxs g x0 x1 [] (decide (([] : List ℝ).length = 0)) = [cellIdx g x0] := by
  simp [coordIdxs]

theorem coordIdxs_cons (g : List ℝ) (x0 x1 c : ℝ) (rest : List ℝ) :
    coordIdxs g x0 x1 (c :: rest) (decide ((c :: rest).length = 0))
      = cellIdx g x0 :: (pairs (c :: rest)).map (fun q => cellIdx g ((q.1 + q.2) / (d% 2))) ++ [cellIdx g x1] := by
  simp [coordIdxs, mids, List.map_map, Function.comp_def]

/-- travelling upwards (or level): every coordinate strictly inside a piece has the reported cell index -/
theorem coord_piece_up (g : List ℝ) (hs : g.Pairwise (· < ·)) (x0 x1 : ℝ) (h01 : x0 ≤ x1)
    (extra : List ℝ) (hex : ∀ e ∈ extra, x0 ≤ e ∧ e ≤ x1)
    (p : (ℝ × ℝ) × Int)
    (hp : p ∈ (pairs (x0 :: coordInts g x0 x1 extra ++ [x1])).zip
      (coordIdxs g x0 x1 (coordInts g x0 x1 extra) (decide ((coordInts g x0 x1 extra).length = 0))))
    (x : ℝ) (hx : p.1.1 < x ∧ x < p.1.2) : cellIdx g x = p.2 := by
  have hsorted : (coordInts g x0 x1 extra).Pairwise (· ≤ ·) := by
    rw [coordInts_up g x0 x1 extra h01]; exact sortDir_up_sorted _
  have hmemL : ∀ m ∈ coordInts g x0 x1 extra, x0 ≤ m ∧ m ≤ x1 := by
    intro m hm
    rw [coordInts_up g x0 x1 extra h01, mem_sortDir, List.mem_append] at hm
    rcases hm with hm | hm
    · rcases ((mem_coordLines g hs x0 x1 m).1 hm).2 with ⟨a, b⟩ | ⟨a, b⟩
      · exact ⟨a, b.le⟩
      · exact absurd (lt_of_le_of_lt a b) (not_lt.mpr h01)
    · exact hex m hm
  have hcomplete : ∀ γ ∈ g, x0 ≤ γ → γ < x1 → γ ∈ coordInts g x0 x1 extra := by
    intro γ hγ a b
    rw [coordInts_up g x0 x1 extra h01, mem_sortDir, List.mem_append]
    exact Or.inl ((mem_coordLines g hs x0 x1 γ).2 ⟨hγ, Or.inl ⟨a, b⟩⟩)
  generalize coordInts g x0 x1 extra = L at hp hsorted hmemL hcomplete
  cases L with
  | nil =>
    rw [coordIdxs_nil] at hp
    have : p = ((x0, x1), cellIdx g x0) := by simpa [pairs] using hp
    subst this
    apply cellIdx_eq_of_no_line
    rintro γ hγ ⟨a, b⟩
    rw [min_eq_right hx.1.le] at a
    rw [max_eq_left hx.1.le] at b
    simpa using hcomplete γ hγ a (b.trans hx.2)
  | cons c rest =>
    rw [coordIdxs_cons] at hp
    rcases mem_zip_pieces x0 x1 c rest _ _ _ hp with rfl | ⟨q, hq, rfl⟩ | rfl
    · -- first piece: reported index is the start point's cell
      apply cellIdx_eq_of_no_line
      rintro γ hγ ⟨a, b⟩
      simp only at hx
      rw [min_eq_right hx.1.le] at a
      rw [max_eq_left hx.1.le] at b
      have hc1 := (hmemL c List.mem_cons_self).2
      have hin := hcomplete γ hγ a (lt_of_lt_of_le (b.trans hx.2) hc1)
      rcases List.mem_cons.1 hin with rfl | hin
      · exact absurd (b.trans hx.2) (lt_irrefl _)
      · have := List.rel_of_pairwise_cons hsorted hin
        linarith [b.trans hx.2]
    · -- interior piece: reported index is the midpoint's cell
      obtain ⟨a0, b0⟩ := q
      simp only at hx ⊢
      have hab : a0 < b0 := hx.1.trans hx.2
      have hm := mid_between hab
      apply cellIdx_eq_of_no_line
      rintro γ hγ ⟨a, b⟩
      have ha0 := hmemL a0 (mem_pairs_left hq)
      have hb0 := hmemL b0 (mem_pairs_right hq)
      have hlo : a0 < γ := lt_of_lt_of_le (lt_min hx.1 hm.1) a
      have hhi : γ < b0 := lt_of_lt_of_le b (max_le hx.2.le hm.2.le)
      have hin := hcomplete γ hγ (ha0.1.trans hlo.le) (lt_of_lt_of_le hhi hb0.2)
      rcases no_member_between (R := (· ≤ ·)) le_refl hsorted hq hin with h | h <;> linarith
    · -- last piece: reported index is the end point's cell
      apply cellIdx_eq_of_no_line
      rintro γ hγ ⟨a, b⟩
      simp only at hx
      rw [min_eq_left hx.2.le] at a
      rw [max_eq_right hx.2.le] at b
      have hl0 := (hmemL _ (List.getLast_mem (l := c :: rest) (by simp))).1
      have hin := hcomplete γ hγ (hl0.trans (hx.1.le.trans a)) b
      have := rel_getLast (R := (· ≤ ·)) le_refl hsorted (by simp) hin
      linarith [hx.1]

end Aeic.Grid

namespace Aeic.Grid

open Aeic

/-- travelling downwards: every coordinate strictly inside a piece has the reported cell index -/
theorem coord_piece_down (g : List ℝ) (hs : g.Pairwise (· < ·)) (x0 x1 : ℝ) (h10 : x1 < x0)
    (extra : List ℝ) (hex : ∀ e ∈ extra, x1 ≤ e ∧ e ≤ x0)
    (p : (ℝ × ℝ) × Int)
    (hp : p ∈ (pairs (x0 :: coordInts g x0 x1 extra ++ [x1])).zip
      (coordIdxs g x0 x1 (coordInts g x0 x1 extra) (decide ((coordInts g x0 x1 extra).length = 0))))
    (x : ℝ) (hx : p.1.2 < x ∧ x < p.1.1) : cellIdx g x = p.2 := by
  have hsorted : (coordInts g x0 x1 extra).Pairwise (· ≥ ·) := by
    rw [coordInts_down g x0 x1 extra h10]; exact sortDir_down_sorted _
  have hmemL : ∀ m ∈ coordInts g x0 x1 extra, x1 ≤ m ∧ m ≤ x0 := by
    intro m hm
    rw [coordInts_down g x0 x1 extra h10, mem_sortDir, List.mem_append] at hm
    rcases hm with hm | hm
    · rcases ((mem_coordLines g hs x0 x1 m).1 hm).2 with ⟨a, b⟩ | ⟨a, b⟩
      · exact absurd (lt_of_le_of_lt a b) (not_lt.mpr h10.le)
      · exact ⟨a, b.le⟩
    · exact hex m hm
  have hcomplete : ∀ γ ∈ g, x1 ≤ γ → γ < x0 → γ ∈ coordInts g x0 x1 extra := by
    intro γ hγ a b
    rw [coordInts_down g x0 x1 extra h10, mem_sortDir, List.mem_append]
    exact Or.inl ((mem_coordLines g hs x0 x1 γ).2 ⟨hγ, Or.inr ⟨a, b⟩⟩)
  generalize coordInts g x0 x1 extra = L at hp hsorted hmemL hcomplete
  cases L with
  | nil =>
    rw [coordIdxs_nil] at hp
    have : p = ((x0, x1), cellIdx g x0) := by simpa [pairs] using hp
    subst this
    simp only at hx
    apply cellIdx_eq_of_no_line
    rintro γ hγ ⟨a, b⟩
    rw [min_eq_left hx.2.le] at a
    rw [max_eq_right hx.2.le] at b
    simpa using hcomplete γ hγ (hx.1.le.trans a) b
  | cons c rest =>
    rw [coordIdxs_cons] at hp
    rcases mem_zip_pieces x0 x1 c rest _ _ _ hp with rfl | ⟨q, hq, rfl⟩ | rfl
    · -- first piece
      simp only at hx
      apply cellIdx_eq_of_no_line
      rintro γ hγ ⟨a, b⟩
      rw [min_eq_left hx.2.le] at a
      rw [max_eq_right hx.2.le] at b
      have hc1 := (hmemL c List.mem_cons_self).1
      have hin := hcomplete γ hγ (hc1.trans (hx.1.le.trans a)) b
      rcases List.mem_cons.1 hin with rfl | hin
      · linarith [hx.1]
      · have : c ≥ γ := List.rel_of_pairwise_cons hsorted hin
        linarith [hx.1]
    · -- interior piece
      obtain ⟨a0, b0⟩ := q
      simp only at hx ⊢
      have hab : b0 < a0 := hx.1.trans hx.2
      have hm := mid_between hab
      rw [add_comm] at hm
      apply cellIdx_eq_of_no_line
      rintro γ hγ ⟨a, b⟩
      have ha0 := hmemL a0 (mem_pairs_left hq)
      have hb0 := hmemL b0 (mem_pairs_right hq)
      have hlo : b0 < γ := lt_of_lt_of_le (lt_min hx.1 hm.1) a
      have hhi : γ < a0 := lt_of_lt_of_le b (max_le hx.2.le hm.2.le)
      have hin := hcomplete γ hγ (hb0.1.trans hlo.le) (lt_of_lt_of_le hhi ha0.2)
      rcases no_member_between (R := (· ≥ ·)) (fun a => le_refl a) hsorted hq hin with h | h
      · exact absurd hhi (not_lt.mpr h)
      · exact absurd hlo (not_lt.mpr h)
    · -- last piece
      simp only at hx
      apply cellIdx_eq_of_no_line
      rintro γ hγ ⟨a, b⟩
      rw [min_eq_right hx.1.le] at a
      rw [max_eq_left hx.1.le] at b
      have hl0 := (hmemL _ (List.getLast_mem (l := c :: rest) (by simp))).2
      have hin := hcomplete γ hγ a (lt_of_lt_of_le (b.trans hx.2) hl0)
      have : γ ≥ (c :: rest).getLast (by simp) :=
        rel_getLast (R := (· ≥ ·)) (fun a => le_refl a) hsorted (by simp) hin
      linarith [hx.2]

theorem rel_of_mem_pairs {R : ℝ → ℝ → Prop} {l : List ℝ} (h : l.Pairwise R) {a b : ℝ}
    (hab : (a, b) ∈ pairs l) : R a b := by
  induction l with
  | nil => simp at hab
  | cons x xs ih =>
    cases xs with
    | nil => simp at hab
    | cons y ys =>
      rw [pairs_cons_cons, List.mem_cons] at hab
      rcases hab with hab | hab
      · obtain ⟨rfl, rfl⟩ := Prod.mk.inj hab
        exact List.rel_of_pairwise_cons h List.mem_cons_self
      · exact ih (List.Pairwise.of_cons h) hab

/-- the whole chain of one coordinate (start, crossings, end) is monotone in the direction of travel: upwards -/
theorem chain_sorted_up (g : List ℝ) (hs : g.Pairwise (· < ·)) (x0 x1 : ℝ) (h : x0 ≤ x1)
    (extra : List ℝ) (hex : ∀ e ∈ extra, x0 ≤ e ∧ e ≤ x1) :
    (x0 :: coordInts g x0 x1 extra ++ [x1]).Pairwise (· ≤ ·) := by
  have hsorted : (coordInts g x0 x1 extra).Pairwise (· ≤ ·) := by
    rw [coordInts_up g x0 x1 extra h]; exact sortDir_up_sorted _
  have hmemL : ∀ m ∈ coordInts g x0 x1 extra, x0 ≤ m ∧ m ≤ x1 := by
    intro m hm
    rw [coordInts_up g x0 x1 extra h, mem_sortDir, List.mem_append] at hm
    rcases hm with hm | hm
    · rcases ((mem_coordLines g hs x0 x1 m).1 hm).2 with ⟨a, b⟩ | ⟨a, b⟩
      · exact ⟨a, b.le⟩
      · exact absurd (lt_of_le_of_lt a b) (not_lt.mpr h)
    · exact hex m hm
  rw [List.cons_append, List.pairwise_cons, List.pairwise_append]
  refine ⟨?_, hsorted, by simp, ?_⟩
  · intro m hm
    rcases List.mem_append.1 hm with hm | hm
    · exact (hmemL m hm).1
    · have : m = x1 := by simpa using hm
      rw [this]; exact h
  · intro m hm z hz
    have : z = x1 := by simpa using hz
    rw [this]; exact (hmemL m hm).2

/-- … and downwards -/
theorem chain_sorted_down (g : List ℝ) (hs : g.Pairwise (· < ·)) (x0 x1 : ℝ) (h : x1 < x0)
    (extra : List ℝ) (hex : ∀ e ∈ extra, x1 ≤ e ∧ e ≤ x0) :
    (x0 :: coordInts g x0 x1 extra ++ [x1]).Pairwise (· ≥ ·) := by
  have hsorted : (coordInts g x0 x1 extra).Pairwise (· ≥ ·) := by
    rw [coordInts_down g x0 x1 extra h]; exact sortDir_down_sorted _
  have hmemL : ∀ m ∈ coordInts g x0 x1 extra, x1 ≤ m ∧ m ≤ x0 := by
    intro m hm
    rw [coordInts_down g x0 x1 extra h, mem_sortDir, List.mem_append] at hm
    rcases hm with hm | hm
    · rcases ((mem_coordLines g hs x0 x1 m).1 hm).2 with ⟨a, b⟩ | ⟨a, b⟩
      · exact absurd (lt_of_le_of_lt a b) (not_lt.mpr h.le)
      · exact ⟨a, b.le⟩
    · exact hex m hm
  rw [List.cons_append, List.pairwise_cons, List.pairwise_append]
  refine ⟨?_, hsorted, by simp, ?_⟩
  · intro m hm
    rcases List.mem_append.1 hm with hm | hm
    · exact (hmemL m hm).2
    · have : m = x1 := by simpa using hm
      rw [this]; exact h.le
  · intro m hm z hz
    have : z = x1 := by simpa using hz
    rw [this]; exact (hmemL m hm).1

/-- **One coordinate, both directions.** For a strictly increasing grid and crossing coordinates `extra` of the
    other axis' lines lying between the end coordinates: every coordinate strictly inside the `k`-th piece of the
    chain has exactly the `k`-th reported cell index. -/
theorem coord_piece_in_one_cell (g : List ℝ) (hs : g.Pairwise (· < ·)) (x0 x1 : ℝ)
    (extra : List ℝ) (hex : ∀ e ∈ extra, Between x0 x1 e)
    (p : (ℝ × ℝ) × Int)
    (hp : p ∈ (pairs (x0 :: coordInts g x0 x1 extra ++ [x1])).zip
      (coordIdxs g x0 x1 (coordInts g x0 x1 extra) (decide ((coordInts g x0 x1 extra).length = 0))))
    (x : ℝ) (hx : StrictlyBetween p.1.1 p.1.2 x) : cellIdx g x = p.2 := by
  have hmem : (p.1.1, p.1.2) ∈ pairs (x0 :: coordInts g x0 x1 extra ++ [x1]) := (List.of_mem_zip hp).1
  rcases le_or_gt x0 x1 with h | h
  · have hex' : ∀ e ∈ extra, x0 ≤ e ∧ e ≤ x1 := by
      intro e he
      rcases hex e he with h' | h'
      · exact h'
      · exact ⟨by linarith [h'.1, h'.2], by linarith [h'.1, h'.2]⟩
    rcases hx with hx | hx
    · exact coord_piece_up g hs x0 x1 h extra hex' p hp x hx
    · have : p.1.1 ≤ p.1.2 := rel_of_mem_pairs (chain_sorted_up g hs x0 x1 h extra hex') hmem
      linarith [hx.1.trans hx.2]
  · have hex' : ∀ e ∈ extra, x1 ≤ e ∧ e ≤ x0 := by
      intro e he
      rcases hex e he with h' | h'
      · exact ⟨by linarith [h'.1, h'.2], by linarith [h'.1, h'.2]⟩
      · exact h'
    rcases hx with hx | hx
    · have : p.1.1 ≥ p.1.2 := rel_of_mem_pairs (chain_sorted_down g hs x0 x1 h extra hex') hmem
      linarith [hx.1.trans hx.2]
    · exact coord_piece_down g hs x0 x1 h extra hex' p hp x hx

end Aeic.Grid
