/-
  Helper lemmas for C02 (flight part), over ℝ: invariants of the level-change and cruise loops.
-/
import AeicProofs.RealInst
import AeicModel.Builder

namespace Aeic.Builder
open Aeic

theorem bind_ok {ε α β : Type} {x : Except ε α} {f : α → Except ε β} {b : β} :
    (x >>= f) = .ok b ↔ ∃ a, x = .ok a ∧ f a = .ok b := by
  cases x <;> simp [bind, Except.bind]

theorem pure_ok {ε α : Type} {a b : α} : (pure a : Except ε α) = .ok b ↔ a = b := by
  simp [pure, Except.pure]

/-- mass − fuel balance between two points -/
def Bal (a b : Pt ℝ) : Prop := a.mass - a.fuel = b.mass - b.fuel

/-- `b` is not earlier than `a`: mass and fuel have not grown, time and distance have not shrunk -/
def Adv (a b : Pt ℝ) : Prop :=
  b.mass ≤ a.mass ∧ b.fuel ≤ a.fuel ∧ a.time ≤ b.time ∧ a.gd ≤ b.gd

theorem Adv.refl (a : Pt ℝ) : Adv a a := ⟨le_refl _, le_refl _, le_refl _, le_refl _⟩
theorem Adv.trans {a b c : Pt ℝ} (h1 : Adv a b) (h2 : Adv b c) : Adv a c :=
  ⟨h2.1.trans h1.1, h2.2.1.trans h1.2.1, h1.2.2.1.trans h2.2.2.1, h1.2.2.2.trans h2.2.2.2⟩

/-- the point is where the track says it is at its recorded ground distance -/
def OnTrack (track : Track ℝ) (p : Pt ℝ) : Prop := track.loc p.gd = .ok ⟨p.lon, p.lat, p.az⟩

/-- what the theorems need from the performance model (provided by validated legacy tables) -/
structure PerfOK (perf : PerfFn ℝ) : Prop where
  ff_nonneg : ∀ r a m p, perf r a m = .ok p → 0 ≤ p.ff
  tas_pos : ∀ r a m p, perf r a m = .ok p → 0 < p.tas
  climb_roc : ∀ a m p, perf .climb a m = .ok p → 0 < p.roc
  descend_roc : ∀ a m p, perf .descend a m = .ok p → p.roc < 0

theorem step_ok {track : Track ℝ} {f d : ℝ} {g : Pos ℝ} (h : track.step f d = .ok g) :
    0 ≤ f ∧ 0 ≤ d ∧ track.loc (f + d) = .ok g := by
  unfold Track.step at h
  split at h
  · cases h
  · next hn =>
    simp only [zero_real, not_or, not_lt] at hn
    exact ⟨hn.1, hn.2, h⟩

section level
variable (perf : PerfFn ℝ) (track : Track ℝ) (rule : Rule) (startAlt delta lhv : ℝ)

theorem lit_nat (i : ℕ) : (Lit.dec (i : Int) 0 : ℝ) = (i : ℝ) := by simp

theorem levelSteps_zero {i : ℕ} {pt : Pt ℝ} {pts : List (Pt ℝ)}
    (h : levelSteps perf track rule startAlt delta lhv 0 i pt = .ok pts) :
    ∃ p, perf rule (startAlt + (i : ℝ) * delta) pt.mass = .ok p ∧
      pts = [lvlSnap pt (startAlt + (i : ℝ) * delta) p] := by
  simp only [levelSteps, bind_ok, pure_ok, lit_nat] at h
  obtain ⟨p, hp, rfl⟩ := h
  exact ⟨p, hp, rfl⟩

/-- one unfolded non-final step of the level-change loop -/
theorem levelSteps_succ {k i : ℕ} {pt : Pt ℝ} {pts : List (Pt ℝ)}
    (h : levelSteps perf track rule startAlt delta lhv (k + 1) i pt = .ok pts) :
    ∃ (p pe : Perf ℝ) (g : Pos ℝ) (rest : List (Pt ℝ)),
      perf rule (startAlt + (i : ℝ) * delta) pt.mass = .ok p ∧
      track.step pt.gd (lvlDist p delta) = .ok g ∧
      perf rule (startAlt + (i : ℝ) * delta + delta) pt.mass = .ok pe ∧
      levelSteps perf track rule startAlt delta lhv k (i + 1)
        (lvlNext pt (startAlt + (i : ℝ) * delta) p pe g delta lhv) = .ok rest ∧
      pts = lvlAppended pt (startAlt + (i : ℝ) * delta) p :: rest := by
  simp only [levelSteps, bind_ok, pure_ok, lit_nat] at h
  obtain ⟨p, hp, g, hg, pe, hpe, rest, hrest, rfl⟩ := h
  exact ⟨p, pe, g, rest, hp, hg, hpe, hrest, rfl⟩

theorem lvlSegFuel_nonneg (pt : Pt ℝ) (p pe : Perf ℝ) : 0 ≤ lvlSegFuel pt p pe delta lhv := by
  unfold lvlSegFuel
  simp only [zero_real]
  split_ifs with h
  · exact le_refl _
  · exact not_lt.mp h

theorem lvlFwd_nonneg (p : Perf ℝ) : 0 ≤ lvlFwd p := by
  unfold lvlFwd; exact Real.sqrt_nonneg _

theorem levelSteps_length : ∀ (k i : ℕ) (pt : Pt ℝ) (pts : List (Pt ℝ)),
    levelSteps perf track rule startAlt delta lhv k i pt = .ok pts → pts.length = k + 1 := by
  intro k
  induction k with
  | zero => intro i pt pts h; obtain ⟨p, _, rfl⟩ := levelSteps_zero _ _ _ _ _ _ h; rfl
  | succ k ih =>
    intro i pt pts h
    obtain ⟨p, pe, g, rest, _, _, _, hrest, rfl⟩ := levelSteps_succ _ _ _ _ _ _ h
    simp [ih _ _ _ hrest]

/-- point `j` of the phase is at altitude `start + (i + j)·delta` -/
theorem levelSteps_alt : ∀ (k i : ℕ) (pt : Pt ℝ) (pts : List (Pt ℝ)),
    levelSteps perf track rule startAlt delta lhv k i pt = .ok pts →
    ∀ (j : ℕ) (hj : j < pts.length), (pts[j]).alt = startAlt + ((i + j : ℕ) : ℝ) * delta := by
  intro k
  induction k with
  | zero =>
    intro i pt pts h j hj
    obtain ⟨p, _, rfl⟩ := levelSteps_zero _ _ _ _ _ _ h
    simp at hj; subst hj; simp [lvlSnap]
  | succ k ih =>
    intro i pt pts h j hj
    obtain ⟨p, pe, g, rest, _, _, _, hrest, rfl⟩ := levelSteps_succ _ _ _ _ _ _ h
    cases j with
    | zero => simp [lvlAppended, lvlSnap]
    | succ j =>
      simp only [List.getElem_cons_succ]
      rw [ih _ _ _ hrest j (by simpa using hj)]
      push_cast; ring

/-- mass − fuel is the same at every appended point as at the point the phase started from -/
theorem levelSteps_bal : ∀ (k i : ℕ) (pt : Pt ℝ) (pts : List (Pt ℝ)),
    levelSteps perf track rule startAlt delta lhv k i pt = .ok pts → ∀ p ∈ pts, Bal pt p := by
  intro k
  induction k with
  | zero =>
    intro i pt pts h q hq
    obtain ⟨p, _, rfl⟩ := levelSteps_zero _ _ _ _ _ _ h
    simp at hq; subst hq; simp [Bal, lvlSnap]
  | succ k ih =>
    intro i pt pts h q hq
    obtain ⟨p, pe, g, rest, _, _, _, hrest, rfl⟩ := levelSteps_succ _ _ _ _ _ _ h
    rcases List.mem_cons.mp hq with rfl | hq
    · simp [Bal, lvlAppended, lvlSnap]
    · have := ih _ _ _ hrest q hq
      simp only [Bal, lvlNext, lvlAppended, lvlSnap] at this ⊢
      linarith

/-- every appended point is on the track at its own ground distance -/
theorem levelSteps_ontrack : ∀ (k i : ℕ) (pt : Pt ℝ) (pts : List (Pt ℝ)), OnTrack track pt →
    levelSteps perf track rule startAlt delta lhv k i pt = .ok pts → ∀ p ∈ pts, OnTrack track p := by
  intro k
  induction k with
  | zero =>
    intro i pt pts h0 h q hq
    obtain ⟨p, _, rfl⟩ := levelSteps_zero _ _ _ _ _ _ h
    simp at hq; subst hq; simpa [OnTrack, lvlSnap] using h0
  | succ k ih =>
    intro i pt pts h0 h q hq
    obtain ⟨p, pe, g, rest, _, hg, _, hrest, rfl⟩ := levelSteps_succ _ _ _ _ _ _ h
    rcases List.mem_cons.mp hq with rfl | hq
    · simpa [OnTrack, lvlAppended, lvlSnap] using h0
    · refine ih _ _ _ ?_ hrest q hq
      simpa [OnTrack, lvlNext, lvlAppended, lvlSnap] using (step_ok hg).2.2

/-- every appended point carries the performance of its own (altitude, mass): it is inside the envelope -/
theorem levelSteps_envelope : ∀ (k i : ℕ) (pt : Pt ℝ) (pts : List (Pt ℝ)),
    levelSteps perf track rule startAlt delta lhv k i pt = .ok pts →
    ∀ p ∈ pts, perf rule p.alt p.mass = .ok ⟨p.tas, p.roc, p.ff⟩ := by
  intro k
  induction k with
  | zero =>
    intro i pt pts h q hq
    obtain ⟨p, hp, rfl⟩ := levelSteps_zero _ _ _ _ _ _ h
    simp at hq; subst hq; simpa [lvlSnap] using hp
  | succ k ih =>
    intro i pt pts h q hq
    obtain ⟨p, pe, g, rest, hp, _, _, hrest, rfl⟩ := levelSteps_succ _ _ _ _ _ _ h
    rcases List.mem_cons.mp hq with rfl | hq
    · simpa [lvlAppended, lvlSnap] using hp
    · exact ih _ _ _ hrest q hq

/-- monotone bookkeeping of a level-change phase; `hsign`: altitude step and vertical speed agree in sign -/
theorem levelSteps_adv (hsign : ∀ a m p, perf rule a m = .ok p → 0 ≤ delta / p.roc) :
    ∀ (k i : ℕ) (pt : Pt ℝ) (pts : List (Pt ℝ)),
    levelSteps perf track rule startAlt delta lhv k i pt = .ok pts →
    (∀ p ∈ pts, Adv pt p) ∧ pts.Pairwise Adv := by
  intro k
  induction k with
  | zero =>
    intro i pt pts h
    obtain ⟨p, _, rfl⟩ := levelSteps_zero _ _ _ _ _ _ h
    refine ⟨?_, by simp⟩
    intro q hq; simp at hq; subst hq
    simp [Adv, lvlSnap]
  | succ k ih =>
    intro i pt pts h
    obtain ⟨p, pe, g, rest, hp, hg, _, hrest, rfl⟩ := levelSteps_succ _ _ _ _ _ _ h
    obtain ⟨ih1, ih2⟩ := ih _ _ _ hrest
    have hfuel := lvlSegFuel_nonneg delta lhv pt p pe
    have htime := hsign _ _ _ hp
    have hdist := (step_ok hg).2.1
    have hnext : Adv pt (lvlNext pt (startAlt + (i : ℝ) * delta) p pe g delta lhv) := by
      simp only [Adv, lvlNext, lvlAppended, lvlSnap]
      refine ⟨by linarith, by linarith, by linarith, by linarith⟩
    have hsnap : ∀ q, Adv pt q → Adv (lvlAppended pt (startAlt + (i : ℝ) * delta) p) q := by
      intro q hq; simpa [Adv, lvlAppended, lvlSnap] using hq
    refine ⟨?_, ?_⟩
    · intro q hq
      rcases List.mem_cons.mp hq with rfl | hq
      · simp [Adv, lvlAppended, lvlSnap]
      · exact hnext.trans (ih1 q hq)
    · rw [List.pairwise_cons]
      exact ⟨fun q hq => hsnap q (hnext.trans (ih1 q hq)), ih2⟩

end level

section cruise
variable (perf : PerfFn ℝ) (track : Track ℝ) (alt step : ℝ)

theorem cruiseSteps_succ {k : ℕ} {pt : Pt ℝ} {pts : List (Pt ℝ)}
    (h : cruiseSteps perf track alt step (k + 1) pt = .ok pts) :
    ∃ (p : Perf ℝ) (g : Pos ℝ) (rest : List (Pt ℝ)),
      track.step pt.gd step = .ok g ∧ perf .cruise alt pt.mass = .ok p ∧
      cruiseSteps perf track alt step k (crzNext pt step p g) = .ok rest ∧
      pts = crzAppended pt :: rest := by
  simp only [cruiseSteps, bind_ok, pure_ok] at h
  obtain ⟨g, hg, p, hp, rest, hrest, rfl⟩ := h
  exact ⟨p, g, rest, hg, hp, hrest, rfl⟩

theorem cruiseSteps_zero {pt : Pt ℝ} {pts : List (Pt ℝ)}
    (h : cruiseSteps perf track alt step 0 pt = .ok pts) : pts = [] := by
  simp only [cruiseSteps, pure_ok] at h; exact h.symm

theorem cruiseSteps_length : ∀ (k : ℕ) (pt : Pt ℝ) (pts : List (Pt ℝ)),
    cruiseSteps perf track alt step k pt = .ok pts → pts.length = k := by
  intro k
  induction k with
  | zero => intro pt pts h; rw [cruiseSteps_zero _ _ _ _ h]; rfl
  | succ k ih =>
    intro pt pts h
    obtain ⟨p, g, rest, _, _, hrest, rfl⟩ := cruiseSteps_succ _ _ _ _ h
    simp [ih _ _ hrest]

theorem cruiseSteps_alt : ∀ (k : ℕ) (pt : Pt ℝ) (pts : List (Pt ℝ)),
    cruiseSteps perf track alt step k pt = .ok pts → ∀ p ∈ pts, p.alt = pt.alt := by
  intro k
  induction k with
  | zero => intro pt pts h; rw [cruiseSteps_zero _ _ _ _ h]; simp
  | succ k ih =>
    intro pt pts h q hq
    obtain ⟨p, g, rest, _, _, hrest, rfl⟩ := cruiseSteps_succ _ _ _ _ h
    rcases List.mem_cons.mp hq with rfl | hq
    · simp [crzAppended]
    · rw [ih _ _ hrest q hq]; simp [crzNext, crzAppended]

theorem cruiseSteps_bal : ∀ (k : ℕ) (pt : Pt ℝ) (pts : List (Pt ℝ)),
    cruiseSteps perf track alt step k pt = .ok pts → ∀ p ∈ pts, Bal pt p := by
  intro k
  induction k with
  | zero => intro pt pts h; rw [cruiseSteps_zero _ _ _ _ h]; simp
  | succ k ih =>
    intro pt pts h q hq
    obtain ⟨p, g, rest, _, _, hrest, rfl⟩ := cruiseSteps_succ _ _ _ _ h
    rcases List.mem_cons.mp hq with rfl | hq
    · simp [Bal, crzAppended]
    · have := ih _ _ hrest q hq
      simp only [Bal, crzNext, crzAppended] at this ⊢
      linarith

theorem cruiseSteps_ontrack : ∀ (k : ℕ) (pt : Pt ℝ) (pts : List (Pt ℝ)), OnTrack track pt →
    cruiseSteps perf track alt step k pt = .ok pts → ∀ p ∈ pts, OnTrack track p := by
  intro k
  induction k with
  | zero => intro pt pts _ h; rw [cruiseSteps_zero _ _ _ _ h]; simp
  | succ k ih =>
    intro pt pts h0 h q hq
    obtain ⟨p, g, rest, hg, _, hrest, rfl⟩ := cruiseSteps_succ _ _ _ _ h
    rcases List.mem_cons.mp hq with rfl | hq
    · simpa [OnTrack, crzAppended] using h0
    · refine ih _ _ ?_ hrest q hq
      simpa [OnTrack, crzNext, crzAppended] using (step_ok hg).2.2

/-- a cruise loop that returns has a non-negative distance step (else `GroundTrack.step` refuses) -/
theorem cruiseSteps_step_nonneg {k : ℕ} {pt : Pt ℝ} {pts : List (Pt ℝ)}
    (h : cruiseSteps perf track alt step (k + 1) pt = .ok pts) : 0 ≤ step := by
  obtain ⟨p, g, rest, hg, _, _, _⟩ := cruiseSteps_succ _ _ _ _ h
  exact (step_ok hg).2.1

theorem cruiseSteps_adv (hp : PerfOK perf) : ∀ (k : ℕ) (pt : Pt ℝ) (pts : List (Pt ℝ)), 0 ≤ pt.tas →
    cruiseSteps perf track alt step k pt = .ok pts →
    (∀ p ∈ pts, Adv pt p) ∧ pts.Pairwise Adv := by
  intro k
  induction k with
  | zero => intro pt pts _ h; rw [cruiseSteps_zero _ _ _ _ h]; simp
  | succ k ih =>
    intro pt pts htas h
    obtain ⟨p, g, rest, hg, hpf, hrest, rfl⟩ := cruiseSteps_succ _ _ _ _ h
    have hstep := (step_ok hg).2.1
    have hff := hp.ff_nonneg _ _ _ _ hpf
    have htas' := (hp.tas_pos _ _ _ _ hpf).le
    have htime : 0 ≤ step / pt.tas := div_nonneg hstep htas
    have hburn : 0 ≤ p.ff * (step / pt.tas) := mul_nonneg hff htime
    obtain ⟨ih1, ih2⟩ := ih (crzNext pt step p g) rest (by simpa [crzNext] using htas') hrest
    have hnext : Adv pt (crzNext pt step p g) := by
      simp only [Adv, crzNext, crzAppended]
      refine ⟨by linarith, by linarith, by linarith, by linarith⟩
    have hsnap : ∀ q, Adv pt q → Adv (crzAppended pt) q := by
      intro q hq; simpa [Adv, crzAppended] using hq
    refine ⟨?_, ?_⟩
    · intro q hq
      rcases List.mem_cons.mp hq with rfl | hq
      · simp [Adv, crzAppended]
      · exact hnext.trans (ih1 q hq)
    · rw [List.pairwise_cons]
      exact ⟨fun q hq => hsnap q (hnext.trans (ih1 q hq)), ih2⟩

end cruise

/-! ### phases and the whole iteration -/

theorem flyLevel_ok {perf : PerfFn ℝ} {track : Track ℝ} {rule : Rule} {n : ℕ} {a b lhv : ℝ} {pt : Pt ℝ}
    {pts : List (Pt ℝ)} (h : flyLevel perf track rule n a b lhv pt = .ok pts) :
    2 ≤ n ∧ levelSteps perf track rule a ((b - a) / ((n - 1 : ℕ) : ℝ)) lhv (n - 1) 0 pt = .ok pts := by
  unfold flyLevel at h
  split at h
  · cases h
  · next hn => exact ⟨by omega, by simpa [lit_nat] using h⟩

/-- the point the cruise loop starts from, given the last climb point -/
noncomputable def crzStartPt (s : Sched ℝ) (last : Pt ℝ) : Pt ℝ :=
  { last with alt := s.crzStart, fl := s.crzStart * Aeic.Gen.METERS_TO_FL, roc := 0 }

theorem flyCruise_ok {perf : PerfFn ℝ} {track : Track ℝ} {s : Sched ℝ} {n : ℕ} {last : Pt ℝ}
    {pts : List (Pt ℝ)} (h : flyCruise perf track s n last = .ok pts) :
    2 ≤ n ∧ cruiseSteps perf track s.crzStart
      ((track.total - s.descentDist - last.gd) / ((n - 1 : ℕ) : ℝ)) n (crzStartPt s last) = .ok pts := by
  unfold flyCruise at h
  split at h
  · cases h
  · next hn => exact ⟨by omega, by simpa [lit_nat, crzStartPt] using h⟩

theorem flyIteration_ok {perf : PerfFn ℝ} {track : Track ℝ} {s : Sched ℝ} {st : Steps} {lhv sm tfm : ℝ}
    {traj : List (Pt ℝ)} {res : ℝ} (h : flyIteration perf track s st lhv sm tfm = .ok (traj, res)) :
    ∃ clm crz des,
      flyLevel perf track .climb st.nClm s.clmStart s.crzStart lhv (startPoint track s sm tfm) = .ok clm ∧
      flyCruise perf track s st.nCrz (lastOr (startPoint track s sm tfm) clm) = .ok crz ∧
      flyLevel perf track .descend st.nDes s.desStart s.desEnd lhv (lastOr (startPoint track s sm tfm) crz) = .ok des ∧
      traj = clm ++ (crz ++ des) ∧
      res = (tfm - (sm - (lastOr (startPoint track s sm tfm) traj).mass)) / tfm := by
  simp only [flyIteration, bind_ok, pure_ok] at h
  obtain ⟨clm, hclm, crz, hcrz, des, hdes, heq⟩ := h
  obtain ⟨h1, h2⟩ := Prod.mk.inj heq
  subst h1
  exact ⟨clm, crz, des, hclm, hcrz, hdes, rfl, h2.symm⟩

theorem lastOr_mem {d : Pt ℝ} {l : List (Pt ℝ)} (h : l ≠ []) : lastOr d l ∈ l := by
  unfold lastOr
  rw [List.getLastD_eq_getLast?, List.getLast?_eq_getLast_of_ne_nil h]
  exact List.getLast_mem h

theorem ne_nil_of_length {β : Type} {l : List β} {n : ℕ} (h : l.length = n) (hn : 0 < n) : l ≠ [] := by
  intro h0; subst h0; simp at h; omega

/-- in a list that is pairwise related by a reflexive relation, everything is related to the last element -/
theorem pairwise_to_last {R : Pt ℝ → Pt ℝ → Prop} (hrefl : ∀ a, R a a) {d : Pt ℝ} :
    ∀ {l : List (Pt ℝ)}, l.Pairwise R → ∀ a ∈ l, R a (lastOr d l) := by
  intro l
  induction l with
  | nil => intro _ a ha; simp at ha
  | cons x xs ih =>
    intro hp a ha
    rw [List.pairwise_cons] at hp
    by_cases hxs : xs = []
    · subst hxs; simp at ha; subst ha; simpa [lastOr] using hrefl a
    · have hl : lastOr d (x :: xs) = lastOr d xs := by
        unfold lastOr
        cases xs with
        | nil => exact absurd rfl hxs
        | cons y ys => simp [List.getLastD]
      rw [hl]
      rcases List.mem_cons.mp ha with rfl | ha
      · exact hp.1 _ (lastOr_mem hxs)
      · exact ih hp.2 a ha

/-- gluing two phases: the second starts from (a copy of) the last point of the first -/
theorem pairwise_glue {R : Pt ℝ → Pt ℝ → Prop} (hrefl : ∀ a, R a a) (htrans : ∀ {a b c}, R a b → R b c → R a c)
    {d : Pt ℝ} {l1 l2 : List (Pt ℝ)} (h1 : l1.Pairwise R) (h2 : l2.Pairwise R)
    (hlink : ∀ b ∈ l2, R (lastOr d l1) b) : (l1 ++ l2).Pairwise R := by
  rw [List.pairwise_append]
  exact ⟨h1, h2, fun a ha b hb => htrans (pairwise_to_last hrefl h1 a ha) (hlink b hb)⟩

theorem lastOr_append_right {d : Pt ℝ} {l1 l2 : List (Pt ℝ)} (h : l2 ≠ []) :
    lastOr d (l1 ++ l2) = lastOr d l2 := by
  unfold lastOr
  rw [List.getLastD_eq_getLast?, List.getLastD_eq_getLast?, List.getLast?_append_of_ne_nil _ h]

/-! ### the altitude schedule -/

theorem feet_real : (Aeic.Gen.FEET_TO_METERS : ℝ) = 0.3048 := by
  simp [Aeic.Gen.FEET_TO_METERS]; norm_num

/-- everything `LegacyContext.__init__` guarantees when it does not refuse -/
theorem schedule_ok {o d m : ℝ} {s : Sched ℝ} (h : schedule o d m = .ok s) :
    s.clmStart = (if m ≤ o + 3000 * 0.3048 then o else o + 3000 * 0.3048) ∧
    s.desEnd = (if m ≤ d + 3000 * 0.3048 then m else d + 3000 * 0.3048) ∧
    s.desStart = s.crzStart ∧ s.clmStart ≤ s.crzStart ∧ s.desEnd ≤ s.crzStart ∧ s.crzStart ≤ m ∧
    (s.clmStart ≤ m - 7000 * 0.3048 → s.crzStart = m - 7000 * 0.3048) ∧
    s.descentDist = 18.23 * (s.crzStart - s.desEnd) ∧ 0 ≤ s.descentDist := by
  unfold schedule at h
  simp only [lit_real, zero_real, feet_real] at h
  norm_num at h
  split_ifs at h <;> cases h <;> dsimp only <;>
    refine ⟨?_, ?_, ?_, ?_, ?_, ?_, ?_, ?_, ?_⟩ <;> (try norm_num) <;>
      (try intro _) <;> (try linarith)


/-- a returned mass iteration returns an iteration flown at the returned masses -/
theorem iterLoop_returns {τ : Type} (flyIt : ℝ → ℝ → Except Err (τ × ℝ)) (tol : ℝ) :
    ∀ (k : ℕ) (sm tfm : ℝ) (r : τ × ℝ) (t : τ) (sm' tfm' : ℝ), flyIt sm tfm = .ok r →
      iterLoop flyIt tol k sm tfm r = .ok (t, sm', tfm') → ∃ res, flyIt sm' tfm' = .ok (t, res) := by
  intro k
  induction k with
  | zero => intro sm tfm r t sm' tfm' _ h; simp [iterLoop] at h
  | succ k ih =>
    intro sm tfm r t sm' tfm' hr h
    obtain ⟨t0, res⟩ := r
    unfold iterLoop at h
    split_ifs at h with hc
    · cases h; exact ⟨res, hr⟩
    · dsimp only at h
      cases hf : flyIt (sm - res * tfm) (tfm - res * tfm) with
      | error e' => rw [hf] at h; cases h
      | ok r' => rw [hf] at h; exact ih _ _ _ _ _ _ hf h

/-! ### whole-flight structure -/

section flight
variable {perf : PerfFn ℝ} {track : Track ℝ} {s : Sched ℝ} {st : Steps} {lhv sm tfm : ℝ}
  {traj : List (Pt ℝ)} {res : ℝ}

/-- the three phases of a returned iteration, with their loops unfolded -/
theorem flight_phases (h : flyIteration perf track s st lhv sm tfm = .ok (traj, res)) :
    ∃ clm crz des, traj = clm ++ (crz ++ des) ∧ 2 ≤ st.nClm ∧ 2 ≤ st.nCrz ∧ 2 ≤ st.nDes ∧
      clm.length = st.nClm ∧ crz.length = st.nCrz ∧ des.length = st.nDes ∧
      levelSteps perf track .climb s.clmStart ((s.crzStart - s.clmStart) / ((st.nClm - 1 : ℕ) : ℝ)) lhv
        (st.nClm - 1) 0 (startPoint track s sm tfm) = .ok clm ∧
      cruiseSteps perf track s.crzStart
        ((track.total - s.descentDist - (lastOr (startPoint track s sm tfm) clm).gd) / ((st.nCrz - 1 : ℕ) : ℝ))
        st.nCrz (crzStartPt s (lastOr (startPoint track s sm tfm) clm)) = .ok crz ∧
      levelSteps perf track .descend s.desStart ((s.desEnd - s.desStart) / ((st.nDes - 1 : ℕ) : ℝ)) lhv
        (st.nDes - 1) 0 (lastOr (startPoint track s sm tfm) crz) = .ok des ∧
      res = (tfm - (sm - (lastOr (startPoint track s sm tfm) traj).mass)) / tfm := by
  obtain ⟨clm, crz, des, hclm, hcrz, hdes, rfl, hres⟩ := flyIteration_ok h
  obtain ⟨n1, h1⟩ := flyLevel_ok hclm
  obtain ⟨n2, h2⟩ := flyCruise_ok hcrz
  obtain ⟨n3, h3⟩ := flyLevel_ok hdes
  refine ⟨clm, crz, des, rfl, n1, n2, n3, ?_, ?_, ?_, h1, h2, h3, hres⟩
  · rw [levelSteps_length _ _ _ _ _ _ _ _ _ _ h1]; omega
  · exact cruiseSteps_length _ _ _ _ _ _ _ h2
  · rw [levelSteps_length _ _ _ _ _ _ _ _ _ _ h3]; omega

/-- an invariant of the running point that every loop preserves holds at every returned point -/
theorem flight_forall {I : Pt ℝ → Prop} (h : flyIteration perf track s st lhv sm tfm = .ok (traj, res))
    (h0 : I (startPoint track s sm tfm))
    (hlevel : ∀ rule a dl k i pt pts, I pt → levelSteps perf track rule a dl lhv k i pt = .ok pts → ∀ p ∈ pts, I p)
    (hstart : ∀ last, I last → I (crzStartPt s last))
    (hcruise : ∀ alt step k pt pts, I pt → cruiseSteps perf track alt step k pt = .ok pts → ∀ p ∈ pts, I p) :
    ∀ p ∈ traj, I p := by
  obtain ⟨clm, crz, des, rfl, n1, n2, n3, l1, l2, l3, h1, h2, h3, _⟩ := flight_phases h
  have hc := hlevel _ _ _ _ _ _ _ h0 h1
  have hlc := hc _ (lastOr_mem (d := startPoint track s sm tfm) (ne_nil_of_length l1 (by omega)))
  have hz := hcruise _ _ _ _ _ (hstart _ hlc) h2
  have hlz := hz _ (lastOr_mem (d := startPoint track s sm tfm) (ne_nil_of_length l2 (by omega)))
  have hd := hlevel _ _ _ _ _ _ _ hlz h3
  intro p hp
  simp only [List.mem_append] at hp
  rcases hp with hp | hp | hp
  · exact hc p hp
  · exact hz p hp
  · exact hd p hp

theorem flight_adv {o d m : ℝ} (hs : schedule o d m = .ok s) (hp : PerfOK perf)
    (h : flyIteration perf track s st lhv sm tfm = .ok (traj, res)) : traj.Pairwise Adv := by
  obtain ⟨_, _, hds, hcc, hde, _, _, _, _⟩ := schedule_ok hs
  obtain ⟨clm, crz, des, rfl, n1, n2, n3, l1, l2, l3, h1, h2, h3, _⟩ := flight_phases h
  have hn1 : (0:ℝ) ≤ ((st.nClm - 1 : ℕ) : ℝ) := Nat.cast_nonneg _
  have hn3 : (0:ℝ) ≤ ((st.nDes - 1 : ℕ) : ℝ) := Nat.cast_nonneg _
  -- climb
  have hsign1 : ∀ a mm p, perf .climb a mm = .ok p →
      0 ≤ (s.crzStart - s.clmStart) / ((st.nClm - 1 : ℕ) : ℝ) / p.roc := fun a mm p hpf =>
    div_nonneg (div_nonneg (by linarith) hn1) (hp.climb_roc _ _ _ hpf).le
  obtain ⟨c1, c2⟩ := levelSteps_adv _ _ _ _ _ _ hsign1 _ _ _ _ h1
  have hne1 := ne_nil_of_length l1 (by omega)
  have hlc := lastOr_mem (d := startPoint track s sm tfm) hne1
  -- cruise
  have henv := levelSteps_envelope _ _ _ _ _ _ _ _ _ _ h1 _ hlc
  have htas : 0 ≤ (crzStartPt s (lastOr (startPoint track s sm tfm) clm)).tas := by
    simpa [crzStartPt] using (hp.tas_pos _ _ _ _ henv).le
  obtain ⟨z1, z2⟩ := cruiseSteps_adv _ _ _ _ hp _ _ _ htas h2
  have hne2 := ne_nil_of_length l2 (by omega)
  have hlz := lastOr_mem (d := startPoint track s sm tfm) hne2
  -- descent
  have hsign3 : ∀ a mm p, perf .descend a mm = .ok p →
      0 ≤ (s.desEnd - s.desStart) / ((st.nDes - 1 : ℕ) : ℝ) / p.roc := fun a mm p hpf =>
    div_nonneg_of_nonpos (div_nonpos_of_nonpos_of_nonneg (by linarith) hn3) (hp.descend_roc _ _ _ hpf).le
  obtain ⟨d1, d2⟩ := levelSteps_adv _ _ _ _ _ _ hsign3 _ _ _ _ h3
  have hlink2 : ∀ b ∈ des, Adv (lastOr (startPoint track s sm tfm) crz) b := d1
  have hzd := pairwise_glue Adv.refl Adv.trans z2 d2 hlink2
  refine pairwise_glue (d := startPoint track s sm tfm) Adv.refl Adv.trans c2 hzd ?_
  have hstart : ∀ b, Adv (crzStartPt s (lastOr (startPoint track s sm tfm) clm)) b →
      Adv (lastOr (startPoint track s sm tfm) clm) b := by
    intro b hb; simpa [Adv, crzStartPt] using hb
  intro b hb
  rcases List.mem_append.mp hb with hb | hb
  · exact hstart b (z1 b hb)
  · exact (hstart _ (z1 _ hlz)).trans (d1 b hb)

end flight

end Aeic.Builder
