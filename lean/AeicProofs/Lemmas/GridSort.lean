/-
  The sort used by the gridding model (insertion sort, direction of travel) is a sorted permutation.
-/
import AeicProofs.Lemmas.GridLength
import Mathlib.Data.List.Perm.Basic

namespace Aeic.Grid

open Aeic

theorem insertAsc_perm (x : ℝ) (l : List ℝ) : (insertAsc x l).Perm (x :: l) := by
  induction l with
  | nil => exact List.Perm.refl _
  | cons y ys ih =>
    unfold insertAsc
    split_ifs
    · exact List.Perm.refl _
    · exact (List.Perm.cons y ih).trans (List.Perm.swap x y ys)

theorem sortAsc_perm (l : List ℝ) : (sortAsc l).Perm l := by
  induction l with
  | nil => exact List.Perm.refl _
  | cons y ys ih => exact (insertAsc_perm y (sortAsc ys)).trans (List.Perm.cons y ih)

theorem mem_sortAsc {a : ℝ} {l : List ℝ} : a ∈ sortAsc l ↔ a ∈ l := (sortAsc_perm l).mem_iff

theorem insertAsc_sorted (x : ℝ) (l : List ℝ) (h : l.Pairwise (· ≤ ·)) :
    (insertAsc x l).Pairwise (· ≤ ·) := by
  induction l with
  | nil => simp [insertAsc]
  | cons y ys ih =>
    unfold insertAsc
    split_ifs with hxy
    · refine List.Pairwise.cons ?_ h
      intro z hz
      rcases List.mem_cons.1 hz with rfl | hz
      · exact hxy
      · exact hxy.trans (List.rel_of_pairwise_cons h hz)
    · refine List.Pairwise.cons ?_ (ih (List.Pairwise.of_cons h))
      intro z hz
      rcases List.mem_cons.1 ((insertAsc_perm x ys).mem_iff.1 hz) with rfl | hz
      · exact (not_le.mp hxy).le
      · exact List.rel_of_pairwise_cons h hz

theorem sortAsc_sorted (l : List ℝ) : (sortAsc l).Pairwise (· ≤ ·) := by
  induction l with
  | nil => simp [sortAsc]
  | cons y ys ih => exact insertAsc_sorted y _ ih

theorem mem_sortDir {a : ℝ} {b : Bool} {l : List ℝ} : a ∈ sortDir b l ↔ a ∈ l := by
  unfold sortDir
  split_ifs
  · simp only [List.mem_map, mem_sortAsc]
    constructor
    · rintro ⟨y, ⟨z, hz, rfl⟩, rfl⟩; simpa using hz
    · intro ha; exact ⟨-a, ⟨a, ha, rfl⟩, by simp⟩
  · exact mem_sortAsc

theorem sortDir_up_sorted (l : List ℝ) : (sortDir false l).Pairwise (· ≤ ·) := by
  simpa [sortDir] using sortAsc_sorted l

theorem sortDir_down_sorted (l : List ℝ) : (sortDir true l).Pairwise (· ≥ ·) := by
  simp only [sortDir, if_true]
  rw [List.pairwise_map]
  exact (sortAsc_sorted _).imp (fun h => by simpa using h)

/-- in a sorted list no member lies strictly between two neighbours -/
theorem no_member_between_neighbours {l : List ℝ} (h : l.Pairwise (· ≤ ·)) {a b : ℝ}
    (hab : (a, b) ∈ pairs l) {m : ℝ} (hm : m ∈ l) : m ≤ a ∨ b ≤ m := by
  induction l with
  | nil => simp at hab
  | cons x xs ih =>
    cases xs with
    | nil => simp at hab
    | cons y ys =>
      rw [pairs_cons_cons, List.mem_cons] at hab
      rcases hab with hab | hab
      · obtain ⟨rfl, rfl⟩ := Prod.mk.inj hab
        rcases List.mem_cons.1 hm with rfl | hm
        · exact Or.inl le_rfl
        · right
          rcases List.mem_cons.1 hm with rfl | hm'
          · exact le_rfl
          · exact List.rel_of_pairwise_cons (List.Pairwise.of_cons h) hm'
      · rcases List.mem_cons.1 hm with rfl | hm
        · left
          have ha : a ∈ y :: ys := by
            have := List.of_mem_zip hab
            exact this.1
          exact List.rel_of_pairwise_cons h ha
        · exact ih (List.Pairwise.of_cons h) hab hm

end Aeic.Grid
