/-
  General facts about the event language of `TrajectoryStore.add` (`AeicModel/AddProg.lean`), by induction over programs:
  a program whose refusals all precede its first state change, and whose first state change is the (atomic) cache insertion,
  changes nothing when it raises; it raises exactly when one of its checks fails or the cache refuses; and when it does not raise
  it performs all its mutations in source order.  Helper lemmas only; core Lean.
-/
import AeicModel.AddProg

set_option linter.unusedSimpArgs false

namespace Aeic.AddProg

theorem quiet_no_raise (f : Nat → Bool) (ir : Bool) (p acc : List Ev) (h : p.all quiet = true) :
    (runFrom f ir p acc).raised = false := by
  induction p generalizing acc with
  | nil => rfl
  | cons e rest ih =>
    simp only [List.all_cons, Bool.and_eq_true] at h
    cases e with
    | check k => simp [quiet] at h
    | insert => simp [quiet] at h
    | set g c => exact ih _ h.2
    | effect m c => exact ih _ h.2
    | ret => rfl

theorem quiet_no_checks (p : List Ev) (h : p.all quiet = true) : checkIds p = [] ∧ Ev.insert ∉ p := by
  induction p with
  | nil => simp [checkIds]
  | cons e r ih =>
    simp only [List.all_cons, Bool.and_eq_true] at h
    have := ih h.2
    cases e <;> simp_all [quiet, checkIds]

/-- a refused `add` has made no state change (relative to the changes `acc` made before) -/
theorem raised_done (f : Nat → Bool) (ir : Bool) (p acc : List Ev) (h1 : checksFirst p = true) (h2 : insertFirst p = true)
    (hr : (runFrom f ir p acc).raised = true) : (runFrom f ir p acc).done = acc.reverse := by
  induction p generalizing acc with
  | nil => simp [runFrom] at hr
  | cons e rest ih =>
    cases e with
    | check k =>
      cases hk : f k with
      | true => simp [runFrom, hk]
      | false =>
        have := ih acc (by simpa [checksFirst] using h1) (by simpa [insertFirst] using h2) (by simpa [runFrom, hk] using hr)
        simpa [runFrom, hk] using this
    | insert =>
      cases ir with
      | true => simp [runFrom]
      | false =>
        have hq : rest.all quiet = true := by simpa [checksFirst] using h1
        have := quiet_no_raise f false rest (.insert :: acc) hq
        simp [runFrom, this] at hr
    | set g c => simp [insertFirst] at h2
    | effect m c => simp [insertFirst] at h2
    | ret => simp [insertFirst] at h2

/-- an `add` that does not raise performs all its mutations, in source order -/
theorem ok_done (f : Nat → Bool) (ir : Bool) (p acc : List Ev) (hr : (runFrom f ir p acc).raised = false) :
    (runFrom f ir p acc).done = acc.reverse ++ mutations p := by
  induction p generalizing acc with
  | nil => simp [runFrom, mutations]
  | cons e rest ih =>
    cases e with
    | check k =>
      cases hk : f k with
      | true => simp [runFrom, hk] at hr
      | false =>
        have := ih acc (by simpa [runFrom, hk] using hr)
        simpa [runFrom, hk, mutations, isMutation] using this
    | insert =>
      cases ir with
      | true => simp [runFrom] at hr
      | false =>
        have := ih (.insert :: acc) (by simpa [runFrom] using hr)
        simpa [runFrom, mutations, isMutation] using this
    | set g c =>
      have := ih (.set g c :: acc) (by simpa [runFrom] using hr)
      simpa [runFrom, mutations, isMutation] using this
    | effect m c =>
      have := ih (.effect m c :: acc) (by simpa [runFrom] using hr)
      simpa [runFrom, mutations, isMutation] using this
    | ret => simp [runFrom, mutations]

/-- when exactly a well-shaped `add` raises -/
theorem raised_iff (f : Nat → Bool) (ir : Bool) (p acc : List Ev) (h1 : checksFirst p = true) (h2 : insertFirst p = true) :
    (runFrom f ir p acc).raised = true ↔ (∃ k ∈ checkIds p, f k = true) ∨ (ir = true ∧ Ev.insert ∈ p) := by
  induction p generalizing acc with
  | nil => simp [runFrom, checkIds]
  | cons e rest ih =>
    cases e with
    | check k =>
      have := ih acc (by simpa [checksFirst] using h1) (by simpa [insertFirst] using h2)
      cases hk : f k with
      | true => simp [runFrom, hk, checkIds]
      | false => simp [runFrom, hk, checkIds, this]
    | insert =>
      have hq : rest.all quiet = true := by simpa [checksFirst] using h1
      have hn := quiet_no_checks rest hq
      cases ir with
      | true => simp [runFrom]
      | false =>
        have := quiet_no_raise f false rest (.insert :: acc) hq
        simp [runFrom, this, checkIds, hn.1]
    | set g c => simp [insertFirst] at h2
    | effect m c => simp [insertFirst] at h2
    | ret => simp [insertFirst] at h2

end Aeic.AddProg
