/-
  Helper lemmas for C17: the loop of `_iterate_mass`.
-/
import AeicProofs.RealInst
import AeicModel.Builder

namespace Aeic.Builder
open Aeic
variable {τ : Type}

/-- errors of `_iterate_mass`: non-convergence, or the error some iteration raised -/
theorem iterLoop_error (flyIt : ℝ → ℝ → Except Err (τ × ℝ)) (tol : ℝ) (e : Err) :
    ∀ (k : ℕ) (sm tfm : ℝ) (r : τ × ℝ), iterLoop flyIt tol k sm tfm r = .error e →
      e = .nonConvergence ∨ ∃ sm' tfm', flyIt sm' tfm' = .error e := by
  intro k
  induction k with
  | zero => intro sm tfm r h; simp [iterLoop] at h; exact Or.inl h.symm
  | succ k ih =>
    intro sm tfm r h
    obtain ⟨t, res⟩ := r
    unfold iterLoop at h
    split_ifs at h
    dsimp only at h
    cases hf : flyIt (sm - res * tfm) (tfm - res * tfm) with
    | error e' => rw [hf] at h; cases h; exact Or.inr ⟨_, _, hf⟩
    | ok r' => rw [hf] at h; exact ih _ _ _ h

theorem iterLoop_sound (flyIt : ℝ → ℝ → Except Err (τ × ℝ)) (tol : ℝ) :
    ∀ (k : ℕ) (sm tfm : ℝ) (r : τ × ℝ) (t : τ) (sm' tfm' : ℝ), flyIt sm tfm = .ok r →
      iterLoop flyIt tol k sm tfm r = .ok (t, sm', tfm') →
      ∃ res, flyIt sm' tfm' = .ok (t, res) ∧ |res| < tol := by
  intro k
  induction k with
  | zero => intro sm tfm r t sm' tfm' _ h; simp [iterLoop] at h
  | succ k ih =>
    intro sm tfm r t sm' tfm' hr h
    obtain ⟨t0, res⟩ := r
    unfold iterLoop at h
    split_ifs at h with hc
    · cases h
      refine ⟨res, hr, ?_⟩
      have : sabs res = |res| := by
        unfold sabs; simp only [zero_real]
        split_ifs with h0
        · exact (abs_of_neg h0).symm
        · exact (abs_of_nonneg (not_lt.mp h0)).symm
      rwa [this] at hc
    · dsimp only at h
      cases hf : flyIt (sm - res * tfm) (tfm - res * tfm) with
      | error e' => rw [hf] at h; cases h
      | ok r' => rw [hf] at h; exact ih _ _ _ _ _ _ hf h

end Aeic.Builder
