/- `save`: an in-memory store becomes a file-backed one holding exactly the same list. -/
import AeicProofs.Lemmas.StoreFlight

namespace Aeic.Store

theorem keyed_getElem {l : List (Nat × Item)} {n : Nat} (h : l.map (·.1) = List.range n) {k : Nat} {it : Item}
    (hx : (k, it) ∈ l) : (l.map (·.2))[k]? = some it := by
  obtain ⟨i, hi, hget⟩ := List.getElem_of_mem hx
  have h1 : (l.map (·.1))[i]? = some k := by simp [List.getElem?_eq_getElem hi, hget]
  rw [h] at h1
  have hk : i = k := by
    rw [List.getElem?_range] at h1
    · simpa using h1
    · have := congrArg List.length h; simp at this; omega
  subst hk
  simp [List.getElem?_eq_getElem hi, hget]

theorem save_spec (w : World) (s : Sess) (hw : WInv w) (hs : w.sess = some s) :
    WInv (opSave w s).1 ∧ specStep (absW w) .save = (absW (opSave w s).1, (opSave w s).2) := by
  have hsi := hw.sess s hs
  have hsess : (absW w).sess = some (absSess w.disk s) := by simp [absW, hs]
  unfold opSave
  by_cases hm : s.mem = true
  · obtain ⟨hl, hp, hmode, hkeys⟩ := hsi.memShape hm
    rw [if_neg (by simp [hl])]
    by_cases hpres : w.disk.present = true
    · rw [if_pos hpres]
      refine ⟨hw, ?_⟩
      simp [specStep, hs, absSess, hm, absW, hpres]
    · rw [if_neg hpres]
      have hpres : w.disk.present = false := by simpa using hpres
      cases hent : s.cache.entries with
      | nil =>
        refine ⟨hw, ?_⟩
        simp [specStep, hs, absSess, hm, absW, hpres, hent]
      | cons e rest =>
        obtain ⟨b, hix, hall⟩ := (hsi.memSchema hm).2 e rest hent
        have hlen : s.cache.entries.length = s.nextIndex := by
          have := congrArg List.length hkeys; simpa using this
        simp only
        refine ⟨⟨⟨by simp, ?_⟩, ?_, ?_, MemStale.of_not_mem rfl⟩, ?_⟩
        · intro x hx
          simp only [List.mem_map] at hx
          obtain ⟨y, hy, rfl⟩ := hx
          rw [← hent] at hy
          have := hall y hy
          simp only [hix]
          cases b <;> simp_all
        · intro t ht; cases ht
          refine ⟨rfl, hsi.small, by simp, by simp, by simp, by simp, ?_⟩
          intro _ _
          refine ⟨?_, ?_, ?_⟩
          · intro k x hx
            simp only at hx ⊢
            rw [← hent]
            exact keyed_getElem hkeys hx
          · intro _; simp [← hent, hlen]
          · simp only [hix]; cases b <;> simp
        · intro hx hst
          simp only [hix] at hx
          have hb : b = true := by cases b <;> simp_all
          subst hb
          have h1 := hw.memStale s hs hm hix (by rw [hent]; simp)
          have h2 := hst _ rfl rfl
          simp only at h2
          rw [h1] at h2; cases h2
        · have hfs : (absW w).present = false := by simp [absW, hpres]
          have hmi : (absW w).memItems = e.2 :: rest.map (·.2) := by simp [absW, hs, hm, hent]
          simp only [specStep, hsess, hfs, hmi]
          simp [absSess, hm, absW, absSchema, hix, hl, hent]
  · have hm' : s.mem = false := by simpa using hm
    obtain ⟨hlp, hpl⟩ := hsi.fileShape hm'
    by_cases hl : s.linked = true
    · rw [if_pos hl]
      refine ⟨hw, ?_⟩
      simp [specStep, hs, absSess, hm', absW, ← hlp, hl]
    · have hl' : s.linked = false := by simpa using hl
      obtain ⟨_, hent, _, _⟩ := hsi.pendingShape hm' hl'
      have hpres : w.disk.present = false := by rw [← hlp]; exact hl'
      rw [if_neg hl, if_neg (by simp [hpres]), hent]
      refine ⟨hw, ?_⟩
      simp [specStep, hs, absSess, hm', absW, hpres]

end Aeic.Store
