/-
  The crossing points computed by the model (latitudes and longitudes sorted *independently* in the direction of
  travel, as the code does) are points of the segment's straight map line.
-/
import AeicProofs.Lemmas.GridGeom
import AeicProofs.Lemmas.GridSum

namespace Aeic.Grid

open Aeic

/-- `p = (lat, lon)` lies on the straight map line through the segment's end points -/
def OnLine (s : Seg ℝ) (p : ℝ × ℝ) : Prop :=
  (p.2 - s.lon0) * (s.lat1 - s.lat0) = (s.lon1 - s.lon0) * (p.1 - s.lat0)

theorem sortDir_perm (b : Bool) (l : List ℝ) : (sortDir b l).Perm l := by
  unfold sortDir
  split_ifs
  · have h := (sortAsc_perm (l.map (fun x => -x))).map (fun x => -x)
    have e : (l.map (fun x => -x)).map (fun x => -x) = l := by simp [List.map_map]
    rw [e] at h; exact h
  · exact sortAsc_perm l

theorem coordInts_const (g : List ℝ) (x0 : ℝ) (extra : List ℝ) (hex : ∀ e ∈ extra, e = x0) :
    ∀ e ∈ coordInts g x0 x0 extra, e = x0 := by
  intro e he
  unfold coordInts at he
  rw [mem_sortDir, List.mem_append] at he
  rcases he with he | he
  · simp [coordLines, linesCrossed_self] at he
  · exact hex e he

theorem sortDir_sorted_rel (b : Bool) (l : List ℝ) :
    (sortDir b l).Pairwise (fun x y => if b then x ≥ y else x ≤ y) := by
  cases b
  · simpa using sortDir_up_sorted l
  · simpa using sortDir_down_sorted l

/-- when the segment is neither along a parallel nor along a meridian, the independently sorted longitudes are
    the images of the independently sorted latitudes under the line's equation -/
theorem intLons_eq_map (glat glon : List ℝ) (s : Seg ℝ) (hlat : s.lat1 ≠ s.lat0) (hlon : s.lon1 ≠ s.lon0) :
    intLons glat glon s = (intLats glat glon s).map (lonForLat s) := by
  have hdlat : s.lat1 - s.lat0 ≠ 0 := sub_ne_zero.2 hlat
  have hdlon : s.lon1 - s.lon0 ≠ 0 := sub_ne_zero.2 hlon
  have hslope : lineSlope s ≠ 0 := div_ne_zero hdlon hdlat
  have hinf : slopeInf s = false := (slopeInf_real_false s).2 hlat
  -- permutation
  have hinv : ∀ m, lonForLat s (latForLon s m) = m := by
    intro m
    unfold lonForLat latForLon
    rw [hinf]; simp only [Bool.false_eq_true, if_false]
    field_simp
    ring
  have hperm : (intLons glat glon s).Perm ((intLats glat glon s).map (lonForLat s)) := by
    unfold intLons intLats coordInts
    refine (sortDir_perm _ _).trans (List.Perm.trans ?_ ((sortDir_perm _ _).map _).symm)
    rw [List.map_append, List.map_map]
    have : (lonLines glon s).map (lonForLat s ∘ latForLon s) = lonLines glon s := by
      simp [Function.comp_def, hinv]
    rw [this]
    exact List.perm_append_comm
  -- both sides are sorted in the direction of the longitude's travel
  have hslope_eq : ∀ a b, lonForLat s b - lonForLat s a = lineSlope s * (b - a) := by
    intro a b; unfold lonForLat; ring
  have h2 := sortDir_sorted_rel (decide (s.lon1 - s.lon0 < zero))
    (coordLines glon s.lon0 s.lon1 ++ (latLines glat s).map (lonForLat s))
  have h1 := sortDir_sorted_rel (decide (s.lat1 - s.lat0 < zero))
    (coordLines glat s.lat0 s.lat1 ++ (lonLines glon s).map (latForLon s))
  have hsl : lineSlope s = (s.lon1 - s.lon0) / (s.lat1 - s.lat0) := rfl
  refine List.Perm.eq_of_pairwise (le := fun x y => if decide (s.lon1 - s.lon0 < zero) then x ≥ y else x ≤ y)
    ?_ h2 ?_ hperm
  · intro a b _ _ hab hba
    split_ifs at hab hba
    · exact le_antisymm hba hab
    · exact le_antisymm hab hba
  · unfold intLats coordInts
    rw [List.pairwise_map]
    refine h1.imp ?_
    intro a b hab
    simp only [zero_real, decide_eq_true_eq] at hab ⊢
    have hd := hslope_eq a b
    rcases lt_or_gt_of_ne hdlat with hlat' | hlat' <;> rcases lt_or_gt_of_ne hdlon with hlon' | hlon'
    · have hpos : 0 < lineSlope s := by rw [hsl]; exact div_pos_of_neg_of_neg hlon' hlat'
      simp only [hlat', hlon', if_true] at hab ⊢
      nlinarith
    · have hneg : lineSlope s < 0 := by rw [hsl]; exact div_neg_of_pos_of_neg hlon' hlat'
      have : ¬ (s.lon1 - s.lon0 < 0) := not_lt.mpr hlon'.le
      simp only [hlat', this, if_true, if_false] at hab ⊢
      nlinarith
    · have hneg : lineSlope s < 0 := by rw [hsl]; exact div_neg_of_neg_of_pos hlon' hlat'
      have : ¬ (s.lat1 - s.lat0 < 0) := not_lt.mpr hlat'.le
      simp only [hlon', this, if_true, if_false] at hab ⊢
      nlinarith
    · have hpos : 0 < lineSlope s := by rw [hsl]; exact div_pos hlon' hlat'
      have h1' : ¬ (s.lat1 - s.lat0 < 0) := not_lt.mpr hlat'.le
      have h2' : ¬ (s.lon1 - s.lon0 < 0) := not_lt.mpr hlon'.le
      simp only [h1', h2', if_false] at hab ⊢
      nlinarith

theorem lonForLat_onLine (s : Seg ℝ) (hlat : s.lat1 ≠ s.lat0) (x : ℝ) : OnLine s (x, lonForLat s x) := by
  have hdlat : s.lat1 - s.lat0 ≠ 0 := sub_ne_zero.2 hlat
  unfold OnLine lonForLat lineIcpt lineSlope
  simp only
  field_simp
  ring

/-- **every point of the model's chain lies on the segment's straight map line** -/
theorem chain_on_line (glat glon : List ℝ) (s : Seg ℝ) : ∀ p ∈ chain glat glon s, OnLine s p := by
  intro p hp
  rw [chain_eq] at hp
  rcases List.mem_cons.1 hp with rfl | hp
  · simp [OnLine]
  rcases List.mem_append.1 hp with hp | hp
  · by_cases hlat : s.lat1 = s.lat0
    · -- along a parallel: every crossing latitude is the start latitude
      have hall := coordInts_const glat s.lat0 ((lonLines glon s).map (latForLon s)) (by
        intro e he
        obtain ⟨m, _, rfl⟩ := List.mem_map.1 he
        unfold latForLon; rw [if_pos ((slopeInf_real s).2 hlat)])
      have h1 : p.1 = s.lat0 := by
        have := (List.of_mem_zip hp).1
        unfold intLats at this
        rw [hlat] at this
        exact hall _ this
      unfold OnLine; rw [h1, hlat]; ring
    · by_cases hlon : s.lon1 = s.lon0
      · have hall := coordInts_const glon s.lon0 ((latLines glat s).map (lonForLat s)) (by
          intro e he
          obtain ⟨l, _, rfl⟩ := List.mem_map.1 he
          unfold lonForLat lineIcpt lineSlope
          rw [hlon]; simp)
        have h2 : p.2 = s.lon0 := by
          have := (List.of_mem_zip hp).2
          unfold intLons at this
          rw [hlon] at this
          exact hall _ this
        unfold OnLine; rw [h2, hlon]; ring
      · rw [intLons_eq_map glat glon s hlat hlon] at hp
        obtain ⟨q, _, rfl⟩ := mem_zip_map_self _ _ hp
        exact lonForLat_onLine s hlat q
  · have : p = (s.lat1, s.lon1) := by simpa using hp
    rw [this]; unfold OnLine; ring

end Aeic.Grid
