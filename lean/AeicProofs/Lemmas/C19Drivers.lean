/-
  Helper lemmas for C19: loop invariants of the four iteration drivers, for an arbitrary
  mass-vector ↦ burn-per-metre-vector map `burnOf`.  (No property statements here.)
-/
import AeicProofs.Lemmas.C19Lists

namespace Aeic.Bada
open Aeic

variable (burnOf : List ℝ → List ℝ) (dx : List ℝ)

/-! ### every loop returns something reachable by its step function from the start value -/

theorem constInitLoop_inv (I : List ℝ → Prop) (hstep : ∀ m, I m → I (fwdStep burnOf dx m)) :
    ∀ (k : Nat) (mass : List ℝ) (old : ℝ), I mass → I (constInitLoop burnOf dx k mass old) := by
  intro k
  induction k with
  | zero => intro mass old h; simpa [constInitLoop] using h
  | succ k ih =>
    intro mass old h
    simp only [constInitLoop]
    split_ifs
    · exact hstep _ h
    · exact ih _ _ (hstep _ h)

theorem constFinalLoop_inv (I : List ℝ → Prop) (hstep : ∀ m, I m → I (bwdStep burnOf dx m)) :
    ∀ (k : Nat) (mass : List ℝ) (old : ℝ), I mass → I (constFinalLoop burnOf dx k mass old) := by
  intro k
  induction k with
  | zero => intro mass old h; simpa [constFinalLoop] using h
  | succ k ih =>
    intro mass old h
    simp only [constFinalLoop]
    split_ifs
    · exact hstep _ h
    · exact ih _ _ (hstep _ h)

theorem fuelDepLoop_inv (step : List ℝ → List ℝ) (I : List ℝ → Prop) (hstep : ∀ m, I m → I (step m)) :
    ∀ (k : Nat) (mass : List ℝ) (old : ℝ), I mass → I (fuelDepLoop step k mass old) := by
  intro k
  induction k with
  | zero => intro mass old h; simpa [fuelDepLoop] using h
  | succ k ih =>
    intro mass old h
    simp only [fuelDepLoop]
    split_ifs
    · exact hstep _ h
    · exact ih _ _ (hstep _ h)

/-- after at least one pass the result of the fuel-dependent loop is an output of the loop body. -/
theorem fuelDepLoop_succ_is_step (step : List ℝ → List ℝ) :
    ∀ (k : Nat) (mass : List ℝ) (old : ℝ), ∃ m', fuelDepLoop step (k + 1) mass old = step m' := by
  intro k
  induction k with
  | zero =>
    intro mass old
    refine ⟨mass, ?_⟩
    simp only [fuelDepLoop]; split_ifs <;> rfl
  | succ k ih =>
    intro mass old
    rw [fuelDepLoop]
    split_ifs
    · exact ⟨mass, rfl⟩
    · exact ih _ _

/-! ### shapes -/

theorem headD_replicate (n : Nat) (a : ℝ) (hn : 0 < n) : headD (List.replicate n a) = a := by
  cases n with
  | zero => omega
  | succ n => simp [headD, List.replicate_succ]

theorem lastD_replicate (n : Nat) (a : ℝ) (hn : 0 < n) : lastD (List.replicate n a) = a := by
  induction n with
  | zero => omega
  | succ n ih =>
    cases n with
    | zero => simp [lastD]
    | succ n =>
      have := ih (by omega)
      simp only [lastD, List.replicate_succ, List.getLastD_cons] at this ⊢
      exact this

theorem lastD_massBwd (mL : ℝ) (b : List ℝ) : lastD (massBwd mL b dx) = mL := by
  unfold massBwd lastD; simp

theorem headD_massFwd (m0 : ℝ) (b : List ℝ) : headD (massFwd m0 b dx) = m0 := by
  unfold massFwd headD; simp

theorem headD_fwdStep (m : List ℝ) : headD (fwdStep burnOf dx m) = headD m := by
  unfold fwdStep; exact headD_massFwd dx _ _

theorem lastD_bwdStep (m : List ℝ) : lastD (bwdStep burnOf dx m) = lastD m := by
  unfold bwdStep; exact lastD_massBwd dx _ _

theorem lastD_massFwd (m0 : ℝ) (b : List ℝ) : lastD (massFwd m0 b dx) = m0 - (trapTerms b dx).sum := by
  rw [massFwd_eq, lastD_downs]

theorem clip_bounds (x : ℝ) :
    0 ≤ smin (smax x (Lit.dec 0 0)) (Lit.dec 4 1) ∧ smin (smax x (Lit.dec 0 0)) (Lit.dec 4 1) ≤ (4 : ℝ) / 10 := by
  have h4 : (Lit.dec 4 1 : ℝ) = 4 / 10 := by simp [lit_real]
  rw [smin_real, smax_real, lit0, h4]
  exact ⟨le_min (le_max_right _ _) (by norm_num), min_le_right _ _⟩

theorem massFwd_length (m0 : ℝ) (b : List ℝ) :
    (massFwd m0 b dx).length = min (b.length - 1) dx.length + 1 := by
  rw [massFwd_eq]; simp [downsTail_length, trapTerms_length]

theorem massBwd_length (mL : ℝ) (b : List ℝ) :
    (massBwd mL b dx).length = min (b.length - 1) dx.length + 1 := by
  rw [massBwd_eq]; simp [upsTail_length, trapTerms_length]

theorem diffs_massFwd (m0 : ℝ) (b : List ℝ) : diffs (massFwd m0 b dx) = trapTerms b dx := by
  rw [massFwd_eq, diffs_downs]

theorem diffs_massBwd (mL : ℝ) (b : List ℝ) (h : b.length = dx.length + 1) :
    diffs (massBwd mL b dx) = trapTerms b dx := by
  rw [massBwd_eq, diffs_reverse, rdiffs_ups, trapTerms_reverse b dx h, List.reverse_reverse]

/-- fuel burnt over the whole profile does not depend on where the profile is anchored. -/
theorem burn_massFwd (m0 : ℝ) (b : List ℝ) :
    headD (massFwd m0 b dx) - lastD (massFwd m0 b dx) = (trapTerms b dx).sum := by
  rw [headD_massFwd, massFwd_eq, lastD_downs]; ring

theorem takeoffMass_le_mtow (rfFrac : Bool) (mtow oew mpl lf rf fb : ℝ) :
    takeoffMass rfFrac mtow oew mpl lf rf fb ≤ mtow := by
  have key : ∀ w : ℝ, (if mtow < w then mtow else w) ≤ mtow := by
    intro w; split_ifs with h
    · exact le_refl _
    · exact not_lt.mp h
  exact key _

theorem mps_to_knots_pos : (0 : ℝ) < Gen.MPS_TO_KNOTS := by
  unfold Gen.MPS_TO_KNOTS Gen.KNOTS_TO_MPS; simp only [lit_real]; norm_num

theorem burnVec_length (e : Engine) (P : Params ℝ) (pts : List (Pt ℝ)) (n : Nat) (hp : pts.length = n) :
    ∀ m : List ℝ, m.length = n → (burnVec e P pts m).length = n := by
  intro m hm; unfold burnVec sgrVec; simp [hm, hp]

end Aeic.Bada
