/- `add`: concrete step vs abstract specification step. -/
import Mathlib.Tactic.ByContra
import Mathlib.Tactic.SplitIfs
import AeicProofs.Lemmas.StoreSteps

namespace Aeic.Store

theorem protoCheck_eq (s : Sess) (it : Item) :
    ∃ o, (protoCheck s it).1 = { s with cache := { s.cache with order := o } } := by
  unfold protoCheck
  split
  · exact ⟨s.cache.order, rfl⟩
  · exact ⟨_, rfl⟩

theorem protoCheck_ok (s : Sess) (it : Item) :
    (protoCheck s it).2 = (match s.cache.entries with | [] => true | e :: _ => decide (e.2.fs = it.fs)) := by
  unfold protoCheck
  split <;> simp_all

theorem SessInv.reorder {d : Disk} {s : Sess} (h : SessInv d s) (o : List Nat) :
    SessInv d { s with cache := { s.cache with order := o } } :=
  ⟨h.noEvict, h.small, h.memShape, h.memSchema, h.fileShape, h.pendingShape, h.linkedShape⟩

theorem absW_reorder (w : World) (s : Sess) (o : List Nat) (hs : w.sess = some s) :
    absW ⟨w.disk, some { s with cache := { s.cache with order := o } }⟩ = absW w := by
  simp [absW, hs, absSess, absSchema]

theorem WInv.reorder {w : World} (hw : WInv w) (s : Sess) (o : List Nat) (hs : w.sess = some s) :
    WInv ⟨w.disk, some { s with cache := { s.cache with order := o } }⟩ := by
  refine ⟨hw.disk, ?_, ?_, ?_⟩
  rotate_left 2
  · intro s' hs' hm hi he; cases hs'; exact hw.memStale s hs hm hi he
  · intro s' hs'; cases hs'; exact (hw.sess s hs).reorder o
  · intro hx hst
    apply hw.index hx
    intro s' hs' hl
    rw [hs] at hs'; cases hs'
    exact hst { s with cache := { s.cache with order := o } } rfl hl

end Aeic.Store

namespace Aeic.Store

def addCore (d : Disk) (s : Sess) (ok : Bool) (it : Item) : World × Out :=
  if !ok || !addChecks s d it then (⟨d, some s⟩, .err .valueError) else
  match s.cache.insert s.nextIndex it with
  | .error e => (⟨d, some s⟩, .err e)
  | .ok c => commitAdd d s it c

theorem opAdd_eq (w : World) (s : Sess) (it : Item) :
    opAdd w s it = if s.mode = .read then (w, .err .runtimeError)
      else addCore w.disk (protoCheck s it).1 (protoCheck s it).2 it := by
  unfold opAdd addCore
  split
  · rfl
  · rfl

theorem sizeOfEntries_map (es : List (Nat × Item)) :
    sizeOfEntries es = ((es.map (·.2)).map (·.bytes)).sum := by
  simp [sizeOfEntries, List.map_map, Function.comp_def]


/-- the implementation's verdict on an `add` (after the prototype has been read) -/
def implRefusal (d : Disk) (s : Sess) (it : Item) : Option Err :=
  let ok := match s.cache.entries with | [] => true | e :: _ => decide (e.2.fs = it.fs)
  if !ok || !addChecks s d it then some .valueError else
  match s.cache.insert s.nextIndex it with
  | .error e => some e
  | .ok _ => none

theorem refusal_mem (d : Disk) (s : Sess) (it : Item) (hs : SessInv d s) (hm : s.mem = true) :
    implRefusal d s it = specAddRefusal (absSess d s) (visible d s) it := by
  obtain ⟨hl, hp, hmode, hkeys⟩ := hs.memShape hm
  have hne : s.cache.noEvict = true := by rw [hs.noEvict, hm]
  have hsz := sizeOfEntries_map s.cache.entries
  unfold implRefusal specAddRefusal addChecks absSess absSchema visible
  rw [insert_noEvict hne]
  simp only [hl, hm, if_true]
  cases hent : s.cache.entries with
  | nil =>
    have hix := (hs.memSchema hm).1 hent
    simp only [hix, hent, sizeOfEntries]
    cases it.complete <;> simp
    split_ifs <;> simp_all <;> omega
  | cons e rest =>
    obtain ⟨b, hix, hall⟩ := (hs.memSchema hm).2 e rest hent
    rw [hent] at hsz
    simp only [hix, hsz]
    cases it.complete <;> cases hb : (b == it.fid.isSome) <;> cases hf : decide (e.2.fs = it.fs) <;>
      simp_all <;> split_ifs <;> simp_all <;> omega


theorem insert_evict_class {c : Cache} (k : Nat) (v : Item) (hn : c.noEvict = false) :
    (v.bytes > c.maxBytes ∧ c.insert k v = .error .valueError) ∨
    (v.bytes ≤ c.maxBytes ∧ ∃ c', c.insert k v = .ok c') := by
  by_cases hbig : v.bytes > c.maxBytes
  · exact Or.inl ⟨hbig, insert_too_large hbig⟩
  · exact Or.inr ⟨by omega, insert_evict_ok hn (by omega)⟩

theorem refusal_file (d : Disk) (s : Sess) (it : Item) (hd : DiskInv d) (hs : SessInv d s) (hm : s.mem = false) :
    implRefusal d s it = specAddRefusal (absSess d s) (visible d s) it := by
  have hne : s.cache.noEvict = false := by rw [hs.noEvict, hm]
  unfold implRefusal specAddRefusal addChecks absSess absSchema visible
  simp only [hm]
  by_cases hl : s.linked = true
  · obtain ⟨hcache, _, hix⟩ := hs.linkedShape hm hl
    have hok : (match s.cache.entries with | [] => true | e :: _ => decide (e.2.fs = it.fs)) =
        (s.cache.entries.isEmpty || decide (d.fs = it.fs)) := by
      cases hent : s.cache.entries with
      | nil => simp
      | cons e rest =>
        have hmem : (e.1, e.2) ∈ s.cache.entries := by rw [hent]; simp
        have h1 := hcache e.1 e.2 hmem
        have h2 := (hd.uniform e.2 (List.mem_of_getElem? h1)).1
        simp [h2]
    rw [hok]
    simp only [hix, hl]
    rcases insert_evict_class s.nextIndex it hne with ⟨hbig, hins⟩ | ⟨hle, c', hins⟩
    · rw [hins]
      cases it.complete <;> cases (d.hasIndex == it.fid.isSome) <;> cases hf : decide (d.fs = it.fs) <;>
        cases s.cache.entries.isEmpty <;> simp_all
    · rw [hins]
      have : ¬ it.bytes > s.cache.maxBytes := by omega
      cases it.complete <;> cases hb : (d.hasIndex == it.fid.isSome) <;> cases hf : decide (d.fs = it.fs) <;>
        cases s.cache.entries.isEmpty <;> simp_all <;> (intro h; exact hf h.symm)
  · have hl' : s.linked = false := by simpa using hl
    obtain ⟨_, hent, _, hix⟩ := hs.pendingShape hm hl'
    simp only [hix, hent, hl']
    rcases insert_evict_class s.nextIndex it hne with ⟨hbig, hins⟩ | ⟨hle, c', hins⟩
    · rw [hins]; cases it.complete <;> simp_all
    · rw [hins]
      have : ¬ it.bytes > s.cache.maxBytes := by omega
      cases it.complete <;> simp_all


theorem refusal_none {d : Disk} {s : Sess} {it : Item} (h : implRefusal d s it = none) :
    (match s.cache.entries with | [] => true | e :: _ => decide (e.2.fs = it.fs)) = true ∧
    addChecks s d it = true ∧ ∃ c, s.cache.insert s.nextIndex it = .ok c := by
  unfold implRefusal at h
  simp only at h
  generalize (match s.cache.entries with | [] => true | e :: _ => decide (e.2.fs = it.fs)) = ok at h ⊢
  cases ok <;> cases hck : addChecks s d it <;> simp [hck] at h ⊢
  cases hins : s.cache.insert s.nextIndex it with
  | error e => simp [hins] at h
  | ok c => exact ⟨c, rfl⟩

theorem addChecks_true {d : Disk} {s : Sess} {it : Item} (h : addChecks s d it = true) :
    (∀ b, s.indexable = some b → b = it.fid.isSome) ∧ (s.linked = true → it.fs = d.fs) ∧ it.complete = true := by
  unfold addChecks at h
  simp only [Bool.and_eq_true, Bool.not_eq_true', Bool.and_eq_false_iff] at h
  obtain ⟨⟨h1, h2⟩, h3⟩ := h
  refine ⟨?_, ?_, h3⟩
  · intro b hb; rw [hb] at h1; simpa using h1
  · intro hl
    rcases h2 with h2 | h2
    · rw [hl] at h2; cases h2
    · simpa using h2

/-- accepted `add` on an in-memory store -/
theorem commit_mem (d : Disk) (s : Sess) (it : Item) (c : Cache) (hw : WInv ⟨d, some s⟩) (hm : s.mem = true)
    (href : implRefusal d s it = none) (hins : s.cache.insert s.nextIndex it = .ok c) :
    WInv (commitAdd d s it c).1 ∧
    specAddSuccess (absW ⟨d, some s⟩) (absSess d s) it = (absW (commitAdd d s it c).1, (commitAdd d s it c).2) := by
  have hs := hw.sess s rfl
  obtain ⟨hl, hp, hmode, hkeys⟩ := hs.memShape hm
  have hne : s.cache.noEvict = true := by rw [hs.noEvict, hm]
  have hlen : s.cache.entries.length = s.nextIndex := by
    have := congrArg List.length hkeys; simpa using this
  obtain ⟨hok, hchk, _⟩ := refusal_none href
  obtain ⟨hb, _, _⟩ := addChecks_true hchk
  obtain ⟨hmax, hnev, hle⟩ := insert_max hins
  have hc : c = { s.cache with entries := s.cache.entries ++ [(s.nextIndex, it)],
                               order := s.cache.order.filter (· != s.nextIndex) ++ [s.nextIndex] } := by
    rw [insert_noEvict hne] at hins
    split_ifs at hins
    cases hins; rfl
  subst hc
  unfold commitAdd
  simp only [hl, hp, Bool.or_false, Bool.false_eq_true, if_false]
  refine ⟨⟨hw.disk, ?_, ?_, ?_⟩, ?_⟩
  · intro s' hs'; cases hs'
    refine ⟨by simp [hne, hm], ?_, ?_, ?_, by simp [hm], by simp [hm], by simp [hm]⟩
    · intro k x hx
      simp only [List.mem_append, List.mem_singleton, Prod.mk.injEq] at hx
      rcases hx with hx | hx
      · exact hs.small k x hx
      · rw [hx.2]; exact hle
    · intro _; simp [hmode, hkeys, List.range_succ]
    · intro _
      refine ⟨by simp, ?_⟩
      intro e' rest' he'
      cases hent : s.cache.entries with
      | nil =>
        rw [hent] at he'
        simp only [List.nil_append, List.cons.injEq] at he'
        refine ⟨_, rfl, ?_⟩
        intro x hx
        simp only [hent, List.nil_append, List.mem_singleton] at hx
        have hix := (hs.memSchema hm).1 hent
        subst hx
        rw [← he'.1]
        simp [hix]
      | cons e rest =>
        obtain ⟨b, hix, hall⟩ := (hs.memSchema hm).2 e rest hent
        rw [hent] at he'
        simp only [List.cons_append, List.cons.injEq] at he'
        refine ⟨b, by simp [hix], ?_⟩
        intro x hx
        simp only [List.mem_append, List.mem_singleton] at hx
        rw [← he'.1]
        rcases hx with hx | hx
        · exact hall x (hent ▸ hx)
        · subst hx
          rw [hent] at hok
          simp only [decide_eq_true_eq] at hok
          exact ⟨hok.symm, (hb b hix).symm⟩
  · intro hx hst
    exact hw.index hx (by intro s' hs' hl'; cases hs'; rw [hl] at hl'; cases hl')
  · intro s' hs' _ hi _; cases hs'
    simp only [Option.some.injEq] at hi ⊢
    rw [hi]; simp
  · unfold specAddSuccess absW absSess absSchema
    simp only [hm, if_true, Option.map_some, hl]
    cases hent : s.cache.entries with
    | nil =>
      have hix := (hs.memSchema hm).1 hent
      simp [hix, ← hlen, hent]
    | cons e rest =>
      obtain ⟨b, hix, hall⟩ := (hs.memSchema hm).2 e rest hent
      simp [hix, ← hlen, hent]


/-- accepted `add` on a file-backed store (first add of a CREATE session, or a linked session) -/
theorem commit_file (d : Disk) (s : Sess) (it : Item) (c : Cache) (hw : WInv ⟨d, some s⟩) (hm : s.mem = false)
    (hmode : s.mode ≠ .read)
    (href : implRefusal d s it = none) (hins : s.cache.insert s.nextIndex it = .ok c) :
    WInv (commitAdd d s it c).1 ∧
    specAddSuccess (absW ⟨d, some s⟩) (absSess d s) it = (absW (commitAdd d s it c).1, (commitAdd d s it c).2) := by
  have hs := hw.sess s rfl
  have hd := hw.disk
  simp only at hs hd
  obtain ⟨hok, hchk, _⟩ := refusal_none href
  obtain ⟨hb, hfs, _⟩ := addChecks_true hchk
  obtain ⟨hmax, hnev, hle⟩ := insert_max hins
  obtain ⟨hlp, hpl⟩ := hs.fileShape hm
  by_cases hl : s.linked = true
  · -- linked session
    obtain ⟨hcache, hnext, hix⟩ := hs.linkedShape hm hl
    have hp : s.pending = false := by rw [hpl, hl]; rfl
    have hn := hnext hmode
    have hfid := hb _ hix
    have hfs' := hfs hl
    unfold commitAdd
    simp only [hl, hp, Bool.true_or, Bool.false_eq_true, if_false, if_true, hix]
    refine ⟨⟨⟨?_, ?_⟩, ?_, ?_, MemStale.of_not_mem hm⟩, ?_⟩
    · intro hpres; rw [← hlp, hl] at hpres; cases hpres
    · intro x hx
      simp only [List.mem_append, List.mem_singleton] at hx
      rcases hx with hx | hx
      · exact hd.uniform x hx
      · subst hx; exact ⟨hfs', hfid.symm⟩
    · intro s' hs'; cases hs'
      refine ⟨by simp [hnev, hs.noEvict], ?_, by simp [hm], by simp [hm], by simp [← hlp, hl], by simp, ?_⟩
      · intro k x hx
        simp only at hx ⊢
        rcases insert_mem hins _ hx with h | h
        · rw [hmax]; exact hs.small k x h
        · cases h; rw [hmax]; exact hle
      · intro _ _
        refine ⟨?_, by simp [hn], by simp⟩
        intro k x hx
        simp only at hx ⊢
        rcases insert_mem hins _ hx with h | h
        · have := hcache k x h
          have hlt : k < d.items.length := (List.getElem?_eq_some_iff.mp this).1
          rw [List.getElem?_append_left hlt]; exact this
        · cases h; rw [hn]; simp
    · intro hx hst
      simp only at hx
      have := hst _ rfl rfl
      simp only [hx, Bool.or_true] at this
      cases this
    · unfold specAddSuccess absW absSess absSchema
      simp [hm, hix, hl, ← hlp, hn, hmax]
  · -- first add of a file-backed CREATE session
    have hl' : s.linked = false := by simpa using hl
    obtain ⟨_, hent, hnext, hix⟩ := hs.pendingShape hm hl'
    have hp : s.pending = true := by rw [hpl, hl']; rfl
    have hpres : d.present = false := by rw [← hlp]; exact hl'
    unfold commitAdd
    simp only [hl', hp, Bool.false_or, if_true, hix, hnext]
    refine ⟨⟨⟨by simp, ?_⟩, ?_, ?_, MemStale.of_not_mem hm⟩, ?_⟩
    · intro x hx; simp at hx; subst hx; simp
    · intro s' hs'; cases hs'
      refine ⟨by simp [hnev, hs.noEvict], ?_, by simp [hm], by simp [hm], by simp, by simp, ?_⟩
      · intro k x hx
        simp only at hx ⊢
        rcases insert_mem hins _ hx with h | h
        · rw [hmax]; exact hs.small k x h
        · cases h; rw [hmax]; exact hle
      · intro _ _
        refine ⟨?_, by simp, by simp⟩
        intro k x hx
        simp only at hx ⊢
        rcases insert_mem hins _ hx with h | h
        · rw [hent] at h; cases h
        · cases h; rw [hnext]; simp
    · intro hx hst
      simp only at hx
      have := hst _ rfl rfl
      simp only [hx, Bool.or_true] at this
      cases this
    · unfold specAddSuccess absW absSess absSchema
      simp [hm, hix, hl', hpres, hd.absent hpres, hmax]


theorem abs_items (d : Disk) (s : Sess) : (absW ⟨d, some s⟩).items (absSess d s) = visible d s := by
  unfold Spec.items absW absSess visible
  by_cases hm : s.mem = true <;> simp [hm]

theorem addCore_spec (d : Disk) (s : Sess) (it : Item) (hw : WInv ⟨d, some s⟩) (hmode : s.mode ≠ .read) :
    let ok := (match s.cache.entries with | [] => true | e :: _ => decide (e.2.fs = it.fs))
    WInv (addCore d s ok it).1 ∧
    specStep (absW ⟨d, some s⟩) (.add it) = (absW (addCore d s ok it).1, (addCore d s ok it).2) := by
  intro ok
  have hs := hw.sess s rfl
  have href : implRefusal d s it = specAddRefusal (absSess d s) (visible d s) it := by
    by_cases hm : s.mem = true
    · exact refusal_mem d s it hs hm
    · exact refusal_file d s it hw.disk hs (by simpa using hm)
  have hspec : specStep (absW ⟨d, some s⟩) (.add it) =
      match specAddRefusal (absSess d s) (visible d s) it with
      | some e => (absW ⟨d, some s⟩, .err e)
      | none => specAddSuccess (absW ⟨d, some s⟩) (absSess d s) it := by
    have hmode' : (absSess d s).mode ≠ .read := hmode
    have hsess : (absW ⟨d, some s⟩).sess = some (absSess d s) := rfl
    simp only [specStep, hsess]
    rw [if_neg hmode', abs_items]
    split <;> simp_all
  rw [hspec, ← href]
  cases hr : implRefusal d s it with
  | some e =>
    have hcore : addCore d s ok it = (⟨d, some s⟩, .err e) := by
      unfold addCore
      unfold implRefusal at hr
      simp only at hr
      split_ifs at hr ⊢ with h1
      · cases hr; rfl
      · cases hins : s.cache.insert s.nextIndex it with
        | error e' => simp [hins] at hr ⊢; exact hr
        | ok c => simp [hins] at hr
    rw [hcore]; exact ⟨hw, rfl⟩
  | none =>
    obtain ⟨hok, hchk, c, hins⟩ := refusal_none hr
    have hcore : addCore d s ok it = commitAdd d s it c := by
      unfold addCore
      have : (!ok || !addChecks s d it) = false := by simp [ok, hok, hchk]
      simp [this, hins]
    rw [hcore]
    by_cases hm : s.mem = true
    · exact commit_mem d s it c hw hm hr hins
    · exact commit_file d s it c hw (by simpa using hm) hmode hr hins

theorem add_spec (w : World) (s : Sess) (it : Item) (hw : WInv w) (hs : w.sess = some s) :
    WInv (opAdd w s it).1 ∧ specStep (absW w) (.add it) = (absW (opAdd w s it).1, (opAdd w s it).2) := by
  rw [opAdd_eq]
  by_cases hmode : s.mode = .read
  · rw [if_pos hmode]
    refine ⟨hw, ?_⟩
    have hsess : (absW w).sess = some (absSess w.disk s) := by simp [absW, hs]
    have : (absSess w.disk s).mode = .read := hmode
    simp [specStep, hsess, this]
  · rw [if_neg hmode]
    obtain ⟨o, ho⟩ := protoCheck_eq s it
    have hok := protoCheck_ok s it
    rw [ho, hok]
    have hw1 := hw.reorder s o hs
    have habs := absW_reorder w s o hs
    have := addCore_spec w.disk { s with cache := { s.cache with order := o } } it hw1 hmode
    simp only at this
    rw [habs] at this
    exact this

end Aeic.Store
