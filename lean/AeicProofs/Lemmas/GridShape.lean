/-
  Shapes of the gridding result: all output arrays have one entry per piece (C05 `output_lengths_match`),
  and altitude/time/state entries are the start point's values repeated over the segment's pieces.
-/
import AeicProofs.Lemmas.GridSum

namespace Aeic.Grid

open Aeic

/-- the input arrays fit together: `n` points, `n − 1` segment values -/
def Traj.WellFormed (t : Traj ℝ) : Prop :=
  t.lons.length = t.lats.length ∧
  (∀ a, t.alts = some a → a.length = t.lats.length) ∧
  (∀ a, t.times = some a → a.length = t.lats.length) ∧
  (∀ v ∈ t.state, v.length = t.lats.length) ∧
  (∀ v ∈ t.integ, v.length + 1 = t.lats.length)

/-- all output arrays have the same length, and there is one per input variable -/
def Out.Consistent (o : Out ℝ) (t : Traj ℝ) : Prop :=
  o.lonI.length = o.latI.length ∧
  (∀ a, o.altI = some a → a.length = o.latI.length) ∧
  (∀ a, o.timeI = some a → a.length = o.latI.length) ∧
  (∀ v ∈ o.state, v.length = o.latI.length) ∧
  (∀ v ∈ o.integ, v.length = o.latI.length) ∧
  o.state.length = t.state.length ∧ o.integ.length = t.integ.length ∧
  o.counts.sum = o.latI.length

theorem length_repeatBy {β : Type} (counts : List Nat) (xs : List β) (h : xs.length = counts.length) :
    (repeatBy counts xs).length = counts.sum := by
  induction counts generalizing xs with
  | nil =>
    have : xs = [] := by simpa using h
    subst this; rfl
  | cons c cs ih =>
    cases xs with
    | nil => simp at h
    | cons x xs =>
      have := ih xs (by simpa using h)
      unfold repeatBy at this ⊢
      simp [this]

theorem length_flatMap_eq_sum {σ β : Type} (segs : List σ) (f : σ → List β) :
    (segs.flatMap f).length = (segs.map (fun s => (f s).length)).sum := by
  induction segs with
  | nil => rfl
  | cons s segs ih => simp [ih]

theorem gridPlain_consistent (r : Rules) (d : ℝ → ℝ → ℝ → ℝ → ℝ) (g : Grid ℝ) (t : Traj ℝ)
    (wf : t.WellFormed) : (gridPlain r d g t).Consistent t := by
  obtain ⟨hlon, halt, htime, hstate, hinteg⟩ := wf
  have hsegs : (mkSegs t.lats t.lons).length = t.lats.length - 1 := by
    rw [length_mkSegs, hlon, min_self]
  have hlat : ((mkSegs t.lats t.lons).flatMap (latIdxs g.glat g.glon)).length
      = ((mkSegs t.lats t.lons).map (fun s => (latIdxs g.glat g.glon s).length)).sum :=
    length_flatMap_eq_sum _ _
  have hrep : ∀ {β : Type} (xs : List β), xs.length = t.lats.length - 1 →
      (repeatBy ((mkSegs t.lats t.lons).map (fun s => (latIdxs g.glat g.glon s).length)) xs).length
        = ((mkSegs t.lats t.lons).flatMap (latIdxs g.glat g.glon)).length := by
    intro β xs hx
    rw [length_repeatBy _ _ (by simp [hx, hsegs]), hlat]
  unfold gridPlain Out.Consistent
  simp only
  refine ⟨?_, ?_, ?_, ?_, ?_, by simp, by simp, hlat.symm⟩
  · rw [length_flatMap_eq_sum, length_flatMap_eq_sum]
    congr 1
    apply List.map_congr_left; intro s _; simp
  · intro a ha
    obtain ⟨a0, ha0, rfl⟩ := Option.map_eq_some_iff.1 ha
    exact hrep _ (by simp [halt a0 ha0])
  · intro a ha
    obtain ⟨a0, ha0, rfl⟩ := Option.map_eq_some_iff.1 ha
    exact hrep _ (by simp [htime a0 ha0])
  · intro v hv
    obtain ⟨v0, hv0, rfl⟩ := List.mem_map.1 hv
    exact hrep _ (by simp [hstate v0 hv0])
  · intro v hv
    obtain ⟨v0, hv0, rfl⟩ := List.mem_map.1 hv
    have h1 := hrep v0 (by have := hinteg v0 hv0; omega)
    rw [List.length_zipWith, h1, hlat, length_flatMap_eq_sum]
    have : (mkSegs t.lats t.lons).map (fun s => (segFractions r d g.glat g.glon s).length)
        = (mkSegs t.lats t.lons).map (fun s => (latIdxs g.glat g.glon s).length) := by
      apply List.map_congr_left; intro s _; simp
    rw [this, min_self]

theorem empty_consistent (t : Traj ℝ) : (Out.empty t).Consistent t := by
  unfold Out.empty Out.Consistent
  simp

theorem append_consistent (a b : Out ℝ) (ta tb t : Traj ℝ) (ha : a.Consistent ta) (hb : b.Consistent tb)
    (hs1 : ta.state.length = t.state.length) (hs2 : tb.state.length = t.state.length)
    (hi1 : ta.integ.length = t.integ.length) (hi2 : tb.integ.length = t.integ.length) :
    (a.append b).Consistent t := by
  obtain ⟨a1, a2, a3, a4, a5, a6, a7, a8⟩ := ha
  obtain ⟨b1, b2, b3, b4, b5, b6, b7, b8⟩ := hb
  unfold Out.append Out.Consistent
  simp only [List.length_append]
  refine ⟨by omega, ?_, ?_, ?_, ?_, ?_, ?_, ?_⟩
  · intro x hx
    cases ha' : a.altI <;> cases hb' : b.altI <;> simp [ha', hb'] at hx
    subst hx
    rw [List.length_append, a2 _ ha', b2 _ hb']
  · intro x hx
    cases ha' : a.timeI <;> cases hb' : b.timeI <;> simp [ha', hb'] at hx
    subst hx
    rw [List.length_append, a3 _ ha', b3 _ hb']
  · intro v hv
    obtain ⟨k, hk, rfl⟩ := List.getElem_of_mem hv
    rw [List.length_zipWith] at hk
    rw [List.getElem_zipWith, List.length_append, a4 _ (List.getElem_mem _), b4 _ (List.getElem_mem _)]
  · intro v hv
    obtain ⟨k, hk, rfl⟩ := List.getElem_of_mem hv
    rw [List.length_zipWith] at hk
    rw [List.getElem_zipWith, List.length_append, a5 _ (List.getElem_mem _), b5 _ (List.getElem_mem _)]
  · rw [List.length_zipWith]; omega
  · rw [List.length_zipWith]; omega
  · rw [List.sum_append]; omega

theorem splitFirst_wf (pi : ℝ) (sign : Int) (idx : Nat) (latc l1 ltot : ℝ) (t : Traj ℝ) (wf : t.WellFormed)
    (hidx : idx + 1 < t.lats.length) : (splitFirst pi sign idx latc l1 ltot t).WellFormed := by
  obtain ⟨hlon, halt, htime, hstate, hinteg⟩ := wf
  unfold splitFirst Traj.WellFormed
  simp only [List.length_append, List.length_take, List.length_cons, List.length_nil]
  refine ⟨by omega, ?_, ?_, ?_, ?_⟩
  · intro a ha
    obtain ⟨a0, ha0, rfl⟩ := Option.map_eq_some_iff.1 ha
    have := halt a0 ha0; simp; omega
  · intro a ha
    obtain ⟨a0, ha0, rfl⟩ := Option.map_eq_some_iff.1 ha
    have := htime a0 ha0; simp; omega
  · intro v hv
    obtain ⟨v0, hv0, rfl⟩ := List.mem_map.1 hv
    have := hstate v0 hv0; simp; omega
  · intro v hv
    obtain ⟨v0, hv0, rfl⟩ := List.mem_map.1 hv
    have := hinteg v0 hv0; simp; omega

theorem splitSecond_wf (pi : ℝ) (sign : Int) (idx : Nat) (latc l2 ltot : ℝ) (t : Traj ℝ) (wf : t.WellFormed)
    (hidx : idx + 1 < t.lats.length) : (splitSecond pi sign idx latc l2 ltot t).WellFormed := by
  obtain ⟨hlon, halt, htime, hstate, hinteg⟩ := wf
  unfold splitSecond Traj.WellFormed
  simp only [List.length_cons, List.length_drop]
  refine ⟨by omega, ?_, ?_, ?_, ?_⟩
  · intro a ha
    obtain ⟨a0, ha0, rfl⟩ := Option.map_eq_some_iff.1 ha
    have := halt a0 ha0; simp; omega
  · intro a ha
    obtain ⟨a0, ha0, rfl⟩ := Option.map_eq_some_iff.1 ha
    have := htime a0 ha0; simp; omega
  · intro v hv
    obtain ⟨v0, hv0, rfl⟩ := List.mem_map.1 hv
    have := hstate v0 hv0; simp; omega
  · intro v hv
    obtain ⟨v0, hv0, rfl⟩ := List.mem_map.1 hv
    have := hinteg v0 hv0; simp; omega

theorem gridTraj_consistent (r : Rules) (d : ℝ → ℝ → ℝ → ℝ → ℝ) (pi : ℝ) (g : Grid ℝ) (t : Traj ℝ)
    (wf : t.WellFormed) : (gridTraj r d pi g t).Consistent t := by
  unfold gridTraj
  simp only
  by_cases h0 : ((crossings pi t.lons).filter (· ≠ 0)).length = 0
  · rw [if_pos h0]; exact gridPlain_consistent r d g t wf
  · rw [if_neg h0]
    by_cases h1 : 1 < ((crossings pi t.lons).filter (· ≠ 0)).length
    · rw [if_pos h1]; exact empty_consistent t
    · rw [if_neg h1]
      have hidx : splitIdx pi t + 1 < t.lats.length := by
        have := firstNonzero_lt (crossings pi t.lons) (by omega)
        rw [length_crossings, wf.1] at this
        unfold splitIdx; omega
      rw [splitParts_eq]
      exact append_consistent _ _ _ _ t
        (gridPlain_consistent r d g _ (splitFirst_wf pi _ _ _ _ _ t wf hidx))
        (gridPlain_consistent r d g _ (splitSecond_wf pi _ _ _ _ _ t wf hidx))
        (by simp [splitFirst]) (by simp [splitSecond]) (by simp [splitFirst]) (by simp [splitSecond])

/-- `np.repeat(f(values[:-1]), counts)` written per segment -/
theorem repeatBy_map {β γ σ : Type} (segs : List σ) (len : σ → Nat) (xs : List β) (f : β → γ) :
    repeatBy (segs.map len) (xs.map f) = (xs.zip segs).flatMap (fun p => List.replicate (len p.2) (f p.1)) := by
  unfold repeatBy
  rw [List.zip_map, List.flatMap_map]
  rfl

end Aeic.Grid
