/-
  C06 helper lemmas, part 6: the interpolants are continuous on the whole envelope (pasting the closed cells).
-/
import AeicProofs.Lemmas.C06Cont
import Mathlib.Topology.LocallyFinite
import Mathlib.Topology.Algebra.Ring.Real
import Mathlib.Topology.Order.Basic
import Mathlib.Topology.Order.OrderClosed
import Mathlib.Tactic.FunProp
import Mathlib.Data.Set.Finite.Basic
import Mathlib.Data.Finset.Prod

namespace Aeic.PerfTable
open List

/-- the number `interpn` returns (0 where it raises) -/
noncomputable def val2 (gx gm : List ℝ) (v : ℝ → ℝ → ℝ) (p : ℝ × ℝ) : ℝ :=
  match interp2 gx gm v p.1 p.2 with
  | .ok y => y
  | .error _ => 0

noncomputable def val1 (g : List ℝ) (v : ℝ → ℝ) (x : ℝ) : ℝ :=
  match interp1 g v x with
  | .ok y => y
  | .error _ => 0

theorem adjacent_finite (g : List ℝ) : {q : ℝ × ℝ | Adjacent g q.1 q.2}.Finite := by
  apply Set.Finite.subset (Finset.finite_toSet (g.toFinset ×ˢ g.toFinset))
  intro q hq
  simp only [Finset.coe_product, coe_toFinset, Set.mem_prod]
  exact ⟨hq.1, hq.2.1⟩

theorem continuous_bilin (v : ℝ → ℝ → ℝ) (bx bm : ℝ × ℝ) :
    Continuous (fun p : ℝ × ℝ => bilin v bx bm p.1 p.2) := by
  simp only [bilin_real, ndist]
  fun_prop

theorem continuous_lin (v : ℝ → ℝ) (a b : ℝ) :
    Continuous (fun x : ℝ => v a * (1 - ndist (a, b) x) + v b * ndist (a, b) x) := by
  simp only [ndist]
  fun_prop

/-- 2-D interpolant: continuous on the whole rectangle of the grid -/
theorem val2_continuousOn (gx gm : List ℝ) (v : ℝ → ℝ → ℝ) (hsx : gx.Pairwise (· < ·)) (hsm : gm.Pairwise (· < ·))
    (hlx : 2 ≤ gx.length) (hlm : 2 ≤ gm.length) :
    ContinuousOn (val2 gx gm v) {p | inBounds gx p.1 = true ∧ inBounds gm p.2 = true} := by
  let I := {q : (ℝ × ℝ) × (ℝ × ℝ) // Adjacent gx q.1.1 q.1.2 ∧ Adjacent gm q.2.1 q.2.2}
  have fin : Finite I := by
    apply Set.Finite.to_subtype
    apply Set.Finite.subset ((adjacent_finite gx).prod (adjacent_finite gm))
    intro q hq
    exact ⟨hq.1, hq.2⟩
  let S : I → Set (ℝ × ℝ) := fun q => Set.Icc q.1.1.1 q.1.1.2 ×ˢ Set.Icc q.1.2.1 q.1.2.2
  have hcl : ∀ q, IsClosed (S q) := fun q => isClosed_Icc.prod isClosed_Icc
  have hc : ∀ q, ContinuousOn (val2 gx gm v) (S q) := by
    intro q
    apply ContinuousOn.congr (continuous_bilin v q.1.1 q.1.2).continuousOn
    intro p hp
    have hp1 : q.1.1.1 ≤ p.1 ∧ p.1 ≤ q.1.1.2 := hp.1
    have hp2 : q.1.2.1 ≤ p.2 ∧ p.2 ≤ q.1.2.2 := hp.2
    have := interp2_on_closed_cell gx gm v p.1 p.2 _ _ _ _ hsx hsm q.2.1 q.2.2 hp1 hp2
    simp only [val2, this]
  have hU := (locallyFinite_of_finite S).continuousOn_iUnion hcl hc
  apply hU.mono
  intro p hp
  have bx := bracket_of_inBounds gx p.1 hsx hlx hp.1
  have bm := bracket_of_inBounds gm p.2 hsm hlm hp.2
  rw [Set.mem_iUnion]
  exact ⟨⟨(bracket gx p.1, bracket gm p.2), bx.adjacent, bm.adjacent⟩, ⟨bx.le1, bx.le2⟩, ⟨bm.le1, bm.le2⟩⟩

/-- 1-D interpolant: continuous on the whole interval of the grid -/
theorem val1_continuousOn (g : List ℝ) (v : ℝ → ℝ) (hs : g.Pairwise (· < ·)) (hl : 2 ≤ g.length) :
    ContinuousOn (val1 g v) {x | inBounds g x = true} := by
  let I := {q : ℝ × ℝ // Adjacent g q.1 q.2}
  have fin : Finite I := Set.Finite.to_subtype (adjacent_finite g)
  let S : I → Set ℝ := fun q => Set.Icc q.1.1 q.1.2
  have hcl : ∀ q, IsClosed (S q) := fun q => isClosed_Icc
  have hc : ∀ q, ContinuousOn (val1 g v) (S q) := by
    intro q
    apply ContinuousOn.congr (continuous_lin v q.1.1 q.1.2).continuousOn
    intro x hx
    have := interp1_on_closed_cell g v x _ _ hs q.2 ⟨hx.1, hx.2⟩
    simp only [val1, this]
  have hU := (locallyFinite_of_finite S).continuousOn_iUnion hcl hc
  apply hU.mono
  intro x hx
  have bx := bracket_of_inBounds g x hs hl hx
  rw [Set.mem_iUnion]
  exact ⟨⟨bracket g x, bx.adjacent⟩, bx.le1, bx.le2⟩

/-- the real number an evaluation yields for one output (0 where it is refused) -/
noncomputable def perfVal (r : Except Err (Perf ℝ)) (proj : Perf ℝ → ℝ) : ℝ :=
  match r with
  | .ok perf => proj perf
  | .error _ => 0

theorem evalFL_eq_vals_2d (tol : ℝ) (t : List (Row ℝ)) (p : Phase) (x m : ℝ)
    (hv : validate tol (sub tol p t) = .ok ()) (h2 : (masses (sub tol p t)).length > 1)
    (hx : inBounds (fls (sub tol p t)) x = true) (hm : inBounds (masses (sub tol p t)) m = true) :
    evalFL tol t x (.val m) p = .ok
      ⟨val2 (fls (sub tol p t)) (masses (sub tol p t)) (cell (sub tol p t) (·.tas)) (x, m),
       val2 (fls (sub tol p t)) (masses (sub tol p t)) (cell (sub tol p t) (·.rocd)) (x, m),
       val2 (fls (sub tol p t)) (masses (sub tol p t)) (cell (sub tol p t) (·.ff)) (x, m)⟩ := by
  unfold evalFL
  rw [prep_of_valid tol t p hv]
  simp only [resolveMass]
  unfold evalPrepared interpField
  simp only [h2, ↓reduceIte]
  obtain ⟨a, ha⟩ := interp2_ok_of_inBounds _ _ (cell (sub tol p t) (·.tas)) x m hx hm
  obtain ⟨b, hb⟩ := interp2_ok_of_inBounds _ _ (cell (sub tol p t) (·.rocd)) x m hx hm
  obtain ⟨c, hc⟩ := interp2_ok_of_inBounds _ _ (cell (sub tol p t) (·.ff)) x m hx hm
  simp only [val2, ha, hb, hc]

theorem evalFL_eq_vals_1d (tol : ℝ) (t : List (Row ℝ)) (p : Phase) (x : ℝ) (ms : MassSpec ℝ)
    (hv : validate tol (sub tol p t) = .ok ()) (h2 : ¬ (masses (sub tol p t)).length > 1)
    (hx : inBounds (fls (sub tol p t)) x = true) :
    evalFL tol t x ms p = .ok
      ⟨val1 (fls (sub tol p t)) (cell1 (sub tol p t) (·.tas)) x,
       val1 (fls (sub tol p t)) (cell1 (sub tol p t) (·.rocd)) x,
       val1 (fls (sub tol p t)) (cell1 (sub tol p t) (·.ff)) x⟩ := by
  unfold evalFL
  rw [prep_of_valid tol t p hv]
  unfold evalPrepared interpField
  simp only [h2, ↓reduceIte]
  obtain ⟨a, ha⟩ := interp1_ok_of_inBounds _ (cell1 (sub tol p t) (·.tas)) x hx
  obtain ⟨b, hb⟩ := interp1_ok_of_inBounds _ (cell1 (sub tol p t) (·.rocd)) x hx
  obtain ⟨c, hc⟩ := interp1_ok_of_inBounds _ (cell1 (sub tol p t) (·.ff)) x hx
  simp only [val1, ha, hb, hc]

end Aeic.PerfTable
