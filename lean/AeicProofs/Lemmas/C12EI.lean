/-
  Helper lemmas for C12 (emission-index part): least-squares fit, np.interp, HC/CO parameter shift.
-/
import AeicProofs.Lemmas.C12Isa

namespace Aeic.EI
open Aeic Aeic.Gen

/-- multiply the four certification values by `c` -/
def scaleQ (c : ℝ) (q : Q4 ℝ) : Q4 ℝ := ⟨c * q.i, c * q.a, c * q.c, c * q.t⟩
/-- add `L` to four (log) values -/
def shiftQ (L : ℝ) (q : Q4 ℝ) : Q4 ℝ := ⟨q.i + L, q.a + L, q.c + L, q.t + L⟩
def posQ (q : Q4 ℝ) : Prop := 0 < q.i ∧ 0 < q.a ∧ 0 < q.c ∧ 0 < q.t

theorem log10_mul (c x : ℝ) (hc : 0 < c) (hx : 0 < x) :
    Real.log (c * x) / Real.log 10 = Real.log x / Real.log 10 + Real.log c / Real.log 10 := by
  rw [Real.log_mul hc.ne' hx.ne']; ring

theorem log10Q_scale (c : ℝ) (q : Q4 ℝ) (hc : 0 < c) (hq : posQ q) :
    log10Q (scaleQ c q) = shiftQ (Real.log c / Real.log 10) (log10Q q) := by
  obtain ⟨h1, h2, h3, h4⟩ := hq
  simp only [log10Q, scaleQ, shiftQ, tr_log10, log10_mul c _ hc h1, log10_mul c _ hc h2,
    log10_mul c _ hc h3, log10_mul c _ hc h4]

theorem ten_pow_log10 (c : ℝ) (hc : 0 < c) : (10 : ℝ) ^ (Real.log c / Real.log 10) = c := by
  have h10 : Real.log 10 ≠ 0 := (Real.log_pos (by norm_num)).ne'
  rw [Real.rpow_def_of_pos (by norm_num), mul_div_cancel₀ _ h10, Real.exp_log hc]

theorem ten_pow_add_log10 (x c : ℝ) (hc : 0 < c) :
    (10 : ℝ) ^ (x + Real.log c / Real.log 10) = c * (10 : ℝ) ^ x := by
  rw [Real.rpow_add (by norm_num), ten_pow_log10 c hc]; ring

theorem mean4_shift (L : ℝ) (y : Q4 ℝ) : mean4 (shiftQ L y) = mean4 y + L := by
  simp only [mean4, shiftQ, lit_real]; norm_num; ring

theorem sxy_shift (L : ℝ) (x y : Q4 ℝ) : sxy x (shiftQ L y) = sxy x y := by
  simp only [sxy, mean4, shiftQ, lit_real]; norm_num; ring

theorem fitSlope_shift (L : ℝ) (x y : Q4 ℝ) : fitSlope x (shiftQ L y) = fitSlope x y := by
  simp only [fitSlope, sxy_shift]

theorem fitIntercept_shift (L : ℝ) (x y : Q4 ℝ) : fitIntercept x (shiftQ L y) = fitIntercept x y + L := by
  simp only [fitIntercept, fitSlope_shift, mean4_shift]; ring

/-- residuals of the closed-form fit sum to zero (first normal equation) -/
theorem fit_residual_sum (x y : Q4 ℝ) :
    (y.i - (fitSlope x y * x.i + fitIntercept x y)) + (y.a - (fitSlope x y * x.a + fitIntercept x y))
    + (y.c - (fitSlope x y * x.c + fitIntercept x y)) + (y.t - (fitSlope x y * x.t + fitIntercept x y)) = 0 := by
  simp only [fitIntercept, mean4, lit_real]; norm_num; ring

/-- residuals are orthogonal to the abscissae (second normal equation), when the flows are not all equal -/
theorem fit_residual_orth (x y : Q4 ℝ) (hx : sxy x x ≠ 0) :
    (y.i - (fitSlope x y * x.i + fitIntercept x y)) * x.i + (y.a - (fitSlope x y * x.a + fitIntercept x y)) * x.a
    + (y.c - (fitSlope x y * x.c + fitIntercept x y)) * x.c + (y.t - (fitSlope x y * x.t + fitIntercept x y)) * x.t = 0 := by
  have key : fitSlope x y * sxy x x = sxy x y := by
    unfold fitSlope; field_simp
  simp only [fitIntercept]
  simp only [sxy, mean4, lit_real] at key ⊢
  norm_num at key ⊢
  linear_combination (-1 : ℝ) * key

/-- data lying exactly on a line are reproduced by the fit -/
theorem fit_exact (a b : ℝ) (x : Q4 ℝ) (hx : sxy x x ≠ 0) :
    fitSlope x ⟨a * x.i + b, a * x.a + b, a * x.c + b, a * x.t + b⟩ = a ∧
    fitIntercept x ⟨a * x.i + b, a * x.a + b, a * x.c + b, a * x.t + b⟩ = b := by
  have h1 : sxy x ⟨a * x.i + b, a * x.a + b, a * x.c + b, a * x.t + b⟩ = a * sxy x x := by
    simp only [sxy, mean4, lit_real]; norm_num; ring
  have hs : fitSlope x ⟨a * x.i + b, a * x.a + b, a * x.c + b, a * x.t + b⟩ = a := by
    unfold fitSlope; rw [h1]; field_simp
  refine ⟨hs, ?_⟩
  unfold fitIntercept; rw [hs]
  simp only [mean4, lit_real]; norm_num; ring

/-! ### np.interp -/

theorem interpGo_scale (c x : ℝ) : ∀ (xs ys : List ℝ) (x0 y0 : ℝ),
    interpGo x x0 (c * y0) xs (ys.map (c * ·)) = c * interpGo x x0 y0 xs ys := by
  intro xs
  induction xs with
  | nil => intro ys x0 y0; cases ys <;> simp [interpGo]
  | cons x1 xs ih =>
    intro ys x0 y0
    cases ys with
    | nil => simp [interpGo]
    | cons y1 ys =>
      simp only [List.map_cons, interpGo]
      split_ifs
      · rfl
      · ring
      · exact ih ys x1 y1

theorem interp_scale (c x : ℝ) (xs ys : List ℝ) :
    interp x xs (ys.map (c * ·)) = c * interp x xs ys := by
  cases xs with
  | nil => simp [interp]
  | cons x0 xs =>
    cases ys with
    | nil => simp [interp]
    | cons y0 ys =>
      simp only [List.map_cons, interp]
      split_ifs with h1 h2
      · rfl
      · exact interpGo_scale c x xs ys x0 y0
      · exact absurd (not_lt.mp h1) h2

theorem interpGo_between (lo hi x : ℝ) : ∀ (xs ys : List ℝ) (x0 y0 : ℝ),
    lo ≤ y0 → y0 ≤ hi → (∀ y ∈ ys, lo ≤ y ∧ y ≤ hi) →
    lo ≤ interpGo x x0 y0 xs ys ∧ interpGo x x0 y0 xs ys ≤ hi := by
  intro xs
  induction xs with
  | nil => intro ys x0 y0 h1 h2 _; cases ys <;> simp [interpGo, h1, h2]
  | cons x1 xs ih =>
    intro ys x0 y0 h1 h2 hys
    cases ys with
    | nil => simp [interpGo, h1, h2]
    | cons y1 ys =>
      have hy1 := hys y1 (by simp)
      simp only [interpGo]
      split_ifs with ha hb
      · exact ⟨h1, h2⟩
      · -- x0 < x < x1 : convex combination of y0 and y1
        have hx0 : x0 < x := not_le.mp hb
        have hd : 0 < x1 - x0 := by linarith
        have ht0 : 0 ≤ (x - x0) / (x1 - x0) := div_nonneg (by linarith) hd.le
        have ht1 : (x - x0) / (x1 - x0) ≤ 1 := by rw [div_le_one hd]; linarith
        have e : (y1 - y0) / (x1 - x0) * (x - x0) + y0
            = (1 - (x - x0) / (x1 - x0)) * y0 + (x - x0) / (x1 - x0) * y1 := by
          field_simp; ring
        rw [e]
        constructor <;> nlinarith [hy1.1, hy1.2]
      · exact ih ys x1 y1 hy1.1 hy1.2 (fun y hy => hys y (by simp [hy]))

theorem interp_between (lo hi x : ℝ) (xs ys : List ℝ) (hne : xs ≠ [] ∧ ys ≠ [])
    (hys : ∀ y ∈ ys, lo ≤ y ∧ y ≤ hi) : lo ≤ interp x xs ys ∧ interp x xs ys ≤ hi := by
  cases xs with
  | nil => exact absurd rfl hne.1
  | cons x0 xs =>
    cases ys with
    | nil => exact absurd rfl hne.2
    | cons y0 ys =>
      have hy0 := hys y0 (by simp)
      simp only [interp]
      split_ifs with h1 h2
      · exact hy0
      · exact interpGo_between lo hi x xs ys x0 y0 hy0.1 hy0.2 (fun y hy => hys y (by simp [hy]))
      · exact absurd (not_lt.mp h1) h2

/-! ### HC/CO parameters under a common shift of the log-EIs -/

def shiftParams (L : ℝ) (p : HCParams ℝ) : HCParams ℝ :=
  { p with baseLogEI := p.baseLogEI + L, horz := p.horz + L }

theorem hccoSlope_shift (L lf0 lf1 le0 le1 : ℝ) :
    hccoSlope lf0 lf1 (le0 + L) (le1 + L) = hccoSlope lf0 lf1 le0 le1 := by
  unfold hccoSlope; split_ifs
  · rfl
  · ring

theorem hccoXInt_shift (L s lf0 lf1 le0 le2 le3 : ℝ) :
    hccoXInt s lf0 lf1 (le0 + L) (le2 + L) (le3 + L) = hccoXInt s lf0 lf1 le0 le2 le3 := by
  unfold hccoXInt; split_ifs
  · rfl
  · simp only [lit_real]; norm_num; ring

theorem hccoBranch_shift (L s xi hz lf0 lf1 lf2 le0 le1 : ℝ) :
    hccoBranch s xi (hz + L) lf0 lf1 lf2 (le0 + L) (le1 + L)
      = shiftParams L (hccoBranch s xi hz lf0 lf1 lf2 le0 le1) := by
  unfold hccoBranch shiftParams; split_ifs <;> rfl

theorem hccoParamsLog_shift (L lf0 lf1 lf2 le0 le1 le2 le3 : ℝ) :
    hccoParamsLog lf0 lf1 lf2 (le0 + L) (le1 + L) (le2 + L) (le3 + L)
      = shiftParams L (hccoParamsLog lf0 lf1 lf2 le0 le1 le2 le3) := by
  unfold hccoParamsLog
  simp only [hccoSlope_shift, hccoXInt_shift]
  have : (Lit.dec 5 1 : ℝ) * (le2 + L + (le3 + L)) = (Lit.dec 5 1 : ℝ) * (le2 + le3) + L := by
    simp only [lit_real]; norm_num; ring
  rw [this, hccoBranch_shift]

/-- the log-space evaluation of a shifted parameter set is the shifted evaluation -/
theorem hccoLogSL_shift (L : ℝ) (p : HCParams ℝ) (pos : Bool) (lf : ℝ) :
    hccoLogSL (shiftParams L p) pos lf = (hccoLogSL p pos lf).map (· + L) := by
  unfold hccoLogSL shiftParams
  split_ifs
  · simp; ring
  · simp
  · simp

/-- with a known positive flow the evaluation always yields a value -/
theorem hccoLogSL_pos (p : HCParams ℝ) (lf : ℝ) :
    hccoLogSL p true lf = some (if lf < p.xInt then p.slope * (lf - p.baseLogFuel) + p.baseLogEI else p.horz) := by
  unfold hccoLogSL
  by_cases h : lf < p.xInt
  · simp [h]
  · simp [h, not_lt.mp h]

/-- Clamping in log space.  `s` is the slope of the slanted segment (through the idle and approach
    points, or 0), `xi` the intercept as computed in step 3.  For increasing idle < approach < climb
    flows and a flow not below idle, the log-EI lies between the smallest and the largest of
    {idle level, approach level, high-power level}. -/
theorem hccoBranch_bounds (s xi hz lf0 lf1 lf2 le0 le1 lf : ℝ)
    (h01 : lf0 < lf1) (h12 : lf1 < lf2) (hlf : lf0 ≤ lf)
    (hA : s * (lf1 - lf0) = le1 - le0 ∨ s = 0)
    (hB : xi = lf1 ∨ s * (xi - lf0) + le0 = hz) :
    let p := hccoBranch s xi hz lf0 lf1 lf2 le0 le1
    let l := if lf < p.xInt then p.slope * (lf - p.baseLogFuel) + p.baseLogEI else p.horz
    (le0 ≤ l ∨ le1 ≤ l ∨ hz ≤ l) ∧ (l ≤ le0 ∨ l ≤ le1 ∨ l ≤ hz) := by
  intro p l
  simp only [p, l, hccoBranch, zero_real]
  by_cases ha : lf2 < xi
  · -- (a) intercept clamped to the climb flow
    simp only [if_pos ha]
    have hBx : s * (xi - lf0) + le0 = hz := by
      rcases hB with hB | hB
      · exfalso; linarith
      · exact hB
    by_cases hl : lf < lf2
    · simp only [if_pos hl]
      rcases lt_trichotomy s 0 with hs | hs | hs
      · constructor
        · right; right; nlinarith
        · left; nlinarith
      · subst hs; constructor <;> (left; linarith)
      · constructor
        · left; nlinarith
        · right; right; nlinarith
    · simp only [if_neg hl]; exact ⟨Or.inr (Or.inr le_rfl), Or.inr (Or.inr le_rfl)⟩
  · simp only [if_neg ha]
    by_cases hb : xi < lf1 ∧ s < 0
    · -- (b) approach level
      simp only [if_pos hb]
      have hs0 : s ≠ 0 := ne_of_lt hb.2
      have hA' : s * (lf1 - lf0) = le1 - le0 := by
        rcases hA with hA | hA
        · exact hA
        · exact absurd hA hs0
      by_cases hl : lf < lf1
      · simp only [if_pos hl]
        constructor
        · right; left; nlinarith [hb.2]
        · left; nlinarith [hb.2]
      · simp only [if_neg hl]; exact ⟨Or.inr (Or.inl le_rfl), Or.inr (Or.inl le_rfl)⟩
    · simp only [if_neg hb]
      by_cases hc : 0 ≤ s
      · -- (c) flat
        simp only [if_pos hc]
        split_ifs
        · constructor <;> (right; right; linarith)
        · exact ⟨Or.inr (Or.inr le_rfl), Or.inr (Or.inr le_rfl)⟩
      · -- no rule fired: true intersection, negative slope
        simp only [if_neg hc]
        have hs : s < 0 := not_le.mp hc
        have hxi : lf1 ≤ xi := by
          by_contra hcon
          exact hb ⟨not_le.mp hcon, hs⟩
        have hA' : s * (lf1 - lf0) = le1 - le0 := by
          rcases hA with hA | hA
          · exact hA
          · exact absurd hA (ne_of_lt hs)
        by_cases hl : lf < xi
        · simp only [if_pos hl]
          rcases hB with hB | hB
          · -- intercept forced to the approach flow (|slope| ≤ 1e-8): between approach and idle levels
            subst hB
            constructor
            · right; left; nlinarith
            · left; nlinarith
          · constructor
            · right; right; nlinarith
            · left; nlinarith
        · simp only [if_neg hl]; exact ⟨Or.inr (Or.inr le_rfl), Or.inr (Or.inr le_rfl)⟩

/-- the facts `hA`, `hB` of `hccoBranch_bounds` hold for the slope and intercept the code computes -/
theorem hccoSlope_fact (lf0 lf1 le0 le1 : ℝ) (h01 : lf0 < lf1) :
    hccoSlope lf0 lf1 le0 le1 * (lf1 - lf0) = le1 - le0 ∨ hccoSlope lf0 lf1 le0 le1 = 0 := by
  unfold hccoSlope
  split_ifs
  · right; exact zero_real
  · left
    have : lf1 - lf0 ≠ 0 := by linarith
    field_simp

theorem isClose0_zero : isClose0 (0 : ℝ) = true := by
  unfold isClose0 sabs
  simp only [zero_real, lit_real]
  norm_num

theorem hccoXInt_fact (s lf0 lf1 le0 le2 le3 : ℝ) :
    hccoXInt s lf0 lf1 le0 le2 le3 = lf1 ∨
    s * (hccoXInt s lf0 lf1 le0 le2 le3 - lf0) + le0 = (Lit.dec 5 1 : ℝ) * (le2 + le3) := by
  unfold hccoXInt
  split_ifs with h
  · left; rfl
  · right
    have hs : s ≠ 0 := by
      intro h0; rw [h0] at h; exact h isClose0_zero
    simp only [lit_real]; norm_num
    field_simp; ring

/-! ### positivity / scaling helpers used by Properties/C12.lean -/

theorem ten_real : (Lit.dec 10 0 : ℝ) = 10 := by simp only [lit_real]; norm_num

theorem noxSL_pos (ff : ℝ) (ei cal : Q4 ℝ) : 0 < noxSL ff ei cal := by
  unfold noxSL; simp only [tr_pow, ten_real]
  exact Real.rpow_pos_of_pos (by norm_num) _

theorem correction_nonneg (href T P : ℝ) : 0 ≤ bffm2Correction href T P := by
  unfold bffm2Correction; simp only [tr_exp, tr_sqrt]
  exact mul_nonneg (Real.exp_pos _).le (Real.sqrt_nonneg _)

theorem correction_pos (href T P : ℝ) (hT : 0 < T) (hP : 0 < P) : 0 < bffm2Correction href T P := by
  unfold bffm2Correction; simp only [tr_exp, tr_sqrt, tr_pow, lit_real]
  apply mul_pos (Real.exp_pos _)
  apply Real.sqrt_pos.mpr
  apply div_pos <;> apply Real.rpow_pos_of_pos <;> positivity

theorem hccoAmbient_nonneg (T P : ℝ) (hT : 0 ≤ T) (hP : 0 ≤ P) : 0 ≤ hccoAmbient T P := by
  unfold hccoAmbient; simp only [tr_pow, lit_real]
  apply div_nonneg <;> apply Real.rpow_nonneg <;> positivity

theorem pow10Opt_nonneg (o : Option ℝ) : 0 ≤ pow10Opt o := by
  cases o with
  | none => simp [pow10Opt]
  | some l => simp only [pow10Opt, tr_pow, ten_real]; exact (Real.rpow_pos_of_pos (by norm_num) _).le

theorem hccoSL_nonneg (p : HCParams ℝ) (ff0 ff : ℝ) : 0 ≤ hccoSL p ff0 ff := by
  unfold hccoSL acrp
  split_ifs with h
  · apply mul_nonneg (pow10Opt_nonneg _)
    simp only [lit_real, one_real]; norm_num; nlinarith
  · exact pow10Opt_nonneg _

theorem hccoParams_scale (c : ℝ) (ei cal : Q4 ℝ) (hc : 0 < c) (hei : posQ ei) :
    hccoParams (scaleQ c ei) cal = shiftParams (Real.log c / Real.log 10) (hccoParams ei cal) := by
  obtain ⟨h1, h2, h3, h4⟩ := hei
  unfold hccoParams
  simp only [scaleQ, tr_log10, log10_mul c _ hc h1, log10_mul c _ hc h2, log10_mul c _ hc h3,
    log10_mul c _ hc h4]
  exact hccoParamsLog_shift _ _ _ _ _ _ _ _

theorem ten_pow_half_sum (a b : ℝ) (ha : 0 < a) (hb : 0 < b) :
    (10 : ℝ) ^ ((Lit.dec 5 1 : ℝ) * (Real.log a / Real.log 10 + Real.log b / Real.log 10)) = Real.sqrt (a * b) := by
  have h10 : Real.log 10 ≠ 0 := (Real.log_pos (by norm_num)).ne'
  rw [Real.sqrt_eq_rpow, Real.rpow_def_of_pos (by norm_num), Real.rpow_def_of_pos (mul_pos ha hb),
    Real.log_mul ha.ne' hb.ne']
  congr 1
  simp only [lit_real]; norm_num
  field_simp

theorem cbc_pos (sn : ℝ) : 0 < cbc sn := by
  unfold cbc; simp only [tr_exp, lit_real, one_real]
  have h1 := Real.exp_pos (((766 : ℤ) : ℝ) / 10 ^ 4 * sn)
  have h2 := Real.exp_pos (-(((1098 : ℤ) : ℝ) / 10 ^ 3) * (sn - ((3064 : ℤ) : ℝ) / 10 ^ 3))
  positivity

theorem afr_pos (mode : Nat) : (0 : ℝ) < afr mode := by
  unfold afr; simp only [lit_real]; split_ifs <;> norm_num

/-- the system-loss term `log((3.219 x + 312.5)/(x + 42.6))` is non-negative (MTF form, x = c·w·1000) -/
theorem kslm_nonneg (c w : ℝ) (hc : 0 ≤ c) (hw : 0 ≤ w) :
    0 ≤ Transc.log (((d% 3.219 : ℝ) * c * w * d% 1000 + d% 312.5) / (c * w * d% 1000 + d% 42.6)) := by
  simp only [tr_log, lit_real]
  have hcw : 0 ≤ c * w := mul_nonneg hc hw
  apply Real.log_nonneg
  rw [le_div_iff₀ (by norm_num; positivity)]
  norm_num; nlinarith

/-- same, TF form (x = c·1000) -/
theorem kslm_nonneg_tf (c : ℝ) (hc : 0 ≤ c) :
    0 ≤ Transc.log (((d% 3.219 : ℝ) * c * d% 1000 + d% 312.5) / (c * d% 1000 + d% 42.6)) := by
  simp only [tr_log, lit_real]
  apply Real.log_nonneg
  rw [le_div_iff₀ (by norm_num; positivity)]
  norm_num; nlinarith

theorem meemVals_scale (c : ℝ) (kind : Nat) (m : Q4 ℝ) (v : ℝ) :
    meemVals kind (scaleQ c m) (c * v) = (meemVals kind m v).map (c * ·) := by
  unfold meemVals scaleQ; split_ifs <;> simp

theorem meemLin_clip_bounds (alt maxAlt : ℝ) : 0 ≤ meemLin true alt maxAlt ∧ meemLin true alt maxAlt ≤ 1 := by
  unfold meemLin
  simp only [if_true, smin_real, smax_real, zero_real, one_real]
  exact ⟨le_min (le_max_right _ _) zero_le_one, min_le_right _ _⟩

theorem meem_total_pressure_pos (P M : ℝ) (hP : 0 < P) :
    0 < P * Transc.pow ((one : ℝ) + ((kappa : ℝ) - one) / d% 2 * (M * M)) ((kappa : ℝ) / ((kappa : ℝ) - one)) := by
  simp only [tr_pow, one_real, kappa_real, lit_real]
  apply mul_pos hP
  apply Real.rpow_pos_of_pos
  have : 0 ≤ M * M := mul_self_nonneg M
  norm_num; nlinarith

end Aeic.EI
