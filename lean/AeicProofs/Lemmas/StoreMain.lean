/- Assembly: every concrete step commutes with the abstraction; invariants hold in every reachable state. -/
import AeicProofs.Lemmas.StoreSave

namespace Aeic.Store

theorem absW_frame (w : World) (s s' : Sess) (hs : w.sess = some s) (hsi : SessInv w.disk s) (hfr : Frame s s') :
    absW ⟨w.disk, some s'⟩ = absW w := by
  have hmm : s.mem = true → s.linked = false := fun hm => (hsi.memShape hm).1
  simp only [absW, hs, Option.map_some, hfr.absSess w.disk, hfr.mem]
  congr 1
  by_cases hm : s.mem = true
  · simp only [hm, if_true]; rw [hfr.entries (hmm hm)]
  · simp [hm]

theorem WInv_frame (w : World) (s s' : Sess) (hw : WInv w) (hs : w.sess = some s)
    (hinv : SessInv w.disk s') (hfr : Frame s s') : WInv ⟨w.disk, some s'⟩ := by
  refine ⟨hw.disk, ?_, ?_, ?_⟩
  rotate_left 2
  · have h0 : MemStale ⟨w.disk, some s⟩ := by
      intro t ht; cases ht; exact hw.memStale s hs
    exact h0.frame (fun hm => ((hw.sess s hs).memShape hm).1) hfr
  · intro t ht; cases ht; exact hinv
  · intro hx hst
    apply hw.index hx
    intro t ht hl
    rw [hs] at ht; cases ht
    have := hst s' rfl (by rw [hfr.linked]; exact hl)
    rw [hfr.stale] at this; exact this

theorem step_spec (w : World) (op : Op) (hw : WInv w) :
    WInv (step w op).1 ∧ specStep (absW w) op = (absW (step w op).1, (step w op).2) := by
  cases op with
  | create f n => exact ⟨create_inv w f n hw, create_abs w f n⟩
  | openRead n =>
    exact ⟨open_inv w .read n (by decide) hw, open_abs w .read n⟩
  | openAppend n =>
    exact ⟨open_inv w .append n (by decide) hw, open_abs w .append n⟩
  | close =>
    refine ⟨closeSess_inv w hw, ?_⟩
    simp [step, specStep, abs_closeSess]
  | add it =>
    cases hs : w.sess with
    | none => simp [step, specStep, hs, absW, hw]
    | some s =>
      have := add_spec w s it hw hs
      simpa [step, hs] using this
  | get i =>
    cases hs : w.sess with
    | none => simp [step, specStep, hs, absW, hw]
    | some s =>
      have hsi := hw.sess s hs
      obtain ⟨hinv, hfr, hout⟩ := getItem_spec w.disk s i hw.disk hsi
      simp only [step, hs]
      refine ⟨WInv_frame w s _ hw hs hinv hfr, ?_⟩
      rw [absW_frame w s _ hs hsi hfr, hout]
      have hsess : (absW w).sess = some (absSess w.disk s) := by simp [absW, hs]
      simp only [specStep, hsess, specGet]
      have hit : (absW w).items (absSess w.disk s) = visible w.disk s := by
        unfold Spec.items absW absSess visible
        by_cases hm : s.mem = true <;> simp [hm, hs]
      rw [hit]
      unfold specGetOut
      cases (visible w.disk s)[i]? with
      | none => rfl
      | some it => simp [tooLarge, absSess]
  | len =>
    cases hs : w.sess with
    | none => simp [step, specStep, hs, absW, hw]
    | some s =>
      have hsi := hw.sess s hs
      simp only [step, hs]
      refine ⟨hw, ?_⟩
      have hsess : (absW w).sess = some (absSess w.disk s) := by simp [absW, hs]
      simp only [specStep, hsess]
      congr 2
      unfold Spec.items Sess.length absW absSess
      by_cases hm : s.mem = true
      · have := (hsi.memShape hm).1
        simp [hm, hs, this]
      · have hm' : s.mem = false := by simpa using hm
        by_cases hl : s.linked = true
        · simp [hm', hl]
        · have hl' : s.linked = false := by simpa using hl
          have hent := (hsi.pendingShape hm' hl').2.1
          have hpres : w.disk.present = false := by rw [← (hsi.fileShape hm').1]; exact hl'
          simp [hm', hl', hent, hw.disk.absent hpres]
  | iter =>
    cases hs : w.sess with
    | none => simp [step, specStep, hs, absW, hw]
    | some s =>
      have hsi := hw.sess s hs
      have hlen : s.length w.disk = (visible w.disk s).length := by
        unfold Sess.length visible
        by_cases hm : s.mem = true
        · have := (hsi.memShape hm).1
          simp [hm, this]
        · have hm' : s.mem = false := by simpa using hm
          by_cases hl : s.linked = true
          · simp [hm', hl]
          · have hl' : s.linked = false := by simpa using hl
            have hent := (hsi.pendingShape hm' hl').2.1
            have hpres : w.disk.present = false := by rw [← (hsi.fileShape hm').1]; exact hl'
            simp [hm', hl', hent, hw.disk.absent hpres]
      obtain ⟨hinv, hfr, hout⟩ := iterFrom_spec w.disk hw.disk (s.length w.disk) s 0 [] hsi (by omega)
      simp only [step, hs]
      refine ⟨WInv_frame w s _ hw hs hinv hfr, ?_⟩
      rw [absW_frame w s _ hs hsi hfr, hout]
      have hsess : (absW w).sess = some (absSess w.disk s) := by simp [absW, hs]
      have hit : (absW w).items (absSess w.disk s) = visible w.disk s := by
        unfold Spec.items absW absSess visible
        by_cases hm : s.mem = true <;> simp [hm, hs]
      simp [specStep, hsess, hit]
  | sync =>
    cases hs : w.sess with
    | none => simp [step, specStep, hs, absW, hw]
    | some s =>
      have hsess : (absW w).sess = some (absSess w.disk s) := by simp [absW, hs]
      simp only [step, hs]
      by_cases hmode : s.mode = .read
      · rw [if_pos hmode]
        refine ⟨hw, ?_⟩
        have : (absSess w.disk s).mode = .read := hmode
        simp [specStep, hsess, this]
      · rw [if_neg hmode]
        obtain ⟨hw', habs, _⟩ := reindex_spec w s hw hs
        refine ⟨hw', ?_⟩
        have : ¬ (absSess w.disk s).mode = .read := hmode
        simp [specStep, hsess, this, habs]
  | getFlight id =>
    cases hs : w.sess with
    | none => simp [step, specStep, hs, absW, hw]
    | some s =>
      have := getFlight_spec w s id hw hs
      simpa [step, hs] using this
  | save =>
    cases hs : w.sess with
    | none => simp [step, specStep, hs, absW, hw]
    | some s =>
      have := save_spec w s hw hs
      simpa [step, hs] using this

/-- every reachable state satisfies the invariant -/
theorem reachable_inv (ops : List Op) : WInv (finalWorld World.init ops) := by
  suffices ∀ w, WInv w → WInv (finalWorld w ops) from this _ init_inv
  induction ops with
  | nil => intro w h; exact h
  | cons op ops ih => intro w h; exact ih _ (step_spec w op h).1

/-- trace refinement from any state satisfying the invariant -/
theorem run_refines (ops : List Op) : ∀ w, WInv w → run w ops = specRun (absW w) ops := by
  induction ops with
  | nil => intro w _; rfl
  | cons op ops ih =>
    intro w hw
    obtain ⟨h1, h2⟩ := step_spec w op hw
    simp only [run, specRun, h2]
    rw [ih _ h1]

end Aeic.Store
