/-
  Helper lemmas for C04 / C05 (gridding): list arithmetic of the fraction rule, lengths, sums.
-/
import AeicProofs.RealInst
import AeicModel.Grid
import Mathlib.Algebra.BigOperators.Group.List.Basic
import Mathlib.Algebra.Order.BigOperators.Group.List

namespace Aeic.Grid

open Aeic

@[simp] theorem nonzero_real (x : ℝ) : nonzero x = true ↔ x ≠ 0 := by
  unfold nonzero
  simp only [zero_real, Bool.or_eq_true, decide_eq_true_eq]
  exact ⟨fun h => h.elim (fun h => ne_of_lt h) (fun h => (ne_of_lt h).symm), fun h => lt_or_gt_of_ne h⟩

theorem nonzero_real_false (x : ℝ) : nonzero x = false ↔ x = 0 := by
  rw [← Bool.not_eq_true, nonzero_real]; simp

@[simp] theorem ofNat_real (n : ℕ) : (ofNat n : ℝ) = n := by
  simp [ofNat]

@[simp] theorem sabs_real (x : ℝ) : sabs x = |x| := by
  unfold sabs
  simp only [zero_real]
  split_ifs with h
  · exact (abs_of_neg h).symm
  · exact (abs_of_nonneg (not_lt.mp h)).symm

theorem taxi_real (a b c e : ℝ) : taxi a b c e = |c - a| + |e - b| := by
  simp [taxi]

/-! ### pairs -/

@[simp] theorem pairs_nil {β : Type} : pairs ([] : List β) = [] := rfl
@[simp] theorem pairs_singleton {β : Type} (a : β) : pairs [a] = [] := rfl
@[simp] theorem pairs_cons_cons {β : Type} (a b : β) (l : List β) :
    pairs (a :: b :: l) = (a, b) :: pairs (b :: l) := rfl

theorem length_pairs {β : Type} (l : List β) : (pairs l).length = l.length - 1 := by
  unfold pairs; simp [List.length_zip]

/-! ### sums -/

theorem sum_map_div (l : List ℝ) (c : ℝ) : (l.map (fun x => x / c)).sum = l.sum / c := by
  induction l with
  | nil => simp
  | cons a l ih => simp [ih, add_div]

theorem sum_map_const_mul (l : List ℝ) (c : ℝ) : (l.map (fun x => c * x)).sum = c * l.sum := by
  induction l with
  | nil => simp
  | cons a l ih => simp [ih, mul_add]

theorem sum_map_const (l : List ℝ) (c : ℝ) : (l.map (fun _ => c)).sum = l.length * c := by
  simp

end Aeic.Grid
