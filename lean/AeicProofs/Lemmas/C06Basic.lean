/-
  C06 helper lemmas, part 1: scalar equality, sorted-unique lists, bracket search (all over ℝ).
-/
import AeicProofs.RealInst
import AeicModel.PerfTable
import Mathlib.Data.List.Basic
import Mathlib.Data.List.Nodup
import Mathlib.Data.List.Perm.Subperm
import Mathlib.Tactic.Linarith
import Mathlib.Tactic.NormNum

namespace Aeic.PerfTable
open List

@[simp] theorem seq_real (a b : ℝ) : seq a b = true ↔ a = b := by
  unfold seq
  simp only [Bool.and_eq_true, Bool.not_eq_true', decide_eq_false_iff_not, not_lt]
  constructor
  · rintro ⟨h1, h2⟩; exact le_antisymm h2 h1
  · rintro rfl; exact ⟨le_refl _, le_refl _⟩

theorem seq_real_false (a b : ℝ) : seq a b = false ↔ a ≠ b := by
  rw [← Bool.not_eq_true, seq_real]

/-! ### sortU -/

theorem mem_insertU (a x : ℝ) (l : List ℝ) : a ∈ insertU x l ↔ a = x ∨ a ∈ l := by
  induction l with
  | nil => simp [insertU]
  | cons y ys ih =>
    unfold insertU
    split_ifs with h1 h2
    · simp
    · simp only [mem_cons, ih]; tauto
    · have : x = y := le_antisymm (not_lt.mp h2) (not_lt.mp h1)
      subst this; simp

theorem mem_sortU (a : ℝ) (xs : List ℝ) : a ∈ sortU xs ↔ a ∈ xs := by
  induction xs with
  | nil => simp [sortU]
  | cons x xs ih =>
    have : sortU (x :: xs) = insertU x (sortU xs) := rfl
    rw [this, mem_insertU, ih]; simp

theorem insertU_sorted (x : ℝ) (l : List ℝ) (h : l.Pairwise (· < ·)) : (insertU x l).Pairwise (· < ·) := by
  induction l with
  | nil => simp [insertU]
  | cons y ys ih =>
    rw [pairwise_cons] at h
    unfold insertU
    split_ifs with h1 h2
    · rw [pairwise_cons]
      refine ⟨?_, pairwise_cons.mpr h⟩
      intro a ha
      rcases mem_cons.mp ha with rfl | ha
      · exact h1
      · exact lt_trans h1 (h.1 a ha)
    · rw [pairwise_cons]
      refine ⟨?_, ih h.2⟩
      intro a ha
      rcases (mem_insertU a x ys).mp ha with rfl | ha
      · exact h2
      · exact h.1 a ha
    · exact pairwise_cons.mpr h

theorem sortU_sorted (xs : List ℝ) : (sortU xs).Pairwise (· < ·) := by
  induction xs with
  | nil => simp [sortU]
  | cons x xs ih => exact insertU_sorted x _ ih

theorem sortU_nodup (xs : List ℝ) : (sortU xs).Nodup := by
  have := sortU_sorted xs
  exact this.imp (fun h => ne_of_lt h)

theorem sortU_eq_nil (xs : List ℝ) : sortU xs = [] ↔ xs = [] := by
  constructor
  · intro h
    cases xs with
    | nil => rfl
    | cons x xs =>
      have : x ∈ sortU (x :: xs) := (mem_sortU _ _).mpr (by simp)
      rw [h] at this; simp at this
  · rintro rfl; rfl

/-! ### head / last of a strictly ascending list are its extremes -/

theorem sorted_head_le (g : List ℝ) (h : g.Pairwise (· < ·)) (a : ℝ) (ha : g.head? = some a) :
    ∀ x ∈ g, a ≤ x := by
  cases g with
  | nil => simp at ha
  | cons y ys =>
    simp only [head?_cons, Option.some.injEq] at ha; subst ha
    intro x hx
    rcases mem_cons.mp hx with rfl | hx
    · exact le_refl _
    · exact le_of_lt ((pairwise_cons.mp h).1 x hx)

theorem sorted_le_last (g : List ℝ) (h : g.Pairwise (· < ·)) (b : ℝ) (hb : g.getLast? = some b) :
    ∀ x ∈ g, x ≤ b := by
  induction g with
  | nil => simp at hb
  | cons y ys ih =>
    cases ys with
    | nil =>
      simp at hb; subst hb
      intro x hx; simp at hx; subst hx; exact le_refl _
    | cons z zs =>
      rw [getLast?_cons_cons] at hb
      have hp := pairwise_cons.mp h
      intro x hx
      rcases mem_cons.mp hx with rfl | hx
      · have hz : z ≤ b := ih hp.2 hb z (by simp)
        exact le_trans (le_of_lt (hp.1 z (by simp))) hz
      · exact ih hp.2 hb x hx

/-! ### bracket -/

/-- what `bracket` returns on a strictly ascending grid with ≥ 2 points for an in-bounds `x`:
    two neighbouring grid points around `x`. -/
structure IsBracket (g : List ℝ) (x : ℝ) (b : ℝ × ℝ) : Prop where
  mem1 : b.1 ∈ g
  mem2 : b.2 ∈ g
  lt : b.1 < b.2
  le1 : b.1 ≤ x
  le2 : x ≤ b.2
  adj : ∀ c ∈ g, c ≤ b.1 ∨ b.2 ≤ c

theorem bracket_spec (g : List ℝ) (x : ℝ) (hs : g.Pairwise (· < ·)) (hlen : 2 ≤ g.length)
    (a b : ℝ) (ha : g.head? = some a) (hb : g.getLast? = some b) (hax : a ≤ x) (hxb : x ≤ b) :
    IsBracket g x (bracket g x) := by
  induction g generalizing a with
  | nil => simp at hlen
  | cons g0 t ih =>
    cases t with
    | nil => simp at hlen
    | cons g1 gs =>
      simp only [head?_cons, Option.some.injEq] at ha; subst ha
      have hp := pairwise_cons.mp hs
      have h01 : g0 < g1 := hp.1 g1 (by simp)
      unfold bracket
      split_ifs with hc
      · -- this interval
        have hx1 : x ≤ g1 := by
          simp only [Bool.or_eq_true, decide_eq_true_eq, List.isEmpty_iff] at hc
          rcases hc with hc | hc
          · exact le_of_lt hc
          · subst hc; simp at hb; subst hb; exact hxb
        refine ⟨by simp, by simp, h01, hax, hx1, ?_⟩
        intro c hc'
        rcases mem_cons.mp hc' with rfl | hc'
        · left; exact le_refl _
        · right
          exact sorted_head_le (g1 :: gs) hp.2 g1 rfl c hc'
      · simp only [Bool.or_eq_true, decide_eq_true_eq, List.isEmpty_iff, not_or, not_lt] at hc
        obtain ⟨hc1, hc2⟩ := hc
        have hlen' : 2 ≤ (g1 :: gs).length := by
          cases gs with
          | nil => exact absurd rfl hc2
          | cons _ _ => simp
        have hb' : (g1 :: gs).getLast? = some b := by rw [getLast?_cons_cons] at hb; exact hb
        have r := ih hp.2 hlen' g1 rfl hb' hc1
        refine ⟨mem_cons_of_mem _ r.mem1, mem_cons_of_mem _ r.mem2, r.lt, r.le1, r.le2, ?_⟩
        intro c hc'
        rcases mem_cons.mp hc' with rfl | hc'
        · left
          have : g1 ≤ (bracket (g1 :: gs) x).1 := sorted_head_le (g1 :: gs) hp.2 g1 rfl _ r.mem1
          linarith
        · exact r.adj c hc'

/-- a grid point inside a bracket is one of its two ends -/
theorem IsBracket.node {g : List ℝ} {x : ℝ} {b : ℝ × ℝ} (h : IsBracket g x b) (hx : x ∈ g) :
    x = b.1 ∨ x = b.2 := by
  rcases h.adj x hx with h1 | h2
  · left; exact le_antisymm h1 h.le1
  · right; exact le_antisymm h.le2 h2

theorem inBounds_real (g : List ℝ) (x : ℝ) :
    inBounds g x = true ↔ ∃ a b, g.head? = some a ∧ g.getLast? = some b ∧ a ≤ x ∧ x ≤ b := by
  unfold inBounds
  cases h1 : g.head? with
  | none => simp
  | some a =>
    cases h2 : g.getLast? with
    | none => simp
    | some b => simp

theorem bracket_single (g0 x : ℝ) : bracket [g0] x = (g0, g0) := rfl

end Aeic.PerfTable
