/-
  Kernel bridge, part 5: the vector kernels of the inventory assembly (`emissions/emission.py`, `emissions/trajectory.py`)
  equal the hand-written model (`AeicModel/Emissions.lean`) over ℝ: per-segment fuel burn, the emission window
  (`_trajectory_slice` and the four slice stores of `get_trajectory_emissions`), amounts = index × burn, the windowed fuel sum,
  the per-species total of `sum_total_emissions`, the life-cycle CO₂ term.  Helper lemmas only.
-/
import AeicProofs.RealInst
import AeicProofs.Lemmas.C01Lemmas
import AeicModel.Generated.Kernels
import AeicModel.Vec
import AeicModel.Emissions

set_option linter.unusedTactic false
set_option linter.unreachableTactic false
set_option linter.unusedSimpArgs false
set_option linter.unusedVariables false

namespace KernelBridge5
open Aeic Aeic.Emissions

theorem zeroPrefix_eq (k : Nat) (x : List ℝ) : Vec.zeroPrefix k x = zeroBefore k x := by
  induction k generalizing x with
  | zero => simp [Vec.zeroPrefix, zeroBefore]
  | succ k ih =>
    cases x with
    | nil => simp [Vec.zeroPrefix, zeroBefore]
    | cons a xs =>
      have := ih xs
      simp only [Vec.zeroPrefix, zeroBefore, List.take_succ_cons, List.drop_succ_cons, List.map_cons, List.cons_append] at this ⊢
      rw [this]; simp [zero_real]

theorem zeroFrom_eq (k : Nat) (x : List ℝ) : Vec.zeroFrom k x = zeroFrom k x := by
  induction x generalizing k with
  | nil => simp [Vec.zeroFrom, zeroFrom]
  | cons a xs ih =>
    cases k with
    | zero =>
      have := ih 0
      simp only [Vec.zeroFrom, zeroFrom, List.take_zero, List.drop_zero, List.nil_append, List.map_cons] at this ⊢
      rw [← this]; simp [zero_real]
    | succ k =>
      have := ih k
      simp only [Vec.zeroFrom, zeroFrom, List.take_succ_cons, List.drop_succ_cons, List.cons_append] at this ⊢
      rw [this]

theorem window_eq (lo hi : Nat) (x : List ℝ) : Vec.zeroFrom hi (Vec.zeroPrefix lo x) = window lo hi x := by
  rw [zeroPrefix_eq, zeroFrom_eq]; rfl

theorem diffs_eq (fm : List ℝ) : List.zipWith (fun a b => a - b) fm.dropLast fm.tail = diffs fm := by
  induction fm with
  | nil => simp [diffs]
  | cons a rest ih =>
    cases rest with
    | nil => simp [diffs]
    | cons b r =>
      simp only [List.dropLast_cons_cons, List.tail_cons, List.zipWith_cons_cons, diffs] at ih ⊢
      rw [← ih]

theorem vsum_eq (x : List ℝ) : Vec.sum x = x.sum := by simp [Vec.sum, lsum_eq_sum]

theorem last0_eq (x : List ℝ) : Vec.last0 x = lastD x 0 := by
  induction x with
  | nil => simp [Vec.last0, lastD]
  | cons a r ih =>
    cases r with
    | nil => simp [Vec.last0, lastD]
    | cons b r' =>
      simp only [Vec.last0, lastD] at ih ⊢
      rw [← ih]; simp [List.getLastD]

/-- `fuel_burn_per_segment` of `compute_emissions` is the model's `fuelBurn` of the trajectory's fuel-mass column -/
theorem segment_fuel_burn (AV : String → List ℝ) : Kern.segment_fuel_burn AV = fuelBurn (AV "traj.fuel_mass") := by
  simp only [Kern.segment_fuel_burn, fuelBurn]
  cases h : AV "traj.fuel_mass" with
  | nil => simp [Vec.zerosLike, Vec.setTail]
  | cons a r =>
    simp only [Vec.zerosLike, Vec.setTail, List.map_cons]
    rw [diffs_eq]; simp [zero_real]

/-- the amounts and the indices `get_trajectory_emissions` returns for one species, and its fuel burn -/
theorem traj_window (idx fb : List ℝ) (lo hi : Nat) :
    Kern.traj_emissions idx fb lo hi = window lo hi (mulList idx fb) ∧
    Kern.traj_indices idx fb lo hi = window lo hi idx ∧
    Kern.traj_fuel_burn idx fb lo hi = suml (pySlice lo hi fb) := by
  refine ⟨?_, ?_, ?_⟩
  · simp only [Kern.traj_emissions, window_eq, mulList]
  · simp only [Kern.traj_indices, window_eq]
  · simp only [Kern.traj_fuel_burn, vsum_eq, suml_eq_sum, Vec.slice, pySlice]

/-- `_trajectory_slice`: the window bounds of the source are the model's (for `n_climb ≤ n`, `n_descent ≤ n`) -/
theorem traj_slice (c : Cfg) (n nClimb nDescent : Nat) (h1 : nClimb ≤ n) (h2 : nDescent ≤ n) :
    Kern.traj_window_lo n nClimb nDescent c.ltoMode = sliceLo c n nClimb ∧
    Kern.traj_window_hi n nClimb nDescent c.ltoMode = sliceHi c n nDescent := by
  simp only [Kern.traj_window_lo, Kern.traj_window_hi, sliceLo, sliceHi]
  constructor <;> split_ifs <;> simp_all <;> omega

/-- the total of one species as `sum_total_emissions` computes it = the model's `sumTotal` -/
theorem species_total (c : Cfg) (traj : SV (List ℝ)) (lto : SV (TM ℝ)) (apu gse : SV ℝ) (s : Sp) :
    some (Kern.species_total ((traj s).getD []) (((lto s).map TM.sum).getD 0) ((apu s).getD 0) ((gse s).getD 0)
      (traj s).isSome (lto s).isSome c.apu (apu s).isSome c.gse (gse s).isSome) = sumTotal c traj lto apu gse s := by
  simp only [Kern.species_total, sumTotal, vsum_eq, suml_eq_sum, lit_real, zero_real]
  cases traj s <;> cases lto s <;> cases apu s <;> cases gse s <;> cases c.apu <;> cases c.gse <;> simp [addOpt, suml_eq_sum]

/-- attribute environment of `get_lifecycle_emissions` -/
def lcEnv (f : Fuel ℝ) (lc : ℝ) : String → ℝ := fun k =>
  if k = "fuel.lifecycle_CO2" then lc else if k = "fuel.energy_MJ_per_kg" then f.energy else 0

theorem lifecycle (f : Fuel ℝ) (lc : ℝ) (AV : String → List ℝ) :
    Kern.lifecycle_co2 (lcEnv f lc) AV = lifecycleAdj f (AV "traj.fuel_mass") lc := by
  simp only [Kern.lifecycle_co2, lifecycleAdj, lcEnv, String.reduceEq, if_true, if_false, last0_eq, Vec.head0, lit_real, zero_real]
  norm_num

/-! ## the LTO part (`emissions/lto.py`) -/

/-- attribute environment of `get_LTO_emissions`: the four LTO fuel flows of the performance model -/
def ltoEnv (l : LtoIn ℝ) : String → ℝ := fun k =>
  if k = "lto_data.fuel_flow[ThrustMode.IDLE]" then l.ff.idle
  else if k = "lto_data.fuel_flow[ThrustMode.APPROACH]" then l.ff.approach
  else if k = "lto_data.fuel_flow[ThrustMode.CLIMB]" then l.ff.climb
  else if k = "lto_data.fuel_flow[ThrustMode.TAKEOFF]" then l.ff.takeoff else 0

macro "lto_close" : tactic =>
  `(tactic| (simp only [ltoEnv, String.reduceEq, if_true, if_false, modeZero, ltoFuel, TM.mul, TM.zipWith, TM.zeroAC, ltoTIM, lit_real,
      zero_real, Bool.not_eq_true', Bool.not_eq_true] <;> (first | rfl | (split_ifs <;> simp_all) | norm_num)))

/-- the LTO indices, fuel and amounts of one species as `get_LTO_emissions` computes them (time in mode × fuel flow, approach and
    climb zeroed in the trajectory accounting mode, amount = index × fuel per mode) are the model's `modeZero c ei`, `ltoFuel c l`
    and their mode-wise product; the reported LTO fuel burn is the sum over the modes -/
theorem lto_part (c : Cfg) (l : LtoIn ℝ) (ei : TM ℝ) :
    (⟨Kern.lto_index_IDLE ei.idle ei.approach ei.climb ei.takeoff (!c.ltoMode),
      Kern.lto_index_APPROACH ei.idle ei.approach ei.climb ei.takeoff (!c.ltoMode),
      Kern.lto_index_CLIMB ei.idle ei.approach ei.climb ei.takeoff (!c.ltoMode),
      Kern.lto_index_TAKEOFF ei.idle ei.approach ei.climb ei.takeoff (!c.ltoMode)⟩ : TM ℝ) = modeZero c ei ∧
    (⟨Kern.lto_fuel_IDLE (ltoEnv l) ei.idle ei.approach ei.climb ei.takeoff (!c.ltoMode),
      Kern.lto_fuel_APPROACH (ltoEnv l) ei.idle ei.approach ei.climb ei.takeoff (!c.ltoMode),
      Kern.lto_fuel_CLIMB (ltoEnv l) ei.idle ei.approach ei.climb ei.takeoff (!c.ltoMode),
      Kern.lto_fuel_TAKEOFF (ltoEnv l) ei.idle ei.approach ei.climb ei.takeoff (!c.ltoMode)⟩ : TM ℝ) = ltoFuel c l ∧
    (⟨Kern.lto_emission_IDLE (ltoEnv l) ei.idle ei.approach ei.climb ei.takeoff (!c.ltoMode),
      Kern.lto_emission_APPROACH (ltoEnv l) ei.idle ei.approach ei.climb ei.takeoff (!c.ltoMode),
      Kern.lto_emission_CLIMB (ltoEnv l) ei.idle ei.approach ei.climb ei.takeoff (!c.ltoMode),
      Kern.lto_emission_TAKEOFF (ltoEnv l) ei.idle ei.approach ei.climb ei.takeoff (!c.ltoMode)⟩ : TM ℝ)
        = TM.mul (modeZero c ei) (ltoFuel c l) ∧
    Kern.lto_fuel_burn (ltoEnv l) ei.idle ei.approach ei.climb ei.takeoff (!c.ltoMode) = (ltoFuel c l).sum := by
  cases hc : c.ltoMode <;>
  refine ⟨?_, ?_, ?_, ?_⟩ <;>
  simp only [Kern.lto_index_IDLE, Kern.lto_index_APPROACH, Kern.lto_index_CLIMB, Kern.lto_index_TAKEOFF, Kern.lto_fuel_IDLE,
    Kern.lto_fuel_APPROACH, Kern.lto_fuel_CLIMB, Kern.lto_fuel_TAKEOFF, Kern.lto_emission_IDLE, Kern.lto_emission_APPROACH,
    Kern.lto_emission_CLIMB, Kern.lto_emission_TAKEOFF, Kern.lto_fuel_burn, ltoEnv, String.reduceEq, if_true, if_false, modeZero,
    ltoFuel, TM.mul, TM.zipWith, TM.zeroAC, TM.sum, ltoTIM, hc, Bool.not_false, Bool.not_true, lit_real, zero_real,
    Bool.false_eq_true, TM.mk.injEq] <;>
  -- (closing tactics that do not depend on the order of the factors in the source: `fuel_flow * TIM` or `TIM * fuel_flow`)
  (first
    | (norm_num; done)
    | (refine ⟨?_, ?_, ?_, ?_⟩ <;> first | (norm_num; done) | (ring_nf; done) | (norm_num; ring_nf; done) | (norm_num; simp; done))
    | (ring_nf; done) | (norm_num; ring_nf; done) | (norm_num; simp; done))

end KernelBridge5
