/-
  C06 helper lemmas, part 4: the load-time check in full, phases are disjoint, the lazily filled cache,
  mass axis of a phase vs. the table, membership in the PTF-built table (over ℝ).
-/
import AeicProofs.Lemmas.C06Table

namespace Aeic.PerfTable
open List

/-- all conditions `validate` tests, as one proposition -/
def Checks (tol : ℝ) (t : List (Row ℝ)) : Prop :=
  (masses t).length = nMassExpected tol t ∧
  (coverageOk (sub tol .cruise t) = true ∧ coverageOk (sub tol .climb t) = true ∧ coverageOk (sub tol .descend t) = true) ∧
  (flOnlyOk (sub tol .cruise t) (·.tas) = true ∧ flOnlyOk (sub tol .climb t) (·.tas) = true ∧
   flOnlyOk (sub tol .climb t) (·.ff) = true ∧ flOnlyOk (sub tol .descend t) (·.tas) = true ∧
   flOnlyOk (sub tol .descend t) (·.ff) = true ∧ flOnlyOk (sub tol .descend t) (·.rocd) = true)

theorem validate_iff (tol : ℝ) (t : List (Row ℝ)) : validate tol t = .ok () ↔ Checks tol t := by
  unfold validate Checks
  by_cases h1 : ((masses t).length != nMassExpected tol t) = true
  · simp only [h1, ↓reduceIte]
    simp only [bne_iff_ne, ne_eq] at h1
    constructor
    · intro h; cases h
    · intro h; exact absurd h.1 h1
  · simp only [h1]
    simp only [bne_iff_ne, ne_eq, Decidable.not_not] at h1
    by_cases h2 : (!(coverageOk (sub tol .cruise t) && coverageOk (sub tol .climb t) && coverageOk (sub tol .descend t))) = true
    · simp only [h2, ↓reduceIte, Bool.false_eq_true]
      simp only [Bool.not_eq_true', Bool.and_eq_false_iff] at h2
      constructor
      · intro h; cases h
      · rintro ⟨_, ⟨a, b, c⟩, _⟩
        rcases h2 with (h2 | h2) | h2 <;> simp_all
    · simp only [h2]
      simp only [Bool.not_eq_true', Bool.not_eq_false, Bool.and_eq_true] at h2
      by_cases h3 : (!(flOnlyOk (sub tol .cruise t) (·.tas) && flOnlyOk (sub tol .climb t) (·.tas)
              && flOnlyOk (sub tol .climb t) (·.ff) && flOnlyOk (sub tol .descend t) (·.tas)
              && flOnlyOk (sub tol .descend t) (·.ff) && flOnlyOk (sub tol .descend t) (·.rocd))) = true
      · simp only [h3, ↓reduceIte, Bool.false_eq_true]
        constructor
        · intro h; cases h
        · rintro ⟨_, _, a, b, c, d, e, f⟩
          simp [a, b, c, d, e, f] at h3
      · simp only [h3]
        simp only [Bool.not_eq_true', Bool.not_eq_false, Bool.and_eq_true] at h3
        simp only [Bool.false_eq_true, ↓reduceIte, true_iff]
        exact ⟨h1, ⟨h2.1.1, h2.1.2, h2.2⟩, h3.1.1.1.1.1, h3.1.1.1.1.2, h3.1.1.1.2, h3.1.1.2, h3.1.2, h3.2⟩

/-! ### phases are disjoint (for `tol ≥ 0`) -/

theorem inPhase_disjoint (tol : ℝ) (h0 : 0 ≤ tol) (p q : Phase) (hpq : q ≠ p) (r : Row ℝ)
    (hp : inPhase tol p r = true) : inPhase tol q r = false := by
  cases p <;> cases q <;> simp only [inPhase, Bool.and_eq_true, decide_eq_true_eq, Bool.and_eq_false_iff,
    decide_eq_false_iff_not, not_lt, not_le, ne_eq, not_true_eq_false] at * <;>
    first
      | (left; linarith)
      | (right; linarith)
      | linarith

theorem sub_other_nil (tol : ℝ) (h0 : 0 ≤ tol) (p q : Phase) (hpq : q ≠ p) (t : List (Row ℝ)) :
    sub tol q (sub tol p t) = [] := by
  unfold sub
  rw [filter_eq_nil_iff]
  intro r hr
  have := (mem_filter.mp hr).2
  rw [inPhase_disjoint tol h0 p q hpq r this]; simp

theorem coverageOk_nil : coverageOk ([] : List (Row ℝ)) = true := by
  simp [coverageOk, hasDupP, fls, masses, sortU]

theorem flOnlyOk_nil (fld : Row ℝ → ℝ) : flOnlyOk ([] : List (Row ℝ)) fld = true := by
  simp [flOnlyOk, dedupP, fls, sortU]

theorem sabs_real (x : ℝ) : sabs x = |x| := by
  unfold sabs
  simp only [zero_real]
  split_ifs with h
  · exact (abs_of_neg h).symm
  · exact (abs_of_nonneg (not_lt.mp h)).symm

/-- mass count `__post_init__` demands of a non-empty one-phase table = the count of that phase -/
theorem nMassExpected_sub (tol : ℝ) (h0 : 0 ≤ tol) (p : Phase) (t : List (Row ℝ)) (hne : sub tol p t ≠ []) :
    nMassExpected tol (sub tol p t) = phaseMasses p := by
  obtain ⟨r, hr⟩ := exists_mem_of_ne_nil _ hne
  have hrp : inPhase tol p r = true := ((mem_sub tol p t r).mp hr).2
  have hall : ∀ x ∈ sub tol p t, inPhase tol p x = true := fun x hx => ((mem_sub tol p t x).mp hx).2
  unfold nMassExpected
  cases p
  · -- climb
    have : (sub tol .climb t).all (fun r => decide (tol < r.rocd)) = true := by
      rw [all_eq_true]; intro x hx; simpa [inPhase] using hall x hx
    simp [this, phaseMasses]
  · -- cruise
    have h1 : ¬ (sub tol .cruise t).all (fun r => decide (tol < r.rocd)) = true := by
      rw [all_eq_true]; intro h
      have := h r hr
      simp only [inPhase, Bool.and_eq_true, decide_eq_true_eq] at hrp this
      linarith [hrp.2]
    have h2 : (sub tol .cruise t).all (fun r => decide (sabs r.rocd ≤ tol)) = true := by
      rw [all_eq_true]; intro x hx
      have := hall x hx
      simp only [inPhase, Bool.and_eq_true, decide_eq_true_eq] at this
      simp only [decide_eq_true_eq, sabs_real]
      exact abs_le.mpr ⟨this.1, this.2⟩
    simp [h1, h2, phaseMasses]
  · -- descend
    simp only [inPhase, decide_eq_true_eq] at hrp
    have h1 : ¬ (sub tol .descend t).all (fun r => decide (tol < r.rocd)) = true := by
      rw [all_eq_true]; intro h
      have := h r hr
      simp only [decide_eq_true_eq] at this
      linarith
    have h2 : ¬ (sub tol .descend t).all (fun r => decide (sabs r.rocd ≤ tol)) = true := by
      rw [all_eq_true]; intro h
      have := h r hr
      simp only [decide_eq_true_eq, sabs_real] at this
      have := (abs_le.mp this).1
      linarith
    have h3 : (sub tol .descend t).all (fun r => decide (r.rocd < -tol)) = true := by
      rw [all_eq_true]; intro x hx; simpa [inPhase] using hall x hx
    simp [h1, h2, h3, phaseMasses]

/-! ### two strictly ascending lists, one inside the other, same length -/

theorem sorted_eq_of_subset_of_length (l1 l2 : List ℝ) (h1 : l1.Pairwise (· < ·)) (h2 : l2.Pairwise (· < ·))
    (hsub : l1 ⊆ l2) (hlen : l2.length ≤ l1.length) : l1 = l2 := by
  have nd : l1.Nodup := h1.imp (fun h => ne_of_lt h)
  have hp := (subperm_of_subset nd hsub).perm_of_length_le hlen
  exact Perm.eq_of_pairwise (fun a b _ _ hab hba => absurd hab (lt_asymm hba)) h1 h2 hp

theorem masses_sub_subset (tol : ℝ) (p : Phase) (t : List (Row ℝ)) : masses (sub tol p t) ⊆ masses t := by
  intro m hm
  obtain ⟨r, hr, rfl⟩ := (mem_masses _ _).mp hm
  exact (mem_masses _ _).mpr ⟨r, ((mem_sub tol p t r).mp hr).1, rfl⟩

/-! ### cache -/

/-- every cached interpolator is the one `prep` would build now -/
def CacheInv (tol : ℝ) (t : List (Row ℝ)) (c : Cache ℝ) : Prop :=
  ∀ p pr, c p = some pr → prep tol t p = .ok pr

theorem evalCached_spec (tol : ℝ) (t : List (Row ℝ)) (c : Cache ℝ) (hc : CacheInv tol t c)
    (alt : ℝ) (ms : MassSpec ℝ) (p : Phase) :
    (evalCached tol t c alt ms p).1 = evaluate tol t alt ms p ∧ CacheInv tol t (evalCached tol t c alt ms p).2 := by
  unfold evalCached evaluate evalFL
  cases hcp : c p with
  | some pr =>
    refine ⟨?_, hc⟩
    simp only [hc p pr hcp]
  | none =>
    cases hpr : prep tol t p with
    | error e => exact ⟨rfl, hc⟩
    | ok pr =>
      refine ⟨rfl, ?_⟩
      intro q pr' hq
      simp only at hq
      split_ifs at hq with hqp
      · subst hqp; injection hq with hq; subst hq; exact hpr
      · exact hc q pr' hq

theorem runCached_spec (tol : ℝ) (t : List (Row ℝ)) (c : Cache ℝ) (hc : CacheInv tol t c)
    (qs : List (ℝ × MassSpec ℝ × Phase)) :
    runCached tol t c qs = qs.map (fun q => evaluate tol t q.1 q.2.1 q.2.2) := by
  induction qs generalizing c with
  | nil => rfl
  | cons q rest ih =>
    obtain ⟨alt, ms, p⟩ := q
    have := evalCached_spec tol t c hc alt ms p
    simp only [runCached, map_cons]
    rw [this.1, ih _ this.2]

/-! ### inside the envelope a value is returned -/

theorem interp1_ok_of_inBounds (g : List ℝ) (v : ℝ → ℝ) (x : ℝ) (h : inBounds g x = true) :
    ∃ y, interp1 g v x = .ok y := by
  unfold interp1
  simp only [h, Bool.not_true, Bool.false_eq_true, ↓reduceIte]
  split_ifs <;> exact ⟨_, rfl⟩

theorem interp2_ok_of_inBounds (gx gm : List ℝ) (v : ℝ → ℝ → ℝ) (x m : ℝ) (hx : inBounds gx x = true)
    (hm : inBounds gm m = true) : ∃ y, interp2 gx gm v x m = .ok y := by
  unfold interp2
  simp only [hx, hm, Bool.not_true, Bool.false_eq_true, ↓reduceIte]
  split_ifs <;> exact ⟨_, rfl⟩

theorem interpField_ok_of_inBounds (s : List (Row ℝ)) (fld : Row ℝ → ℝ) (fl m : ℝ)
    (hx : inBounds (fls s) fl = true) (hm : (masses s).length > 1 → inBounds (masses s) m = true) :
    ∃ y, interpField (prepOf s) fld fl m = .ok y := by
  unfold interpField prepOf; simp only
  split_ifs with h2
  · exact interp2_ok_of_inBounds _ _ _ _ _ hx (hm h2)
  · exact interp1_ok_of_inBounds _ _ _ hx

/-- well-formed parsed PTF: ascending mass levels, distinct flight levels within each phase column, rates of climb
    that are classified as climb after conversion, rates of descent classified as descent, at least one climb line -/
def PtfWellFormed (tol : ℝ) (P : Ptf ℝ) : Prop :=
  0 ≤ tol ∧ P.lo < P.nom ∧ P.nom < P.hi ∧
  (P.climb.map (·.fl)).Nodup ∧ (P.cruise.map (·.fl)).Nodup ∧ (P.descent.map (·.fl)).Nodup ∧
  (∀ c ∈ P.climb, tol < fpm c.rocdLo ∧ tol < fpm c.rocdNom ∧ tol < fpm c.rocdHi) ∧
  (∀ d ∈ P.descent, fpm (-d.rocd) < -tol) ∧ P.climb ≠ []

/-- the complete statement about PTF-generated model files; proved as `C06.ptf_rows_reproduced` -/
def PtfRowsReproducedStatement : Prop :=
  ∀ (tol : ℝ) (P : Ptf ℝ), PtfWellFormed tol P →
    validate tol (buildRows P) = .ok () ∧
    (∀ c ∈ P.climb,
      evaluate tol (buildRows P) (c.fl * Gen.FL_TO_METERS) (.val P.lo) .climb = .ok ⟨kts c.tas, fpm c.rocdLo, perMin c.ff⟩ ∧
      evaluate tol (buildRows P) (c.fl * Gen.FL_TO_METERS) (.val P.nom) .climb = .ok ⟨kts c.tas, fpm c.rocdNom, perMin c.ff⟩ ∧
      evaluate tol (buildRows P) (c.fl * Gen.FL_TO_METERS) (.val P.hi) .climb = .ok ⟨kts c.tas, fpm c.rocdHi, perMin c.ff⟩) ∧
    (∀ c ∈ P.cruise,
      evaluate tol (buildRows P) (c.fl * Gen.FL_TO_METERS) (.val P.lo) .cruise = .ok ⟨kts c.tas, 0, perMin c.ffLo⟩ ∧
      evaluate tol (buildRows P) (c.fl * Gen.FL_TO_METERS) (.val P.nom) .cruise = .ok ⟨kts c.tas, 0, perMin c.ffNom⟩ ∧
      evaluate tol (buildRows P) (c.fl * Gen.FL_TO_METERS) (.val P.hi) .cruise = .ok ⟨kts c.tas, 0, perMin c.ffHi⟩) ∧
    (∀ d ∈ P.descent,
      evaluate tol (buildRows P) (d.fl * Gen.FL_TO_METERS) (.val P.nom) .descend
        = .ok ⟨kts d.tas, fpm (-d.rocd), perMin d.ff⟩)

/-! ### PTF-built table -/

theorem mem_buildRows (P : Ptf ℝ) (r : Row ℝ) : r ∈ buildRows P ↔ r ∈ buildRowsUnsorted P := by
  unfold buildRows; exact mem_mergeSort

theorem climb_mem (P : Ptf ℝ) (c : PtfClimb ℝ) (hc : c ∈ P.climb) (r : Row ℝ) (hr : r ∈ climbRows P c) :
    r ∈ buildRows P := by
  rw [mem_buildRows]; unfold buildRowsUnsorted
  exact mem_append_left _ (mem_append_left _ (mem_flatMap.mpr ⟨c, hc, hr⟩))

theorem cruise_mem (P : Ptf ℝ) (c : PtfCruise ℝ) (hc : c ∈ P.cruise) (r : Row ℝ) (hr : r ∈ cruiseRows P c) :
    r ∈ buildRows P := by
  rw [mem_buildRows]; unfold buildRowsUnsorted
  exact mem_append_left _ (mem_append_right _ (mem_flatMap.mpr ⟨c, hc, hr⟩))

theorem descent_mem (P : Ptf ℝ) (d : PtfDescent ℝ) (hd : d ∈ P.descent) : descentRow P d ∈ buildRows P := by
  rw [mem_buildRows]; unfold buildRowsUnsorted
  exact mem_append_right _ (mem_map.mpr ⟨d, hd, rfl⟩)

theorem inBounds_false_of_outside (g : List ℝ) (x : ℝ) (h : (∀ a ∈ g, x < a) ∨ (∀ a ∈ g, a < x)) :
    inBounds g x = false := by
  rw [← Bool.not_eq_true, inBounds_real]
  rintro ⟨a, b, ha, hb, h1, h2⟩
  rcases h with h | h
  · have := h a (mem_of_mem_head? ha); linarith
  · have := h b (mem_of_mem_getLast? hb); linarith


/-! ### concrete table used by the non-vacuity examples of Properties/C06.lean -/

/-- two climb levels × three masses and two descent levels at the middle mass -/
noncomputable def exampleTable : List (Row ℝ) :=
  [⟨0, 1, 100, 3, 1⟩, ⟨0, 2, 100, 2, 1⟩, ⟨0, 3, 100, 1, 1⟩,
   ⟨100, 1, 200, 6, 2⟩, ⟨100, 2, 200, 5, 2⟩, ⟨100, 3, 200, 4, 2⟩,
   ⟨100, 2, 150, -8, 1 / 2⟩, ⟨0, 2, 120, -4, 1 / 4⟩]


end Aeic.PerfTable
