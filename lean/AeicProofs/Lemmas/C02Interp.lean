/-
  Helper lemmas for C02 (resampling): the model of `np.interp` on non-decreasing abscissae.
-/
import AeicProofs.RealInst
import AeicModel.Builder

namespace Aeic.Builder
open Aeic

/-- abscissae non-decreasing -/
def SortedP (ps : List (ℝ × ℝ)) : Prop := ps.Pairwise (fun a b => a.1 ≤ b.1)

theorem interpAux_at (nan : ℝ) : ∀ (ps : List (ℝ × ℝ)), SortedP ps → ∀ x f, (x, f) ∈ ps →
    (∀ q ∈ ps, q.1 = x → q.2 = f) → interpAux ps x nan = f := by
  intro ps
  induction ps with
  | nil => intro _ x f hm; simp at hm
  | cons p0 t ih =>
    intro hs x f hm hd
    obtain ⟨x0, f0⟩ := p0
    cases t with
    | nil =>
      simp at hm
      simp [interpAux, hm.2]
    | cons p1 rest =>
      obtain ⟨x1, f1⟩ := p1
      have hs' : SortedP ((x1, f1) :: rest) := (List.pairwise_cons.mp hs).2
      have hhead : ∀ q ∈ (x1, f1) :: rest, x0 ≤ q.1 := (List.pairwise_cons.mp hs).1
      have h01 : x0 ≤ x1 := hhead (x1, f1) (by simp)
      unfold interpAux
      by_cases h1 : x1 ≤ x
      · rw [if_pos h1]
        have hd' : ∀ q ∈ (x1, f1) :: rest, q.1 = x → q.2 = f := fun q hq => hd q (List.mem_cons_of_mem _ hq)
        rcases List.mem_cons.mp hm with heq | hm'
        · -- the point itself is the head, but its abscissa is duplicated by the next one
          have hx : x = x0 := (Prod.mk.inj heq).1
          have hxx : x1 = x := le_antisymm h1 (by linarith)
          have hf1 : f1 = f := hd (x1, f1) (by simp) hxx
          exact ih hs' x f (by simp [hxx, hf1]) hd'
        · exact ih hs' x f hm' hd'
      · rw [if_neg h1]
        have hx : (x, f) = (x0, f0) := by
          rcases List.mem_cons.mp hm with heq | hm'
          · exact heq
          · exfalso
            have h2 : x1 ≤ x := by
              rcases List.mem_cons.mp hm' with heq | hm''
              · exact le_of_eq (Prod.mk.inj heq).1.symm
              · exact (List.pairwise_cons.mp hs').1 (x, f) hm''
            exact h1 h2
        obtain ⟨rfl, rfl⟩ := Prod.mk.inj hx
        simp

theorem interpAux_between (nan : ℝ) : ∀ (l1 : List (ℝ × ℝ)) (a fa b fb : ℝ) (l2 : List (ℝ × ℝ)) (x : ℝ),
    SortedP (l1 ++ (a, fa) :: (b, fb) :: l2) → a < x → x < b →
    interpAux (l1 ++ (a, fa) :: (b, fb) :: l2) x nan = (fb - fa) / (b - a) * (x - a) + fa := by
  intro l1
  induction l1 with
  | nil =>
    intro a fa b fb l2 x _ hax hxb
    simp only [List.nil_append, interpAux]
    rw [if_neg (not_le.mpr hxb), if_neg (not_le.mpr hax)]
  | cons p0 t ih =>
    intro a fa b fb l2 x hs hax hxb
    obtain ⟨x0, f0⟩ := p0
    have hs' : SortedP (t ++ (a, fa) :: (b, fb) :: l2) := (List.pairwise_cons.mp hs).2
    cases t with
    | nil =>
      simp only [List.cons_append, List.nil_append, interpAux]
      rw [if_pos hax.le]
      exact ih_nil a fa b fb l2 x hax hxb
    | cons p1 t' =>
      obtain ⟨x1, f1⟩ := p1
      have h1a : x1 ≤ a := by
        have := (List.pairwise_append.mp hs').2.2 (x1, f1) (by simp) (a, fa) (by simp)
        exact this
      simp only [List.cons_append, interpAux]
      rw [if_pos (by linarith : x1 ≤ x)]
      exact ih a fa b fb l2 x hs' hax hxb
where
  ih_nil (a fa b fb : ℝ) (l2 : List (ℝ × ℝ)) (x : ℝ) (hax : a < x) (hxb : x < b) :
      interpAux ((a, fa) :: (b, fb) :: l2) x nan = (fb - fa) / (b - a) * (x - a) + fa := by
    simp only [interpAux]
    rw [if_neg (not_le.mpr hxb), if_neg (not_le.mpr hax)]

theorem sorted_le_last {ps : List (ℝ × ℝ)} (hs : SortedP ps) {p l : ℝ × ℝ} (hp : p ∈ ps)
    (hl : ps.getLast? = some l) : p.1 ≤ l.1 := by
  induction ps with
  | nil => simp at hp
  | cons q t ih =>
    cases t with
    | nil =>
      simp at hp hl; subst hp; subst hl; exact le_refl _
    | cons q' t' =>
      have hl' : (q' :: t').getLast? = some l := by simpa [List.getLast?_cons_cons] using hl
      rcases List.mem_cons.mp hp with rfl | hp'
      · have hmem : l ∈ q' :: t' := List.mem_of_getLast? hl'
        exact (List.pairwise_cons.mp hs).1 l hmem
      · exact ih (List.pairwise_cons.mp hs).2 hp' hl'

/-- inside the range of a non-empty sorted table `interp1` is `interpAux` -/
theorem interp1_inside (nan : ℝ) {xp fp : List ℝ} {x : ℝ} {p q : ℝ × ℝ} (hs : SortedP (xp.zip fp))
    (hp : p ∈ xp.zip fp) (hq : q ∈ xp.zip fp) (hpx : p.1 ≤ x) (hxq : x ≤ q.1) :
    interp1 nan xp fp x = interpAux (xp.zip fp) x nan := by
  unfold interp1
  cases hz : xp.zip fp with
  | nil => rw [hz] at hp; simp at hp
  | cons h t =>
    obtain ⟨x0, f0⟩ := h
    have hne : (x0, f0) :: t ≠ [] := by simp
    obtain ⟨l, hl⟩ : ∃ l, ((x0, f0) :: t).getLast? = some l := ⟨_, List.getLast?_eq_getLast_of_ne_nil hne⟩
    obtain ⟨xl, fl⟩ := l
    rw [hz] at hs hp hq
    have h0 : x0 ≤ p.1 := by
      rcases List.mem_cons.mp hp with rfl | hp'
      · exact le_refl _
      · exact (List.pairwise_cons.mp hs).1 p hp'
    have h1 : q.1 ≤ xl := sorted_le_last hs hq hl
    simp only [hl]
    rw [if_neg (by simp), if_neg (by linarith), if_neg (by linarith)]

end Aeic.Builder
