/-
  Helper lemmas for C11 (option dispatch).  Core Lean only.
-/
import AeicModel.Dispatch

set_option linter.unusedSimpArgs false

namespace Aeic.Dispatch

/-- closed form of `species in config.emissions.enabled_species` -/
def enSpec (c : Config) : Species → Bool
  | .CO2 => c.co2
  | .H2O => c.h2o
  | .HC => c.hc != .none
  | .CO => c.co != .none
  | .NOx | .NO | .NO2 | .HONO => c.nox != .none
  | .PMvol | .OCic => c.pmvol != .none
  | .PMnvol | .PMnvolGMD => c.pmnvol != .none
  | .PMnvolN => c.pmnvol == .scope11 || c.pmnvol == .meem
  | .SOx | .SO2 | .SO4 => c.sox

theorem en_spec (c : Config) (s : Species) : en c s = enSpec c s := by
  rcases c with ⟨cd, co2, h2o, sox, nox, hc, co, pmvol, pmnvol, apu, gse, lc⟩
  cases s <;> simp [en, enabledSpecies, addIf, enSpec, Config.hcEnabled, Config.coEnabled, Config.noxEnabled,
    Config.pmvolEnabled, Config.pmnvolEnabled]
  all_goals first
    | (cases hc <;> decide) | (cases co <;> decide) | (cases nox <;> decide)
    | (cases pmvol <;> decide) | (cases pmnvol <;> decide)


/-! ### the trajectory part -/

theorem trajPMvol_current_ok (c : Config) :
    ∃ m, trajPMvol Rev.current c.pmvolEnabled c.pmvol (needsHc c) = .ok m := by
  rcases c with ⟨cd, co2, h2o, sox, nox, hc, co, pmvol, pmnvol, apu, gse, lc⟩
  cases pmvol <;> cases hc <;>
    simp [trajPMvol, needsHc, en_spec, enSpec, Config.pmvolEnabled, Rev.current, pure, Except.pure, throw, throwThe,
      MonadExceptOf.throw]

theorem trajPMnvol_cases (m : PMnvolMethod) (nE sN : Bool) :
    (m = .foa3 ∧ trajPMnvol m nE sN = .error (.refused "pmnvol_method" "foa3")) ∨
    (m ≠ .foa3 ∧ ∃ k, trajPMnvol m nE sN = .ok k) := by
  cases m <;> simp [trajPMnvol, pure, Except.pure, throw, throwThe, MonadExceptOf.throw]


theorem trajIndices_current (c : Config) (e : Env) :
    (c.pmnvol = .foa3 ∧ trajIndices Rev.current c e = .error (.refused "pmnvol_method" "foa3")) ∨
    (c.pmnvol ≠ .foa3 ∧ ∃ k, trajIndices Rev.current c e = .ok k) := by
  obtain ⟨pv, hpv⟩ := trajPMvol_current_ok c
  rcases trajPMnvol_cases c.pmnvol (en c .PMnvolN) e.scopeNumber with ⟨h1, h2⟩ | ⟨h1, k, h2⟩
  · left
    refine ⟨h1, ?_⟩
    have h2' := h2
    rw [h1] at h2'
    simp [trajIndices, hpv, h2', bind, Except.bind, Config.pmnvolEnabled, h1]
  · right
    refine ⟨h1, ?_⟩
    by_cases hp : c.pmnvolEnabled = true
    · simp [trajIndices, hpv, h2, bind, Except.bind, hp, pure, Except.pure]
    · simp [trajIndices, hpv, bind, Except.bind, hp, pure, Except.pure]

/-! ### supports of abstract maps -/

/-- every key of `m` satisfies `P` -/
def KMap.Sub (m : KMap) (P : Species → Prop) : Prop := ∀ s v, m s = some v → P s

theorem KMap.sub_empty (P : Species → Prop) : KMap.empty.Sub P := by
  intro s v h; simp [KMap.empty] at h

theorem KMap.sub_update {a b : KMap} {P : Species → Prop} (ha : a.Sub P) (hb : b.Sub P) : (a.update b).Sub P := by
  intro s v h
  unfold KMap.update at h
  split at h
  · next w hw => exact hb s w hw
  · exact ha s v h

theorem KMap.sub_set {a : KMap} {P : Species → Prop} (ha : a.Sub P) (k : Species) (x : Abs) (hk : P k) :
    (a.set k x).Sub P := by
  intro s v h
  unfold KMap.set at h
  split at h
  · next hs => exact hs ▸ hk
  · exact ha s v h

theorem KMap.sub_setIf {a : KMap} {P : Species → Prop} (ha : a.Sub P) (b : Bool) (k : Species) (x : Abs)
    (hk : b = true → P k) : (a.setIf b k x).Sub P := by
  unfold KMap.setIf
  split
  · next hb => exact KMap.sub_set ha k x (hk hb)
  · exact ha

theorem KMap.sub_setAll {P : Species → Prop} (ks : List Species) (x : Abs) :
    ∀ {a : KMap}, a.Sub P → (∀ k ∈ ks, P k) → (a.setAll ks x).Sub P := by
  induction ks with
  | nil => intro a ha _; simpa [KMap.setAll] using ha
  | cons k ks ih =>
    intro a ha hk
    simp only [KMap.setAll, List.foldl_cons]
    exact ih (KMap.sub_set ha k x (hk k (by simp))) (fun k' hk' => hk k' (by simp [hk']))

theorem KMap.sub_mono {a : KMap} {P Q : Species → Prop} (ha : a.Sub P) (h : ∀ s, P s → Q s) : a.Sub Q :=
  fun s v hs => h s (ha s v hs)

/-! ### keys of the trajectory part are enabled species -/

theorem constantPart_sub (c : Config) : (constantPart c).Sub (fun s => en c s = true) := by
  intro s v h
  unfold constantPart at h
  split at h
  · assumption
  · cases h

theorem trajNOx_sub (c : Config) (h : en c .NOx = true) : (trajNOx c.nox).Sub (fun s => en c s = true) := by
  have hn : c.nox ≠ .none := by simpa [en_spec, enSpec] using h
  cases hm : c.nox
  · -- bffm2
    simp only [trajNOx]
    refine KMap.sub_setAll _ _ (KMap.sub_empty _) ?_
    intro k hk
    simp at hk
    rcases hk with rfl | rfl | rfl | rfl <;> simp [en_spec, enSpec, hm]
  · simpa [trajNOx] using KMap.sub_empty _
  · exact absurd hm hn

theorem trajPMvol_sub (r : Rev) (c : Config) (hc : Bool) (k : KMap)
    (h : trajPMvol r c.pmvolEnabled c.pmvol hc = .ok k) : k.Sub (fun s => en c s = true) := by
  have key : ∀ k' : Species, k' ∈ [Species.PMvol, Species.OCic] → c.pmvol ≠ .none → en c k' = true := by
    intro k' hk hne
    simp at hk
    rcases hk with rfl | rfl <;> simpa [en_spec, enSpec] using hne
  unfold trajPMvol at h
  cases hm : c.pmvol <;> simp [hm, Config.pmvolEnabled, pure, Except.pure] at h
  · subst h
    exact KMap.sub_setAll _ _ (KMap.sub_empty _) (fun k' hk' => key k' hk' (by simp [hm]))
  · split at h
    · cases h
    · split at h
      · cases h
      · injection h with h; subst h
        exact KMap.sub_setAll _ _ (KMap.sub_empty _) (fun k' hk' => key k' hk' (by simp [hm]))
  · subst h; exact KMap.sub_empty _


theorem trajPMnvol_sub (c : Config) (sN : Bool) (k : KMap) (hp : c.pmnvolEnabled = true)
    (h : trajPMnvol c.pmnvol (en c .PMnvolN) sN = .ok k) : k.Sub (fun s => en c s = true) := by
  have hne : c.pmnvol ≠ .none := by simpa [Config.pmnvolEnabled] using hp
  have h1 : en c .PMnvol = true := by simpa [en_spec, enSpec] using hne
  have h2 : en c .PMnvolGMD = true := by simpa [en_spec, enSpec] using hne
  unfold trajPMnvol at h
  cases hm : c.pmnvol <;> simp [hm, pure, Except.pure] at h
  · subst h
    exact KMap.sub_setIf (KMap.sub_set (KMap.sub_set (KMap.sub_empty _) _ _ h2) _ _ h1) _ _ _ (fun hb => hb)
  · subst h
    refine KMap.sub_setIf (KMap.sub_set (KMap.sub_set (KMap.sub_empty _) _ _ h1) _ _ h2) _ _ _ ?_
    intro hb
    simp at hb
    exact hb.2
  · exact absurd hm hne

/-- every species with a trajectory index (hence a trajectory emission) is an enabled species -/
theorem trajIndices_sub (r : Rev) (c : Config) (e : Env) (m : KMap) (h : trajIndices r c e = .ok m) :
    m.Sub (fun s => en c s = true) := by
  unfold trajIndices at h
  simp only [bind, Except.bind] at h
  split at h
  · cases h
  · next pv hpv =>
    have hpvs := trajPMvol_sub r c _ pv hpv
    have base : (if en c .NOx = true then (constantPart c).update (trajNOx c.nox) else constantPart c).Sub
        (fun s => en c s = true) := by
      split
      · next hn => exact KMap.sub_update (constantPart_sub c) (trajNOx_sub c hn)
      · exact constantPart_sub c
    have withHc : (if needsHc c = true then
        (if en c .NOx = true then (constantPart c).update (trajNOx c.nox) else constantPart c).setIf (en c .HC) .HC .data
        else (if en c .NOx = true then (constantPart c).update (trajNOx c.nox) else constantPart c)).Sub
        (fun s => en c s = true) := by
      split
      · exact KMap.sub_setIf base _ _ _ (fun hb => hb)
      · exact base
    have withCo := KMap.sub_setIf withHc (en c .CO) .CO .data (fun hb => hb)
    have withPv := KMap.sub_update withCo hpvs
    split at h
    · next hp =>
      split at h
      · cases h
      · next pn hpn =>
        simp only [pure, Except.pure] at h
        injection h with h
        subst h
        exact KMap.sub_update withPv (trajPMnvol_sub c _ pn hp hpn)
    · simp only [pure, Except.pure] at h
      injection h with h
      subst h
      exact withPv

/-! ### the LTO part -/

theorem ltoNOx_sub (c : Config) : (ltoNOx c).Sub (fun s => en c s = true) := by
  unfold ltoNOx
  split
  · exact KMap.sub_empty _
  · next h =>
    have hn : c.nox ≠ .none := by
      intro hc; simp [Config.noxEnabled, hc] at h
    refine KMap.sub_setAll _ _ (KMap.sub_empty _) ?_
    intro k hk
    simp at hk
    rcases hk with rfl | rfl | rfl | rfl <;> simpa [en_spec, enSpec] using hn

theorem ltoPMvol_sub (c : Config) (h : en c .PMvol = true) : (ltoPMvol c.pmvol).Sub (fun s => en c s = true) := by
  have h2 : en c .OCic = true := by simpa [en_spec, enSpec] using h
  have key : ∀ k ∈ [Species.PMvol, Species.OCic], en c k = true := by
    intro k hk; simp at hk; rcases hk with rfl | rfl <;> assumption
  cases hm : c.pmvol <;> simp only [ltoPMvol] <;> exact KMap.sub_setAll _ _ (KMap.sub_empty _) key

theorem ltoPMnvol_sub (c : Config) (sN : Bool) (h : en c .PMnvol = true) :
    (ltoPMnvol c.pmnvol (en c .PMnvolN) sN).Sub (fun s => en c s = true) := by
  cases hm : c.pmnvol <;> simp only [ltoPMnvol]
  · exact KMap.sub_set (KMap.sub_empty _) _ _ h
  · refine KMap.sub_setIf (KMap.sub_set (KMap.sub_empty _) _ _ h) _ _ _ ?_
    intro hb; simp at hb; exact hb.2
  · exact KMap.sub_set (KMap.sub_empty _) _ _ h
  · exact KMap.sub_set (KMap.sub_empty _) _ _ h

/-- the LTO map before the unconditional `lto_indices[PMnvolGMD] = ThrustModeValues(0.0)` -/
def ltoInner (c : Config) (e : Env) : KMap :=
  let idx := constantPart c
  let idx := idx.update (ltoNOx c)
  let idx := idx.setIf (en c .HC) .HC .data
  let idx := idx.setIf (en c .CO) .CO .data
  let idx := if en c .PMvol then idx.update (ltoPMvol c.pmvol) else idx
  if en c .PMnvol then idx.update (ltoPMnvol c.pmnvol (en c .PMnvolN) e.scopeNumber) else idx

theorem ltoIndices_eq (c : Config) (e : Env) : ltoIndices c e = (ltoInner c e).set .PMnvolGMD .zero := rfl

theorem ltoInner_sub (c : Config) (e : Env) : (ltoInner c e).Sub (fun s => en c s = true) := by
  unfold ltoInner
  have b1 := KMap.sub_update (constantPart_sub c) (ltoNOx_sub c)
  have b2 := KMap.sub_setIf b1 (en c .HC) .HC .data (fun hb => hb)
  have b3 := KMap.sub_setIf b2 (en c .CO) .CO .data (fun hb => hb)
  have b4 : (if en c .PMvol = true then
      ((((constantPart c).update (ltoNOx c)).setIf (en c .HC) .HC .data).setIf (en c .CO) .CO .data).update (ltoPMvol c.pmvol)
      else (((constantPart c).update (ltoNOx c)).setIf (en c .HC) .HC .data).setIf (en c .CO) .CO .data).Sub
      (fun s => en c s = true) := by
    split
    · next h => exact KMap.sub_update b3 (ltoPMvol_sub c h)
    · exact b3
  simp only []
  split
  · next h => exact KMap.sub_update b4 (ltoPMnvol_sub c _ h)
  · exact b4

/-- a switched-off species is absent from the LTO indices or structurally zero there -/
theorem ltoIndices_disabled (c : Config) (e : Env) (s : Species) (h : en c s = false) :
    ltoIndices c e s = none ∨ ltoIndices c e s = some .zero := by
  rw [ltoIndices_eq]
  unfold KMap.set
  split
  · right; rfl
  · left
    cases hv : ltoInner c e s with
    | none => rfl
    | some v =>
      have := ltoInner_sub c e s v hv
      simp [h] at this

/-! ### the APU part -/

theorem apuIndices_current_ok (c : Config) (e : Env) (lto : KMap) :
    ∃ k, apuIndices Rev.current c e lto = .ok k := by
  unfold apuIndices apuSulfur
  cases e.apuRunning <;> cases lto .SO2 <;> cases lto .SO4 <;>
    simp [Rev.current, bind, Except.bind, pure, Except.pure]


/-! ### compute_emissions -/

theorem totalKeys_all (s : Species) : totalKeys s = some .data := by
  cases s <;> rfl

/-- what an `ok` inventory of the current code consists of -/
structure OkSpec (c : Config) (e : Env) (inv : Inventory) : Prop where
  traj : trajIndices Rev.current c e = .ok inv.trajIdx
  trajEm : inv.trajEm = inv.trajIdx
  lto : inv.ltoIdx = ltoIndices c e
  ltoEm : inv.ltoEm = inv.ltoIdx
  apu : (c.apu && e.hasApu) = true → apuIndices Rev.current c e (ltoIndices c e) = .ok inv.apuIdx
  apuOff : (c.apu && e.hasApu) = false → inv.apuIdx = KMap.empty
  apuEm : inv.apuEm = inv.apuIdx
  gse : inv.gse = if c.gse then gseEmissions else KMap.empty
  total : inv.total = totalKeys
  lifecycle : inv.lifecycle = (c.co2 && c.lifecycle)

/-- the inventory assembled by `compute_emissions` from the parts -/
def okInv (c : Config) (e : Env) (k a : KMap) : Inventory :=
  { trajIdx := k, trajEm := k, ltoIdx := ltoIndices c e, ltoEm := ltoIndices c e, apuIdx := a, apuEm := a,
    gse := if c.gse then gseEmissions else KMap.empty, total := totalKeys, lifecycle := c.co2 && c.lifecycle }

theorem outcomeWith_eq (r : Rev) (c : Config) (e : Env) (k a : KMap) (h2 : trajIndices r c e = .ok k)
    (ha : (if (c.apu && e.hasApu) = true then apuIndices r c e (ltoIndices c e) else pure KMap.empty) = .ok a) :
    outcomeWith r c e =
      if (c.co2 && c.lifecycle) = true ∧ e.fuelLifecycle = false then .error (.refused "lifecycle_enabled" "true")
      else .ok (okInv c e k a) := by
  have hen : en c .CO2 = c.co2 := by simp [en_spec, enSpec]
  have fin : ∀ a' : KMap, a' = a →
      (if (c.co2 && c.lifecycle) = true then
        (if (!e.fuelLifecycle) = true then (Except.error (Err.refused "lifecycle_enabled" "true") : Except Err Inventory)
         else Except.ok { trajIdx := k, trajEm := k, ltoIdx := ltoIndices c e, ltoEm := ltoIndices c e, apuIdx := a',
                          apuEm := a', gse := if c.gse = true then gseEmissions else KMap.empty, total := totalKeys,
                          lifecycle := true })
       else Except.ok { trajIdx := k, trajEm := k, ltoIdx := ltoIndices c e, ltoEm := ltoIndices c e, apuIdx := a',
                        apuEm := a', gse := if c.gse = true then gseEmissions else KMap.empty, total := totalKeys,
                        lifecycle := false }) =
      if (c.co2 && c.lifecycle) = true ∧ e.fuelLifecycle = false then .error (.refused "lifecycle_enabled" "true")
      else .ok (okInv c e k a) := by
    intro a' haa
    subst haa
    by_cases hcl : (c.co2 && c.lifecycle) = true
    · cases hf : e.fuelLifecycle <;> simp [hcl, okInv]
    · have : (c.co2 && c.lifecycle) = false := by simpa using hcl
      simp [this, okInv]
  unfold outcomeWith
  by_cases hapu : (c.apu && e.hasApu) = true
  · have ha' : apuIndices r c e (ltoIndices c e) = .ok a := by simpa [hapu] using ha
    simp only [h2, hapu, ha', bind, Except.bind, hen, totalKeys_all, if_true, pure, Except.pure, throw, throwThe,
      MonadExceptOf.throw]
    exact fin a rfl
  · have ha' : KMap.empty = a := by
      have : (Except.ok KMap.empty : Except Err KMap) = .ok a := by simpa [hapu, pure, Except.pure] using ha
      injection this
    simp only [h2, hapu, bind, Except.bind, hen, totalKeys_all, pure, Except.pure, throw, throwThe,
      MonadExceptOf.throw]
    exact fin KMap.empty ha'

/-- complete classification of the outcome of the current code -/
theorem outcome_cases (c : Config) (e : Env) :
    (c.pmnvol = .foa3 ∧ outcome c e = .error (.refused "pmnvol_method" "foa3")) ∨
    (c.pmnvol ≠ .foa3 ∧ (c.co2 = true ∧ c.lifecycle = true ∧ e.fuelLifecycle = false) ∧
        outcome c e = .error (.refused "lifecycle_enabled" "true")) ∨
    (c.pmnvol ≠ .foa3 ∧ ¬(c.co2 = true ∧ c.lifecycle = true ∧ e.fuelLifecycle = false) ∧
        ∃ inv, outcome c e = .ok inv ∧ OkSpec c e inv) := by
  rcases trajIndices_current c e with ⟨h1, h2⟩ | ⟨h1, k, h2⟩
  · left
    exact ⟨h1, by simp [outcome, outcomeWith, h2, bind, Except.bind]⟩
  · right
    obtain ⟨a0, ha0⟩ := apuIndices_current_ok c e (ltoIndices c e)
    have hex : ∃ a, (if (c.apu && e.hasApu) = true then apuIndices Rev.current c e (ltoIndices c e) else pure KMap.empty)
        = .ok a ∧ ((c.apu && e.hasApu) = true → apuIndices Rev.current c e (ltoIndices c e) = .ok a) ∧
          ((c.apu && e.hasApu) = false → a = KMap.empty) := by
      by_cases hapu : (c.apu && e.hasApu) = true
      · exact ⟨a0, by simp [hapu, ha0], fun _ => ha0, fun h => by simp [hapu] at h⟩
      · exact ⟨KMap.empty, by simp [hapu, pure, Except.pure], fun h => absurd h hapu, fun _ => rfl⟩
    obtain ⟨a, ha, ha1, ha2⟩ := hex
    have heq := outcomeWith_eq Rev.current c e k a h2 ha
    by_cases hl : (c.co2 = true ∧ c.lifecycle = true ∧ e.fuelLifecycle = false)
    · left
      refine ⟨h1, hl, ?_⟩
      obtain ⟨l1, l2, l3⟩ := hl
      simp [outcome, heq, l1, l2, l3]
    · right
      refine ⟨h1, hl, okInv c e k a, ?_, ?_⟩
      · have : ¬((c.co2 && c.lifecycle) = true ∧ e.fuelLifecycle = false) := by
          intro h; apply hl; simp at h; exact ⟨h.1.1, h.1.2, h.2⟩
        rw [outcome, heq, if_neg this]
      · exact { traj := h2, trajEm := rfl, lto := rfl, ltoEm := rfl, apu := ha1, apuOff := ha2, apuEm := rfl,
                gse := rfl, total := rfl, lifecycle := rfl }


/-! ### the code as found (Rev.pinned) -/

theorem trajIndices_pinned (c : Config) (e : Env) :
    trajIndices Rev.pinned c e =
      if c.pmvol = .foa3 then .error (.internal "AttributeError") else trajIndices Rev.current c e := by
  rcases c with ⟨cd, co2, h2o, sox, nox, hc, co, pmvol, pmnvol, apu, gse, lc⟩
  cases pmvol <;> cases hc <;>
    simp [trajIndices, trajPMvol, needsHc, en_spec, enSpec, Rev.pinned, Rev.current, Config.pmvolEnabled, bind,
      Except.bind, pure, Except.pure, throw, throwThe, MonadExceptOf.throw]

theorem ite_app {β γ : Type} (p : Prop) [Decidable p] (f g : β → γ) (x : β) :
    (if p then f else g) x = if p then f x else g x := by
  split <;> rfl

theorem KMap.update_apply (a b : KMap) (s : Species) :
    (a.update b) s = match b s with | some v => some v | none => a s := rfl
theorem KMap.set_apply (a : KMap) (k : Species) (v : Abs) (s : Species) :
    (a.set k v) s = if s = k then some v else a s := rfl
theorem KMap.setIf_apply (a : KMap) (b : Bool) (k : Species) (v : Abs) (s : Species) :
    (a.setIf b k v) s = if b = true ∧ s = k then some v else a s := by
  unfold KMap.setIf
  cases b <;> simp [KMap.set_apply]

/-- a species that is neither a NOx, PM nor HC/CO species keeps its constant-part entry in the LTO map -/
theorem ltoIndices_const (c : Config) (e : Env) (s : Species) (hs : s = .SO2 ∨ s = .SO4) :
    ltoIndices c e s = constantPart c s := by
  have n1 : ltoNOx c s = none := by
    unfold ltoNOx; split <;> rcases hs with rfl | rfl <;> rfl
  have n2 : ∀ m, ltoPMvol m s = none := by
    intro m; cases m <;> rcases hs with rfl | rfl <;> rfl
  have n3 : ∀ m a b, ltoPMnvol m a b s = none := by
    intro m a b; cases m <;> cases a <;> cases b <;> rcases hs with rfl | rfl <;> rfl
  have d1 : s ≠ .PMnvolGMD := by rcases hs with rfl | rfl <;> decide
  have d2 : s ≠ .HC := by rcases hs with rfl | rfl <;> decide
  have d3 : s ≠ .CO := by rcases hs with rfl | rfl <;> decide
  simp only [ltoIndices, KMap.set_apply, ite_app, KMap.update_apply, KMap.setIf_apply, n1, n2, n3, d1, d2, d3,
    and_false, if_false, ite_self]

theorem ltoIndices_sulfur (c : Config) (e : Env) :
    ltoIndices c e .SO2 = (if c.sox then some .data else none) ∧
    ltoIndices c e .SO4 = (if c.sox then some .data else none) := by
  rw [ltoIndices_const c e .SO2 (Or.inl rfl), ltoIndices_const c e .SO4 (Or.inr rfl)]
  cases hs : c.sox <;>
    simp [constantPart, constantSpecies, en_spec, enSpec, hs, KMap.setIf_apply, KMap.empty]

theorem apuIndices_pinned (c : Config) (e : Env) :
    apuIndices Rev.pinned c e (ltoIndices c e) =
      if (e.apuRunning && !c.sox) = true then .error (.internal "KeyError")
      else apuIndices Rev.current c e (ltoIndices c e) := by
  obtain ⟨h2, h4⟩ := ltoIndices_sulfur c e
  unfold apuIndices apuSulfur
  rw [h2, h4]
  cases e.apuRunning <;> cases c.sox <;>
    simp [Rev.pinned, Rev.current, bind, Except.bind, pure, Except.pure, throw, throwThe, MonadExceptOf.throw]

/-- the code as found, expressed through the repaired code -/
theorem outcomeWith_pinned (c : Config) (e : Env) :
    outcomeWith Rev.pinned c e =
      if c.pmvol = .foa3 then .error (.internal "AttributeError")
      else if c.pmnvol = .foa3 then .error (.refused "pmnvol_method" "foa3")
      else if (c.apu && e.hasApu && e.apuRunning && !c.sox) = true then .error (.internal "KeyError")
      else outcome c e := by
  by_cases hv : c.pmvol = .foa3
  · simp [hv, outcomeWith, trajIndices_pinned, bind, Except.bind]
  · rw [if_neg hv]
    rcases trajIndices_current c e with ⟨h1, h2⟩ | ⟨h1, k, h2⟩
    · simp [h1, outcomeWith, trajIndices_pinned, hv, h2, bind, Except.bind]
    · rw [if_neg h1]
      by_cases hk : (c.apu && e.hasApu && e.apuRunning && !c.sox) = true
      · rw [if_pos hk]
        have hk' : c.apu = true ∧ e.hasApu = true ∧ e.apuRunning = true ∧ c.sox = false := by
          simp at hk; exact ⟨hk.1.1.1, hk.1.1.2, hk.1.2, hk.2⟩
        obtain ⟨k1, k2, k3, k4⟩ := hk'
        simp [outcomeWith, trajIndices_pinned, hv, h2, apuIndices_pinned, k1, k2, k3, k4, bind, Except.bind]
      · rw [if_neg hk]
        have htr : trajIndices Rev.pinned c e = trajIndices Rev.current c e := by
          rw [trajIndices_pinned, if_neg hv]
        by_cases hapu : (c.apu && e.hasApu) = true
        · have hnk : ¬ (e.apuRunning && !c.sox) = true := by
            intro h; apply hk; simp at hapu h ⊢; exact ⟨⟨hapu, h.1⟩, h.2⟩
          have hap : apuIndices Rev.pinned c e (ltoIndices c e) = apuIndices Rev.current c e (ltoIndices c e) := by
            rw [apuIndices_pinned, if_neg hnk]
          simp only [outcome, outcomeWith, htr, hap]
        · have hapu' : (c.apu && e.hasApu) = false := by simpa using hapu
          simp [outcome, outcomeWith, htr, hapu']

/-! ### counting -/

theorem length_flatMap_const {β γ : Type} (l : List β) (f : β → List γ) (n : Nat) (h : ∀ x, (f x).length = n) :
    (l.flatMap f).length = l.length * n := by
  induction l with
  | nil => simp
  | cons a l ih => simp [List.flatMap_cons, ih, h, Nat.succ_mul, Nat.add_comm]

end Aeic.Dispatch
