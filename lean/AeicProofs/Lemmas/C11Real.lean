/-
  Helper lemma for C11 over ℝ: the left-to-right accumulation of `sum_total_emissions`.
-/
import AeicProofs.RealInst
import AeicModel.Dispatch

namespace Aeic.Dispatch

theorem addAll_real (s : ℝ) (xs : List ℝ) : addAll s xs = s + xs.sum := by
  induction xs generalizing s with
  | nil => simp [addAll]
  | cons x xs ih => simp [addAll, ih, add_assoc]

end Aeic.Dispatch
