/-
  Helper lemmas for C19: the cumulative-trapezoid mass updates of `AeicModel/Bada.lean` over ℝ.
  (No property statements here.)
-/
import AeicProofs.RealInst
import AeicModel.Bada

namespace Aeic.Bada
open Aeic

@[simp] theorem lit0 : (Lit.dec 0 0 : ℝ) = 0 := by simp [lit_real]
@[simp] theorem lit1 : (Lit.dec 1 0 : ℝ) = 1 := by simp [lit_real]
@[simp] theorem lit2 : (Lit.dec 2 0 : ℝ) = 2 := by simp [lit_real]

/-! ### structural forms of the running sums -/

/-- `m − t₀, m − t₀ − t₁, …` -/
def downsTail (m : ℝ) : List ℝ → List ℝ
  | [] => []
  | t :: ts => (m - t) :: downsTail (m - t) ts

/-- `m + t₀, m + t₀ + t₁, …` -/
def upsTail (m : ℝ) : List ℝ → List ℝ
  | [] => []
  | t :: ts => (m + t) :: upsTail (m + t) ts

/-- consecutive increases `m[i+1] − m[i]`. -/
def rdiffs : List ℝ → List ℝ
  | a :: b :: r => (b - a) :: rdiffs (b :: r)
  | _ => []

theorem cumsumFrom_shift (a : ℝ) (ts : List ℝ) :
    cumsumFrom a ts = (cumsumFrom 0 ts).map (fun c => a + c) := by
  induction ts generalizing a with
  | nil => simp [cumsumFrom]
  | cons t ts ih =>
    simp only [cumsumFrom, List.map_cons]
    rw [ih (a + t), ih (0 + t), List.map_map]
    congr 1
    · ring
    · apply List.map_congr_left; intro c _; simp only [Function.comp]; ring

theorem map_sub_cumsum (m : ℝ) (ts : List ℝ) :
    (cumsumFrom 0 ts).map (fun c => m - c) = downsTail m ts := by
  induction ts generalizing m with
  | nil => simp [cumsumFrom, downsTail]
  | cons t ts ih =>
    simp only [cumsumFrom, List.map_cons, downsTail]
    rw [cumsumFrom_shift (0 + t), List.map_map, ← ih (m - t)]
    congr 1
    · ring
    · apply List.map_congr_left; intro c _; simp only [Function.comp]; ring

theorem map_add_cumsum (m : ℝ) (ts : List ℝ) :
    (cumsumFrom 0 ts).map (fun c => m + c) = upsTail m ts := by
  induction ts generalizing m with
  | nil => simp [cumsumFrom, upsTail]
  | cons t ts ih =>
    simp only [cumsumFrom, List.map_cons, upsTail]
    rw [cumsumFrom_shift (0 + t), List.map_map, ← ih (m + t)]
    congr 1
    · ring
    · apply List.map_congr_left; intro c _; simp only [Function.comp]; ring

theorem massFwd_eq (m0 : ℝ) (b dx : List ℝ) : massFwd m0 b dx = m0 :: downsTail m0 (trapTerms b dx) := by
  unfold massFwd; rw [lit0, map_sub_cumsum]

theorem massBwd_eq (mL : ℝ) (b dx : List ℝ) :
    massBwd mL b dx = (mL :: upsTail mL (trapTerms b.reverse dx.reverse)).reverse := by
  unfold massBwd; rw [lit0, List.reverse_cons, ← map_add_cumsum, List.map_reverse]

theorem massBwdAsIs_eq (mL : ℝ) (b dx : List ℝ) :
    massBwdAsIs mL b dx = (mL :: upsTail mL (trapTerms b.reverse dx)).reverse := by
  unfold massBwdAsIs; rw [lit0, List.reverse_cons, ← map_add_cumsum, List.map_reverse]

theorem diffs_downs (m : ℝ) (ts : List ℝ) : diffs (m :: downsTail m ts) = ts := by
  induction ts generalizing m with
  | nil => simp [downsTail, diffs]
  | cons t ts ih => simp only [downsTail, diffs]; rw [ih (m - t)]; congr 1; ring

theorem rdiffs_ups (m : ℝ) (ts : List ℝ) : rdiffs (m :: upsTail m ts) = ts := by
  induction ts generalizing m with
  | nil => simp [upsTail, rdiffs]
  | cons t ts ih => simp only [upsTail, rdiffs]; rw [ih (m + t)]; congr 1; ring

theorem diffs_snoc : ∀ (X : List ℝ) (b a : ℝ), diffs (X ++ [b, a]) = diffs (X ++ [b]) ++ [b - a]
  | [], b, a => by simp [diffs]
  | [x], b, a => by simp [diffs]
  | x :: y :: X, b, a => by
    have ih := diffs_snoc (y :: X) b a
    simp only [List.cons_append, diffs] at ih ⊢
    rw [ih]

theorem diffs_reverse : ∀ (L : List ℝ), diffs L.reverse = (rdiffs L).reverse
  | [] => by simp [diffs, rdiffs]
  | [a] => by simp [diffs, rdiffs]
  | a :: b :: r => by
    have ih := diffs_reverse (b :: r)
    have h1 : (a :: b :: r).reverse = r.reverse ++ [b, a] := by simp
    have h2 : (b :: r).reverse = r.reverse ++ [b] := by simp
    rw [h1, diffs_snoc, ← h2, ih]
    simp [rdiffs]

theorem trapTerms_snoc : ∀ (Y D : List ℝ) (y' y d : ℝ), Y.length = D.length →
    trapTerms (Y ++ [y', y]) (D ++ [d]) = trapTerms (Y ++ [y']) D ++ [(d * (y + y')) / 2]
  | [], [], y', y, d, _ => by simp [trapTerms]
  | [a], [e], y', y, d, _ => by simp [trapTerms]
  | a :: a2 :: Y, e :: D, y', y, d, h => by
    have ih := trapTerms_snoc (a2 :: Y) D y' y d (by simpa using h)
    simp only [List.cons_append, trapTerms] at ih ⊢
    rw [ih]
  | [], _ :: _, _, _, _, h => by simp at h
  | _ :: _, [], _, _, _, h => by simp at h
  | [_], _ :: _ :: _, _, _, _, h => by simp at h

theorem trapTerms_reverse : ∀ (b dx : List ℝ), b.length = dx.length + 1 →
    trapTerms b.reverse dx.reverse = (trapTerms b dx).reverse
  | [], _, h => by simp at h
  | [y], [], _ => by simp [trapTerms]
  | [_], _ :: _, h => by simp at h
  | _ :: _ :: _, [], h => by simp at h
  | y0 :: y1 :: ys, d :: ds, h => by
    have hl : ys.length = ds.length := by simpa using h
    have ih := trapTerms_reverse (y1 :: ys) ds (by simpa using hl)
    have h1 : (y0 :: y1 :: ys).reverse = ys.reverse ++ [y1, y0] := by simp
    have h2 : (d :: ds).reverse = ds.reverse ++ [d] := by simp
    have h3 : (y1 :: ys).reverse = ys.reverse ++ [y1] := by simp
    rw [h1, h2, trapTerms_snoc _ _ _ _ _ (by simpa using hl), ← h3, ih]
    simp only [trapTerms, lit2, List.reverse_cons]
    congr 2; ring

/-! ### monotonicity from non-negative steps -/

theorem pairwise_of_diffs_nonneg : ∀ (L : List ℝ), (∀ t ∈ diffs L, 0 ≤ t) →
    L.Pairwise (fun a b => b ≤ a)
  | [], _ => List.Pairwise.nil
  | [a], _ => by simp
  | a :: b :: r, h => by
    have hab : 0 ≤ a - b := h _ (by simp [diffs])
    have ih := pairwise_of_diffs_nonneg (b :: r) (fun t ht => h t (by simp [diffs]; right; exact ht))
    refine List.Pairwise.cons ?_ ih
    intro x hx
    rcases List.mem_cons.mp hx with rfl | hx
    · linarith
    · have := (List.pairwise_cons.mp ih).1 x hx; linarith

theorem trapTerms_nonneg : ∀ (b dx : List ℝ), (∀ y ∈ b, 0 ≤ y) → (∀ d ∈ dx, 0 ≤ d) →
    ∀ t ∈ trapTerms b dx, 0 ≤ t
  | [], _, _, _ => by simp [trapTerms]
  | [_], _, _, _ => by simp [trapTerms]
  | _ :: _ :: _, [], _, _ => by simp [trapTerms]
  | y0 :: y1 :: ys, d :: ds, hb, hd => by
    intro t ht
    simp only [trapTerms, List.mem_cons] at ht
    rcases ht with rfl | ht
    · have h0 := hb y0 (by simp); have h1 := hb y1 (by simp); have h2 := hd d (by simp)
      rw [lit2]; positivity
    · exact trapTerms_nonneg (y1 :: ys) ds (fun y hy => hb y (by simp [hy])) (fun e he => hd e (by simp [he])) t ht

theorem trapTerms_length : ∀ (b dx : List ℝ), (trapTerms b dx).length = min (b.length - 1) dx.length
  | [], _ => by simp [trapTerms]
  | [_], _ => by simp [trapTerms]
  | _ :: _ :: _, [] => by simp [trapTerms]
  | _ :: y1 :: ys, _ :: ds => by
    have := trapTerms_length (y1 :: ys) ds
    simp only [trapTerms, List.length_cons] at this ⊢
    omega

theorem downsTail_length (m : ℝ) (ts : List ℝ) : (downsTail m ts).length = ts.length := by
  induction ts generalizing m with
  | nil => rfl
  | cons t ts ih => simp [downsTail, ih]

theorem upsTail_length (m : ℝ) (ts : List ℝ) : (upsTail m ts).length = ts.length := by
  induction ts generalizing m with
  | nil => rfl
  | cons t ts ih => simp [upsTail, ih]

/-- total fuel burnt along the profile: the last running sum (0 for a single point). -/
def totalBurn (ts : List ℝ) : ℝ := ts.sum

theorem lastD_downs (m : ℝ) (ts : List ℝ) : lastD (m :: downsTail m ts) = m - ts.sum := by
  induction ts generalizing m with
  | nil => simp [downsTail, lastD]
  | cons t ts ih =>
    have := ih (m - t)
    simp only [lastD, downsTail, List.getLastD_cons, List.sum_cons] at this ⊢
    rw [this]; ring

theorem headD_cons (m : ℝ) (r : List ℝ) : headD (m :: r) = m := by simp [headD]

end Aeic.Bada
