/-
  C06 helper lemmas, part 2: the linear / bilinear interpolants on a strictly ascending grid (over ℝ).
-/
import AeicProofs.Lemmas.C06Basic
import Mathlib.Tactic.Ring
import Mathlib.Tactic.FieldSimp
import Mathlib.Tactic.Positivity

namespace Aeic.PerfTable
open List

theorem ndist_left (b : ℝ × ℝ) : ndist b b.1 = 0 := by simp [ndist]

theorem ndist_right (b : ℝ × ℝ) (h : b.1 < b.2) : ndist b b.2 = 1 := by
  unfold ndist
  have : b.2 - b.1 ≠ 0 := by linarith
  exact div_self this

theorem ndist_of_eq_left (b : ℝ × ℝ) (x : ℝ) (h : x = b.1) : ndist b x = 0 := by
  subst h; exact ndist_left b

theorem ndist_of_eq_right (b : ℝ × ℝ) (x : ℝ) (hlt : b.1 < b.2) (h : x = b.2) : ndist b x = 1 := by
  subst h; exact ndist_right b hlt

theorem ndist_nonneg (b : ℝ × ℝ) (x : ℝ) (h : b.1 < b.2) (hx : b.1 ≤ x) : 0 ≤ ndist b x := by
  unfold ndist
  apply div_nonneg <;> linarith

theorem ndist_le_one (b : ℝ × ℝ) (x : ℝ) (h : b.1 < b.2) (hx : x ≤ b.2) : ndist b x ≤ 1 := by
  unfold ndist
  rw [div_le_one (by linarith)]
  linarith

/-- a grid that contains a point, is strictly ascending: in-bounds facts -/
theorem inBounds_of_mem (g : List ℝ) (x : ℝ) (hs : g.Pairwise (· < ·)) (hx : x ∈ g) : inBounds g x = true := by
  rw [inBounds_real]
  cases hh : g.head? with
  | none => simp at hh; subst hh; simp at hx
  | some a =>
    cases hl : g.getLast? with
    | none => simp at hl; subst hl; simp at hx
    | some b => exact ⟨a, b, rfl, rfl, sorted_head_le g hs a hh x hx, sorted_le_last g hs b hl x hx⟩

theorem length_one_eq (g : List ℝ) (h : g.length = 1) : ∃ a, g = [a] := by
  match g, h with
  | [a], _ => exact ⟨a, rfl⟩

theorem bracket_of_inBounds (g : List ℝ) (x : ℝ) (hs : g.Pairwise (· < ·)) (hlen : 2 ≤ g.length)
    (hb : inBounds g x = true) : IsBracket g x (bracket g x) := by
  obtain ⟨a, b, ha, hb', h1, h2⟩ := (inBounds_real g x).mp hb
  exact bracket_spec g x hs hlen a b ha hb' h1 h2

/-! ### 1-D -/

theorem interp1_node (g : List ℝ) (v : ℝ → ℝ) (x : ℝ) (hs : g.Pairwise (· < ·)) (hx : x ∈ g) :
    interp1 g v x = .ok (v x) := by
  unfold interp1
  rw [inBounds_of_mem g x hs hx]
  simp only [Bool.not_true, Bool.false_eq_true, ↓reduceIte, beq_iff_eq]
  split_ifs with h1
  · obtain ⟨a, rfl⟩ := length_one_eq g h1
    simp at hx; subst hx
    simp [bracket_single]
  · have hlen : 2 ≤ g.length := by
      cases g with
      | nil => simp at hx
      | cons a t => cases t with
        | nil => simp at h1
        | cons _ _ => simp
    have hb := bracket_of_inBounds g x hs hlen (inBounds_of_mem g x hs hx)
    rcases hb.node hx with h | h
    · rw [ndist_of_eq_left _ _ h, ← h]; simp
    · rw [ndist_of_eq_right _ _ hb.lt h, ← h]; simp

theorem interp1_oob (g : List ℝ) (v : ℝ → ℝ) (x : ℝ) (h : inBounds g x = false) :
    interp1 g v x = .error .oobFl := by
  unfold interp1; simp [h]

theorem lin_bounded (v0 v1 y : ℝ) (h0 : 0 ≤ y) (h1 : y ≤ 1) :
    min v0 v1 ≤ v0 * (1 - y) + v1 * y ∧ v0 * (1 - y) + v1 * y ≤ max v0 v1 := by
  constructor
  · rcases le_total v0 v1 with h | h
    · rw [min_eq_left h]; nlinarith
    · rw [min_eq_right h]; nlinarith
  · rcases le_total v0 v1 with h | h
    · rw [max_eq_right h]; nlinarith
    · rw [max_eq_left h]; nlinarith

/-- the 1-D interpolant lies between the values at two neighbouring grid points around `x` -/
theorem interp1_bounded (g : List ℝ) (v : ℝ → ℝ) (x y : ℝ) (hs : g.Pairwise (· < ·))
    (h : interp1 g v x = .ok y) :
    ∃ a ∈ g, ∃ b ∈ g, a ≤ x ∧ x ≤ b ∧ min (v a) (v b) ≤ y ∧ y ≤ max (v a) (v b) := by
  by_cases hb : inBounds g x = true
  · unfold interp1 at h
    simp only [hb, Bool.not_true, Bool.false_eq_true, ↓reduceIte, beq_iff_eq] at h
    split_ifs at h with h1
    · obtain ⟨a, rfl⟩ := length_one_eq g h1
      obtain ⟨a', b', ha', hb', h1', h2'⟩ := (inBounds_real _ _).mp hb
      simp at ha' hb'; subst ha' hb'
      simp [bracket_single] at h; subst h
      exact ⟨a, by simp, a, by simp, h1', h2', by simp, by simp⟩
    · have hlen : 2 ≤ g.length := by
        cases g with
        | nil => simp [inBounds] at hb
        | cons a t => cases t with
          | nil => simp at h1
          | cons _ _ => simp
      have br := bracket_of_inBounds g x hs hlen hb
      injection h with h; subst h
      have := lin_bounded (v (bracket g x).1) (v (bracket g x).2) (ndist (bracket g x) x)
        (ndist_nonneg _ _ br.lt br.le1) (ndist_le_one _ _ br.lt br.le2)
      simp only [one_real]
      exact ⟨_, br.mem1, _, br.mem2, br.le1, br.le2, this.1, this.2⟩
  · simp only [Bool.not_eq_true] at hb
    rw [interp1_oob g v x hb] at h
    cases h

/-! ### 2-D -/

theorem bilin_real (v : ℝ → ℝ → ℝ) (bx bm : ℝ × ℝ) (x m : ℝ) :
    bilin v bx bm x m =
      v bx.1 bm.1 * (1 - ndist bx x) * (1 - ndist bm m) + v bx.1 bm.2 * (1 - ndist bx x) * ndist bm m
      + v bx.2 bm.1 * ndist bx x * (1 - ndist bm m) + v bx.2 bm.2 * ndist bx x * ndist bm m := by
  simp [bilin]

theorem min4_le (a b c d : ℝ) : min (min a b) (min c d) ≤ a ∧ min (min a b) (min c d) ≤ b ∧
    min (min a b) (min c d) ≤ c ∧ min (min a b) (min c d) ≤ d := by
  refine ⟨?_, ?_, ?_, ?_⟩
  · exact le_trans (min_le_left _ _) (min_le_left _ _)
  · exact le_trans (min_le_left _ _) (min_le_right _ _)
  · exact le_trans (min_le_right _ _) (min_le_left _ _)
  · exact le_trans (min_le_right _ _) (min_le_right _ _)

theorem le_max4 (a b c d : ℝ) : a ≤ max (max a b) (max c d) ∧ b ≤ max (max a b) (max c d) ∧
    c ≤ max (max a b) (max c d) ∧ d ≤ max (max a b) (max c d) := by
  refine ⟨?_, ?_, ?_, ?_⟩
  · exact le_trans (le_max_left _ _) (le_max_left _ _)
  · exact le_trans (le_max_right _ _) (le_max_left _ _)
  · exact le_trans (le_max_left _ _) (le_max_right _ _)
  · exact le_trans (le_max_right _ _) (le_max_right _ _)

/-- convex combination of four values with product weights -/
theorem bilin_bounded (a b c d s t : ℝ) (hs0 : 0 ≤ s) (hs1 : s ≤ 1) (ht0 : 0 ≤ t) (ht1 : t ≤ 1) :
    min (min a b) (min c d) ≤ a * (1 - s) * (1 - t) + b * (1 - s) * t + c * s * (1 - t) + d * s * t ∧
    a * (1 - s) * (1 - t) + b * (1 - s) * t + c * s * (1 - t) + d * s * t ≤ max (max a b) (max c d) := by
  obtain ⟨la, lb, lc, ld⟩ := min4_le a b c d
  obtain ⟨ua, ub, uc, ud⟩ := le_max4 a b c d
  set lo := min (min a b) (min c d)
  set hi := max (max a b) (max c d)
  have w1 : 0 ≤ (1 - s) * (1 - t) := mul_nonneg (by linarith) (by linarith)
  have w2 : 0 ≤ (1 - s) * t := mul_nonneg (by linarith) ht0
  have w3 : 0 ≤ s * (1 - t) := mul_nonneg hs0 (by linarith)
  have w4 : 0 ≤ s * t := mul_nonneg hs0 ht0
  have e : a * (1 - s) * (1 - t) + b * (1 - s) * t + c * s * (1 - t) + d * s * t
      = a * ((1 - s) * (1 - t)) + b * ((1 - s) * t) + c * (s * (1 - t)) + d * (s * t) := by ring
  have one : (1 - s) * (1 - t) + (1 - s) * t + s * (1 - t) + s * t = 1 := by ring
  rw [e]
  constructor
  · have := mul_le_mul_of_nonneg_right la w1
    have := mul_le_mul_of_nonneg_right lb w2
    have := mul_le_mul_of_nonneg_right lc w3
    have := mul_le_mul_of_nonneg_right ld w4
    have : lo = lo * ((1 - s) * (1 - t)) + lo * ((1 - s) * t) + lo * (s * (1 - t)) + lo * (s * t) := by
      rw [← mul_add, ← mul_add, ← mul_add, one, mul_one]
    linarith
  · have := mul_le_mul_of_nonneg_right ua w1
    have := mul_le_mul_of_nonneg_right ub w2
    have := mul_le_mul_of_nonneg_right uc w3
    have := mul_le_mul_of_nonneg_right ud w4
    have : hi = hi * ((1 - s) * (1 - t)) + hi * ((1 - s) * t) + hi * (s * (1 - t)) + hi * (s * t) := by
      rw [← mul_add, ← mul_add, ← mul_add, one, mul_one]
    linarith

theorem two_le_of_ne_one (g : List ℝ) (hne : g ≠ []) (h1 : ¬ g.length = 1) : 2 ≤ g.length := by
  cases g with
  | nil => exact absurd rfl hne
  | cons a t => cases t with
    | nil => simp at h1
    | cons _ _ => simp

theorem ne_nil_of_inBounds (g : List ℝ) (x : ℝ) (h : inBounds g x = true) : g ≠ [] := by
  rintro rfl; simp [inBounds] at h

theorem interp2_node (gx gm : List ℝ) (v : ℝ → ℝ → ℝ) (x m : ℝ) (hsx : gx.Pairwise (· < ·))
    (hsm : gm.Pairwise (· < ·)) (hm2 : 2 ≤ gm.length) (hx : x ∈ gx) (hm : m ∈ gm) :
    interp2 gx gm v x m = .ok (v x m) := by
  unfold interp2
  rw [inBounds_of_mem gx x hsx hx, inBounds_of_mem gm m hsm hm]
  simp only [Bool.not_true, Bool.false_eq_true, ↓reduceIte, beq_iff_eq]
  have bm := bracket_of_inBounds gm m hsm hm2 (inBounds_of_mem gm m hsm hm)
  have tm : (m = (bracket gm m).1 ∧ ndist (bracket gm m) m = 0) ∨ (m = (bracket gm m).2 ∧ ndist (bracket gm m) m = 1) := by
    rcases bm.node hm with h | h
    · left; exact ⟨h, ndist_of_eq_left _ _ h⟩
    · right; exact ⟨h, ndist_of_eq_right _ _ bm.lt h⟩
  split_ifs with h1
  · obtain ⟨a, rfl⟩ := length_one_eq gx h1
    simp at hx; subst hx
    rcases tm with ⟨e, t⟩ | ⟨e, t⟩
    · rw [t, ← e]; simp [bracket_single]
    · rw [t, ← e]; simp [bracket_single]
  · have hlen : 2 ≤ gx.length := two_le_of_ne_one gx (by rintro rfl; simp at hx) h1
    have bx := bracket_of_inBounds gx x hsx hlen (inBounds_of_mem gx x hsx hx)
    have tx : (x = (bracket gx x).1 ∧ ndist (bracket gx x) x = 0) ∨ (x = (bracket gx x).2 ∧ ndist (bracket gx x) x = 1) := by
      rcases bx.node hx with h | h
      · left; exact ⟨h, ndist_of_eq_left _ _ h⟩
      · right; exact ⟨h, ndist_of_eq_right _ _ bx.lt h⟩
    rw [bilin_real]
    rcases tx with ⟨ex, t0⟩ | ⟨ex, t0⟩ <;> rcases tm with ⟨em, t1⟩ | ⟨em, t1⟩ <;>
      · rw [t0, t1, ← ex, ← em]; simp

theorem interp2_oob_fl (gx gm : List ℝ) (v : ℝ → ℝ → ℝ) (x m : ℝ) (h : inBounds gx x = false) :
    interp2 gx gm v x m = .error .oobFl := by
  unfold interp2; simp [h]

theorem interp2_oob_mass (gx gm : List ℝ) (v : ℝ → ℝ → ℝ) (x m : ℝ) (hx : inBounds gx x = true)
    (h : inBounds gm m = false) : interp2 gx gm v x m = .error .oobMass := by
  unfold interp2; simp [h, hx]

theorem interp2_ok_inBounds (gx gm : List ℝ) (v : ℝ → ℝ → ℝ) (x m y : ℝ) (h : interp2 gx gm v x m = .ok y) :
    inBounds gx x = true ∧ inBounds gm m = true := by
  by_cases hx : inBounds gx x = true
  · by_cases hm : inBounds gm m = true
    · exact ⟨hx, hm⟩
    · simp only [Bool.not_eq_true] at hm; rw [interp2_oob_mass gx gm v x m hx hm] at h; cases h
  · simp only [Bool.not_eq_true] at hx; rw [interp2_oob_fl gx gm v x m hx] at h; cases h

/-- the 2-D interpolant lies between the four values at the corners of a grid cell around `(x, m)` -/
theorem interp2_bounded (gx gm : List ℝ) (v : ℝ → ℝ → ℝ) (x m y : ℝ) (hsx : gx.Pairwise (· < ·))
    (hsm : gm.Pairwise (· < ·)) (hm2 : 2 ≤ gm.length) (h : interp2 gx gm v x m = .ok y) :
    ∃ f0 ∈ gx, ∃ f1 ∈ gx, ∃ m0 ∈ gm, ∃ m1 ∈ gm, f0 ≤ x ∧ x ≤ f1 ∧ m0 ≤ m ∧ m ≤ m1 ∧
      min (min (v f0 m0) (v f0 m1)) (min (v f1 m0) (v f1 m1)) ≤ y ∧
      y ≤ max (max (v f0 m0) (v f0 m1)) (max (v f1 m0) (v f1 m1)) := by
  obtain ⟨hbx, hbm⟩ := interp2_ok_inBounds gx gm v x m y h
  have bm := bracket_of_inBounds gm m hsm hm2 hbm
  have t10 := ndist_nonneg _ _ bm.lt bm.le1
  have t11 := ndist_le_one _ _ bm.lt bm.le2
  unfold interp2 at h
  simp only [hbx, hbm, Bool.not_true, Bool.false_eq_true, ↓reduceIte, beq_iff_eq] at h
  split_ifs at h with h1
  · obtain ⟨a, rfl⟩ := length_one_eq gx h1
    obtain ⟨a', b', ha', hb', h1', h2'⟩ := (inBounds_real _ _).mp hbx
    simp at ha' hb'; subst ha' hb'
    injection h with h; subst h
    simp only [bracket_single, one_real]
    have := lin_bounded (v a (bracket gm m).1) (v a (bracket gm m).2) _ t10 t11
    refine ⟨a, by simp, a, by simp, _, bm.mem1, _, bm.mem2, h1', h2', bm.le1, bm.le2, ?_, ?_⟩
    · simpa using this.1
    · simpa using this.2
  · have hlen : 2 ≤ gx.length := two_le_of_ne_one gx (ne_nil_of_inBounds gx x hbx) h1
    have bx := bracket_of_inBounds gx x hsx hlen hbx
    injection h with h; subst h
    rw [bilin_real]
    have := bilin_bounded (v (bracket gx x).1 (bracket gm m).1) (v (bracket gx x).1 (bracket gm m).2)
      (v (bracket gx x).2 (bracket gm m).1) (v (bracket gx x).2 (bracket gm m).2) _ _
      (ndist_nonneg _ _ bx.lt bx.le1) (ndist_le_one _ _ bx.lt bx.le2) t10 t11
    exact ⟨_, bx.mem1, _, bx.mem2, _, bm.mem1, _, bm.mem2, bx.le1, bx.le2, bm.le1, bm.le2, this.1, this.2⟩

/-! ### shared edges of neighbouring bilinear pieces -/

/-- on the common face `x = f1` of the cells `(f0,f1) × bm` and `(f1,f2) × bm` both pieces reduce to the same
    linear interpolant along the mass axis -/
theorem bilin_shared_fl_edge (v : ℝ → ℝ → ℝ) (f0 f1 f2 : ℝ) (bm : ℝ × ℝ) (m : ℝ) (h01 : f0 < f1) (_h12 : f1 < f2) :
    bilin v (f0, f1) bm f1 m = v f1 bm.1 * (1 - ndist bm m) + v f1 bm.2 * ndist bm m ∧
    bilin v (f1, f2) bm f1 m = v f1 bm.1 * (1 - ndist bm m) + v f1 bm.2 * ndist bm m := by
  have r : ndist ((f0, f1) : ℝ × ℝ) f1 = 1 := ndist_right (f0, f1) h01
  have l : ndist ((f1, f2) : ℝ × ℝ) f1 = 0 := ndist_left (f1, f2)
  constructor
  · rw [bilin_real, r]; simp
  · rw [bilin_real, l]; simp

theorem bilin_shared_mass_edge (v : ℝ → ℝ → ℝ) (bx : ℝ × ℝ) (m0 m1 m2 : ℝ) (x : ℝ) (h01 : m0 < m1) (_h12 : m1 < m2) :
    bilin v bx (m0, m1) x m1 = v bx.1 m1 * (1 - ndist bx x) + v bx.2 m1 * ndist bx x ∧
    bilin v bx (m1, m2) x m1 = v bx.1 m1 * (1 - ndist bx x) + v bx.2 m1 * ndist bx x := by
  have r : ndist ((m0, m1) : ℝ × ℝ) m1 = 1 := ndist_right (m0, m1) h01
  have l : ndist ((m1, m2) : ℝ × ℝ) m1 = 0 := ndist_left (m1, m2)
  constructor
  · rw [bilin_real, r]; simp
  · rw [bilin_real, l]; simp

end Aeic.PerfTable
