/-
  Which grid lines `coordLines` reports for a strictly increasing grid: exactly the grid values lying between
  the two coordinates (start inclusive from below, the usual `searchsorted − 1` convention).
-/
import AeicProofs.Lemmas.GridSort

namespace Aeic.Grid

open Aeic

theorem getD_eq_getElem' (l : List ℝ) (n : Nat) (d : ℝ) (h : n < l.length) : l.getD n d = l[n] := by
  simp [List.getD_eq_getElem?_getD, h]

theorem countLt_le_length (g : List ℝ) (x : ℝ) : countLt g x ≤ g.length := by
  induction g with
  | nil => simp [countLt]
  | cons a as ih => unfold countLt; split_ifs <;> simp <;> omega

theorem countLt_eq_zero (g : List ℝ) (x : ℝ) (h : ∀ γ ∈ g, x ≤ γ) : countLt g x = 0 := by
  induction g with
  | nil => rfl
  | cons a as ih =>
    unfold countLt
    have ha : ¬ a < x := not_lt.mpr (h a List.mem_cons_self)
    simp [ha, ih (fun γ hγ => h γ (List.mem_cons_of_mem _ hγ))]

/-- key fact about `searchsorted` on a strictly increasing array -/
theorem getElem_lt_iff (g : List ℝ) (hs : g.Pairwise (· < ·)) (x : ℝ) (j : Nat) (hj : j < g.length) :
    g[j] < x ↔ j < countLt g x := by
  induction g generalizing j with
  | nil => simp at hj
  | cons a as ih =>
    have hsa := List.Pairwise.of_cons hs
    unfold countLt
    by_cases hax : a < x
    · cases j with
      | zero => simp [hax]
      | succ j =>
        simp only [List.getElem_cons_succ, hax, if_true]
        rw [ih hsa j (by simpa using hj)]; omega
    · have hz : countLt as x = 0 :=
        countLt_eq_zero as x (fun γ hγ => (not_lt.mp hax).trans (List.rel_of_pairwise_cons hs hγ).le)
      cases j with
      | zero => simp [hax, hz]
      | succ j =>
        simp only [List.getElem_cons_succ, hax, if_false, hz]
        have hj' : j < as.length := by simpa using hj
        have : a < as[j] := List.rel_of_pairwise_cons hs (List.getElem_mem hj')
        constructor
        · intro h; exact absurd (this.trans h) hax
        · intro h; omega

theorem countLt_mono (g : List ℝ) {x y : ℝ} (h : x ≤ y) : countLt g x ≤ countLt g y := by
  induction g with
  | nil => simp [countLt]
  | cons a as ih =>
    unfold countLt
    by_cases h1 : a < x
    · have : a < y := lt_of_lt_of_le h1 h
      simp [h1, this, ih]
    · simp only [h1, if_false]; split_ifs <;> omega

theorem linesCrossed_up (c0 c1 : Nat) (h : c0 ≤ c1) :
    (linesCrossed ((c0 : Int) - 1) ((c1 : Int) - 1)).map Int.toNat
      = (List.range (c1 - c0)).map (fun k => c0 + k) := by
  unfold linesCrossed
  rw [if_pos (by omega), List.map_map]
  have : ((c1 : Int) - 1 - ((c0 : Int) - 1)).toNat = c1 - c0 := by omega
  rw [this]
  apply List.map_congr_left
  intro k _
  simp only [Function.comp]
  omega

theorem linesCrossed_down (c0 c1 : Nat) (h : c1 < c0) :
    (linesCrossed ((c0 : Int) - 1) ((c1 : Int) - 1)).map Int.toNat
      = (List.range (c0 - c1)).map (fun k => c0 - 1 - k) := by
  unfold linesCrossed
  rw [if_neg (by omega), List.map_map]
  have : ((c0 : Int) - 1 - ((c1 : Int) - 1)).toNat = c0 - c1 := by omega
  rw [this]
  apply List.map_congr_left
  intro k hk
  have := List.mem_range.1 hk
  simp only [Function.comp]
  omega

theorem coordLines_eq (g : List ℝ) (x0 x1 : ℝ) :
    coordLines g x0 x1
      = ((linesCrossed ((countLt g x0 : Int) - 1) ((countLt g x1 : Int) - 1)).map Int.toNat).map
          (fun n => g.getD n 0) := by
  unfold coordLines cellIdx gridAt
  rw [List.map_map]
  apply List.map_congr_left
  intro j _
  simp

/-- **the lines reported are exactly the grid values between the two coordinates** -/
theorem mem_coordLines (g : List ℝ) (hs : g.Pairwise (· < ·)) (x0 x1 γ : ℝ) :
    γ ∈ coordLines g x0 x1 ↔ γ ∈ g ∧ ((x0 ≤ γ ∧ γ < x1) ∨ (x1 ≤ γ ∧ γ < x0)) := by
  have hc0 := countLt_le_length g x0
  have hc1 := countLt_le_length g x1
  rw [coordLines_eq]
  by_cases h : countLt g x0 ≤ countLt g x1
  · rw [linesCrossed_up _ _ h]
    simp only [List.mem_map, List.mem_range, exists_exists_and_eq_and]
    constructor
    · rintro ⟨k, hk, rfl⟩
      have hj : countLt g x0 + k < g.length := by omega
      rw [getD_eq_getElem' _ _ _ hj]
      refine ⟨List.getElem_mem _, Or.inl ⟨?_, ?_⟩⟩
      · by_contra hlt
        have := (getElem_lt_iff g hs x0 _ hj).1 (not_le.mp hlt); omega
      · exact (getElem_lt_iff g hs x1 _ hj).2 (by omega)
    · rintro ⟨hmem, hbet⟩
      obtain ⟨j, hj, rfl⟩ := List.getElem_of_mem hmem
      have e0 := getElem_lt_iff g hs x0 j hj
      have e1 := getElem_lt_iff g hs x1 j hj
      rcases hbet with ⟨h0, h1⟩ | ⟨h1, h0⟩
      · have : ¬ j < countLt g x0 := fun hh => absurd (e0.2 hh) (not_lt.mpr h0)
        have : j < countLt g x1 := e1.1 h1
        refine ⟨j - countLt g x0, by omega, ?_⟩
        rw [getD_eq_getElem' _ _ _ (by omega)]
        congr 1; omega
      · have : ¬ j < countLt g x1 := fun hh => absurd (e1.2 hh) (not_lt.mpr h1)
        have : j < countLt g x0 := e0.1 h0
        omega
  · have h' : countLt g x1 < countLt g x0 := by omega
    rw [linesCrossed_down _ _ h']
    simp only [List.mem_map, List.mem_range, exists_exists_and_eq_and]
    constructor
    · rintro ⟨k, hk, rfl⟩
      have hj : countLt g x0 - 1 - k < g.length := by omega
      rw [getD_eq_getElem' _ _ _ hj]
      refine ⟨List.getElem_mem _, Or.inr ⟨?_, ?_⟩⟩
      · by_contra hlt
        have := (getElem_lt_iff g hs x1 _ hj).1 (not_le.mp hlt); omega
      · exact (getElem_lt_iff g hs x0 _ hj).2 (by omega)
    · rintro ⟨hmem, hbet⟩
      obtain ⟨j, hj, rfl⟩ := List.getElem_of_mem hmem
      have e0 := getElem_lt_iff g hs x0 j hj
      have e1 := getElem_lt_iff g hs x1 j hj
      rcases hbet with ⟨h0, h1⟩ | ⟨h1, h0⟩
      · have : ¬ j < countLt g x0 := fun hh => absurd (e0.2 hh) (not_lt.mpr h0)
        have : j < countLt g x1 := e1.1 h1
        omega
      · have : ¬ j < countLt g x1 := fun hh => absurd (e1.2 hh) (not_lt.mpr h1)
        have : j < countLt g x0 := e0.1 h0
        refine ⟨countLt g x0 - 1 - j, by omega, ?_⟩
        rw [getD_eq_getElem' _ _ _ (by omega)]
        congr 1; omega

end Aeic.Grid
