/-
  C14 helper lemmas, part 2: the documented predicate of a filter / query on a joined row
  (`specFilter`, `specQuery`) and its equivalence with the SQL semantics of the emitted conditions.
  Core Lean only.
-/
import AeicModel.Query

set_option linter.unusedSimpArgs false
set_option linter.unusedVariables false
set_option linter.unusedSectionVars false

namespace Aeic.Query

section
variable {α : Type} [LT α] [LE α] [DecidableLT α] [DecidableLE α]

/-! ### documented predicate -/

/-- "airport `a` lies in region `r`", in terms of the airport's own attributes -/
def regionHolds (db : DB α) (r : Region α) (a : Airport) : Prop :=
  match r with
  | .airport cs => a.iata ∈ cs
  | .country cs => a.country ∈ cs
  | .continent cs => ∃ c ∈ db.countries, c.code = a.country ∧ c.continent ∈ cs
  | .bbox b => ∃ e ∈ db.rtree, e.id = a.id ∧
      b.minLat ≤ e.minLat ∧ e.maxLat ≤ b.maxLat ∧ b.minLon ≤ e.minLon ∧ e.maxLon ≤ b.maxLon

/-- the three flavours of one spatial kind: "origin or destination", "origin", "destination" -/
def specTri {β} (db : DB α) (mk : β → Region α) (t : Tri β) (r : JRow α) : Prop :=
  (∀ b, t.both = some b → regionHolds db (mk b) r.ao ∨ regionHolds db (mk b) r.ad) ∧
  (∀ b, t.origin = some b → regionHolds db (mk b) r.ao) ∧
  (∀ b, t.destination = some b → regionHolds db (mk b) r.ad)

/-- documented meaning of a `Filter`: the conjunction of everything that is given -/
def specFilter (db : DB α) (f : Filter α) (r : JRow α) : Prop :=
  (∀ x, f.minDistance = some x → x ≤ r.f.distance) ∧
  (∀ x, f.maxDistance = some x → r.f.distance ≤ x) ∧
  (∀ n, f.minSeats = some n → n ≤ r.f.seats) ∧
  (∀ n, f.maxSeats = some n → r.f.seats ≤ n) ∧
  (∀ l, f.serviceType = some l → l ≠ [] → r.f.serviceType ∈ l) ∧
  (∀ l, f.aircraftType = some l → l ≠ [] → r.f.aircraftType ∈ l) ∧
  specTri db .airport f.airport r ∧ specTri db .country f.country r ∧
  specTri db .continent f.continent r ∧ specTri db .bbox f.bbox r

/-- the joined row really is the join of the tables -/
structure JoinOk (db : DB α) (r : JRow α) : Prop where
  ao : findAirport db r.f.origin = some r.ao
  ad : findAirport db r.f.destination = some r.ad

/-- primary key of `airports` -/
def AirportIdsUnique (db : DB α) : Prop := db.airports.Pairwise (fun a b => a.id ≠ b.id)

/-- a combined flavour excludes the directed ones (what `_normalize` guarantees for non-empty values) -/
def Tri.exclusive {β} (t : Tri β) : Prop := ∀ b, t.both = some b → t.origin = none ∧ t.destination = none

/-! ### sub-selects -/

theorem unique_of_pairwise {l : List Airport} (h : l.Pairwise (fun a b => a.id ≠ b.id))
    {a b : Airport} (ha : a ∈ l) (hb : b ∈ l) (hid : a.id = b.id) : a = b := by
  induction l with
  | nil => cases ha
  | cons x xs ih =>
    rw [List.pairwise_cons] at h
    cases ha with
    | head =>
      cases hb with
      | head => rfl
      | tail _ hb => exact absurd hid (h.1 _ hb)
    | tail _ ha =>
      cases hb with
      | head => exact absurd hid.symm (h.1 _ ha)
      | tail _ hb => exact ih h.2 ha hb

theorem findAirport_spec {db : DB α} {id : Nat} {a : Airport} (h : findAirport db id = some a) :
    a ∈ db.airports ∧ a.id = id := by
  unfold findAirport at h
  exact ⟨List.mem_of_find?_eq_some h, by simpa using List.find?_some h⟩

theorem mem_airportIds {db : DB α} (hu : AirportIdsUnique db) {id : Nat} {a : Airport}
    (h : findAirport db id = some a) (p : Airport → Bool) :
    id ∈ (db.airports.filter p).map (·.id) ↔ p a = true := by
  obtain ⟨hm, hid⟩ := findAirport_spec h
  simp only [List.mem_map, List.mem_filter]
  constructor
  · rintro ⟨a', ⟨hm', hp⟩, hid'⟩
    have : a' = a := unique_of_pairwise hu hm' hm (by omega)
    rwa [← this]
  · intro hp
    exact ⟨a, ⟨hm, hp⟩, hid⟩

/-- a sub-select contains the id of an airport iff the airport lies in the region -/
theorem mem_regionIds {db : DB α} (hu : AirportIdsUnique db) {id : Nat} {a : Airport}
    (h : findAirport db id = some a) (r : Region α) :
    id ∈ regionIds db r ↔ regionHolds db r a := by
  cases r with
  | airport cs =>
    simp only [regionIds, regionHolds]
    rw [mem_airportIds hu h]; simp
  | country cs =>
    simp only [regionIds, regionHolds]
    rw [mem_airportIds hu h]; simp
  | continent cs =>
    simp only [regionIds, regionHolds]
    rw [mem_airportIds hu h]
    simp only [List.contains_iff_mem, List.mem_map, List.mem_filter]
    constructor
    · rintro ⟨c, ⟨hc, hk⟩, hcode⟩; exact ⟨c, hc, hcode, hk⟩
    · rintro ⟨c, hc, hcode, hk⟩; exact ⟨c, ⟨hc, hk⟩, hcode⟩
  | bbox b =>
    obtain ⟨_, hid⟩ := findAirport_spec h
    simp only [regionIds, regionHolds, List.mem_map, List.mem_filter, BBox.containsBox,
      Bool.and_eq_true, decide_eq_true_eq]
    constructor
    · rintro ⟨e, ⟨he, ⟨⟨⟨h1, h2⟩, h3⟩, h4⟩⟩, hide⟩; exact ⟨e, he, by omega, h1, h2, h3, h4⟩
    · rintro ⟨e, he, hide, h1, h2, h3, h4⟩; exact ⟨e, ⟨he, ⟨⟨⟨h1, h2⟩, h3⟩, h4⟩⟩, by omega⟩

/-! ### conditions of a filter -/

theorem semAll_append (db : DB α) (draw : Nat → α) (a b : List (Cond α)) (s : Sched) (f : Flight α) :
    semAll db draw (a ++ b) s f = (semAll db draw a s f && semAll db draw b s f) := by
  simp [semAll, List.all_append]

theorem semAll_nil (db : DB α) (draw : Nat → α) (s : Sched) (f : Flight α) :
    semAll db draw [] s f = true := rfl

theorem semAll_optCond {β} (db : DB α) (draw : Nat → α) (mk : β → Cond α) (o : Option β)
    (s : Sched) (f : Flight α) :
    semAll db draw (optCond mk o) s f = true ↔ ∀ x, o = some x → sem db draw (mk x) s f = true := by
  cases o <;> simp [optCond, semAll]

theorem semAll_inListCond (db : DB α) (draw : Nat → α) (mk : List String → Cond α)
    (o : Option (List String)) (s : Sched) (f : Flight α) :
    semAll db draw (inListCond mk o) s f = true ↔
      ∀ l, o = some l → l ≠ [] → sem db draw (mk l) s f = true := by
  cases o with
  | none => simp [inListCond, semAll]
  | some l =>
    cases l with
    | nil => simp [inListCond, semAll]
    | cons x xs => simp [inListCond, semAll]

theorem semAll_spatialConds {β} {db : DB α} (hu : AirportIdsUnique db) (draw : Nat → α)
    (mk : β → Region α) (t : Tri β) (hex : t.exclusive) {r : JRow α} (hj : JoinOk db r) :
    semAll db draw (spatialConds mk t) r.s r.f = true ↔ specTri db mk t r := by
  unfold spatialConds specTri
  cases hb : t.both with
  | some b =>
    obtain ⟨ho, hd⟩ := hex b hb
    simp [semAll, sem, ho, hd, mem_regionIds hu hj.ao, mem_regionIds hu hj.ad]
  | none =>
    cases ho : t.origin <;> cases hd : t.destination <;>
      simp [semAll, sem, mem_regionIds hu hj.ao, mem_regionIds hu hj.ad]

/-- **SQL meaning of the emitted filter conditions = documented predicate** -/
theorem filterConds_sem_iff {db : DB α} (hu : AirportIdsUnique db) (draw : Nat → α) (f : Filter α)
    (h1 : f.airport.exclusive) (h2 : f.country.exclusive) (h3 : f.continent.exclusive)
    (h4 : f.bbox.exclusive) {r : JRow α} (hj : JoinOk db r) :
    semAll db draw (filterConds f) r.s r.f = true ↔ specFilter db f r := by
  unfold filterConds specFilter
  simp only [semAll_append, Bool.and_eq_true, semAll_optCond, semAll_inListCond,
    semAll_spatialConds hu draw _ _ h1 hj, semAll_spatialConds hu draw _ _ h2 hj,
    semAll_spatialConds hu draw _ _ h3 hj, semAll_spatialConds hu draw _ _ h4 hj]
  simp only [sem, decide_eq_true_eq, List.contains_iff_mem, and_assoc]

/-! ### what `_normalize` guarantees -/

/-- every spatial list that is given is non-empty -/
def noEmptySpatial (f : Filter α) : Prop :=
  ∀ t ∈ [f.airport, f.country, f.continent], ∀ o ∈ [t.both, t.origin, t.destination], o ≠ some []

theorem counts_list (t : Tri (List String))
    (hne : ∀ o ∈ [t.both, t.origin, t.destination], o ≠ some []) :
    t.counts listSet = (if t.both.isSome then 1 else 0, if t.origin.isSome then 1 else 0,
      if t.destination.isSome then 1 else 0) := by
  have hb := hne t.both (by simp)
  have ho := hne t.origin (by simp)
  have hd := hne t.destination (by simp)
  unfold Tri.counts listSet
  cases h1 : t.both with
  | none =>
    cases h2 : t.origin with
    | none => cases h3 : t.destination with
      | none => simp
      | some l => cases l <;> simp_all
    | some l => cases h3 : t.destination with
      | none => cases l <;> simp_all
      | some l' => cases l <;> cases l' <;> simp_all
  | some l0 =>
    cases h2 : t.origin with
    | none => cases h3 : t.destination with
      | none => cases l0 <;> simp_all
      | some l => cases l0 <;> cases l <;> simp_all
    | some l => cases h3 : t.destination with
      | none => cases l0 <;> cases l <;> simp_all
      | some l' => cases l0 <;> cases l <;> cases l' <;> simp_all

theorem counts_bbox (t : Tri (BBox α)) :
    t.counts (fun _ => true) = (if t.both.isSome then 1 else 0, if t.origin.isSome then 1 else 0,
      if t.destination.isSome then 1 else 0) := by
  unfold Tri.counts
  cases t.both <;> cases t.origin <;> cases t.destination <;> simp

theorem exclusive_of_counts {β} (t : Tri β) (c o d : Nat)
    (h : (if t.both.isSome then 1 else 0) ≤ c ∧ (if t.origin.isSome then 1 else 0) ≤ o
      ∧ (if t.destination.isSome then 1 else 0) ≤ d)
    (hok : (c = 1 ∧ o = 0 ∧ d = 0) ∨ c = 0) : t.exclusive := by
  intro b hb
  simp only [hb, Option.isSome_some, if_true] at h
  rcases hok with ⟨_, ho, hd⟩ | hc
  · subst ho hd
    obtain ⟨_, h2, h3⟩ := h
    constructor
    · cases hx : t.origin with
      | none => rfl
      | some x => simp [hx] at h2
    · cases hx : t.destination with
      | none => rfl
      | some x => simp [hx] at h3
  · omega

/-- an accepted filter without empty spatial lists has, per kind, either the combined flavour
    or directed flavours, never both -/
theorem exclusive_of_normalizeOk (f : Filter α) (hok : normalizeOk f = true) (hne : noEmptySpatial f) :
    f.airport.exclusive ∧ f.country.exclusive ∧ f.continent.exclusive ∧ f.bbox.exclusive := by
  have ca := counts_list f.airport (hne _ (by simp))
  have cc := counts_list f.country (hne _ (by simp))
  have ck := counts_list f.continent (hne _ (by simp))
  have cb := counts_bbox f.bbox
  unfold normalizeOk spatialCounts at hok
  rw [ca, cc, ck, cb] at hok
  simp only [Bool.or_eq_true, Bool.and_eq_true, beq_iff_eq, decide_eq_true_eq] at hok
  have hok' : ∀ (c o d : Nat),
      c = (if f.airport.both.isSome then 1 else 0) + (if f.country.both.isSome then 1 else 0)
        + (if f.continent.both.isSome then 1 else 0) + (if f.bbox.both.isSome then 1 else 0) →
      o = (if f.airport.origin.isSome then 1 else 0) + (if f.country.origin.isSome then 1 else 0)
        + (if f.continent.origin.isSome then 1 else 0) + (if f.bbox.origin.isSome then 1 else 0) →
      d = (if f.airport.destination.isSome then 1 else 0) + (if f.country.destination.isSome then 1 else 0)
        + (if f.continent.destination.isSome then 1 else 0) + (if f.bbox.destination.isSome then 1 else 0) →
      (c = 1 ∧ o = 0 ∧ d = 0) ∨ c = 0 := by
    intro c o d hc ho hd
    subst hc ho hd
    rcases hok with ⟨⟨h1, h2⟩, h3⟩ | ⟨⟨h1, _⟩, _⟩
    · exact Or.inl ⟨h1, h2, h3⟩
    · exact Or.inr h1
  refine ⟨?_, ?_, ?_, ?_⟩ <;>
    refine exclusive_of_counts _ _ _ _ ?_ (hok' _ _ _ rfl rfl rfl) <;>
    refine ⟨?_, ?_, ?_⟩ <;> omega

end

end Aeic.Query

namespace Aeic.Query

/-! ### the documented compatibility rule for spatial filters -/

def b2n (b : Bool) : Nat := if b then 1 else 0

/-- a list-valued spatial field counts as given when it is a non-empty list -/
def setL (o : Option (List String)) : Bool :=
  match o with
  | some (_ :: _) => true
  | _ => false

/-- names of the region kinds for which a flavour is given -/
def kindsSet (a c k b : Bool) : List String :=
  (if a then ["airport"] else []) ++ (if c then ["country"] else [])
    ++ (if k then ["continent"] else []) ++ (if b then ["bounding_box"] else [])

theorem kindsSet_length (a c k b : Bool) : (kindsSet a c k b).length = b2n a + b2n c + b2n k + b2n b := by
  cases a <;> cases c <;> cases k <;> cases b <;> rfl

def combinedKinds {α} (f : Filter α) : List String :=
  kindsSet (setL f.airport.both) (setL f.country.both) (setL f.continent.both) f.bbox.both.isSome
def originKinds {α} (f : Filter α) : List String :=
  kindsSet (setL f.airport.origin) (setL f.country.origin) (setL f.continent.origin) f.bbox.origin.isSome
def destinationKinds {α} (f : Filter α) : List String :=
  kindsSet (setL f.airport.destination) (setL f.country.destination) (setL f.continent.destination)
    f.bbox.destination.isSome

/-- "either a single combined spatial filter, or one (optional) spatial filter for the origin and/or
    one (optional) one for the destination" -/
def legalDoc {α} (f : Filter α) : Prop :=
  ((combinedKinds f).length = 1 ∧ originKinds f = [] ∧ destinationKinds f = []) ∨
  (combinedKinds f = [] ∧ (originKinds f).length ≤ 1 ∧ (destinationKinds f).length ≤ 1)

theorem counts_setL (t : Tri (List String)) :
    t.counts listSet = (b2n (setL t.both), b2n (setL t.origin), b2n (setL t.destination)) := by
  obtain ⟨b, o, d⟩ := t
  unfold Tri.counts
  rcases b with (_ | (_ | _)) <;> rcases o with (_ | (_ | _)) <;> rcases d with (_ | (_ | _)) <;>
    simp [listSet, setL, b2n]

theorem counts_isSome {α} (t : Tri (BBox α)) :
    t.counts (fun _ => true) = (b2n t.both.isSome, b2n t.origin.isSome, b2n t.destination.isSome) := by
  unfold Tri.counts b2n
  cases t.both <;> cases t.origin <;> cases t.destination <;> simp

theorem normalizeOk_iff_legalDoc {α} (f : Filter α) : normalizeOk f = true ↔ legalDoc f := by
  unfold normalizeOk spatialCounts legalDoc combinedKinds originKinds destinationKinds
  rw [counts_setL, counts_setL, counts_setL, counts_isSome]
  simp only [← List.length_eq_zero_iff, kindsSet_length, Bool.or_eq_true, Bool.and_eq_true, beq_iff_eq,
    decide_eq_true_eq, and_assoc]

end Aeic.Query
