/-
  Helper lemmas for C02 (container part): the growable buffers refine the plain list of appended rows.
-/
import AeicModel.Container

namespace Aeic.Container
variable {β : Type} [Inhabited β]
set_option linter.unusedSectionVars false

theorem npResize_length (xs : List β) (n : Nat) : (npResize xs n).length = n := by
  simp [npResize]

theorem npResize_take (xs : List β) (n : Nat) (h : xs.length ≤ n) :
    (npResize xs n).take xs.length = xs := by
  apply List.ext_getElem
  · simp [npResize_length]; omega
  · intro i h1 h2
    have hi : i < xs.length := h2
    simp [npResize, List.getElem_take, Nat.mod_eq_of_lt hi, List.getD_eq_getElem?_getD, hi]

theorem take_set_snoc (l : List β) (k : Nat) (v : β) (h : k < l.length) :
    (l.set k v).take (k + 1) = l.take k ++ [v] := by
  apply List.ext_getElem
  · simp; omega
  · intro i h1 h2
    simp only [List.getElem_take, List.getElem_set, List.getElem_append, List.length_take]
    by_cases hik : i < k
    · have : ¬ k = i := by omega
      have h3 : i < min k l.length := by omega
      simp [this, h3]
    · have : k = i := by simp at h1; omega
      subst this
      simp
      intro h; omega

/-- the buffer that `append` writes into, for one column -/
def grown (size cap : Nat) (col : List β) : List β :=
  if size = cap then npResize col (cap + expansion) else col

theorem grown_take (size cap : Nat) (col : List β) (hl : col.length = cap) (hs : size ≤ cap) :
    (grown size cap col).take size = col.take size := by
  unfold grown
  split
  · next h =>
    subst h
    rw [← hl]
    rw [npResize_take col _ (by omega)]
    simp
  · rfl

theorem grown_length (size cap : Nat) (col : List β) (hl : col.length = cap) :
    (grown size cap col).length = if size = cap then cap + expansion else cap := by
  unfold grown; split <;> simp [npResize_length, hl]

theorem expansion_pos : 0 < expansion := by decide

theorem grown_set_take (size cap : Nat) (col : List β) (v : β) (hl : col.length = cap) (hs : size ≤ cap) :
    ((grown size cap col).set size v).take (size + 1) = col.take size ++ [v] := by
  have hlen := grown_length size cap col hl
  have hpos := expansion_pos
  rw [take_set_snoc _ _ _ (by rw [hlen]; split <;> omega)]
  rw [grown_take size cap col hl hs]


/-- the abstraction relation: container `c` (with `ncols` fields, still extensible) represents `rows` -/
structure Rep (ncols : Nat) (c : Cont β) (rows : List (List β)) : Prop where
  ncols : c.cols.length = ncols
  lens : ∀ col ∈ c.cols, col.length = c.cap
  size : c.size = rows.length
  le : c.size ≤ c.cap
  data : ∀ j (h : j < c.cols.length), (c.cols[j]).take c.size = column rows j

theorem rep_empty (ncols : Nat) : Rep ncols (empty ncols : Cont β) [] := by
  refine ⟨by simp [empty], ?_, by simp [empty], by simp [empty], ?_⟩
  · intro col h; simp [empty] at h; simp [h.2, empty]
  · intro j h; simp [empty, column]

theorem column_snoc (rows : List (List β)) (r : List β) (j : Nat) :
    column (rows ++ [r]) j = column rows j ++ [r.getD j default] := by
  simp [column]

/-- what `append` does, column-wise -/
theorem append_eq (c : Cont β) (r : List β) (hext : c.ext = true) (hr : r.length = c.cols.length) :
    append c r = .ok
      { size := c.size + 1
        cap := if c.size = c.cap then c.cap + expansion else c.cap
        ext := true
        cols := List.zipWith (fun col v => col.set c.size v) (c.cols.map (grown c.size c.cap)) r } := by
  unfold append
  simp only [hext, hr]
  by_cases hfull : c.size = c.cap
  · have hg : grown (β := β) c.cap c.cap = fun col => npResize col (c.cap + expansion) := by
      funext col; simp [grown]
    simp [hfull, expand, hg, hext]
  · have hg : grown (β := β) c.size c.cap = fun col => col := by
      funext col; simp [grown, hfull]
    simp [hfull, hg, hext]

theorem rep_append {ncols : Nat} {c : Cont β} {rows : List (List β)} (r : List β)
    (h : Rep ncols c rows) (hext : c.ext = true) (hr : r.length = ncols) :
    ∃ c', append c r = .ok c' ∧ Rep ncols c' (rows ++ [r]) ∧ c'.ext = true := by
  have hpos := expansion_pos
  refine ⟨_, append_eq c r hext (by rw [hr, h.ncols]), ?_, rfl⟩
  have hn := h.ncols
  refine ⟨by simp [hr, hn], ?_, by simp [h.size], ?_, ?_⟩
  · intro col hcol
    simp only [List.mem_iff_getElem] at hcol
    obtain ⟨j, hj, rfl⟩ := hcol
    simp only [List.length_zipWith, List.length_map] at hj
    have hj1 : j < c.cols.length := by omega
    simp only [List.getElem_zipWith, List.getElem_map, List.length_set]
    rw [grown_length _ _ _ (h.lens _ (List.getElem_mem hj1))]
  · have := h.le
    show c.size + 1 ≤ (if c.size = c.cap then c.cap + expansion else c.cap)
    split <;> omega
  · intro j hj
    simp only [List.length_zipWith, List.length_map] at hj
    have hj1 : j < c.cols.length := by omega
    have hj2 : j < r.length := by omega
    simp only [List.getElem_zipWith, List.getElem_map]
    rw [grown_set_take _ _ _ _ (h.lens _ (List.getElem_mem hj1)) h.le, h.data j hj1, column_snoc]
    simp [List.getD_eq_getElem?_getD, hj2]

/-- every sequence of well-formed appends succeeds and is represented exactly -/
theorem rep_appendAll {ncols : Nat} (news : List (List β)) :
    ∀ {c : Cont β} {rows : List (List β)}, Rep ncols c rows → c.ext = true →
      (∀ r ∈ news, r.length = ncols) →
      ∃ c', appendAll c news = .ok c' ∧ Rep ncols c' (rows ++ news) ∧ c'.ext = true := by
  induction news with
  | nil => intro c rows h hext _; exact ⟨c, rfl, by simpa using h, hext⟩
  | cons r rs ih =>
    intro c rows h hext hlen
    obtain ⟨c1, h1, hrep1, hext1⟩ := rep_append r h hext (hlen r (by simp))
    obtain ⟨c2, h2, hrep2, hext2⟩ := ih hrep1 hext1 (fun x hx => hlen x (by simp [hx]))
    refine ⟨c2, ?_, by simpa using hrep2, hext2⟩
    simp [appendAll, h1, h2]

/-- reading the fields back (`__getattr__`): exactly the appended columns -/
theorem rep_get {ncols : Nat} {c : Cont β} {rows : List (List β)} (h : Rep ncols c rows) :
    get c = (List.range ncols).map (column rows) := by
  apply List.ext_getElem
  · simp [get, h.ncols]
  · intro j h1 h2
    simp only [get, List.length_map] at h1
    simp [get, h.data j h1]

theorem column_getD (rows : List (List β)) (j k : Nat) (hk : k < rows.length) :
    (column rows j).getD k default = (rows[k]).getD j default := by
  simp [column, List.getD_eq_getElem?_getD, hk]

/-- `make_point(idx)` (repaired code) returns row `idx` (Python indexing) -/
theorem rep_makePoint {ncols : Nat} {c : Cont β} {rows : List (List β)} (h : Rep ncols c rows)
    (hrows : ∀ r ∈ rows, r.length = ncols) (idx : Int)
    (hlo : -(rows.length : Int) ≤ idx) (hhi : idx < rows.length) :
    makePoint c idx = .ok (rows[pyIdx rows.length idx]'(by unfold pyIdx; split <;> omega)) := by
  have hk : pyIdx rows.length idx < rows.length := by unfold pyIdx; split <;> omega
  unfold makePoint
  rw [h.size]
  have : ¬ (idx < -(rows.length : Int) ∨ idx ≥ (rows.length : Int)) := by omega
  simp only [this, if_false]
  congr 1
  apply List.ext_getElem
  · simp [h.ncols, hrows _ (List.getElem_mem hk)]
  · intro j h1 h2
    simp only [List.length_map] at h1
    have := h.data j h1
    rw [h.size] at this
    simp only [List.getElem_map, this]
    rw [column_getD rows j _ hk]
    simp [List.getD_eq_getElem?_getD, h2]

end Aeic.Container
