/-
  C14 helper lemmas, part 3: query-level predicate (dates, every-nth, sampling), the join, ordering,
  LIMIT/OFFSET window, GROUP BY counting.  Core Lean only.
-/
import AeicProofs.Lemmas.C14Spec

set_option linter.unusedSimpArgs false
set_option linter.unusedVariables false
set_option linter.unusedSectionVars false

namespace Aeic.Query

/-! ### dates and every-nth -/

/-- `dep ≥ midnight(start)` ⇔ the UTC day of departure is on or after `start` -/
theorem depFrom_iff (d dep : Int) : d * 86400 ≤ dep ↔ d ≤ dep / 86400 := by omega

/-- `dep < midnight(end + 1)` ⇔ the UTC day of departure is on or before `end` -/
theorem depBefore_iff (d dep : Int) : dep < (d + 1) * 86400 ↔ dep / 86400 ≤ d := by omega

theorem tmod_beq_zero_iff (x n : Int) : (x.tmod n == 0) = true ↔ n ∣ x := by
  simp only [beq_iff_eq]
  exact ⟨Int.dvd_of_tmod_eq_zero, Int.tmod_eq_zero_of_dvd⟩

section
variable {α : Type} [LT α] [LE α] [DecidableLT α] [DecidableLE α]

/-! ### join -/

theorem joinRow_spec {db : DB α} {s : Sched} {r : JRow α} (h : joinRow db s = some r) :
    r.s = s ∧ findFlight db s.flightId = some r.f ∧ JoinOk db r := by
  unfold joinRow at h
  cases hf : findFlight db s.flightId with
  | none => simp [hf] at h
  | some f =>
    simp only [hf] at h
    cases ho : findAirport db f.origin with
    | none => simp [ho] at h
    | some ao =>
      cases hd : findAirport db f.destination with
      | none => simp [ho, hd] at h
      | some ad =>
        simp only [ho, hd, Option.some.injEq] at h
        subst h
        exact ⟨rfl, rfl, ⟨ho, hd⟩⟩

theorem mem_joined {db : DB α} {r : JRow α} (h : r ∈ joined db) :
    r.s ∈ db.schedules ∧ findFlight db r.s.flightId = some r.f ∧ JoinOk db r := by
  unfold joined at h
  rw [List.mem_filterMap] at h
  obtain ⟨s, hs, hj⟩ := h
  obtain ⟨h1, h2, h3⟩ := joinRow_spec hj
  subst h1
  exact ⟨hs, h2, h3⟩

theorem length_filterMap_of_isSome {β γ} (f : β → Option γ) (l : List β)
    (h : ∀ x ∈ l, (f x).isSome = true) : (l.filterMap f).length = l.length := by
  induction l with
  | nil => rfl
  | cons x xs ih =>
    have hx := h x (by simp)
    cases hfx : f x with
    | none => simp [hfx] at hx
    | some y =>
      simp [List.filterMap_cons, hfx, ih (fun z hz => h z (by simp [hz]))]

theorem matching_nil (db : DB α) (draw : Nat → α) : matching db draw [] = joined db := by
  simp [matching, semAll]

theorem mem_matching {db : DB α} {draw : Nat → α} {cs : List (Cond α)} {r : JRow α} :
    r ∈ matching db draw cs ↔ r ∈ joined db ∧ semAll db draw cs r.s r.f = true := by
  simp [matching]

/-! ### ORDER BY and the window -/

theorem leDep_trans (a b c : JRow α) : leDep a b = true → leDep b c = true → leDep a c = true := by
  simp only [leDep, decide_eq_true_eq]; omega

theorem leDep_total (a b : JRow α) : (leDep a b || leDep b a) = true := by
  simp only [leDep, Bool.or_eq_true, decide_eq_true_eq]; omega

theorem sorted_mergeSort_leDep (l : List (JRow α)) :
    (l.mergeSort leDep).Pairwise (fun a b => a.s.dep ≤ b.s.dep) := by
  have := List.pairwise_mergeSort (le := leDep) leDep_trans leDep_total l
  refine this.imp ?_
  intro a b h
  simpa [leDep] using h

theorem window_sublist {β} (limit offset : Option Int) (l : List β) : (window limit offset l).Sublist l := by
  unfold window
  cases limit with
  | none => exact List.Sublist.refl _
  | some n => exact (List.take_sublist _ _).trans (List.drop_sublist _ _)

theorem window_none {β} (offset : Option Int) (l : List β) : window none offset l = l := rfl

/-! ### GROUP BY -/

section group
variable {κ : Type} [DecidableEq κ]

/-- count recorded for key `k` in a (key, count) table (0 if absent) -/
def cnt (t : List (κ × Nat)) (k : κ) : Nat :=
  match t with
  | [] => 0
  | (k', n) :: rest => if k' = k then n else cnt rest k

theorem cnt_bump (k k' : κ) (t : List (κ × Nat)) :
    cnt (bump k t) k' = cnt t k' + (if k = k' then 1 else 0) := by
  induction t with
  | nil => simp [bump, cnt]
  | cons p t ih =>
    obtain ⟨a, n⟩ := p
    by_cases h : a = k
    · subst h
      by_cases h' : a = k' <;> simp [bump, cnt, h']
    · by_cases h' : a = k'
      · subst h'
        have : ¬ k = a := fun e => h e.symm
        simp [bump, cnt, h, this]
      · simp [bump, cnt, h, h', ih]

theorem cnt_groupCounts (l : List κ) (k : κ) : cnt (groupCounts l) k = l.count k := by
  induction l with
  | nil => simp [groupCounts, cnt]
  | cons x xs ih =>
    have : groupCounts (x :: xs) = bump x (groupCounts xs) := rfl
    rw [this, cnt_bump, ih, List.count_cons]
    by_cases h : x = k <;> simp [h]

theorem keys_bump (k : κ) (t : List (κ × Nat)) :
    (bump k t).map (·.1) = if k ∈ t.map (·.1) then t.map (·.1) else t.map (·.1) ++ [k] := by
  induction t with
  | nil => simp [bump]
  | cons p t ih =>
    obtain ⟨a, n⟩ := p
    by_cases h : a = k
    · subst h; simp [bump]
    · have hne : ¬ k = a := fun e => h e.symm
      simp only [bump, h, if_false, List.map_cons, ih, List.mem_cons, hne, false_or]
      split <;> simp

theorem keys_nodup_bump (k : κ) (t : List (κ × Nat)) (h : (t.map (·.1)).Nodup) :
    ((bump k t).map (·.1)).Nodup := by
  rw [keys_bump]
  split
  · exact h
  · next hk =>
    rw [List.nodup_append]
    refine ⟨h, by simp, ?_⟩
    intro a ha b hb
    simp only [List.mem_singleton] at hb
    subst hb
    intro e; subst e; exact hk ha

theorem keys_nodup_groupCounts (l : List κ) : ((groupCounts l).map (·.1)).Nodup := by
  induction l with
  | nil => simp [groupCounts]
  | cons x xs ih => exact keys_nodup_bump x _ ih

theorem pos_bump (k : κ) (t : List (κ × Nat)) (h : ∀ p ∈ t, 0 < p.2) : ∀ p ∈ bump k t, 0 < p.2 := by
  induction t with
  | nil => simp [bump]
  | cons p t ih =>
    obtain ⟨a, n⟩ := p
    by_cases ha : a = k
    · intro q hq
      simp only [bump, ha, if_true, List.mem_cons] at hq
      rcases hq with rfl | hq
      · simp
      · exact h q (by simp [hq])
    · intro q hq
      simp only [bump, ha, if_false, List.mem_cons] at hq
      rcases hq with rfl | hq
      · exact h _ (by simp)
      · exact ih (fun p hp => h p (by simp [hp])) q hq

theorem pos_groupCounts (l : List κ) : ∀ p ∈ groupCounts l, 0 < p.2 := by
  induction l with
  | nil => simp [groupCounts]
  | cons x xs ih => exact pos_bump x _ ih

theorem cnt_of_mem (t : List (κ × Nat)) (h : (t.map (·.1)).Nodup) {k : κ} {n : Nat}
    (hm : (k, n) ∈ t) : cnt t k = n := by
  induction t with
  | nil => cases hm
  | cons p t ih =>
    obtain ⟨a, m⟩ := p
    simp only [List.map_cons, List.nodup_cons] at h
    simp only [List.mem_cons, Prod.mk.injEq] at hm
    rcases hm with ⟨rfl, rfl⟩ | hm
    · simp [cnt]
    · have : a ≠ k := by
        intro e; subst e
        exact h.1 (List.mem_map.mpr ⟨(a, n), hm, rfl⟩)
      simp [cnt, this, ih h.2 hm]

/-- every row of the GROUP BY result carries the true number of occurrences of its key -/
theorem groupCounts_true (l : List κ) {k : κ} {n : Nat} (h : (k, n) ∈ groupCounts l) :
    n = l.count k ∧ 0 < n := by
  have := cnt_of_mem _ (keys_nodup_groupCounts l) h
  rw [cnt_groupCounts] at this
  exact ⟨this.symm, pos_groupCounts l _ h⟩

theorem mem_keys_of_cnt_pos (t : List (κ × Nat)) (k : κ) (h : 0 < cnt t k) : k ∈ t.map (·.1) := by
  induction t with
  | nil => simp [cnt] at h
  | cons p t ih =>
    obtain ⟨a, m⟩ := p
    by_cases ha : a = k
    · simp [ha]
    · simp only [cnt, ha, if_false] at h
      simp [ih h]

/-- every key that occurs gets a row -/
theorem groupCounts_complete (l : List κ) {k : κ} (h : k ∈ l) : k ∈ (groupCounts l).map (·.1) := by
  apply mem_keys_of_cnt_pos
  rw [cnt_groupCounts]
  exact List.count_pos_iff.mpr h

theorem geCount_trans (a b c : κ × Nat) : geCount a b = true → geCount b c = true → geCount a c = true := by
  simp only [geCount, decide_eq_true_eq]; omega

theorem geCount_total (a b : κ × Nat) : (geCount a b || geCount b a) = true := by
  simp only [geCount, Bool.or_eq_true, decide_eq_true_eq]; omega

end group

end

end Aeic.Query
