/- The merge protocol: invariants of the step sequence under faults and crashes. -/
import Mathlib.Tactic.SplitIfs
import Mathlib.Tactic.ByContra
import AeicModel.Merge

namespace Aeic.Merge
open Aeic.Store

theorem runSteps_append (cur : FS) (fault : Option Nat) (i : Nat) (A B : List FsStep) :
    runSteps cur fault i (A ++ B) =
      match runSteps cur fault i A with
      | (r, true) => runSteps r fault (i + A.length) B
      | (r, false) => (r, false) := by
  induction A generalizing cur i with
  | nil => simp [runSteps]
  | cons st rest ih =>
    simp only [List.cons_append, runSteps]
    split_ifs with hf
    · rfl
    · cases happ : applyStep cur st with
      | none => rfl
      | some cur' =>
        simp only
        rw [ih cur' (i + 1)]
        have : i + 1 + rest.length = i + (rest.length + 1) := by omega
        simp [this]

/-- the state in the middle of a merge of `orig`: the directory exists, holds exactly the files `done` (moved so far),
    rolling back gives `orig`, and moved files are gone from their original paths -/
structure Mid (orig cur : FS) (done : List (String × StoreFile)) : Prop where
  origOut : orig.out = none
  out : ∃ d, cur.out = some d ∧ d.files = done
  back : ∀ m, (match lookupFile done m with | some f => some f | none => cur.top m) = orig.top m
  gone : ∀ m, (lookupFile done m).isSome → cur.top m = none

theorem Mid.rollback {orig cur : FS} {done} (h : Mid orig cur done) : rollback cur = orig := by
  obtain ⟨d, hd, hf⟩ := h.out
  unfold Aeic.Merge.rollback
  rw [hd]
  simp only
  cases orig with
  | mk otop oout =>
    have : oout = none := h.origOut
    subst this
    congr 1
    funext m
    rw [hf]
    exact h.back m

theorem lookupFile_append (l : List (String × StoreFile)) (n m : String) (f : StoreFile) :
    lookupFile (l ++ [(n, f)]) m =
      match lookupFile l m with
      | some g => some g
      | none => if n = m then some f else none := by
  unfold lookupFile
  rw [List.find?_append]
  cases h : l.find? (fun x => x.1 == m) with
  | some x => simp
  | none =>
    by_cases hn : n = m
    · simp [hn]
    · simp [hn]

theorem Mid.rename {orig cur : FS} {done} (h : Mid orig cur done) (n : String) (cur' : FS)
    (happ : applyStep cur (.rename n) = some cur') :
    ∃ f, orig.top n = some f ∧ Mid orig cur' (done ++ [(n, f)]) := by
  obtain ⟨d, hd, hf⟩ := h.out
  unfold applyStep at happ
  rw [hd] at happ
  cases htop : cur.top n with
  | none => simp [htop] at happ
  | some f =>
    simp only [htop] at happ
    cases happ
    have hnot : lookupFile done n = none := by
      cases hl : lookupFile done n with
      | none => rfl
      | some g =>
        have := h.gone n (by simp [hl])
        rw [htop] at this; cases this
    have horig : orig.top n = some f := by
      have := h.back n
      rw [hnot] at this
      simp only at this
      rw [← this, htop]
    refine ⟨f, horig, ⟨h.origOut, ⟨_, rfl, by simp [hf]⟩, ?_, ?_⟩⟩
    · intro m
      rw [lookupFile_append]
      have hb := h.back m
      cases hl : lookupFile done m with
      | some g => rw [hl] at hb; simpa using hb
      | none =>
        rw [hl] at hb
        simp only at hb ⊢
        by_cases hn : n = m
        · subst hn; simp [horig]
        · have : ¬ m = n := fun hc => hn hc.symm
          simp [hn, this, hb]
    · intro m hm
      rw [lookupFile_append] at hm
      cases hl : lookupFile done m with
      | some g =>
        have := h.gone m (by simp [hl])
        simp only
        split_ifs
        · rfl
        · exact this
      | none =>
        rw [hl] at hm
        simp only at hm ⊢
        by_cases hn : n = m
        · simp [hn]
        · simp [hn] at hm

theorem Mid.other {orig cur : FS} {done} (h : Mid orig cur done) (st : FsStep) (cur' : FS)
    (hst : st = .writeIndex ∨ ∃ md, st = .writeMetadata md)
    (happ : applyStep cur st = some cur') : Mid orig cur' done ∧ cur'.top = cur.top := by
  obtain ⟨d, hd, hf⟩ := h.out
  rcases hst with rfl | ⟨md, rfl⟩ <;>
  · unfold applyStep at happ
    rw [hd] at happ
    cases happ
    exact ⟨⟨h.origOut, ⟨_, rfl, hf⟩, h.back, h.gone⟩, rfl⟩

/-- the rename phase: either it stops early (fault or refusal) in a `Mid` state without metadata, or all files in `rest`
    have been moved in order -/
theorem rename_phase (orig : FS) (fault : Option Nat) (rest : List (String × StoreFile)) :
    ∀ (cur : FS) (i : Nat) (done : List (String × StoreFile)), Mid orig cur done →
      (∀ d, cur.out = some d → d.metadata = none ∧ d.indexFile = false) →
      (∀ p ∈ rest, orig.top p.1 = some p.2) →
      let r := runSteps cur fault i (rest.map (fun p => FsStep.rename p.1))
      (∀ d, r.1.out = some d → d.metadata = none ∧ d.indexFile = false) ∧
      ((r.2 = false ∧ ∃ done', Mid orig r.1 done') ∨ (r.2 = true ∧ Mid orig r.1 (done ++ rest))) := by
  induction rest with
  | nil =>
    intro cur i done hmid hmeta _
    simp only [List.map_nil, runSteps, List.append_nil]
    exact ⟨hmeta, Or.inr ⟨trivial, hmid⟩⟩
  | cons p ps ih =>
    intro cur i done hmid hmeta hall
    simp only [List.map_cons, runSteps]
    split_ifs with hfault
    · exact ⟨hmeta, Or.inl ⟨rfl, done, hmid⟩⟩
    · cases happ : applyStep cur (.rename p.1) with
      | none => exact ⟨hmeta, Or.inl ⟨rfl, done, hmid⟩⟩
      | some cur' =>
        simp only
        obtain ⟨f, hf, hmid'⟩ := hmid.rename p.1 cur' happ
        have hpf : p.2 = f := by
          have := hall p (by simp)
          rw [hf] at this; cases this; rfl
        have hp : (p.1, f) = p := by rw [← hpf]
        rw [hp] at hmid'
        have hmeta' : ∀ d, cur'.out = some d → d.metadata = none ∧ d.indexFile = false := by
          obtain ⟨d0, hd0, _⟩ := hmid.out
          intro d hd
          unfold applyStep at happ
          rw [hd0] at happ
          cases htop : cur.top p.1 with
          | none => simp [htop] at happ
          | some g =>
            simp only [htop] at happ
            cases happ
            simp only at hd
            cases hd
            exact hmeta d0 hd0
        have := ih cur' (i + 1) (done ++ [p]) hmid' hmeta' (fun q hq => hall q (by simp [hq]))
        simpa [List.append_assoc] using this


theorem mapM_lookup (top : String → Option StoreFile) (inputs : List String) (fs : List (String × StoreFile))
    (h : inputs.mapM (fun n => (top n).map (fun f => (n, f))) = some fs) :
    (∀ p ∈ fs, top p.1 = some p.2) ∧ fs.map (·.1) = inputs := by
  induction inputs generalizing fs with
  | nil => simp at h; subst h; simp
  | cons n rest ih =>
    rw [List.mapM_cons] at h
    cases htop : top n with
    | none => simp [htop] at h
    | some f =>
      cases hr : rest.mapM (fun n => (top n).map (fun f => (n, f))) with
      | none => simp [htop, hr] at h
      | some fs' =>
        simp [htop, hr] at h
        subst h
        obtain ⟨h1, h2⟩ := ih fs' hr
        refine ⟨?_, by simp [h2]⟩
        intro p hp
        rcases List.mem_cons.mp hp with hp | hp
        · subst hp; exact htop
        · exact h1 p hp

theorem validate_ok {fsys : FS} {inputs : List String} {fs : List (String × StoreFile)}
    (h : validate fsys inputs = .ok fs) :
    fsys.out = none ∧ (∀ p ∈ fs, fsys.top p.1 = some p.2) ∧ fs.map (·.1) = inputs ∧ fs ≠ [] ∧
    (∀ p ∈ fs, ∀ q ∈ fs, p.2.fs = q.2.fs ∧ p.2.indexed = q.2.indexed) ∧ inputs.Nodup := by
  unfold validate at h
  cases hm : inputs.mapM (fun n => (fsys.top n).map (fun f => (n, f))) with
  | none => simp [hm] at h
  | some fs' =>
    simp only [hm] at h
    split_ifs at h with hdup hout
    have hnd : inputs.Nodup := by simpa using hdup
    cases fs' with
    | nil => simp at h
    | cons p0 rest =>
      obtain ⟨n0, f0⟩ := p0
      simp only at h
      split_ifs at h with h1 h2
      cases h
      obtain ⟨ha, hb⟩ := mapM_lookup fsys.top inputs _ hm
      refine ⟨by simpa using hout, ha, hb, by simp, ?_, hnd⟩
      have hfs : ∀ p ∈ (n0, f0) :: rest, p.2.fs = f0.fs ∧ p.2.indexed = f0.indexed := by
        intro p hp
        constructor
        · by_contra hc
          exact h1 (List.any_eq_true.mpr ⟨p, hp, by simpa using hc⟩)
        · by_contra hc
          exact h2 (List.any_eq_true.mpr ⟨p, hp, by simpa using hc⟩)
      intro p hp q hq
      exact ⟨(hfs p hp).1.trans (hfs q hq).1.symm, (hfs p hp).2.trans (hfs q hq).2.symm⟩

theorem run_single (cur : FS) (fault : Option Nat) (i : Nat) (st : FsStep) (cur' : FS)
    (happ : applyStep cur st = some cur') :
    runSteps cur fault i [st] = if fault = some i then (cur, false) else (cur', true) := by
  simp only [runSteps, happ]

/-- everything that can be said about running the steps of a validated merge with a fault/crash point anywhere -/
theorem run_all (orig : FS) (fs : List (String × StoreFile)) (fault : Option Nat)
    (hout : orig.out = none) (hall : ∀ p ∈ fs, orig.top p.1 = some p.2) :
    let r := runSteps orig fault 0 (mergeSteps fs)
    (r.1 = orig ∨ ∃ done, Mid orig r.1 done) ∧
    (∀ d, r.1.out = some d → ∀ md, d.metadata = some md → d.files = fs ∧ md = mdOf fs ∧ r.2 = true) ∧
    (r.2 = true → ∃ d, r.1.out = some d ∧ d.files = fs ∧ d.metadata = some (mdOf fs) ∧ Mid orig r.1 fs) := by
  intro r
  have hr : r = runSteps orig fault 0 (mergeSteps fs) := rfl
  unfold mergeSteps at hr
  rw [runSteps_append] at hr
  -- phase 1: mkdir
  have hmk : applyStep orig .mkdir = some { orig with out := some ⟨[], false, none⟩ } := by
    simp [applyStep, hout]
  rw [run_single orig fault 0 .mkdir _ hmk] at hr
  by_cases hf0 : fault = some 0
  · rw [if_pos hf0] at hr
    simp only at hr
    rw [hr]
    refine ⟨Or.inl rfl, ?_, ?_⟩
    · intro d hd; simp only [hout] at hd; cases hd
    · intro h; cases h
  · rw [if_neg hf0] at hr
    simp only at hr
    -- phase 2: renames
    generalize hmkdef : ({ orig with out := some ⟨[], false, none⟩ } : FS) = mk at hr
    have hmid0 : Mid orig mk [] := by
      subst hmkdef
      exact ⟨hout, ⟨_, rfl, rfl⟩, fun m => rfl, fun m h => by simp [lookupFile] at h⟩
    have hmeta0 : ∀ d, mk.out = some d → d.metadata = none ∧ d.indexFile = false := by
      subst hmkdef; intro d hd; cases hd; exact ⟨rfl, rfl⟩
    rw [runSteps_append] at hr
    obtain ⟨hm2, hcase⟩ := rename_phase orig fault fs mk (0 + [FsStep.mkdir].length) [] hmid0 hmeta0 hall
    generalize hr2 : runSteps mk fault (0 + [FsStep.mkdir].length) (fs.map (fun p => FsStep.rename p.1)) = r2 at hr hm2 hcase
    obtain ⟨c2, b2⟩ := r2
    simp only at hm2 hcase
    rcases hcase with ⟨hb, done', hmid'⟩ | ⟨hb, hmid2⟩
    · subst hb
      simp only at hr
      rw [hr]
      refine ⟨Or.inr ⟨done', hmid'⟩, ?_, ?_⟩
      · intro d hd md hmd
        have := (hm2 d hd).1; rw [this] at hmd; cases hmd
      · intro h; cases h
    · subst hb
      simp only [List.nil_append] at hr hmid2
      -- phase 3: optional index file, then metadata
      rw [runSteps_append] at hr
      obtain ⟨d2, hd2, hfiles2⟩ := hmid2.out
      generalize hi3 : 0 + [FsStep.mkdir].length + (fs.map (fun p => FsStep.rename p.1)).length = i3 at hr
      have hidx : ∃ c3 b3, runSteps c2 fault i3 (indexSteps fs) = (c3, b3) ∧
          Mid orig c3 fs ∧ (∀ d, c3.out = some d → d.metadata = none ∧ d.files = fs) := by
        have hsel : indexSteps fs = [] ∨ indexSteps fs = [.writeIndex] := by
          unfold indexSteps
          cases fs with
          | nil => left; rfl
          | cons p rest => obtain ⟨n, f⟩ := p; simp only; split_ifs <;> simp
        have hbase : ∀ d, c2.out = some d → d.metadata = none ∧ d.files = fs := by
          intro d hd; rw [hd2] at hd; cases hd; exact ⟨(hm2 d2 hd2).1, hfiles2⟩
        rcases hsel with h | h
        · rw [h]; exact ⟨c2, true, rfl, hmid2, hbase⟩
        · rw [h]
          have happ : applyStep c2 .writeIndex = some { c2 with out := some { d2 with indexFile := true } } := by
            simp [applyStep, hd2]
          rw [run_single c2 fault i3 .writeIndex _ happ]
          split_ifs
          · exact ⟨c2, false, rfl, hmid2, hbase⟩
          · refine ⟨_, true, rfl, (hmid2.other .writeIndex _ (Or.inl rfl) happ).1, ?_⟩
            intro d hd; cases hd
            exact ⟨(hm2 d2 hd2).1, hfiles2⟩
      obtain ⟨c3, b3, hr3, hmid3, hm3⟩ := hidx
      rw [hr3] at hr
      cases b3 with
      | false =>
        simp only at hr
        rw [hr]
        refine ⟨Or.inr ⟨fs, hmid3⟩, ?_, ?_⟩
        · intro d hd md hmd
          have := (hm3 d hd).1; rw [this] at hmd; cases hmd
        · intro h; cases h
      | true =>
        simp only at hr
        obtain ⟨d3, hd3, hfiles3⟩ := hmid3.out
        have happ : applyStep c3 (.writeMetadata (mdOf fs)) = some { c3 with out := some { d3 with metadata := some (mdOf fs) } } := by
          simp [applyStep, hd3]
        rw [run_single c3 fault _ _ _ happ] at hr
        split_ifs at hr with hfl
        · rw [hr]
          refine ⟨Or.inr ⟨fs, hmid3⟩, ?_, ?_⟩
          · intro d hd md hmd
            have := (hm3 d hd).1; rw [this] at hmd; cases hmd
          · intro h; cases h
        · rw [hr]
          have hm4 := hmid3.other (.writeMetadata (mdOf fs)) _ (Or.inr ⟨_, rfl⟩) happ
          refine ⟨Or.inr ⟨fs, hm4.1⟩, ?_, ?_⟩
          · intro d hd md hmd
            cases hd
            simp only at hmd
            cases hmd
            exact ⟨hfiles3, rfl, rfl⟩
          · intro _
            exact ⟨_, rfl, hfiles3, rfl, hm4.1⟩


theorem lookupFile_none_of_not_mem (l : List (String × StoreFile)) (n : String) (h : n ∉ l.map (·.1)) :
    lookupFile l n = none := by
  unfold lookupFile
  simp only [Option.map_eq_none_iff]
  apply List.find?_eq_none.mpr
  intro x hx hc
  apply h
  have : x.1 = n := by simpa using hc
  exact List.mem_map.mpr ⟨x, hx, this⟩

/-- without a fault, distinct input names mean every move finds its file -/
theorem rename_phase_complete (orig : FS) (rest : List (String × StoreFile)) :
    ∀ (cur : FS) (i : Nat) (done : List (String × StoreFile)), Mid orig cur done →
      (∀ p ∈ rest, orig.top p.1 = some p.2) → ((done ++ rest).map (·.1)).Nodup →
      (runSteps cur none i (rest.map (fun p => FsStep.rename p.1))).2 = true := by
  induction rest with
  | nil => intro cur i done _ _ _; rfl
  | cons p ps ih =>
    intro cur i done hmid hall hnd
    simp only [List.map_cons, runSteps]
    rw [if_neg (by simp)]
    obtain ⟨d, hd, hf⟩ := hmid.out
    have hnot : p.1 ∉ done.map (·.1) := by
      intro hc
      simp only [List.map_append, List.map_cons] at hnd
      have := (List.nodup_append.mp hnd).2.2 p.1 hc p.1 (by simp)
      exact this rfl
    have hlk := lookupFile_none_of_not_mem done p.1 hnot
    have htop : cur.top p.1 = some p.2 := by
      have := hmid.back p.1
      rw [hlk] at this
      simp only at this
      rw [this]; exact hall p (by simp)
    have happ : applyStep cur (.rename p.1) =
        some ⟨fun m => if m = p.1 then none else cur.top m, some { d with files := d.files ++ [(p.1, p.2)] }⟩ := by
      simp [applyStep, htop, hd]
    rw [happ]
    simp only
    obtain ⟨f, hf', hmid'⟩ := hmid.rename p.1 _ happ
    have hpf : p.2 = f := by
      have := hall p (by simp); rw [hf'] at this; cases this; rfl
    have hp : (p.1, f) = p := by rw [← hpf]
    rw [hp] at hmid'
    apply ih _ (i + 1) (done ++ [p]) hmid' (fun q hq => hall q (by simp [hq]))
    simpa [List.append_assoc] using hnd

/-- a merge without fault over distinct inputs runs to completion -/
theorem run_complete (orig : FS) (fs : List (String × StoreFile))
    (hout : orig.out = none) (hall : ∀ p ∈ fs, orig.top p.1 = some p.2) (hnd : (fs.map (·.1)).Nodup) :
    (runSteps orig none 0 (mergeSteps fs)).2 = true := by
  unfold mergeSteps
  rw [runSteps_append]
  have hmk : applyStep orig .mkdir = some { orig with out := some ⟨[], false, none⟩ } := by
    simp [applyStep, hout]
  rw [run_single orig none 0 .mkdir _ hmk, if_neg (by simp)]
  simp only
  generalize hmkdef : ({ orig with out := some ⟨[], false, none⟩ } : FS) = mk
  have hmid0 : Mid orig mk [] := by
    subst hmkdef
    exact ⟨hout, ⟨_, rfl, rfl⟩, fun m => rfl, fun m h => by simp [lookupFile] at h⟩
  have hmeta0 : ∀ d, mk.out = some d → d.metadata = none ∧ d.indexFile = false := by
    subst hmkdef; intro d hd; cases hd; exact ⟨rfl, rfl⟩
  rw [runSteps_append]
  have hc := rename_phase_complete orig fs mk (0 + [FsStep.mkdir].length) [] hmid0 hall (by simpa using hnd)
  obtain ⟨_, hcase⟩ := rename_phase orig none fs mk (0 + [FsStep.mkdir].length) [] hmid0 hmeta0 hall
  generalize hr2 : runSteps mk none (0 + [FsStep.mkdir].length) (fs.map (fun p => FsStep.rename p.1)) = r2 at hc hcase
  obtain ⟨c2, b2⟩ := r2
  simp only at hc hcase
  subst hc
  rcases hcase with ⟨hb, _⟩ | ⟨_, hmid2⟩
  · cases hb
  · simp only
    obtain ⟨d2, hd2, _⟩ := hmid2.out
    rw [runSteps_append]
    have hsel : indexSteps fs = [] ∨ indexSteps fs = [.writeIndex] := by
      unfold indexSteps
      cases fs with
      | nil => left; rfl
      | cons p rest => obtain ⟨n, f⟩ := p; simp only; split_ifs <;> simp
    rcases hsel with h | h
    · rw [h]
      simp only [runSteps]
      rw [if_neg (by simp)]
      simp [applyStep, hd2]
    · rw [h]
      have happ : applyStep c2 .writeIndex = some { c2 with out := some { d2 with indexFile := true } } := by
        simp [applyStep, hd2]
      rw [run_single c2 none _ .writeIndex _ happ, if_neg (by simp)]
      simp only [runSteps]
      rw [if_neg (by simp)]
      simp [applyStep]

end Aeic.Merge
