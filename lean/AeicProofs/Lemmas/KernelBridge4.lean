/-
  Kernel bridge, part 4: *vector kernels*.  The translator (third generation) reads array code — slices, slice stores,
  `np.where` on arrays, `scipy.integrate.cumulative_trapezoid`, `np.sum` — into list functions (`AeicModel/Vec.lean`).  Here
  the generated definitions for the two mass updates of `BADA/fuel_burn_base.py` (`update_mass_vector`,
  `update_mass_vector_backward`, each with an array or one scalar of segment lengths) are proved equal, over ℝ, to the
  hand-written model (`Bada.massFwd`, `Bada.massBwd` applied to `burnPerMetre ∘ sgr`) for every non-empty mass array (on an
  empty one the source raises `IndexError` at `mass[0]` / `mass[-1]`).  Helper lemmas only.
-/
import AeicProofs.RealInst
import AeicProofs.Lemmas.C19Lists
import AeicModel.Generated.Kernels
import AeicModel.Vec
import AeicModel.Bada

set_option linter.unusedTactic false
set_option linter.unreachableTactic false
set_option linter.unusedSimpArgs false
set_option linter.unusedVariables false

namespace KernelBridge4
open Aeic Aeic.Bada

theorem trapTerms_eq (y d : List ℝ) : Vec.trapTerms y d = Bada.trapTerms y d := by
  induction y generalizing d with
  | nil => simp [Vec.trapTerms, Bada.trapTerms]
  | cons y0 ys ih =>
    cases ys with
    | nil => simp [Vec.trapTerms, Bada.trapTerms]
    | cons y1 ys =>
      cases d with
      | nil => simp [Vec.trapTerms, Bada.trapTerms]
      | cons d0 ds => simp only [Vec.trapTerms, Bada.trapTerms, ih ds]

theorem cumsumFrom_eq (a : ℝ) (t : List ℝ) : Vec.cumsumFrom a t = Bada.cumsumFrom a t := by
  induction t generalizing a with
  | nil => simp [Vec.cumsumFrom, Bada.cumsumFrom]
  | cons x xs ih => simp only [Vec.cumsumFrom, Bada.cumsumFrom, ih]

/-- `1 / np.where(sgr < 1, np.inf, sgr)` as the translator resolves it is the model's `burnPerMetre` -/
theorem burn_fun : (fun e : ℝ => if e < (Lit.dec 1 0 : ℝ) then (Lit.dec 0 0 : ℝ) else (Lit.dec 1 0 : ℝ) / e) = Bada.burnPerMetre := by
  funext e; rfl

/-- `update_mass_vector` with an array of segment lengths -/
theorem mass_update_fwd (mass sgr dx : List ℝ) (hm : mass ≠ []) :
    Kern.mass_update_fwd mass sgr dx = massFwd (headD mass) (sgr.map burnPerMetre) dx := by
  obtain ⟨m0, ms, rfl⟩ := List.exists_cons_of_ne_nil hm
  simp only [Kern.mass_update_fwd, Vec.setTail, Vec.cumtrapz, Vec.head0, trapTerms_eq, cumsumFrom_eq, burn_fun, massFwd, headD,
    List.headD_cons]

/-- `update_mass_vector` with one scalar segment length (broadcast by scipy) -/
theorem mass_update_fwd_scalar (mass sgr : List ℝ) (d : ℝ) (hm : mass ≠ []) :
    Kern.mass_update_fwd_scalar_dx mass sgr d
      = massFwd (headD mass) (sgr.map burnPerMetre) (List.replicate (sgr.length - 1) d) := by
  obtain ⟨m0, ms, rfl⟩ := List.exists_cons_of_ne_nil hm
  simp only [Kern.mass_update_fwd_scalar_dx, Vec.setTail, Vec.cumtrapzS, Vec.cumtrapz, Vec.bcast, Vec.head0, trapTerms_eq,
    cumsumFrom_eq, burn_fun, massFwd, headD, List.length_map, List.headD_cons]

/-- `update_mass_vector_backward` with an array of segment lengths -/
theorem mass_update_bwd (mass sgr dx : List ℝ) (hm : mass ≠ []) :
    Kern.mass_update_bwd mass sgr dx = massBwd (lastD mass) (sgr.map burnPerMetre) dx := by
  obtain ⟨m0, ms, rfl⟩ := List.exists_cons_of_ne_nil hm
  simp only [Kern.mass_update_bwd, Vec.setInit, Vec.cumtrapz, Vec.last0, trapTerms_eq, cumsumFrom_eq, burn_fun, massBwd, lastD,
    List.map_reverse]

/-- `update_mass_vector_backward` with one scalar segment length (`np.broadcast_to` to `len(mass) − 1`) -/
theorem mass_update_bwd_scalar (mass sgr : List ℝ) (d : ℝ) (hm : mass ≠ []) :
    Kern.mass_update_bwd_scalar_dx mass sgr d
      = massBwd (lastD mass) (sgr.map burnPerMetre) (List.replicate (mass.length - 1) d) := by
  obtain ⟨m0, ms, rfl⟩ := List.exists_cons_of_ne_nil hm
  simp only [Kern.mass_update_bwd_scalar_dx, Vec.setInit, Vec.cumtrapz, Vec.bcast, Vec.last0, trapTerms_eq, cumsumFrom_eq,
    burn_fun, massBwd, lastD, List.map_reverse, List.reverse_replicate]

/-! ## one pass of the loop of each iteration driver (`BADA/model.py`, loop mode; the inherited mass updates inlined) -/

/-- the clamp `np.min((want, mtow))` is the model's `takeoffMass` -/
theorem smin_takeoff (want mtow : ℝ) : smin want mtow = (if mtow < want then mtow else want) := rfl

/-- one pass of each driver loop, given the specific ground range `sgr` that pass computes, is the model's step function applied to
    the burn vector `burnPerMetre ∘ sgr` (for every non-empty mass array and every segment-length array) -/
theorem driver_steps (mass sgr dx : List ℝ) (mtow oew mpl lf rf : ℝ) (hm : mass ≠ []) :
    Kern.driver_const_initial_step mass sgr dx = fwdStep (fun _ => sgr.map burnPerMetre) dx mass ∧
    Kern.driver_const_final_step mass sgr dx = bwdStep (fun _ => sgr.map burnPerMetre) dx mass ∧
    Kern.driver_fuel_dep_frac_step mass sgr dx mtow oew mpl lf rf
      = fuelDepStep (fun _ => sgr.map burnPerMetre) dx true mtow oew mpl lf rf mass ∧
    Kern.driver_fuel_dep_value_step mass sgr dx mtow oew mpl lf rf
      = fuelDepStep (fun _ => sgr.map burnPerMetre) dx false mtow oew mpl lf rf mass := by
  obtain ⟨m0, ms, rfl⟩ := List.exists_cons_of_ne_nil hm
  refine ⟨?_, ?_, ?_, ?_⟩
  · simp only [Kern.driver_const_initial_step, fwdStep, Vec.setTail, Vec.cumtrapz, Vec.head0, trapTerms_eq, cumsumFrom_eq, burn_fun,
      massFwd, headD, List.headD_cons]
  · simp only [Kern.driver_const_final_step, bwdStep, Vec.setInit, Vec.cumtrapz, Vec.last0, trapTerms_eq, cumsumFrom_eq, burn_fun,
      massBwd, lastD, List.map_reverse]
  · simp only [Kern.driver_fuel_dep_frac_step, Vec.setTail, Vec.setHead, Vec.cumtrapz, Vec.head0, Vec.last0, trapTerms_eq,
      cumsumFrom_eq, burn_fun, List.headD_cons]
    simp only [fuelDepStep, takeoffMass, massFwd, headD, lastD, List.headD_cons, smin_takeoff, if_true]
  · simp only [Kern.driver_fuel_dep_value_step, Vec.setTail, Vec.setHead, Vec.cumtrapz, Vec.head0, Vec.last0, trapTerms_eq,
      cumsumFrom_eq, burn_fun, List.headD_cons]
    simp only [fuelDepStep, takeoffMass, massFwd, headD, lastD, List.headD_cons, smin_takeoff, Bool.false_eq_true, if_false]

end KernelBridge4
