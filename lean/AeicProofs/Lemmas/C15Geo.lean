/-
  Helper lemmas for C15 (ground tracks): real-number reading of `AeicModel/Geo.lean`.
-/
import AeicProofs.RealInst
import Mathlib.Algebra.Order.Floor.Ring
import Mathlib.Algebra.Order.Floor.Semiring
import AeicModel.Geo

namespace Aeic.Geo

noncomputable instance : HasFloor ℝ := ⟨fun x => (⌊x⌋ : ℝ)⟩

theorem floor_real (x : ℝ) : HasFloor.floor x = (⌊x⌋ : ℝ) := rfl

/-! ### azimuth normalisation -/

theorem pymod360_real (x : ℝ) : pymod360 x = x - 360 * (⌊x / 360⌋ : ℝ) := by
  unfold pymod360
  simp only [lit_real, zero_real, floor_real]
  norm_num
  split_ifs with h1 h2 h3
  · -- -360 < x < 0 : floor = -1
    have : ⌊x / 360⌋ = -1 := by
      rw [Int.floor_eq_iff]; constructor <;> norm_num <;> linarith
    rw [this]; norm_num
  · rfl
  · have : ⌊x / 360⌋ = 0 := by
      rw [Int.floor_eq_iff]; constructor <;> norm_num <;> linarith
    rw [this]; norm_num
  · rfl

theorem pymod360_range (x : ℝ) : 0 ≤ pymod360 x ∧ pymod360 x < 360 := by
  rw [pymod360_real]
  have h1 := Int.floor_le (x / 360)
  have h2 := Int.lt_floor_add_one (x / 360)
  constructor
  · have : (⌊x / 360⌋ : ℝ) * 360 ≤ x := by
      have := mul_le_mul_of_nonneg_right h1 (by norm_num : (0 : ℝ) ≤ 360)
      simpa using this
    linarith
  · have : x < ((⌊x / 360⌋ : ℝ) + 1) * 360 := by
      have := mul_lt_mul_of_pos_right h2 (by norm_num : (0 : ℝ) < 360)
      simpa using this
    linarith

/-! ### list bookkeeping: `accumulate`, `legsOf`, `bisectLeft` -/

@[simp] theorem nth_cons_zero (x : ℝ) (xs : List ℝ) : nth (x :: xs) 0 = x := rfl
@[simp] theorem nth_cons_succ (x : ℝ) (xs : List ℝ) (k : Nat) : nth (x :: xs) (k + 1) = nth xs k := rfl
@[simp] theorem nthP_cons_zero (x : ℝ × ℝ) (xs : List (ℝ × ℝ)) : nthP (x :: xs) 0 = x := rfl
@[simp] theorem nthP_cons_succ (x : ℝ × ℝ) (xs : List (ℝ × ℝ)) (k : Nat) : nthP (x :: xs) (k + 1) = nthP xs k := rfl

@[simp] theorem accumulate_length (a : ℝ) (ds : List ℝ) : (accumulate a ds).length = ds.length + 1 := by
  induction ds generalizing a with
  | nil => rfl
  | cons d ds ih => simp [accumulate, ih]

@[simp] theorem accumulate_head (a : ℝ) (ds : List ℝ) : nth (accumulate a ds) 0 = a := by
  cases ds <;> rfl

theorem accumulate_succ (a : ℝ) (ds : List ℝ) (k : Nat) (hk : k < ds.length) :
    nth (accumulate a ds) (k + 1) = nth (accumulate a ds) k + nth ds k := by
  induction ds generalizing a k with
  | nil => simp at hk
  | cons d ds ih =>
    cases k with
    | zero => simp [accumulate]
    | succ k =>
      simp only [accumulate, nth_cons_succ]
      exact ih (a + d) k (by simpa using hk)

theorem accumulate_last (a : ℝ) (ds : List ℝ) : lastOf (accumulate a ds) = a + ds.sum := by
  induction ds generalizing a with
  | nil => simp [lastOf, accumulate]
  | cons d ds ih =>
    have : lastOf (accumulate a (d :: ds)) = lastOf (accumulate (a + d) ds) := by
      simp [lastOf, accumulate]
    rw [this, ih]; simp; ring

/-- the inverse solution of leg `k` (waypoint `k` to waypoint `k+1`). -/
noncomputable def legAt (g : Geod ℝ) (wps : List (ℝ × ℝ)) (k : Nat) : InvR ℝ :=
  g.inv (nthP wps k).1 (nthP wps k).2 (nthP wps (k + 1)).1 (nthP wps (k + 1)).2

@[simp] theorem legsOf_length (g : Geod ℝ) (wps : List (ℝ × ℝ)) : (legsOf g wps).length = wps.length - 1 := by
  induction wps with
  | nil => rfl
  | cons p rest ih =>
    cases rest with
    | nil => rfl
    | cons q rest' => simp [legsOf, ih]

theorem legsOf_get (g : Geod ℝ) (wps : List (ℝ × ℝ)) (k : Nat) (hk : k + 1 < wps.length) :
    (legsOf g wps)[k]? = some (legAt g wps k) := by
  induction wps generalizing k with
  | nil => simp at hk
  | cons p rest ih =>
    cases rest with
    | nil => simp at hk
    | cons q rest' =>
      cases k with
      | zero => simp [legsOf, legAt]
      | succ k =>
        simp only [legsOf, List.getElem?_cons_succ]
        rw [ih k (by simpa using hk)]
        simp [legAt]

theorem bisect_cons (x : ℝ) (xs : List ℝ) (d : ℝ) :
    bisectLeft (x :: xs) d = if x < d then bisectLeft xs d + 1 else 0 := by
  unfold bisectLeft
  by_cases h : x < d <;> simp [List.takeWhile, h]

theorem bisect_le_length (xs : List ℝ) (d : ℝ) : bisectLeft xs d ≤ xs.length := by
  induction xs with
  | nil => simp [bisectLeft]
  | cons x xs ih =>
    rw [bisect_cons]
    split_ifs
    · simp; omega
    · simp

theorem bisect_before (xs : List ℝ) (d : ℝ) (i : Nat) (hi : i < bisectLeft xs d) : nth xs i < d := by
  induction xs generalizing i with
  | nil => simp [bisectLeft] at hi
  | cons x xs ih =>
    rw [bisect_cons] at hi
    split_ifs at hi with hx
    · cases i with
      | zero => simpa using hx
      | succ i => simpa using ih i (by omega)
    · omega

theorem bisect_at (xs : List ℝ) (d : ℝ) (h : bisectLeft xs d < xs.length) : ¬ nth xs (bisectLeft xs d) < d := by
  induction xs with
  | nil => simp at h
  | cons x xs ih =>
    rw [bisect_cons] at h ⊢
    split_ifs at h ⊢ with hx
    · simpa using ih (by simpa using h)
    · simpa using hx


/-! ### the track built by `mkTrack` -/

theorem nth_map_of_get (l : List (InvR ℝ)) (f : InvR ℝ → ℝ) (k : Nat) (v : InvR ℝ) (h : l[k]? = some v) :
    nth (l.map f) k = f v := by
  simp [nth, List.getD, h]

section
variable (g : Geod ℝ) (wps : List (ℝ × ℝ)) (ov : Bool)

theorem mk_idx_length (hn : 1 ≤ wps.length) : (mkTrack g wps ov).idx.length = wps.length := by
  simp [mkTrack]; omega

theorem mk_azs_length : (mkTrack g wps ov).azs.length = wps.length - 1 := by
  simp [mkTrack]

@[simp] theorem mk_wps : (mkTrack g wps ov).wps = wps := rfl
@[simp] theorem mk_overstep : (mkTrack g wps ov).overstep = ov := rfl

theorem mk_idx_zero : nth (mkTrack g wps ov).idx 0 = 0 := by
  simp [mkTrack]

theorem mk_idx_succ (k : Nat) (hk : k + 1 < wps.length) :
    nth (mkTrack g wps ov).idx (k + 1) = nth (mkTrack g wps ov).idx k + (legAt g wps k).dist := by
  simp only [mkTrack]
  rw [accumulate_succ _ _ k (by simp; omega), nth_map_of_get _ _ k _ (legsOf_get g wps k hk)]

theorem mk_azs (k : Nat) (hk : k + 1 < wps.length) :
    nth (mkTrack g wps ov).azs k = (legAt g wps k).az12 := by
  simp only [mkTrack]
  exact nth_map_of_get _ _ k _ (legsOf_get g wps k hk)

theorem mk_total : total (mkTrack g wps ov) = ((legsOf g wps).map (·.dist)).sum := by
  simp [total, mkTrack, accumulate_last]

theorem mk_total_eq_last (hn : 1 ≤ wps.length) :
    total (mkTrack g wps ov) = nth (mkTrack g wps ov).idx (wps.length - 1) := by
  simp [total, lastOf, mk_idx_length g wps ov hn]

theorem mk_inRange (_hn : 1 ≤ wps.length) (d : ℝ) :
    inRange (mkTrack g wps ov) d = true ↔ 0 ≤ d ∧ d ≤ total (mkTrack g wps ov) := by
  unfold inRange
  rw [mk_idx_zero]
  simp [total]
end

/-! ### geodesic laws, per leg -/

/-- position part of a forward solution. -/
def FwdR.pos (f : FwdR ℝ) : ℝ × ℝ := (f.lon, f.lat)

/-- What the proofs need from the geodesic calculator for the leg `a → b`.  On the WGS-84 ellipsoid these hold for
    every pair that is not (nearly) antipodal; in the Manhattan world they hold for axis-aligned legs. -/
structure LegLaws (g : Geod ℝ) (a b : ℝ × ℝ) : Prop where
  /-- lengths are non-negative -/
  dist_nonneg : 0 ≤ (g.inv a.1 a.2 b.1 b.2).dist
  /-- going nowhere stays at the start -/
  fwd_zero : (g.fwd a.1 a.2 (g.inv a.1 a.2 b.1 b.2).az12 0).pos = a
  /-- following the initial azimuth for the full length arrives at `b` -/
  fwd_full : (g.fwd a.1 a.2 (g.inv a.1 a.2 b.1 b.2).az12 (g.inv a.1 a.2 b.1 b.2).dist).pos = b
  /-- a point `s` along the leg is at geodesic distance `s` from its start -/
  dist_along : ∀ s, 0 ≤ s → s ≤ (g.inv a.1 a.2 b.1 b.2).dist →
    (g.inv a.1 a.2 (g.fwd a.1 a.2 (g.inv a.1 a.2 b.1 b.2).az12 s).lon
                   (g.fwd a.1 a.2 (g.inv a.1 a.2 b.1 b.2).az12 s).lat).dist = s
  /-- beyond `b` the same geodesic is the one leaving `b` in direction (back azimuth + 180°) -/
  prolong : ∀ s, (g.inv a.1 a.2 b.1 b.2).dist ≤ s →
    (g.fwd b.1 b.2 ((g.inv a.1 a.2 b.1 b.2).az21 + 180) (s - (g.inv a.1 a.2 b.1 b.2).dist)).pos
      = (g.fwd a.1 a.2 (g.inv a.1 a.2 b.1 b.2).az12 s).pos

/-- the laws for every leg of a waypoint list. -/
def TrackLaws (g : Geod ℝ) (wps : List (ℝ × ℝ)) : Prop :=
  ∀ k, k + 1 < wps.length → LegLaws g (nthP wps k) (nthP wps (k + 1))

end Aeic.Geo
