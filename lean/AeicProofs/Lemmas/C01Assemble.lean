/-
  C01 helper lemmas, part 2: projections of `assembleCore`, option/TM arithmetic, component non-negativity.
-/
import AeicProofs.Lemmas.C01Lemmas

namespace Aeic.Emissions

variable {c : Cfg} {f : Fuel ℝ} {t : TrajIn ℝ} {l : LtoIn ℝ} {apu : Option (ApuIn ℝ)} {k : AcClass} {inv : Emissions.Inv ℝ}

theorem assemble_ok (h : assemble c f t l apu k = .ok inv) :
    inv = assembleCore c f t l apu k ∧ failure c f t apu = none := by
  unfold assemble at h
  split at h
  · simp at h
  · rename_i hf
    simp only [Except.ok.injEq] at h
    exact ⟨h.symm, hf⟩

theorem addOpt_real (acc : ℝ) (o : Option ℝ) : addOpt acc o = acc + o.getD 0 := by
  cases o <;> simp [addOpt]

theorem core_trajEm : (assembleCore c f t l apu k).trajEm = trajEm c f l.ff t := rfl
theorem core_trajIdx : (assembleCore c f t l apu k).trajIdx = trajIdx c f l.ff t := rfl
theorem core_ltoEm : (assembleCore c f t l apu k).ltoEm = ltoEm c f l := rfl
theorem core_ltoIdx : (assembleCore c f t l apu k).ltoIdx = ltoIdx c f l := rfl
theorem core_burn : (assembleCore c f t l apu k).burn = fuelBurn t.fm := rfl
theorem core_trajFuel : (assembleCore c f t l apu k).trajFuel = trajFuel c t := rfl
theorem core_ltoFuel : (assembleCore c f t l apu k).ltoFuel = ltoFuel c l := rfl
theorem core_apuEm : (assembleCore c f t l apu k).apuEm = invApuEm c f l apu := rfl
theorem core_apuIdx : (assembleCore c f t l apu k).apuIdx = invApuIdx c f l apu := rfl
theorem core_apuFuel : (assembleCore c f t l apu k).apuFuel = invApuFuel c apu := rfl
theorem core_gseEm : (assembleCore c f t l apu k).gseEm = invGseEm c f k := rfl
theorem core_gseFuel : (assembleCore c f t l apu k).gseFuel = invGseFuel c f k := rfl
theorem core_lifecycle : (assembleCore c f t l apu k).lifecycle = (invLifecycle c f t).getD 0 := by
  simp [assembleCore]
theorem core_totalFuel : (assembleCore c f t l apu k).totalFuel =
    trajFuel c t + tmSum (ltoFuel c l) + (invApuFuel c apu).getD 0 + (invGseFuel c f k).getD 0 := by
  simp only [assembleCore, invTotalFuel, addOpt_real, TM_sum_real]

theorem apu_switch_retest (s : Sp) :
    (if c.apu then invApuEm c f l apu s else none) = invApuEm c f l apu s := by
  unfold invApuEm svOfOpt apuOn; cases c.apu <;> simp

theorem gse_switch_retest (s : Sp) :
    (if c.gse then invGseEm c f k s else none) = invGseEm c f k s := by
  unfold invGseEm; cases c.gse <;> simp [SV.empty]

theorem core_total (s : Sp) : (assembleCore c f t l apu k).total s =
    some (((trajEm c f l.ff t s).map List.sum).getD 0 + ((ltoEm c f l s).map tmSum).getD 0
      + (invApuEm c f l apu s).getD 0 + (invGseEm c f k s).getD 0
      + (if s = Sp.CO2 then (invLifecycle c f t).getD 0 else 0)) := by
  have e1 : ((trajEm c f l.ff t s).map suml) = (trajEm c f l.ff t s).map List.sum := by
    cases trajEm c f l.ff t s <;> simp [suml_eq_sum]
  have e2 : ((ltoEm c f l s).map TM.sum) = (ltoEm c f l s).map tmSum := by
    cases ltoEm c f l s <;> simp [TM_sum_real]
  show invTotal c f t l apu k s = _
  simp only [invTotal, sumTotal, addOpt_real, zero_real, e1, e2, apu_switch_retest, gse_switch_retest]
  by_cases hs : s = Sp.CO2
  · simp [hs]
  · simp [hs]

/-! ### TM helpers -/

def tmNonneg (v : TM ℝ) : Prop := 0 ≤ v.idle ∧ 0 ≤ v.approach ∧ 0 ≤ v.climb ∧ 0 ≤ v.takeoff

theorem tmNonneg_mul {a b : TM ℝ} (ha : tmNonneg a) (hb : tmNonneg b) : tmNonneg (TM.mul a b) := by
  obtain ⟨a1, a2, a3, a4⟩ := ha
  obtain ⟨b1, b2, b3, b4⟩ := hb
  exact ⟨mul_nonneg a1 b1, mul_nonneg a2 b2, mul_nonneg a3 b3, mul_nonneg a4 b4⟩

theorem tmNonneg_modeZero {a : TM ℝ} (ha : tmNonneg a) : tmNonneg (modeZero c a) := by
  obtain ⟨a1, a2, a3, a4⟩ := ha
  unfold modeZero TM.zeroAC
  split_ifs
  · exact ⟨a1, a2, a3, a4⟩
  · simp only [zero_real]; exact ⟨a1, le_refl _, le_refl _, a4⟩

theorem tmNonneg_const {x : ℝ} (h : 0 ≤ x) : tmNonneg (TM.const x) := ⟨h, h, h, h⟩

theorem tmNonneg_sum {a : TM ℝ} (ha : tmNonneg a) : 0 ≤ tmSum a := by
  obtain ⟨a1, a2, a3, a4⟩ := ha
  unfold tmSum; linarith

theorem ltoTIM_nonneg : tmNonneg (ltoTIM : TM ℝ) := by
  rw [ltoTIM_val]; unfold tmNonneg; norm_num

theorem specNO_nonneg : tmNonneg (specNO : TM ℝ) :=
  ⟨(spec_nonneg .idle).1, (spec_nonneg .approach).1, (spec_nonneg .climb).1, (spec_nonneg .takeoff).1⟩
theorem specNO2_nonneg : tmNonneg (specNO2 : TM ℝ) :=
  ⟨(spec_nonneg .idle).2.1, (spec_nonneg .approach).2.1, (spec_nonneg .climb).2.1, (spec_nonneg .takeoff).2.1⟩
theorem specHONO_nonneg : tmNonneg (specHONO : TM ℝ) :=
  ⟨(spec_nonneg .idle).2.2, (spec_nonneg .approach).2.2, (spec_nonneg .climb).2.2, (spec_nonneg .takeoff).2.2⟩

/-! ### constant-EI species (CO₂, H₂O, SOₓ): amount = EI × fuel, summed -/

theorem sum_window_const (lo hi : Nat) (v : ℝ) (fm : List ℝ) :
    (window lo hi (mulList (List.replicate fm.length v) (fuelBurn fm))).sum = v * (pySlice lo hi (fuelBurn fm)).sum := by
  have hb := fuelBurn_length fm
  rw [sum_window, ← hb, mulList_replicate]
  simp only [pySlice, ← List.map_take, ← List.map_drop, sum_map_mul_left]

theorem tmSum_const_mul (v : ℝ) : tmSum (TM.mul (modeZero c (TM.const v)) (ltoFuel c l)) = v * tmSum (ltoFuel c l) := by
  cases hm : c.ltoMode <;>
    simp [ltoFuel, modeZero, hm, TM.zeroAC, TM.mul, TM.zipWith, TM.const, tmSum] <;> ring

theorem trajFuel_real : trajFuel c t
    = (pySlice (sliceLo c t.fm.length t.nClimb) (sliceHi c t.fm.length t.nDescent) (fuelBurn t.fm)).sum := by
  simp only [trajFuel, suml_eq_sum]

/-- 1 for the modes the LTO component keeps under the configured accounting mode, 0 for the zeroed ones -/
noncomputable def keep (c : Cfg) (md : Mode) : ℝ :=
  if c.ltoMode then 1 else match md with | .idle | .takeoff => 1 | _ => 0

theorem get_mul (a b : TM ℝ) (md : Mode) : (TM.mul a b).get md = a.get md * b.get md := by
  cases md <;> rfl

theorem get_const (v : ℝ) (md : Mode) : (TM.const v).get md = v := by
  cases md <;> rfl

theorem get_modeZero (v : TM ℝ) (md : Mode) : (modeZero c v).get md = keep c md * v.get md := by
  cases hm : c.ltoMode <;> cases md <;> simp [modeZero, keep, hm, TM.zeroAC, TM.get]

/-! ### the window of a flight, split predicates -/

/-- the window the trajectory component accounts for (Python-normalised slice bounds) -/
abbrev winLo (c : Cfg) (t : TrajIn ℝ) : Nat := sliceLo c t.fm.length t.nClimb
abbrev winHi (c : Cfg) (t : TrajIn ℝ) : Nat := sliceHi c t.fm.length t.nDescent

/-- NO + NO₂ + HONO = NOx, pointwise along the trajectory -/
def NoxSplitList (m : SV (List ℝ)) : Prop :=
  ∃ nox no no2 hono, m .NOx = some nox ∧ m .NO = some no ∧ m .NO2 = some no2 ∧ m .HONO = some hono
    ∧ addList (addList no no2) hono = nox
/-- NO + NO₂ + HONO = NOx in each thrust mode -/
def NoxSplitTM (m : SV (TM ℝ)) : Prop :=
  ∃ nox no no2 hono : TM ℝ, m .NOx = some nox ∧ m .NO = some no ∧ m .NO2 = some no2 ∧ m .HONO = some hono
    ∧ ∀ md, no.get md + no2.get md + hono.get md = nox.get md
def NoxSplit (m : SV ℝ) : Prop :=
  ∃ nox no no2 hono : ℝ, m .NOx = some nox ∧ m .NO = some no ∧ m .NO2 = some no2 ∧ m .HONO = some hono
    ∧ no + no2 + hono = nox
/-- SO₂ + SO₄ = SOx -/
def SoxSplitList (m : SV (List ℝ)) : Prop :=
  ∃ sox so2 so4, m .SOx = some sox ∧ m .SO2 = some so2 ∧ m .SO4 = some so4 ∧ addList so2 so4 = sox
def SoxSplitTM (m : SV (TM ℝ)) : Prop :=
  ∃ sox so2 so4 : TM ℝ, m .SOx = some sox ∧ m .SO2 = some so2 ∧ m .SO4 = some so4
    ∧ ∀ md, so2.get md + so4.get md = sox.get md
def SoxSplit (m : SV ℝ) : Prop :=
  ∃ sox so2 so4 : ℝ, m .SOx = some sox ∧ m .SO2 = some so2 ∧ m .SO4 = some so4 ∧ so2 + so4 = sox

/-! ### non-negativity of the components -/

/-- hypotheses of `C01.amounts_nonneg`: what the inputs must satisfy for every amount to be ≥ 0 -/
structure NonnegInputs (c : Cfg) (f : Fuel ℝ) (t : TrajIn ℝ) (l : LtoIn ℝ) (apu : Option (ApuIn ℝ)) : Prop where
  fm : t.fm.Pairwise (· ≥ ·)
  tnox : ∀ x ∈ t.nox, 0 ≤ x
  thc : ∀ x ∈ t.hc, 0 ≤ x
  tco : ∀ x ∈ t.co, 0 ≤ x
  tpmvol : ∀ x ∈ t.pmvol, 0 ≤ x
  tocic : ∀ x ∈ t.ocic, 0 ≤ x
  tpmnvol : ∀ x ∈ t.pmnvol, 0 ≤ x
  tgmd : ∀ x ∈ t.gmd, 0 ≤ x
  tpmnvolN : ∀ x ∈ t.pmnvolN, 0 ≤ x
  energy : 0 ≤ f.energy
  eiH2O : 0 ≤ f.eiH2O
  eiCO2 : 0 ≤ f.eiCO2
  lifecycle : ∀ x ∈ f.lifecycle, 0 ≤ x
  sulfur : 0 ≤ f.sulfur
  yield0 : 0 ≤ f.sulfateYield
  yield1 : f.sulfateYield ≤ 1
  lff : tmNonneg l.ff
  lnox : tmNonneg l.nox
  lhc : tmNonneg l.hc
  lco : tmNonneg l.co
  lpmvol : tmNonneg l.pmvol
  locic : tmNonneg l.ocic
  lpmnvol : tmNonneg l.pmnvol
  /-- APU data non-negative, and the carbon mass balance leaves a non-negative CO₂ index -/
  apu : ∀ a ∈ apu, 0 ≤ a.fuel ∧ 0 ≤ a.nox ∧ 0 ≤ a.hc ∧ 0 ≤ a.co ∧ 0 ≤ apuCO2 (ltoIdx c f l) a

theorem constEI_nonneg (H : NonnegInputs c f t l apu) (s : Sp) (v : ℝ) (h : constEI c f s = some v) : 0 ≤ v := by
  have hso := eiSO_nonneg f H.sulfur H.yield0 H.yield1
  cases s <;> simp only [constEI] at h <;> (try split_ifs at h) <;> simp at h <;> subst h
  · exact H.eiCO2
  · exact H.eiH2O
  · unfold eiSOx; linarith [hso.1, hso.2]
  · exact hso.1
  · exact hso.2

theorem replicate_nonneg (n : Nat) (v : ℝ) (h : 0 ≤ v) : ∀ x ∈ List.replicate n v, 0 ≤ x := by
  intro x hx
  rw [List.mem_replicate] at hx
  rw [hx.2]; exact h

theorem trajEI_nonneg (H : NonnegInputs c f t l apu) (ff : TM ℝ) (s : Sp) (e : List ℝ)
    (h : trajEI c f ff t s = some e) : ∀ x ∈ e, 0 ≤ x := by
  have hc := constEI_nonneg H
  have key : ∀ s', (trajEI c f ff t s' = (constEI c f s').map (List.replicate t.fm.length)) →
      trajEI c f ff t s' = some e → ∀ x ∈ e, 0 ≤ x := by
    intro s' h1 h2
    rw [h1] at h2
    cases hv : constEI c f s' with
    | none => simp [hv] at h2
    | some v =>
      simp only [hv, Option.map_some, Option.some.injEq] at h2
      subst h2
      exact replicate_nonneg _ _ (hc s' v hv)
  cases s
  case CO2 => exact key _ rfl h
  case H2O => exact key _ rfl h
  case SOx => exact key _ rfl h
  case SO2 => exact key _ rfl h
  case SO4 => exact key _ rfl h
  all_goals (simp only [trajEI] at h; split_ifs at h; simp only [Option.some.injEq] at h; subst h)
  · exact H.thc
  · exact H.tco
  · exact H.tnox
  · exact speciate_nonneg _ (fun m => (spec_nonneg m).1) _ _ H.tnox
  · exact speciate_nonneg _ (fun m => (spec_nonneg m).2.1) _ _ H.tnox
  · exact speciate_nonneg _ (fun m => (spec_nonneg m).2.2) _ _ H.tnox
  · exact H.tpmnvol
  · exact H.tgmd
  · exact H.tpmvol
  · exact H.tocic
  · exact H.tpmnvolN

theorem ltoEI_nonneg (H : NonnegInputs c f t l apu) (s : Sp) (v : TM ℝ) (h : ltoEI c f l s = some v) : tmNonneg v := by
  have hc := constEI_nonneg H
  have key : ∀ s', (ltoEI c f l s' = (constEI c f s').map TM.const) → ltoEI c f l s' = some v → tmNonneg v := by
    intro s' h1 h2
    rw [h1] at h2
    cases hv : constEI c f s' with
    | none => simp [hv] at h2
    | some w =>
      simp only [hv, Option.map_some, Option.some.injEq] at h2
      subst h2
      exact tmNonneg_const (hc s' w hv)
  cases s
  case CO2 => exact key _ rfl h
  case H2O => exact key _ rfl h
  case SOx => exact key _ rfl h
  case SO2 => exact key _ rfl h
  case SO4 => exact key _ rfl h
  case PMnvolN => simp [ltoEI] at h
  case PMnvolGMD =>
    simp only [ltoEI, Option.some.injEq] at h; subst h
    exact tmNonneg_const (by simp)
  all_goals (simp only [ltoEI] at h; split_ifs at h; simp only [Option.some.injEq] at h; subst h)
  · exact H.lhc
  · exact H.lco
  · exact H.lnox
  · exact tmNonneg_mul H.lnox specNO_nonneg
  · exact tmNonneg_mul H.lnox specNO2_nonneg
  · exact tmNonneg_mul H.lnox specHONO_nonneg
  · exact H.lpmnvol
  · exact H.lpmvol
  · exact H.locic

theorem ltoFuel_nonneg (H : NonnegInputs c f t l apu) : tmNonneg (ltoFuel c l) :=
  tmNonneg_modeZero (tmNonneg_mul ltoTIM_nonneg H.lff)

theorem ltoIdx_nonneg (H : NonnegInputs c f t l apu) (s : Sp) (v : TM ℝ) (h : ltoIdx c f l s = some v) : tmNonneg v := by
  simp only [ltoIdx] at h
  cases he : ltoEI c f l s with
  | none => simp [he] at h
  | some e =>
    simp only [he, Option.map_some, Option.some.injEq] at h
    subst h
    exact tmNonneg_modeZero (ltoEI_nonneg H s e he)

theorem apuSulfur_nonneg (H : NonnegInputs c f t l apu) (a : ApuIn ℝ) (s : Sp) :
    0 ≤ apuSulfur (ltoIdx c f l) a s := by
  unfold apuSulfur
  split_ifs
  · cases hv : ltoIdx c f l s with
    | none => simp
    | some v => simpa using (ltoIdx_nonneg H s v hv).1
  · simp

theorem apuPM_nonneg (a : ApuIn ℝ) (ltoI : SV (TM ℝ)) : 0 ≤ apuPMnvol ltoI a ∧ 0 ≤ apuPMvol ltoI a := by
  have h0 : 0 ≤ apuPM10 ltoI a := by
    unfold apuPM10; rw [smax_real, zero_real]; exact le_max_right _ _
  constructor
  · unfold apuPMnvol; simp only [lit_real]; norm_num; positivity
  · unfold apuPMvol apuPMnvol; simp only [lit_real]; norm_num; nlinarith

theorem apuIdx_nonneg (H : NonnegInputs c f t l apu) (a : ApuIn ℝ) (ha : a ∈ apu) (s : Sp) (x : ℝ)
    (h : apuIdx c f (ltoIdx c f l) a s = some x) : 0 ≤ x := by
  obtain ⟨hf, hn, hh, hco, hc2⟩ := H.apu a ha
  have hs := apuSulfur_nonneg H a
  have hp := apuPM_nonneg a (ltoIdx c f l)
  cases s <;> simp only [apuIdx] at h <;> (try split_ifs at h) <;> simp only [Option.some.injEq] at h <;> subst h
  · exact hc2
  · exact H.eiH2O
  · exact hh
  · exact hco
  · exact hn
  · exact mul_nonneg hn (spec_nonneg .takeoff).1
  · exact mul_nonneg hn (spec_nonneg .takeoff).2.1
  · exact mul_nonneg hn (spec_nonneg .takeoff).2.2
  · exact hp.1
  · simp
  · exact hp.2
  · simp
  · exact add_nonneg (hs _) (hs _)
  · exact hs _
  · exact hs _
  · simp

theorem gseNominal_nonneg (k : AcClass) :
    0 ≤ (gseNominal k : GseNominal ℝ).co2 ∧ 0 ≤ (gseNominal k : GseNominal ℝ).nox ∧ 0 ≤ (gseNominal k : GseNominal ℝ).hc
    ∧ 0 ≤ (gseNominal k : GseNominal ℝ).co ∧ (3 : ℝ) / 10000 ≤ (gseNominal k : GseNominal ℝ).pm := by
  cases k <;> simp only [gseNominal, lit_real] <;> norm_num

theorem gseFuel_nonneg (H : NonnegInputs c f t l apu) (k : AcClass) : 0 ≤ gseFuelBurn f k := by
  unfold gseFuelBurn
  exact div_nonneg (gseNominal_nonneg k).1 H.eiCO2

theorem gseEm_nonneg (H : NonnegInputs c f t l apu) (k : AcClass) (s : Sp) (x : ℝ) (h : gseEm f k s = some x) : 0 ≤ x := by
  obtain ⟨h1, h2, h3, h4, h5⟩ := gseNominal_nonneg (k := k)
  have hf := gseFuel_nonneg H k
  cases s <;> simp only [gseEm, Option.some.injEq] at h <;> subst h
  · exact h1
  · exact mul_nonneg H.eiH2O hf
  · exact h3
  · exact h4
  · exact h2
  · simp only [lit_real]; norm_num; positivity
  · simp only [lit_real]; norm_num; positivity
  · simp only [lit_real]; norm_num; positivity
  · rw [gseSO4_val]; simp only [lit_real]; norm_num; linarith
  · simp
  · rw [gseSO4_val]; simp only [lit_real]; norm_num; linarith
  · simp
  · rw [gseSO4_val, gseSO2_val]; norm_num
  · rw [gseSO2_val]; norm_num
  · rw [gseSO4_val]; norm_num
  · simp

/-! ### component sums of the split species (for the split of the reported totals) -/

theorem sum_addList (a b : List ℝ) (h : a.length = b.length) : (addList a b).sum = a.sum + b.sum := by
  induction a generalizing b with
  | nil =>
    cases b with
    | nil => simp [addList]
    | cons y b => simp at h
  | cons x a ih =>
    cases b with
    | nil => simp at h
    | cons y b =>
      have h' : a.length = b.length := by simpa using h
      have := ih b h'
      simp only [addList] at this ⊢
      simp only [List.zipWith_cons_cons, List.sum_cons, this]; ring

theorem addList_length (a b : List ℝ) : (addList a b).length = min a.length b.length := by
  simp [addList]

/-- Σ over the trajectory of a component's amount, 0 when the species is absent -/
noncomputable def trajTotal (m : SV (List ℝ)) (s : Sp) : ℝ := ((m s).map List.sum).getD 0
noncomputable def ltoTotal (m : SV (TM ℝ)) (s : Sp) : ℝ := ((m s).map tmSum).getD 0

theorem traj_nox_total (ff : TM ℝ) (hl : t.sls.length = t.nox.length) :
    trajTotal (trajEm c f ff t) .NO + trajTotal (trajEm c f ff t) .NO2 + trajTotal (trajEm c f ff t) .HONO
      = trajTotal (trajEm c f ff t) .NOx := by
  have hc : (t.sls.map (thrustCat ff)).length = t.nox.length := by simpa using hl
  by_cases hn : c.nox = .bffm2
  · have key := congrArg List.sum (show
        addList (addList
          (window (winLo c t) (winHi c t) (mulList (speciate specNO t.nox (t.sls.map (thrustCat ff))) (fuelBurn t.fm)))
          (window (winLo c t) (winHi c t) (mulList (speciate specNO2 t.nox (t.sls.map (thrustCat ff))) (fuelBurn t.fm))))
          (window (winLo c t) (winHi c t) (mulList (speciate specHONO t.nox (t.sls.map (thrustCat ff))) (fuelBurn t.fm)))
        = window (winLo c t) (winHi c t) (mulList t.nox (fuelBurn t.fm)) from by
      rw [window_addList, window_addList, mulList_addList, mulList_addList, speciate_sum _ _ hc])
    rw [sum_addList, sum_addList] at key
    · simp only [trajTotal, trajEm, trajEI, hn, if_true, Option.map_some, Option.getD_some]
      exact key
    · simp [window_length, mulList, speciate, hc]
    · simp [addList_length, window_length, mulList, speciate, hc]
  · simp [trajTotal, trajEm, trajEI, hn]

theorem traj_sox_total (ff : TM ℝ) :
    trajTotal (trajEm c f ff t) .SO2 + trajTotal (trajEm c f ff t) .SO4 = trajTotal (trajEm c f ff t) .SOx := by
  cases hs : c.sox
  · simp [trajTotal, trajEm, trajEI, constEI, hs]
  · simp only [trajTotal, trajEm, trajEI, constEI, hs, if_true, Option.map_some, Option.getD_some]
    rw [sum_window_const, sum_window_const, sum_window_const, ← eiSOx_split]; ring

theorem tmSum_eq (v : TM ℝ) : tmSum v = v.get .idle + v.get .approach + v.get .climb + v.get .takeoff := rfl

theorem lto_nox_total :
    ltoTotal (ltoEm c f l) .NO + ltoTotal (ltoEm c f l) .NO2 + ltoTotal (ltoEm c f l) .HONO
      = ltoTotal (ltoEm c f l) .NOx := by
  by_cases hn : c.nox = .none
  · simp [ltoTotal, ltoEm, ltoIdx, ltoEI, hn]
  · have hn' : (c.nox != NoxM.none) = true := by simpa using hn
    simp only [ltoTotal, ltoEm, ltoIdx, ltoEI, hn', if_true, Option.map_some, Option.getD_some, tmSum_eq, get_mul,
      get_modeZero]
    linear_combination (keep c .idle * l.nox.get .idle * (ltoFuel c l).get .idle) * spec_sum_one .idle
      + (keep c .approach * l.nox.get .approach * (ltoFuel c l).get .approach) * spec_sum_one .approach
      + (keep c .climb * l.nox.get .climb * (ltoFuel c l).get .climb) * spec_sum_one .climb
      + (keep c .takeoff * l.nox.get .takeoff * (ltoFuel c l).get .takeoff) * spec_sum_one .takeoff

theorem lto_sox_total :
    ltoTotal (ltoEm c f l) .SO2 + ltoTotal (ltoEm c f l) .SO4 = ltoTotal (ltoEm c f l) .SOx := by
  cases hs : c.sox
  · simp [ltoTotal, ltoEm, ltoIdx, ltoEI, constEI, hs]
  · simp only [ltoTotal, ltoEm, ltoIdx, ltoEI, constEI, hs, if_true, Option.map_some, Option.getD_some, tmSum_eq,
      get_mul, get_modeZero, get_const, ← eiSOx_split]
    ring

theorem apu_nox_total :
    (invApuEm c f l apu .NO).getD 0 + (invApuEm c f l apu .NO2).getD 0 + (invApuEm c f l apu .HONO).getD 0
      = (invApuEm c f l apu .NOx).getD 0 := by
  unfold invApuEm svOfOpt
  cases apuOn c apu with
  | none => simp
  | some a =>
    have s1 := spec_sum_one .takeoff
    simp only [TM.get] at s1
    simp only [Option.bind_some, apuEm, apuIdx, Option.map_some, Option.getD_some]
    linear_combination (a.nox * apuFuelBurn a) * s1

theorem apu_sox_total :
    (invApuEm c f l apu .SO2).getD 0 + (invApuEm c f l apu .SO4).getD 0 = (invApuEm c f l apu .SOx).getD 0 := by
  unfold invApuEm svOfOpt
  cases apuOn c apu with
  | none => simp
  | some a =>
    simp only [Option.bind_some, apuEm, apuIdx, Option.map_some, Option.getD_some]
    ring

theorem gse_nox_total :
    (invGseEm c f k .NO).getD 0 + (invGseEm c f k .NO2).getD 0 + (invGseEm c f k .HONO).getD 0
      = (invGseEm c f k .NOx).getD 0 := by
  unfold invGseEm
  cases c.gse
  · simp [SV.empty]
  · simp only [if_true, gseEm, Option.getD_some, lit_real]; ring

theorem gse_sox_total :
    (invGseEm c f k .SO2).getD 0 + (invGseEm c f k .SO4).getD 0 = (invGseEm c f k .SOx).getD 0 := by
  unfold invGseEm
  cases c.gse
  · simp [SV.empty]
  · simp only [if_true, gseEm, Option.getD_some]; ring

/-! ### a concrete flight for the non-vacuity examples (numbers of the repo's DummyPerformanceModel / DummyTrajectory) -/

def exCfg (lto : Bool) : Cfg :=
  { ltoMode := lto, co2 := true, h2o := true, sox := true, nox := .bffm2, hc := true, co := true, pmvol := true,
    pmnvol := .scope11, apu := true, gse := true, lifecycle := true }

noncomputable def exFuel : Fuel ℝ :=
  { energy := 43.2, eiH2O := 1233.3865, eiCO2 := 3155.6, lifecycle := some 89, sulfur := 600, sulfateYield := 0.02 }

noncomputable def exTraj : TrajIn ℝ :=
  { fm := [2000, 1994, 1987.5, 1975, 1960, 1945], nClimb := 2, nDescent := 2,
    nox := [10, 11, 12, 13, 12, 11], sls := [0.3, 0.35, 0.55, 0.65, 0.5, 0.32],
    hc := [1, 1, 1, 1, 1, 1], co := [2, 2, 2, 2, 2, 2], pmvol := [0.1, 0.1, 0.1, 0.1, 0.1, 0.1],
    ocic := [0.05, 0.05, 0.05, 0.05, 0.05, 0.05], pmnvol := [0.01, 0.01, 0.01, 0.01, 0.01, 0.01],
    gmd := [0, 0, 0, 0, 0, 0], pmnvolN := [] }

noncomputable def exLto : LtoIn ℝ :=
  { ff := ⟨0.25, 0.5, 0.9, 1.2⟩, nox := ⟨8, 12, 32, 40⟩, hc := ⟨4, 3, 1.5, 1⟩, co := ⟨20, 10, 3, 2⟩,
    pmvol := ⟨0.1, 0.1, 0.1, 0.1⟩, ocic := ⟨0.05, 0.05, 0.05, 0.05⟩, pmnvol := ⟨0.02, 0.02, 0.03, 0.03⟩ }

noncomputable def exApu : ApuIn ℝ := { fuel := 0.03, pm10 := 0.4, nox := 0.05, hc := 0.02, co := 0.03 }

theorem ex_ok (lto : Bool) :
    assemble (exCfg lto) exFuel exTraj exLto (some exApu) .wide
      = .ok (assembleCore (exCfg lto) exFuel exTraj exLto (some exApu) .wide) := by
  have : failure (exCfg lto) exFuel exTraj (some exApu) = none := by
    simp [failure, exCfg, exFuel, exTraj, lifecycleOn]
  simp [assemble, this]

theorem ex_nonneg (lto : Bool) : NonnegInputs (exCfg lto) exFuel exTraj exLto (some exApu) where
  fm := by simp only [exTraj, List.pairwise_cons]; norm_num
  tnox := by simp only [exTraj]; intro x hx; simp at hx; rcases hx with rfl | rfl | rfl | rfl | rfl | rfl <;> norm_num
  thc := by simp only [exTraj]; intro x hx; simp at hx; rw [hx]; norm_num
  tco := by simp only [exTraj]; intro x hx; simp at hx; rw [hx]; norm_num
  tpmvol := by simp only [exTraj]; intro x hx; simp at hx; rw [hx]; norm_num
  tocic := by simp only [exTraj]; intro x hx; simp at hx; rw [hx]; norm_num
  tpmnvol := by simp only [exTraj]; intro x hx; simp at hx; rw [hx]; norm_num
  tgmd := by simp only [exTraj]; intro x hx; simp at hx; rw [hx]
  tpmnvolN := by simp [exTraj]
  energy := by simp only [exFuel]; norm_num
  eiH2O := by simp only [exFuel]; norm_num
  eiCO2 := by simp only [exFuel]; norm_num
  lifecycle := by simp [exFuel]
  sulfur := by simp only [exFuel]; norm_num
  yield0 := by simp only [exFuel]; norm_num
  yield1 := by simp only [exFuel]; norm_num
  lff := by simp only [exLto, tmNonneg]; norm_num
  lnox := by simp only [exLto, tmNonneg]; norm_num
  lhc := by simp only [exLto, tmNonneg]; norm_num
  lco := by simp only [exLto, tmNonneg]; norm_num
  lpmvol := by simp only [exLto, tmNonneg]; norm_num
  locic := by simp only [exLto, tmNonneg]; norm_num
  lpmnvol := by simp only [exLto, tmNonneg]; norm_num
  apu := by
    intro a ha
    simp only [Option.mem_def, Option.some.injEq] at ha
    subst ha
    refine ⟨by simp only [exApu]; norm_num, by simp only [exApu]; norm_num, by simp only [exApu]; norm_num,
      by simp only [exApu]; norm_num, ?_⟩
    have hrun : apuRunning exApu = true := by simp [apuRunning, exApu]; norm_num
    have hs4 : apuSulfur (ltoIdx (exCfg lto) exFuel exLto) exApu .SO4 = 0.036 := by
      simp only [apuSulfur, hrun, if_true, ltoIdx, ltoEI, constEI, exCfg, Option.map_some, Option.getD_some]
      cases lto <;> simp [modeZero, TM.zeroAC, TM.const, eiSO4, exFuel] <;> norm_num
    have hpm : apuPM10 (ltoIdx (exCfg lto) exFuel exLto) exApu = 0.364 := by
      unfold apuPM10; rw [hs4, smax_real, zero_real]; simp only [exApu]; norm_num
    unfold apuCO2 apuPMvol apuPMnvol
    rw [hrun, if_pos rfl, hpm]
    simp only [exApu, lit_real]; norm_num

end Aeic.Emissions
