/-
  Helper lemmas for C13: day ranges, schedule expansion, airport lookup, `add` / `importAll` invariants.
-/
import AeicModel.Schedule

set_option linter.unusedSectionVars false

namespace Aeic.Schedule

/-! ### day ranges -/

theorem mem_dayRange (a b n : Int) : n ∈ dayRange a b ↔ a ≤ n ∧ n ≤ b := by
  unfold dayRange
  simp only [List.mem_map, List.mem_range]
  constructor
  · rintro ⟨i, hi, rfl⟩; omega
  · intro h; exact ⟨(n - a).toNat, by omega, by omega⟩

theorem dayRange_sorted (a b : Int) : (dayRange a b).Pairwise (· < ·) := by
  unfold dayRange
  rw [List.pairwise_map]
  exact (List.pairwise_lt_range).imp (by intro i j h; omega)

theorem dayRange_length (a b : Int) : (dayRange a b).length = (b - a + 1).toNat := by
  simp [dayRange]

theorem mem_operatingDays (a b : Int) (days : List Int) (n : Int) :
    n ∈ operatingDays a b days ↔ a ≤ n ∧ n ≤ b ∧ isoWeekday n ∈ days := by
  simp [operatingDays, mem_dayRange, and_assoc]

theorem operatingDays_sorted (a b : Int) (days : List Int) : (operatingDays a b days).Pairwise (· < ·) :=
  (dayRange_sorted a b).filter _

theorem misordered_fid (offO offD : Int → Int) (t : Times) (fid : Nat) (n : Int) :
    (mkSched offO offD t fid n).misordered = (mkSched offO offD t 0 n).misordered := rfl

theorem misordered_iff (offO offD : Int → Int) (t : Times) (fid : Nat) (n : Int) :
    (mkSched offO offD t fid n).misordered = true ↔
      localArr t n - offD (localArr t n) < localDep t n - offO (localDep t n) := by
  simp only [mkSched, Sched.misordered]
  exact decide_eq_true_iff

theorem mem_scheduledDays (offO offD : Int → Int) (a b : Int) (days : List Int) (t : Times) (n : Int) :
    n ∈ scheduledDays offO offD a b days t ↔
      a ≤ n ∧ n ≤ b ∧ isoWeekday n ∈ days ∧
        localDep t n - offO (localDep t n) ≤ localArr t n - offD (localArr t n) := by
  unfold scheduledDays
  rw [List.mem_filter, mem_operatingDays]
  have := misordered_iff offO offD t 0 n
  cases h : (mkSched offO offD t 0 n).misordered
  · have h' : ¬ (localArr t n - offD (localArr t n) < localDep t n - offO (localDep t n)) := by
      intro c; rw [this.mpr c] at h; cases h
    simp; omega
  · have h' := this.mp h
    simp; omega

theorem scheduledDays_sorted (offO offD : Int → Int) (a b : Int) (days : List Int) (t : Times) :
    (scheduledDays offO offD a b days t).Pairwise (· < ·) :=
  (operatingDays_sorted a b days).filter _

theorem expand_eq_map (offO offD : Int → Int) (a b : Int) (days : List Int) (t : Times) (fid : Nat) :
    expand offO offD a b days t fid = (scheduledDays offO offD a b days t).map (mkSched offO offD t fid) := by
  unfold expand candidates scheduledDays
  rw [List.filter_map]
  rfl

theorem expand_fid (offO offD : Int → Int) (a b : Int) (days : List Int) (t : Times) (fid : Nat) :
    ∀ s ∈ expand offO offD a b days t fid, s.flightId = fid := by
  intro s hs
  rw [expand_eq_map] at hs
  obtain ⟨n, _, rfl⟩ := List.mem_map.mp hs
  rfl

theorem expand_not_misordered (offO offD : Int → Int) (a b : Int) (days : List Int) (t : Times) (fid : Nat) :
    ∀ s ∈ expand offO offD a b days t fid, s.dep ≤ s.arr := by
  intro s hs
  unfold expand at hs
  have := (List.mem_filter.mp hs).2
  simp [Sched.misordered] at this
  exact this

/-- a mis-ordering warning is due exactly when an operating day was dropped -/
theorem any_misordered_iff (offO offD : Int → Int) (a b : Int) (days : List Int) (t : Times) (fid : Nat) :
    (candidates offO offD a b days t fid).any (fun s => s.misordered) = true ↔
      ∃ n, n ∈ operatingDays a b days ∧ n ∉ scheduledDays offO offD a b days t := by
  unfold candidates scheduledDays
  simp only [List.any_map, List.any_eq_true, List.mem_filter, Function.comp]
  constructor
  · rintro ⟨n, hn, hm⟩
    refine ⟨n, hn, ?_⟩
    rintro ⟨_, h2⟩
    rw [misordered_fid] at hm
    simp [hm] at h2
  · rintro ⟨n, hn, hnot⟩
    refine ⟨n, hn, ?_⟩
    rw [misordered_fid]
    cases h : (mkSched offO offD t 0 n).misordered
    · exact absurd ⟨hn, by simp [h]⟩ hnot
    · rfl


/-! ### airports -/

section Airports
variable {α : Type}

/-- every airport row of the database came from the static table -/
def AirportsFromEnv (env : Env α) (st : State α) : Prop :=
  ∀ a ∈ st.airports, env.lookup a.code = some (a.lat, a.lon, a.tz)

theorem getOrAdd_tables (env : Env α) (st : State α) (line : Nat) (code : String) :
    (getOrAddAirport env st line code).1.flights = st.flights ∧
    (getOrAddAirport env st line code).1.scheds = st.scheds := by
  unfold getOrAddAirport
  split
  · exact ⟨rfl, rfl⟩
  · split <;> exact ⟨rfl, rfl⟩

theorem getOrAdd_afe (env : Env α) (st : State α) (line : Nat) (code : String) (h : AirportsFromEnv env st) :
    AirportsFromEnv env (getOrAddAirport env st line code).1 := by
  unfold getOrAddAirport
  split
  · exact h
  · split
    · exact h
    · rename_i lat lon tz hl
      intro a ha
      simp only [List.mem_append, List.mem_singleton] at ha
      rcases ha with ha | ha
      · exact h a ha
      · subst ha; exact hl

theorem getOrAdd_none (env : Env α) (st : State α) (line : Nat) (code : String) (h : AirportsFromEnv env st)
    (hl : env.lookup code = none) : (getOrAddAirport env st line code).2 = none := by
  unfold getOrAddAirport
  split
  · rename_i a hf
    have hm := List.mem_of_find?_eq_some hf
    have hc := List.find?_some hf
    have : a.code = code := by simpa using hc
    have := h a hm
    rw [‹a.code = code›, hl] at this
    cases this
  · split
    · rfl
    · rename_i lat lon tz hl'
      rw [hl] at hl'; cases hl'

theorem getOrAdd_some (env : Env α) (st : State α) (line : Nat) (code : String) (h : AirportsFromEnv env st)
    {lat lon : α} {tz : String} (hl : env.lookup code = some (lat, lon, tz)) :
    ∃ a, (getOrAddAirport env st line code).2 = some a ∧ a.code = code ∧ a.lat = lat ∧ a.lon = lon ∧ a.tz = tz := by
  unfold getOrAddAirport
  split
  · rename_i a hf
    have hm := List.mem_of_find?_eq_some hf
    have hc := List.find?_some hf
    have hcode : a.code = code := by simpa using hc
    have := h a hm
    rw [hcode, hl] at this
    injection this with this
    injection this with h1 this
    injection this with h2 h3
    exact ⟨a, rfl, hcode, h1.symm, h2.symm, h3.symm⟩
  · split
    · rename_i hl'
      rw [hl] at hl'; cases hl'
    · rename_i lat' lon' tz' hl'
      rw [hl] at hl'
      injection hl' with this
      injection this with h1 this
      injection this with h2 h3
      exact ⟨_, rfl, rfl, h1.symm, h2.symm, h3.symm⟩

/-- bookkeeping invariant of the tables -/
structure WF (st : State α) : Prop where
  ids : st.flights.map (fun f => f.id) = List.range' 1 st.flights.length
  refs : ∀ s ∈ st.scheds, 1 ≤ s.flightId ∧ s.flightId ≤ st.flights.length
  counts : ∀ f ∈ st.flights, f.count = (st.scheds.filter (fun s => s.flightId == f.id)).length

theorem WF.id_le {st : State α} (h : WF st) : ∀ f ∈ st.flights, 1 ≤ f.id ∧ f.id ≤ st.flights.length := by
  intro f hf
  have : f.id ∈ st.flights.map (fun f => f.id) := List.mem_map.mpr ⟨f, hf, rfl⟩
  rw [h.ids, List.mem_range'_1] at this
  omega

theorem WF.empty : WF ({} : State α) :=
  ⟨rfl, (by intro s hs; cases hs), (by intro f hf; cases hf)⟩

end Airports

/-! ### the stateless decision of `add` -/

section Add
variable {α : Type} [Add α] [Sub α] [Mul α] [Div α] [Neg α] [LT α] [LE α]
  [DecidableLT α] [DecidableLE α] [Lit α]

/-- what `add` decides, as a function of the static tables only -/
def addDecision (v : Variant) (env : Env α) (r : Row) : Outcome :=
  match env.lookup r.depapt, env.lookup r.arrapt with
  | some (olat, olon, _), some (dlat, dlon, _) =>
    match distanceCheck (gcKmC v env olat olon dlat dlon) (givenKm r : α) with
    | .ok => .imported
    | .zero => .zeroDistance
    | .suspicious => .suspiciousDistance
  | _, _ => .unknownAirport

/-- what happens to a CSV row, as a function of the static tables only -/
def rowDecision (v : Variant) (env : Env α) (line : Nat) (raw : Raw) : Outcome :=
  match rowFilter raw with
  | some reason => reason
  | none =>
    match parseRaw line raw with
    | none => .malformed
    | some r => addDecision v env r

theorem rowInstances_eq (env : Env α) (r : Row) (otz dtz : String) (fid : Nat) :
    rowInstances env r otz dtz fid =
      expand (env.off otz) (env.off dtz) (epochDay (effFrom env.year r)) (epochDay (effTo env.year r)) r.days
        (rowTimes r) fid := rfl

/-- full description of one successful or skipped `add` on a database whose airports came from the static table -/
theorem add_spec (v : Variant) (env : Env α) (st : State α) (r : Row)
    (hafe : AirportsFromEnv env st) (hv : v.rawRange = false) :
    ∃ st', add v env st r = .ok (st', addDecision v env r) ∧ AirportsFromEnv env st' ∧
      (addDecision v env r ≠ .imported → st'.flights = st.flights ∧ st'.scheds = st.scheds) ∧
      (addDecision v env r = .imported →
        ∃ o d : AirportRow α,
          env.lookup r.depapt = some (o.lat, o.lon, o.tz) ∧ env.lookup r.arrapt = some (d.lat, d.lon, d.tz) ∧
          o.code = r.depapt ∧ d.code = r.arrapt ∧
          st'.flights = st.flights ++
            [rowFlight env r o d (st.flights.length + 1) (rowInstances env r o.tz d.tz (st.flights.length + 1)).length] ∧
          st'.scheds = st.scheds ++ rowInstances env r o.tz d.tz (st.flights.length + 1) ∧
          (st'.warnings.any (fun w => w.1 == r.line && w.2.1 == WarnKind.timeMisordering) = true ↔
             (rowCandidates env r o.tz d.tz (st.flights.length + 1)).any (fun s => s.misordered) = true ∨
             (getOrAddAirport env (getOrAddAirport env st r.line r.depapt).1 r.line r.arrapt).1.warnings.any
               (fun w => w.1 == r.line && w.2.1 == WarnKind.timeMisordering) = true)) := by
  have t1 := getOrAdd_tables env st r.line r.depapt
  have a1 := getOrAdd_afe env st r.line r.depapt hafe
  have t2 := getOrAdd_tables env (getOrAddAirport env st r.line r.depapt).1 r.line r.arrapt
  have a2 := getOrAdd_afe env (getOrAddAirport env st r.line r.depapt).1 r.line r.arrapt a1
  unfold add addDecision
  simp only [hv, Bool.false_and, Bool.false_eq_true, if_false]
  cases hlo : env.lookup r.depapt with
  | none =>
    rw [getOrAdd_none env st r.line r.depapt hafe hlo]
    exact ⟨_, rfl, a2, fun _ => ⟨t2.1.trans t1.1, t2.2.trans t1.2⟩, fun h => by cases h⟩
  | some co =>
    obtain ⟨olat, olon, otz⟩ := co
    obtain ⟨o, ho, hoc, holat, holon, hotz⟩ := getOrAdd_some env st r.line r.depapt hafe hlo
    rw [ho]
    cases hld : env.lookup r.arrapt with
    | none =>
      rw [getOrAdd_none env _ r.line r.arrapt a1 hld]
      exact ⟨_, rfl, a2, fun _ => ⟨t2.1.trans t1.1, t2.2.trans t1.2⟩, fun h => by cases h⟩
    | some cd =>
      obtain ⟨dlat, dlon, dtz⟩ := cd
      obtain ⟨d, hd, hdc, hdlat, hdlon, hdtz⟩ := getOrAdd_some env _ r.line r.arrapt a1 hld
      rw [hd]
      simp only [gcKm, holat, holon, hdlat, hdlon]
      cases hdc' : distanceCheck (gcKmC v env olat olon dlat dlon) (givenKm r : α) with
      | zero =>
        exact ⟨_, rfl, a2, fun _ => ⟨t2.1.trans t1.1, t2.2.trans t1.2⟩, fun h => by cases h⟩
      | suspicious =>
        exact ⟨_, rfl, a2, fun _ => ⟨t2.1.trans t1.1, t2.2.trans t1.2⟩, fun h => by cases h⟩
      | ok =>
        refine ⟨_, rfl, a2, fun h => absurd rfl h, fun _ => ⟨o, d, ?_, ?_, hoc, hdc, ?_, ?_, ?_⟩⟩
        · rw [holat, holon, hotz]
        · rw [hdlat, hdlon, hdtz]
        · simp only [t2.1, t1.1]
        · simp only [t2.1, t1.1, t2.2, t1.2]
        · simp only [t2.1, t1.1]
          split
          · rename_i hany
            simp [hany, setWarn, List.any_append]
          · rename_i hany
            simp [hany]


theorem WF.of_eq {st st' : State α} (h : WF st) (hf : st'.flights = st.flights) (hs : st'.scheds = st.scheds) :
    WF st' := by
  refine ⟨?_, ?_, ?_⟩
  · rw [hf]; exact h.ids
  · rw [hf, hs]; exact h.refs
  · rw [hf, hs]; exact h.counts

theorem rowInstances_fid (env : Env α) (r : Row) (otz dtz : String) (fid : Nat) :
    ∀ s ∈ rowInstances env r otz dtz fid, s.flightId = fid := by
  rw [rowInstances_eq]; exact expand_fid _ _ _ _ _ _ _

/-- appending one flight with a fresh id and its instances keeps the bookkeeping invariant -/
theorem WF.append {st st' : State α} (h : WF st) (f : Flight α) (inst : List Sched)
    (hid : f.id = st.flights.length + 1) (hcount : f.count = inst.length)
    (hinst : ∀ s ∈ inst, s.flightId = st.flights.length + 1)
    (hf : st'.flights = st.flights ++ [f]) (hs : st'.scheds = st.scheds ++ inst) : WF st' := by
  refine ⟨?_, ?_, ?_⟩
  · rw [hf, List.map_append, h.ids, List.length_append, List.length_singleton, List.range'_concat]
    simp [hid]; omega
  · rw [hf, hs]
    intro s hs'
    rw [List.length_append, List.length_singleton]
    rcases List.mem_append.mp hs' with h1 | h1
    · have := h.refs s h1; omega
    · have := hinst s h1; omega
  · rw [hf, hs]
    intro g hg
    rw [List.filter_append, List.length_append]
    rcases List.mem_append.mp hg with h1 | h1
    · have hle := h.id_le g h1
      have e : inst.filter (fun s => s.flightId == g.id) = [] := by
        rw [List.filter_eq_nil_iff]
        intro s hs'
        have := hinst s hs'
        simp; omega
      rw [e, h.counts g h1]; simp
    · have hg' : g = f := by simpa using h1
      subst hg'
      have e1 : st.scheds.filter (fun s => s.flightId == g.id) = [] := by
        rw [List.filter_eq_nil_iff]
        intro s hs'
        have := h.refs s hs'
        simp; omega
      have e2 : inst.filter (fun s => s.flightId == g.id) = inst := by
        rw [List.filter_eq_self]
        intro s hs'
        have := hinst s hs'
        simp; omega
      rw [e1, e2, hcount]; simp

theorem add_wf (v : Variant) (env : Env α) (st : State α) (r : Row)
    (hafe : AirportsFromEnv env st) (hv : v.rawRange = false) (hwf : WF st) :
    ∀ st' out, add v env st r = .ok (st', out) → WF st' := by
  intro st' out h
  obtain ⟨st1, h1, _, hskip, himp⟩ := add_spec v env st r hafe hv
  rw [h1] at h
  injection h with h
  injection h with h2 h3
  subst h2
  by_cases hd : addDecision v env r = .imported
  · obtain ⟨o, d, _, _, _, _, hf, hs, _⟩ := himp hd
    exact hwf.append _ _ rfl rfl (rowInstances_fid env r o.tz d.tz _) hf hs
  · obtain ⟨hf, hs⟩ := hskip hd
    exact hwf.of_eq hf hs

/-- one CSV row: always succeeds (repaired range handling), outcome is the stateless decision -/
theorem importRow_spec (v : Variant) (env : Env α) (st : State α) (line : Nat) (raw : Raw)
    (hafe : AirportsFromEnv env st) (hv : v.rawRange = false) (hwf : WF st) :
    ∃ st', importRow v env st line raw = .ok (st', rowDecision v env line raw) ∧
      AirportsFromEnv env st' ∧ WF st' ∧
      (rowDecision v env line raw ≠ .imported → st'.flights = st.flights ∧ st'.scheds = st.scheds) ∧
      (rowDecision v env line raw = .imported → st'.flights.length = st.flights.length + 1) := by
  unfold importRow rowDecision
  cases hfil : rowFilter raw with
  | some reason =>
    refine ⟨st, rfl, hafe, hwf, fun _ => ⟨rfl, rfl⟩, ?_⟩
    intro h
    -- the filter never answers `imported`
    exfalso
    unfold rowFilter at hfil
    simp only at h
    subst h
    repeat' split at hfil
    all_goals simp at hfil
  | none =>
    cases hp : parseRaw line raw with
    | none => exact ⟨st, rfl, hafe, hwf, fun _ => ⟨rfl, rfl⟩, fun h => by cases h⟩
    | some r =>
      obtain ⟨st1, h1, ha1, hskip, himp⟩ := add_spec v env st r hafe hv
      refine ⟨st1, h1, ha1, add_wf v env st r hafe hv hwf _ _ h1, hskip, ?_⟩
      intro hd
      obtain ⟨o, d, _, _, _, _, hf, _, _⟩ := himp hd
      rw [hf]; simp

/-- a whole file: never raises, outcomes are the stateless per-row decisions, invariants hold at the end, and the
number of flight records grows by exactly the number of imported rows -/
theorem importAll_spec (v : Variant) (env : Env α) (hv : v.rawRange = false) :
    ∀ (rows : List (Nat × Raw)) (st : State α), AirportsFromEnv env st → WF st →
      ∃ st', importAll v env st rows = .ok (st', rows.map (fun p => rowDecision v env p.1 p.2)) ∧
        AirportsFromEnv env st' ∧ WF st' ∧
        st'.flights.length = st.flights.length +
          (rows.filter (fun p => rowDecision v env p.1 p.2 == .imported)).length := by
  intro rows
  induction rows with
  | nil => intro st ha hw; exact ⟨st, rfl, ha, hw, by simp⟩
  | cons p rest ih =>
    intro st ha hw
    obtain ⟨line, raw⟩ := p
    obtain ⟨st1, h1, ha1, hw1, hskip, himp⟩ := importRow_spec v env st line raw ha hv hw
    obtain ⟨st2, h2, ha2, hw2, hlen⟩ := ih st1 ha1 hw1
    refine ⟨st2, ?_, ha2, hw2, ?_⟩
    · simp only [importAll, h1, h2, List.map_cons]
    · rw [hlen, List.filter_cons]
      by_cases hd : rowDecision v env line raw = .imported
      · rw [himp hd]; simp [hd]; omega
      · rw [(hskip hd).1]; simp [hd]

end Add

end Aeic.Schedule
