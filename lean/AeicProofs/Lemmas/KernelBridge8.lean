/-
  Kernel bridge, part 8: the antimeridian split and the share arithmetic of `gridding/grid.py` (C04 / C05).
  The fourth translator generation reads `Gridder._dateline_crossing_latitude`, `_calculate_segment_lengths` (the geodesic
  distance left uninterpreted: a function argument `dist`), `_dateline_split_first_segment` / `_dateline_split_second_segment`
  (`np.concatenate`, `np.array([…])`, element reads at the crossing index; the tuples of state / integrated arrays read with one
  generic element), `crosses_dateline`, and the two statements of `_cell_idxs_touched_by_trajectory_with_state_and_integrated_vars`
  that compute the share of every piece and the pieces of an integrated value.  Here the generated definitions are proved equal,
  over ℝ, to the hand-written model of `AeicModel/Grid.lean` (`crossLat`, `splitFirst`, `splitSecond`, `crossSign`, `fractions`),
  which is what the conservation and placement theorems of C04 / C05 are about.  Helper lemmas only.
-/
import AeicProofs.RealInst
import AeicModel.Generated.Kernels
import AeicModel.Grid

set_option linter.unusedTactic false
set_option linter.unreachableTactic false
set_option linter.unusedSimpArgs false
set_option linter.unusedVariables false
set_option linter.unnecessarySeqFocus false

namespace KernelBridge8
open Aeic Aeic.Grid

/-- the double `math.pi`, as the translator writes `np.pi` -/
noncomputable def PI : ℝ := (Lit.dec 3141592653589793 15 : ℝ)

theorem getAt_eq (x : List ℝ) (k : Nat) : Vec.getAt x k = Grid.getAt x k := rfl

/-- the crossing sign as numpy holds it (`np.sign(diff) * cross`, an element of a float array) -/
def sgn (neg : Bool) : Int := if neg then -1 else 1

theorem sgn_cast (neg : Bool) : ((sgn neg : Int) : ℝ) = if neg then (-1 : ℝ) else 1 := by
  cases neg <;> simp [sgn]

/-- `_dateline_crossing_latitude` as the source text says it = the model's (repaired) `crossLat` at the points of the crossing
    segment, for both crossing directions -/
theorem cross_lat (lats lons : List ℝ) (idx : Nat) (neg : Bool) :
    Kern.grid_cross_lat lats lons idx ((sgn neg : Int) : ℝ)
      = crossLat Rules.repaired PI (sgn neg) (Grid.getAt lats idx) (Grid.getAt lons idx) (Grid.getAt lats (idx + 1))
          (Grid.getAt lons (idx + 1)) := by
  cases neg <;>
    (simp only [Kern.grid_cross_lat, crossLat, edgeLon, Rules.repaired, sgn, nonzero, getAt_eq, PI, lit_real, zero_real, if_true,
      Bool.false_eq_true, if_false] <;> norm_num <;> (try ring_nf) <;> (try (split_ifs <;> first | rfl | ring_nf | (exfalso; simp_all))))

/-- `_calculate_segment_lengths`: the two part lengths are the distances from the start of the crossing segment to the inserted
    point on one side of the antimeridian and from the inserted point on the other side to the end of the segment (`l1`, `l2` of
    the model's `splitParts`), the total is their sum -/
theorem seg_lengths (dist : ℝ → ℝ → ℝ → ℝ → ℝ) (lats lons : List ℝ) (idx : Nat) (neg : Bool) :
    let latc := Kern.grid_cross_lat lats lons idx ((sgn neg : Int) : ℝ)
    Kern.grid_seg_len_first dist lats lons idx ((sgn neg : Int) : ℝ)
        = dist (Grid.getAt lats idx) (Grid.getAt lons idx) latc (edgeLon PI (sgn neg)) ∧
    Kern.grid_seg_len_second dist lats lons idx ((sgn neg : Int) : ℝ)
        = dist latc (-(edgeLon PI (sgn neg))) (Grid.getAt lats (idx + 1)) (Grid.getAt lons (idx + 1)) ∧
    Kern.grid_seg_len_total dist lats lons idx ((sgn neg : Int) : ℝ)
        = Kern.grid_seg_len_first dist lats lons idx ((sgn neg : Int) : ℝ)
          + Kern.grid_seg_len_second dist lats lons idx ((sgn neg : Int) : ℝ) := by
  cases neg <;>
    (refine ⟨?_, ?_, ?_⟩ <;>
      simp only [Kern.grid_seg_len_first, Kern.grid_seg_len_second, Kern.grid_seg_len_total, Kern.grid_cross_lat, edgeLon, sgn,
        getAt_eq, PI, lit_real, Bool.false_eq_true, if_false, if_true] <;> norm_num)

/-- the trajectory the split functions are called with: one generic state array, one generic integrated array -/
def trajOf (lats lons alts times sv iv : List ℝ) : Traj ℝ := ⟨lats, lons, some alts, some times, [sv], [iv]⟩

/-- `_dateline_split_first_segment`: every returned array is the corresponding field of the model's `splitFirst`, with the
    crossing latitude the source computes -/
theorem split_first (lats lons alts times sv iv : List ℝ) (idx : Nat) (neg : Bool) (l1 ltot : ℝ) :
    let s := ((sgn neg : Int) : ℝ)
    let m := splitFirst PI (sgn neg) idx (Kern.grid_cross_lat lats lons idx s) l1 ltot (trajOf lats lons alts times sv iv)
    m.lats = Kern.grid_split_first_lats lats lons alts times sv iv idx s l1 ltot ∧
    m.lons = Kern.grid_split_first_lons lats lons alts times sv iv idx s l1 ltot ∧
    m.alts = some (Kern.grid_split_first_alts lats lons alts times sv iv idx s l1 ltot) ∧
    m.times = some (Kern.grid_split_first_times lats lons alts times sv iv idx s l1 ltot) ∧
    m.state = [Kern.grid_split_first_state lats lons alts times sv iv idx s l1 ltot] ∧
    m.integ = [Kern.grid_split_first_integ lats lons alts times sv iv idx s l1 ltot] := by
  cases neg <;>
    (refine ⟨?_, ?_, ?_, ?_, ?_, ?_⟩ <;>
      simp only [splitFirst, trajOf, Kern.grid_split_first_lats, Kern.grid_split_first_lons, Kern.grid_split_first_alts,
        Kern.grid_split_first_times, Kern.grid_split_first_state, Kern.grid_split_first_integ, Kern.grid_cross_lat, edgeLon, sgn, splitShare, nonzero,
        Bool.or_eq_true, decide_eq_true_eq, zero_real, getAt_eq, PI, lit_real, Option.map, List.map, Bool.false_eq_true, if_false, if_true] <;> norm_num)

/-- `_dateline_split_second_segment` likewise -/
theorem split_second (lats lons alts times sv iv : List ℝ) (idx : Nat) (neg : Bool) (l2 ltot : ℝ) :
    let s := ((sgn neg : Int) : ℝ)
    let m := splitSecond PI (sgn neg) idx (Kern.grid_cross_lat lats lons idx s) l2 ltot (trajOf lats lons alts times sv iv)
    m.lats = Kern.grid_split_second_lats lats lons alts times sv iv idx s l2 ltot ∧
    m.lons = Kern.grid_split_second_lons lats lons alts times sv iv idx s l2 ltot ∧
    m.alts = some (Kern.grid_split_second_alts lats lons alts times sv iv idx s l2 ltot) ∧
    m.times = some (Kern.grid_split_second_times lats lons alts times sv iv idx s l2 ltot) ∧
    m.state = [Kern.grid_split_second_state lats lons alts times sv iv idx s l2 ltot] ∧
    m.integ = [Kern.grid_split_second_integ lats lons alts times sv iv idx s l2 ltot] := by
  cases neg <;>
    (refine ⟨?_, ?_, ?_, ?_, ?_, ?_⟩ <;>
      simp only [splitSecond, trajOf, Kern.grid_split_second_lats, Kern.grid_split_second_lons, Kern.grid_split_second_alts,
        Kern.grid_split_second_times, Kern.grid_split_second_state, Kern.grid_split_second_integ, Kern.grid_cross_lat, edgeLon, sgn, splitShare, nonzero,
        Bool.or_eq_true, decide_eq_true_eq, zero_real, getAt_eq, PI, lit_real, Option.map, List.map, List.singleton_append, Bool.false_eq_true, if_false, if_true] <;> norm_num)

/-- `crosses_dateline` for one pair of longitudes: the float the source computes is the model's integer sign -/
theorem cross_sign (A : String → ℝ) (lon1 lon2 : ℝ) : Kern.grid_cross_sign A lon1 lon2 = ((crossSign PI lon1 lon2 : Int) : ℝ) := by
  simp only [Kern.grid_cross_sign, crossSign, ssign, PI, lit_real, zero_real, one_real]
  split_ifs <;> (try norm_num) <;> (try (exfalso; linarith))

/-! ## shares of the pieces -/

theorem zipWith3_replicate (f : ℝ → ℝ → ℝ → ℝ) (a c : ℝ) (subs : List ℝ) :
    Vec.zipWith3 f (List.replicate subs.length a) subs (List.replicate subs.length c) = subs.map (fun s => f a s c) := by
  induction subs with
  | nil => rfl
  | cons s ss ih => simp only [List.length_cons, List.replicate_succ, Vec.zipWith3, List.map_cons, ih]

theorem zipWith3_append (f : ℝ → ℝ → ℝ → ℝ) (a1 b1 c1 a2 b2 c2 : List ℝ) (hab : a1.length = b1.length) (hbc : b1.length = c1.length) :
    Vec.zipWith3 f (a1 ++ a2) (b1 ++ b2) (c1 ++ c2) = Vec.zipWith3 f a1 b1 c1 ++ Vec.zipWith3 f a2 b2 c2 := by
  induction a1 generalizing b1 c1 with
  | nil =>
    have hb : b1 = [] := List.length_eq_zero_iff.mp hab.symm
    subst hb
    have hc : c1 = [] := List.length_eq_zero_iff.mp hbc.symm
    subst hc
    rfl
  | cons x xs ih =>
    match b1, c1, hab, hbc with
    | y :: ys, z :: zs, hab, hbc =>
      simp only [List.cons_append, Vec.zipWith3]
      rw [ih ys zs (by simpa using hab) (by simpa using hbc)]

theorem zipWith3_map_third (f : ℝ → ℝ → ℝ → ℝ) (g : ℝ → ℝ) (a b c : List ℝ) :
    Vec.zipWith3 f a b (c.map g) = Vec.zipWith3 (fun x y z => f x y (g z)) a b c := by
  induction a generalizing b c with
  | nil => cases b <;> cases c <;> rfl
  | cons x xs ih =>
    cases b with
    | nil => cases c <;> rfl
    | cons y ys =>
      cases c with
      | nil => rfl
      | cons z zs => simp only [List.map_cons, Vec.zipWith3, ih]

theorem zipWith3_congr (f g : ℝ → ℝ → ℝ → ℝ) (h : ∀ x y z, f x y z = g x y z) (a b c : List ℝ) :
    Vec.zipWith3 f a b c = Vec.zipWith3 g a b c := by
  have : f = g := by funext x y z; exact h x y z
  rw [this]

/-- the share of one piece: its length over the segment length, or an equal share of a segment without length -/
noncomputable def share (dseg s c : ℝ) : ℝ := if dseg < 0 ∨ 0 < dseg then s / dseg else 1 / c

/-- the share statement of the source, whatever way it is written (`np.divide(…, out=1.0 / counts, where=…)` as an expression, or
    the equal-share array built first and `np.divide` storing into it), is the pointwise `share` of the three flat arrays -/
theorem grid_fractions_eq (subs segrep cntrep : List ℝ) :
    Kern.grid_fractions subs segrep cntrep = Vec.zipWith3 share segrep subs cntrep := by
  simp only [Kern.grid_fractions, zipWith3_map_third]
  apply zipWith3_congr
  intro x y z
  simp only [share, lit_real]
  norm_num

/-- the share statement of the source for ONE segment (the arrays `np.repeat` builds hold the segment length and the piece count
    once per piece) = the model's (repaired) `fractions` -/
theorem fractions_one (dseg : ℝ) (count : Nat) (subs : List ℝ) :
    Kern.grid_fractions subs (List.replicate subs.length dseg) (List.replicate subs.length (ofNat count : ℝ))
      = fractions Rules.repaired dseg count subs := by
  rw [grid_fractions_eq, zipWith3_replicate]
  simp only [share, fractions, nonzero, Rules.repaired, if_true, lit_real, zero_real, one_real, ofNat, Bool.or_eq_true, decide_eq_true_eq]
  all_goals (apply List.map_congr_left; intro s _; norm_num)

/-- one segment as the flat arrays see it: its length, its number of pieces, the lengths of its pieces -/
structure SegData where
  dseg : ℝ
  count : Nat
  subs : List ℝ

/-- … and for the WHOLE trajectory: on the flat arrays of all pieces of all segments (`np.repeat` of the segment lengths and of
    the piece counts, the piece lengths after `np.delete`) the share statement of the source gives, segment after segment, the
    model's `fractions` — for any number of segments and pieces -/
theorem fractions_flat (segs : List SegData) :
    Kern.grid_fractions (segs.flatMap (·.subs)) (segs.flatMap (fun s => List.replicate s.subs.length s.dseg))
        (segs.flatMap (fun s => List.replicate s.subs.length (ofNat s.count : ℝ)))
      = segs.flatMap (fun s => fractions Rules.repaired s.dseg s.count s.subs) := by
  rw [grid_fractions_eq]
  induction segs with
  | nil => rfl
  | cons s ss ih =>
    simp only [List.flatMap_cons]
    have h := fractions_one s.dseg s.count s.subs
    rw [grid_fractions_eq] at h
    rw [zipWith3_append _ _ _ _ _ _ _ (by simp) (by simp), h, ih]

/-- the pieces of an integrated value: the repeated value times the share, element by element (the model's `gridPlain.integ`) -/
theorem integ_values (ivrep fr : List ℝ) : Kern.grid_integ_values ivrep fr = List.zipWith (fun x f => x * f) ivrep fr := rfl

end KernelBridge8
