/-
  C14 helper lemmas, part 4: structure of `conditionsOf` and the query-level documented predicate.
-/
import AeicProofs.Lemmas.C14Eval

set_option linter.unusedSimpArgs false
set_option linter.unusedVariables false
set_option linter.unusedSectionVars false

namespace Aeic.Query

section
variable {α : Type} [LT α] [LE α] [DecidableLT α] [DecidableLE α] [Lit α]

/-- documented meaning of a query on a joined row: the filter, the inclusive date range on the UTC day
    of departure, sampling (given the draw for this instance) and every-nth-day selection counted
    from the start date or, without one, from the first day in the database -/
def specQuery (db : DB α) (draw : Nat → α) (q : QSpec α) (r : JRow α) : Prop :=
  (∀ f, q.filter = some f → specFilter db f r) ∧
  (∀ d, q.startDay = some d → d ≤ r.s.dep / 86400) ∧
  (∀ d, q.endDay = some d → r.s.dep / 86400 ≤ d) ∧
  (q.kind = .query →
    (∀ p, q.sample = some p → draw r.s.id < p) ∧
    (∀ n, q.everyNth = some n → 1 < n →
      (∀ d, q.startDay = some d → n ∣ r.s.day - d) ∧
      (q.startDay = none → ∃ m, minDay db = some m ∧ n ∣ r.s.day - m)))

theorem toConds_ok {fixed : Bool} {f : Filter α} {cs : List (Cond α)} (h : f.toConds fixed = .ok cs) :
    normalizeOk f = true ∧ cs = filterConds f := by
  unfold Filter.toConds at h
  cases hn : normalizeOk f with
  | false => simp [hn] at h
  | true =>
    simp only [hn, Bool.not_true, Bool.false_eq_true, if_false] at h
    split at h
    · cases h
    · cases h; exact ⟨rfl, rfl⟩

theorem toConds_fixed (f : Filter α) :
    f.toConds true = if normalizeOk f then .ok (filterConds f) else .error .invalidSpatial := by
  unfold Filter.toConds
  cases normalizeOk f <;> simp

/-- the conditions of a successful build, piece by piece -/
theorem conditionsOf_ok {q : QSpec α} {cs : List (Cond α)} (h : conditionsOf true q = .ok cs) :
    validate q = .ok () ∧
    ∃ fc, (match q.filter with | some f => f.toConds true | none => .ok []) = .ok fc ∧
      cs = fc ++ optCond (fun d => Cond.depFrom (d * 86400)) q.startDay
              ++ optCond (fun d => Cond.depBefore ((d + 1) * 86400)) q.endDay ++ extraConds q := by
  unfold conditionsOf commonConds at h
  cases hv : validate q with
  | error e => simp [hv, bind, Except.bind] at h
  | ok u =>
    cases hq : q.filter with
    | none =>
      simp only [hv, hq, bind, Except.bind, Except.ok.injEq] at h
      exact ⟨rfl, [], rfl, by simpa using h.symm⟩
    | some f =>
      cases hf : f.toConds true with
      | error e => simp [hv, hq, hf, bind, Except.bind] at h
      | ok fc =>
        simp only [hv, hq, hf, bind, Except.bind, Except.ok.injEq] at h
        exact ⟨rfl, fc, hf, by simpa using h.symm⟩

theorem semAll_extraConds (db : DB α) (draw : Nat → α) (q : QSpec α) (s : Sched) (f : Flight α) :
    semAll db draw (extraConds q) s f = true ↔
      (q.kind = .query →
        (∀ p, q.sample = some p → draw s.id < p) ∧
        (∀ n, q.everyNth = some n → 1 < n →
          (∀ d, q.startDay = some d → n ∣ s.day - d) ∧
          (q.startDay = none → ∃ m, minDay db = some m ∧ n ∣ s.day - m))) := by
  unfold extraConds
  cases hk : q.kind with
  | frequent => simp [semAll]
  | count => simp [semAll]
  | query =>
    simp only [semAll_append, Bool.and_eq_true, semAll_optCond, forall_const]
    refine and_congr (by simp [sem]) ?_
    cases hn : q.everyNth with
    | none => simp [semAll]
    | some n =>
      by_cases h1 : n > 1
      · have h1' : 1 < n := h1
        cases hs : q.startDay with
        | none =>
          cases hm : minDay db with
          | none => simp [semAll, sem, h1, hm, h1']
          | some m =>
            simp only [h1, if_true, semAll, List.all_cons, List.all_nil, Bool.and_true, sem, hm,
              tmod_beq_zero_iff]
            simp [h1']
        | some d =>
          simp only [h1, if_true, semAll, List.all_cons, List.all_nil, Bool.and_true, sem,
            tmod_beq_zero_iff]
          simp [h1']
      · have h1' : ¬ 1 < n := h1
        simp [semAll, h1, h1']

/-- **SQL meaning of all conditions of a query = documented predicate** -/
theorem conds_sem_iff_specQuery {db : DB α} (hu : AirportIdsUnique db) (draw : Nat → α) {q : QSpec α}
    {cs : List (Cond α)} (hc : conditionsOf true q = .ok cs)
    (hne : ∀ f, q.filter = some f → noEmptySpatial f) {r : JRow α} (hj : JoinOk db r) :
    semAll db draw cs r.s r.f = true ↔ specQuery db draw q r := by
  obtain ⟨_, fc, hfc, rfl⟩ := conditionsOf_ok hc
  unfold specQuery
  simp only [semAll_append, Bool.and_eq_true, semAll_optCond, semAll_extraConds, and_assoc]
  refine and_congr ?_ (and_congr ?_ (and_congr ?_ Iff.rfl))
  · cases hf : q.filter with
    | none =>
      simp only [hf] at hfc
      cases hfc
      simp [semAll]
    | some f =>
      simp only [hf] at hfc
      obtain ⟨hn, rfl⟩ := toConds_ok hfc
      obtain ⟨e1, e2, e3, e4⟩ := exclusive_of_normalizeOk f hn (hne f hf)
      rw [filterConds_sem_iff hu draw f e1 e2 e3 e4 hj]
      simp
  · simp [sem, depFrom_iff]
  · simp [sem, depBefore_iff]

/-- a filter that states no condition: nothing given, or only empty type lists -/
def noConditions (f : Filter α) : Prop :=
  f.minDistance = none ∧ f.maxDistance = none ∧ f.minSeats = none ∧ f.maxSeats = none ∧
  (f.serviceType = none ∨ f.serviceType = some []) ∧ (f.aircraftType = none ∨ f.aircraftType = some []) ∧
  f.airport = {} ∧ f.country = {} ∧ f.continent = {} ∧ f.bbox = {}

end

/-- a database with unique airport ids, a joined row, referential integrity -/
def demoDB : DB Int :=
  { airports := [⟨1, "BOS", "US"⟩, ⟨2, "GRU", "BR"⟩], countries := [⟨"US", "NA"⟩, ⟨"BR", "SA"⟩],
    rtree := [⟨1, 42, 42, -71, -71⟩, ⟨2, -23, -23, -46, -46⟩],
    flights := [⟨10, 1, 2, "J", "77W", 7700, 300, "BOSGRU"⟩, ⟨11, 2, 1, "J", "77W", 7700, 300, "BOSGRU"⟩],
    schedules := [⟨100, 17897 * 86400, 17897, 10⟩, ⟨101, 17898 * 86400 + 5, 17898, 11⟩] }

end Aeic.Query
