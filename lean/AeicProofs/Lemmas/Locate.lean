/-
  The parametrised merged lookup (`AeicModel/Locate.lean`) is the model's `locate` for the two spellings of the file search that
  mean the same on integers (`bisect_left(…, index + 1)` and `bisect_right(…, index)`), with no further offsets.
  Helper lemmas only; core Lean.
-/
import AeicModel.Locate

namespace Aeic.Merge
open Aeic.Store

theorem bisectLeftI_cast (v : Nat) (sz : List Nat) : bisectLeftI (v : Int) sz = bisectLeft v sz := by
  induction sz with
  | nil => rfl
  | cons x xs ih =>
    simp only [bisectLeftI, bisectLeft, ih]
    by_cases h : x < v
    · have : (x : Int) < (v : Int) := by omega
      simp [h, this]
    · have : ¬ (x : Int) < (v : Int) := by omega
      simp [h, this]

theorem bisectRightI_eq (v : Int) (sz : List Nat) : bisectRightI v sz = bisectLeftI (v + 1) sz := by
  induction sz with
  | nil => rfl
  | cons x xs ih =>
    simp only [bisectRightI, bisectLeftI, ih]
    by_cases h : (x : Int) ≤ v
    · have : (x : Int) < v + 1 := by omega
      simp [h, this]
    · have : ¬ (x : Int) < v + 1 := by omega
      simp [h, this]

theorem locateWith_eq {α} (left : Bool) (needle : Int) (guardGe : Bool)
    (h : (left = true ∧ needle = 1) ∨ (left = false ∧ needle = 0)) (files : List (List α)) (i : Nat) :
    locateWith left needle 0 0 guardGe files i = locate files i := by
  have hf : (if left then bisectLeftI ((i : Int) + needle) (prefixSums 0 (files.map List.length))
              else bisectRightI ((i : Int) + needle) (prefixSums 0 (files.map List.length)))
            = bisectLeft (i + 1) (prefixSums 0 (files.map List.length)) := by
    rcases h with ⟨hl, hn⟩ | ⟨hl, hn⟩
    · subst hl; subst hn
      simp only [if_true]
      exact bisectLeftI_cast (i + 1) _
    · subst hl; subst hn
      simp only [Bool.false_eq_true, if_false, Int.add_zero, bisectRightI_eq]
      exact bisectLeftI_cast (i + 1) _
  unfold locateWith locate
  simp only [hf, Int.add_zero]
  by_cases hg : (prefixSums 0 (files.map List.length)).length ≤ bisectLeft (i + 1) (prefixSums 0 (files.map List.length))
  · have hnone : (prefixSums 0 (files.map List.length))[bisectLeft (i + 1) (prefixSums 0 (files.map List.length))]? = none :=
      List.getElem?_eq_none hg
    cases guardGe <;> simp [hg, hnone]
  · cases guardGe <;> simp [hg] <;>
      (generalize (prefixSums 0 (files.map List.length))[bisectLeft (i + 1) (prefixSums 0 (files.map List.length))]? = a
       generalize files[bisectLeft (i + 1) (prefixSums 0 (files.map List.length))]? = b
       cases a <;> cases b <;> rfl)

end Aeic.Merge
