/-
  Helper lemmas for C13: the distance plausibility rule read over the reals.
-/
import AeicProofs.RealInst
import AeicModel.Schedule

namespace Aeic.Schedule

theorem sabs_real (x : ℝ) : sabs x = |x| := by
  unfold sabs
  simp only [zero_real]
  split_ifs with h
  · exact (abs_of_neg h).symm
  · exact (abs_of_nonneg (not_lt.mp h)).symm

/-- `_distance_check` in ideal arithmetic -/
theorem distanceCheck_real (gc given : ℝ) :
    distanceCheck gc given =
      if gc < 1 then DistResult.zero
      else if 0 < given ∧ 50 < |given - gc| ∧ gc / 10 < |given - gc| then DistResult.suspicious
      else DistResult.ok := by
  unfold distanceCheck
  simp only [lit_real, sabs_real]
  norm_num
  by_cases h1 : gc < 1
  · simp [h1]
  · have hpos : (0 : ℝ) < gc := by linarith [not_lt.mp h1]
    have e : (10 < 100 * |given - gc| / gc) ↔ (gc / 10 < |given - gc|) := by
      rw [lt_div_iff₀ hpos, div_lt_iff₀ (by norm_num : (0 : ℝ) < 10)]
      constructor <;> intro h <;> linarith
    simp only [h1, if_false, e]
    by_cases h2 : 0 < given
    · simp [h2]
    · simp [h2]

theorem distanceCheck_zero_iff (gc given : ℝ) : distanceCheck gc given = .zero ↔ gc < 1 := by
  rw [distanceCheck_real]
  split_ifs <;> simp_all

theorem distanceCheck_suspicious_iff (gc given : ℝ) :
    distanceCheck gc given = .suspicious ↔
      (1 ≤ gc ∧ 0 < given ∧ 50 < |given - gc| ∧ gc / 10 < |given - gc|) := by
  rw [distanceCheck_real]
  split_ifs with h1 h2
  · simp; intro h; linarith
  · simp only [true_iff]; exact ⟨not_lt.mp h1, h2⟩
  · simp only [false_iff]; intro h; exact h2 h.2

theorem distanceCheck_ok_iff (gc given : ℝ) :
    distanceCheck gc given = .ok ↔
      (1 ≤ gc ∧ (given ≤ 0 ∨ |given - gc| ≤ 50 ∨ |given - gc| ≤ gc / 10)) := by
  rw [distanceCheck_real]
  split_ifs with h1 h2
  · simp; intro h; linarith
  · simp only [false_iff]
    rintro ⟨_, h | h | h⟩ <;> linarith [h2.1, h2.2.1, h2.2.2]
  · simp only [true_iff]
    refine ⟨not_lt.mp h1, ?_⟩
    by_contra hc
    push Not at hc
    exact h2 ⟨hc.1, hc.2.1, hc.2.2⟩

end Aeic.Schedule
