/-
  Helper lemmas for C16 (wind-corrected ground speed): real-number reading of `AeicModel/Wind.lean`.
-/
import AeicProofs.RealInst
import AeicModel.Wind

namespace Aeic.Wind

noncomputable instance : HasPi ℝ := ⟨Real.pi⟩

@[simp] theorem pi_real : (HasPi.pi : ℝ) = Real.pi := rfl
theorem sin_real (x : ℝ) : Transc.sin x = Real.sin x := rfl
theorem cos_real (x : ℝ) : Transc.cos x = Real.cos x := rfl
theorem sqrt_real (x : ℝ) : Transc.sqrt x = Real.sqrt x := rfl

theorem deg2rad_real (x : ℝ) : deg2rad x = x * (Real.pi / 180) := by
  unfold deg2rad; simp only [lit_real, pi_real]; norm_num

theorem deg2rad_add (x y : ℝ) : deg2rad (x + y) = deg2rad x + deg2rad y := by
  simp only [deg2rad_real]; ring

theorem hypot_real (x y : ℝ) : hypot x y = Real.sqrt (x * x + y * y) := rfl

theorem groundSpeed_real (tas hdg u v : ℝ) :
    groundSpeed tas hdg u v =
      Real.sqrt ((tas * Real.sin (deg2rad hdg) + u) * (tas * Real.sin (deg2rad hdg) + u)
        + (tas * Real.cos (deg2rad hdg) + v) * (tas * Real.cos (deg2rad hdg) + v)) := rfl

theorem groundSpeedAsIs_real (tas hdg u v : ℝ) :
    groundSpeedAsIs tas hdg u v =
      Real.sqrt ((tas * Real.cos (deg2rad hdg) + u) * (tas * Real.cos (deg2rad hdg) + u)
        + (tas * Real.sin (deg2rad hdg) + v) * (tas * Real.sin (deg2rad hdg) + v)) := rfl

/-- triangle inequality for a unit direction `(a, b)` scaled by `tas ≥ 0` plus a wind `(u, v)`. -/
theorem unit_plus_wind_bounds (tas u v a b : ℝ) (hab : a ^ 2 + b ^ 2 = 1) (ht : 0 ≤ tas) :
    |tas - Real.sqrt (u * u + v * v)| ≤ Real.sqrt ((tas * a + u) * (tas * a + u) + (tas * b + v) * (tas * b + v))
    ∧ Real.sqrt ((tas * a + u) * (tas * a + u) + (tas * b + v) * (tas * b + v)) ≤ tas + Real.sqrt (u * u + v * v) := by
  set W := Real.sqrt (u * u + v * v) with hW
  have hW0 : 0 ≤ W := Real.sqrt_nonneg _
  have hWsq : W ^ 2 = u * u + v * v := by
    rw [hW]; exact Real.sq_sqrt (by nlinarith [sq_nonneg u, sq_nonneg v])
  -- Cauchy–Schwarz: |u a + v b| ≤ W
  have hcs : |u * a + v * b| ≤ W := by
    rw [hW]; apply Real.abs_le_sqrt
    nlinarith [sq_nonneg (u * b - v * a)]
  have hcs' := abs_le.mp hcs
  have hexp : (tas * a + u) * (tas * a + u) + (tas * b + v) * (tas * b + v)
      = tas ^ 2 + 2 * tas * (u * a + v * b) + W ^ 2 := by
    rw [hWsq]; have : tas ^ 2 = tas ^ 2 * (a ^ 2 + b ^ 2) := by rw [hab]; ring
    rw [this]; ring
  constructor
  · apply Real.abs_le_sqrt
    rw [hexp]; nlinarith [mul_nonneg ht (by linarith [hcs'.1] : 0 ≤ (u * a + v * b) + W)]
  · rw [Real.sqrt_le_left (by positivity)] ; rw [hexp]
    nlinarith [mul_nonneg ht (by linarith [hcs'.2] : 0 ≤ W - (u * a + v * b))]

theorem lerp_between (t a b lo hi : ℝ) (h0 : 0 ≤ t) (h1 : t ≤ 1) (ha : lo ≤ a ∧ a ≤ hi) (hb : lo ≤ b ∧ b ≤ hi) :
    lo ≤ lerp t a b ∧ lerp t a b ≤ hi := by
  unfold lerp
  constructor
  · nlinarith [mul_nonneg h0 (by linarith [hb.1] : 0 ≤ b - lo), mul_nonneg (by linarith : 0 ≤ 1 - t) (by linarith [ha.1] : 0 ≤ a - lo)]
  · nlinarith [mul_nonneg h0 (by linarith [hb.2] : 0 ≤ hi - b), mul_nonneg (by linarith : 0 ≤ 1 - t) (by linarith [ha.2] : 0 ≤ hi - a)]

/-- what `locate` returns: a bracket of consecutive nodes containing `x`, and a weight in [0, 1]
    that is exactly the relative position in the bracket. -/
theorem locate_spec (xs : List ℝ) (x : ℝ) (i : Nat) (t : ℝ) (h : locate xs x = some (i, t)) :
    ∃ x0 x1, xs[i]? = some x0 ∧ xs[i + 1]? = some x1 ∧ x0 ≤ x ∧ x ≤ x1 ∧ t = (x - x0) / (x1 - x0) ∧ 0 ≤ t ∧ t ≤ 1 := by
  induction xs generalizing i t with
  | nil => simp [locate] at h
  | cons a rest ih =>
    cases rest with
    | nil => simp [locate] at h
    | cons b rest' =>
      unfold locate at h
      split_ifs at h with hc
      · simp only [Option.some.injEq, Prod.mk.injEq] at h
        obtain ⟨hi, ht⟩ := h
        subst hi; subst ht
        refine ⟨a, b, by simp, by simp, hc.1, hc.2, rfl, ?_, ?_⟩
        · apply div_nonneg <;> linarith [hc.1, hc.2]
        · by_cases hz : b - a = 0
          · rw [hz]; simp
          · have hpos : 0 < b - a := lt_of_le_of_ne (by linarith [hc.1, hc.2]) (Ne.symm hz)
            rw [div_le_one hpos]; linarith [hc.2]
      · simp only [Option.map_eq_some_iff] at h
        obtain ⟨⟨i', t'⟩, hloc, heq⟩ := h
        simp only [Prod.mk.injEq] at heq
        obtain ⟨hi, ht⟩ := heq
        subst hi; subst ht
        obtain ⟨x0, x1, h0, h1, r⟩ := ih i' t' hloc
        exact ⟨x0, x1, by simpa using h0, by simpa using h1, r⟩

/-- a target strictly above or strictly below every node has no bracket. -/
theorem locate_none_of_outside (xs : List ℝ) (x : ℝ)
    (h : (∀ y ∈ xs, y < x) ∨ (∀ y ∈ xs, x < y)) : locate xs x = none := by
  cases hl : locate xs x with
  | none => rfl
  | some it =>
    obtain ⟨i, t⟩ := it
    obtain ⟨x0, x1, h0, h1, hle0, hle1, _⟩ := locate_spec xs x i t hl
    have m0 : x0 ∈ xs := List.mem_of_getElem? h0
    have m1 : x1 ∈ xs := List.mem_of_getElem? h1
    rcases h with h | h
    · have := h x1 m1; linarith
    · have := h x0 m0; linarith

theorem corner_mem (g : List (List (List ℝ))) (i j k : Nat) (c : ℝ) (h : corner g i j k = some c) :
    ∃ a ∈ g, ∃ b ∈ a, c ∈ b := by
  unfold corner at h
  cases hi : g[i]? with
  | none => simp [hi] at h
  | some a =>
    cases hj : a[j]? with
    | none => simp [hi, hj] at h
    | some b =>
      simp [hi, hj] at h
      exact ⟨a, List.mem_of_getElem? hi, b, List.mem_of_getElem? hj, List.mem_of_getElem? h⟩

end Aeic.Wind
