/-
  Length bookkeeping of the gridding model: every per-segment list has `nCross + 1` (pieces) or
  `nCross + 2` (points) entries.
-/
import AeicProofs.Lemmas.GridBasic

namespace Aeic.Grid

open Aeic

theorem length_insertAsc (x : ℝ) (l : List ℝ) : (insertAsc x l).length = l.length + 1 := by
  induction l with
  | nil => rfl
  | cons y ys ih =>
    unfold insertAsc
    split_ifs <;> simp [ih]

@[simp] theorem length_sortAsc (l : List ℝ) : (sortAsc l).length = l.length := by
  induction l with
  | nil => rfl
  | cons y ys ih => simp [sortAsc, length_insertAsc, ih]

@[simp] theorem length_sortDir (b : Bool) (l : List ℝ) : (sortDir b l).length = l.length := by
  unfold sortDir; split_ifs <;> simp

@[simp] theorem length_linesCrossed (i0 i1 : Int) : (linesCrossed i0 i1).length = (i1 - i0).natAbs := by
  unfold linesCrossed; split_ifs <;> simp <;> omega

@[simp] theorem length_coordLines (g : List ℝ) (x0 x1 : ℝ) :
    (coordLines g x0 x1).length = (cellIdx g x1 - cellIdx g x0).natAbs := by
  simp [coordLines]

@[simp] theorem length_coordInts (g : List ℝ) (x0 x1 : ℝ) (extra : List ℝ) :
    (coordInts g x0 x1 extra).length = (cellIdx g x1 - cellIdx g x0).natAbs + extra.length := by
  simp [coordInts]

@[simp] theorem length_intLats (glat glon : List ℝ) (s : Seg ℝ) :
    (intLats glat glon s).length = nCross glat glon s := by
  simp [intLats, nCross, lonLines]

@[simp] theorem length_intLons (glat glon : List ℝ) (s : Seg ℝ) :
    (intLons glat glon s).length = nCross glat glon s := by
  simp [intLons, nCross, latLines]; omega

theorem length_mids (l : List ℝ) : (mids l).length = l.length - 1 := by
  simp [mids, length_pairs]

theorem length_coordIdxs (g : List ℝ) (x0 x1 : ℝ) (ints : List ℝ) (n : Nat) (h : ints.length = n) :
    (coordIdxs g x0 x1 ints (decide (n = 0))).length = n + 1 := by
  unfold coordIdxs
  by_cases hn : n = 0
  · simp [hn]
  · simp [hn, length_mids, h]; omega

@[simp] theorem length_latIdxs (glat glon : List ℝ) (s : Seg ℝ) :
    (latIdxs glat glon s).length = nCross glat glon s + 1 :=
  length_coordIdxs _ _ _ _ _ (length_intLats glat glon s)

@[simp] theorem length_lonIdxs (glat glon : List ℝ) (s : Seg ℝ) :
    (lonIdxs glat glon s).length = nCross glat glon s + 1 :=
  length_coordIdxs _ _ _ _ _ (length_intLons glat glon s)

@[simp] theorem length_chainLat (glat glon : List ℝ) (s : Seg ℝ) :
    (chainLat glat glon s).length = nCross glat glon s + 2 := by
  simp [chainLat]

@[simp] theorem length_chainLon (glat glon : List ℝ) (s : Seg ℝ) :
    (chainLon glat glon s).length = nCross glat glon s + 2 := by
  simp [chainLon]

@[simp] theorem length_chain (glat glon : List ℝ) (s : Seg ℝ) :
    (chain glat glon s).length = nCross glat glon s + 2 := by
  simp [chain]

@[simp] theorem length_chainDists (d : ℝ → ℝ → ℝ → ℝ → ℝ) (c : List (ℝ × ℝ)) :
    (chainDists d c).length = c.length - 1 := by
  simp [chainDists, length_pairs]

@[simp] theorem length_fractions (r : Rules) (dseg : ℝ) (n : Nat) (subs : List ℝ) :
    (fractions r dseg n subs).length = subs.length := by
  simp [fractions]

@[simp] theorem length_segFractions (r : Rules) (d : ℝ → ℝ → ℝ → ℝ → ℝ) (glat glon : List ℝ) (s : Seg ℝ) :
    (segFractions r d glat glon s).length = nCross glat glon s + 1 := by
  simp [segFractions]

end Aeic.Grid
