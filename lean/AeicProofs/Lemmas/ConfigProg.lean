/-
  Helper lemmas for the event programs of the configuration singleton (`AeicModel/ConfigProg.lean`): what a flat program in
  which nothing that can raise follows the assignment does to the singleton, for every state and every pattern of failing
  stages.  (No property statements here.)
-/
import AeicModel.ConfigProg
import AeicModel.Config

namespace Aeic.ConfigProg

def noRaise : List Ev → Bool
  | [] => true
  | .raise :: _ => false
  | _ :: rest => noRaise rest

/-- does a flat program raise from state `st`? (the test sees `st`: nothing assigns before it in a `safeAfter` program) -/
def raisesB (fails : Nat → Bool) (st : St) : List Ev → Bool
  | [] => false
  | .failPoint k :: rest => fails k || raisesB fails st rest
  | .checkUnset :: rest => st.isSome || raisesB fails st rest
  | .assign :: _ => false
  | _ :: rest => raisesB fails st rest

theorem exec_only_assigns (fails : Nat → Bool) (cfg : Nat) (p : List Ev) (st : St) (h : p.all isAssign = true) :
    (exec fails cfg p st).2 = none ∧ (p ≠ [] → (exec fails cfg p st).1 = some cfg) := by
  induction p generalizing st with
  | nil => simp [exec]
  | cons e rest ih =>
    cases e with
    | assign =>
      have hr : rest.all isAssign = true := by simpa [isAssign] using h
      have := ih (some cfg) hr
      simp only [exec, execEv]
      refine ⟨this.1, fun _ => ?_⟩
      cases rest with
      | nil => simp [exec]
      | cons e2 r2 => exact this.2 (by simp)
    | failPoint k => simp [isAssign] at h
    | checkUnset => simp [isAssign] at h
    | clear => simp [isAssign] at h
    | raise => simp [isAssign] at h
    | tryFinally b f => simp [isAssign] at h
    | tryExcept b hd r => simp [isAssign] at h

/-- **the run of a flat, safe program**: it raises iff a stage before the assignment fails or the singleton test finds an
    active configuration; if it raises the singleton is untouched; otherwise the singleton is the new configuration (when the
    program assigns at all) -/
theorem exec_flat (fails : Nat → Bool) (cfg : Nat) (p : List Ev) (st : St) (hf : flat p = true) (hs : safeAfter p = true)
    (hn : noRaise p = true) :
    ((exec fails cfg p st).2.isSome = raisesB fails st p) ∧
    (exec fails cfg p st).1 = (if raisesB fails st p then st else if assigns p then some cfg else st) := by
  induction p generalizing st with
  | nil => simp [exec, raisesB, assigns]
  | cons e rest ih =>
    cases e with
    | failPoint k =>
      have := ih st (by simpa [flat] using hf) (by simpa [safeAfter] using hs) (by simpa [noRaise] using hn)
      by_cases hk : fails k = true
      · simp [exec, execEv, raisesB, hk]
      · simp only [Bool.not_eq_true] at hk
        simp only [exec, execEv, raisesB, hk, assigns, Bool.false_or, Bool.false_eq_true, if_false]
        exact this
    | checkUnset =>
      have := ih st (by simpa [flat] using hf) (by simpa [safeAfter] using hs) (by simpa [noRaise] using hn)
      by_cases hk : st.isSome = true
      · simp [exec, execEv, raisesB, hk]
      · simp only [Bool.not_eq_true] at hk
        simp only [exec, execEv, raisesB, hk, assigns, Bool.false_or, Bool.false_eq_true, if_false]
        exact this
    | assign =>
      have h := exec_only_assigns fails cfg rest (some cfg) (by simpa [safeAfter] using hs)
      simp only [exec, execEv, raisesB, assigns, Bool.false_eq_true, if_false, if_true]
      refine ⟨by rw [h.1]; rfl, ?_⟩
      cases rest with
      | nil => simp [exec]
      | cons e2 r2 => exact h.2 (by simp)
    | clear => simp [safeAfter] at hs
    | raise => simp [noRaise] at hn
    | tryFinally b f => simp [flat] at hf
    | tryExcept b hd r => simp [flat] at hf

/-- which stage a `LoadSpec` makes fail -/
def failsOf (l : Aeic.Config.LoadSpec) : Nat → Bool
  | 0 => !l.fileOk
  | 1 => !l.fieldsOk
  | 2 => !l.normalizeOk
  | 3 => !l.resolveOk
  | _ => false

end Aeic.ConfigProg
