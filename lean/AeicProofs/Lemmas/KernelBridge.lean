/-
  Kernel bridge: the definitions regenerated from the Python source on every run
  (`AeicModel/Generated/Kernels.lean`, written by `harness/common/pykern.py`) are equal, over ℝ, to the hand-written
  models the property theorems are stated about.  So a theorem about `EI.isaPressure`, `Bada.thrust`, … is a theorem about
  what `/repo`'s source text says *now*; if the source changes so that an equality no longer holds, `lake build` fails here
  (a broken proof obligation, handled by the classification rule of DESIGN §1), and if it changes harmlessly (re-ordered
  arithmetic, renamed locals, re-associated products) the tactics below still close the goal.

  Helper lemmas only; the property-level corollaries are in `Properties/C12.lean` and `Properties/C19.lean`.
-/
import AeicProofs.RealInst
import AeicModel.Generated.Kernels
import AeicModel.EI
import AeicModel.Bada

set_option linter.unusedTactic false
set_option linter.unreachableTactic false
set_option linter.unusedSimpArgs false
set_option linter.unnecessarySeqFocus false

namespace KernelBridge
open Aeic

/-- closes `translated = model` goals after the definitions have been unfolded -/
macro "kern_close" : tactic =>
  `(tactic| first
    | rfl
    | (simp only [lit_real, one_real, zero_real, smax_real, smin_real]; first | rfl | norm_num | (norm_num; ring_nf) | ring_nf))

/-! ## ISA atmosphere (`utils/standard_atmosphere.py`) -/

theorem isa_temperature (h : ℝ) : Kern.isa_temperature h = EI.isaTemperature h := by
  unfold Kern.isa_temperature EI.isaTemperature; kern_close

theorem isa_temperature_callee (h : ℝ) :
    Kern.standard_atmosphere__temperature_at_altitude_isa_bada4 h = EI.isaTemperature h := by
  unfold Kern.standard_atmosphere__temperature_at_altitude_isa_bada4 EI.isaTemperature; kern_close

theorem isa_pressure (h : ℝ) : Kern.isa_pressure h = EI.isaPressure h := by
  simp only [Kern.isa_pressure, EI.isaPressure, EI.pTrop, EI.tTrop, EI.isaExp, isa_temperature_callee]; kern_close

theorem isa_pressure_callee (h : ℝ) :
    Kern.standard_atmosphere__pressure_at_altitude_isa_bada4 h = EI.isaPressure h := by
  simp only [Kern.standard_atmosphere__pressure_at_altitude_isa_bada4, EI.isaPressure, EI.pTrop, EI.tTrop, EI.isaExp,
    isa_temperature_callee]; kern_close

theorem isa_altitude (p : ℝ) : Kern.isa_altitude p = EI.isaAltitude p := by
  have hT : Kern.standard_atmosphere__temperature_at_altitude_isa_bada4 (Kern.standard_atmosphere__h_p_tropo : ℝ)
      = EI.tTrop := by
    rw [isa_temperature_callee]; unfold EI.isaTemperature EI.tTrop
    have hh : (Kern.standard_atmosphere__h_p_tropo : ℝ) ≤ Gen.h_p_tropo := by
      first | exact le_refl _ | (simp only [Kern.standard_atmosphere__h_p_tropo, Gen.h_p_tropo, lit_real]; norm_num)
    rw [if_pos hh]; kern_close
  unfold Kern.isa_altitude EI.isaAltitude
  simp only [hT]
  first | rfl | (simp only [EI.pTrop, EI.tTrop, EI.isaExp]; kern_close)

theorem speed_of_sound (t : ℝ) : Kern.speed_of_sound t = EI.speedOfSound t := by
  unfold Kern.speed_of_sound EI.speedOfSound; kern_close

theorem speed_of_sound_callee (t : ℝ) :
    Kern.standard_atmosphere__calculate_speed_of_sound t = EI.speedOfSound t := by
  unfold Kern.standard_atmosphere__calculate_speed_of_sound EI.speedOfSound; kern_close

theorem speed_of_sound_at_altitude (h : ℝ) :
    Kern.speed_of_sound_at_altitude h = EI.speedOfSound (EI.isaTemperature h) := by
  simp only [Kern.speed_of_sound_at_altitude, isa_temperature_callee, speed_of_sound_callee]

theorem air_density (p t : ℝ) : Kern.air_density p t = EI.airDensity p t := by
  unfold Kern.air_density EI.airDensity; kern_close

theorem air_density_callee (p t : ℝ) :
    Kern.standard_atmosphere__calculate_air_density p t = EI.airDensity p t := by
  unfold Kern.standard_atmosphere__calculate_air_density EI.airDensity; kern_close

/-! ## SOx (`emissions/ei/sox.py`) -/

/-- attribute environment of a fuel -/
def fuelEnv (sulfurPpm yield : ℝ) : String → ℝ := fun k =>
  if k = "fuel.fuel_sulfur_content_nom" then sulfurPpm else if k = "fuel.sulfate_yield_nom" then yield else 0

theorem sox_so2 (s y : ℝ) : Kern.sox_so2 (fuelEnv s y) = EI.so2EI s y := by
  simp only [Kern.sox_so2, EI.so2EI, Kern.sox__MW_SO2, Kern.sox__MW_S, fuelEnv, String.reduceEq, if_true, if_false,
    lit_real, one_real]; norm_num

theorem sox_so4 (s y : ℝ) : Kern.sox_so4 (fuelEnv s y) = EI.so4EI s y := by
  simp only [Kern.sox_so4, EI.so4EI, Kern.sox__MW_SO4, Kern.sox__MW_S, fuelEnv, String.reduceEq, if_true, if_false,
    lit_real]; norm_num

theorem sox_total (s y : ℝ) : Kern.sox_total (fuelEnv s y) = EI.soxEI s y := by
  simp only [Kern.sox_total, EI.soxEI, EI.so2EI, EI.so4EI, Kern.sox__MW_SO2, Kern.sox__MW_SO4, Kern.sox__MW_S, fuelEnv,
    String.reduceEq, if_true, if_false, lit_real, one_real]; norm_num

/-! ## Fuel Flow Method 2 and BFFM2 NOx (`emissions/utils.py`, `emissions/ei/nox.py`) -/

theorem sls_fuel_flow (ff P T M n : ℝ) : Kern.sls_fuel_flow ff P T M n = EI.slsFuelFlow ff P T M n := by
  unfold Kern.sls_fuel_flow EI.slsFuelFlow; simp only [lit_real]; norm_num

theorem nox_humidity_omega (T P : ℝ) : Kern.nox_humidity_omega T P = EI.specificHumidity T P := by
  unfold Kern.nox_humidity_omega EI.specificHumidity EI.satBeta; simp only [lit_real, one_real]; norm_num

/-- the humidity correction the source computes is eq. 45 with one of the two humidity references: the *as-is* 0.0063 (open
    finding C12-bffm2-humidity-reference; the branch that proves today) or the published 0.00634 (after a repair) -/
theorem nox_correction :
    (∀ T P : ℝ, Kern.nox_correction T P = EI.bffm2Correction EI.humRefAsIs T P) ∨
    (∀ T P : ℝ, Kern.nox_correction T P = EI.bffm2Correction EI.humRefPublished T P) := by
  first
    | (left; intro T P
       unfold Kern.nox_correction EI.bffm2Correction EI.specificHumidity EI.satBeta EI.humRefAsIs
       simp only [lit_real, one_real]; norm_num; done)
    | (right; intro T P
       unfold Kern.nox_correction EI.bffm2Correction EI.specificHumidity EI.satBeta EI.humRefPublished
       simp only [lit_real, one_real]; norm_num; done)

/-- evaluation of the log–log regression line at the (clamped) SLS fuel flow -/
theorem nox_sl (ff slope intercept : ℝ) :
    Kern.nox_sl ff slope intercept = (10 : ℝ) ^ (Real.log (EI.clampPos ff) / Real.log 10 * slope + intercept) := by
  unfold Kern.nox_sl EI.clampPos
  simp only [lit_real, zero_real, Transc.pow, Transc.log10]; norm_num

/-! NOx speciation percentages -/
theorem nox_spec :
    (Kern.nox_spec_no_L : ℝ) = EI.noL ∧ (Kern.nox_spec_no_A : ℝ) = EI.noA ∧ (Kern.nox_spec_no_H : ℝ) = EI.noH ∧
    (Kern.nox_spec_no2_L : ℝ) = EI.no2L ∧ (Kern.nox_spec_no2_A : ℝ) = EI.no2A ∧ (Kern.nox_spec_no2_H : ℝ) = EI.no2H ∧
    (Kern.nox_spec_hono_L : ℝ) = EI.honoL ∧ (Kern.nox_spec_hono_A : ℝ) = EI.honoA ∧ (Kern.nox_spec_hono_H : ℝ) = EI.honoH := by
  refine ⟨?_, ?_, ?_, ?_, ?_, ?_, ?_, ?_, ?_⟩ <;>
    simp only [Kern.nox_spec_no_L, Kern.nox_spec_no_A, Kern.nox_spec_no_H, Kern.nox_spec_no2_L, Kern.nox_spec_no2_A,
      Kern.nox_spec_no2_H, Kern.nox_spec_hono_L, Kern.nox_spec_hono_A, Kern.nox_spec_hono_H,
      EI.noL, EI.noA, EI.noH, EI.no2L, EI.no2A, EI.no2H, EI.honoL, EI.honoA, EI.honoH, lit_real] <;> norm_num

/-! ## HC/CO ambient factor (`emissions/ei/hcco.py`) -/

theorem hcco_ambient_factor (T P : ℝ) : Kern.hcco_ambient_factor T P = EI.hccoAmbient T P := by
  unfold Kern.hcco_ambient_factor EI.hccoAmbient; simp only [lit_real]; norm_num

/-! ## MEEM compressor model (`emissions/ei/pmnvol.py`): the straight-line part of `PMnvol_MEEM` between the altitude-rate
    bookkeeping (`alt_rate = np.diff(...)`, `max_alt = altitudes.max()`: inputs here) and the interpolation tables -/

theorem meem_eta_comp (rate : ℝ) :
    Kern.meem_eta_comp rate = (if (0 : ℝ) ≤ rate then (0.88 : ℝ) else 0.70) := by
  simp only [Kern.meem_eta_comp, lit_real]; norm_num

/-- every comparison of `r` with 0 is decided in each of the three cases -/
theorem sign_cases (r : ℝ) :
    (r < 0 ∧ ¬ (0 < r) ∧ ¬ (0 ≤ r) ∧ r ≤ 0 ∧ r ≠ 0) ∨ (r = 0) ∨ (0 < r ∧ ¬ (r < 0) ∧ 0 ≤ r ∧ ¬ (r ≤ 0) ∧ r ≠ 0) := by
  rcases lt_trichotomy r 0 with h | h | h
  · exact Or.inl ⟨h, not_lt.mpr h.le, not_le.mpr h, h.le, h.ne⟩
  · exact Or.inr (Or.inl h)
  · exact Or.inr (Or.inr ⟨h, not_lt.mpr h.le, h.le, not_le.mpr h, h.ne'⟩)

/-- `pressure_coef` of the source is the model's with the linear altitude term either unbounded (*as-is*, open finding
    C12-meem-pressure-coefficient-unbounded — the branch that proves today) or clipped to [0, 1] (after a repair) -/
theorem meem_pressure_coef :
    ∃ clip : Bool, ∀ alt rate maxAlt : ℝ, Kern.meem_pressure_coef alt rate maxAlt =
      (if 0 < rate then (0.85 : ℝ) + (1.15 - 0.85) * EI.meemLin clip alt maxAlt
       else if 0 ≤ rate then 0.95 else 0.12) := by
  first
    | (refine ⟨false, fun alt rate maxAlt => ?_⟩
       rcases sign_cases rate with ⟨h1, h2, h3, h4, h5⟩ | h | ⟨h1, h2, h3, h4, h5⟩
       · norm_num [Kern.meem_pressure_coef, EI.meemLin, smax_real, h1, h2, h3, h4, h5]
       · subst h; norm_num [Kern.meem_pressure_coef, EI.meemLin, smax_real]
       · norm_num [Kern.meem_pressure_coef, EI.meemLin, smax_real, h1, h2, h3, h4, h5])
    | (refine ⟨true, fun alt rate maxAlt => ?_⟩
       rcases sign_cases rate with ⟨h1, h2, h3, h4, h5⟩ | h | ⟨h1, h2, h3, h4, h5⟩
       · norm_num [Kern.meem_pressure_coef, EI.meemLin, smax_real, smin_real, h1, h2, h3, h4, h5]
       · subst h; norm_num [Kern.meem_pressure_coef, EI.meemLin, smax_real, smin_real]
       · norm_num [Kern.meem_pressure_coef, EI.meemLin, smax_real, smin_real, h1, h2, h3, h4, h5])

/-- the combustor-inlet chain of the source is `meemPoint clip` of the model, `clip = false` for the code as it is -/
theorem meem_point :
    ∃ clip : Bool, ∀ alt rate maxAlt T P M pr : ℝ,
    Kern.meem_point_fg alt rate maxAlt T P M pr = (EI.meemPoint clip pr alt (alt - rate) maxAlt T P M).fg ∧
    Kern.meem_point_p3 alt rate maxAlt T P M pr = (EI.meemPoint clip pr alt (alt - rate) maxAlt T P M).p3 ∧
    Kern.meem_point_p3_ref alt rate maxAlt T P M pr = (EI.meemPoint clip pr alt (alt - rate) maxAlt T P M).p3ref := by
  first
    | (refine ⟨false, fun alt rate maxAlt T P M pr => ?_⟩
       have hr : alt - (alt - rate) = rate := sub_sub_cancel alt rate
       rcases sign_cases rate with ⟨h1, h2, h3, h4, h5⟩ | h | ⟨h1, h2, h3, h4, h5⟩
       · refine ⟨?_, ?_, ?_⟩ <;>
           norm_num [Kern.meem_point_fg, Kern.meem_point_p3, Kern.meem_point_p3_ref, EI.meemPoint, EI.meemLin, hr, smax_real,
             h1, h2, h3, h4, h5]
       · subst h
         refine ⟨?_, ?_, ?_⟩ <;>
           norm_num [Kern.meem_point_fg, Kern.meem_point_p3, Kern.meem_point_p3_ref, EI.meemPoint, EI.meemLin, smax_real]
       · refine ⟨?_, ?_, ?_⟩ <;>
           norm_num [Kern.meem_point_fg, Kern.meem_point_p3, Kern.meem_point_p3_ref, EI.meemPoint, EI.meemLin, hr, smax_real,
             h1, h2, h3, h4, h5])
    | (refine ⟨true, fun alt rate maxAlt T P M pr => ?_⟩
       have hr : alt - (alt - rate) = rate := sub_sub_cancel alt rate
       rcases sign_cases rate with ⟨h1, h2, h3, h4, h5⟩ | h | ⟨h1, h2, h3, h4, h5⟩
       · refine ⟨?_, ?_, ?_⟩ <;>
           norm_num [Kern.meem_point_fg, Kern.meem_point_p3, Kern.meem_point_p3_ref, EI.meemPoint, EI.meemLin, hr, smax_real,
             smin_real, h1, h2, h3, h4, h5]
       · subst h
         refine ⟨?_, ?_, ?_⟩ <;>
           norm_num [Kern.meem_point_fg, Kern.meem_point_p3, Kern.meem_point_p3_ref, EI.meemPoint, EI.meemLin, smax_real, smin_real]
       · refine ⟨?_, ?_, ?_⟩ <;>
           norm_num [Kern.meem_point_fg, Kern.meem_point_p3, Kern.meem_point_p3_ref, EI.meemPoint, EI.meemLin, hr, smax_real,
             smin_real, h1, h2, h3, h4, h5])

/-- mass EI before the smoke-number / negativity clean-up -/
theorem meem_ei_mass (T P M pc pr eta ref : ℝ) :
    Kern.meem_ei_mass T P M pc pr eta ref =
      0.001 * ref * (Kern.meem_p3 P M pc pr /
        ((Gen.p0 : ℝ) * (1 + eta * (Kern.meem_t3 T P M pc pr eta / Gen.T0 - 1)) ^ ((Gen.kappa : ℝ) / (Gen.kappa - 1)))) ^ (1.35 : ℝ)
        * (1.1 : ℝ) ^ (2.5 : ℝ) := by
  simp only [Kern.meem_ei_mass, Kern.meem_p3, Kern.meem_t3, lit_real, Transc.pow]; norm_num

/-! ## BADA-3 (`BADA/model.py`) -/

/-- attribute environment of a `Bada3AircraftParameters` object -/
def badaEnv (P : Bada.Params ℝ) : String → ℝ := fun k =>
  if k = "aircraft_parameters.c_fcr" then P.cFcr else if k = "aircraft_parameters.c_f1" then P.cF1
  else if k = "aircraft_parameters.c_f2" then P.cF2 else if k = "aircraft_parameters.c_d0cr" then P.cD0
  else if k = "aircraft_parameters.c_d2cr" then P.cD2 else if k = "aircraft_parameters.S_ref" then P.sRef
  else if k = "aircraft_parameters.c_tc1" then P.cTc1 else if k = "aircraft_parameters.c_tc2" then P.cTc2
  else if k = "aircraft_parameters.c_tc3" then P.cTc3 else if k = "aircraft_parameters.c_tc4" then P.cTc4
  else if k = "aircraft_parameters.c_tc5" then P.cTc5 else if k = "aircraft_parameters.c_tcr" then P.cTcr
  else if k = "aircraft_parameters.c_tdes_low" then P.cTdesLow else if k = "aircraft_parameters.c_tdes_high" then P.cTdesHigh
  else if k = "aircraft_parameters.h_p_des" then P.hPDes else 0

/-! the attribute environment evaluated at each key the translated source reads -/
theorem badaEnv_c_fcr (P : Bada.Params ℝ) : badaEnv P "aircraft_parameters.c_fcr" = P.cFcr := by
  simp only [badaEnv, String.reduceEq, if_true, if_false]
theorem badaEnv_c_f1 (P : Bada.Params ℝ) : badaEnv P "aircraft_parameters.c_f1" = P.cF1 := by
  simp only [badaEnv, String.reduceEq, if_true, if_false]
theorem badaEnv_c_f2 (P : Bada.Params ℝ) : badaEnv P "aircraft_parameters.c_f2" = P.cF2 := by
  simp only [badaEnv, String.reduceEq, if_true, if_false]
theorem badaEnv_c_d0cr (P : Bada.Params ℝ) : badaEnv P "aircraft_parameters.c_d0cr" = P.cD0 := by
  simp only [badaEnv, String.reduceEq, if_true, if_false]
theorem badaEnv_c_d2cr (P : Bada.Params ℝ) : badaEnv P "aircraft_parameters.c_d2cr" = P.cD2 := by
  simp only [badaEnv, String.reduceEq, if_true, if_false]
theorem badaEnv_S_ref (P : Bada.Params ℝ) : badaEnv P "aircraft_parameters.S_ref" = P.sRef := by
  simp only [badaEnv, String.reduceEq, if_true, if_false]
theorem badaEnv_c_tc1 (P : Bada.Params ℝ) : badaEnv P "aircraft_parameters.c_tc1" = P.cTc1 := by
  simp only [badaEnv, String.reduceEq, if_true, if_false]
theorem badaEnv_c_tc2 (P : Bada.Params ℝ) : badaEnv P "aircraft_parameters.c_tc2" = P.cTc2 := by
  simp only [badaEnv, String.reduceEq, if_true, if_false]
theorem badaEnv_c_tc3 (P : Bada.Params ℝ) : badaEnv P "aircraft_parameters.c_tc3" = P.cTc3 := by
  simp only [badaEnv, String.reduceEq, if_true, if_false]
theorem badaEnv_c_tc4 (P : Bada.Params ℝ) : badaEnv P "aircraft_parameters.c_tc4" = P.cTc4 := by
  simp only [badaEnv, String.reduceEq, if_true, if_false]
theorem badaEnv_c_tc5 (P : Bada.Params ℝ) : badaEnv P "aircraft_parameters.c_tc5" = P.cTc5 := by
  simp only [badaEnv, String.reduceEq, if_true, if_false]
theorem badaEnv_c_tcr (P : Bada.Params ℝ) : badaEnv P "aircraft_parameters.c_tcr" = P.cTcr := by
  simp only [badaEnv, String.reduceEq, if_true, if_false]
theorem badaEnv_c_tdes_low (P : Bada.Params ℝ) : badaEnv P "aircraft_parameters.c_tdes_low" = P.cTdesLow := by
  simp only [badaEnv, String.reduceEq, if_true, if_false]
theorem badaEnv_c_tdes_high (P : Bada.Params ℝ) : badaEnv P "aircraft_parameters.c_tdes_high" = P.cTdesHigh := by
  simp only [badaEnv, String.reduceEq, if_true, if_false]
theorem badaEnv_h_p_des (P : Bada.Params ℝ) : badaEnv P "aircraft_parameters.h_p_des" = P.hPDes := by
  simp only [badaEnv, String.reduceEq, if_true, if_false]

/-- evaluates `badaEnv P "…"` -/
macro "bada_env" : tactic => `(tactic| simp only [badaEnv_c_fcr, badaEnv_c_f1, badaEnv_c_f2, badaEnv_c_d0cr, badaEnv_c_d2cr, badaEnv_S_ref, badaEnv_c_tc1, badaEnv_c_tc2, badaEnv_c_tc3, badaEnv_c_tc4, badaEnv_c_tc5, badaEnv_c_tcr, badaEnv_c_tdes_low, badaEnv_c_tdes_high, badaEnv_h_p_des])

/-- closes `translated BADA kernel = model` goals: the kernels are generated with every callee inlined (symbolic evaluator), so
    both sides are unfolded down to arithmetic on the parameters and compared there; no lemma mentions a helper of the source,
    which is what keeps these proofs valid when helpers are extracted, inlined or renamed -/
macro "bada_finish" : tactic =>
  `(tactic| first
      | rfl
      | (simp only [lit_real, smax_real, smin_real, Bool.false_eq_true, if_false, if_true]; first | rfl | (norm_num; done) | (norm_num; ring_nf; done) | (ring_nf; done))
      | (simp only [lit_real, smax_real, smin_real, Bool.false_eq_true, if_false, if_true]; split_ifs <;> first | rfl | (norm_num; done) | (norm_num; ring_nf; done) | (ring_nf; done) | (exfalso; linarith)))

macro "bada_close" : tactic =>
  `(tactic| ((try simp only [Bada.thrust, Bada.sgr, Bada.sgrOf, Bada.fuelFlow, Bada.selectFuelFlow, Bada.teThrust, Bada.maxThrust, Bada.descentThrust, Bada.maxCruise, Bada.maxClimb, Bada.maxClimbIsa, Bada.tempFactor, Bada.descentHigh, Bada.descentLow, Bada.isaTemp, Bada.isaPressure, Bada.airDensity, Bada.liftCoeff, Bada.dragCoeff, Bada.dragForce, Bada.totalEnergyThrust, Bada.selectThrust, Bada.sfc, Bada.nominalFuelFlow, Bada.cruiseFuelFlow]) <;> (try bada_env) <;> bada_finish))

/-- as `bada_close`, but the maximum climb thrust stays folded (callers rewrite it with an unfolded kernel lemma first) -/
macro "bada_close_folded" : tactic =>
  `(tactic| ((try simp only [Bada.thrust, Bada.sgr, Bada.sgrOf, Bada.fuelFlow, Bada.selectFuelFlow, Bada.teThrust, Bada.maxThrust, Bada.descentThrust, Bada.maxCruise, Bada.descentHigh, Bada.descentLow, Bada.isaTemp, Bada.isaPressure, Bada.airDensity, Bada.liftCoeff, Bada.dragCoeff, Bada.dragForce, Bada.totalEnergyThrust, Bada.selectThrust, Bada.sfc, Bada.nominalFuelFlow, Bada.cruiseFuelFlow]) <;> (try bada_env) <;> bada_finish))

theorem bada_isa_temp (h : ℝ) : Kern.standard_atmosphere__temperature_at_altitude_isa_bada4 h = Bada.isaTemp h := by
  unfold Kern.standard_atmosphere__temperature_at_altitude_isa_bada4 Bada.isaTemp; kern_close

theorem bada_isa_pressure (h : ℝ) : Kern.standard_atmosphere__pressure_at_altitude_isa_bada4 h = Bada.isaPressure h := by
  simp only [Kern.standard_atmosphere__pressure_at_altitude_isa_bada4, Bada.isaPressure, bada_isa_temp]; kern_close

theorem bada_air_density (p t : ℝ) : Kern.standard_atmosphere__calculate_air_density p t = Bada.airDensity p t := by
  unfold Kern.standard_atmosphere__calculate_air_density Bada.airDensity; kern_close

/-! engine models: one statement per concrete class of the source (`Bada3JetEngineModel`, …) -/

theorem bada_max_climb_isa (P : Bada.Params ℝ) (h v : ℝ) :
    Kern.bada_jet_max_climb_isa (badaEnv P) h v = Bada.maxClimbIsa .jet P h v ∧
    Kern.bada_turboprop_max_climb_isa (badaEnv P) h v = Bada.maxClimbIsa .turboprop P h v ∧
    Kern.bada_piston_max_climb_isa (badaEnv P) h v = Bada.maxClimbIsa .piston P h v := by
  refine ⟨?_, ?_, ?_⟩ <;>
    (simp only [Kern.bada_jet_max_climb_isa, Kern.bada_turboprop_max_climb_isa, Kern.bada_piston_max_climb_isa] <;> bada_close)

/-- eq. 3.7-4: the temperature-corrected maximum climb thrust -/
theorem bada_max_climb (P : Bada.Params ℝ) (h v t : ℝ) :
    Kern.bada_jet_max_climb (badaEnv P) h v t = Bada.maxClimb .jet P h v t ∧
    Kern.bada_turboprop_max_climb (badaEnv P) h v t = Bada.maxClimb .turboprop P h v t ∧
    Kern.bada_piston_max_climb (badaEnv P) h v t = Bada.maxClimb .piston P h v t := by
  refine ⟨?_, ?_, ?_⟩ <;>
    (simp only [Kern.bada_jet_max_climb, Kern.bada_turboprop_max_climb, Kern.bada_piston_max_climb] <;> bada_close)

/-- eq. 3.7-8 and the descent thrusts (3.7-9, 3.7-10) -/
theorem bada_cruise_descent (P : Bada.Params ℝ) (h v t : ℝ) :
    (Kern.bada_jet_max_cruise (badaEnv P) h v t = Bada.maxCruise .jet P h v t ∧
     Kern.bada_turboprop_max_cruise (badaEnv P) h v t = Bada.maxCruise .turboprop P h v t ∧
     Kern.bada_piston_max_cruise (badaEnv P) h v t = Bada.maxCruise .piston P h v t) ∧
    (Kern.bada_jet_descent_high (badaEnv P) h v t = Bada.descentHigh .jet P h v t ∧
     Kern.bada_turboprop_descent_high (badaEnv P) h v t = Bada.descentHigh .turboprop P h v t ∧
     Kern.bada_piston_descent_high (badaEnv P) h v t = Bada.descentHigh .piston P h v t) ∧
    (Kern.bada_jet_descent_low (badaEnv P) h v t = Bada.descentLow .jet P h v t ∧
     Kern.bada_turboprop_descent_low (badaEnv P) h v t = Bada.descentLow .turboprop P h v t ∧
     Kern.bada_piston_descent_low (badaEnv P) h v t = Bada.descentLow .piston P h v t) := by
  refine ⟨⟨?_, ?_, ?_⟩, ⟨?_, ?_, ?_⟩, ⟨?_, ?_, ?_⟩⟩ <;>
    (simp only [Kern.bada_jet_max_cruise, Kern.bada_turboprop_max_cruise, Kern.bada_piston_max_cruise,
      Kern.bada_jet_descent_high, Kern.bada_turboprop_descent_high, Kern.bada_piston_descent_high,
      Kern.bada_jet_descent_low, Kern.bada_turboprop_descent_low, Kern.bada_piston_descent_low] <;> bada_close)

/-- eqs 3.9-1, 3.9-2: thrust specific fuel consumption -/
theorem bada_sfc (P : Bada.Params ℝ) (v : ℝ) :
    Kern.bada_jet_sfc (badaEnv P) v = Bada.sfc .jet P v ∧ Kern.bada_turboprop_sfc (badaEnv P) v = Bada.sfc .turboprop P v := by
  refine ⟨?_, ?_⟩ <;> (simp only [Kern.bada_jet_sfc, Kern.bada_turboprop_sfc] <;> bada_close)

/-- eqs 3.9-3 … 3.9-7: nominal and cruise fuel flow, all three engine classes (piston: `C_f1 / 60` kg/s) -/
theorem bada_fuel_flow (P : Bada.Params ℝ) (thr v : ℝ) :
    (Kern.bada_jet_nominal_fuel_flow (badaEnv P) thr v = Bada.nominalFuelFlow .jet P thr v ∧
     Kern.bada_turboprop_nominal_fuel_flow (badaEnv P) thr v = Bada.nominalFuelFlow .turboprop P thr v ∧
     Kern.bada_piston_nominal_fuel_flow (badaEnv P) thr v = Bada.nominalFuelFlow .piston P thr v) ∧
    (Kern.bada_jet_cruise_fuel_flow (badaEnv P) thr v = Bada.cruiseFuelFlow .jet P thr v ∧
     Kern.bada_turboprop_cruise_fuel_flow (badaEnv P) thr v = Bada.cruiseFuelFlow .turboprop P thr v ∧
     Kern.bada_piston_cruise_fuel_flow (badaEnv P) thr v = Bada.cruiseFuelFlow .piston P thr v) := by
  refine ⟨⟨?_, ?_, ?_⟩, ⟨?_, ?_, ?_⟩⟩ <;>
    (simp only [Kern.bada_jet_nominal_fuel_flow, Kern.bada_turboprop_nominal_fuel_flow, Kern.bada_piston_nominal_fuel_flow,
      Kern.bada_jet_cruise_fuel_flow, Kern.bada_turboprop_cruise_fuel_flow, Kern.bada_piston_cruise_fuel_flow] <;> bada_close)

/-- eqs 3.6-1, 3.6-2, 3.6-5, 3.2-1 -/
theorem bada_aero (P : Bada.Params ℝ) (m rho v cl cd drag rocd acc : ℝ) :
    Kern.bada_cl (badaEnv P) m rho v = Bada.liftCoeff P m rho v ∧
    Kern.bada_cd (badaEnv P) cl = Bada.dragCoeff P cl ∧
    Kern.bada_drag (badaEnv P) cd rho v = Bada.dragForce P cd rho v ∧
    Kern.bada_te_thrust drag m v rocd acc = Bada.totalEnergyThrust drag m v rocd acc := by
  refine ⟨?_, ?_, ?_, ?_⟩ <;>
    (simp only [Kern.bada_cl, Kern.bada_cd, Kern.bada_drag, Kern.bada_te_thrust] <;> bada_close)

/-! `calculate_thrust` / `calculate_specific_ground_range`: the (inlined) maximum climb thrust is first folded back into the model's
    `maxClimb` with the unfolded form of `bada_max_climb`, then the rest is compared after unfolding -/

theorem bada_thrust_jet (P : Bada.Params ℝ) (m T h v rocd acc gs : ℝ) (cr : Bool) :
    Kern.bada_jet_thrust (badaEnv P) m T h v rocd acc cr = Bada.thrust .jet P m ⟨T, h, v, rocd, acc, gs, cr⟩ := by
  have hmc := (bada_max_climb P h v T).1
  simp only [Kern.bada_jet_max_climb, badaEnv_c_fcr, badaEnv_c_f1, badaEnv_c_f2, badaEnv_c_d0cr, badaEnv_c_d2cr, badaEnv_S_ref, badaEnv_c_tc1, badaEnv_c_tc2, badaEnv_c_tc3, badaEnv_c_tc4, badaEnv_c_tc5, badaEnv_c_tcr, badaEnv_c_tdes_low, badaEnv_c_tdes_high, badaEnv_h_p_des] at hmc
  simp only [Kern.bada_jet_thrust, badaEnv_c_fcr, badaEnv_c_f1, badaEnv_c_f2, badaEnv_c_d0cr, badaEnv_c_d2cr, badaEnv_S_ref, badaEnv_c_tc1, badaEnv_c_tc2, badaEnv_c_tc3, badaEnv_c_tc4, badaEnv_c_tc5, badaEnv_c_tcr, badaEnv_c_tdes_low, badaEnv_c_tdes_high, badaEnv_h_p_des]
  try simp only [hmc]
  cases cr <;> bada_close_folded

theorem bada_sgr_jet (P : Bada.Params ℝ) (m T h v rocd acc gs : ℝ) (cr : Bool) :
    Kern.bada_jet_sgr (badaEnv P) m T h v rocd acc cr gs = Bada.sgr .jet P m ⟨T, h, v, rocd, acc, gs, cr⟩ := by
  have hmc := (bada_max_climb P h v T).1
  simp only [Kern.bada_jet_max_climb, badaEnv_c_fcr, badaEnv_c_f1, badaEnv_c_f2, badaEnv_c_d0cr, badaEnv_c_d2cr, badaEnv_S_ref, badaEnv_c_tc1, badaEnv_c_tc2, badaEnv_c_tc3, badaEnv_c_tc4, badaEnv_c_tc5, badaEnv_c_tcr, badaEnv_c_tdes_low, badaEnv_c_tdes_high, badaEnv_h_p_des] at hmc
  have hth := bada_thrust_jet P m T h v rocd acc gs cr
  simp only [Kern.bada_jet_thrust, badaEnv_c_fcr, badaEnv_c_f1, badaEnv_c_f2, badaEnv_c_d0cr, badaEnv_c_d2cr, badaEnv_S_ref, badaEnv_c_tc1, badaEnv_c_tc2, badaEnv_c_tc3, badaEnv_c_tc4, badaEnv_c_tc5, badaEnv_c_tcr, badaEnv_c_tdes_low, badaEnv_c_tdes_high, badaEnv_h_p_des] at hth
  try simp only [hmc] at hth
  simp only [Kern.bada_jet_sgr, badaEnv_c_fcr, badaEnv_c_f1, badaEnv_c_f2, badaEnv_c_d0cr, badaEnv_c_d2cr, badaEnv_S_ref, badaEnv_c_tc1, badaEnv_c_tc2, badaEnv_c_tc3, badaEnv_c_tc4, badaEnv_c_tc5, badaEnv_c_tcr, badaEnv_c_tdes_low, badaEnv_c_tdes_high, badaEnv_h_p_des]
  try simp only [hmc]
  try simp only [hth]
  cases cr <;> (simp only [Bada.sgr, Bada.sgrOf, Bada.fuelFlow, Bada.selectFuelFlow, Bada.nominalFuelFlow, Bada.cruiseFuelFlow, Bada.sfc] <;> (try bada_env) <;> bada_finish)

theorem bada_thrust_turboprop (P : Bada.Params ℝ) (m T h v rocd acc gs : ℝ) (cr : Bool) :
    Kern.bada_turboprop_thrust (badaEnv P) m T h v rocd acc cr = Bada.thrust .turboprop P m ⟨T, h, v, rocd, acc, gs, cr⟩ := by
  have hmc := (bada_max_climb P h v T).2.1
  simp only [Kern.bada_turboprop_max_climb, badaEnv_c_fcr, badaEnv_c_f1, badaEnv_c_f2, badaEnv_c_d0cr, badaEnv_c_d2cr, badaEnv_S_ref, badaEnv_c_tc1, badaEnv_c_tc2, badaEnv_c_tc3, badaEnv_c_tc4, badaEnv_c_tc5, badaEnv_c_tcr, badaEnv_c_tdes_low, badaEnv_c_tdes_high, badaEnv_h_p_des] at hmc
  simp only [Kern.bada_turboprop_thrust, badaEnv_c_fcr, badaEnv_c_f1, badaEnv_c_f2, badaEnv_c_d0cr, badaEnv_c_d2cr, badaEnv_S_ref, badaEnv_c_tc1, badaEnv_c_tc2, badaEnv_c_tc3, badaEnv_c_tc4, badaEnv_c_tc5, badaEnv_c_tcr, badaEnv_c_tdes_low, badaEnv_c_tdes_high, badaEnv_h_p_des]
  try simp only [hmc]
  cases cr <;> bada_close_folded

theorem bada_sgr_turboprop (P : Bada.Params ℝ) (m T h v rocd acc gs : ℝ) (cr : Bool) :
    Kern.bada_turboprop_sgr (badaEnv P) m T h v rocd acc cr gs = Bada.sgr .turboprop P m ⟨T, h, v, rocd, acc, gs, cr⟩ := by
  have hmc := (bada_max_climb P h v T).2.1
  simp only [Kern.bada_turboprop_max_climb, badaEnv_c_fcr, badaEnv_c_f1, badaEnv_c_f2, badaEnv_c_d0cr, badaEnv_c_d2cr, badaEnv_S_ref, badaEnv_c_tc1, badaEnv_c_tc2, badaEnv_c_tc3, badaEnv_c_tc4, badaEnv_c_tc5, badaEnv_c_tcr, badaEnv_c_tdes_low, badaEnv_c_tdes_high, badaEnv_h_p_des] at hmc
  have hth := bada_thrust_turboprop P m T h v rocd acc gs cr
  simp only [Kern.bada_turboprop_thrust, badaEnv_c_fcr, badaEnv_c_f1, badaEnv_c_f2, badaEnv_c_d0cr, badaEnv_c_d2cr, badaEnv_S_ref, badaEnv_c_tc1, badaEnv_c_tc2, badaEnv_c_tc3, badaEnv_c_tc4, badaEnv_c_tc5, badaEnv_c_tcr, badaEnv_c_tdes_low, badaEnv_c_tdes_high, badaEnv_h_p_des] at hth
  try simp only [hmc] at hth
  simp only [Kern.bada_turboprop_sgr, badaEnv_c_fcr, badaEnv_c_f1, badaEnv_c_f2, badaEnv_c_d0cr, badaEnv_c_d2cr, badaEnv_S_ref, badaEnv_c_tc1, badaEnv_c_tc2, badaEnv_c_tc3, badaEnv_c_tc4, badaEnv_c_tc5, badaEnv_c_tcr, badaEnv_c_tdes_low, badaEnv_c_tdes_high, badaEnv_h_p_des]
  try simp only [hmc]
  try simp only [hth]
  cases cr <;> (simp only [Bada.sgr, Bada.sgrOf, Bada.fuelFlow, Bada.selectFuelFlow, Bada.nominalFuelFlow, Bada.cruiseFuelFlow, Bada.sfc] <;> (try bada_env) <;> bada_finish)

theorem bada_thrust_piston (P : Bada.Params ℝ) (m T h v rocd acc gs : ℝ) (cr : Bool) :
    Kern.bada_piston_thrust (badaEnv P) m T h v rocd acc cr = Bada.thrust .piston P m ⟨T, h, v, rocd, acc, gs, cr⟩ := by
  have hmc := (bada_max_climb P h v T).2.2
  simp only [Kern.bada_piston_max_climb, badaEnv_c_fcr, badaEnv_c_f1, badaEnv_c_f2, badaEnv_c_d0cr, badaEnv_c_d2cr, badaEnv_S_ref, badaEnv_c_tc1, badaEnv_c_tc2, badaEnv_c_tc3, badaEnv_c_tc4, badaEnv_c_tc5, badaEnv_c_tcr, badaEnv_c_tdes_low, badaEnv_c_tdes_high, badaEnv_h_p_des] at hmc
  simp only [Kern.bada_piston_thrust, badaEnv_c_fcr, badaEnv_c_f1, badaEnv_c_f2, badaEnv_c_d0cr, badaEnv_c_d2cr, badaEnv_S_ref, badaEnv_c_tc1, badaEnv_c_tc2, badaEnv_c_tc3, badaEnv_c_tc4, badaEnv_c_tc5, badaEnv_c_tcr, badaEnv_c_tdes_low, badaEnv_c_tdes_high, badaEnv_h_p_des]
  try simp only [hmc]
  cases cr <;> bada_close_folded

theorem bada_sgr_piston (P : Bada.Params ℝ) (m T h v rocd acc gs : ℝ) (cr : Bool) :
    Kern.bada_piston_sgr (badaEnv P) m T h v rocd acc cr gs = Bada.sgr .piston P m ⟨T, h, v, rocd, acc, gs, cr⟩ := by
  have hmc := (bada_max_climb P h v T).2.2
  simp only [Kern.bada_piston_max_climb, badaEnv_c_fcr, badaEnv_c_f1, badaEnv_c_f2, badaEnv_c_d0cr, badaEnv_c_d2cr, badaEnv_S_ref, badaEnv_c_tc1, badaEnv_c_tc2, badaEnv_c_tc3, badaEnv_c_tc4, badaEnv_c_tc5, badaEnv_c_tcr, badaEnv_c_tdes_low, badaEnv_c_tdes_high, badaEnv_h_p_des] at hmc
  have hth := bada_thrust_piston P m T h v rocd acc gs cr
  simp only [Kern.bada_piston_thrust, badaEnv_c_fcr, badaEnv_c_f1, badaEnv_c_f2, badaEnv_c_d0cr, badaEnv_c_d2cr, badaEnv_S_ref, badaEnv_c_tc1, badaEnv_c_tc2, badaEnv_c_tc3, badaEnv_c_tc4, badaEnv_c_tc5, badaEnv_c_tcr, badaEnv_c_tdes_low, badaEnv_c_tdes_high, badaEnv_h_p_des] at hth
  try simp only [hmc] at hth
  simp only [Kern.bada_piston_sgr, badaEnv_c_fcr, badaEnv_c_f1, badaEnv_c_f2, badaEnv_c_d0cr, badaEnv_c_d2cr, badaEnv_S_ref, badaEnv_c_tc1, badaEnv_c_tc2, badaEnv_c_tc3, badaEnv_c_tc4, badaEnv_c_tc5, badaEnv_c_tcr, badaEnv_c_tdes_low, badaEnv_c_tdes_high, badaEnv_h_p_des]
  try simp only [hmc]
  try simp only [hth]
  cases cr <;> (simp only [Bada.sgr, Bada.sgrOf, Bada.fuelFlow, Bada.selectFuelFlow, Bada.nominalFuelFlow, Bada.cruiseFuelFlow, Bada.sfc] <;> (try bada_env) <;> bada_finish)

/-- `Bada3FuelBurnModel.calculate_thrust`, as the source text says it, is `Bada.thrust` for every engine class -/
theorem bada_thrust (P : Bada.Params ℝ) (m T h v rocd acc gs : ℝ) (cr : Bool) :
    Kern.bada_jet_thrust (badaEnv P) m T h v rocd acc cr = Bada.thrust .jet P m ⟨T, h, v, rocd, acc, gs, cr⟩ ∧
    Kern.bada_turboprop_thrust (badaEnv P) m T h v rocd acc cr = Bada.thrust .turboprop P m ⟨T, h, v, rocd, acc, gs, cr⟩ ∧
    Kern.bada_piston_thrust (badaEnv P) m T h v rocd acc cr = Bada.thrust .piston P m ⟨T, h, v, rocd, acc, gs, cr⟩ :=
  ⟨bada_thrust_jet P m T h v rocd acc gs cr, bada_thrust_turboprop P m T h v rocd acc gs cr, bada_thrust_piston P m T h v rocd acc gs cr⟩

/-- `calculate_specific_ground_range` (zero-flow guard included) is `Bada.sgr` -/
theorem bada_sgr (P : Bada.Params ℝ) (m T h v rocd acc gs : ℝ) (cr : Bool) :
    Kern.bada_jet_sgr (badaEnv P) m T h v rocd acc cr gs = Bada.sgr .jet P m ⟨T, h, v, rocd, acc, gs, cr⟩ ∧
    Kern.bada_turboprop_sgr (badaEnv P) m T h v rocd acc cr gs = Bada.sgr .turboprop P m ⟨T, h, v, rocd, acc, gs, cr⟩ ∧
    Kern.bada_piston_sgr (badaEnv P) m T h v rocd acc cr gs = Bada.sgr .piston P m ⟨T, h, v, rocd, acc, gs, cr⟩ :=
  ⟨bada_sgr_jet P m T h v rocd acc gs cr, bada_sgr_turboprop P m T h v rocd acc gs cr, bada_sgr_piston P m T h v rocd acc gs cr⟩

end KernelBridge
