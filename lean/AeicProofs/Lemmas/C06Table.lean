/-
  C06 helper lemmas, part 3: from the table checks (`validate`) to a duplicate-free complete grid, value lookup,
  evaluation at a node / bounded / rejected (over ℝ).
-/
import AeicProofs.Lemmas.C06Interp
import Mathlib.Data.List.ProdSigma

namespace Aeic.PerfTable
open List

theorem memP_real (p : ℝ × ℝ) (l : List (ℝ × ℝ)) : memP p l = true ↔ p ∈ l := by
  unfold memP
  simp only [any_eq_true, Bool.and_eq_true, seq_real]
  constructor
  · rintro ⟨q, hq, h1, h2⟩
    have : p = q := Prod.ext h1 h2
    rw [this]; exact hq
  · intro h; exact ⟨p, h, rfl, rfl⟩

theorem hasDupP_false (l : List (ℝ × ℝ)) : hasDupP l = false ↔ l.Nodup := by
  induction l with
  | nil => simp [hasDupP]
  | cons p ps ih =>
    unfold hasDupP
    rw [Bool.or_eq_false_iff, ih, nodup_cons, ← Bool.not_eq_true, memP_real]

theorem mem_sub (tol : ℝ) (p : Phase) (t : List (Row ℝ)) (r : Row ℝ) :
    r ∈ sub tol p t ↔ r ∈ t ∧ inPhase tol p r = true := by
  unfold sub; simp

theorem sub_sub_self (tol : ℝ) (p : Phase) (t : List (Row ℝ)) : sub tol p (sub tol p t) = sub tol p t := by
  unfold sub; rw [filter_filter]; simp

theorem mem_fls (s : List (Row ℝ)) (f : ℝ) : f ∈ fls s ↔ ∃ r ∈ s, r.fl = f := by
  unfold fls; rw [mem_sortU]; simp

theorem mem_masses (s : List (Row ℝ)) (m : ℝ) : m ∈ masses s ↔ ∃ r ∈ s, r.mass = m := by
  unfold masses; rw [mem_sortU]; simp

theorem fls_sorted (s : List (Row ℝ)) : (fls s).Pairwise (· < ·) := sortU_sorted _
theorem masses_sorted (s : List (Row ℝ)) : (masses s).Pairwise (· < ·) := sortU_sorted _

/-- a sub-table is a duplicate-free, complete FL × mass grid -/
structure GridOK (s : List (Row ℝ)) : Prop where
  nodup : (s.map fun r => (r.fl, r.mass)).Nodup
  complete : ∀ f ∈ fls s, ∀ m ∈ masses s, ∃ r ∈ s, r.fl = f ∧ r.mass = m

theorem coverageOk_grid (s : List (Row ℝ)) (h : coverageOk s = true) : GridOK s := by
  unfold coverageOk at h
  simp only [Bool.and_eq_true, Bool.not_eq_true', beq_iff_eq] at h
  obtain ⟨hd, hc⟩ := h
  have nd : (s.map fun r => (r.fl, r.mass)).Nodup := (hasDupP_false _).mp hd
  refine ⟨nd, ?_⟩
  intro f hf m hm
  have hsub : (s.map fun r => (r.fl, r.mass)) ⊆ (fls s).product (masses s) := by
    intro q hq
    obtain ⟨r, hr, rfl⟩ := mem_map.mp hq
    exact pair_mem_product.mpr ⟨(mem_fls s _).mpr ⟨r, hr, rfl⟩, (mem_masses s _).mpr ⟨r, hr, rfl⟩⟩
  have hsp := subperm_of_subset nd hsub
  have hlen : ((fls s).product (masses s)).length ≤ (s.map fun r => (r.fl, r.mass)).length := by
    have : ((fls s).product (masses s)).length = (fls s).length * (masses s).length := length_product _ _
    rw [this, length_map, hc]
  have hperm := hsp.perm_of_length_le hlen
  have : (f, m) ∈ (s.map fun r => (r.fl, r.mass)) := hperm.mem_iff.mpr (pair_mem_product.mpr ⟨hf, hm⟩)
  obtain ⟨r, hr, he⟩ := mem_map.mp this
  simp only [Prod.mk.injEq] at he
  exact ⟨r, hr, he.1, he.2⟩

/-- the count-only check (before the fix) does NOT give a complete grid — see `C06.count_only_check_accepts_hole`. -/
theorem GridOK.inj {s : List (Row ℝ)} (g : GridOK s) {r r' : Row ℝ} (hr : r ∈ s) (hr' : r' ∈ s)
    (h1 : r'.fl = r.fl) (h2 : r'.mass = r.mass) : r' = r :=
  inj_on_of_nodup_map g.nodup hr' hr (by simp [h1, h2])

theorem cell_eq (s : List (Row ℝ)) (fld : Row ℝ → ℝ) (g : GridOK s) (r : Row ℝ) (hr : r ∈ s) :
    cell s fld r.fl r.mass = fld r := by
  unfold cell
  cases h : s.reverse.find? (fun r' => seq r'.fl r.fl && seq r'.mass r.mass) with
  | none =>
    rw [find?_eq_none] at h
    have := h r (mem_reverse.mpr hr)
    simp at this
  | some r' =>
    have hp := find?_some h
    have hm := mem_reverse.mp (mem_of_find?_eq_some h)
    simp only [Bool.and_eq_true, seq_real] at hp
    rw [g.inj hr hm hp.1 hp.2]

theorem cell1_eq (s : List (Row ℝ)) (fld : Row ℝ → ℝ) (r : Row ℝ) (hr : r ∈ s)
    (hinj : ∀ r' ∈ s, r'.fl = r.fl → r' = r) : cell1 s fld r.fl = fld r := by
  unfold cell1
  cases h : s.find? (fun r' => seq r'.fl r.fl) with
  | none =>
    rw [find?_eq_none] at h
    have := h r hr
    simp at this
  | some r' =>
    have hp := find?_some h
    have hm := mem_of_find?_eq_some h
    simp only [seq_real] at hp
    rw [hinj r' hm hp]

theorem eq_of_mem_length_le_one {l : List ℝ} (h : ¬ l.length > 1) {a b : ℝ} (ha : a ∈ l) (hb : b ∈ l) : a = b := by
  match l, h, ha, hb with
  | [x], _, ha, hb => simp at ha hb; rw [ha, hb]
  | _ :: _ :: _, h, _, _ => simp at h

/-! ### validate -/

theorem validate_ok (tol : ℝ) (t : List (Row ℝ)) (h : validate tol t = .ok ()) :
    (masses t).length = nMassExpected tol t ∧ coverageOk (sub tol .cruise t) = true ∧
    coverageOk (sub tol .climb t) = true ∧ coverageOk (sub tol .descend t) = true := by
  unfold validate at h
  by_cases h1 : ((masses t).length != nMassExpected tol t) = true
  · simp [h1] at h
  · by_cases h2 : (!(coverageOk (sub tol .cruise t) && coverageOk (sub tol .climb t) && coverageOk (sub tol .descend t))) = true
    · simp only [h1, h2] at h; simp at h
    · simp only [bne_iff_ne, ne_eq, Decidable.not_not] at h1
      simp only [Bool.not_eq_true', Bool.not_eq_false, Bool.and_eq_true] at h2
      exact ⟨h1, h2.1.1, h2.1.2, h2.2⟩

theorem validate_sub_grid (tol : ℝ) (t : List (Row ℝ)) (p : Phase) (h : validate tol (sub tol p t) = .ok ()) :
    GridOK (sub tol p t) := by
  obtain ⟨_, hz, hc, hd⟩ := validate_ok tol _ h
  cases p
  · rw [sub_sub_self] at hc; exact coverageOk_grid _ hc
  · rw [sub_sub_self] at hz; exact coverageOk_grid _ hz
  · rw [sub_sub_self] at hd; exact coverageOk_grid _ hd

theorem validate_grid (tol : ℝ) (t : List (Row ℝ)) (p : Phase) (h : validate tol t = .ok ()) :
    GridOK (sub tol p t) := by
  obtain ⟨_, hz, hc, hd⟩ := validate_ok tol _ h
  cases p
  · exact coverageOk_grid _ hc
  · exact coverageOk_grid _ hz
  · exact coverageOk_grid _ hd

theorem prep_ok (tol : ℝ) (t : List (Row ℝ)) (p : Phase) (pr : Prepared ℝ) (h : prep tol t p = .ok pr) :
    validate tol (sub tol p t) = .ok () ∧ pr = ⟨sub tol p t, fls (sub tol p t), masses (sub tol p t)⟩ := by
  unfold prep at h
  cases hv : validate tol (sub tol p t) with
  | error e => simp [hv] at h
  | ok u =>
    simp [hv] at h
    exact ⟨rfl, h.symm⟩

theorem prep_of_valid (tol : ℝ) (t : List (Row ℝ)) (p : Phase) (h : validate tol (sub tol p t) = .ok ()) :
    prep tol t p = .ok ⟨sub tol p t, fls (sub tol p t), masses (sub tol p t)⟩ := by
  unfold prep; simp [h]

/-! ### evaluation of a prepared phase table -/

/-- the `Prepared` value of a sub-table `s` -/
noncomputable def prepOf (s : List (Row ℝ)) : Prepared ℝ := ⟨s, fls s, masses s⟩

theorem interpField_node (s : List (Row ℝ)) (g : GridOK s) (fld : Row ℝ → ℝ) (r : Row ℝ) (hr : r ∈ s) :
    interpField (prepOf s) fld r.fl r.mass = .ok (fld r) := by
  unfold interpField prepOf
  have hf : r.fl ∈ fls s := (mem_fls s _).mpr ⟨r, hr, rfl⟩
  have hm : r.mass ∈ masses s := (mem_masses s _).mpr ⟨r, hr, rfl⟩
  simp only
  split_ifs with h2
  · rw [interp2_node _ _ _ _ _ (fls_sorted s) (masses_sorted s) h2 hf hm, cell_eq s fld g r hr]
  · rw [interp1_node _ _ _ (fls_sorted s) hf, cell1_eq s fld r hr]
    intro r' hr' hfl
    have : r'.mass = r.mass :=
      eq_of_mem_length_le_one h2 ((mem_masses s _).mpr ⟨r', hr', rfl⟩) hm
    exact g.inj hr hr' hfl this

theorem evalPrepared_node (s : List (Row ℝ)) (g : GridOK s) (r : Row ℝ) (hr : r ∈ s) :
    evalPrepared (prepOf s) r.fl r.mass = .ok ⟨r.tas, r.rocd, r.ff⟩ := by
  unfold evalPrepared
  rw [interpField_node s g (·.tas) r hr, interpField_node s g (·.rocd) r hr, interpField_node s g (·.ff) r hr]

/-- single-mass phase: the mass argument is ignored -/
theorem interpField_mass_ignored (s : List (Row ℝ)) (fld : Row ℝ → ℝ) (fl m m' : ℝ) (h : ¬ (masses s).length > 1) :
    interpField (prepOf s) fld fl m = interpField (prepOf s) fld fl m' := by
  unfold interpField prepOf; simp only [h, ↓reduceIte]

theorem interpField_oob_fl (s : List (Row ℝ)) (fld : Row ℝ → ℝ) (fl m : ℝ) (h : inBounds (fls s) fl = false) :
    interpField (prepOf s) fld fl m = .error .oobFl := by
  unfold interpField prepOf; simp only
  split_ifs
  · exact interp2_oob_fl _ _ _ _ _ h
  · exact interp1_oob _ _ _ h

theorem interpField_oob_mass (s : List (Row ℝ)) (fld : Row ℝ → ℝ) (fl m : ℝ) (h2 : (masses s).length > 1)
    (hx : inBounds (fls s) fl = true) (h : inBounds (masses s) m = false) :
    interpField (prepOf s) fld fl m = .error .oobMass := by
  unfold interpField prepOf; simp only [h2, ↓reduceIte]
  exact interp2_oob_mass _ _ _ _ _ hx h

/-- the value returned for one field lies between the field's values in (at most four) rows of the sub-table that
    surround the query point -/
theorem interpField_bounded (s : List (Row ℝ)) (g : GridOK s) (fld : Row ℝ → ℝ) (fl m y : ℝ)
    (h : interpField (prepOf s) fld fl m = .ok y) :
    ∃ r00 ∈ s, ∃ r01 ∈ s, ∃ r10 ∈ s, ∃ r11 ∈ s,
      r00.fl = r01.fl ∧ r10.fl = r11.fl ∧ r00.mass = r10.mass ∧ r01.mass = r11.mass ∧
      r00.fl ≤ fl ∧ fl ≤ r10.fl ∧
      ((masses s).length > 1 → r00.mass ≤ m ∧ m ≤ r01.mass) ∧
      min (min (fld r00) (fld r01)) (min (fld r10) (fld r11)) ≤ y ∧
      y ≤ max (max (fld r00) (fld r01)) (max (fld r10) (fld r11)) := by
  unfold interpField prepOf at h
  simp only at h
  split_ifs at h with h2
  · obtain ⟨f0, hf0, f1, hf1, m0, hm0, m1, hm1, a1, a2, a3, a4, lo, hi⟩ :=
      interp2_bounded _ _ _ _ _ _ (fls_sorted s) (masses_sorted s) h2 h
    obtain ⟨r00, h00, e00⟩ := g.complete f0 hf0 m0 hm0
    obtain ⟨r01, h01, e01⟩ := g.complete f0 hf0 m1 hm1
    obtain ⟨r10, h10, e10⟩ := g.complete f1 hf1 m0 hm0
    obtain ⟨r11, h11, e11⟩ := g.complete f1 hf1 m1 hm1
    have c00 := cell_eq s fld g r00 h00
    have c01 := cell_eq s fld g r01 h01
    have c10 := cell_eq s fld g r10 h10
    have c11 := cell_eq s fld g r11 h11
    rw [e00.1, e00.2] at c00; rw [e01.1, e01.2] at c01; rw [e10.1, e10.2] at c10; rw [e11.1, e11.2] at c11
    rw [c00, c01, c10, c11] at lo hi
    refine ⟨r00, h00, r01, h01, r10, h10, r11, h11, ?_, ?_, ?_, ?_, ?_, ?_, ?_, lo, hi⟩
    · rw [e00.1, e01.1]
    · rw [e10.1, e11.1]
    · rw [e00.2, e10.2]
    · rw [e01.2, e11.2]
    · rw [e00.1]; exact a1
    · rw [e10.1]; exact a2
    · intro _; rw [e00.2, e01.2]; exact ⟨a3, a4⟩
  · obtain ⟨a, ha, b, hb, a1, a2, lo, hi⟩ := interp1_bounded _ _ _ _ (fls_sorted s) h
    obtain ⟨ra, hra, ea⟩ := (mem_fls s a).mp ha
    obtain ⟨rb, hrb, eb⟩ := (mem_fls s b).mp hb
    have inj : ∀ r ∈ s, ∀ r' ∈ s, r'.fl = r.fl → r' = r := by
      intro r hr r' hr' hfl
      exact g.inj hr hr' hfl (eq_of_mem_length_le_one h2 ((mem_masses s _).mpr ⟨r', hr', rfl⟩)
        ((mem_masses s _).mpr ⟨r, hr, rfl⟩))
    have ca := cell1_eq s fld ra hra (inj ra hra)
    have cb := cell1_eq s fld rb hrb (inj rb hrb)
    rw [ea] at ca; rw [eb] at cb
    rw [ca, cb] at lo hi
    refine ⟨ra, hra, ra, hra, rb, hrb, rb, hrb, rfl, rfl, ?_, ?_, ?_, ?_, ?_, ?_, ?_⟩
    · exact eq_of_mem_length_le_one h2 ((mem_masses s _).mpr ⟨ra, hra, rfl⟩) ((mem_masses s _).mpr ⟨rb, hrb, rfl⟩)
    · exact eq_of_mem_length_le_one h2 ((mem_masses s _).mpr ⟨ra, hra, rfl⟩) ((mem_masses s _).mpr ⟨rb, hrb, rfl⟩)
    · rw [ea]; exact a1
    · rw [eb]; exact a2
    · intro h; exact absurd h h2
    · simpa using lo
    · simpa using hi

end Aeic.PerfTable
