/-
  The Manhattan world (`Geo.manhattan`) satisfies the per-leg geodesic laws on axis-aligned legs:
  non-vacuity of the hypotheses of the C15 theorems, for the very oracle used by correspondence (a).
-/
import AeicProofs.Lemmas.C15Geo

namespace Aeic.Geo

theorem manhattan_north (sx sy : ℝ) (_hsx : 0 < sx) (hsy : 0 < sy) (a1 a2 b2 : ℝ) (h2 : a2 < b2) :
    LegLaws (manhattan sx sy) (a1, a2) (a1, b2) := by
  have hy : sy ≠ 0 := ne_of_gt hsy
  have n2 : ¬ b2 < a2 := not_lt.mpr h2.le
  constructor <;> simp only [manhattan, FwdR.pos, lit_real, isAz, h2, n2, lt_irrefl, or_false, if_true, if_false, or_self]
  all_goals norm_num
  · exact mul_nonneg (by linarith) hsy.le
  · field_simp; ring
  · intro s hs0 _
    have e := div_mul_cancel₀ s hy
    rcases eq_or_lt_of_le hs0 with rfl | hpos
    · simp
    · have q : 0 < s / sy := div_pos hpos hsy
      split_ifs <;> linarith
  · intro s _; field_simp; ring

theorem manhattan_south (sx sy : ℝ) (_hsx : 0 < sx) (hsy : 0 < sy) (a1 a2 b2 : ℝ) (h2 : b2 < a2) :
    LegLaws (manhattan sx sy) (a1, a2) (a1, b2) := by
  have hy : sy ≠ 0 := ne_of_gt hsy
  have n2 : ¬ a2 < b2 := not_lt.mpr h2.le
  constructor <;> simp only [manhattan, FwdR.pos, lit_real, isAz, h2, n2, lt_irrefl, or_true, if_true, if_false, or_self]
  all_goals norm_num
  · exact mul_nonneg (by linarith) hsy.le
  · field_simp; ring
  · intro s hs0 _
    have e := div_mul_cancel₀ s hy
    rcases eq_or_lt_of_le hs0 with rfl | hpos
    · simp
    · have q : 0 < s / sy := div_pos hpos hsy
      split_ifs with c <;> first | linarith | exact absurd (Or.inr q) c
  · intro s _; field_simp; ring

theorem manhattan_east (sx sy : ℝ) (hsx : 0 < sx) (_hsy : 0 < sy) (a1 a2 b1 : ℝ) (h1 : a1 ≤ b1) :
    LegLaws (manhattan sx sy) (a1, a2) (b1, a2) := by
  have hx : sx ≠ 0 := ne_of_gt hsx
  have n1 : ¬ b1 < a1 := not_lt.mpr h1
  constructor <;> simp only [manhattan, FwdR.pos, lit_real, isAz, n1, lt_irrefl, or_false, if_false, or_self]
  all_goals norm_num
  · exact mul_nonneg (by linarith) hsx.le
  · field_simp; ring
  · intro s hs0 _
    have e := div_mul_cancel₀ s hx
    rcases eq_or_lt_of_le hs0 with rfl | hpos
    · simp
    · have q : 0 < s / sx := div_pos hpos hsx
      split_ifs <;> linarith
  · intro s _; field_simp; ring

theorem manhattan_west (sx sy : ℝ) (hsx : 0 < sx) (_hsy : 0 < sy) (a1 a2 b1 : ℝ) (h1 : b1 < a1) :
    LegLaws (manhattan sx sy) (a1, a2) (b1, a2) := by
  have hx : sx ≠ 0 := ne_of_gt hsx
  have n1 : ¬ a1 < b1 := not_lt.mpr h1.le
  constructor <;> simp only [manhattan, FwdR.pos, lit_real, isAz, h1, n1, lt_irrefl, or_true, if_true, if_false, or_self]
  all_goals norm_num
  · exact mul_nonneg (by linarith) hsx.le
  · field_simp; ring
  · intro s hs0 _
    have e := div_mul_cancel₀ s hx
    rcases eq_or_lt_of_le hs0 with rfl | hpos
    · simp
    · have q : 0 < s / sx := div_pos hpos hsx
      split_ifs <;> linarith
  · intro s _; field_simp; ring

/-- every axis-aligned leg of the Manhattan world satisfies the geodesic laws. -/
theorem manhattan_legLaws (sx sy : ℝ) (hsx : 0 < sx) (hsy : 0 < sy) (a b : ℝ × ℝ)
    (hal : a.1 = b.1 ∨ a.2 = b.2) : LegLaws (manhattan sx sy) a b := by
  obtain ⟨a1, a2⟩ := a; obtain ⟨b1, b2⟩ := b
  simp only at hal
  rcases lt_trichotomy a2 b2 with h2 | h2 | h2
  · rcases hal with h | h
    · subst h; exact manhattan_north sx sy hsx hsy _ _ _ h2
    · exact absurd h (ne_of_lt h2)
  · subst h2
    rcases le_or_gt a1 b1 with h1 | h1
    · exact manhattan_east sx sy hsx hsy _ _ _ h1
    · exact manhattan_west sx sy hsx hsy _ _ _ h1
  · rcases hal with h | h
    · subst h; exact manhattan_south sx sy hsx hsy _ _ _ h2
    · exact absurd h (ne_of_gt h2)

/-- distances in the Manhattan world are symmetric (for every pair, aligned or not). -/
theorem manhattan_dist_symm (sx sy : ℝ) (p q : ℝ × ℝ) :
    ((manhattan sx sy).inv p.1 p.2 q.1 q.2).dist = ((manhattan sx sy).inv q.1 q.2 p.1 p.2).dist := by
  obtain ⟨p1, p2⟩ := p; obtain ⟨q1, q2⟩ := q
  simp only [manhattan, lit_real, sabs', zero_real]
  rcases lt_trichotomy p2 q2 with h2 | h2 | h2 <;> rcases lt_trichotomy p1 q1 with h1 | h1 | h1 <;>
    simp [h1, h2, not_lt.mpr, le_of_lt]

end Aeic.Geo
