/-
  Helper lemmas for C17: association-list facts behind the attribute routing of the builder object.
-/
import AeicModel.Builder

namespace Aeic.Builder
variable {ν : Type}

theorem lookup_setKey_self (l : List (String × ν)) (k : String) (v : ν) :
    (setKey l k v).lookup k = some v := by
  induction l with
  | nil => simp [setKey, List.lookup]
  | cons p t ih =>
    obtain ⟨k', v'⟩ := p
    unfold setKey
    by_cases h : k' = k
    · simp [h, List.lookup]
    · have h' : (k == k') = false := by simp [beq_eq_false_iff_ne]; exact fun e => h e.symm
      simp [h, List.lookup, h', ih]

theorem lookup_setKey_other (l : List (String × ν)) (k k2 : String) (v : ν) (hne : k2 ≠ k) :
    (setKey l k v).lookup k2 = l.lookup k2 := by
  induction l with
  | nil =>
    have h' : (k2 == k) = false := by simp [beq_eq_false_iff_ne]; exact hne
    simp [setKey, List.lookup, h']
  | cons p t ih =>
    obtain ⟨k', v'⟩ := p
    unfold setKey
    by_cases h : k' = k
    · subst h
      have h' : (k2 == k') = false := by simp [beq_eq_false_iff_ne]; exact hne
      simp [List.lookup, h']
    · simp only [h, if_false, List.lookup]
      cases hk : (k2 == k') <;> simp [ih]

/-- no name is both a builder attribute and a context attribute -/
def Disjoint (o : Obj ν) : Prop :=
  ∀ c, o.ctx = some c → ∀ name, (o.dict.lookup name).isSome → (c.lookup name).isSome → False

end Aeic.Builder
