/-
  Monotone coordinate chains and additivity of the exact stub measure |Δlat| + |Δlon| along them.
-/
import AeicProofs.Lemmas.GridGeom
import AeicProofs.Lemmas.GridSum

namespace Aeic.Grid

open Aeic

/-- a list that is monotone in one of the two directions -/
def Monotone' (l : List ℝ) : Prop := l.Pairwise (· ≤ ·) ∨ l.Pairwise (· ≥ ·)

theorem coordChain_monotone (g : List ℝ) (hs : g.Pairwise (· < ·)) (x0 x1 : ℝ) (extra : List ℝ)
    (hex : ∀ e ∈ extra, Between x0 x1 e) : Monotone' (x0 :: coordInts g x0 x1 extra ++ [x1]) := by
  rcases le_or_gt x0 x1 with h | h
  · left
    refine chain_sorted_up g hs x0 x1 h extra ?_
    intro e he
    rcases hex e he with h' | h'
    · exact h'
    · exact ⟨by linarith [h'.1, h'.2], by linarith [h'.1, h'.2]⟩
  · right
    refine chain_sorted_down g hs x0 x1 h extra ?_
    intro e he
    rcases hex e he with h' | h'
    · exact ⟨by linarith [h'.1, h'.2], by linarith [h'.1, h'.2]⟩
    · exact h'

theorem chainLat_monotone (glat glon : List ℝ) (hlat : glat.Pairwise (· < ·)) (hlon : glon.Pairwise (· < ·))
    (s : Seg ℝ) : Monotone' (chainLat glat glon s) :=
  coordChain_monotone glat hlat s.lat0 s.lat1 _ (extra_lat_between glon hlon s)

theorem chainLon_monotone (glat glon : List ℝ) (hlat : glat.Pairwise (· < ·)) (hlon : glon.Pairwise (· < ·))
    (s : Seg ℝ) : Monotone' (chainLon glat glon s) :=
  coordChain_monotone glon hlon s.lon0 s.lon1 _ (extra_lon_between glat hlat s)

/-! ### telescoping sums of absolute differences -/

def absDiffs (l : List ℝ) : List ℝ := (pairs l).map (fun p => |p.2 - p.1|)

theorem absDiffs_cons_cons (a b : ℝ) (l : List ℝ) : absDiffs (a :: b :: l) = |b - a| :: absDiffs (b :: l) := rfl

theorem sum_absDiffs_up (a : ℝ) (l : List ℝ) (h : (a :: l).Pairwise (· ≤ ·)) :
    (absDiffs (a :: l)).sum = (a :: l).getLast (by simp) - a := by
  induction l generalizing a with
  | nil => simp [absDiffs]
  | cons b l ih =>
    have hl : (a :: b :: l).getLast (by simp) = (b :: l).getLast (by simp) := by simp
    rw [absDiffs_cons_cons, List.sum_cons, ih b (List.Pairwise.of_cons h), hl]
    have : a ≤ b := List.rel_of_pairwise_cons h List.mem_cons_self
    rw [abs_of_nonneg (by linarith)]; ring

theorem sum_absDiffs_down (a : ℝ) (l : List ℝ) (h : (a :: l).Pairwise (· ≥ ·)) :
    (absDiffs (a :: l)).sum = a - (a :: l).getLast (by simp) := by
  induction l generalizing a with
  | nil => simp [absDiffs]
  | cons b l ih =>
    have hl : (a :: b :: l).getLast (by simp) = (b :: l).getLast (by simp) := by simp
    rw [absDiffs_cons_cons, List.sum_cons, ih b (List.Pairwise.of_cons h), hl]
    have : a ≥ b := List.rel_of_pairwise_cons h List.mem_cons_self
    rw [abs_of_nonpos (by linarith)]; ring

theorem sum_absDiffs_monotone (x0 x1 : ℝ) (L : List ℝ) (h : Monotone' (x0 :: L ++ [x1])) :
    (absDiffs (x0 :: L ++ [x1])).sum = |x1 - x0| := by
  have hlast : (x0 :: (L ++ [x1])).getLast (by simp) = x1 := by simp
  rcases h with h | h
  · have h' : (x0 :: (L ++ [x1])).Pairwise (· ≤ ·) := by simpa using h
    have h01 : x0 ≤ x1 := by
      have := List.rel_of_pairwise_cons h' (a' := x1) (by simp)
      exact this
    rw [List.cons_append, sum_absDiffs_up x0 _ h', hlast, abs_of_nonneg (by linarith)]
  · have h' : (x0 :: (L ++ [x1])).Pairwise (· ≥ ·) := by simpa using h
    have h01 : x0 ≥ x1 := List.rel_of_pairwise_cons h' (a' := x1) (by simp)
    rw [List.cons_append, sum_absDiffs_down x0 _ h', hlast, abs_of_nonpos (by linarith)]; ring

theorem sum_chainDists_taxi (A B : List ℝ) (hlen : A.length = B.length) :
    (chainDists taxi (A.zip B)).sum = (absDiffs A).sum + (absDiffs B).sum := by
  induction A generalizing B with
  | nil =>
    have : B = [] := by simpa using hlen.symm
    subst this; simp [chainDists, absDiffs]
  | cons a A ih =>
    cases B with
    | nil => simp at hlen
    | cons b B =>
      cases A with
      | nil =>
        have : B = [] := by simpa using hlen
        subst this; simp [chainDists, absDiffs]
      | cons a' A =>
        cases B with
        | nil => simp at hlen
        | cons b' B =>
          have := ih (b' :: B) (by simpa using hlen)
          simp only [List.zip_cons_cons] at this ⊢
          rw [chainDists_cons_cons, List.sum_cons, this, absDiffs_cons_cons, absDiffs_cons_cons,
            List.sum_cons, List.sum_cons]
          simp only [dP, taxi_real]
          ring

/-- **the stub measure is additive along the model's chain of crossing points** -/
theorem taxi_chain_additive (glat glon : List ℝ) (hlat : glat.Pairwise (· < ·)) (hlon : glon.Pairwise (· < ·))
    (s : Seg ℝ) : (chainDists taxi (chain glat glon s)).sum = segDist taxi s := by
  unfold chain
  rw [sum_chainDists_taxi _ _ (by simp)]
  unfold chainLat chainLon
  rw [sum_absDiffs_monotone _ _ _ (chainLat_monotone glat glon hlat hlon s),
    sum_absDiffs_monotone _ _ _ (chainLon_monotone glat glon hlat hlon s)]
  simp [segDist, taxi_real]

end Aeic.Grid
