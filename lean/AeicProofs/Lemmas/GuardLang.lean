/- Soundness of the checked reachability set of the guard language (helper). -/
import AeicModel.GuardLang

namespace Aeic.GuardLang

theorem run_mem_of_closed (prog : List Instr) (l : List S) (hcl : closed prog l = true) :
    ∀ (sched : List Bool) (s : S), s ∈ l → run prog s sched ∈ l := by
  intro sched
  induction sched with
  | nil => intro s hs; exact hs
  | cons t ts ih =>
    intro s hs
    simp only [run]
    apply ih
    have h := List.all_eq_true.mp hcl s hs
    simp only [Bool.and_eq_true, List.contains_iff_mem] at h
    cases t with
    | false => exact h.1
    | true => exact h.2

/-- if a list of states contains the initial state, is closed under every thread's step and contains no state in which
    both constructors succeeded, then no schedule whatsoever leads to such a state -/
theorem safe_of_closed (prog : List Instr) (l : List S) (hinit : l.contains S.init = true) (hcl : closed prog l = true)
    (hsafe : l.all (fun s => !bothOk prog s) = true) (sched : List Bool) :
    bothOk prog (run prog S.init sched) = false := by
  have hmem := run_mem_of_closed prog l hcl sched S.init (List.contains_iff_mem.mp hinit)
  have := List.all_eq_true.mp hsafe _ hmem
  simpa using this

end Aeic.GuardLang
