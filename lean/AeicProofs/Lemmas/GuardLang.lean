/- Soundness of a checked invariant set of the guard language (helper). -/
import AeicModel.GuardLang
namespace Aeic.GuardLang

/-- the states stored in a tree -/
def Tree.Holds (s : S) : Tree → Prop
  | .leaf => False
  | .node l _ b r => l.Holds s ∨ s ∈ b ∨ r.Holds s

theorem Tree.holds_of_mem (t : Tree) (k : Nat) (s : S) (h : t.mem k s = true) : t.Holds s := by
  induction t with
  | leaf => simp [Tree.mem] at h
  | node l k' b r ihl ihr =>
    simp only [Tree.mem] at h
    split at h
    · exact Or.inl (ihl h)
    · split at h
      · exact Or.inr (Or.inr (ihr h))
      · exact Or.inr (Or.inl (List.contains_iff_mem.mp h))

theorem Tree.all_holds (t : Tree) (p : S → Bool) (h : t.all p = true) (s : S) (hs : t.Holds s) : p s = true := by
  induction t with
  | leaf => cases hs
  | node l k b r ihl ihr =>
    simp only [Tree.all, Bool.and_eq_true] at h
    rcases hs with hs | hs | hs
    · exact ihl h.1.1 hs
    · exact List.all_eq_true.mp h.1.2 s hs
    · exact ihr h.2 hs

theorem run_holds_of_closed (prog : List Instr) (t : Tree) (hcl : closedT prog t = true) :
    ∀ (sched : List Act) (s : S), t.Holds s → t.Holds (run prog s sched) := by
  intro sched
  induction sched with
  | nil => intro s hs; exact hs
  | cons a as ih =>
    intro s hs
    simp only [run]
    apply ih
    have h := Tree.all_holds t _ hcl s hs
    have ha : a ∈ acts := by
      rcases a with ⟨x, y⟩
      cases x <;> cases y <;> simp [acts]
    have := List.all_eq_true.mp h a ha
    exact Tree.holds_of_mem t _ _ this

/-- if a search tree of states contains the initial state, is closed under every thread's step (with either choice bit)
    and contains no state in which both threads have constructed a store, then no schedule whatsoever — of any length,
    with any number of repeated and failed constructor calls — leads to such a state -/
theorem safe_of_closed (prog : List Instr) (t : Tree) (hinit : t.mem (key S.init) S.init = true)
    (hcl : closedT prog t = true) (hsafe : t.all (fun s => !bothOk s) = true) (sched : List Act) :
    bothOk (run prog S.init sched) = false := by
  have hmem := run_holds_of_closed prog t hcl sched S.init (Tree.holds_of_mem t _ _ hinit)
  have := Tree.all_holds t _ hsafe _ hmem
  simpa using this

end Aeic.GuardLang
