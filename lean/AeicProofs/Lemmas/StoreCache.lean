/- Helper lemmas about the LRU cache model (no property statements here). -/
import AeicModel.Store

namespace Aeic.Store

theorem find?_mem {c : Cache} {k : Nat} {it : Item} (h : c.find? k = some it) : (k, it) ∈ c.entries := by
  unfold Cache.find? at h
  cases hf : c.entries.find? (·.1 == k) with
  | none => simp [hf] at h
  | some e =>
    simp [hf] at h
    have hm := List.mem_of_find?_eq_some hf
    have hk := List.find?_some hf
    obtain ⟨a, b⟩ := e
    simp at hk h
    subst hk; subst h; exact hm

theorem evictLoop_sub (m n : Nat) (ord : List Nat) (es : List (Nat × Item)) :
    ∀ x, x ∈ (evictLoop m n es ord).1 → x ∈ es := by
  induction ord generalizing es with
  | nil => intro x hx; simpa [evictLoop] using hx
  | cons k ks ih =>
    intro x hx
    unfold evictLoop at hx
    split at hx
    · exact hx
    · have := ih _ x hx
      exact (List.mem_filter.mp this).1

/-- every entry of the cache after a successful insert is an old entry or the new one -/
theorem insert_mem {c c' : Cache} {k : Nat} {v : Item} (h : c.insert k v = .ok c') :
    ∀ x, x ∈ c'.entries → x ∈ c.entries ∨ x = (k, v) := by
  intro x hx
  unfold Cache.insert at h
  split at h
  · cases h
  · split at h
    · cases h; simpa using hx
    · split at h
      · cases h
      · cases h
        simp only [List.mem_append, List.mem_singleton] at hx
        rcases hx with hx | hx
        · exact Or.inl (evictLoop_sub _ _ _ _ _ hx)
        · exact Or.inr hx

theorem insert_max {c c' : Cache} {k : Nat} {v : Item} (h : c.insert k v = .ok c') :
    c'.maxBytes = c.maxBytes ∧ c'.noEvict = c.noEvict ∧ v.bytes ≤ c.maxBytes := by
  unfold Cache.insert at h
  split at h
  · cases h
  · rename_i hle
    split at h
    · cases h; exact ⟨rfl, rfl, by omega⟩
    · split at h
      · cases h
      · cases h; exact ⟨rfl, rfl, by omega⟩

theorem insert_new_mem {c c' : Cache} {k : Nat} {v : Item} (h : c.insert k v = .ok c') : (k, v) ∈ c'.entries := by
  unfold Cache.insert at h
  split at h
  · cases h
  · split at h
    · cases h; simp
    · split at h
      · cases h
      · cases h; simp

/-- a cache that may not evict either appends the new entry or refuses -/
theorem insert_noEvict {c : Cache} {k : Nat} {v : Item} (hn : c.noEvict = true) :
    c.insert k v =
      if v.bytes > c.maxBytes then .error .valueError
      else if sizeOfEntries c.entries + v.bytes ≤ c.maxBytes then
        .ok { c with entries := c.entries ++ [(k, v)], order := c.order.filter (· != k) ++ [k] }
      else .error .evictionRefused := by
  unfold Cache.insert
  simp [hn]

/-- a cache that may evict never refuses a value that fits by itself -/
theorem insert_evict_ok {c : Cache} {k : Nat} {v : Item} (hn : c.noEvict = false) (hv : v.bytes ≤ c.maxBytes) :
    ∃ c', c.insert k v = .ok c' := by
  unfold Cache.insert
  have : ¬ v.bytes > c.maxBytes := by omega
  simp only [this, if_false, hn]
  split
  · exact ⟨_, rfl⟩
  · simp

theorem insert_too_large {c : Cache} {k : Nat} {v : Item} (hv : v.bytes > c.maxBytes) :
    c.insert k v = .error .valueError := by
  unfold Cache.insert; simp [hv]

@[simp] theorem touch_entries (c : Cache) (k : Nat) : (c.touch k).entries = c.entries := rfl
@[simp] theorem touch_maxBytes (c : Cache) (k : Nat) : (c.touch k).maxBytes = c.maxBytes := rfl
@[simp] theorem touch_noEvict (c : Cache) (k : Nat) : (c.touch k).noEvict = c.noEvict := rfl

theorem get_some {c c' : Cache} {k : Nat} {it : Item} (h : c.get k = some (c', it)) :
    c' = c.touch k ∧ (k, it) ∈ c.entries := by
  unfold Cache.get at h
  cases hf : c.find? k with
  | none => simp [hf] at h
  | some x =>
    simp [hf] at h
    exact ⟨h.1.symm, h.2 ▸ find?_mem hf⟩

theorem get_none {c : Cache} {k : Nat} (h : c.get k = none) : ∀ it, (k, it) ∉ c.entries := by
  unfold Cache.get at h
  cases hf : c.find? k with
  | some x => simp [hf] at h
  | none =>
    intro it hm
    unfold Cache.find? at hf
    simp only [Option.map_eq_none_iff] at hf
    have := List.find?_eq_none.mp hf (k, it) hm
    simp at this

end Aeic.Store
