/- `sync`, `get_flight` and the assembled step lemma. -/
import AeicProofs.Lemmas.StoreAdd
import AeicProofs.Lemmas.StoreIndex

namespace Aeic.Store

theorem reindex_spec (w : World) (s : Sess) (hw : WInv w) (hs : w.sess = some s) :
    WInv ⟨(reindex s w.disk).2, some (reindex s w.disk).1⟩ ∧
    absW ⟨(reindex s w.disk).2, some (reindex s w.disk).1⟩ = absW w ∧
    (s.linked = true → s.indexable = some true → (reindex s w.disk).2.index = buildIndex w.disk.items) ∧
    (reindex s w.disk).2.items = w.disk.items ∧
    (reindex s w.disk).1.linked = s.linked ∧ (reindex s w.disk).1.indexable = s.indexable ∧
    (reindex s w.disk).1.mem = s.mem := by
  have hsi := hw.sess s hs
  unfold reindex
  by_cases hc : (s.indexable = some true && s.stale && s.linked) = true
  · rw [if_pos hc]
    refine ⟨⟨⟨hw.disk.absent, hw.disk.uniform⟩, ?_, ?_, ?_⟩, ?_, fun _ _ => rfl, rfl, rfl, rfl, rfl⟩
    · intro s' hs'; cases hs'
      exact ⟨hsi.noEvict, hsi.small, hsi.memShape, hsi.memSchema, hsi.fileShape, hsi.pendingShape, hsi.linkedShape⟩
    · intro _ _; rfl
    · intro s' hs' hm'; cases hs'
      have hl := (hsi.memShape hm').1
      simp [hl] at hc
    · simp [absW, hs, absSess, absSchema]
  · rw [if_neg hc]
    have hweq : (⟨w.disk, some s⟩ : World) = w := by cases w; simp_all
    refine ⟨by rw [hweq]; exact hw, by rw [hweq], ?_, rfl, rfl, rfl, rfl⟩
    intro hl hix
    have hm : s.mem = false := by
      by_contra hm
      have hm : s.mem = true := by simpa using hm
      have := (hsi.memShape hm).1; rw [this] at hl; cases hl
    have hx : w.disk.hasIndex = true := by
      have := (hsi.linkedShape hm hl).2.2; rw [hix] at this; simpa using this.symm
    apply hw.index hx
    intro s' hs' _
    rw [hs] at hs'; cases hs'
    simp [hix, hl] at hc
    exact hc

theorem scan_spec (id : Int) (es : List (Nat × Item)) (c : Cache) :
    (∃ o, (opGetFlight.scan id c es).1 = { c with order := o }) ∧
    (opGetFlight.scan id c es).2 =
      match (es.map (·.2)).find? (fun it => it.fid = some id) with
      | none => .none
      | some it => .item it := by
  induction es generalizing c with
  | nil => exact ⟨⟨c.order, rfl⟩, by simp [opGetFlight.scan]⟩
  | cons e rest ih =>
    obtain ⟨k, it⟩ := e
    unfold opGetFlight.scan
    by_cases h : it.fid = some id
    · simp only [h, if_true]
      exact ⟨⟨_, rfl⟩, by simp [h]⟩
    · simp only [h, if_false]
      obtain ⟨⟨o, ho⟩, h2⟩ := ih (c.touch k)
      refine ⟨⟨o, by rw [ho]; rfl⟩, ?_⟩
      rw [h2]; simp [List.find?_cons, h]

theorem getFlight_spec (w : World) (s : Sess) (id : Int) (hw : WInv w) (hs : w.sess = some s) :
    WInv (opGetFlight w s id).1 ∧
    specStep (absW w) (.getFlight id) = (absW (opGetFlight w s id).1, (opGetFlight w s id).2) := by
  have hsi := hw.sess s hs
  have hsess : (absW w).sess = some (absSess w.disk s) := by simp [absW, hs]
  unfold opGetFlight
  by_cases hix : s.indexable = some true
  · have h1 : (s.indexable != some true) = false := by simp [hix]
    rw [h1]
    simp only [Bool.false_eq_true, if_false]
    have hschema : ∃ fs, (absSess w.disk s).schema = some (fs, true) := by
      simp [absSess, absSchema, hix]
    obtain ⟨fs, hfs⟩ := hschema
    by_cases hl : s.linked = true
    · -- file-backed: lazy reindex, table lookup, then an ordinary read
      have hm : s.mem = false := by
        by_contra hm
        have hm : s.mem = true := by simpa using hm
        have := (hsi.memShape hm).1; rw [this] at hl; cases hl
      rw [if_neg (by simp [hl])]
      obtain ⟨hw', habs, hidx, hitems, hl', hix', hm'⟩ := reindex_spec w s hw hs
      generalize hr : reindex s w.disk = r at hw' habs hidx hitems hl' hix' hm'
      obtain ⟨s', d'⟩ := r
      simp only at hw' habs hidx hitems hl' hix' hm' ⊢
      have hidx' := hidx hl hix
      have hx : w.disk.hasIndex = true := by
        have := (hsi.linkedShape hm hl).2.2; rw [hix] at this; simpa using this.symm
      have hall : ∀ it ∈ w.disk.items, it.fid.isSome = true := by
        intro it hit; rw [(hw.disk.uniform it hit).2, hx]
      have hlook := lookup_find w.disk.items id hall
      rw [hidx']
      have hitems_spec : (absW w).items (absSess w.disk s) = w.disk.items := by
        simp [Spec.items, absW, absSess, hm]
      cases hlk : lookupIndex (buildIndex w.disk.items) id with
      | none =>
        rw [hlk] at hlook
        simp only at hlook ⊢
        refine ⟨hw', ?_⟩
        simp only [specStep, hsess, hfs, hitems_spec, hlook]
        rw [habs]
      | some i =>
        rw [hlk] at hlook
        obtain ⟨it, hit1, hit2⟩ := hlook
        simp only
        have hsi' := hw'.sess s' rfl
        obtain ⟨hinv, hfr, hout⟩ := getItem_spec d' s' i hw'.disk hsi'
        generalize hg : s'.getItem d' i = g at hinv hfr hout
        obtain ⟨s'', o⟩ := g
        simp only at hinv hfr hout ⊢
        refine ⟨⟨hw'.disk, ?_, ?_, ?_⟩, ?_⟩
        · intro t ht; cases ht; exact hinv
        · intro hxx hst
          apply hw'.index hxx
          intro t ht hlt
          cases ht
          have := hst s'' rfl (by rw [hfr.linked]; exact hlt)
          rw [hfr.stale] at this; exact this
        · exact MemStale.frame hw'.memStale (fun hm'' => (hsi'.memShape hm'').1) hfr
        · have habs2 : absW ⟨d', some s''⟩ = absW ⟨d', some s'⟩ := by
            have hmm : s'.mem = true → s'.linked = false := fun hm'' => (hsi'.memShape hm'').1
            have hv := hfr.visible d' hmm
            simp only [absW, Option.map_some, hfr.absSess d']
            congr 1
            simp only [hfr.mem]
            have : s'.mem = false := by rw [hm', hm]
            simp [this]
          rw [habs2, habs, hout]
          simp only [specStep, hsess, hfs, hitems_spec, hit2]
          unfold specGetOut visible
          simp only [hm', hm, hitems]
          have : s'.cache.maxBytes = s.cache.maxBytes := by
            unfold reindex at hr; split at hr <;> (cases hr; rfl)
          simp [tooLarge, absSess, hm, this, hit1]
    · -- in-memory store: scan the cached trajectories
      have hl' : s.linked = false := by simpa using hl
      rw [if_pos (by simp [hl'])]
      have hm : s.mem = true := by
        by_contra hm
        have hm : s.mem = false := by simpa using hm
        have := (hsi.pendingShape hm hl').2.2.2
        rw [hix] at this; cases this
      obtain ⟨⟨o, ho⟩, hout⟩ := scan_spec id s.cache.entries s.cache
      generalize hsc : opGetFlight.scan id s.cache s.cache.entries = r at ho hout
      obtain ⟨c, out⟩ := r
      simp only at ho hout ⊢
      subst ho
      refine ⟨hw.reorder s o hs, ?_⟩
      rw [absW_reorder w s o hs, hout]
      have hitems_spec : (absW w).items (absSess w.disk s) = s.cache.entries.map (·.2) := by
        simp [Spec.items, absW, absSess, hm, hs]
      simp only [specStep, hsess, hfs, hitems_spec]
      cases (s.cache.entries.map (·.2)).find? (fun it => it.fid = some id) with
      | none => rfl
      | some it => simp [tooLarge, absSess, hm]
  · have h1 : (s.indexable != some true) = true := by simp [hix]
    rw [h1, if_pos rfl]
    refine ⟨hw, ?_⟩
    simp only [specStep, hsess]
    cases hi : s.indexable with
    | none => simp [absSess, absSchema, hi]
    | some b =>
      cases b with
      | true => exact absurd hi hix
      | false => simp [absSess, absSchema, hi]

end Aeic.Store
